(* Path.v -- Go's lexical path functions on '/'-separated paths (Unix build of path/filepath),
   as far as internal/analysis uses them, plus the semantic reading of a path (a walk over
   its components) against which they are specified.  Definitions only.

   Granularity: [clean] mirrors filepath.Clean element by element (Clean's four cases: empty
   element, ".", "..", real element) over strings.Split(p, "/"); the byte-level lazybuf is not
   modelled.  The tie (tools/c11.py, stream "clean") compares [clean], [join_path],
   [tries_to_escape], [path_within], [clean_output_path] with the real functions on every string
   over {/ . a b} up to a length bound. *)
From Grog Require Export Str.

Definition dot : str := [ch_dot].
Definition dotdot : str := [ch_dot; ch_dot].
Definition slash : str := [ch_slash].

(* strings.Split(s, "/"): always at least one element *)
Fixpoint split_slash (s : str) : list str :=
  match s with
  | [] => [[]]
  | c :: s' =>
      if Ascii.eqb c ch_slash then [] :: split_slash s'
      else match split_slash s' with
           | [] => [[c]]
           | x :: r => (c :: x) :: r
           end
  end.

(* path.IsAbs / filepath.IsAbs on Unix *)
Definition is_abs (p : str) : bool :=
  match p with c :: _ => Ascii.eqb c ch_slash | [] => false end.

(* One element of Clean's main loop.  [st] is the output so far as a stack of elements, top
   first.  In a relative path the leading ".." elements are kept (Clean's [dotdot] index): the
   top of the stack is ".." exactly when the whole stack consists of ".." elements, which is
   Clean's "cannot backtrack" case.  In a rooted path ".." at the root is dropped. *)
Definition clean_step (rooted : bool) (st : list str) (c : str) : list str :=
  if null c || str_eqb c dot then st
  else if str_eqb c dotdot then
    match st with
    | top :: st' => if str_eqb top dotdot then dotdot :: st else st'
    | [] => if rooted then [] else [dotdot]
    end
  else c :: st.

Definition clean_stack (rooted : bool) (cs : list str) : list str :=
  fold_left (clean_step rooted) cs [].

(* elements, bottom first, joined with "/" *)
Definition render (st : list str) : str := join slash (rev st).

(* filepath.Clean *)
Definition clean (p : str) : str :=
  if null p then dot
  else
    let rooted := is_abs p in
    let body := render (clean_stack rooted (split_slash p)) in
    if rooted then ch_slash :: body
    else if null body then dot else body.

(* filepath.Join: the first non-empty element and everything after it joined by "/", cleaned;
   "" when every element is empty *)
Fixpoint join_path (elems : list str) : str :=
  match elems with
  | [] => []
  | e :: rest => if null e then join_path rest else clean (join slash elems)
  end.

(* analysis.pathTriesToEscape *)
Definition dotdot_slash : str := [ch_dot; ch_dot; ch_slash].
Definition tries_to_escape (p : str) : bool :=
  let c := clean p in has_prefix dotdot_slash c || str_eqb c dotdot.

(* analysis.pathWithin / pathsOverlap.  A cleaned path never starts with "./", so the
   workspace root "." is its own case: it contains every relative path that does not leave it. *)
Definition path_within (path dir : str) : bool :=
  str_eqb path dir ||
  (if str_eqb dir dot then negb (is_abs path) && negb (tries_to_escape path)
   else has_prefix (dir ++ slash) path).
Definition paths_overlap (a b : str) : bool := path_within a b || path_within b a.

(* filepath.Clean(filepath.Join(pkg, id)): an output as spelled from the workspace root, a leading
   ".." kept.  What conflict detection compared before it was given the workspace root, and what
   cleanOutputPath falls back to when filepath.Rel fails (never, with an absolute root). *)
Definition lexical_output_path (pkg id : str) : str := clean (join_path [pkg; id]).

(* ------------------------------------------------------------------ semantics *)

(* A relative path read as a walk from an unnamed directory: "" and "." stay, ".." goes to
   the parent, a name goes down.  [None]: the walk leaves the starting directory (the names
   above it are not known, so nothing after that point can be said to come back). *)
Fixpoint resolve_from (st : list str) (cs : list str) : option (list str) :=
  match cs with
  | [] => Some (rev st)
  | c :: cs' =>
      if null c || str_eqb c dot then resolve_from st cs'
      else if str_eqb c dotdot then
        match st with
        | [] => None
        | _ :: st' => resolve_from st' cs'
        end
      else resolve_from (c :: st) cs'
  end.
Definition resolve (p : str) : option (list str) := resolve_from [] (split_slash p).

(* the elements of a walk that stayed inside, written the way Clean writes them: "." for none *)
Definition render_rel (r : list str) : str :=
  match r with [] => dot | _ :: _ => join slash r end.

(* An absolute location: the walk starts at "/" where ".." stays at "/" (POSIX). *)
Fixpoint walk_abs (st : list str) (cs : list str) : list str :=
  match cs with
  | [] => rev st
  | c :: cs' =>
      if null c || str_eqb c dot then walk_abs st cs'
      else if str_eqb c dotdot then walk_abs (tl st) cs'
      else walk_abs (c :: st) cs'
  end.

Fixpoint comps_prefix (a b : list str) : bool :=
  match a, b with
  | [], _ => true
  | x :: a', y :: b' => str_eqb x y && comps_prefix a' b'
  | _ :: _, [] => false
  end.

Fixpoint comps_eqb (a b : list str) : bool :=
  match a, b with
  | [], [] => true
  | x :: a', y :: b' => str_eqb x y && comps_eqb a' b'
  | _, _ => false
  end.

(* The location of <root>/<pkg>/<rel>, the root given by its elements (e.g. ["w"; "ws"]). *)
Definition location (rootc : list str) (pkg rel : str) : list str :=
  walk_abs [] (rootc ++ split_slash pkg ++ split_slash rel).

(* analysis.isWithinWorkspace(root, pkg, rel):
     Abs(Join(root, pkg, rel))  -- root is absolute, so this is Clean(root/pkg/rel): the rooted
                                   element walk, ".." at "/" dropped;
     Rel(root, .)               -- strips the common leading elements and writes one ".." per
                                   remaining element of root;
     pathTriesToEscape          -- true iff that result starts with a ".." element,
   i.e. the check passes exactly when root's elements are a prefix of the cleaned path's.
   Only the FINAL path is compared: "../../ws/x" from package p of root /w/ws re-enters the
   workspace and passes.  Modelled at element level with the root's elements as a parameter
   (assumed clean: no "", "." or ".." and at least one element). *)
Definition is_within_workspace (rootc : list str) (pkg rel : str) : bool :=
  comps_prefix rootc (rev (clean_stack true (rootc ++ split_slash pkg ++ split_slash rel))).

(* filepath.Rel(base, targ) for two clean absolute paths given by their elements: the common
   leading elements are dropped, one ".." is written per remaining element of base, the rest of
   targ follows.  (Rel's error cases need a relative operand or a ".." element in base.) *)
Fixpoint rel_comps (base targ : list str) : list str :=
  match base, targ with
  | b :: base', t :: targ' =>
      if str_eqb b t then rel_comps base' targ' else map (fun _ => dotdot) base ++ targ
  | _, _ => map (fun _ => dotdot) base ++ targ
  end.

(* analysis.workspaceRelativePath(root, pkg, rel) = Rel(root, Abs(Join(root, pkg, rel))), the
   form isWithinWorkspace judges, as elements; Rel writes "." for none *)
Definition workspace_relative (rootc : list str) (pkg rel : str) : list str :=
  rel_comps rootc (rev (clean_stack true (rootc ++ split_slash pkg ++ split_slash rel))).

(* analysis.cleanOutputPath: the key conflict detection compares, i.e. the output resolved against
   the workspace root and written relative to it.  "../../ws/p1/a" from package p1 of root /w/ws is
   "p1/a"; an output outside the workspace keeps its leading ".." elements (and is rejected by
   the boundary test). *)
Definition clean_output_path (rootc : list str) (pkg id : str) : str :=
  render_rel (workspace_relative rootc pkg id).
