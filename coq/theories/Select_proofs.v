(* Select_proofs.v -- lemmas about Select.v (C12, C19, C20). *)
From Grog Require Import Str Label Graph Select HashKey_proofs.
From Coq Require Import Lia.

(* ------------------------------------------------------------------ reachability *)

Lemma reach_topo_lt g a n : topo g -> reach g a n -> a < n.
Proof.
  intros Ht H. induction H as [a n Hin | a b n Hab IH Hin].
  - exact (Ht _ _ Hin).
  - specialize (Ht _ _ Hin). lia.
Qed.

Lemma reach_transitive g a b c : reach g a b -> reach g b c -> reach g a c.
Proof.
  intros Hab Hbc. induction Hbc as [b c Hin | b m c Hbm IH Hin].
  - exact (reach_trans g a b c Hab Hin).
  - exact (reach_trans g a m c (IH Hab) Hin).
Qed.

(* one step down from n, then zero or more *)
Lemma reach_inv g x n : reach g x n <-> exists d, In d (deps g n) /\ reach_refl g x d.
Proof.
  split.
  - intro H. destruct H as [a n Hin | a b n Hab Hin].
    + exists a. split; [exact Hin | left; reflexivity].
    + exists b. split; [exact Hin | right; exact Hab].
  - intros [d [Hin [E | H]]].
    + subst. apply reach_step. exact Hin.
    + exact (reach_trans g x d n H Hin).
Qed.

Lemma reach_refl_trans g a b c : reach_refl g a b -> reach_refl g b c -> reach_refl g a c.
Proof.
  intros [E1 | H1] [E2 | H2]; subst.
  - left; reflexivity.
  - right; exact H2.
  - right; exact H1.
  - right; exact (reach_transitive g a b c H1 H2).
Qed.

Lemma reach_in_range g a n : topo g -> reach g a n -> n < size g.
Proof.
  intros Ht H. destruct H as [a n Hin | a b n Hab Hin];
    unfold deps, size in *;
    destruct (Nat.lt_ge_cases n (length g)) as [L | L]; try exact L;
    rewrite (nth_overflow g [] L) in Hin; destruct Hin.
Qed.

(* ------------------------------------------------------------------ selection (C12) *)

Lemma mem_nat_spec x l : mem_nat x l = true <-> In x l.
Proof.
  unfold mem_nat. rewrite existsb_exists. split.
  - intros [y [Hy E]]. apply Nat.eqb_eq in E. subst. exact Hy.
  - intro H. exists x. split; [exact H | apply Nat.eqb_refl].
Qed.

(* selectAllAncestorsForBuild with its visited map.  Invariant of the depth-first traversal under a
   topological numbering: the nodes of the map that are not yet finished are on the recursion stack,
   and all of them have an index >= the node being processed ([below_fin]); between two roots every
   node of the map is finished ([closed]), so the map is closed under dependencies. *)
Section Sel.
  Variable g : graph.
  Variable ok : nat -> bool.
  Hypothesis Ht : topo g.

  (* all dependencies of v are in the visited map *)
  Definition fin (vis : list nat) (v : nat) : Prop := forall d, In d (deps g v) -> In d vis.
  (* every node of the map below n is finished (the unfinished ones are on the recursion stack, all >= n) *)
  Definition below_fin (n : nat) (vis : list nat) : Prop := forall v, In v vis -> v < n -> fin vis v.
  Definition all_ok (vis : list nat) : Prop := forall v, In v vis -> ok v = true.

  Lemma fin_mono vis vis' v : incl vis vis' -> fin vis v -> fin vis' v.
  Proof. intros Hi Hf d Hd. apply Hi. exact (Hf d Hd). Qed.

  (* what a successful / failing traversal below a node d that is in the map means *)
  Definition anc_post (d : nat) (vis : list nat) (r : option (list nat)) : Prop :=
    match r with
    | Some vis' => incl vis vis' /\ fin vis' d /\ below_fin d vis' /\ all_ok vis' /\
                   (forall v, In v vis' -> In v vis \/ reach g v d)
    | None => exists x, reach g x d /\ ok x = false
    end.

  Definition anc_spec (rec : nat -> list nat -> option (list nat)) (d : nat) : Prop :=
    forall vis, In d vis -> below_fin d vis -> all_ok vis -> anc_post d vis (rec d vis).

  Definition list_post (n : nat) (ds vis : list nat) (r : option (list nat)) : Prop :=
    match r with
    | Some vis' => incl vis vis' /\ (forall d, In d ds -> In d vis') /\ below_fin n vis' /\ all_ok vis' /\
                   (forall v, In v vis' -> In v vis \/ exists d, In d ds /\ reach_refl g v d)
    | None => exists d x, In d ds /\ reach_refl g x d /\ ok x = false
    end.

  Lemma list_post_skip n d ds vis r :
    In d vis -> list_post n ds vis r -> list_post n (d :: ds) vis r.
  Proof.
    intros Hd. destruct r as [vis' |]; simpl.
    - intros [H1 [H2 [H3 [H4 H5]]]]. split; [exact H1 |]. split.
      + intros d' [E | Hd']; [subst d'; apply H1; exact Hd | exact (H2 d' Hd')].
      + split; [exact H3 |]. split; [exact H4 |].
        intros v Hv. destruct (H5 v Hv) as [Hin | [d' [Hd' Hr]]]; [left; exact Hin |].
        right. exists d'. split; [right; exact Hd' | exact Hr].
    - intros [d' [x [Hd' [Hr Hx]]]]. exists d', x. split; [right; exact Hd' | split; assumption].
  Qed.

  Lemma selv_list_spec rec n ds :
    (forall d, In d ds -> d < n) -> (forall d, In d ds -> anc_spec rec d) ->
    forall vis, below_fin n vis -> all_ok vis -> list_post n ds vis (selv_list ok rec ds vis).
  Proof.
    induction ds as [| d ds IH]; intros Hlt Hrec vis Hbf Hok.
    - simpl. split; [apply incl_refl |]. split; [intros d [] |]. split; [exact Hbf |].
      split; [exact Hok |]. intros v Hv. left. exact Hv.
    - assert (Hlt' : forall d', In d' ds -> d' < n) by (intros d' H; apply Hlt; right; exact H).
      assert (Hrec' : forall d', In d' ds -> anc_spec rec d') by (intros d' H; apply Hrec; right; exact H).
      cbn [selv_list]. destruct (mem_nat d vis) eqn:Em.
      + apply list_post_skip; [apply mem_nat_spec; exact Em |]. exact (IH Hlt' Hrec' vis Hbf Hok).
      + destruct (ok d) eqn:Eok.
        * assert (Hdn : d < n) by (apply Hlt; left; reflexivity).
          assert (Hd : anc_post d (d :: vis) (rec d (d :: vis))).
          { apply (Hrec d (or_introl eq_refl)).
            - left; reflexivity.
            - intros v [E | Hv] Hvd; [subst v; lia |].
              apply (fin_mono vis); [apply incl_tl, incl_refl | apply Hbf; [exact Hv | lia]].
            - intros v [E | Hv]; [subst v; exact Eok | exact (Hok v Hv)]. }
          destruct (rec d (d :: vis)) as [vis1 |].
          -- destruct Hd as [D1 [D2 [D3 [D4 D5]]]].
             assert (Hbf1 : below_fin n vis1).
             { intros v Hv Hvn. destruct (D5 v Hv) as [[E | Hin] | Hr].
               - subst v. exact D2.
               - apply (fin_mono vis); [intros y Hy; apply D1; right; exact Hy | exact (Hbf v Hin Hvn)].
               - apply D3; [exact Hv | exact (reach_topo_lt g v d Ht Hr)]. }
             pose proof (IH Hlt' Hrec' vis1 Hbf1 D4) as HI.
             destruct (selv_list ok rec ds vis1) as [vis' |]; simpl in HI |- *.
             ++ destruct HI as [I1 [I2 [I3 [I4 I5]]]]. split.
                ** intros y Hy. apply I1, D1. right. exact Hy.
                ** split.
                   --- intros d' [E | Hd']; [subst d'; apply I1, D1; left; reflexivity | exact (I2 d' Hd')].
                   --- split; [exact I3 |]. split; [exact I4 |].
                       intros v Hv. destruct (I5 v Hv) as [Hin | [d' [Hd' Hr]]].
                       +++ destruct (D5 v Hin) as [[E | Hin'] | Hr].
                           *** subst v. right. exists d. split; [left; reflexivity | left; reflexivity].
                           *** left. exact Hin'.
                           *** right. exists d. split; [left; reflexivity | right; exact Hr].
                       +++ right. exists d'. split; [right; exact Hd' | exact Hr].
             ++ destruct HI as [d' [x [Hd' [Hr Hx]]]]. exists d', x. split; [right; exact Hd' | split; assumption].
          -- destruct Hd as [x [Hr Hx]]. exists d, x.
             split; [left; reflexivity | split; [right; exact Hr | exact Hx]].
        * exists d, d. split; [left; reflexivity | split; [left; reflexivity | exact Eok]].
  Qed.

  Lemma selv_anc_spec : forall fuel n, n < fuel -> anc_spec (selv_anc g ok fuel) n.
  Proof.
    induction fuel as [| f IH]; intros n Hn; [lia |].
    intros vis Hin Hbf Hok. cbn [selv_anc].
    assert (HL : list_post n (deps g n) vis (selv_list ok (selv_anc g ok f) (deps g n) vis)).
    { apply selv_list_spec; [exact (Ht n) | | exact Hbf | exact Hok].
      intros d Hd. apply IH. specialize (Ht _ _ Hd). lia. }
    destruct (selv_list ok (selv_anc g ok f) (deps g n) vis) as [vis' |]; simpl in HL |- *.
    - destruct HL as [L1 [L2 [L3 [L4 L5]]]]. split; [exact L1 |]. split; [exact L2 |].
      split; [exact L3 |]. split; [exact L4 |].
      intros v Hv. destruct (L5 v Hv) as [H | [d [Hd Hr]]]; [left; exact H |].
      right. apply reach_inv. exists d. split; assumption.
    - destruct HL as [d [x [Hd [Hr Hx]]]]. exists x. split; [| exact Hx].
      apply reach_inv. exists d. split; assumption.
  Qed.

  (* between two roots every node of the map is finished *)
  Definition closed (vis : list nat) : Prop := forall v, In v vis -> fin vis v.

  Lemma closed_reach vis : closed vis -> forall v x, reach g x v -> In v vis -> In x vis.
  Proof.
    intros Hc v x Hr. induction Hr as [a n Hin | a b n Hab IH Hin]; intro Hn.
    - exact (Hc n Hn a Hin).
    - apply IH. exact (Hc n Hn b Hin).
  Qed.

  Definition roots_post (rs vis : list nat) (r : option (list nat)) : Prop :=
    match r with
    | Some vis' => incl vis vis' /\ (forall r, In r rs -> In r vis') /\ closed vis' /\ all_ok vis' /\
                   (forall v, In v vis' -> In v vis \/ exists r, In r rs /\ reach_refl g v r)
    | None => exists r x, In r rs /\ reach g x r /\ ok x = false
    end.

  Lemma roots_post_skip r rs vis res :
    In r vis -> roots_post rs vis res -> roots_post (r :: rs) vis res.
  Proof.
    intros Hr. destruct res as [vis' |]; simpl.
    - intros [H1 [H2 [H3 [H4 H5]]]]. split; [exact H1 |]. split.
      + intros r' [E | Hr']; [subst r'; apply H1; exact Hr | exact (H2 r' Hr')].
      + split; [exact H3 |]. split; [exact H4 |].
        intros v Hv. destruct (H5 v Hv) as [Hin | [r' [Hr' Hx]]]; [left; exact Hin |].
        right. exists r'. split; [right; exact Hr' | exact Hx].
    - intros [r' [x [Hr' [Hx Hk]]]]. exists r', x. split; [right; exact Hr' | split; assumption].
  Qed.

  Lemma selv_roots_post rs :
    (forall r, In r rs -> ok r = true) ->
    forall vis, closed vis -> all_ok vis -> roots_post rs vis (selv_roots g ok rs vis).
  Proof.
    induction rs as [| r rs IH]; intros Hrs vis Hc Hok.
    - simpl. split; [apply incl_refl |]. split; [intros r [] |]. split; [exact Hc |].
      split; [exact Hok |]. intros v Hv. left. exact Hv.
    - assert (Hrs' : forall r', In r' rs -> ok r' = true) by (intros r' H; apply Hrs; right; exact H).
      cbn [selv_roots]. destruct (mem_nat r vis) eqn:Em.
      + apply roots_post_skip; [apply mem_nat_spec; exact Em |]. exact (IH Hrs' vis Hc Hok).
      + assert (Hd : anc_post r (r :: vis) (selv_anc g ok (S r) r (r :: vis))).
        { apply selv_anc_spec; [lia | left; reflexivity | |].
          - intros v [E | Hv] Hvr; [subst v; lia |].
            apply (fin_mono vis); [apply incl_tl, incl_refl | exact (Hc v Hv)].
          - intros v [E | Hv]; [subst v; apply Hrs; left; reflexivity | exact (Hok v Hv)]. }
        destruct (selv_anc g ok (S r) r (r :: vis)) as [vis1 |].
        * destruct Hd as [D1 [D2 [D3 [D4 D5]]]].
          assert (Hc1 : closed vis1).
          { intros v Hv. destruct (D5 v Hv) as [[E | Hin] | Hr].
            - subst v. exact D2.
            - apply (fin_mono vis); [intros y Hy; apply D1; right; exact Hy | exact (Hc v Hin)].
            - apply D3; [exact Hv | exact (reach_topo_lt g v r Ht Hr)]. }
          pose proof (IH Hrs' vis1 Hc1 D4) as HI.
          destruct (selv_roots g ok rs vis1) as [vis' |]; simpl in HI |- *.
          -- destruct HI as [I1 [I2 [I3 [I4 I5]]]]. split.
             ++ intros y Hy. apply I1, D1. right. exact Hy.
             ++ split.
                ** intros r' [E | Hr']; [subst r'; apply I1, D1; left; reflexivity | exact (I2 r' Hr')].
                ** split; [exact I3 |]. split; [exact I4 |].
                   intros v Hv. destruct (I5 v Hv) as [Hin | [r' [Hr' Hx]]].
                   --- destruct (D5 v Hin) as [[E | Hin'] | Hr].
                       +++ subst v. right. exists r. split; [left; reflexivity | left; reflexivity].
                       +++ left. exact Hin'.
                       +++ right. exists r. split; [left; reflexivity | right; exact Hr].
                   --- right. exists r'. split; [right; exact Hr' | exact Hx].
          -- destruct HI as [r' [x [Hr' [Hx Hk]]]]. exists r', x. split; [right; exact Hr' | split; assumption].
        * destruct Hd as [x [Hx Hk]]. exists r, x. split; [left; reflexivity | split; assumption].
  Qed.

  Definition roots_spec (r : option (list nat)) (rs : list nat) : Prop :=
    match r with
    | Some m => (forall x, In x m <-> exists r, In r rs /\ reach_refl g x r)
                /\ (forall r x, In r rs -> reach g x r -> ok x = true)
    | None => exists r x, In r rs /\ reach g x r /\ ok x = false
    end.

  (* the visited map at the end is exactly the closure of the roots; the platform error is
     reported iff some root has a platform-incompatible transitive dependency *)
  Lemma select_roots_spec rs :
    (forall r, In r rs -> ok r = true) -> roots_spec (selv_roots g ok rs []) rs.
  Proof.
    intro Hrs.
    assert (H : roots_post rs [] (selv_roots g ok rs [])).
    { apply selv_roots_post; [exact Hrs | intros v [] | intros v []]. }
    destruct (selv_roots g ok rs []) as [m |]; simpl in H |- *; [| exact H].
    destruct H as [_ [H2 [H3 [H4 H5]]]]. split.
    - intro x. split.
      + intro Hx. destruct (H5 x Hx) as [[] | Hex]. exact Hex.
      + intros [r [Hr [E | Hx]]]; [subst x; exact (H2 r Hr) |].
        exact (closed_reach m H3 r x Hx (H2 r Hr)).
    - intros r x Hr Hx. apply H4. exact (closed_reach m H3 r x Hx (H2 r Hr)).
  Qed.
End Sel.

Lemma normalize_spec g m x : In x (normalize g m) <-> In x m /\ x < size g.
Proof.
  unfold normalize. rewrite filter_In, in_seq, mem_nat_spec. split.
  - intros [[_ H] Hm]. split; [exact Hm | exact H].
  - intros [Hm H]. split; [split; [lia | exact H] | exact Hm].
Qed.

(* --- the code's filter is the property's reading: the filters of a node are those of the target it
   stands for (repair of C12-F1 / C20-F2; before it an alias only had to match the pattern) *)

Lemma resolve_target g ns fuel i : nkind (attr ns i) = KTarget -> resolve g ns fuel i = i.
Proof. intro H. destruct fuel; simpl; [reflexivity | rewrite H; reflexivity]. Qed.

Lemma stands_for_target ns g i : nkind (attr ns i) = KTarget -> stands_for ns g i = i.
Proof. intro H. unfold stands_for. apply resolve_target. exact H. Qed.

Lemma node_match_spec cfg ns g i : node_match cfg ns g i = spec_rootb cfg ns g i.
Proof.
  unfold node_match, node_matches_filters, resolved_matches_platform, spec_rootb, passes_filters, target_filters.
  destruct (is_target (attr ns (stands_for ns g i))),
    (type_ok (ctype cfg) (attr ns (stands_for ns g i))), (matches_patterns (cpats cfg) (nlabel (attr ns i))),
    (tags_match cfg (attr ns (stands_for ns g i))), (excl_match cfg (attr ns (stands_for ns g i))),
    (node_matches_platform cfg (attr ns (stands_for ns g i))); reflexivity.
Qed.

(* for a target the rule is the familiar one: type, pattern, tags, exclude-tags and platform of the target itself *)
Lemma spec_root_target cfg ns g i :
  nkind (attr ns i) = KTarget ->
  spec_rootb cfg ns g i =
  matches_patterns (cpats cfg) (nlabel (attr ns i)) && target_filters cfg (attr ns i)
  && node_matches_platform cfg (attr ns i).
Proof.
  intro H. unfold spec_rootb, passes_filters. rewrite (stands_for_target ns g i H).
  unfold is_target. rewrite H. cbn [andb]. rewrite andb_assoc. reflexivity.
Qed.

(* an alias is a root iff it matches the pattern and the target it resolves to passes the filters *)
Lemma spec_root_alias cfg ns g i :
  nkind (attr ns i) = KAlias ->
  spec_rootb cfg ns g i =
  matches_patterns (cpats cfg) (nlabel (attr ns i)) &&
  (is_target (attr ns (stands_for ns g i)) && target_filters cfg (attr ns (stands_for ns g i))
   && node_matches_platform cfg (attr ns (stands_for ns g i))).
Proof. intros _. reflexivity. Qed.

(* the fuel of [resolve] is immaterial once it exceeds the index (every step goes to a smaller index) *)
Lemma resolve_stable g ns : topo g ->
  forall f1 f2 i, i < f1 -> i < f2 -> resolve g ns f1 i = resolve g ns f2 i.
Proof.
  intro Ht. induction f1 as [| f1 IH]; intros f2 i H1 H2; [lia |].
  destruct f2 as [| f2]; [lia |]. cbn [resolve].
  destruct (nkind (attr ns i)); [reflexivity |].
  destruct (deps g i) as [| d [| d' ds]] eqn:E; try reflexivity.
  assert (Hd : d < i) by (apply Ht; rewrite E; left; reflexivity).
  apply IH; lia.
Qed.

Lemma resolve_S g ns f i :
  resolve g ns (S f) i = match nkind (attr ns i), deps g i with
                         | KAlias, [d] => resolve g ns f d
                         | _, _ => i
                         end.
Proof. reflexivity. Qed.

(* an alias stands for what its `actual` stands for; hence it passes the filters iff its actual does *)
Lemma stands_for_alias ns g i d : topo g ->
  nkind (attr ns i) = KAlias -> deps g i = [d] -> stands_for ns g i = stands_for ns g d.
Proof.
  intros Ht K E. unfold stands_for. rewrite (resolve_S g ns i i), K, E.
  assert (Hd : d < i) by (apply Ht; rewrite E; left; reflexivity).
  apply (resolve_stable g ns Ht); lia.
Qed.

Lemma passes_filters_alias cfg ns g i d : topo g ->
  nkind (attr ns i) = KAlias -> deps g i = [d] -> passes_filters cfg ns g i = passes_filters cfg ns g d.
Proof. intros Ht K E. unfold passes_filters. rewrite (stands_for_alias ns g i d Ht K E). reflexivity. Qed.

Lemma passes_filters_target cfg ns g i :
  nkind (attr ns i) = KTarget ->
  passes_filters cfg ns g i = target_filters cfg (attr ns i) && node_matches_platform cfg (attr ns i).
Proof.
  intro K. unfold passes_filters. rewrite (stands_for_target ns g i K). unfold is_target. rewrite K. reflexivity.
Qed.

Lemma roots_eq_spec_roots cfg ns g : roots cfg ns g = spec_roots cfg ns g.
Proof. unfold roots, spec_roots. apply filter_ext. intro a. apply node_match_spec. Qed.

Lemma select_for_build_is_spec cfg ns g : select_for_build cfg ns g = select_for_build_spec cfg ns g.
Proof. unfold select_for_build, select_marks, select_for_build_spec. rewrite roots_eq_spec_roots. reflexivity. Qed.

Lemma roots_in cfg ns g r : In r (roots cfg ns g) <-> r < size g /\ node_match cfg ns g r = true.
Proof.
  unfold roots. rewrite filter_In, in_seq. split.
  - intros [[_ H] Hm]. split; assumption.
  - intros [H Hm]. split; [split; [lia | exact H] | exact Hm].
Qed.

Lemma spec_roots_in cfg ns g r : In r (spec_roots cfg ns g) <-> r < size g /\ spec_rootb cfg ns g r = true.
Proof. rewrite <- roots_eq_spec_roots, roots_in, node_match_spec. reflexivity. Qed.

(* a root has passed the platform check in the root loop; as a node it passes the node-level check the
   traversal applies to dependencies (an alias always does) *)
Lemma roots_plat_ok cfg ns g r : In r (roots cfg ns g) -> plat_okb cfg ns r = true.
Proof.
  intro H. apply roots_in in H. destruct H as [_ H]. unfold node_match in H.
  apply andb_true_iff in H. destruct H as [_ H]. unfold resolved_matches_platform in H. unfold plat_okb.
  destruct (nkind (attr ns r)) eqn:K.
  - rewrite (stands_for_target ns g r K) in H. exact H.
  - unfold node_matches_platform. rewrite K. reflexivity.
Qed.

(* selection = closure of the roots of the property's reading (the pattern matches whose target passes
   the tag / exclude-tag / type / platform filters), for every node *)
Lemma selection_is_closure cfg ns g S :
  topo g -> select_for_build cfg ns g = Selected S ->
  forall n, In n S <-> exists r, In r (spec_roots cfg ns g) /\ reach_refl g n r.
Proof.
  intros Ht Hs n. rewrite <- roots_eq_spec_roots. unfold select_for_build, select_marks in Hs.
  pose proof (select_roots_spec g (plat_okb cfg ns) Ht (roots cfg ns g) (roots_plat_ok cfg ns g)) as Hspec.
  destruct (selv_roots g (plat_okb cfg ns) (roots cfg ns g) []) as [m |]; [| discriminate].
  injection Hs as Hs. subst S. destruct Hspec as [H1 _].
  rewrite normalize_spec, H1. split.
  - intros [H _]. exact H.
  - intros [r [Hr Hx]]. split; [exists r; split; assumption |].
    apply roots_in in Hr. destruct Hr as [Hr _].
    destruct Hx as [E | Hx]; [subst; exact Hr |].
    pose proof (reach_topo_lt g n r Ht Hx). lia.
Qed.

Lemma platform_error_iff cfg ns g :
  topo g ->
  (select_for_build cfg ns g = PlatformError <->
   exists r n, In r (spec_roots cfg ns g) /\ reach g n r /\ node_matches_platform cfg (attr ns n) = false).
Proof.
  intro Ht. rewrite <- roots_eq_spec_roots. unfold select_for_build, select_marks.
  pose proof (select_roots_spec g (plat_okb cfg ns) Ht (roots cfg ns g) (roots_plat_ok cfg ns g)) as Hspec.
  destruct (selv_roots g (plat_okb cfg ns) (roots cfg ns g) []) as [m |].
  - destruct Hspec as [_ H2]. split; [discriminate |].
    intros [r [n [Hr [Hx Hp]]]]. specialize (H2 r n Hr Hx). unfold plat_okb in H2. congruence.
  - split; [| reflexivity]. intros _. exact Hspec.
Qed.

Lemma selection_closed cfg ns g S :
  topo g -> select_for_build cfg ns g = Selected S ->
  forall n a, In n S -> reach g a n -> In a S.
Proof.
  intros Ht Hs n a Hn Ha.
  rewrite (selection_is_closure cfg ns g S Ht Hs) in *.
  destruct Hn as [r [Hr Hx]]. exists r. split; [exact Hr |].
  exact (reach_refl_trans g a n r (or_intror Ha) Hx).
Qed.

(* no successful selection contains a platform-incompatible node below a root *)
Lemma selection_platform_ok cfg ns g S :
  topo g -> select_for_build cfg ns g = Selected S ->
  forall r n, In r (spec_roots cfg ns g) -> reach g n r -> node_matches_platform cfg (attr ns n) = true.
Proof.
  intros Ht Hs r n Hr Hx.
  destruct (node_matches_platform cfg (attr ns n)) eqn:E; [reflexivity |].
  assert (select_for_build cfg ns g = PlatformError) by (apply platform_error_iff; [exact Ht | exists r, n; auto]).
  congruence.
Qed.

(* every selected TARGET is a target that passes the filters itself, or a dependency (through aliases) of a root:
   an alias never brings in a target that nothing matched depends on *)
Lemma selected_target_justified cfg ns g S :
  topo g -> select_for_build cfg ns g = Selected S ->
  forall n, In n S -> nkind (attr ns n) = KTarget ->
  (matches_patterns (cpats cfg) (nlabel (attr ns n)) && target_filters cfg (attr ns n)
   && node_matches_platform cfg (attr ns n) = true) \/
  exists r, In r (spec_roots cfg ns g) /\ reach g n r.
Proof.
  intros Ht Hs n Hn K. apply (selection_is_closure cfg ns g S Ht Hs) in Hn.
  destruct Hn as [r [Hr [E | Hx]]].
  - subst r. left. apply spec_roots_in in Hr. destruct Hr as [_ Hr].
    rewrite (spec_root_target cfg ns g n K) in Hr. exact Hr.
  - right. exists r. split; assumption.
Qed.

(* concrete instances (they were the refutation witnesses of the full statements before the repair of
   C12-F1).  //:plain (no tag), alias //:al -> //:plain, //:tagged (tag x); grog build --tag=x //... *)
Definition lbl (n : str) : label := mkLabel [] n.
Definition w_plain : str := ["p"; "l"; "a"; "i"; "n"]%char.
Definition w_al : str := ["a"; "l"]%char.
Definition w_tagged : str := ["t"; "a"; "g"; "g"; "e"; "d"]%char.
Definition w_x : str := ["x"]%char.
Definition w_linux : str := ["l"; "i"; "n"; "u"; "x"; "/"; "a"; "m"; "d"; "6"; "4"]%char.
Definition w_win : str := ["w"; "i"; "n"; "d"; "o"; "w"; "s"; "/"; "a"; "m"; "d"; "6"; "4"]%char.

Definition wit_nodes : list node :=
  [ mkNode KTarget (lbl w_plain) [] [] false [];
    mkNode KAlias (lbl w_al) [] [] false [];
    mkNode KTarget (lbl w_tagged) [w_x] [] false [] ].
Definition wit_graph : graph := [[]; [0]; []].
Definition wit_cfg : config := mkCfg [match_all_pattern] [w_x] [] NonTestOnly w_linux false.

Lemma wit_topo : topo wit_graph.
Proof.
  intros i d H. unfold deps, wit_graph in H.
  destruct i as [| [| [| i]]]; simpl in H; try contradiction.
  - destruct H as [H | []]. subst. lia.
  - destruct i; simpl in H; contradiction.
Qed.

Lemma no_reach_leaf g n x : deps g n = [] -> ~ reach g x n.
Proof.
  intros E H. destruct H as [a n Hin | a b n Hab Hin]; rewrite E in Hin; exact Hin.
Qed.

(* the alias matches //... but the untagged target it stands for fails --tag=x: only //:tagged is a root and
   only it is selected (before the repair the selection was [0; 1; 2]) *)
Example alias_root_filtered :
  topo wit_graph /\ spec_roots wit_cfg wit_nodes wit_graph = [2] /\
  select_for_build wit_cfg wit_nodes wit_graph = Selected [2].
Proof. split; [exact wit_topo |]. split; vm_compute; reflexivity. Qed.

(* without the tag filter the alias is a root like its target *)
Example alias_root_kept :
  spec_roots (mkCfg [match_all_pattern] [] [] NonTestOnly w_linux false) wit_nodes wit_graph = [0; 1; 2] /\
  select_for_build (mkCfg [match_all_pattern] [] [] NonTestOnly w_linux false) wit_nodes wit_graph = Selected [0; 1; 2].
Proof. split; vm_compute; reflexivity. Qed.

(* an alias that is not a root is still selected when a root depends on it: //:tagged -> //:al -> //:plain *)
Example alias_followed_as_dependency :
  spec_roots wit_cfg wit_nodes [[]; [0]; [1]] = [2] /\
  select_for_build wit_cfg wit_nodes [[]; [0]; [1]] = Selected [0; 1; 2].
Proof. split; vm_compute; reflexivity. Qed.

(* //:win (windows only), alias //:al -> //:win, //:plain; grog build //... on linux: the alias is skipped
   like its target (before the repair: the fatal platform error) *)
Definition wit2_nodes : list node :=
  [ mkNode KTarget (lbl w_tagged) [] [w_win] false [];
    mkNode KAlias (lbl w_al) [] [] false [];
    mkNode KTarget (lbl w_plain) [] [] false [] ].
Definition wit2_cfg : config := mkCfg [match_all_pattern] [] [] NonTestOnly w_linux false.

Example alias_platform_skipped :
  spec_roots wit2_cfg wit2_nodes wit_graph = [2] /\
  select_for_build wit2_cfg wit2_nodes wit_graph = Selected [2] /\
  platform_skipped wit2_cfg wit2_nodes wit_graph = 1.
Proof. split; [| split]; vm_compute; reflexivity. Qed.

(* the platform error remains for a DEPENDENCY (also one reached through an alias) that does not match *)
Example platform_error_through_alias :
  select_for_build wit2_cfg wit2_nodes [[]; [0]; [1]] = PlatformError.
Proof. vm_compute; reflexivity. Qed.

(* ------------------------------------------------------------------ the visited traversals (C20, C19) *)

(* reachability along an arbitrary successor function *)
Inductive nreach (next : nat -> list nat) : nat -> nat -> Prop :=
| nreach_step x n : In x (next n) -> nreach next x n
| nreach_trans x b n : nreach next x b -> In b (next n) -> nreach next x n.

Lemma nreach_inv next x n :
  nreach next x n <-> exists d, In d (next n) /\ (x = d \/ nreach next x d).
Proof.
  split.
  - intro H. destruct H as [x n Hin | x b n Hxb Hin].
    + exists x. split; [exact Hin | left; reflexivity].
    + exists b. split; [exact Hin | right; exact Hxb].
  - intros [d [Hin [E | H]]].
    + subst. apply nreach_step. exact Hin.
    + exact (nreach_trans next x d n H Hin).
Qed.

(* the map only grows, at the front; no key is entered twice *)
Lemma dfs_list_suffix rec ds :
  (forall d st, exists new, fst (rec d st) = new ++ fst st) ->
  forall st, exists new, fst (dfs_list rec ds st) = new ++ fst st.
Proof.
  intro Hrec. induction ds as [| d ds IH]; intros [vis c].
  - exists []. reflexivity.
  - cbn [dfs_list]. destruct (mem_nat d vis).
    + exact (IH (vis, S c)).
    + destruct (IH (rec d (d :: vis, S c))) as [new2 E2].
      destruct (Hrec d (d :: vis, S c)) as [new1 E1]. cbn [fst] in E1.
      exists (new2 ++ new1 ++ [d]). rewrite E2, E1. cbn [fst]. rewrite <- !app_assoc. reflexivity.
Qed.

Lemma dfs_suffix next fuel : forall n st, exists new, fst (dfs next fuel n st) = new ++ fst st.
Proof.
  induction fuel as [| f IH]; intros n st.
  - exists []. reflexivity.
  - cbn [dfs]. destruct (dfs_list_suffix (dfs next f) (next n) (fun d st' => IH d st') (fst st, S (snd st))) as [new E].
    exists new. exact E.
Qed.

Lemma dfs_list_nodup rec ds :
  (forall d st, NoDup (fst st) -> NoDup (fst (rec d st))) ->
  forall st, NoDup (fst st) -> NoDup (fst (dfs_list rec ds st)).
Proof.
  intro Hrec. induction ds as [| d ds IH]; intros [vis c] Hnd; [exact Hnd |].
  cbn [dfs_list]. destruct (mem_nat d vis) eqn:Em.
  - apply IH. exact Hnd.
  - apply IH. apply Hrec. cbn [fst] in *. constructor; [| exact Hnd].
    intro H. apply mem_nat_spec in H. congruence.
Qed.

Lemma dfs_nodup next fuel : forall n st, NoDup (fst st) -> NoDup (fst (dfs next fuel n st)).
Proof.
  induction fuel as [| f IH]; intros n st Hnd; [exact Hnd |].
  cbn [dfs]. apply dfs_list_nodup; [intros d st'; apply IH | exact Hnd].
Qed.

Section DfsSpec.
  Variable next : nat -> list nat.
  Variable rank : nat -> nat.
  Hypothesis Hrank : forall n d, In d (next n) -> rank d < rank n.

  Lemma nreach_rank x n : nreach next x n -> rank x < rank n.
  Proof.
    intro H. induction H as [x n Hin | x b n Hxb IH Hin].
    - exact (Hrank n x Hin).
    - specialize (Hrank n b Hin). lia.
  Qed.

  Definition nfin (vis : list nat) (v : nat) : Prop := forall d, In d (next v) -> In d vis.
  Definition nbelow (k : nat) (vis : list nat) : Prop := forall v, In v vis -> rank v < k -> nfin vis v.

  Lemma nfin_mono vis vis' v : incl vis vis' -> nfin vis v -> nfin vis' v.
  Proof. intros Hi Hf d Hd. apply Hi. exact (Hf d Hd). Qed.

  Lemma nbelow_reach k vis : nbelow k vis -> forall v x, nreach next x v -> In v vis -> rank v < k -> In x vis.
  Proof.
    intros Hb v x Hr. induction Hr as [x v Hin | x b v Hxb IH Hin]; intros Hv Hk.
    - exact (Hb v Hv Hk x Hin).
    - apply IH; [exact (Hb v Hv Hk b Hin) | specialize (Hrank v b Hin); lia].
  Qed.

  Definition dpost (d : nat) (vis vis' : list nat) : Prop :=
    incl vis vis' /\ nfin vis' d /\ nbelow (rank d) vis' /\ (forall v, In v vis' -> In v vis \/ nreach next v d).

  Definition dspec (rec : nat -> list nat * nat -> list nat * nat) (d : nat) : Prop :=
    forall st, In d (fst st) -> nbelow (rank d) (fst st) -> dpost d (fst st) (fst (rec d st)).

  Definition lpost (k : nat) (ds vis vis' : list nat) : Prop :=
    incl vis vis' /\ (forall d, In d ds -> In d vis') /\ nbelow k vis' /\
    (forall v, In v vis' -> In v vis \/ exists d, In d ds /\ (v = d \/ nreach next v d)).

  Lemma dfs_list_spec rec k ds :
    (forall d, In d ds -> rank d < k) -> (forall d, In d ds -> dspec rec d) ->
    forall st, nbelow k (fst st) -> lpost k ds (fst st) (fst (dfs_list rec ds st)).
  Proof.
    induction ds as [| d ds IH]; intros Hlt Hrec [vis c] Hb; cbn [fst] in Hb.
    - cbn [dfs_list fst]. split; [apply incl_refl |]. split; [intros d [] |]. split; [exact Hb |].
      intros v Hv. left. exact Hv.
    - assert (Hlt' : forall d', In d' ds -> rank d' < k) by (intros d' H; apply Hlt; right; exact H).
      assert (Hrec' : forall d', In d' ds -> dspec rec d') by (intros d' H; apply Hrec; right; exact H).
      cbn [dfs_list]. destruct (mem_nat d vis) eqn:Em.
      + destruct (IH Hlt' Hrec' (vis, S c) Hb) as [I1 [I2 [I3 I4]]]. cbn [fst] in *.
        split; [exact I1 |]. split.
        * intros d' [E | Hd']; [subst d'; apply I1, mem_nat_spec; exact Em | exact (I2 d' Hd')].
        * split; [exact I3 |]. intros v Hv. destruct (I4 v Hv) as [H | [d' [Hd' Hr]]]; [left; exact H |].
          right. exists d'. split; [right; exact Hd' | exact Hr].
      + assert (Hdk : rank d < k) by (apply Hlt; left; reflexivity).
        assert (Hd : dpost d (d :: vis) (fst (rec d (d :: vis, S c)))).
        { apply (Hrec d (or_introl eq_refl) (d :: vis, S c)); cbn [fst].
          - left; reflexivity.
          - intros v [E | Hv] Hvd; [subst v; lia |].
            apply (nfin_mono vis); [apply incl_tl, incl_refl | apply Hb; [exact Hv | lia]]. }
        destruct Hd as [D1 [D2 [D3 D4]]].
        assert (Hb1 : nbelow k (fst (rec d (d :: vis, S c)))).
        { intros v Hv Hvk. destruct (D4 v Hv) as [[E | Hin] | Hr].
          - subst v. exact D2.
          - apply (nfin_mono vis); [intros y Hy; apply D1; right; exact Hy | exact (Hb v Hin Hvk)].
          - apply D3; [exact Hv | exact (nreach_rank v d Hr)]. }
        destruct (IH Hlt' Hrec' (rec d (d :: vis, S c)) Hb1) as [I1 [I2 [I3 I4]]]. cbn [fst].
        split.
        * intros y Hy. apply I1, D1. right. exact Hy.
        * split.
          -- intros d' [E | Hd']; [subst d'; apply I1, D1; left; reflexivity | exact (I2 d' Hd')].
          -- split; [exact I3 |]. intros v Hv. destruct (I4 v Hv) as [Hin | [d' [Hd' Hr]]].
             ++ destruct (D4 v Hin) as [[E | Hin'] | Hr].
                ** subst v. right. exists d. split; [left; reflexivity | left; reflexivity].
                ** left. exact Hin'.
                ** right. exists d. split; [left; reflexivity | right; exact Hr].
             ++ right. exists d'. split; [right; exact Hd' | exact Hr].
  Qed.

  Lemma dfs_spec : forall fuel n, rank n <= fuel -> dspec (dfs next fuel) n.
  Proof.
    induction fuel as [| f IH]; intros n Hn st Hin Hb.
    - cbn [dfs fst]. split; [apply incl_refl |]. split.
      + intros d Hd. specialize (Hrank n d Hd). lia.
      + split; [exact Hb |]. intros v Hv. left. exact Hv.
    - cbn [dfs].
      destruct (dfs_list_spec (dfs next f) (rank n) (next n) (Hrank n)
                  (fun d Hd => IH d ltac:(specialize (Hrank n d Hd); lia)) (fst st, S (snd st)) Hb)
        as [L1 [L2 [L3 L4]]]. cbn [fst] in *.
      split; [exact L1 |]. split; [exact L2 |]. split; [exact L3 |].
      intros v Hv. destruct (L4 v Hv) as [H | [d [Hd Hr]]]; [left; exact H |].
      right. apply nreach_inv. exists d. split; assumption.
  Qed.

  (* started from the map {n}: the keys entered are exactly the nodes reachable from n, each once *)
  Lemma dfs_from_start fuel n c : rank n <= fuel ->
    exists new, fst (dfs next fuel n ([n], c)) = new ++ [n] /\ NoDup new /\
                forall x, In x new <-> nreach next x n.
  Proof.
    intro Hn. destruct (dfs_suffix next fuel n ([n], c)) as [new E]. cbn [fst] in E.
    exists new. split; [exact E |].
    assert (Hnd : NoDup (new ++ [n])).
    { rewrite <- E. apply dfs_nodup. cbn [fst]. constructor; [intros [] | constructor]. }
    assert (Hnn : ~ In n new).
    { intro H. apply NoDup_remove_2 in Hnd. apply Hnd. rewrite app_nil_r. exact H. }
    split; [apply NoDup_remove_1 in Hnd; rewrite app_nil_r in Hnd; exact Hnd |].
    destruct (dfs_spec fuel n Hn ([n], c)) as [D1 [D2 [D3 D4]]]; cbn [fst].
    - left; reflexivity.
    - intros v [Ev | []] Hv. subst v. lia.
    - cbn [fst] in *. rewrite E in *. intro x. split.
      + intro Hx. destruct (D4 x (in_or_app _ _ _ (or_introl Hx))) as [[Ex | []] | Hr]; [| exact Hr].
        subst x. contradiction.
      + intro Hr. assert (Hx : In x (new ++ [n])).
        { apply nreach_inv in Hr. destruct Hr as [d [Hd [Ex | Hr]]].
          - subst x. exact (D2 d Hd).
          - exact (nbelow_reach (rank n) _ D3 d x Hr (D2 d Hd) (Hrank n d Hd)). }
        apply in_app_or in Hx. destruct Hx as [Hx | [Ex | []]]; [exact Hx |].
        subst x. pose proof (nreach_rank n n Hr). lia.
  Qed.
End DfsSpec.

(* --- the path enumerations (history) and the relation between the two reachability notions *)

Lemma paths_spec next (rank : nat -> nat) :
  (forall n d, In d (next n) -> rank d < rank n) ->
  forall fuel n x, rank n <= fuel -> (In x (paths next fuel n) <-> nreach next x n).
Proof.
  intros Hrank fuel. induction fuel as [| f IH]; intros n x Hn.
  - simpl. split; [intros [] |]. intro H. apply nreach_inv in H. destruct H as [d [Hd _]].
    specialize (Hrank _ _ Hd). lia.
  - simpl. rewrite in_flat_map, nreach_inv. split.
    + intros [d [Hd [E | Hin]]].
      * exists d. split; [exact Hd | left; symmetry; exact E].
      * exists d. split; [exact Hd | right]. apply (IH d x); [| exact Hin].
        specialize (Hrank _ _ Hd). lia.
    + intros [d [Hd [E | H]]].
      * exists d. split; [exact Hd | left; symmetry; exact E].
      * exists d. split; [exact Hd | right]. apply (IH d x); [| exact H].
        specialize (Hrank _ _ Hd). lia.
Qed.

Lemma nreach_deps g x n : nreach (deps g) x n <-> reach g x n.
Proof.
  split; intro H.
  - induction H as [x n Hin | x b n Hxb IH Hin]; [apply reach_step; exact Hin | exact (reach_trans g x b n IH Hin)].
  - induction H as [x n Hin | x b n Hxb IH Hin]; [apply nreach_step; exact Hin | exact (nreach_trans _ x b n IH Hin)].
Qed.

Lemma dependants_spec g i j : In j (dependants g i) <-> j < size g /\ In i (deps g j).
Proof.
  unfold dependants. rewrite in_flat_map. split.
  - intros [k [Hk Hin]]. apply in_seq in Hk. apply in_map_iff in Hin.
    destruct Hin as [y [E Hy]]. subst j. apply filter_In in Hy. destruct Hy as [Hy E].
    apply Nat.eqb_eq in E. subst y. split; [lia | exact Hy].
  - intros [Hj Hin]. exists j. split; [apply in_seq; lia |].
    apply in_map_iff. exists i. split; [reflexivity |].
    apply filter_In. split; [exact Hin | apply Nat.eqb_refl].
Qed.

(* reach g a b read from the dependency side: b is reachable from a along out-edges *)
Lemma nreach_dependants g a b : nreach (dependants g) b a <-> reach g a b.
Proof.
  split; intro H.
  - induction H as [x n Hin | x b' n Hxb IH Hin].
    + apply dependants_spec in Hin. apply reach_step. exact (proj2 Hin).
    + apply dependants_spec in Hin. apply (reach_transitive g n b' x); [apply reach_step; exact (proj2 Hin) | exact IH].
  - induction H as [a n Hin | a b' n Hab IH Hin].
    + apply nreach_step. apply dependants_spec. split; [| exact Hin].
      unfold deps, size in *. destruct (Nat.lt_ge_cases n (length g)) as [L | L]; [exact L |].
      rewrite (nth_overflow g [] L) in Hin. destruct Hin.
    + assert (Hn : nreach (dependants g) n b').
      { apply nreach_step. apply dependants_spec. split; [| exact Hin].
        unfold deps, size in *. destruct (Nat.lt_ge_cases n (length g)) as [L | L]; [exact L |].
        rewrite (nth_overflow g [] L) in Hin. destruct Hin. }
      clear Hin Hab. induction IH as [x m Hx | x c m Hxc IHc Hc].
      * exact (nreach_trans _ n x m Hn Hx).
      * exact (nreach_trans _ n c m (IHc Hn) Hc).
Qed.

Lemma ancestors_paths_exact g n x : topo g -> (In x (ancestors_paths g n) <-> reach g x n).
Proof.
  intro Ht. unfold ancestors_paths. rewrite <- nreach_deps.
  apply (paths_spec (deps g) (fun v => v)); [exact Ht | lia].
Qed.

Lemma descendants_paths_exact g n x : topo g -> (In x (descendants_paths g n) <-> reach g n x).
Proof.
  intro Ht. unfold descendants_paths. rewrite <- nreach_dependants.
  apply (paths_spec (dependants g) (fun v => size g - v)); [| lia].
  intros m d Hd. apply dependants_spec in Hd. destruct Hd as [Hd Hin].
  specialize (Ht _ _ Hin). lia.
Qed.

(* --- GetAncestors / GetDescendants: exactly the transitive dependencies / dependants, each once *)

Lemma visited_nodup next fuel n c : NoDup (rev (removelast (fst (dfs next fuel n ([n], c))))).
Proof.
  destruct (dfs_suffix next fuel n ([n], c)) as [new E]. cbn [fst] in E.
  assert (Hnd : NoDup (new ++ [n])).
  { rewrite <- E. apply dfs_nodup. cbn [fst]. constructor; [intros [] | constructor]. }
  rewrite E, removelast_last. apply NoDup_rev.
  apply NoDup_remove_1 in Hnd. rewrite app_nil_r in Hnd. exact Hnd.
Qed.

Lemma deps_t_nodup g n : NoDup (deps_t g n).
Proof.
  unfold deps_t, ancestors_visited.
  pose proof (visited_nodup (deps g) (S n) n 0) as H.
  destruct (dfs (deps g) (S n) n ([n], 0)) as [vis c]. exact H.
Qed.

Lemma rdeps_t_nodup g n : NoDup (rdeps_t g n).
Proof.
  unfold rdeps_t, descendants_visited.
  pose proof (visited_nodup (dependants g) (size g) n 0) as H.
  destruct (dfs (dependants g) (size g) n ([n], 0)) as [vis c]. exact H.
Qed.

Lemma dependants_rank g : topo g ->
  forall n d, In d (dependants g n) -> size g - d < size g - n.
Proof.
  intros Ht n d Hd. apply dependants_spec in Hd. destruct Hd as [Hd Hin].
  specialize (Ht _ _ Hin). lia.
Qed.

Lemma deps_t_exact g n x : topo g -> (In x (deps_t g n) <-> reach g x n).
Proof.
  intro Ht. unfold deps_t, ancestors_visited.
  destruct (dfs_from_start (deps g) (fun v => v) Ht (S n) n 0) as [new [E [_ Hin]]]; [lia |].
  destruct (dfs (deps g) (S n) n ([n], 0)) as [vis c]. cbn [fst] in *. subst vis.
  rewrite removelast_last, <- in_rev, Hin. apply nreach_deps.
Qed.

Lemma rdeps_t_exact g n x : topo g -> (In x (rdeps_t g n) <-> reach g n x).
Proof.
  intro Ht. unfold rdeps_t, descendants_visited.
  destruct (dfs_from_start (dependants g) (fun v => size g - v) (dependants_rank g Ht) (size g) n 0)
    as [new [E [_ Hin]]]; [lia |].
  destruct (dfs (dependants g) (size g) n ([n], 0)) as [vis c]. cbn [fst] in *. subst vis.
  rewrite removelast_last, <- in_rev, Hin. apply nreach_dependants.
Qed.

Lemma deps_rdeps_inverse g n x : topo g -> (In x (deps_t g n) <-> In n (rdeps_t g x)).
Proof.
  intro Ht. rewrite (deps_t_exact g n x Ht), (rdeps_t_exact g x n Ht). reflexivity.
Qed.

(* the traversals return the de-duplicated "all paths" enumerations *)
Lemma deps_t_is_ancestors_set g n x : topo g -> (In x (deps_t g n) <-> In x (ancestors_set g n)).
Proof.
  intro Ht. rewrite (deps_t_exact g n x Ht). unfold ancestors_set, dedup_nat. rewrite nodup_In.
  symmetry. apply ancestors_paths_exact. exact Ht.
Qed.

Lemma rdeps_t_is_descendants_set g n x : topo g -> (In x (rdeps_t g n) <-> In x (descendants_set g n)).
Proof.
  intro Ht. rewrite (rdeps_t_exact g n x Ht). unfold descendants_set, dedup_nat. rewrite nodup_In.
  symmetry. apply descendants_paths_exact. exact Ht.
Qed.

Lemma ancestors_set_exact g n : topo g ->
  NoDup (ancestors_set g n) /\ forall x, In x (ancestors_set g n) <-> reach g x n.
Proof.
  intro Ht. unfold ancestors_set, dedup_nat. split; [apply NoDup_nodup |].
  intro x. rewrite nodup_In. apply ancestors_paths_exact. exact Ht.
Qed.

Lemma descendants_set_exact g n : topo g ->
  NoDup (descendants_set g n) /\ forall x, In x (descendants_set g n) <-> reach g n x.
Proof.
  intro Ht. unfold descendants_set, dedup_nat. split; [apply NoDup_nodup |].
  intro x. rewrite nodup_In. apply descendants_paths_exact. exact Ht.
Qed.

(* the diamond 0 <- 1, 0 <- 2, {1,2} <- 3 *)
Definition diamond : graph := [[]; [0]; [0]; [1; 2]].

Lemma diamond_topo : topo diamond.
Proof.
  intros i d H. unfold deps, diamond in H.
  destruct i as [| [| [| [| i]]]]; simpl in H.
  - contradiction.
  - destruct H as [H | []]; lia.
  - destruct H as [H | []]; lia.
  - destruct H as [H | [H | []]]; lia.
  - destruct i; simpl in H; contradiction.
Qed.

(* history (C20-F1): the path enumerations returned a node once per path *)
Lemma ancestors_paths_nodup_refuted : exists g n, topo g /\ ~ NoDup (ancestors_paths g n).
Proof.
  exists diamond, 3. split; [exact diamond_topo |].
  assert (E : ancestors_paths diamond 3 = [1; 0; 2; 0]) by (vm_compute; reflexivity).
  rewrite E. intro H. inversion H as [| a l Hn Hd]; subst.
  inversion Hd as [| a l Hn' Hd']; subst. apply Hn'. right. left. reflexivity.
Qed.

Lemma descendants_paths_nodup_refuted : exists g n, topo g /\ ~ NoDup (descendants_paths g n).
Proof.
  exists diamond, 0. split; [exact diamond_topo |].
  assert (E : descendants_paths diamond 0 = [1; 3; 2; 3]) by (vm_compute; reflexivity).
  rewrite E. intro H. inversion H as [| a l Hn Hd]; subst.
  inversion Hd as [| a l Hn' Hd']; subst. apply Hn'. right. left. reflexivity.
Qed.

(* --- printing *)

Lemma insert_sorted_in x y l : In x (insert_sorted y l) <-> x = y \/ In x l.
Proof.
  induction l as [| z l IH]; simpl.
  - split; [intros [E | []]; left; symmetry; exact E | intros [E | []]; left; symmetry; exact E].
  - destruct (str_leb y z).
    + simpl. split; [intros [E | H]; [left; symmetry; exact E | right; exact H]
                    | intros [E | H]; [left; symmetry; exact E | right; exact H]].
    + simpl. rewrite IH. split.
      * intros [E | [E | H]]; [right; left; exact E | left; exact E | right; right; exact H].
      * intros [E | [E | H]]; [right; left; exact E | left; exact E | right; right; exact H].
Qed.

Lemma sort_strs_in x l : In x (sort_strs l) <-> In x l.
Proof.
  induction l as [| y l IH]; simpl; [reflexivity |].
  rewrite insert_sorted_in, IH. split; intros [E | H]; auto.
Qed.

Lemma sorted_labels_in ns l s :
  In s (sorted_labels ns l) <-> exists i, In i l /\ s = print_label (nlabel (attr ns i)).
Proof.
  unfold sorted_labels. rewrite sort_strs_in, in_map_iff. split.
  - intros [i [E Hi]]. exists i. split; [exact Hi | symmetry; exact E].
  - intros [i [Hi E]]. exists i. split; [symmetry; exact E | exact Hi].
Qed.

(* slices.Compact keeps the elements ... *)
Lemma compact_strs_cons2 x y l :
  compact_strs (x :: y :: l) = if str_eqb x y then compact_strs (y :: l) else x :: compact_strs (y :: l).
Proof. reflexivity. Qed.

Lemma compact_strs_in x l : In x (compact_strs l) <-> In x l.
Proof.
  induction l as [| a l IH]; [reflexivity |].
  destruct l as [| b l]; [reflexivity |].
  rewrite compact_strs_cons2. destruct (str_eqb a b) eqn:E.
  - apply str_eqb_eq in E. subst b. rewrite IH. split; [intro H; right; exact H |].
    intros [Ea | H]; [left; exact Ea | exact H].
  - split.
    + intros [Ea | H]; [left; exact Ea | right; apply IH; exact H].
    + intros [Ea | H]; [left; exact Ea | right; apply IH; exact H].
Qed.

(* ... and on a sorted list no element survives twice *)
Lemma compact_strs_nodup l : sorted l -> NoDup (compact_strs l).
Proof.
  induction l as [| a l IH]; intro Hs; [constructor |].
  destruct l as [| b l]; [constructor; [intros [] | constructor] |].
  destruct Hs as [Ha Hs]. rewrite compact_strs_cons2. destruct (str_eqb a b) eqn:E; [exact (IH Hs) |].
  constructor; [| exact (IH Hs)].
  intro Hin. rewrite compact_strs_in in Hin. apply str_eqb_neq in E. apply E.
  destruct Hin as [Eb | Hin]; [symmetry; exact Eb |].
  apply str_leb_antisym; [apply Ha; left; reflexivity |].
  destruct Hs as [Hb _]. apply Hb. exact Hin.
Qed.

Lemma print_sorted_in ns l s :
  In s (print_sorted ns l) <-> exists i, In i l /\ s = print_label (nlabel (attr ns i)).
Proof. unfold print_sorted. rewrite compact_strs_in. apply sorted_labels_in. Qed.

(* label.PrintSorted prints every label once, whatever it is given *)
Lemma print_sorted_nodup ns l : NoDup (print_sorted ns l).
Proof. unfold print_sorted, sorted_labels. apply compact_strs_nodup. apply sort_strs_sorted. Qed.

(* the query selector has no patterns: a node is printed iff the target it stands for passes the
   type / tag / exclude-tag / platform filters (before the repair of C20-F2 every alias was printed) *)
Lemma query_match cfg ns g x : node_match (query_cfg cfg) ns g x = passes_filters cfg ns g x.
Proof. rewrite node_match_spec. reflexivity. Qed.

Lemma deps_query_exact cfg ns g n s : topo g ->
  (In s (deps_query cfg ns g n true) <->
   exists x, reach g x n /\ passes_filters cfg ns g x = true /\ s = print_label (nlabel (attr ns x))).
Proof.
  intro Ht. unfold deps_query, filter_nodes. rewrite print_sorted_in. split.
  - intros [i [Hi E]]. apply filter_In in Hi. destruct Hi as [Hi Hm]. rewrite query_match in Hm.
    exists i. split; [apply (deps_t_exact g n i Ht); exact Hi | split; assumption].
  - intros [x [Hx [Hm E]]]. exists x. split; [| exact E].
    apply filter_In. split; [apply (deps_t_exact g n x Ht); exact Hx | rewrite query_match; exact Hm].
Qed.

Lemma rdeps_query_exact cfg ns g n s : topo g ->
  (In s (rdeps_query cfg ns g n true) <->
   exists x, reach g n x /\ passes_filters cfg ns g x = true /\ s = print_label (nlabel (attr ns x))).
Proof.
  intro Ht. unfold rdeps_query, filter_nodes. rewrite print_sorted_in. split.
  - intros [i [Hi E]]. apply filter_In in Hi. destruct Hi as [Hi Hm]. rewrite query_match in Hm.
    exists i. split; [apply (rdeps_t_exact g n i Ht); exact Hi | split; assumption].
  - intros [x [Hx [Hm E]]]. exists x. split; [| exact E].
    apply filter_In. split; [apply (rdeps_t_exact g n x Ht); exact Hx | rewrite query_match; exact Hm].
Qed.

Lemma deps_query_direct_exact cfg ns g n s :
  (In s (deps_query cfg ns g n false) <->
   exists x, In x (deps g n) /\ passes_filters cfg ns g x = true /\ s = print_label (nlabel (attr ns x))).
Proof.
  unfold deps_query, filter_nodes. rewrite print_sorted_in. split.
  - intros [i [Hi E]]. apply filter_In in Hi. destruct Hi as [Hi Hm]. rewrite query_match in Hm. exists i. auto.
  - intros [x [Hx [Hm E]]]. exists x. split; [apply filter_In; rewrite query_match; auto | exact E].
Qed.

Lemma rdeps_query_direct_exact cfg ns g n s :
  (In s (rdeps_query cfg ns g n false) <->
   exists x, x < size g /\ In n (deps g x) /\ passes_filters cfg ns g x = true
             /\ s = print_label (nlabel (attr ns x))).
Proof.
  unfold rdeps_query, filter_nodes. rewrite print_sorted_in. split.
  - intros [i [Hi E]]. apply filter_In in Hi. destruct Hi as [Hi Hm]. rewrite query_match in Hm.
    apply dependants_spec in Hi. exists i. tauto.
  - intros [x [Hx [Hin [Hm E]]]]. exists x. split; [| exact E].
    apply filter_In. split; [apply dependants_spec; auto | rewrite query_match; exact Hm].
Qed.

(* printed level: every line once, for every query *)
Lemma deps_query_nodup cfg ns g n t : NoDup (deps_query cfg ns g n t).
Proof. unfold deps_query. apply print_sorted_nodup. Qed.

Lemma rdeps_query_nodup cfg ns g n t : NoDup (rdeps_query cfg ns g n t).
Proof. unfold rdeps_query. apply print_sorted_nodup. Qed.

Lemma owners_nodup ns files : NoDup (owners ns files).
Proof. unfold owners. apply print_sorted_nodup. Qed.

(* the diamond: //:plain (the base) is printed once *)
Definition dia_nodes : list node :=
  map (fun n => mkNode KTarget (lbl n) [] [] false []) [w_plain; w_al; w_x; w_tagged].
Definition all_cfg : config := mkCfg [] [] [] AllTargets w_linux false.

Example deps_query_diamond :
  deps_query all_cfg dia_nodes diamond 3 true =
  [dslash ++ ch_colon :: w_al; dslash ++ ch_colon :: w_plain; dslash ++ ch_colon :: w_x].
Proof. vm_compute. reflexivity. Qed.

(* a dependency declared twice is printed once by the direct query *)
Example deps_query_declared_twice :
  deps_query all_cfg dia_nodes [[]; [0; 0]] 1 false = [dslash ++ ch_colon :: w_plain].
Proof. vm_compute. reflexivity. Qed.

(* //:tagged -> alias //:al -> //:plain (untagged).  With --tag=x neither //:plain nor the alias that stands for it
   is printed (before the repair of C20-F2 the alias was); without the filter both are; `list --tag=x //...`
   prints //:tagged only *)
Example deps_query_alias_filtered :
  deps_query (mkCfg [] [w_x] [] AllTargets w_linux false) wit_nodes [[]; [0]; [1]] 2 true = [] /\
  deps_query all_cfg wit_nodes [[]; [0]; [1]] 2 true = [dslash ++ ch_colon :: w_al; dslash ++ ch_colon :: w_plain] /\
  rdeps_query (mkCfg [] [] [w_x] AllTargets w_linux false) wit_nodes [[]; [0]; [1]] 0 true = [dslash ++ ch_colon :: w_al] /\
  list_query wit_cfg wit_nodes wit_graph = [dslash ++ ch_colon :: w_tagged].
Proof. repeat split; vm_compute; reflexivity. Qed.

Lemma owners_exact ns files s :
  In s (owners ns files) <->
  exists i, i < length ns /\ is_target (attr ns i) = true /\
            (exists f inp, In f files /\ In inp (ninputs (attr ns i)) /\
                           canon_input (lpkg (nlabel (attr ns i))) inp = canon_arg f) /\
            s = print_label (nlabel (attr ns i)).
Proof.
  unfold owners, owners_idx. rewrite print_sorted_in. split.
  - intros [i [Hi E]]. apply filter_In in Hi. destruct Hi as [Hi Hex]. apply in_seq in Hi.
    apply existsb_exists in Hex. destruct Hex as [f [Hf Ho]]. unfold owns in Ho.
    apply andb_true_iff in Ho. destruct Ho as [Ht Ho]. apply existsb_exists in Ho.
    destruct Ho as [inp [Hinp Eq]]. apply str_eqb_eq in Eq.
    exists i. split; [lia |]. split; [exact Ht |]. split; [exists f, inp; auto | exact E].
  - intros [i [Hi [Ht [[f [inp [Hf [Hinp Eq]]]] E]]]]. exists i. split; [| exact E].
    apply filter_In. split; [apply in_seq; lia |].
    apply existsb_exists. exists f. split; [exact Hf |]. unfold owns. rewrite Ht. simpl.
    apply existsb_exists. exists inp. split; [exact Hinp | apply str_eqb_eq; exact Eq].
Qed.

Lemma list_exact cfg ns g s :
  In s (list_query cfg ns g) <->
  exists i, i < size g /\ matches_patterns (cpats cfg) (nlabel (attr ns i)) = true /\
            passes_filters cfg ns g i = true /\ s = print_label (nlabel (attr ns i)).
Proof.
  unfold list_query, select_targets. rewrite sorted_labels_in. split.
  - intros [i [Hi E]]. apply filter_In in Hi. destruct Hi as [Hi Hm]. apply in_seq in Hi.
    rewrite node_match_spec in Hm. unfold spec_rootb in Hm. apply andb_true_iff in Hm.
    exists i. split; [lia | tauto].
  - intros [i [Hi [Hf [Hp E]]]]. exists i. split; [| exact E].
    apply filter_In. split; [apply in_seq; lia |]. rewrite node_match_spec. unfold spec_rootb.
    rewrite Hf, Hp. reflexivity.
Qed.

(* `list` prints every selected label once when labels are unique *)
Lemma list_targets_nodup cfg ns g : NoDup (select_targets cfg ns g).
Proof. unfold select_targets. apply NoDup_filter. apply seq_NoDup. Qed.

(* ------------------------------------------------------------------ history: cost of the path enumerations (C19-F1..F3) *)

(* These lemmas speak about [paths_c] / [sel_anc_c], the traversals as they were BEFORE the
   visited sets; they document what the repaired findings were. *)

(* the instrumented twins compute the same results, and the number of calls of the
   path-enumerating functions is the length of the result + 1 *)
Lemma paths_c_spec next fuel n :
  fst (paths_c next fuel n) = paths next fuel n /\
  snd (paths_c next fuel n) = S (length (paths next fuel n)).
Proof.
  revert n. induction fuel as [| f IH]; intro n; [simpl; auto |].
  simpl. induction (next n) as [| d ds IHds]; [simpl; auto |].
  simpl. destruct (paths_c next f d) as [r c] eqn:E.
  destruct (IH d) as [I1 I2]. rewrite E in I1, I2. simpl in I1, I2. subst r c.
  destruct IHds as [J1 J2]. simpl. rewrite J1, J2. split; [reflexivity |].
  rewrite app_length. simpl. lia.
Qed.

(* without platform constraints the former selection made exactly the calls of the former GetAncestors *)
Lemma sel_list_c_true (rec : nat -> option (list nat) * nat) (c : nat -> nat) ds :
  (forall d, exists m, rec d = (Some m, c d)) ->
  exists m, sel_list_c (fun _ => true) rec ds = (Some m, list_sum (map c ds)).
Proof.
  intro H. induction ds as [| d ds [m2 IH]]; [exists []; reflexivity |].
  simpl. destruct (H d) as [m1 E]. rewrite E, IH. eexists. reflexivity.
Qed.

Lemma sel_anc_c_true g fuel n :
  exists m, sel_anc_c g (fun _ => true) fuel n = (Some m, S (length (paths (deps g) fuel n))).
Proof.
  revert n. induction fuel as [| f IH]; intro n; [exists []; reflexivity |].
  simpl.
  destruct (sel_list_c_true (sel_anc_c g (fun _ => true) f) (fun d => S (length (paths (deps g) f d))) (deps g n) IH) as [m E].
  rewrite E. exists m. f_equal. f_equal. clear E.
  induction (deps g n) as [| d ds IHd]; [reflexivity |].
  simpl. rewrite app_length, IHd. reflexivity.
Qed.

Lemma select_paths_cost_eq g r : select_paths_cost g r = S (length (ancestors_paths g r)).
Proof.
  unfold select_paths_cost, select_ancestors_c, ancestors_paths.
  destruct (sel_anc_c_true g (S r) r) as [m E]. rewrite E. reflexivity.
Qed.

Lemma ancestors_paths_cost_eq g n : ancestors_paths_cost g n = S (length (ancestors_paths g n)).
Proof. unfold ancestors_paths_cost, ancestors_paths_c, ancestors_paths. apply paths_c_spec. Qed.

Lemma descendants_paths_cost_eq g n : descendants_paths_cost g n = S (length (descendants_paths g n)).
Proof. unfold descendants_paths_cost, descendants_paths_c, descendants_paths. apply paths_c_spec. Qed.

(* --- ladders *)

Lemma nth_flat_map_const {A} (f : nat -> list A) (w : nat) (dflt : A) :
  (forall x, length (f x) = w) ->
  forall n a q r, q < n -> r < w ->
    nth (q * w + r) (flat_map f (seq a n)) dflt = nth r (f (a + q)) dflt.
Proof.
  intros Hlen n. induction n as [| n IH]; intros a q r Hq Hr; [lia |].
  simpl. destruct q as [| q].
  - simpl. rewrite app_nth1 by (rewrite Hlen; exact Hr). rewrite Nat.add_0_r. reflexivity.
  - rewrite app_nth2 by (rewrite Hlen; simpl; lia). rewrite Hlen.
    replace (S q * w + r - w) with (q * w + r) by (simpl; lia).
    rewrite IH by lia. f_equal. f_equal. lia.
Qed.

Lemma deps_ladder w d l k : l <= d -> k < w ->
  deps (ladder w d) (l * w + k) = match l with 0 => [] | S l' => seq (l' * w) w end.
Proof.
  intros Hl Hk. unfold deps, ladder.
  rewrite (nth_flat_map_const _ w []); [| intro x; rewrite map_length, seq_length; reflexivity | lia | exact Hk].
  simpl. rewrite (nth_indep _ [] (match l with 0 => [] | S l' => seq (l' * w) w end)) by (rewrite map_length, seq_length; exact Hk).
  rewrite (map_nth (fun _ : nat => match l with 0 => [] | S l' => seq (l' * w) w end) (seq 0 w) 0 k) at 1.
  reflexivity.
Qed.

Fixpoint geom (w l : nat) : nat := match l with 0 => 1 | S l' => 1 + w * geom w l' end.

Lemma flat_map_length_const {A B} (f : A -> list B) (c : nat) l :
  (forall x, In x l -> length (f x) = c) -> length (flat_map f l) = length l * c.
Proof.
  intro H. induction l as [| x l IH]; [reflexivity |].
  simpl. rewrite app_length, (H x (or_introl eq_refl)), IH; [reflexivity |].
  intros y Hy. apply H. right. exact Hy.
Qed.

Lemma paths_S next f n : paths next (S f) n = flat_map (fun d => d :: paths next f d) (next n).
Proof. reflexivity. Qed.

Lemma ladder_paths_length w d : forall l k fuel, l <= d -> k < w -> l * w + k < fuel ->
  S (length (paths (deps (ladder w d)) fuel (l * w + k))) = geom w l.
Proof.
  induction l as [| l IH]; intros k fuel Hl Hk Hf.
  - destruct fuel as [| f]; [lia |]. rewrite paths_S, (deps_ladder w d 0 k Hl Hk). reflexivity.
  - destruct fuel as [| f]; [lia |]. rewrite paths_S, (deps_ladder w d (S l) k Hl Hk).
    rewrite (flat_map_length_const _ (geom w l)).
    + rewrite seq_length. simpl. reflexivity.
    + intros x Hx. apply in_seq in Hx. cbn [length].
      replace x with (l * w + (x - l * w)) by lia.
      apply IH; [lia | lia | simpl in Hf; lia].
Qed.

Lemma select_cost_ladder w d k : k < w -> select_paths_cost (ladder w d) (d * w + k) = geom w d.
Proof.
  intro Hk. rewrite select_paths_cost_eq. unfold ancestors_paths.
  apply ladder_paths_length; [lia | exact Hk | lia].
Qed.

Lemma ancestors_cost_ladder w d k : k < w -> ancestors_paths_cost (ladder w d) (d * w + k) = geom w d.
Proof.
  intro Hk. rewrite ancestors_paths_cost_eq. unfold ancestors_paths.
  apply ladder_paths_length; [lia | exact Hk | lia].
Qed.

Lemma geom_2 l : geom 2 l = 2 ^ (l + 1) - 1.
Proof.
  induction l as [| l IH]; [reflexivity |].
  simpl geom. rewrite IH. replace (S l + 1) with (S (l + 1)) by lia.
  rewrite Nat.pow_succ_r'. assert (2 ^ (l + 1) >= 1) by (apply Nat.neq_0_lt_0, Nat.pow_nonzero; lia). lia.
Qed.

Lemma select_cost_ladder2 d : select_paths_cost (ladder 2 d) (2 * d) = 2 ^ (d + 1) - 1.
Proof.
  replace (2 * d) with (d * 2 + 0) by lia. rewrite select_cost_ladder by lia. apply geom_2.
Qed.

Lemma ancestors_cost_ladder2 d : ancestors_paths_cost (ladder 2 d) (2 * d) = 2 ^ (d + 1) - 1.
Proof.
  replace (2 * d) with (d * 2 + 0) by lia. rewrite ancestors_cost_ladder by lia. apply geom_2.
Qed.

(* --- chains *)

Lemma deps_chain n i : i < n -> deps (chain n) i = match i with 0 => [] | S j => [j] end.
Proof.
  intro Hi. unfold deps, chain.
  pose proof (map_nth (fun i => match i with 0 => [] | S j => [j] end) (seq 0 n) 0 i) as E.
  cbv beta iota in E. rewrite E, seq_nth by exact Hi. reflexivity.
Qed.

Lemma chain_paths_length n : forall i fuel, i < n -> i < fuel ->
  S (length (paths (deps (chain n)) fuel i)) = S i.
Proof.
  induction i as [| i IH]; intros fuel Hi Hf.
  - destruct fuel; [lia |]. simpl. rewrite (deps_chain n 0 Hi). reflexivity.
  - destruct fuel as [| f]; [lia |]. simpl. rewrite (deps_chain n (S i) Hi). simpl.
    rewrite app_nil_r. rewrite (IH f); [reflexivity | lia | lia].
Qed.

Lemma select_cost_chain n : 0 < n -> select_paths_cost (chain n) (n - 1) = n.
Proof.
  intro Hn. rewrite select_paths_cost_eq. unfold ancestors_paths.
  rewrite chain_paths_length by lia. lia.
Qed.

Lemma chain_topo n : topo (chain n).
Proof.
  intros i d H. destruct (Nat.lt_ge_cases i n) as [L | L].
  - rewrite (deps_chain n i L) in H. destruct i; [contradiction |]. destruct H as [H | []]. lia.
  - unfold deps, chain in H. rewrite nth_overflow in H by (rewrite map_length, seq_length; exact L). contradiction.
Qed.

Lemma ladder_length w d : size (ladder w d) = S d * w.
Proof.
  unfold size, ladder. rewrite (flat_map_length_const _ w).
  - rewrite seq_length. reflexivity.
  - intros x _. rewrite map_length, seq_length. reflexivity.
Qed.

Lemma ladder_topo w d : topo (ladder w d).
Proof.
  intros i x H. destruct (Nat.lt_ge_cases i (S d * w)) as [L | L].
  - destruct w as [| w]; [lia |].
    assert (E : i = (i / S w) * S w + i mod S w) by (rewrite Nat.mul_comm; apply Nat.div_mod; lia).
    assert (Hk : i mod S w < S w) by (apply Nat.mod_upper_bound; lia).
    assert (Hl : i / S w <= d).
    { apply Nat.lt_succ_r. apply Nat.div_lt_upper_bound; [lia |]. rewrite Nat.mul_comm. exact L. }
    rewrite E in H. rewrite (deps_ladder (S w) d _ _ Hl Hk) in H.
    destruct (i / S w) as [| l']; [contradiction |]. apply in_seq in H. lia.
  - unfold deps in H. rewrite nth_overflow in H by (fold (size (ladder w d)); rewrite ladder_length; exact L).
    contradiction.
Qed.

(* --- the code as it was: exponential on ladders, linear on chains *)

Lemma select_poly_refuted :
  exists g r, topo g /\ select_paths_cost g r > 4 * (size g + edges g + 1) ^ 2.
Proof.
  exists (ladder 2 14), (2 * 14). split; [apply ladder_topo |].
  rewrite select_cost_ladder2. unfold gt. apply Nat.ltb_lt. vm_compute. reflexivity.
Qed.

Lemma ancestors_poly_refuted :
  exists g n, topo g /\ ancestors_paths_cost g n > 4 * (size g + edges g + 1) ^ 2.
Proof.
  exists (ladder 2 14), (2 * 14). split; [apply ladder_topo |].
  rewrite ancestors_cost_ladder2. unfold gt. apply Nat.ltb_lt. vm_compute. reflexivity.
Qed.

Lemma descendants_poly_refuted :
  exists g n, topo g /\ descendants_paths_cost g n > 4 * (size g + edges g + 1) ^ 2.
Proof.
  exists (ladder 2 14), 0. split; [apply ladder_topo |].
  unfold gt. apply Nat.ltb_lt. vm_compute. reflexivity.
Qed.

Lemma descendants_cost_ladder2_14 : descendants_paths_cost (ladder 2 14) 0 = 2 ^ 15 - 1.
Proof. apply Nat.eqb_eq. vm_compute. reflexivity. Qed.

Lemma chain_same_size_linear : size (chain 30) = size (ladder 2 14) /\ select_paths_cost (chain 30) 29 = 30.
Proof. split; [vm_compute; reflexivity | apply (select_cost_chain 30); lia]. Qed.

(* ------------------------------------------------------------------ cost of the traversals (C19) *)

(* --- the traversals with their visited sets: cost <= V + E + 1 *)

Definition weight (next : nat -> list nat) (v : nat) : nat := S (length (next v)).
Definition wsum (next : nat -> list nat) (l : list nat) : nat := list_sum (map (weight next) l).

Lemma wsum_app next a b : wsum next (a ++ b) = wsum next a + wsum next b.
Proof. unfold wsum. rewrite map_app, list_sum_app. reflexivity. Qed.

Lemma NoDup_app_intro {A} (a b : list A) :
  NoDup a -> NoDup b -> (forall x, In x a -> ~ In x b) -> NoDup (a ++ b).
Proof.
  intros Ha Hb Hd. induction a as [| x a IH]; [exact Hb |].
  simpl. inversion Ha as [| y l Hx Ha']; subst. constructor.
  - intro Hin. apply in_app_or in Hin. destruct Hin as [Hin | Hin]; [exact (Hx Hin) |].
    exact (Hd x (or_introl eq_refl) Hin).
  - apply IH; [exact Ha' |]. intros y Hy. apply Hd. right. exact Hy.
Qed.

Definition dfs_post (next : nat -> list nat) (N : nat) (d : nat) (st st' : list nat * nat) : Prop :=
  exists new, fst st' = new ++ fst st /\ NoDup new /\ (forall x, In x new -> ~ In x (fst st)) /\
              (forall x, In x new -> x < N) /\ snd st' <= snd st + weight next d + wsum next new.

Lemma dfs_list_bound next N rec ds :
  (forall d, In d ds -> d < N) ->
  (forall d st, In d ds -> dfs_post next N d st (rec d st)) ->
  forall st, exists new,
    fst (dfs_list rec ds st) = new ++ fst st /\ NoDup new /\ (forall x, In x new -> ~ In x (fst st)) /\
    (forall x, In x new -> x < N) /\ snd (dfs_list rec ds st) <= snd st + length ds + wsum next new.
Proof.
  induction ds as [| d ds IH]; intros HN Hrec [vis c].
  - exists []. simpl. split; [reflexivity |]. split; [constructor |].
    split; [intros x [] |]. split; [intros x [] |]. unfold wsum; simpl; lia.
  - assert (HN' : forall d', In d' ds -> d' < N) by (intros d' H; apply HN; right; exact H).
    assert (Hrec' : forall d' st, In d' ds -> dfs_post next N d' st (rec d' st))
      by (intros d' st H; apply Hrec; right; exact H).
    simpl. destruct (mem_nat d vis) eqn:Em.
    + destruct (IH HN' Hrec' (vis, S c)) as [new [E1 [E2 [E3 [E4 E5]]]]].
      exists new. simpl in *. repeat split; try assumption. lia.
    + destruct (Hrec d (d :: vis, S c) (or_introl eq_refl)) as [new1 [F1 [F2 [F3 [F4 F5]]]]].
      destruct (IH HN' Hrec' (rec d (d :: vis, S c))) as [new2 [E1 [E2 [E3 [E4 E5]]]]].
      simpl in F1, F3, F5.
      assert (Hd : ~ In d vis) by (intro H; apply mem_nat_spec in H; congruence).
      exists (new2 ++ new1 ++ [d]). simpl. split.
      * rewrite E1, F1. rewrite <- !app_assoc. reflexivity.
      * split.
        -- apply NoDup_app_intro; [exact E2 | |].
           ++ apply NoDup_app_intro; [exact F2 | constructor; [intros [] | constructor] |].
              intros x Hx [E | []]. subst x. apply (F3 d Hx). left. reflexivity.
           ++ intros x Hx Hin. apply (E3 x Hx). rewrite F1.
              apply in_app_or in Hin. apply in_or_app. destruct Hin as [Hin | [E | []]].
              ** left. exact Hin.
              ** right. left. exact E.
        -- split.
           ++ intros x Hx Hv. apply in_app_or in Hx. destruct Hx as [Hx | Hx].
              ** apply (E3 x Hx). rewrite F1. apply in_or_app. right. right. exact Hv.
              ** apply in_app_or in Hx. destruct Hx as [Hx | [E | []]].
                 --- apply (F3 x Hx). right. exact Hv.
                 --- subst x. exact (Hd Hv).
           ++ split.
              ** intros x Hx. apply in_app_or in Hx. destruct Hx as [Hx | Hx]; [exact (E4 x Hx) |].
                 apply in_app_or in Hx. destruct Hx as [Hx | [E | []]]; [exact (F4 x Hx) |].
                 subst x. apply HN. left. reflexivity.
              ** assert (W : wsum next [d] = weight next d) by (unfold wsum, weight; simpl; lia).
                 rewrite !wsum_app, W. lia.
Qed.

Lemma dfs_bound next N :
  (forall n d, In d (next n) -> d < N) ->
  forall fuel n st, dfs_post next N n st (dfs next fuel n st).
Proof.
  intros HN fuel. induction fuel as [| f IH]; intros n [vis c].
  - exists []. simpl. split; [reflexivity |]. split; [constructor |].
    split; [intros x [] |]. split; [intros x [] |]. unfold weight, wsum; simpl; lia.
  - simpl. destruct (dfs_list_bound next N (dfs next f) (next n) (HN n) (fun d st _ => IH d st) (vis, S c))
      as [new [E1 [E2 [E3 [E4 E5]]]]].
    exists new. simpl in *. repeat split; try assumption. unfold weight. lia.
Qed.

Lemma list_sum_bound (f : nat -> nat) N : forall l,
  NoDup l -> (forall x, In x l -> x < N) -> list_sum (map f l) <= list_sum (map f (seq 0 N)).
Proof.
  induction N as [| N IH]; intros l Hnd Hlt.
  - destruct l as [| x l]; [simpl; lia |]. specialize (Hlt x (or_introl eq_refl)). lia.
  - rewrite seq_S, map_app, list_sum_app. simpl.
    destruct (in_dec Nat.eq_dec N l) as [Hin | Hin].
    + apply in_split in Hin. destruct Hin as [l1 [l2 E]]. subst l.
      apply NoDup_remove in Hnd. destruct Hnd as [Hnd Hn].
      rewrite map_app, list_sum_app. simpl.
      assert (H : list_sum (map f (l1 ++ l2)) <= list_sum (map f (seq 0 N))).
      { apply IH; [exact Hnd |]. intros x Hx.
        assert (x < S N) by (apply Hlt; apply in_app_or in Hx; apply in_or_app; destruct Hx; [left | right; right]; assumption).
        assert (x <> N) by (intro; subst; exact (Hn Hx)). lia. }
      rewrite map_app, list_sum_app in H. lia.
    + assert (H : list_sum (map f l) <= list_sum (map f (seq 0 N))).
      { apply IH; [exact Hnd |]. intros x Hx. specialize (Hlt x Hx).
        assert (x <> N) by (intro; subst; exact (Hin Hx)). lia. }
      lia.
Qed.

Lemma list_sum_map_S (h : nat -> nat) l : list_sum (map (fun v => S (h v)) l) = length l + list_sum (map h l).
Proof. induction l as [| x l IH]; [reflexivity |]. simpl. rewrite IH. lia. Qed.

Lemma map_deps_length g : map (fun v => length (deps g v)) (seq 0 (size g)) = map (@length nat) g.
Proof.
  unfold deps, size. induction g as [| ds g IH]; [reflexivity |].
  simpl. f_equal. rewrite <- seq_shift, map_map. exact IH.
Qed.

Lemma edges_list_sum g : edges g = list_sum (map (@length nat) g).
Proof. unfold edges. induction g as [| ds g IH]; [reflexivity |]. simpl. rewrite IH. reflexivity. Qed.

Lemma wsum_all_deps g : wsum (deps g) (seq 0 (size g)) = size g + edges g.
Proof.
  unfold wsum, weight. rewrite list_sum_map_S, seq_length, map_deps_length, <- edges_list_sum. reflexivity.
Qed.

Lemma visited_cost_bound next N total r :
  (forall n d, In d (next n) -> d < N) ->
  wsum next (seq 0 N) = total ->
  (N <= r -> next r = []) ->
  forall fuel, snd (dfs next fuel r ([r], 0)) <= total + 1.
Proof.
  intros HN Htot Hr fuel.
  destruct (dfs_bound next N HN fuel r ([r], 0)) as [new [E1 [E2 [E3 [E4 E5]]]]].
  simpl in E3, E5.
  destruct (Nat.lt_ge_cases r N) as [L | L].
  - assert (H : wsum next (r :: new) <= total).
    { rewrite <- Htot. unfold wsum. apply list_sum_bound.
      - constructor; [| exact E2]. intro Hin. apply (E3 r Hin). left. reflexivity.
      - intros x [E | Hx]; [subst; exact L | exact (E4 x Hx)]. }
    unfold wsum in H. simpl in H. unfold wsum in E5. lia.
  - assert (H : wsum next new <= total).
    { rewrite <- Htot. unfold wsum. apply list_sum_bound; assumption. }
    unfold weight in E5. rewrite (Hr L) in E5. simpl in E5. lia.
Qed.

Lemma select_visited_linear g r : wf_graph g -> select_visited_cost g r <= size g + edges g + 1.
Proof.
  intro Hwf. unfold select_visited_cost, select_visited.
  apply (visited_cost_bound (deps g) (size g)); [exact Hwf | apply wsum_all_deps |].
  intro L. unfold deps. apply nth_overflow. exact L.
Qed.

Lemma ancestors_visited_linear g n : wf_graph g -> ancestors_visited_cost g n <= size g + edges g + 1.
Proof.
  intro Hwf. unfold ancestors_visited_cost, ancestors_visited.
  pose proof (select_visited_linear g n Hwf) as H. unfold select_visited_cost, select_visited in H.
  destruct (dfs (deps g) (S n) n ([n], 0)) as [vis c]. exact H.
Qed.

(* double counting: the out-edge lists have as many entries as the in-edge lists *)
Definition cnt (i : nat) (l : list nat) : nat := length (filter (Nat.eqb i) l).

Lemma list_sum_map_add {A} (a b : A -> nat) l :
  list_sum (map (fun x => a x + b x) l) = list_sum (map a l) + list_sum (map b l).
Proof. induction l as [| x l IH]; [reflexivity |]. simpl. rewrite IH. lia. Qed.

Lemma list_sum_swap (f : nat -> nat -> nat) la lb :
  list_sum (map (fun i => list_sum (map (fun j => f i j) lb)) la) =
  list_sum (map (fun j => list_sum (map (fun i => f i j) la)) lb).
Proof.
  induction la as [| a la IH]; simpl.
  - induction lb as [| b lb IHb]; [reflexivity | simpl; exact IHb].
  - rewrite IH. rewrite <- list_sum_map_add. reflexivity.
Qed.

Lemma indicator_sum_zero x N : N <= x -> list_sum (map (fun i => if Nat.eqb i x then 1 else 0) (seq 0 N)) = 0.
Proof.
  induction N as [| N IH]; intro H; [reflexivity |].
  rewrite seq_S, map_app, list_sum_app, IH by lia. simpl.
  destruct (Nat.eqb N x) eqn:E; [apply Nat.eqb_eq in E; lia | reflexivity].
Qed.

Lemma indicator_sum_one x N : x < N -> list_sum (map (fun i => if Nat.eqb i x then 1 else 0) (seq 0 N)) = 1.
Proof.
  induction N as [| N IH]; intro H; [lia |].
  rewrite seq_S, map_app, list_sum_app. simpl.
  destruct (Nat.eqb N x) eqn:E.
  - apply Nat.eqb_eq in E. subst. rewrite indicator_sum_zero by lia. reflexivity.
  - apply Nat.eqb_neq in E. rewrite IH by lia. reflexivity.
Qed.

Lemma cnt_sum l N : (forall x, In x l -> x < N) -> list_sum (map (fun i => cnt i l) (seq 0 N)) = length l.
Proof.
  induction l as [| x l IH]; intro H.
  - unfold cnt. simpl. induction (seq 0 N) as [| a s IHs]; [reflexivity | simpl; exact IHs].
  - assert (E : forall i, cnt i (x :: l) = (if Nat.eqb i x then 1 else 0) + cnt i l).
    { intro i. unfold cnt. simpl. destruct (Nat.eqb i x); reflexivity. }
    rewrite (map_ext _ _ E), list_sum_map_add, indicator_sum_one, IH; [reflexivity | |].
    + intros y Hy. apply H. right. exact Hy.
    + apply H. left. reflexivity.
Qed.

Lemma flat_map_length_sum {A B} (f : A -> list B) l :
  length (flat_map f l) = list_sum (map (fun x => length (f x)) l).
Proof. induction l as [| x l IH]; [reflexivity |]. simpl. rewrite app_length, IH. reflexivity. Qed.

Lemma dependants_length g i :
  length (dependants g i) = list_sum (map (fun j => cnt i (deps g j)) (seq 0 (size g))).
Proof.
  unfold dependants. rewrite flat_map_length_sum. apply f_equal. apply map_ext.
  intro j. rewrite map_length. reflexivity.
Qed.

Lemma wsum_all_dependants g : wf_graph g -> wsum (dependants g) (seq 0 (size g)) = size g + edges g.
Proof.
  intro Hwf. unfold wsum, weight. rewrite list_sum_map_S, seq_length. f_equal.
  rewrite (map_ext _ _ (dependants_length g)).
  rewrite (list_sum_swap (fun i j => cnt i (deps g j))).
  assert (E : forall j, In j (seq 0 (size g)) ->
                        list_sum (map (fun i => cnt i (deps g j)) (seq 0 (size g))) = length (deps g j)).
  { intros j _. apply cnt_sum. intros x Hx. exact (Hwf j x Hx). }
  rewrite (map_ext_in _ _ _ E). rewrite edges_list_sum, <- map_deps_length. reflexivity.
Qed.

Lemma descendants_visited_linear g n : wf_graph g -> descendants_visited_cost g n <= size g + edges g + 1.
Proof.
  intro Hwf. unfold descendants_visited_cost, descendants_visited.
  assert (H : snd (dfs (dependants g) (size g) n ([n], 0)) <= size g + edges g + 1).
  { apply (visited_cost_bound (dependants g) (size g)).
    - intros m d Hd. apply dependants_spec in Hd. exact (proj1 Hd).
    - apply wsum_all_dependants. exact Hwf.
    - intro L. destruct (dependants g n) as [| d ds] eqn:E; [reflexivity |].
      assert (Hd : In d (dependants g n)) by (rewrite E; left; reflexivity).
      apply dependants_spec in Hd. destruct Hd as [Hd Hin]. specialize (Hwf d n Hin). lia. }
  destruct (dfs (dependants g) (size g) n ([n], 0)) as [vis c]. exact H.
Qed.

(* --- the traversal of selectAllAncestorsForBuild is the one whose cost is bounded above: without
   platform constraints [selv_anc] computes the visited map of [dfs] over the dependencies *)
Lemma selv_list_true rec rec' ds :
  (forall d st, rec d (fst st) = Some (fst (rec' d st))) ->
  forall st, selv_list (fun _ => true) rec ds (fst st) = Some (fst (dfs_list rec' ds st)).
Proof.
  intro Hrec. induction ds as [| d ds IH]; intros [vis c]; [reflexivity |].
  cbn [selv_list dfs_list fst]. destruct (mem_nat d vis).
  - exact (IH (vis, S c)).
  - pose proof (Hrec d (d :: vis, S c)) as H. cbn [fst] in H. rewrite H.
    exact (IH (rec' d (d :: vis, S c))).
Qed.

Lemma selv_anc_true g fuel : forall n st,
  selv_anc g (fun _ => true) fuel n (fst st) = Some (fst (dfs (deps g) fuel n st)).
Proof.
  induction fuel as [| f IH]; intros n st; [reflexivity |].
  cbn [selv_anc dfs]. exact (selv_list_true (selv_anc g (fun _ => true) f) (dfs (deps g) f) (deps g n) IH (fst st, S (snd st))).
Qed.

Lemma select_visited_is_selection g r :
  selv_roots g (fun _ => true) [r] [] = Some (fst (select_visited g r)).
Proof.
  cbn [selv_roots mem_nat existsb]. unfold select_visited.
  pose proof (selv_anc_true g (S r) r ([r], 0)) as H. cbn [fst] in H. rewrite H. reflexivity.
Qed.

(* --- the cost is exactly: one unit per node entered + one per edge leaving an entered node *)
Lemma dfs_list_cost next rec ds :
  (forall d st, In d ds -> exists new, fst (rec d st) = new ++ fst st /\
                                       snd (rec d st) = snd st + weight next d + wsum next new) ->
  forall st, exists new, fst (dfs_list rec ds st) = new ++ fst st /\
                         snd (dfs_list rec ds st) = snd st + length ds + wsum next new.
Proof.
  induction ds as [| d ds IH]; intros Hrec [vis c].
  - exists []. cbn [dfs_list fst snd length]. split; [reflexivity | unfold wsum; simpl; lia].
  - assert (Hrec' : forall d' st, In d' ds -> exists new, fst (rec d' st) = new ++ fst st /\
                                       snd (rec d' st) = snd st + weight next d' + wsum next new)
      by (intros d' st H; apply Hrec; right; exact H).
    cbn [dfs_list]. destruct (mem_nat d vis).
    + destruct (IH Hrec' (vis, S c)) as [new [E1 E2]]. exists new. cbn [fst snd length] in *.
      split; [exact E1 | lia].
    + destruct (Hrec d (d :: vis, S c) (or_introl eq_refl)) as [new1 [F1 F2]].
      destruct (IH Hrec' (rec d (d :: vis, S c))) as [new2 [E1 E2]].
      cbn [fst snd] in F1, F2. exists (new2 ++ new1 ++ [d]). cbn [fst snd length]. split.
      * rewrite E1, F1, <- !app_assoc. reflexivity.
      * assert (W : wsum next [d] = weight next d) by (unfold wsum, weight; simpl; lia).
        rewrite E2, F2, !wsum_app, W. lia.
Qed.

Lemma dfs_cost next (rank : nat -> nat) :
  (forall n d, In d (next n) -> rank d < rank n) ->
  forall fuel n st, rank n <= fuel ->
    exists new, fst (dfs next fuel n st) = new ++ fst st /\
                snd (dfs next fuel n st) = snd st + weight next n + wsum next new.
Proof.
  intros Hrank fuel. induction fuel as [| f IH]; intros n st Hn.
  - exists []. cbn [dfs fst snd]. split; [reflexivity |].
    assert (E : next n = []).
    { destruct (next n) as [| d ds] eqn:E; [reflexivity |].
      assert (Hd : In d (next n)) by (rewrite E; left; reflexivity).
      specialize (Hrank n d Hd). lia. }
    unfold weight, wsum. rewrite E. simpl. lia.
  - cbn [dfs].
    destruct (dfs_list_cost next (dfs next f) (next n)
                (fun d st' Hd => IH d st' ltac:(specialize (Hrank n d Hd); lia)) (fst st, S (snd st)))
      as [new [E1 E2]].
    exists new. cbn [fst snd] in *. split; [exact E1 | unfold weight; lia].
Qed.

Lemma wsum_rev next l : wsum next (rev l) = wsum next l.
Proof.
  induction l as [| x l IH]; [reflexivity |].
  simpl. rewrite wsum_app, IH. unfold wsum. simpl. lia.
Qed.

Lemma select_visited_cost_exact g r : topo g ->
  select_visited_cost g r = wsum (deps g) (fst (select_visited g r)).
Proof.
  intro Ht. unfold select_visited_cost, select_visited.
  destruct (dfs_cost (deps g) (fun v => v) Ht (S r) r ([r], 0)) as [new [E1 E2]]; [lia |].
  cbn [fst snd] in *. rewrite E1, E2, wsum_app. unfold wsum at 3. simpl. lia.
Qed.

Lemma ancestors_visited_cost_exact g n : topo g ->
  ancestors_visited_cost g n = weight (deps g) n + wsum (deps g) (deps_t g n).
Proof.
  intro Ht. unfold ancestors_visited_cost, deps_t, ancestors_visited.
  destruct (dfs_cost (deps g) (fun v => v) Ht (S n) n ([n], 0)) as [new [E1 E2]]; [lia |].
  destruct (dfs (deps g) (S n) n ([n], 0)) as [vis c]. cbn [fst snd] in *. subst vis c.
  rewrite removelast_last, wsum_rev. lia.
Qed.

Lemma descendants_visited_cost_exact g n : topo g ->
  descendants_visited_cost g n = weight (dependants g) n + wsum (dependants g) (rdeps_t g n).
Proof.
  intro Ht. unfold descendants_visited_cost, rdeps_t, descendants_visited.
  destruct (dfs_cost (dependants g) (fun v => size g - v) (dependants_rank g Ht) (size g) n ([n], 0))
    as [new [E1 E2]]; [lia |].
  destruct (dfs (dependants g) (size g) n ([n], 0)) as [vis c]. cbn [fst snd] in *. subst vis c.
  rewrite removelast_last, wsum_rev. lia.
Qed.

(* --- entries into the recursive function: one per distinct node *)
Lemma select_visited_calls_eq g r : select_visited_calls g r = S (length (deps_t g r)).
Proof.
  unfold select_visited_calls, select_visited, deps_t, ancestors_visited.
  destruct (dfs_suffix (deps g) (S r) r ([r], 0)) as [new E].
  destruct (dfs (deps g) (S r) r ([r], 0)) as [vis c]. cbn [fst] in *. subst vis.
  rewrite removelast_last, rev_length, app_length. simpl. lia.
Qed.

Lemma ancestors_visited_calls_eq g n : ancestors_visited_calls g n = S (length (deps_t g n)).
Proof. reflexivity. Qed.

Lemma descendants_visited_calls_eq g n : descendants_visited_calls g n = S (length (rdeps_t g n)).
Proof. reflexivity. Qed.

(* --- hence polynomial: the bound that was refuted for the path enumerations *)
Lemma linear_is_poly c x : c <= x + 1 -> c <= 4 * (x + 1) ^ 2.
Proof. intro H. simpl. nia. Qed.

Lemma select_visited_poly g r : wf_graph g -> select_visited_cost g r <= 4 * (size g + edges g + 1) ^ 2.
Proof. intro H. apply linear_is_poly. exact (select_visited_linear g r H). Qed.

Lemma ancestors_visited_poly g n : wf_graph g -> ancestors_visited_cost g n <= 4 * (size g + edges g + 1) ^ 2.
Proof. intro H. apply linear_is_poly. exact (ancestors_visited_linear g n H). Qed.

Lemma descendants_visited_poly g n : wf_graph g -> descendants_visited_cost g n <= 4 * (size g + edges g + 1) ^ 2.
Proof. intro H. apply linear_is_poly. exact (descendants_visited_linear g n H). Qed.

(* the witness of the former refutation (ladder 2 14: 32767 calls each): now 83 steps, V + E + 1 = 87 *)
Example ladder_2_14_cost :
  select_visited_cost (ladder 2 14) 28 = 83 /\ ancestors_visited_cost (ladder 2 14) 28 = 83 /\
  descendants_visited_cost (ladder 2 14) 0 = 83 /\ size (ladder 2 14) + edges (ladder 2 14) + 1 = 87.
Proof. vm_compute. repeat split. Qed.

(* a topological numbering is in particular well-formed; the hypotheses of the bounds hold on the witness family *)
Lemma topo_wf g : topo g -> wf_graph g.
Proof.
  intros Ht i d Hd. pose proof (Ht i d Hd) as Hlt.
  destruct (Nat.lt_ge_cases i (size g)) as [L | L]; [lia |].
  unfold deps in Hd. rewrite (nth_overflow g [] L) in Hd. destruct Hd.
Qed.

Example visited_bounds_nonvacuous : forall w d, topo (ladder w d) /\ wf_graph (ladder w d).
Proof. intros w d. split; [apply ladder_topo | apply topo_wf, ladder_topo]. Qed.
