(* LockUse.v -- how `grog build` USES the workspace lock (internal/cmd/cmds/build.go): Lock() before
   the build, ONE Unlock() when RunBuild returns.  Lock.v assumes exactly that ("processes are
   one-shot: a build locks once and unlocks at most once").  This file makes the assumption a
   statement: the caller's protocol is Lock.v's event language, and a second release by a process
   that already released -- an os.Remove of the lock path by a [Done] process, tolerating "does not
   exist" -- is an extra event [UnlockAgain] under which mutual exclusion fails without any stale
   lock and without the removal race of finding C10-F2.  Definitions only; proofs in
   LockUse_proofs.v. *)
From Coq Require Import List Arith Bool.
From Grog Require Import Lock.
Import ListNotations.

Inductive uevent : Type :=
| Base (e : event)
| UnlockAgain (p : pid).    (* a released process removes the lock path once more *)

Definition ustep (s : state) (u : uevent) : option state :=
  match u with
  | Base e => step s e
  | UnlockAgain p =>
    match pcs s p with
    | Done => Some (mkState None (content s) (creator s) (next s) (pcs s))
    | _ => None
    end
  end.

Fixpoint urun (s : state) (us : list uevent) : option state :=
  match us with
  | [] => Some s
  | u :: r => match ustep s u with Some s' => urun s' r | None => None end
  end.

(* every Base event of the schedule is guarded (no remove of an unexamined inode: not C10-F2) *)
Fixpoint all_guarded (s : state) (us : list uevent) : bool :=
  match us with
  | [] => true
  | u :: r =>
    (match u with Base e => guarded s e | UnlockAgain _ => true end) &&
    match ustep s u with Some s' => all_guarded s' r | None => false end
  end.

(* the seeded history of cmds/build.go releasing twice: A acquires and releases, B acquires, A's
   second release deletes B's file, C acquires *)
Definition double_unlock_sched : list uevent :=
  [Base (TryCreate 0); Base (Unlock 0); Base (TryCreate 1); UnlockAgain 0; Base (TryCreate 2)].
