(* Store.v -- the cache back ends (internal/caching/backends/{fs,remote_wrapper,s3}.go), the CAS layer
   with its exists-memo and its stored-memo (caching/cas.go) and the target-result cache (caching/target_cache.go).
   Model only; proofs are in Store_proofs.v.

   Layer 1 (C07): the local file-system back end at the granularity of its file-system calls.
     fs.Set  = MkdirAll ; CreateTemp "tmp-*" ; Write* ; Close ; Rename ; deferred Remove(tmp)
     Cas.Write = isStored (memo, else Stat) ; [Set] ; memo      (over the local back end alone the two memos of
       caching.Cas hold the same digests unless Cas.Exists is called on its own, which no build does: one list)
     a build's cache traffic = per executed target  blob writes* ; tree write ; result write,
     arbitrarily interleaved between targets; a crash is a prefix of the interleaved step list,
     a fault makes one step fail (the code's error path then runs).
   Layer 2 (C08): RemoteWrapper over (local, remote) at the granularity of back-end calls, two
     machines sharing one remote, fault lists consumed by the remote Get/Put/Head and by local Set. *)
From Grog Require Export Str.

Definition bytes := str.
Definition key := str.

Inductive path := PCas | PTarget | PTaint.

Definition path_eqb (a b : path) : bool :=
  match a, b with
  | PCas, PCas | PTarget, PTarget | PTaint, PTaint => true
  | _, _ => false
  end.

(* ------------------------------------------------------------------ a key space: (path, key) -> bytes *)
Definition fsmap := list ((path * key) * bytes).

Definition pk_eqb (p : path) (k : key) (e : path * key) : bool :=
  path_eqb p (fst e) && str_eqb k (snd e).

Fixpoint lookup (m : fsmap) (p : path) (k : key) : option bytes :=
  match m with
  | [] => None
  | (e, b) :: m' => if pk_eqb p k e then Some b else lookup m' p k
  end.

Fixpoint remove (m : fsmap) (p : path) (k : key) : fsmap :=
  match m with
  | [] => []
  | (e, b) :: m' => if pk_eqb p k e then remove m' p k else (e, b) :: remove m' p k
  end.

Definition upd (m : fsmap) (p : path) (k : key) (b : bytes) : fsmap := ((p, k), b) :: remove m p k.

Definition is_some {A} (o : option A) : bool := match o with Some _ => true | None => false end.

(* ================================================================== Layer 1: steps of the local back end *)
Definition tid := nat.

Inductive skind :=
| KCheck (d : key)               (* Cas.Exists: the memo, else backend.Exists (one Stat) *)
| KMkdir                         (* os.MkdirAll(destination directory) *)
| KCreate                        (* os.CreateTemp(dir, "tmp-*") *)
| KWrite (c : bytes)             (* one write of io.Copy *)
| KClose                         (* tmpFile.Close() *)
| KRename (p : path) (k : key)   (* os.Rename(tmp, final) *)
| KRemove                        (* deferred os.Remove(tmp): runs on every exit path of Set, error ignored *)
| KMemo (d : key).               (* keyExistsCache.Store(d) after a successful Set *)

Record step := mkStep { s_tid : tid; s_kind : skind }.

(* vis: the entries visible under a key.  tmp: the temp file of the Set a thread is executing (never
   visible under any key).  skipping: Cas.Write found the digest and skips its Set.  dead: the thread
   returned an error (OnTargetComplete returns it; nothing more is written for that target). *)
Record state := mkSt {
  vis : fsmap;
  memo : list key;
  tmp : tid -> option bytes;
  skipping : tid -> bool;
  dead : tid -> bool
}.

Definition visible (st : state) (p : path) (k : key) : option bytes := lookup (vis st) p k.

Definition fupd {A} (f : tid -> A) (t : tid) (v : A) : tid -> A := fun u => if Nat.eqb u t then v else f u.

Definition set_vis st m := mkSt m (memo st) (tmp st) (skipping st) (dead st).
Definition add_memo st d := mkSt (vis st) (d :: memo st) (tmp st) (skipping st) (dead st).
Definition set_tmp st t v := mkSt (vis st) (memo st) (fupd (tmp st) t v) (skipping st) (dead st).
Definition set_skip st t v := mkSt (vis st) (memo st) (tmp st) (fupd (skipping st) t v) (dead st).
Definition set_dead st t := mkSt (vis st) (memo st) (tmp st) (skipping st) (fupd (dead st) t true).

Definition active (st : state) (t : tid) : bool := negb (dead st t) && negb (skipping st t).
Definition known (st : state) (d : key) : bool := str_in d (memo st) || is_some (visible st PCas d).

(* one step; f = this call fails *)
Definition exec (st : state) (x : step) (f : bool) : state :=
  let t := s_tid x in
  match s_kind x with
  | KRemove => set_skip (if f then st else set_tmp st t None) t false
  | KCheck d =>
      if dead st t then st
      else if f then set_skip st t false      (* Exists returned an error: Write goes on to Set *)
      else if known st d then set_skip (add_memo st d) t true
      else set_skip st t false
  | KMkdir => if active st t && f then set_dead st t else st
  | KClose => if active st t && f then set_dead st t else st
  | KCreate => if active st t then (if f then set_dead st t else set_tmp st t (Some [])) else st
  | KWrite c =>
      if active st t
      then (if f then set_dead st t else set_tmp st t (option_map (fun b => b ++ c) (tmp st t)))
      else st
  | KRename p k =>
      if active st t
      then (if f then set_dead st t
            else match tmp st t with
                 | Some b => set_tmp (set_vis st (upd (vis st) p k b)) t None
                 | None => set_dead st t
                 end)
      else st
  | KMemo d => if active st t then add_memo st d else st
  end.

(* the i-th step fails iff the i-th element of the fault list is true *)
Fixpoint run_store (st : state) (il : list step) (faults : list bool) : state :=
  match il with
  | [] => st
  | x :: il' => run_store (exec st x (hd false faults)) il' (tl faults)
  end.

Definition set_kinds (p : path) (k : key) (chunks : list bytes) : list skind :=
  [KMkdir; KCreate] ++ map KWrite chunks ++ [KClose; KRename p k; KRemove].

(* fs.Set *)
Definition set_steps (t : tid) (p : path) (k : key) (chunks : list bytes) : list step :=
  map (mkStep t) (set_kinds p k chunks).

(* cache traffic of one executed target *)
Inductive op :=
| OBlob (d : key) (chunks : list bytes)      (* Cas.Write(d, content): file blobs and the tree blob *)
| OResult (k : key) (chunks : list bytes).   (* TargetResultCache.Write *)

Definition op_kinds (o : op) : list skind :=
  match o with
  | OBlob d cs => KCheck d :: set_kinds PCas d cs ++ [KMemo d]
  | OResult k cs => set_kinds PTarget k cs
  end.

Definition target_kinds (ops : list op) : list skind := concat (map op_kinds ops).
Definition target_steps (t : tid) (ops : list op) : list step := map (mkStep t) (target_kinds ops).

(* thread i executes the i-th target's traffic *)
Fixpoint lists_from (t : tid) (opss : list (list op)) : list (list step) :=
  match opss with
  | [] => []
  | ops :: r => target_steps t ops :: lists_from (S t) r
  end.
Definition per_target_lists (opss : list (list op)) : list (list step) := lists_from 0 opss.

Inductive interleaving {A : Type} : list A -> list (list A) -> Prop :=
| il_nil : forall ls, Forall (fun l => l = []) ls -> interleaving [] ls
| il_cons : forall x il pre l post,
    interleaving il (pre ++ l :: post) -> interleaving (x :: il) (pre ++ (x :: l) :: post).

(* the state a new process starts from, given what is on disk *)
Definition boot (m : fsmap) : state := mkSt m [] (fun _ => None) (fun _ => false) (fun _ => false).

(* a simple executable scheduler for the driver: round-robin merge according to a schedule of thread ids *)
Fixpoint take_nth {A} (n : nat) (ls : list (list A)) : option (A * list (list A)) :=
  match ls, n with
  | [], _ => None
  | l :: r, O => match l with [] => None | x :: l' => Some (x, l' :: r) end
  | l :: r, S n' => match take_nth n' r with Some (x, r') => Some (x, l :: r') | None => None end
  end.

Fixpoint merge_by (sched : list nat) (ls : list (list step)) : list step :=
  match sched with
  | [] => concat ls
  | n :: s' => match take_nth n ls with
               | Some (x, ls') => x :: merge_by s' ls'
               | None => merge_by s' ls
               end
  end.

(* results reference digests: the marshalled TargetResult is opaque bytes here, refs decodes it *)
Section Invariant.
  Variable H : bytes -> key.
  Variable refs : bytes -> list key.

  Definition Inv (st : state) : Prop :=
    (forall d b, visible st PCas d = Some b -> H b = d) /\
    (forall k r, visible st PTarget k = Some r -> forall d, In d (refs r) -> visible st PCas d <> None).

  (* well-formed traffic of one target: every blob is written under its digest, and a result only
     references blobs written before it by this target or already present *)
  Fixpoint wf_ops (have : key -> Prop) (ops : list op) : Prop :=
    match ops with
    | [] => True
    | OBlob d cs :: r => H (concat cs) = d /\ wf_ops (fun x => x = d \/ have x) r
    | OResult k cs :: r => (forall d, In d (refs (concat cs)) -> have d) /\ wf_ops have r
    end.

  Definition memo_sound (st : state) : Prop := forall d, In d (memo st) -> visible st PCas d <> None.
End Invariant.

(* the encoding of a result used by the driver and the examples: digests separated by commas *)
Fixpoint split_commas (acc : str) (s : str) : list str :=
  match s with
  | [] => match acc with [] => [] | _ => [rev acc] end
  | c :: s' => if Ascii.eqb c ch_comma then rev acc :: split_commas [] s' else split_commas (c :: acc) s'
  end.
Definition refs_csv (r : bytes) : list key := split_commas [] r.

(* ================================================================== Layer 2: RemoteWrapper, two machines *)
Inductive machine := MA | MB.
Inductive mode := Local | Wrapped.          (* FileSystemCache alone | RemoteWrapper(fs, remote) *)

(* remote faults, consumed one per remote Get / Put / Head *)
Inductive rfault :=
| FNone
| FFail        (* the call fails; a Put has consumed its body first (AWSS3Adapter reads it all) *)
| FEarly       (* a Put fails before reading its body; same as FFail for Get / Head *)
| FNotFound.   (* Get / Head answer "not found"; a Put fails like FFail *)

(* local faults, consumed one per local Set *)
Inductive lfault :=
| LOk
| LEarly       (* MkdirAll / CreateTemp fail: nothing was read from the pipe *)
| LLate.       (* Close / Rename fail after the whole content was consumed *)

Inductive res := ROk | RHit (b : bytes) | RMiss | RErr | RTrue | RFalse.

Record world := mkW {
  locA : fsmap;
  locB : fsmap;
  rem : fsmap;
  wmemo : machine -> mode -> list key;      (* exists-memo (keyExistsCache) of the Cas object of (machine, back end) *)
  wstored : machine -> mode -> list key;    (* stored-memo (keyStoredCache): digests known to be in EVERY store of the back end *)
  rfl : list rfault;
  lfl : list lfault
}.

Definition loc (w : world) (m : machine) : fsmap := match m with MA => locA w | MB => locB w end.

Definition set_loc (w : world) (m : machine) (f : fsmap) : world :=
  match m with
  | MA => mkW f (locB w) (rem w) (wmemo w) (wstored w) (rfl w) (lfl w)
  | MB => mkW (locA w) f (rem w) (wmemo w) (wstored w) (rfl w) (lfl w)
  end.
Definition set_rem (w : world) (f : fsmap) : world :=
  mkW (locA w) (locB w) f (wmemo w) (wstored w) (rfl w) (lfl w).

Definition machine_eqb (a b : machine) := match a, b with MA, MA | MB, MB => true | _, _ => false end.
Definition mode_eqb (a b : mode) := match a, b with Local, Local | Wrapped, Wrapped => true | _, _ => false end.

Definition add_wmemo (w : world) (m : machine) (md : mode) (d : key) : world :=
  mkW (locA w) (locB w) (rem w)
      (fun m' md' => if machine_eqb m' m && mode_eqb md' md then d :: wmemo w m' md' else wmemo w m' md')
      (wstored w) (rfl w) (lfl w).
Definition add_wstored (w : world) (m : machine) (md : mode) (d : key) : world :=
  mkW (locA w) (locB w) (rem w) (wmemo w)
      (fun m' md' => if machine_eqb m' m && mode_eqb md' md then d :: wstored w m' md' else wstored w m' md')
      (rfl w) (lfl w).
Definition reset_memo (w : world) (m : machine) : world :=
  mkW (locA w) (locB w) (rem w) (fun m' md' => if machine_eqb m' m then [] else wmemo w m' md')
      (fun m' md' => if machine_eqb m' m then [] else wstored w m' md') (rfl w) (lfl w).

Definition next_rf (w : world) : rfault * world :=
  (hd FNone (rfl w), mkW (locA w) (locB w) (rem w) (wmemo w) (wstored w) (tl (rfl w)) (lfl w)).
Definition next_lf (w : world) : lfault * world :=
  (hd LOk (lfl w), mkW (locA w) (locB w) (rem w) (wmemo w) (wstored w) (rfl w) (tl (lfl w))).

(* ---- FileSystemCache at call granularity (Layer 1 shows Set is atomic w.r.t. visibility) *)
Definition fs_get (w : world) (m : machine) (p : path) (k : key) : res :=
  match lookup (loc w m) p k with Some b => RHit b | None => RMiss end.
Definition fs_exists (w : world) (m : machine) (p : path) (k : key) : res :=
  if is_some (lookup (loc w m) p k) then RTrue else RFalse.
Definition fs_set (w : world) (m : machine) (p : path) (k : key) (b : bytes) : res * world :=
  let (f, w1) := next_lf w in
  match f with
  | LOk => (ROk, set_loc w1 m (upd (loc w1 m) p k b))
  | _ => (RErr, w1)
  end.
Definition fs_delete (w : world) (m : machine) (p : path) (k : key) : res * world :=
  (ROk, set_loc w m (remove (loc w m) p k)).

(* ---- the remote back end (S3Cache / GCSCache): one object-store call each *)
Definition r_get (w : world) (p : path) (k : key) : res * world :=
  let (f, w1) := next_rf w in
  match f with
  | FNone => (match lookup (rem w1) p k with Some b => RHit b | None => RMiss end, w1)
  | FNotFound => (RMiss, w1)
  | _ => (RErr, w1)
  end.
Definition r_head (w : world) (p : path) (k : key) : res * world :=
  let (f, w1) := next_rf w in
  match f with
  | FNone => (if is_some (lookup (rem w1) p k) then RTrue else RFalse, w1)
  | FNotFound => (RFalse, w1)
  | _ => (RErr, w1)
  end.

(* ---- RemoteWrapper *)
Definition w_get (w : world) (m : machine) (p : path) (k : key) : res * world :=
  match lookup (loc w m) p k with
  | Some b => (RHit b, w)
  | None =>
      let (r, w1) := r_get w p k in
      match r with
      | RHit b =>
          let (r2, w2) := fs_set w1 m p k b in
          match r2 with ROk => (RHit b, w2) | _ => (RErr, w2) end
      | o => (o, w1)
      end
  end.

(* Set tees one reader through two pipes into fs.Set and remote.Set and waits for both.  A side that
   fails before reading closes its pipe, the copier's next write fails and the other side's reader
   gets that error: with non-empty content the other side fails as well; with empty content nothing
   is ever written to the pipes and the other side sees a clean EOF. *)
Definition w_set (w : world) (m : machine) (p : path) (k : key) (b : bytes) : res * world :=
  let (l, w1) := next_lf w in
  let (f, w2) := next_rf w1 in
  let remote_reads := match l with LEarly => null b | _ => true end in
  let remote_ok := match f with FNone => remote_reads | _ => false end in
  let local_reads := match f with FEarly => null b | _ => true end in
  let local_ok := match l with LOk => local_reads | _ => false end in
  let w3 := if local_ok then set_loc w2 m (upd (loc w2 m) p k b) else w2 in
  let w4 := if remote_ok then set_rem w3 (upd (rem w3) p k b) else w3 in
  (if local_ok && remote_ok then ROk else RErr, w4).

Definition w_exists (w : world) (m : machine) (p : path) (k : key) : res * world :=
  if is_some (lookup (loc w m) p k) then (RTrue, w) else r_head w p k.

(* ExistsEverywhere (backends.FullExistenceChecker): local AND remote; the remote is asked only when the
   local store has the key *)
Definition w_exists_all (w : world) (m : machine) (p : path) (k : key) : res * world :=
  if is_some (lookup (loc w m) p k) then r_head w p k else (RFalse, w).

Definition w_delete (w : world) (m : machine) (p : path) (k : key) : res * world :=
  let w1 := set_loc w m (remove (loc w m) p k) in
  (ROk, set_rem w1 (remove (rem w1) p k)).

(* ---- back-end dispatch *)
Definition b_get w m md p k : res * world :=
  match md with Local => (fs_get w m p k, w) | Wrapped => w_get w m p k end.
Definition b_set w m md p k b : res * world :=
  match md with Local => fs_set w m p k b | Wrapped => w_set w m p k b end.
Definition b_exists w m md p k : res * world :=
  match md with Local => (fs_exists w m p k, w) | Wrapped => w_exists w m p k end.
Definition b_delete w m md p k : res * world :=
  match md with Local => fs_delete w m p k | Wrapped => w_delete w m p k end.

(* ---- caching.Cas *)
Definition cas_exists (w : world) (m : machine) (md : mode) (d : key) : res * world :=
  if str_in d (wmemo w m md) then (RTrue, w)
  else let (r, w1) := b_exists w m md PCas d in
       match r with
       | RTrue => (RTrue, add_wmemo w1 m md d)
       | o => (o, w1)
       end.

(* Cas.isStored: may the write be skipped?  The stored-memo, else ExistsEverywhere when the back end
   implements FullExistenceChecker (the wrapper), else Cas.Exists (the local back end: one store); an
   error or "missing somewhere" means no *)
Definition cas_stored (w : world) (m : machine) (md : mode) (d : key) : bool * world :=
  if str_in d (wstored w m md) then (true, w)
  else let (r, w1) := match md with
                      | Wrapped => w_exists_all w m PCas d
                      | Local => cas_exists w m md d
                      end in
       match r with
       | RTrue => (true, add_wstored w1 m md d)
       | _ => (false, w1)
       end.

Definition cas_write (w : world) (m : machine) (md : mode) (d : key) (b : bytes) : res * world :=
  let (s, w1) := cas_stored w m md d in
  if s then (ROk, w1)                           (* in every store: skip *)
  else
    let (r2, w2) := b_set w1 m md PCas d b in
    match r2 with
    | ROk => (ROk, add_wstored (add_wmemo w2 m md d) m md d)
    | o => (o, w2)
    end.

Inductive action :=
| AGet (p : path) (k : key)            (* backend.Get; Cas.Load = AGet PCas; TargetResultCache.Load = AGet PTarget *)
| ASet (p : path) (k : key) (b : bytes)   (* backend.Set; TargetResultCache.Write = ASet PTarget; Taint = ASet PTaint *)
| AExists (p : path) (k : key)         (* backend.Exists; TargetResultCache.Has = AExists PTarget *)
| ADelete (p : path) (k : key)
| ACasWrite (d : key) (b : bytes)
| ACasExists (d : key).

Inductive wop :=
| Do (m : machine) (md : mode) (a : action)
| Reset (m : machine).                 (* a new process on machine m: fresh Cas objects *)

Definition do_op (w : world) (o : wop) : res * world :=
  match o with
  | Reset m => (ROk, reset_memo w m)
  | Do m md a =>
      match a with
      | AGet p k => b_get w m md p k
      | ASet p k b => b_set w m md p k b
      | AExists p k => b_exists w m md p k
      | ADelete p k => b_delete w m md p k
      | ACasWrite d b => cas_write w m md d b
      | ACasExists d => cas_exists w m md d
      end
  end.

Fixpoint run_ops (w : world) (ops : list wop) : list res * world :=
  match ops with
  | [] => ([], w)
  | o :: r => let (x, w1) := do_op w o in
              let (xs, w2) := run_ops w1 r in (x :: xs, w2)
  end.

(* the trace of observations the driver prints: result and world after each op *)
Fixpoint run_trace (w : world) (ops : list wop) : list (res * world) :=
  match ops with
  | [] => []
  | o :: r => let (x, w1) := do_op w o in (x, w1) :: run_trace w1 r
  end.

Definition empty_world (rf : list rfault) (lf : list lfault) : world :=
  mkW [] [] [] (fun _ _ => []) (fun _ _ => []) rf lf.

(* what one target publishes through the wrapper: its blobs, then its result *)
Definition publish (m : machine) (blobs : list (key * bytes)) (k : key) (r : bytes) : list wop :=
  map (fun e => Do m Wrapped (ACasWrite (fst e) (snd e))) blobs ++ [Do m Wrapped (ASet PTarget k r)].

Definition is_ok (r : res) : bool := match r with ROk => true | _ => false end.

(* guard of C08_no_dangling: every digest the writing process remembers as stored is in the remote
   (true of a new process, whose memo is empty, and kept by every op that does not delete) *)
Definition stored_in_remote (w : world) (m : machine) : bool :=
  forallb (fun d => is_some (lookup (rem w) PCas d)) (wstored w m Wrapped).

(* the class of histories of the repaired finding C08-F1, kept for the check (driver command `guard`): every
   blob of the local cache is also in the remote; it was the guard of the former C08_no_dangling_partial *)
Definition cas_entry_mirrored (rm : fsmap) (e : (path * key) * bytes) : bool :=
  match fst (fst e) with PCas => is_some (lookup rm PCas (snd (fst e))) | _ => true end.
Definition local_sub_remote (w : world) (m : machine) : bool := forallb (cas_entry_mirrored (rem w)) (loc w m).

Definition is_delete (o : wop) : bool :=
  match o with Do _ _ (ADelete _ _) => true | _ => false end.
