(* Build_c02_proofs.v -- property C02 over Build.v: a target's command runs only when the cache
   cannot serve it; a no-op rebuild runs nothing; an edit re-executes at most its cone; early
   cut-off.  Proof method: replay (lock-step simulation of the second build against the first). *)
From Coq Require Import List Ascii Bool Arith Lia Permutation.
From Grog Require Import Str Label HashKey HashKey_proofs Build Build_proofs.
From Grog Require Build_lift_proofs.
Import ListNotations.

Section C02.
Variable H : str -> str.

(* ================================================================== restoring outputs *)
(* since the repair of C06-F3 a restore is blocked by nothing that sits at the output path (absent, parent
   missing, any file, a directory at a file's path): it succeeds iff the blob is in the CAS or the path
   already holds the recorded content *)
Lemma load_one_ok c t o dg ws :
  alookup dg (c_cas c) <> None ->
  exists ws', load_one H c t o dg ws = Some ws'.
Proof.
  intros Hcas. unfold load_one.
  destruct (match ws_get (out_path t o) ws with PFile x => str_eqb (out_digest H o x) dg | _ => false end);
    [eauto|].
  destruct (alookup dg (c_cas c)) as [content|]; [eauto | congruence].
Qed.

Lemma load_one_fail c t o dg ws :
  load_one H c t o dg ws = None -> alookup dg (c_cas c) = None.
Proof.
  unfold load_one. intro E.
  destruct (match ws_get (out_path t o) ws with PFile x => str_eqb (out_digest H o x) dg | _ => false end);
    [discriminate|].
  destruct (alookup dg (c_cas c)) as [content|]; [discriminate | reflexivity].
Qed.

Definition restorable (c : cache) (t : tdef) (rs : list (str * str)) : Prop :=
  forall def dg, In (def, dg) rs ->
    exists o, find_out (td_outs t) def = Some o /\ alookup dg (c_cas c) <> None.

Lemma load_all_ok c t rs : forall ws, restorable c t rs -> fst (load_all H c t rs ws) = true.
Proof.
  induction rs as [|[def dg] rs IH]; intros ws Hr; cbn [load_all]; [reflexivity|].
  destruct (Hr def dg (or_introl eq_refl)) as (o & Hf & Hc). rewrite Hf.
  destruct (load_one_ok c t o dg ws Hc) as [ws1 E1]. rewrite E1.
  apply IH. intros d g Hin. apply Hr. right; exact Hin.
Qed.

Lemma load_all_fail c t rs : forall ws, fst (load_all H c t rs ws) = false ->
  exists def dg, In (def, dg) rs /\
    (find_out (td_outs t) def = None \/
     exists o, find_out (td_outs t) def = Some o /\ alookup dg (c_cas c) = None).
Proof.
  induction rs as [|[def dg] rs IH]; intros ws Hf; cbn [load_all] in Hf; [discriminate|].
  destruct (find_out (td_outs t) def) as [o|] eqn:Ef.
  - destruct (load_one H c t o dg ws) as [ws1|] eqn:E1.
    + destruct (IH ws1 Hf) as (d & g & Hin & Hc). exists d, g. split; [right; exact Hin | exact Hc].
    + exists def, dg. split; [left; reflexivity|]. right. exists o. split; [exact Ef|].
      apply load_one_fail with (1 := E1).
  - exists def, dg. split; [left; reflexivity | left; exact Ef].
Qed.

(* ================================================================== labels *)
Lemma label_eqb_eq a b : label_eqb a b = true <-> a = b.
Proof.
  destruct a as [p n], b as [p' n']. unfold label_eqb; simpl.
  rewrite andb_true_iff, !str_eqb_eq.
  split; [intros [-> ->]; reflexivity | intro E; inversion E; auto].
Qed.

Lemma label_eqb_refl a : label_eqb a a = true.
Proof. apply label_eqb_eq; reflexivity. Qed.

Lemma label_in_remove_other l l' ls : l' <> l -> label_in l (label_remove l' ls) = label_in l ls.
Proof.
  intro Hne. unfold label_in, label_remove. induction ls as [|x ls IH]; simpl; auto.
  destruct (label_eqb l' x) eqn:E; simpl.
  - apply label_eqb_eq in E; subst x.
    destruct (label_eqb l l') eqn:E2; [apply label_eqb_eq in E2; congruence|]. simpl. exact IH.
  - rewrite IH. reflexivity.
Qed.

Lemma label_in_remove_sub l l' ls : label_in l (label_remove l' ls) = true -> label_in l ls = true.
Proof.
  unfold label_in, label_remove. induction ls as [|x ls IH]; simpl; auto.
  destruct (label_eqb l' x); simpl.
  - intro Hx. rewrite IH; [apply orb_true_r | exact Hx].
  - destruct (label_eqb l x); simpl; auto.
Qed.

Lemma label_in_cons l x ls : label_in l (x :: ls) = label_eqb l x || label_in l ls.
Proof. reflexivity. Qed.

(* ================================================================== the command *)
Lemma run_command_ext_other s t w w' l :
  run_command s t w = Some w' -> l <> td_label t -> label_in l (w_ext w') = label_in l (w_ext w).
Proof.
  unfold run_command. intros E Hl.
  assert (Hadd : label_in l (if label_in (td_label t) (w_ext w) then w_ext w else td_label t :: w_ext w)
                 = label_in l (w_ext w)).
  { destruct (label_in (td_label t) (w_ext w)); [reflexivity|]. rewrite label_in_cons.
    destruct (label_eqb l (td_label t)) eqn:E2; [apply label_eqb_eq in E2; congruence | reflexivity]. }
  destruct (td_beh t); try discriminate;
    destruct (dep_parts s (w_ws w) (td_deps t)); try discriminate;
    inversion E; subst; cbn [w_ext]; destruct (td_check t); auto.
  apply label_in_remove_other. congruence.
Qed.

Lemma run_command_ext_mono s t w w' l :
  run_command s t w = Some w' -> check_ok w' t = true ->
  label_in l (w_ext w) = true -> label_in l (w_ext w') = true.
Proof.
  intros E Hc Hl. destruct (label_eqb l (td_label t)) eqn:El.
  - apply label_eqb_eq in El; subst l. revert Hc. unfold check_ok, run_command in *.
    destruct (td_beh t); try discriminate;
      destruct (dep_parts s (w_ws w) (td_deps t)); try discriminate;
      inversion E; subst; cbn [w_ext]; destruct (td_check t); cbn [negb orb]; auto;
      try (rewrite Hl; auto).
  - rewrite (run_command_ext_other s t w w' l E); [exact Hl|].
    intro; subst. rewrite label_eqb_refl in El. discriminate.
Qed.

Lemma run_command_failed_world_ext s t w : w_ext (run_command_failed_world s t w) = w_ext w.
Proof.
  unfold run_command_failed_world.
  destruct (td_beh t); try reflexivity.
  destruct (dep_parts s (w_ws w) (td_deps t)); reflexivity.
Qed.

(* ================================================================== OnTargetComplete *)
Lemma present_digests_spec t ws : forall outs ds, present_digests H t outs ws = Some ds ->
  map (fun e => fst (fst e)) ds = outs /\
  (forall o, In o outs -> exists c, ws_get (out_path t o) ws = PFile c).
Proof.
  induction outs as [|o outs IH]; intros ds E; cbn [present_digests] in E.
  - inversion E; subst. split; [reflexivity | intros o []].
  - destruct (ws_get (out_path t o) ws) eqn:Ecur; try discriminate.
    destruct (present_digests H t outs ws) as [rest|]; [|discriminate].
    inversion E; subst. destruct (IH rest eq_refl) as [Hm Hp]. split.
    + cbn [map fst]. rewrite Hm. reflexivity.
    + intros o' [->|Hin]; [eauto | apply Hp, Hin].
Qed.

Definition cas_fold (ds : list (outdef * str * str)) (cas : list (str * str)) :=
  fold_left (fun cas e => cas_add (snd (fst e)) (snd e) cas) ds cas.

Lemma cas_fold_mono ds : forall cas d x, alookup d cas = Some x -> alookup d (cas_fold ds cas) = Some x.
Proof.
  unfold cas_fold. induction ds as [|e ds IH]; intros cas d x Hx; cbn [fold_left]; [exact Hx|].
  apply IH, alookup_cas_add_mono, Hx.
Qed.

Lemma cas_fold_in ds : forall cas e, In e ds -> alookup (snd (fst e)) (cas_fold ds cas) <> None.
Proof.
  unfold cas_fold. induction ds as [|e0 ds IH]; intros cas e Hin; [destruct Hin|].
  cbn [fold_left]. destruct Hin as [->|Hin]; [|apply IH, Hin].
  destruct (alookup_cas_add_same (snd (fst e)) (snd e) cas) as [x Hx].
  pose proof (cas_fold_mono ds _ _ _ Hx) as Hm. unfold cas_fold in Hm. rewrite Hm. discriminate.
Qed.

Definition oc_pair (cfg : config) (t : tdef) (key : str) (c : cache) (ds : list (outdef * str * str))
  : result * list (str * str) :=
  if td_nocache t || negb (cfg_cache cfg) then
    (mkRes (nocache_output_hash H (map (fun e => (out_def (fst (fst e)), snd (fst e))) ds)) [], c_cas c)
  else match td_outs t with
       | [] => (mkRes key [], c_cas c)
       | _ => (mkRes (output_hash H (map (fun e => ser_out (fst (fst e)) (snd (fst e))) ds))
                     (map (fun e => (out_def (fst (fst e)), snd (fst e))) ds),
               cas_fold ds (c_cas c))
       end.

(* a disabled cache is not written: the stored results stay (and cas' = c_cas c then, [oc_pair_cas_off]) *)
Definition oc_state (cfg : config) (i : nat) (key : str) (b : bstate) (res : result) (cas' : list (str * str))
  : bstate :=
  let c := b_cache b in
  let b1 := set_cache b (mkCache (if cfg_cache cfg then results_set key res (c_results c) else c_results c)
                                 cas' (c_taint c)) in
  let x := get_rt b1 i in
  set_rt b1 i (mkRt (rt_key x) (Some (r_outhash res)) true (rt_status x)).

Lemma oc_pair_cas_off cfg t key c ds : cfg_cache cfg = false -> snd (oc_pair cfg t key c ds) = c_cas c.
Proof. intro Hc. unfold oc_pair. rewrite Hc, orb_true_r. reflexivity. Qed.

Lemma on_complete_eq cfg i t key b :
  on_complete H cfg i t key b =
  match present_digests H t (td_outs t) (w_ws (b_world b)) with
  | None => None
  | Some ds => Some (oc_state cfg i key b (fst (oc_pair cfg t key (b_cache b) ds))
                              (snd (oc_pair cfg t key (b_cache b) ds)))
  end.
Proof.
  unfold on_complete, oc_pair, oc_state, cas_fold.
  destruct (present_digests H t (td_outs t) (w_ws (b_world b))) as [ds|].
  - destruct (cfg_cache cfg) eqn:Ec.
    + destruct (td_nocache t || negb true); [reflexivity|].
      destruct (td_outs t); reflexivity.
    + rewrite orb_true_r. cbn [fst snd]. destruct (b_cache b); reflexivity.
  - destruct (td_outs t); reflexivity.
Qed.

Lemma oc_pair_cas_mono cfg t key c ds d x :
  alookup d (c_cas c) = Some x -> alookup d (snd (oc_pair cfg t key c ds)) = Some x.
Proof.
  intro Hx. unfold oc_pair. destruct (td_nocache t || negb (cfg_cache cfg)); [exact Hx|].
  destruct (td_outs t); [exact Hx|]. cbn [snd]. apply cas_fold_mono, Hx.
Qed.

Lemma oc_pair_blobs cfg t key c ds def dg :
  In (def, dg) (r_outs (fst (oc_pair cfg t key c ds))) ->
  alookup dg (snd (oc_pair cfg t key c ds)) <> None.
Proof.
  unfold oc_pair. destruct (td_nocache t || negb (cfg_cache cfg)); [intros []|].
  destruct (td_outs t); [intros []|]. cbn [fst snd r_outs]. intro Hin.
  apply in_map_iff in Hin as (e & He & Hin). inversion He; subst.
  apply cas_fold_in, Hin.
Qed.

Lemma forallb_combine_refl a : forallb (fun ab : str * str => str_eqb (fst ab) (snd ab)) (combine a a) = true.
Proof. induction a as [|x a IH]; simpl; auto. rewrite str_eqb_refl. exact IH. Qed.

Lemma outputs_match_same t r : map fst (r_outs r) = map out_def (td_outs t) -> outputs_match t r = true.
Proof.
  intro E. unfold outputs_match. rewrite E, Nat.eqb_refl, forallb_combine_refl. reflexivity.
Qed.

Lemma oc_pair_match cfg t key c ds :
  cfg_cache cfg = true -> td_nocache t = false ->
  map (fun e : outdef * str * str => fst (fst e)) ds = td_outs t ->
  outputs_match t (fst (oc_pair cfg t key c ds)) = true.
Proof.
  intros Hc Hn Hm. apply outputs_match_same. unfold oc_pair. rewrite Hc, Hn. cbn [orb negb].
  destruct (td_outs t) as [|o outs] eqn:Eo; [reflexivity|]. cbn [fst r_outs].
  rewrite map_map. cbn [fst]. rewrite <- Hm, map_map. reflexivity.
Qed.

Lemma combine_eqb_eq : forall a b : list str, length a = length b ->
  forallb (fun ab : str * str => str_eqb (fst ab) (snd ab)) (combine a b) = true -> a = b.
Proof.
  induction a as [|x a IH]; intros [|y b] Hl Hf; simpl in *; try discriminate; auto.
  apply andb_true_iff in Hf as [H1 H2]. apply str_eqb_eq in H1. subst. f_equal. apply IH; auto.
Qed.

Lemma outputs_match_perm t r :
  outputs_match t r = true -> Permutation (map out_def (td_outs t)) (map fst (r_outs r)).
Proof.
  unfold outputs_match. intro E. apply andb_true_iff in E as [E1 E2].
  apply Nat.eqb_eq in E1. apply sort_strs_eq_perm. apply combine_eqb_eq; assumption.
Qed.

Lemma outputs_match_find t r def dg :
  outputs_match t r = true -> In (def, dg) (r_outs r) ->
  exists o, find_out (td_outs t) def = Some o.
Proof.
  intros Hm Hin. apply outputs_match_perm in Hm.
  assert (Hd : In def (map out_def (td_outs t))).
  { eapply Permutation_in; [apply Permutation_sym, Hm|]. apply in_map_iff. exists (def, dg). auto. }
  apply in_map_iff in Hd as (o & Ho & Hino). unfold find_out.
  destruct (find (fun o0 => str_eqb (out_def o0) def) (td_outs t)) as [o'|] eqn:Ef; [eauto|].
  pose proof (find_none _ _ Ef o Hino) as Hn. cbn beta in Hn. rewrite Ho, str_eqb_refl in Hn. discriminate.
Qed.

Lemma find_out_in outs def o : find_out outs def = Some o -> In o outs.
Proof. unfold find_out. intro E. apply find_some in E. tauto. Qed.

(* ================================================================== frames *)
(* what every LAll-mode step at node i leaves alone / changes monotonically *)
Definition frame (i : nat) (b b' : bstate) : Prop :=
  rt_len b' = rt_len b /\
  (forall j, j <> i -> get_rt b' j = get_rt b j) /\
  (forall l, label_in l (c_taint (b_cache b')) = true -> label_in l (c_taint (b_cache b)) = true) /\
  (forall d x, alookup d (c_cas (b_cache b)) = Some x -> alookup d (c_cas (b_cache b')) = Some x).

Lemma frame_refl i b : frame i b b.
Proof. repeat split; auto. Qed.

Lemma frame_trans i a b c : frame i a b -> frame i b c -> frame i a c.
Proof.
  intros (L1 & R1 & T1 & C1) (L2 & R2 & T2 & C2). repeat split.
  - congruence.
  - intros j Hj. rewrite R2, R1; auto.
  - auto.
  - auto.
Qed.

Lemma frame_set_rt i b r : frame i b (set_rt b i r).
Proof.
  repeat split; auto.
  - apply rt_len_set_rt.
  - intros j Hj. apply get_rt_set_rt_other. auto.
Qed.

Lemma frame_mark i b st : frame i b (mark b i st).
Proof. unfold mark. apply frame_set_rt. Qed.

Lemma frame_add_exec i b l : frame i b (add_exec b l).
Proof. repeat split; auto. Qed.

Lemma frame_set_world i b w : frame i b (set_world b w).
Proof. repeat split; auto. Qed.

Definition exec_b0 (t : tdef) (b : bstate) : bstate :=
  if null (td_cmd t) then b else add_exec b (td_label t).

Lemma frame_exec_b0 i t b : frame i b (exec_b0 t b).
Proof. unfold exec_b0. destruct (null (td_cmd t)); [apply frame_refl | apply frame_add_exec]. Qed.

Lemma exec_b0_world t b : b_world (exec_b0 t b) = b_world b.
Proof. unfold exec_b0. destruct (null (td_cmd t)); reflexivity. Qed.
Lemma exec_b0_cache t b : b_cache (exec_b0 t b) = b_cache b.
Proof. unfold exec_b0. destruct (null (td_cmd t)); reflexivity. Qed.
Lemma exec_b0_rt t b : b_rt (exec_b0 t b) = b_rt b.
Proof. unfold exec_b0. destruct (null (td_cmd t)); reflexivity. Qed.
Lemma exec_b0_stop t b : b_stop (exec_b0 t b) = b_stop b.
Proof. unfold exec_b0. destruct (null (td_cmd t)); reflexivity. Qed.
Lemma exec_b0_get_rt t b j : get_rt (exec_b0 t b) j = get_rt b j.
Proof. unfold get_rt. rewrite exec_b0_rt. reflexivity. Qed.

Definition untaint (tainted : bool) (t : tdef) (b2 : bstate) : bstate :=
  if tainted
  then set_cache b2 (mkCache (c_results (b_cache b2)) (c_cas (b_cache b2))
                             (label_remove (td_label t) (c_taint (b_cache b2))))
  else b2.

Lemma frame_untaint i tainted t b : frame i b (untaint tainted t b).
Proof.
  unfold untaint. destruct tainted; [|apply frame_refl].
  repeat split; auto.
  cbn. intros l Hl. eapply label_in_remove_sub; exact Hl.
Qed.

Lemma frame_oc_state i key b cfg t c ds :
  c = b_cache b ->
  frame i b (oc_state cfg i key b (fst (oc_pair cfg t key c ds)) (snd (oc_pair cfg t key c ds))).
Proof.
  intros ->. unfold oc_state. repeat split.
  - rewrite rt_len_set_rt. reflexivity.
  - intros j Hj. rewrite get_rt_set_rt_other; auto.
  - cbn. auto.
  - cbn. intros d x Hx. apply oc_pair_cas_mono, Hx.
Qed.

(* ================================================================== executeTarget *)
Lemma execute_cases cfg s i t key tainted b ok b' :
  execute H cfg s i t key tainted b = (ok, b') ->
  (ok = false /\ exists w', b' = set_world (exec_b0 t b) w' /\
      (forall l, l <> td_label t -> label_in l (w_ext w') = label_in l (w_ext (b_world b)))) \/
  (ok = true /\ exists w' ds,
      (forall l, label_in l (w_ext (b_world b)) = true -> label_in l (w_ext w') = true) /\
      check_ok w' t = true /\
      present_digests H t (td_outs t) (w_ws w') = Some ds /\
      b' = untaint tainted t
             (oc_state cfg i key (set_world (exec_b0 t b) w')
                       (fst (oc_pair cfg t key (b_cache b) ds)) (snd (oc_pair cfg t key (b_cache b) ds)))).
Proof.
  unfold execute. change (if null (td_cmd t) then b else add_exec b (td_label t)) with (exec_b0 t b).
  intro E.
  destruct (if null (td_cmd t) then Some (b_world (exec_b0 t b))
            else run_command s t (b_world (exec_b0 t b))) as [w'|] eqn:Eran.
  - assert (Hoth : forall l, l <> td_label t -> label_in l (w_ext w') = label_in l (w_ext (b_world b))).
    { intros l Hl. destruct (null (td_cmd t)).
      - inversion Eran; subst. rewrite exec_b0_world. reflexivity.
      - rewrite exec_b0_world in Eran. eapply run_command_ext_other; eauto. }
    assert (Hmono : check_ok w' t = true ->
                    forall l, label_in l (w_ext (b_world b)) = true -> label_in l (w_ext w') = true).
    { intros Hc l Hl. destruct (null (td_cmd t)).
      - inversion Eran; subst. rewrite exec_b0_world. exact Hl.
      - rewrite exec_b0_world in Eran. eapply run_command_ext_mono; eauto. }
    destruct (check_ok w' t) eqn:Echk; cbn [negb] in E.
    + rewrite on_complete_eq in E. rewrite b_world_set_world, b_cache_set_world, exec_b0_cache in E.
      destruct (present_digests H t (td_outs t) (w_ws w')) as [ds|] eqn:Epd.
      * right. inversion E; subst. split; [reflexivity|]. exists w', ds.
        repeat split; auto.
      * left. inversion E; subst. split; [reflexivity|]. exists w'. auto.
    + left. inversion E; subst. split; [reflexivity|]. exists w'. auto.
  - left. inversion E; subst. split; [reflexivity|].
    exists (run_command_failed_world s t (b_world (exec_b0 t b))). rewrite exec_b0_world.
    repeat split.
    intros l _. rewrite run_command_failed_world_ext. reflexivity.
Qed.

Lemma execute_frame cfg s i t key tainted b ok b' :
  execute H cfg s i t key tainted b = (ok, b') -> frame i b b'.
Proof.
  intro E. apply execute_cases in E as [(_ & w' & -> & _)|(_ & w' & ds & _ & _ & _ & ->)].
  - eapply frame_trans; [apply frame_exec_b0|]. apply frame_set_world.
  - eapply frame_trans; [apply frame_exec_b0|].
    eapply frame_trans; [apply frame_set_world|].
    eapply frame_trans; [|apply frame_untaint].
    apply frame_oc_state. rewrite b_cache_set_world, exec_b0_cache. reflexivity.
Qed.

Lemma untaint_world tn t b : b_world (untaint tn t b) = b_world b.
Proof. unfold untaint; destruct tn; reflexivity. Qed.
Lemma untaint_exec tn t b : b_exec (untaint tn t b) = b_exec b.
Proof. unfold untaint; destruct tn; reflexivity. Qed.
Lemma untaint_stop tn t b : b_stop (untaint tn t b) = b_stop b.
Proof. unfold untaint; destruct tn; reflexivity. Qed.
Lemma untaint_results tn t b : c_results (b_cache (untaint tn t b)) = c_results (b_cache b).
Proof. unfold untaint; destruct tn; reflexivity. Qed.
Lemma untaint_cas tn t b : c_cas (b_cache (untaint tn t b)) = c_cas (b_cache b).
Proof. unfold untaint; destruct tn; reflexivity. Qed.
Lemma untaint_get_rt tn t b j : get_rt (untaint tn t b) j = get_rt b j.
Proof. unfold untaint; destruct tn; reflexivity. Qed.

Lemma oc_state_world cfg i key b res cas : b_world (oc_state cfg i key b res cas) = b_world b.
Proof. reflexivity. Qed.
Lemma oc_state_exec cfg i key b res cas : b_exec (oc_state cfg i key b res cas) = b_exec b.
Proof. reflexivity. Qed.
Lemma oc_state_stop cfg i key b res cas : b_stop (oc_state cfg i key b res cas) = b_stop b.
Proof. reflexivity. Qed.
Lemma oc_state_results cfg i key b res cas :
  c_results (b_cache (oc_state cfg i key b res cas)) =
  if cfg_cache cfg then results_set key res (c_results (b_cache b)) else c_results (b_cache b).
Proof. reflexivity. Qed.
Lemma oc_state_results_on cfg i key b res cas : cfg_cache cfg = true ->
  c_results (b_cache (oc_state cfg i key b res cas)) = results_set key res (c_results (b_cache b)).
Proof. intro Hc. rewrite oc_state_results, Hc. reflexivity. Qed.
Lemma oc_state_cas cfg i key b res cas : c_cas (b_cache (oc_state cfg i key b res cas)) = cas.
Proof. reflexivity. Qed.
Lemma oc_state_taint cfg i key b res cas : c_taint (b_cache (oc_state cfg i key b res cas)) = c_taint (b_cache b).
Proof. reflexivity. Qed.
Lemma oc_state_get_rt_same cfg i key b res cas :
  i < rt_len b ->
  get_rt (oc_state cfg i key b res cas) i =
  mkRt (rt_key (get_rt b i)) (Some (r_outhash res)) true (rt_status (get_rt b i)).
Proof. intro Hi. unfold oc_state. rewrite get_rt_set_rt_same; [reflexivity | exact Hi]. Qed.

Lemma execute_stop cfg s i t key tainted b ok b' :
  execute H cfg s i t key tainted b = (ok, b') -> b_stop b' = b_stop b.
Proof.
  intro E. apply execute_cases in E as [(_ & w' & -> & _)|(_ & w' & ds & _ & _ & _ & ->)].
  - rewrite b_stop_set_world. apply exec_b0_stop.
  - rewrite untaint_stop, oc_state_stop, b_stop_set_world. apply exec_b0_stop.
Qed.

Lemma execute_exec cfg s i t key tainted b ok b' :
  execute H cfg s i t key tainted b = (ok, b') -> b_exec b' = b_exec (exec_b0 t b).
Proof.
  intro E. apply execute_cases in E as [(_ & w' & -> & _)|(_ & w' & ds & _ & _ & _ & ->)].
  - reflexivity.
  - rewrite untaint_exec, oc_state_exec. reflexivity.
Qed.

Lemma execute_results_other cfg s i t key tainted b ok b' k :
  execute H cfg s i t key tainted b = (ok, b') -> key <> k ->
  rlookup k (c_results (b_cache b')) = rlookup k (c_results (b_cache b)).
Proof.
  intros E Hk. apply execute_cases in E as [(_ & w' & -> & _)|(_ & w' & ds & _ & _ & _ & ->)].
  - rewrite b_cache_set_world, exec_b0_cache. reflexivity.
  - rewrite untaint_results, oc_state_results, b_cache_set_world, exec_b0_cache.
    destruct (cfg_cache cfg); [apply rlookup_set_other; exact Hk | reflexivity].
Qed.

Lemma execute_fail_cache cfg s i t key tainted b b' :
  execute H cfg s i t key tainted b = (false, b') -> b_cache b' = b_cache b /\ b_rt b' = b_rt b.
Proof.
  intro E. apply execute_cases in E as [(_ & w' & -> & _)|(Hc & _)]; [|discriminate].
  rewrite b_cache_set_world, exec_b0_cache, b_rt_set_world, exec_b0_rt. auto.
Qed.

Lemma execute_rt_i cfg s i t key tainted b ok b' :
  execute H cfg s i t key tainted b = (ok, b') ->
  rt_key (get_rt b' i) = rt_key (get_rt b i) /\ rt_status (get_rt b' i) = rt_status (get_rt b i).
Proof.
  intro E. apply execute_cases in E as [(_ & w' & -> & _)|(_ & w' & ds & _ & _ & _ & ->)].
  - rewrite get_rt_set_world, exec_b0_get_rt. auto.
  - rewrite untaint_get_rt. unfold oc_state. split.
    + rewrite (get_rt_set_rt_field rt_key); [|reflexivity].
      rewrite get_rt_set_cache, get_rt_set_world, exec_b0_get_rt. reflexivity.
    + rewrite (get_rt_set_rt_field rt_status); [|reflexivity].
      rewrite get_rt_set_cache, get_rt_set_world, exec_b0_get_rt. reflexivity.
Qed.

(* external conditions: a successful execution never destroys one; a failing one can only
   destroy the condition of its own label (BBreakCheck) *)
Lemma execute_ext cfg s i t key tainted b ok b' l :
  execute H cfg s i t key tainted b = (ok, b') ->
  label_in l (w_ext (b_world b)) = true ->
  label_in l (w_ext (b_world b')) = true \/ (ok = false /\ l = td_label t).
Proof.
  intros E Hl.
  apply execute_cases in E as [(-> & w' & -> & Ho)|(_ & w' & ds & Hm & _ & _ & ->)].
  - rewrite b_world_set_world. destruct (label_eqb l (td_label t)) eqn:El.
    + right. apply label_eqb_eq in El. auto.
    + left. rewrite Ho; [exact Hl|]. intro; subst. rewrite label_eqb_refl in El. discriminate.
  - left. rewrite untaint_world, oc_state_world, b_world_set_world. apply Hm, Hl.
Qed.

Definition check_ext (ext : list label) (t : tdef) : bool :=
  negb (td_check t) || label_in (td_label t) ext.

Lemma check_ok_ext w t : check_ok w t = check_ext (w_ext w) t.
Proof. reflexivity. Qed.

(* everything the next build needs in order to serve t from the cache under [key] *)
Definition hit_ready (c : cache) (ext : list label) (t : tdef) (key oh : str) : Prop :=
  exists r, rlookup key (c_results c) = Some r /\ r_outhash r = oh /\ outputs_match t r = true /\
    label_in (td_label t) (c_taint c) = false /\ check_ext ext t = true.

Definition hit_ready_b (b : bstate) (t : tdef) (key oh : str) : Prop :=
  hit_ready (b_cache b) (w_ext (b_world b)) t key oh.

Lemma execute_success cfg s i t key b b' :
  cfg_cache cfg = true -> td_nocache t = false -> i < rt_len b ->
  execute H cfg s i t key (label_in (td_label t) (c_taint (b_cache b))) b = (true, b') ->
  exists oh, get_rt b' i = mkRt (rt_key (get_rt b i)) (Some oh) true (rt_status (get_rt b i)) /\
             hit_ready_b b' t key oh.
Proof.
  intros Hc Hn Hi E.
  apply execute_cases in E as [(Hf & _)|(_ & w' & ds & Hm & Hchk & Hpd & ->)]; [discriminate|].
  set (pr := oc_pair cfg t key (b_cache b) ds).
  destruct (present_digests_spec t (w_ws w') _ _ Hpd) as [Hmap Hfile].
  exists (r_outhash (fst pr)). split.
  - rewrite untaint_get_rt, oc_state_get_rt_same.
    + rewrite get_rt_set_world, exec_b0_get_rt. reflexivity.
    + rewrite rt_len_set_world. unfold rt_len. rewrite exec_b0_rt. exact Hi.
  - unfold hit_ready_b. exists (fst pr).
    rewrite untaint_results, untaint_world, oc_state_results_on, oc_state_world, b_world_set_world by exact Hc.
    split; [apply rlookup_set_same|]. split; [reflexivity|].
    split; [apply oc_pair_match; auto|]. split.
    + unfold untaint. destruct (label_in (td_label t) (c_taint (b_cache b))) eqn:Et.
      * cbn. apply label_in_remove.
      * rewrite oc_state_taint, b_cache_set_world, exec_b0_cache. exact Et.
    + rewrite <- check_ok_ext. exact Hchk.
Qed.

(* ================================================================== Registry.LoadOutputs *)
Lemma load_outputs_cases i t r b ok b' :
  rt_loaded (get_rt b i) = false ->
  load_outputs H i t r b = (ok, b') ->
  (ok = false /\ outputs_match t r = false /\ b' = b) \/
  (outputs_match t r = true /\ exists ws',
     load_all H (b_cache b) t (r_outs r) (w_ws (b_world b)) = (ok, ws') /\
     let b1 := set_world b (mkWorld ws' (w_ext (b_world b))) in
     b' = if ok then set_rt b1 i (mkRt (rt_key (get_rt b i)) (Some (r_outhash r)) true (rt_status (get_rt b i)))
          else b1).
Proof.
  intros Hl E. unfold load_outputs in E. rewrite Hl in E.
  destruct (outputs_match t r) eqn:Em; cbn [negb] in E.
  - right. split; [reflexivity|].
    destruct (load_all H (b_cache b) t (r_outs r) (w_ws (b_world b))) as [ok1 ws'] eqn:Ela.
    exists ws'. destruct ok1; inversion E; subst; split; reflexivity.
  - left. inversion E; subst. auto.
Qed.

Lemma load_outputs_frame i t r b ok b' :
  rt_loaded (get_rt b i) = false ->
  load_outputs H i t r b = (ok, b') ->
  frame i b b' /\ b_cache b' = b_cache b /\ b_exec b' = b_exec b /\ b_stop b' = b_stop b /\
  w_ext (b_world b') = w_ext (b_world b) /\
  rt_key (get_rt b' i) = rt_key (get_rt b i) /\ rt_status (get_rt b' i) = rt_status (get_rt b i).
Proof.
  intros Hl E. apply load_outputs_cases in E as [(_ & _ & ->)|(_ & ws' & Ela & Hb)]; [|clear Hl|exact Hl].
  - split; [apply frame_refl|]. repeat split; reflexivity.
  - cbn zeta in Hb. destruct ok; subst b'.
    + split; [|split; [|split; [|split; [|split; [|split]]]]]; try reflexivity.
      * apply frame_trans with (set_world b (mkWorld ws' (w_ext (b_world b))));
          [apply frame_set_world | apply frame_set_rt].
      * rewrite (get_rt_set_rt_field rt_key); reflexivity.
      * rewrite (get_rt_set_rt_field rt_status); reflexivity.
    + split; [apply frame_set_world|]. repeat split; reflexivity.
Qed.

Lemma load_outputs_true i t r b b' :
  rt_loaded (get_rt b i) = false -> i < rt_len b ->
  load_outputs H i t r b = (true, b') ->
  outputs_match t r = true /\
  get_rt b' i = mkRt (rt_key (get_rt b i)) (Some (r_outhash r)) true (rt_status (get_rt b i)).
Proof.
  intros Hl Hi E. apply load_outputs_cases in E as [(Hf & _)|(Hm & ws' & Ela & Hb)];
    [discriminate | | exact Hl].
  cbn zeta in Hb. subst b'. split; [exact Hm|].
  rewrite get_rt_set_rt_same; [reflexivity | rewrite rt_len_set_world; exact Hi].
Qed.

Lemma load_outputs_ok i t r b :
  rt_loaded (get_rt b i) = false -> outputs_match t r = true ->
  restorable (b_cache b) t (r_outs r) ->
  fst (load_outputs H i t r b) = true.
Proof.
  intros Hl Hm Hr. unfold load_outputs. rewrite Hl, Hm. cbn [negb].
  pose proof (load_all_ok (b_cache b) t (r_outs r) (w_ws (b_world b)) Hr) as Hok.
  destruct (load_all H (b_cache b) t (r_outs r) (w_ws (b_world b))) as [ok ws']. cbn [fst] in Hok.
  subst ok. reflexivity.
Qed.

Lemma load_outputs_false i t r b :
  rt_loaded (get_rt b i) = false ->
  fst (load_outputs H i t r b) = false ->
  outputs_match t r = false \/
  exists def dg, In (def, dg) (r_outs r) /\
    (find_out (td_outs t) def = None \/
     exists o, find_out (td_outs t) def = Some o /\ alookup dg (c_cas (b_cache b)) = None).
Proof.
  intros Hl Hf. destruct (load_outputs H i t r b) as [ok b'] eqn:E. cbn [fst] in Hf. subst ok.
  apply load_outputs_cases in E as [(_ & Hm & _)|(_ & ws' & Ela & _)]; [left; exact Hm | | exact Hl].
  right. apply load_all_fail with (ws := w_ws (b_world b)). rewrite Ela. reflexivity.
Qed.

(* ================================================================== the task of one target, LAll *)
Definition pt_key (s : sources) (t : tdef) (dh : list str) : str :=
  change_key H (pkg_fs s t) (state_of t dh).

Definition pt_b0 (i : nat) (key : str) (b : bstate) : bstate :=
  let x := get_rt b i in set_rt b i (mkRt (Some key) (rt_ohash x) (rt_loaded x) (rt_status x)).

Definition pt_tainted (t : tdef) (b : bstate) : bool := label_in (td_label t) (c_taint (b_cache b)).

Definition hit_cond (cfg : config) (t : tdef) (b : bstate) : bool :=
  negb (pt_tainted t b) && negb (td_nocache t) && cfg_cache cfg && check_ok (b_world b) t.

Definition exec_tail (cfg : config) (s : sources) (i : nat) (t : tdef) (key : str) (tainted : bool)
           (b : bstate) : bstate :=
  let '(ok, b3) := execute H cfg s i t key tainted b in
  mark b3 i (if ok then TExecuted else TFailed).

Lemma pt_LAll cfg s i t b :
  cfg_mode cfg = LAll ->
  process_target H cfg s i t b =
  match dep_hashes s b (td_deps t) with
  | None => mark b i TFailed
  | Some dh =>
      let key := pt_key s t dh in
      let b0 := pt_b0 i key b in
      match rlookup key (c_results (b_cache b)) with
      | Some res =>
          if hit_cond cfg t b then
            let '(hit, b1) := load_outputs H i t res b0 in
            if hit then mark b1 i THit else exec_tail cfg s i t key (pt_tainted t b) b1
          else exec_tail cfg s i t key (pt_tainted t b) b0
      | None => exec_tail cfg s i t key (pt_tainted t b) b0
      end
  end.
Proof.
  intro Hm. unfold process_target, exec_tail, hit_cond, pt_tainted, pt_b0, pt_key. rewrite Hm.
  destruct (dep_hashes s b (td_deps t)) as [dh|]; [|reflexivity].
  cbv zeta. cbn [b_cache b_world set_rt].
  destruct (rlookup (change_key H (pkg_fs s t) (state_of t dh)) (c_results (b_cache b))) as [res|];
    [|reflexivity].
  destruct (negb (label_in (td_label t) (c_taint (b_cache b))) && negb (td_nocache t) && cfg_cache cfg &&
            check_ok (b_world b) t); [|reflexivity].
  match goal with |- context [load_outputs H i t res ?B] => destruct (load_outputs H i t res B) as [hit b1] end.
  destruct hit; reflexivity.
Qed.

Lemma pt_b0_frame i key b : frame i b (pt_b0 i key b).
Proof. unfold pt_b0. apply frame_set_rt. Qed.
Lemma pt_b0_cache i key b : b_cache (pt_b0 i key b) = b_cache b. Proof. reflexivity. Qed.
Lemma pt_b0_world i key b : b_world (pt_b0 i key b) = b_world b. Proof. reflexivity. Qed.
Lemma pt_b0_exec i key b : b_exec (pt_b0 i key b) = b_exec b. Proof. reflexivity. Qed.
Lemma pt_b0_stop i key b : b_stop (pt_b0 i key b) = b_stop b. Proof. reflexivity. Qed.
Lemma pt_b0_len i key b : rt_len (pt_b0 i key b) = rt_len b.
Proof. unfold pt_b0. apply rt_len_set_rt. Qed.
Lemma pt_b0_loaded i key b j : rt_loaded (get_rt (pt_b0 i key b) j) = rt_loaded (get_rt b j).
Proof. unfold pt_b0. apply (get_rt_set_rt_field rt_loaded). reflexivity. Qed.
Lemma pt_b0_same i key b :
  i < rt_len b ->
  get_rt (pt_b0 i key b) i =
  mkRt (Some key) (rt_ohash (get_rt b i)) (rt_loaded (get_rt b i)) (rt_status (get_rt b i)).
Proof. intro Hi. unfold pt_b0. apply get_rt_set_rt_same. exact Hi. Qed.

Lemma pt_LAll_cases cfg s i t b :
  cfg_mode cfg = LAll ->
  (dep_hashes s b (td_deps t) = None /\ process_target H cfg s i t b = mark b i TFailed) \/
  exists dh, dep_hashes s b (td_deps t) = Some dh /\
    let key := pt_key s t dh in
    let b0 := pt_b0 i key b in
    (exists res b1, rlookup key (c_results (b_cache b)) = Some res /\ hit_cond cfg t b = true /\
        load_outputs H i t res b0 = (true, b1) /\ process_target H cfg s i t b = mark b1 i THit) \/
    (exists bm ok b3,
        ((bm = b0 /\ (rlookup key (c_results (b_cache b)) = None \/ hit_cond cfg t b = false)) \/
         (exists res, rlookup key (c_results (b_cache b)) = Some res /\ hit_cond cfg t b = true /\
                      load_outputs H i t res b0 = (false, bm))) /\
        execute H cfg s i t key (pt_tainted t b) bm = (ok, b3) /\
        process_target H cfg s i t b = mark b3 i (if ok then TExecuted else TFailed)).
Proof.
  intro Hm. rewrite (pt_LAll cfg s i t b Hm).
  destruct (dep_hashes s b (td_deps t)) as [dh|]; [right | left; auto].
  exists dh. split; [reflexivity|]. cbv zeta.
  set (key := pt_key s t dh). set (b0 := pt_b0 i key b).
  destruct (rlookup key (c_results (b_cache b))) as [res|] eqn:Er.
  - destruct (hit_cond cfg t b) eqn:Eh.
    + destruct (load_outputs H i t res b0) as [hit b1] eqn:El. destruct hit.
      * left. exists res, b1. auto.
      * right. unfold exec_tail.
        destruct (execute H cfg s i t key (pt_tainted t b) b1) as [ok b3] eqn:Ee.
        exists b1, ok, b3. split; [right; exists res; auto | auto].
    + right. unfold exec_tail.
      destruct (execute H cfg s i t key (pt_tainted t b) b0) as [ok b3] eqn:Ee.
      exists b0, ok, b3. split; [left; auto | auto].
  - right. unfold exec_tail.
    destruct (execute H cfg s i t key (pt_tainted t b) b0) as [ok b3] eqn:Ee.
    exists b0, ok, b3. split; [left; auto | auto].
Qed.

Lemma pt_b0_status i key b j : rt_status (get_rt (pt_b0 i key b) j) = rt_status (get_rt b j).
Proof. unfold pt_b0. apply (get_rt_set_rt_field rt_status). reflexivity. Qed.

Lemma pt_bm_facts (P R : Prop) (Q : result -> Prop) i t b key bm :
  rt_loaded (get_rt b i) = false ->
  ((bm = pt_b0 i key b /\ P) \/
   (exists res, Q res /\ R /\ load_outputs H i t res (pt_b0 i key b) = (false, bm))) ->
  frame i b bm /\ b_cache bm = b_cache b /\ b_exec bm = b_exec b /\ b_stop bm = b_stop b /\
  w_ext (b_world bm) = w_ext (b_world b) /\
  rt_key (get_rt bm i) = rt_key (get_rt (pt_b0 i key b) i) /\
  rt_status (get_rt bm i) = rt_status (get_rt b i).
Proof.
  intros Hl [[-> _]|(res & _ & _ & El)].
  - split; [apply pt_b0_frame|]. repeat split; try reflexivity. apply pt_b0_status.
  - apply load_outputs_frame in El; [|rewrite pt_b0_loaded; exact Hl].
    destruct El as (Hf & Hc & He & Hs & Hx & Hk & Hst).
    split; [eapply frame_trans; [apply pt_b0_frame | exact Hf]|].
    repeat split; auto. rewrite Hst. apply pt_b0_status.
Qed.

Lemma frame_len i b b' : frame i b b' -> rt_len b' = rt_len b.
Proof. intros (L & _). exact L. Qed.

(* frame + stop flag of the whole task *)
Lemma pt_frame cfg s i t b :
  cfg_mode cfg = LAll -> rt_loaded (get_rt b i) = false ->
  frame i b (process_target H cfg s i t b) /\ b_stop (process_target H cfg s i t b) = b_stop b.
Proof.
  intros Hm Hl.
  destruct (pt_LAll_cases cfg s i t b Hm) as [[_ ->]|(dh & _ & [(res & b1 & _ & _ & El & ->)|(bm & ok & b3 & Hbm & Ee & ->)])].
  - split; [apply frame_mark | reflexivity].
  - apply load_outputs_frame in El; [|rewrite pt_b0_loaded; exact Hl].
    destruct El as (Hf & _ & _ & Hs & _). split.
    + eapply frame_trans; [apply pt_b0_frame|]. eapply frame_trans; [exact Hf | apply frame_mark].
    + rewrite b_stop_mark, Hs. reflexivity.
  - apply pt_bm_facts in Hbm; [|exact Hl]. destruct Hbm as (Hf & _ & _ & Hs & _). split.
    + eapply frame_trans; [exact Hf|]. eapply frame_trans; [eapply execute_frame; exact Ee | apply frame_mark].
    + rewrite b_stop_mark, (execute_stop _ _ _ _ _ _ _ _ _ Ee). exact Hs.
Qed.

(* the key a task records is the change key of its own target (for some dependency hashes) *)
Lemma pt_b0_key i key b k :
  rt_key (get_rt b i) = None -> rt_key (get_rt (pt_b0 i key b) i) = Some k -> k = key.
Proof.
  intros Hn Hk. unfold pt_b0 in Hk. destruct (lt_dec i (rt_len b)) as [Hi|Hi].
  - rewrite get_rt_set_rt_same in Hk; [|exact Hi]. cbn [rt_key] in Hk. congruence.
  - rewrite get_rt_set_rt_oob in Hk; [congruence | lia].
Qed.

Lemma pt_key_shape cfg s i t b k :
  cfg_mode cfg = LAll -> get_rt b i = rt0 ->
  rt_key (get_rt (process_target H cfg s i t b) i) = Some k -> exists dh, k = pt_key s t dh.
Proof.
  intros Hm Hf. assert (Hl : rt_loaded (get_rt b i) = false) by (rewrite Hf; reflexivity).
  assert (Hn : rt_key (get_rt b i) = None) by (rewrite Hf; reflexivity).
  destruct (pt_LAll_cases cfg s i t b Hm) as [[_ ->]|(dh & _ & [(res & b1 & _ & _ & El & ->)|(bm & ok & b3 & Hbm & Ee & ->)])];
    rewrite rt_key_mark; intro Hk.
  - congruence.
  - apply load_outputs_frame in El; [|rewrite pt_b0_loaded; exact Hl].
    destruct El as (_ & _ & _ & _ & _ & Hkey & _). rewrite Hkey in Hk.
    exists dh. apply (pt_b0_key i _ b k Hn Hk).
  - apply pt_bm_facts in Hbm; [|exact Hl]. destruct Hbm as (_ & _ & _ & _ & _ & Hkey & _).
    destruct (execute_rt_i _ _ _ _ _ _ _ _ _ Ee) as [Hk3 _]. rewrite Hk3, Hkey in Hk.
    exists dh. apply (pt_b0_key i _ b k Hn Hk).
Qed.

Lemma exec_b0_exec t b : b_exec (exec_b0 t b) = b_exec b \/ b_exec (exec_b0 t b) = b_exec b ++ [td_label t].
Proof. unfold exec_b0. destruct (null (td_cmd t)); [left | right]; reflexivity. Qed.

Lemma pt_exec cfg s i t b :
  cfg_mode cfg = LAll -> rt_loaded (get_rt b i) = false ->
  b_exec (process_target H cfg s i t b) = b_exec b \/
  b_exec (process_target H cfg s i t b) = b_exec b ++ [td_label t].
Proof.
  intros Hm Hl.
  destruct (pt_LAll_cases cfg s i t b Hm) as [[_ ->]|(dh & _ & [(res & b1 & _ & _ & El & ->)|(bm & ok & b3 & Hbm & Ee & ->)])].
  - left; reflexivity.
  - apply load_outputs_frame in El; [|rewrite pt_b0_loaded; exact Hl].
    destruct El as (_ & _ & He & _). left. rewrite b_exec_mark, He. reflexivity.
  - apply pt_bm_facts in Hbm; [|exact Hl]. destruct Hbm as (_ & _ & He & _).
    rewrite b_exec_mark, (execute_exec _ _ _ _ _ _ _ _ _ Ee).
    destruct (exec_b0_exec t bm) as [E1|E1]; rewrite E1, He; auto.
Qed.

(* the only result a task can overwrite is the one under its own key *)
Lemma pt_results_other cfg s i t b k :
  cfg_mode cfg = LAll -> rt_loaded (get_rt b i) = false -> i < rt_len b ->
  rt_key (get_rt (process_target H cfg s i t b) i) <> Some k ->
  rlookup k (c_results (b_cache (process_target H cfg s i t b))) = rlookup k (c_results (b_cache b)).
Proof.
  intros Hm Hl Hi.
  destruct (pt_LAll_cases cfg s i t b Hm) as [[_ ->]|(dh & _ & [(res & b1 & _ & _ & El & ->)|(bm & ok & b3 & Hbm & Ee & ->)])];
    intro Hk.
  - reflexivity.
  - apply load_outputs_frame in El; [|rewrite pt_b0_loaded; exact Hl].
    destruct El as (_ & Hc & _). rewrite b_cache_mark, Hc. reflexivity.
  - apply pt_bm_facts in Hbm; [|exact Hl]. destruct Hbm as (_ & Hc & _ & _ & _ & Hkey & _).
    rewrite rt_key_mark in Hk. destruct (execute_rt_i _ _ _ _ _ _ _ _ _ Ee) as [Hk3 _].
    rewrite Hk3, Hkey, pt_b0_same in Hk; [|exact Hi]. cbn [rt_key] in Hk.
    rewrite b_cache_mark, (execute_results_other _ _ _ _ _ _ _ _ _ k Ee), Hc; [reflexivity|].
    intro; subst; apply Hk; reflexivity.
Qed.

Lemma pt_ext cfg s i t b l :
  cfg_mode cfg = LAll -> rt_loaded (get_rt b i) = false -> i < rt_len b ->
  label_in l (w_ext (b_world b)) = true ->
  label_in l (w_ext (b_world (process_target H cfg s i t b))) = true \/
  (rt_status (get_rt (process_target H cfg s i t b) i) = TFailed /\ l = td_label t).
Proof.
  intros Hm Hl Hi Hin.
  destruct (pt_LAll_cases cfg s i t b Hm) as [[_ ->]|(dh & _ & [(res & b1 & _ & _ & El & ->)|(bm & ok & b3 & Hbm & Ee & ->)])].
  - left; exact Hin.
  - apply load_outputs_frame in El; [|rewrite pt_b0_loaded; exact Hl].
    destruct El as (_ & _ & _ & _ & Hx & _). left. rewrite b_world_mark, Hx. exact Hin.
  - apply pt_bm_facts in Hbm; [|exact Hl]. destruct Hbm as (Hf & _ & _ & _ & Hx & _).
    rewrite b_world_mark. destruct (execute_ext _ _ _ _ _ _ _ _ _ l Ee) as [Hy|[-> ->]].
    + rewrite Hx. exact Hin.
    + left; exact Hy.
    + right. split; [|reflexivity]. apply rt_status_mark_same.
      rewrite (frame_len _ _ _ (execute_frame _ _ _ _ _ _ _ _ _ Ee)), (frame_len _ _ _ Hf). exact Hi.
Qed.

Lemma get_rt_mark_same b i st :
  i < rt_len b ->
  get_rt (mark b i st) i = mkRt (rt_key (get_rt b i)) (rt_ohash (get_rt b i)) (rt_loaded (get_rt b i)) st.
Proof. intro Hi. unfold mark. apply get_rt_set_rt_same. exact Hi. Qed.

(* every result's blobs are in the CAS *)
Definition cache_complete (c : cache) : Prop :=
  forall k r, rlookup k (c_results c) = Some r ->
  forall def dg, In (def, dg) (r_outs r) -> alookup dg (c_cas c) <> None.

Lemma hit_cond_true cfg t b :
  hit_cond cfg t b = true ->
  pt_tainted t b = false /\ td_nocache t = false /\ cfg_cache cfg = true /\ check_ok (b_world b) t = true.
Proof.
  unfold hit_cond. intro E. apply andb_true_iff in E as [E E4]. apply andb_true_iff in E as [E E3].
  apply andb_true_iff in E as [E1 E2]. apply negb_true_iff in E1, E2. auto.
Qed.

(* what a successful task leaves behind *)
Lemma pt_success cfg s i t b :
  cfg_mode cfg = LAll -> cfg_cache cfg = true -> td_nocache t = false ->
  rt_loaded (get_rt b i) = false -> i < rt_len b ->
  rt_status (get_rt (process_target H cfg s i t b) i) <> TFailed ->
  exists dh oh st, dep_hashes s b (td_deps t) = Some dh /\
    get_rt (process_target H cfg s i t b) i = mkRt (Some (pt_key s t dh)) (Some oh) true st /\
    (st = THit \/ st = TExecuted) /\
    hit_ready_b (process_target H cfg s i t b) t (pt_key s t dh) oh.
Proof.
  intros Hm Hc Hn Hl Hi.
  destruct (pt_LAll_cases cfg s i t b Hm) as [[_ ->]|(dh & Hdh & [(res & b1 & Er & Eh & El & ->)|(bm & ok & b3 & Hbm & Ee & ->)])];
    intro Hst.
  - exfalso. apply Hst. apply rt_status_mark_same. exact Hi.
  - exists dh, (r_outhash res), THit. split; [exact Hdh|].
    pose proof El as Hfr. apply load_outputs_frame in Hfr; [|rewrite pt_b0_loaded; exact Hl].
    destruct Hfr as (Hf & Hcb & _ & _ & Hx & _).
    apply load_outputs_true in El; [|rewrite pt_b0_loaded; exact Hl | rewrite pt_b0_len; exact Hi].
    destruct El as (Hom & Hrt).
    apply hit_cond_true in Eh as (Ht & _ & _ & Hchk).
    split; [|split; [left; reflexivity|]].
    + rewrite get_rt_mark_same; [|rewrite (frame_len _ _ _ Hf), pt_b0_len; exact Hi].
      rewrite Hrt, pt_b0_same; [reflexivity | exact Hi].
    + exists res. change (b_cache (mark b1 i THit)) with (b_cache b1).
      change (b_world (mark b1 i THit)) with (b_world b1). rewrite Hcb, Hx, pt_b0_cache, pt_b0_world.
      repeat split; auto.
  - destruct ok.
    2:{ exfalso. apply Hst. apply rt_status_mark_same.
        apply pt_bm_facts in Hbm; [|exact Hl]. destruct Hbm as (Hf & _).
        rewrite (frame_len _ _ _ (execute_frame _ _ _ _ _ _ _ _ _ Ee)), (frame_len _ _ _ Hf). exact Hi. }
    apply pt_bm_facts in Hbm; [|exact Hl]. destruct Hbm as (Hf & Hcb & _ & _ & _ & Hkey & _).
    unfold pt_tainted in Ee. rewrite <- Hcb in Ee.
    pose proof (frame_len _ _ _ Hf) as Hlen.
    destruct (execute_success cfg s i t _ bm b3 Hc Hn ltac:(rewrite Hlen; exact Hi) Ee) as (oh & Hrt & Hhr).
    exists dh, oh, TExecuted. split; [exact Hdh|]. split; [|split; [right; reflexivity | exact Hhr]].
    rewrite get_rt_mark_same.
    + rewrite Hrt. cbn [rt_key rt_ohash rt_loaded]. rewrite Hkey, pt_b0_same; [reflexivity | exact Hi].
    + rewrite (frame_len _ _ _ (execute_frame _ _ _ _ _ _ _ _ _ Ee)), Hlen. exact Hi.
Qed.

Lemma hit_ready_restorable c ext t key oh r :
  hit_ready c ext t key oh -> rlookup key (c_results c) = Some r -> cache_complete c ->
  restorable c t (r_outs r).
Proof.
  intros (r' & Hr' & _ & Hom & _ & _) Hr Hcc. rewrite Hr in Hr'. inversion Hr'; subst r'.
  intros def dg Hin. destruct (outputs_match_find t r def dg Hom Hin) as [o Ho].
  exists o. split; [exact Ho | eapply Hcc; eauto].
Qed.

(* the cache serves the target: nothing runs, nothing is written to the cache *)
Lemma pt_hit cfg s i t b dh oh :
  cfg_mode cfg = LAll -> cfg_cache cfg = true -> td_nocache t = false ->
  rt_loaded (get_rt b i) = false -> i < rt_len b ->
  dep_hashes s b (td_deps t) = Some dh ->
  hit_ready_b b t (pt_key s t dh) oh -> cache_complete (b_cache b) ->
  get_rt (process_target H cfg s i t b) i = mkRt (Some (pt_key s t dh)) (Some oh) true THit /\
  b_exec (process_target H cfg s i t b) = b_exec b /\
  b_cache (process_target H cfg s i t b) = b_cache b /\
  w_ext (b_world (process_target H cfg s i t b)) = w_ext (b_world b).
Proof.
  intros Hm Hc Hn Hl Hi Hdh Hhr Hcc.
  pose proof Hhr as (r & Hr & Hoh & Hom & Ht & Hchk).
  rewrite (pt_LAll cfg s i t b Hm), Hdh. cbv zeta. rewrite Hr.
  assert (Eh : hit_cond cfg t b = true).
  { unfold hit_cond, pt_tainted. rewrite Ht, Hn, Hc, check_ok_ext, Hchk. reflexivity. }
  rewrite Eh.
  set (b0 := pt_b0 i (pt_key s t dh) b).
  assert (Hl0 : rt_loaded (get_rt b0 i) = false) by (unfold b0; rewrite pt_b0_loaded; exact Hl).
  assert (Hres : restorable (b_cache b0) t (r_outs r)).
  { unfold b0. rewrite pt_b0_cache. eapply hit_ready_restorable; eauto. }
  pose proof (load_outputs_ok i t r b0 Hl0 Hom Hres) as Hok.
  destruct (load_outputs H i t r b0) as [hit b1] eqn:El. cbn [fst] in Hok. subst hit.
  pose proof El as Hfr. apply load_outputs_frame in Hfr; [|exact Hl0].
  destruct Hfr as (Hf & Hcb & He & _ & Hx & _).
  apply load_outputs_true in El; [|exact Hl0 | unfold b0; rewrite pt_b0_len; exact Hi].
  destruct El as (_ & Hrt).
  split; [|split; [|split]].
  - rewrite get_rt_mark_same; [|rewrite (frame_len _ _ _ Hf); unfold b0; rewrite pt_b0_len; exact Hi].
    rewrite Hrt. unfold b0. rewrite pt_b0_same; [|exact Hi]. cbn [rt_key rt_ohash rt_loaded]. rewrite Hoh. reflexivity.
  - rewrite b_exec_mark, He. reflexivity.
  - rewrite b_cache_mark, Hcb. reflexivity.
  - rewrite b_world_mark, Hx. reflexivity.
Qed.

(* ================================================================== cache completeness is invariant *)
Lemma execute_cc cfg s i t key tn b ok b' :
  execute H cfg s i t key tn b = (ok, b') -> cache_complete (b_cache b) -> cache_complete (b_cache b').
Proof.
  intros E Hcc. apply execute_cases in E as [(_ & w' & -> & _)|(_ & w' & ds & _ & _ & _ & ->)].
  - rewrite b_cache_set_world, exec_b0_cache. exact Hcc.
  - intros k r Hr def dg Hin. rewrite untaint_results, oc_state_results, b_cache_set_world, exec_b0_cache in Hr.
    rewrite untaint_cas, oc_state_cas.
    assert (Hold : rlookup k (c_results (b_cache b)) = Some r ->
                   alookup dg (snd (oc_pair cfg t key (b_cache b) ds)) <> None).
    { intro Hr'. pose proof (Hcc k r Hr' def dg Hin) as Hb.
      destruct (alookup dg (c_cas (b_cache b))) as [x|] eqn:Ex; [|congruence].
      rewrite (oc_pair_cas_mono cfg t key (b_cache b) ds dg x Ex). discriminate. }
    destruct (cfg_cache cfg); [|apply Hold, Hr].
    destruct (str_eq_dec key k) as [->|Hne].
    + rewrite rlookup_set_same in Hr. inversion Hr; subst r. apply oc_pair_blobs with def. exact Hin.
    + rewrite rlookup_set_other in Hr; [|exact Hne]. apply Hold, Hr.
Qed.

Lemma load_outputs_cache i t r b : b_cache (snd (load_outputs H i t r b)) = b_cache b.
Proof.
  unfold load_outputs. destruct (rt_loaded (get_rt b i)); [reflexivity|].
  destruct (negb (outputs_match t r)); [reflexivity|].
  destruct (load_all H (b_cache b) t (r_outs r) (w_ws (b_world b))) as [ok ws']. destruct ok; reflexivity.
Qed.

Lemma load_dep_outputs_cc cfg s : forall fuel ds b,
  cache_complete (b_cache b) -> cache_complete (b_cache (snd (load_dep_outputs H fuel cfg s ds b))).
Proof.
  induction fuel as [|f IH]; intros ds b Hcc; cbn [load_dep_outputs]; [exact Hcc|].
  destruct ds as [|d0 ds']; [exact Hcc|].
  destruct (resolve s d0) as [[d dt]|]; [|apply IH, Hcc].
  destruct (rt_loaded (get_rt b d)); [apply IH, Hcc|].
  destruct (rt_key (get_rt b d)) as [dkey|]; [|exact Hcc].
  destruct (rlookup dkey (c_results (b_cache b))) as [r|].
  - destruct (load_outputs H d dt r b) as [ok b1] eqn:El.
    assert (Hc1 : cache_complete (b_cache b1)).
    { pose proof (load_outputs_cache d dt r b) as E. rewrite El in E. cbn [snd] in E. rewrite E. exact Hcc. }
    destruct (negb ok || td_nocache dt && negb (rt_loaded (get_rt b1 d))); [|apply IH, Hc1].
    pose proof (IH (td_deps dt) b1 Hc1) as H2.
    destruct (load_dep_outputs H f cfg s (td_deps dt) b1) as [ok2 b2]. cbn [snd] in H2.
    destruct (negb ok2); [exact H2|].
    destruct (execute H cfg s d dt dkey false b2) as [ok3 b3] eqn:Ee.
    pose proof (execute_cc _ _ _ _ _ _ _ _ _ Ee H2) as H3.
    destruct ok3; [apply IH, H3 | exact H3].
  - destruct (execute H cfg s d dt dkey false b) as [ok3 b3] eqn:Ee. cbn [snd].
    eapply execute_cc; eauto.
Qed.

Lemma process_target_cc cfg s i t b :
  cache_complete (b_cache b) -> cache_complete (b_cache (process_target H cfg s i t b)).
Proof.
  intro Hcc. unfold process_target.
  destruct (dep_hashes s b (td_deps t)) as [dh|]; [|exact Hcc]. cbv zeta.
  set (b0 := set_rt b i _).
  assert (Hc0 : cache_complete (b_cache b0)) by exact Hcc.
  clearbody b0.
  match goal with |- context [let '(hit, b1) := ?X in _] => destruct X as [hit b1] eqn:Eh end.
  assert (Hc1 : cache_complete (b_cache b1)).
  { destruct (rlookup _ (c_results (b_cache b0))) as [res|]; [|inversion Eh; subst; exact Hc0].
    destruct (negb (label_in (td_label t) (c_taint (b_cache b0))) && negb (td_nocache t) && cfg_cache cfg &&
              check_ok (b_world b0) t); [|inversion Eh; subst; exact Hc0].
    destruct (cfg_mode cfg).
    - pose proof (load_outputs_cache i t res b0) as E. rewrite Eh in E. cbn [snd] in E. rewrite E. exact Hc0.
    - inversion Eh; subst. exact Hc0. }
  destruct hit; [exact Hc1|].
  match goal with |- context [let '(okd, b2) := ?X in _] => destruct X as [okd b2] eqn:Ed end.
  assert (Hc2 : cache_complete (b_cache b2)).
  { destruct (cfg_mode cfg).
    - inversion Ed; subst. exact Hc1.
    - pose proof (load_dep_outputs_cc cfg s (S (length (s_nodes s))) (td_deps t) b1 Hc1) as E.
      rewrite Ed in E. exact E. }
  destruct (negb okd); [exact Hc2|].
  match goal with |- context [let '(ok, b3) := ?X in _] => destruct X as [ok b3] eqn:Ee end.
  change (cache_complete (b_cache b3)). eapply execute_cc; eauto.
Qed.

Lemma process_node_cc cfg s sel b i :
  cache_complete (b_cache b) -> cache_complete (b_cache (process_node H cfg s sel b i)).
Proof.
  intro Hcc. unfold process_node.
  destruct (negb (existsb (Nat.eqb i) sel)); [exact Hcc|].
  destruct (b_stop b); [exact Hcc|].
  destruct (node_at s i) as [n|]; [|exact Hcc].
  destruct (negb (forallb (dep_ok b) (node_deps n))); [exact Hcc|].
  destruct n as [t|l a]; [|exact Hcc].
  pose proof (process_target_cc cfg s i t b Hcc) as H1.
  destruct (rt_status (get_rt (process_target H cfg s i t b) i)); try exact H1.
  destruct (cfg_failfast cfg); exact H1.
Qed.

Lemma fold_process_node_cc cfg s sel l : forall b,
  cache_complete (b_cache b) -> cache_complete (b_cache (fold_left (process_node H cfg s sel) l b)).
Proof.
  induction l as [|i l IH]; intros b Hcc; [exact Hcc|]. cbn [fold_left]. apply IH, process_node_cc, Hcc.
Qed.

Lemma build_cache_complete cfg s roots w c :
  cache_complete c -> cache_complete (br_cache (build H cfg s roots w c)).
Proof. intro Hcc. unfold build. cbn [br_cache]. apply fold_process_node_cc. exact Hcc. Qed.

Lemma empty_cache_complete : cache_complete empty_cache.
Proof. intros k r Hr. discriminate Hr. Qed.

Definition no_blob_faults (ops : list op) : bool :=
  forallb (fun o => match o with OpDropBlob _ => false | _ => true end) ops.

Lemma step_op_cc y o :
  (match o with OpDropBlob _ => false | _ => true end) = true ->
  cache_complete (sy_cache y) -> cache_complete (sy_cache (step_op H y o)).
Proof.
  intros Ho Hcc. destruct o as [s'|ls|p st|l|p| |cfg roots]; cbn [step_op sy_cache].
  - exact Hcc.
  - exact Hcc.
  - exact Hcc.
  - exact Hcc.
  - discriminate Ho.
  - intros k r Hr. discriminate Hr.
  - apply build_cache_complete, Hcc.
Qed.

Lemma fold_step_op_cc ops : forall y,
  no_blob_faults ops = true -> cache_complete (sy_cache y) ->
  cache_complete (sy_cache (fold_left (step_op H) ops y)).
Proof.
  induction ops as [|o ops IH]; intros y Hg Hcc; [exact Hcc|].
  cbn [no_blob_faults forallb] in Hg. apply andb_true_iff in Hg as [Ho Hg].
  cbn [fold_left]. apply IH; [exact Hg|]. apply step_op_cc; assumption.
Qed.

Lemma run_history_cache_complete ops :
  no_blob_faults ops = true -> cache_complete (sy_cache (run_history H ops)).
Proof. intro Hg. unfold run_history. apply fold_step_op_cc; [exact Hg | apply empty_cache_complete]. Qed.

(* ================================================================== one node of the walk, LAll *)
Definition set_stop (b : bstate) : bstate := mkB (b_world b) (b_cache b) (b_rt b) (b_exec b) true.

Lemma frame_set_stop i b : frame i b (set_stop b).
Proof. repeat split; auto. Qed.

Section Walk.
Variable cfg : config.
Variable s : sources.
Variable sel : list nat.
Hypothesis Hmode : cfg_mode cfg = LAll.

Definition pn (b : bstate) (i : nat) : bstate := process_node H cfg s sel b i.
Definition run (l : list nat) (b : bstate) : bstate := fold_left pn l b.

Definition fresh (b : bstate) (i : nat) : Prop := get_rt b i = rt0.

Lemma pn_shape b i :
  pn b i = b \/ (exists st, pn b i = mark b i st /\ st <> TFailed) \/
  exists t, node_at s i = Some (NTarget t) /\
    (pn b i = process_target H cfg s i t b \/
     (pn b i = set_stop (process_target H cfg s i t b) /\
      rt_status (get_rt (process_target H cfg s i t b) i) = TFailed /\ cfg_failfast cfg = true)).
Proof.
  unfold pn, process_node.
  destruct (negb (existsb (Nat.eqb i) sel)); [left; reflexivity|].
  destruct (b_stop b); [right; left; exists TSkipped; split; [reflexivity | discriminate]|].
  destruct (node_at s i) as [n|]; [|left; reflexivity].
  destruct (negb (forallb (dep_ok b) (node_deps n)));
    [right; left; exists TSkipped; split; [reflexivity | discriminate]|].
  destruct n as [t|l a]; [|right; left; exists THit; split; [reflexivity | discriminate]].
  right; right. exists t. split; [reflexivity|].
  destruct (rt_status (get_rt (process_target H cfg s i t b) i)) eqn:Est; auto.
  destruct (cfg_failfast cfg); [right; repeat split; reflexivity | left; reflexivity].
Qed.

Lemma fresh_loaded b i : fresh b i -> rt_loaded (get_rt b i) = false.
Proof. unfold fresh. intros ->. reflexivity. Qed.

Lemma pn_frame b i : fresh b i -> frame i b (pn b i).
Proof.
  intro Hf. apply fresh_loaded in Hf.
  destruct (pn_shape b i) as [->|[(st & -> & _)|(t & _ & [->|[-> _]])]].
  - apply frame_refl.
  - apply frame_mark.
  - apply pt_frame; assumption.
  - eapply frame_trans; [apply pt_frame; eassumption | apply frame_set_stop].
Qed.

Lemma pn_exec b i :
  fresh b i ->
  b_exec (pn b i) = b_exec b \/
  exists t, node_at s i = Some (NTarget t) /\ In i sel /\ b_exec (pn b i) = b_exec b ++ [td_label t].
Proof.
  intro Hf. apply fresh_loaded in Hf.
  destruct (existsb (Nat.eqb i) sel) eqn:Esel.
  2:{ left. unfold pn, process_node. rewrite Esel. reflexivity. }
  apply existsb_exists in Esel as (i' & Hin & Heq). apply Nat.eqb_eq in Heq. subst i'.
  destruct (pn_shape b i) as [->|[(st & -> & _)|(t & Hn & [->|[-> _]])]]; auto;
    (destruct (pt_exec cfg s i t b Hmode Hf) as [E|E]; [left; exact E | right; exists t; auto]).
Qed.

Lemma pn_results_other b i k :
  fresh b i -> i < rt_len b ->
  rt_key (get_rt (pn b i) i) <> Some k ->
  rlookup k (c_results (b_cache (pn b i))) = rlookup k (c_results (b_cache b)).
Proof.
  intros Hf Hi. apply fresh_loaded in Hf.
  destruct (pn_shape b i) as [->|[(st & -> & _)|(t & _ & [->|[-> _]])]]; auto;
    intro Hk; apply (pt_results_other cfg s i t b k Hmode Hf Hi Hk).
Qed.

Lemma pn_ext b i l :
  fresh b i -> i < rt_len b ->
  label_in l (w_ext (b_world b)) = true ->
  label_in l (w_ext (b_world (pn b i))) = true \/
  (rt_status (get_rt (pn b i) i) = TFailed /\ exists t, node_at s i = Some (NTarget t) /\ l = td_label t).
Proof.
  intros Hf Hi Hl. apply fresh_loaded in Hf.
  destruct (pn_shape b i) as [->|[(st & -> & _)|(t & Hn & [->|[-> _]])]]; auto;
    (destruct (pt_ext cfg s i t b l Hmode Hf Hi Hl) as [E|[E1 E2]]; [left; exact E | right; split; [exact E1 | exists t; auto]]).
Qed.

Lemma pn_len b i : fresh b i -> rt_len (pn b i) = rt_len b.
Proof. intro Hf. apply frame_len with i, pn_frame, Hf. Qed.

Lemma pn_other b i j : fresh b i -> j <> i -> get_rt (pn b i) j = get_rt b j.
Proof. intros Hf Hj. destruct (pn_frame b i Hf) as (_ & Hr & _). apply Hr, Hj. Qed.

(* ------------------------------------------------------------------ runs over distinct fresh nodes *)
Definition key_shape (i : nat) (k : str) : Prop :=
  exists t dh, node_at s i = Some (NTarget t) /\ k = pt_key s t dh.

Lemma pn_key_shape b i k : fresh b i -> rt_key (get_rt (pn b i) i) = Some k -> key_shape i k.
Proof.
  intros Hf Hk. assert (Hn : rt_key (get_rt b i) = None) by (rewrite Hf; reflexivity).
  destruct (pn_shape b i) as [E|[(st & E & _)|(t & Ht & [E|[E _]])]]; rewrite E in Hk.
  - congruence.
  - rewrite rt_key_mark in Hk. congruence.
  - destruct (pt_key_shape cfg s i t b k Hmode Hf Hk) as [dh ->]. exists t, dh. auto.
  - change (get_rt (set_stop (process_target H cfg s i t b)) i) with (get_rt (process_target H cfg s i t b) i) in Hk.
    destruct (pt_key_shape cfg s i t b k Hmode Hf Hk) as [dh ->]. exists t, dh. auto.
Qed.

Lemma run_cons i l b : run (i :: l) b = run l (pn b i).
Proof. reflexivity. Qed.

Lemma run_other l : forall b j, NoDup l -> (forall i, In i l -> fresh b i) -> ~ In j l ->
  get_rt (run l b) j = get_rt b j.
Proof.
  induction l as [|i l IH]; intros b j Hnd Hfr Hj; [reflexivity|].
  rewrite run_cons. inversion Hnd as [|? ? Hni Hnd']; subst.
  assert (Hfi : fresh b i) by (apply Hfr; left; reflexivity).
  rewrite IH; auto.
  - apply pn_other; auto. intro; subst. apply Hj; left; reflexivity.
  - intros i' Hi'. unfold fresh. rewrite pn_other; auto.
    + apply Hfr; right; exact Hi'.
    + intro; subst. contradiction.
  - intro Hin. apply Hj; right; exact Hin.
Qed.

Lemma run_len l : forall b, NoDup l -> (forall i, In i l -> fresh b i) -> rt_len (run l b) = rt_len b.
Proof.
  induction l as [|i l IH]; intros b Hnd Hfr; [reflexivity|].
  rewrite run_cons. inversion Hnd as [|? ? Hni Hnd']; subst.
  assert (Hfi : fresh b i) by (apply Hfr; left; reflexivity).
  rewrite IH; auto; [apply pn_len; exact Hfi|].
  intros i' Hi'. unfold fresh. rewrite pn_other; auto.
  - apply Hfr; right; exact Hi'.
  - intro; subst. contradiction.
Qed.

(* invariant rule: Q is carried along a run when every step preserves it, given what the
   step leaves in its own runtime record (which is what the final state still shows) *)
Lemma run_key_shape l : forall b, NoDup l -> (forall i, In i l -> fresh b i) ->
  (forall i k, rt_key (get_rt b i) = Some k -> key_shape i k) ->
  forall i k, rt_key (get_rt (run l b) i) = Some k -> key_shape i k.
Proof.
  induction l as [|a l IH]; intros b Hnd Hfr Hb; [exact Hb|].
  rewrite run_cons. inversion Hnd as [|? ? Hna Hnd']; subst.
  pose proof (Hfr a (or_introl eq_refl)) as Hfa.
  apply IH; [exact Hnd' | |].
  - intros i Hi. unfold fresh. rewrite pn_other; [apply Hfr; right; exact Hi | exact Hfa |].
    intro; subst; contradiction.
  - intros i k Hk. destruct (Nat.eq_dec i a) as [->|Hia].
    + apply (pn_key_shape b a k Hfa Hk).
    + rewrite pn_other in Hk; [apply Hb; exact Hk | exact Hfa | exact Hia].
Qed.

Lemma run_inv (Q : bstate -> Prop) (G : nat -> rt -> Prop) :
  (forall i b, fresh b i -> i < rt_len b -> Q b -> G i (get_rt (pn b i) i) -> Q (pn b i)) ->
  forall l b, NoDup l -> (forall i, In i l -> fresh b i /\ i < rt_len b) -> Q b ->
    (forall i, In i l -> G i (get_rt (run l b) i)) -> Q (run l b).
Proof.
  intros Hstep. induction l as [|i l IH]; intros b Hnd Hfr HQ HG; [exact HQ|].
  rewrite run_cons. inversion Hnd as [|? ? Hni Hnd']; subst.
  destruct (Hfr i (or_introl eq_refl)) as [Hfi Hli].
  assert (Hfr' : forall i', In i' l -> fresh (pn b i) i' /\ i' < rt_len (pn b i)).
  { intros i' Hi'. destruct (Hfr i' (or_intror Hi')) as [Hf' Hl'].
    unfold fresh. rewrite pn_other, pn_len; auto. intro; subst; contradiction. }
  apply IH; auto.
  - apply Hstep; auto. specialize (HG i (or_introl eq_refl)). rewrite run_cons in HG.
    rewrite run_other in HG; auto. intros i' Hi'. apply Hfr', Hi'.
  - intros i' Hi'. specialize (HG i' (or_intror Hi')). exact HG.
Qed.

(* ------------------------------------------------------------------ what a successful node leaves behind *)
Lemma pn_target_eq b i t :
  node_at s i = Some (NTarget t) -> In i sel -> b_stop b = false ->
  forallb (dep_ok b) (td_deps t) = true ->
  rt_status (get_rt (process_target H cfg s i t b) i) <> TFailed ->
  pn b i = process_target H cfg s i t b.
Proof.
  intros Hn Hin Hs Hd Hst. unfold pn, process_node.
  assert (Esel : existsb (Nat.eqb i) sel = true).
  { apply existsb_exists. exists i. split; [exact Hin | apply Nat.eqb_refl]. }
  rewrite Esel, Hs, Hn. cbn [negb node_deps]. rewrite Hd. cbn [negb].
  destruct (rt_status (get_rt (process_target H cfg s i t b) i)); try reflexivity. congruence.
Qed.

Lemma pn_success b i t st :
  fresh b i -> i < rt_len b -> cfg_cache cfg = true ->
  node_at s i = Some (NTarget t) -> td_nocache t = false ->
  rt_status (get_rt (pn b i) i) = st -> (st = THit \/ st = TExecuted) ->
  In i sel /\ b_stop b = false /\ forallb (dep_ok b) (td_deps t) = true /\
  pn b i = process_target H cfg s i t b /\
  exists dh oh, dep_hashes s b (td_deps t) = Some dh /\
    get_rt (pn b i) i = mkRt (Some (pt_key s t dh)) (Some oh) true st /\
    hit_ready_b (pn b i) t (pt_key s t dh) oh.
Proof.
  intros Hf Hi Hc Hn Hnc Hst Hok.
  assert (Hne : forall b0 : bstate, rt_status (get_rt b0 i) = st -> rt_status (get_rt b0 i) <> TNone
                                    /\ rt_status (get_rt b0 i) <> TSkipped /\ rt_status (get_rt b0 i) <> TFailed).
  { intros b0 E. rewrite E. destruct Hok as [Hk|Hk]; rewrite Hk; repeat split; discriminate. }
  unfold pn, process_node in Hst |- *.
  destruct (existsb (Nat.eqb i) sel) eqn:Esel; cbn [negb] in *.
  2:{ exfalso. destruct (Hne b Hst) as (N1 & _). apply N1. rewrite Hf. reflexivity. }
  destruct (b_stop b) eqn:Es.
  { exfalso. destruct (Hne _ Hst) as (_ & N2 & _). apply N2. apply rt_status_mark_same, Hi. }
  rewrite Hn in *. cbn [node_deps] in *.
  destruct (forallb (dep_ok b) (td_deps t)) eqn:Ed; cbn [negb] in *.
  2:{ exfalso. destruct (Hne _ Hst) as (_ & N2 & _). apply N2. apply rt_status_mark_same, Hi. }
  apply existsb_exists in Esel as (i' & Hin & Heq). apply Nat.eqb_eq in Heq. subst i'.
  assert (Hnf : rt_status (get_rt (process_target H cfg s i t b) i) <> TFailed).
  { intro E. rewrite E in Hst. destruct (cfg_failfast cfg); destruct (Hne _ Hst) as (_ & _ & N3); apply N3; exact E. }
  assert (Heq : match rt_status (get_rt (process_target H cfg s i t b) i) with
                | TFailed => if cfg_failfast cfg
                             then mkB (b_world (process_target H cfg s i t b)) (b_cache (process_target H cfg s i t b))
                                      (b_rt (process_target H cfg s i t b)) (b_exec (process_target H cfg s i t b)) true
                             else process_target H cfg s i t b
                | _ => process_target H cfg s i t b
                end = process_target H cfg s i t b).
  { destruct (rt_status (get_rt (process_target H cfg s i t b) i)); try reflexivity. congruence. }
  rewrite Heq in *.
  split; [exact Hin|]. split; [reflexivity|]. split; [reflexivity|]. split; [reflexivity|].
  destruct (pt_success cfg s i t b Hmode Hc Hnc (fresh_loaded b i Hf) Hi Hnf) as (dh & oh & st' & Hdh & Hrt & _ & Hhr).
  exists dh, oh. split; [exact Hdh|]. split; [|exact Hhr].
  rewrite Hrt in Hst |- *. cbn [rt_status] in Hst. subst st'. reflexivity.
Qed.

(* a later, non-failing node with a different key keeps the target servable *)
Lemma pn_hit_ready b j t key oh :
  fresh b j -> j < rt_len b -> hit_ready_b b t key oh ->
  (rt_status (get_rt (pn b j) j) = TFailed ->
   forall tj, node_at s j = Some (NTarget tj) -> td_label t <> td_label tj) ->
  rt_key (get_rt (pn b j) j) <> Some key ->
  hit_ready_b (pn b j) t key oh.
Proof.
  intros Hf Hj (r & Hr & Hoh & Hom & Ht & Hchk) Hnf Hk.
  destruct (pn_frame b j Hf) as (_ & _ & Htn & _).
  exists r. split; [rewrite pn_results_other; auto|]. split; [exact Hoh|]. split; [exact Hom|].
  split.
  - destruct (label_in (td_label t) (c_taint (b_cache (pn b j)))) eqn:E; [|reflexivity].
    apply Htn in E. congruence.
  - unfold check_ext in *. destruct (td_check t); [|reflexivity]. cbn [negb orb] in *.
    destruct (pn_ext b j (td_label t) Hf Hj Hchk) as [E|(E & tj & Hnj & Hlj)]; [exact E|].
    exfalso. exact (Hnf E tj Hnj Hlj).
Qed.

Lemma pn_target_status b i t :
  node_at s i = Some (NTarget t) -> In i sel -> b_stop b = false ->
  forallb (dep_ok b) (td_deps t) = true ->
  get_rt (pn b i) i = get_rt (process_target H cfg s i t b) i.
Proof.
  intros Hn Hin Hs Hd. unfold pn, process_node.
  assert (Esel : existsb (Nat.eqb i) sel = true).
  { apply existsb_exists. exists i. split; [exact Hin | apply Nat.eqb_refl]. }
  rewrite Esel, Hs, Hn. cbn [negb node_deps]. rewrite Hd. cbn [negb].
  destruct (rt_status (get_rt (process_target H cfg s i t b) i)); try reflexivity.
  destruct (cfg_failfast cfg); reflexivity.
Qed.

Lemma pn_stop b i :
  fresh b i -> b_stop (pn b i) = true -> b_stop b = true \/ rt_status (get_rt (pn b i) i) = TFailed.
Proof.
  intros Hf. apply fresh_loaded in Hf.
  destruct (pn_shape b i) as [->|[(st & -> & _)|(t & _ & [->|[-> [Hst _]]])]]; auto.
  destruct (pt_frame cfg s i t b Hmode Hf) as [_ Hs]. rewrite Hs. auto.
Qed.

Lemma pn_stopped b i : b_stop b = true -> b_stop (pn b i) = true /\ b_exec (pn b i) = b_exec b.
Proof.
  intro Hs. unfold pn, process_node. destruct (negb (existsb (Nat.eqb i) sel)); [auto|].
  rewrite Hs. auto.
Qed.

Lemma run_stopped l : forall b, b_stop b = true -> b_stop (run l b) = true /\ b_exec (run l b) = b_exec b.
Proof.
  induction l as [|i l IH]; intros b Hs; [auto|]. rewrite run_cons.
  destruct (pn_stopped b i Hs) as [Hs' He]. destruct (IH _ Hs') as [Hs'' He']. split; congruence.
Qed.

Lemma pn_unsel b i : existsb (Nat.eqb i) sel = false -> pn b i = b.
Proof. intro E. unfold pn, process_node. rewrite E. reflexivity. Qed.

Lemma pn_nonode b i : b_stop b = false -> node_at s i = None -> pn b i = b.
Proof.
  intros Hs Hn. unfold pn, process_node. rewrite Hs, Hn.
  destruct (negb (existsb (Nat.eqb i) sel)); reflexivity.
Qed.

Lemma pn_skip b i n :
  existsb (Nat.eqb i) sel = true -> b_stop b = false -> node_at s i = Some n ->
  forallb (dep_ok b) (node_deps n) = false -> pn b i = mark b i TSkipped.
Proof. intros E Hs Hn Hd. unfold pn, process_node. rewrite E, Hs, Hn, Hd. reflexivity. Qed.

Lemma pn_alias b i lb a :
  existsb (Nat.eqb i) sel = true -> b_stop b = false -> node_at s i = Some (NAlias lb a) ->
  forallb (dep_ok b) [a] = true -> pn b i = mark b i THit.
Proof.
  intros E Hs Hn Hd. unfold pn, process_node. rewrite E, Hs, Hn. cbn [node_deps]. rewrite Hd. reflexivity.
Qed.

Lemma existsb_eqb_in i l : existsb (Nat.eqb i) l = true <-> In i l.
Proof.
  rewrite existsb_exists. split.
  - intros (x & Hx & E). apply Nat.eqb_eq in E. subst. exact Hx.
  - intro Hi. exists i. split; [exact Hi | apply Nat.eqb_refl].
Qed.

Lemma run_app l1 l2 b : run (l1 ++ l2) b = run l2 (run l1 b).
Proof. unfold run. apply fold_left_app. Qed.

Lemma pn_stop_ff b i : cfg_failfast cfg = false -> fresh b i -> b_stop (pn b i) = b_stop b.
Proof.
  intros Hff Hf. apply fresh_loaded in Hf.
  destruct (pn_shape b i) as [->|[(st & -> & _)|(t & _ & [->|[_ [_ Hx]]])]]; auto; [|congruence].
  destruct (pt_frame cfg s i t b Hmode Hf) as [_ Hs]. exact Hs.
Qed.

Lemma run_stop_ff l : forall b,
  cfg_failfast cfg = false -> NoDup l -> (forall i, In i l -> fresh b i) -> b_stop (run l b) = b_stop b.
Proof.
  induction l as [|i l IH]; intros b Hff Hnd Hfr; [reflexivity|]. rewrite run_cons.
  inversion Hnd as [|? ? Hni Hnd']; subst.
  assert (Hfi : fresh b i) by (apply Hfr; left; reflexivity).
  rewrite IH; auto; [apply pn_stop_ff; auto|].
  intros j Hj. unfold fresh. rewrite pn_other; auto; [apply Hfr; right; exact Hj | intro; subst; contradiction].
Qed.

Lemma run_stop_failed l : forall b,
  NoDup l -> (forall i, In i l -> fresh b i) -> b_stop b = false -> b_stop (run l b) = true ->
  exists i, In i l /\ rt_status (get_rt (run l b) i) = TFailed.
Proof.
  induction l as [|i l IH]; intros b Hnd Hfr Hs Hs'; [cbn in Hs'; congruence|]. rewrite run_cons in *.
  inversion Hnd as [|? ? Hni Hnd']; subst.
  assert (Hfi : fresh b i) by (apply Hfr; left; reflexivity).
  assert (Hfr' : forall j, In j l -> fresh (pn b i) j).
  { intros j Hj. unfold fresh. rewrite pn_other; auto; [apply Hfr; right; exact Hj | intro; subst; contradiction]. }
  destruct (b_stop (pn b i)) eqn:Es.
  - destruct (pn_stop b i Hfi Es) as [Hx|Hx]; [congruence|].
    exists i. split; [left; reflexivity|]. rewrite run_other; auto.
  - destruct (IH (pn b i) Hnd' Hfr' Es Hs') as (j & Hj & Hst). exists j. split; [right; exact Hj | exact Hst].
Qed.

Lemma fresh_tail i l b :
  NoDup (i :: l) -> (forall j, In j (i :: l) -> fresh b j /\ j < rt_len b) ->
  forall j, In j l -> fresh (pn b i) j /\ j < rt_len (pn b i).
Proof.
  intros Hnd Hfr j Hj. inversion Hnd as [|? ? Hni Hnd']; subst.
  destruct (Hfr i (or_introl eq_refl)) as [Hfi _]. destruct (Hfr j (or_intror Hj)) as [Hfj Hlj].
  unfold fresh. rewrite pn_other, pn_len; auto. intro; subst; contradiction.
Qed.

Definition ok_status (st : tstatus) : Prop := st = THit \/ st = TExecuted.
Definition no_failed_in (l : list nat) (F : bstate) : Prop :=
  forall i, In i l -> rt_status (get_rt F i) <> TFailed.
Definition distinct_keys_in (l : list nat) (F : bstate) : Prop :=
  forall i j k, In i l -> In j l -> i <> j -> rt_key (get_rt F i) = Some k -> rt_key (get_rt F j) <> Some k.

(* PART A: at the end of a build without failures and with pairwise distinct keys, every
   successful cacheable target can be served from the final cache in the final world *)
Lemma run_facts l : forall b,
  NoDup l -> (forall i, In i l -> fresh b i /\ i < rt_len b) -> cfg_cache cfg = true ->
  no_failed_in l (run l b) -> distinct_keys_in l (run l b) ->
  forall i t, In i l -> node_at s i = Some (NTarget t) -> td_nocache t = false ->
    ok_status (rt_status (get_rt (run l b) i)) ->
    exists key oh, rt_key (get_rt (run l b) i) = Some key /\ rt_ohash (get_rt (run l b) i) = Some oh /\
                   hit_ready_b (run l b) t key oh.
Proof.
  induction l as [|a l IH]; intros b Hnd Hfr Hc Hnf Hdk i t Hin Hn Hnc Hok; [destruct Hin|].
  pose proof (fresh_tail a l b Hnd Hfr) as Hfr'.
  inversion Hnd as [|? ? Hna Hnd']; subst.
  destruct (Hfr a (or_introl eq_refl)) as [Hfa Hla].
  rewrite run_cons in *.
  assert (Hfr'' : forall i0, In i0 l -> fresh (pn b a) i0) by (intros i0 Hi0; apply Hfr', Hi0).
  destruct Hin as [<-|Hin].
  - rewrite run_other in Hok |- *; auto.
    destruct (pn_success b a t _ Hfa Hla Hc Hn Hnc eq_refl Hok) as (_ & _ & _ & _ & dh & oh & _ & Hrt & Hhr).
    exists (pt_key s t dh), oh. rewrite Hrt. cbn [rt_key rt_ohash]. split; [reflexivity|]. split; [reflexivity|].
    apply (run_inv (fun b0 => hit_ready_b b0 t (pt_key s t dh) oh)
                   (fun _ x => rt_status x <> TFailed /\ rt_key x <> Some (pt_key s t dh))); auto.
    + intros j b0 Hfj Hlj HQ [G1 G2]. apply pn_hit_ready; auto; try (intro; contradiction).
    + intros j Hj. split.
      * apply Hnf. right; exact Hj.
      * apply (Hdk a j); [left; reflexivity | right; exact Hj | intro; subst; contradiction |].
        rewrite run_other; auto. rewrite Hrt. reflexivity.
  - apply IH; auto.
    + intros j Hj. apply Hnf. right; exact Hj.
    + intros j1 j2 k Hj1 Hj2. apply Hdk; right; assumption.
Qed.

(* a run without failures destroys no external condition *)
Lemma run_ext_ok l : forall b,
  NoDup l -> (forall i, In i l -> fresh b i /\ i < rt_len b) -> no_failed_in l (run l b) ->
  forall lb, label_in lb (w_ext (b_world b)) = true -> label_in lb (w_ext (b_world (run l b))) = true.
Proof.
  induction l as [|a l IH]; intros b Hnd Hfr Hnf lb Hlb; [exact Hlb|].
  pose proof (fresh_tail a l b Hnd Hfr) as Hfr'.
  inversion Hnd as [|? ? Hna Hnd']; subst.
  destruct (Hfr a (or_introl eq_refl)) as [Hfa Hla].
  rewrite run_cons in *.
  assert (Hfr'' : forall i0, In i0 l -> fresh (pn b a) i0) by (intros i0 Hi0; apply Hfr', Hi0).
  apply IH; auto.
  - intros j Hj. apply Hnf. right; exact Hj.
  - destruct (pn_ext b a lb Hfa Hla Hlb) as [E|[Hst _]]; [exact E|].
    exfalso. apply (Hnf a (or_introl eq_refl)). rewrite run_other; auto.
Qed.

End Walk.

(* ================================================================== replay: the second build against the first *)
Lemma change_key_ext fs fs' st :
  (forall p, In p (ts_ins st) -> fs p = fs' p) -> change_key H fs st = change_key H fs' st.
Proof.
  intro E. unfold change_key.
  assert (Hf : encode_files H fs st = encode_files H fs' st).
  { unfold encode_files. f_equal. apply map_ext_in. intros p Hp. unfold file_item.
    rewrite E; [reflexivity|]. eapply Permutation_in; [apply sort_strs_perm | exact Hp]. }
  rewrite Hf. reflexivity.
Qed.

Definition hitify (st : tstatus) : tstatus := match st with TExecuted => THit | x => x end.

Definition rel_rt (x1 x2 : rt) : Prop :=
  rt_status x2 = hitify (rt_status x1) /\ rt_key x2 = rt_key x1 /\ rt_ohash x2 = rt_ohash x1.

Lemma dep_ok_rel b1 b2 d : rel_rt (get_rt b1 d) (get_rt b2 d) -> dep_ok b2 d = dep_ok b1 d.
Proof. intros (E & _). unfold dep_ok. rewrite E. destruct (rt_status (get_rt b1 d)); reflexivity. Qed.

Lemma forallb_ext_in {A} (f g : A -> bool) l : (forall x, In x l -> f x = g x) -> forallb f l = forallb g l.
Proof.
  induction l as [|x l IH]; intro E; [reflexivity|]. cbn [forallb].
  rewrite E, IH; auto; [intros y Hy; apply E; right; exact Hy | left; reflexivity].
Qed.

Lemma hit_ready_mono b b' t key oh :
  b_cache b' = b_cache b -> w_ext (b_world b') = w_ext (b_world b) ->
  hit_ready_b b t key oh -> hit_ready_b b' t key oh.
Proof.
  intros Hc Hx (r & Hr & Hoh & Hom & Ht & Hchk). unfold hit_ready_b, hit_ready.
  rewrite Hc, Hx. exists r. repeat split; auto.
Qed.

(* ================================================================== whole builds *)
Definition init_b (w : world) (c : cache) (n : nat) : bstate := mkB w c (repeat rt0 n) [] false.

Lemma nth_repeat_rt0 n j : nth j (repeat rt0 n) rt0 = rt0.
Proof. revert j. induction n as [|n IH]; intros [|j]; cbn; auto. Qed.

Lemma init_b_fresh w c n j : get_rt (init_b w c n) j = rt0.
Proof. unfold get_rt, init_b. cbn [b_rt]. apply nth_repeat_rt0. Qed.

Lemma init_b_len w c n : rt_len (init_b w c n) = n.
Proof. unfold rt_len, init_b. cbn [b_rt]. apply repeat_length. Qed.

Section Replay.
Variable cfg : config.
Variables s1 s2 : sources.
Variables sel1 sel2 : list nat.
Variables E K : nat -> bool.          (* E: edited nodes; K: nodes where the second build is unconstrained *)
Hypothesis Hmode : cfg_mode cfg = LAll.
Hypothesis Hcache : cfg_cache cfg = true.
Hypothesis Hlen : length (s_nodes s1) = length (s_nodes s2).
Hypothesis Hsel : forall i, existsb (Nat.eqb i) sel1 = existsb (Nat.eqb i) sel2.
Hypothesis HEK : forall i, K i = false -> E i = false.
Hypothesis Hnode : forall i, E i = false -> node_at s1 i = node_at s2 i.
Hypothesis Hfiles : forall i t p, E i = false -> node_at s1 i = Some (NTarget t) -> In p (td_ins t) ->
                                  pkg_fs s1 t p = pkg_fs s2 t p.
Hypothesis Hclosed : forall i n d, K i = false -> node_at s1 i = Some n -> In d (node_deps n) -> K d = false.
Hypothesis Hnocache : forall i t, K i = false -> In i sel1 -> node_at s1 i = Some (NTarget t) -> td_nocache t = false.
Hypothesis Hlabels : forall i j ti tj, K i = true -> i <> j ->
  node_at s2 i = Some (NTarget ti) -> node_at s2 j = Some (NTarget tj) -> td_label tj <> td_label ti.

Let pn1 := pn cfg s1 sel1.
Let pn2 := pn cfg s2 sel2.

Definition exec_in_K (b : bstate) : Prop :=
  forall lb, In lb (b_exec b) ->
  exists j t, K j = true /\ In j sel2 /\ node_at s2 j = Some (NTarget t) /\ lb = td_label t.

Definition Rel (F1 : bstate) (l : list nat) (b1 b2 : bstate) : Prop :=
  (forall j, K j = false -> rel_rt (get_rt b1 j) (get_rt b2 j)) /\
  (forall j, In j l -> (fresh b1 j /\ j < rt_len b1) /\ (fresh b2 j /\ j < rt_len b2)) /\
  (forall j t key oh, In j l -> E j = false -> node_at s1 j = Some (NTarget t) -> td_nocache t = false ->
     ok_status (rt_status (get_rt F1 j)) -> rt_key (get_rt F1 j) = Some key ->
     rt_ohash (get_rt F1 j) = Some oh -> hit_ready_b b2 t key oh) /\
  b_stop b1 = false /\ b_stop b2 = false /\
  cache_complete (b_cache b2) /\
  exec_in_K b2.

Definition Stopped (b2 : bstate) : Prop :=
  b_stop b2 = true /\ (exists j, K j = true) /\ exec_in_K b2.

Lemma resolve_clean : forall fuel d,
  K d = false ->
  resolve_alias fuel s2 d = resolve_alias fuel s1 d /\
  (forall j t, resolve_alias fuel s1 d = Some (j, t) -> K j = false).
Proof.
  induction fuel as [|f IH]; intros d Hd; cbn [resolve_alias]; [split; [reflexivity | discriminate]|].
  rewrite <- (Hnode d (HEK d Hd)).
  destruct (node_at s1 d) as [[t|lb a]|] eqn:En.
  - split; [reflexivity|]. intros j t' Ej. inversion Ej; subst. exact Hd.
  - apply IH. apply (Hclosed d (NAlias lb a) a Hd En). left; reflexivity.
  - split; [reflexivity | discriminate].
Qed.

Lemma dep_hashes_rel b1 b2 :
  (forall j, K j = false -> rel_rt (get_rt b1 j) (get_rt b2 j)) ->
  forall ds, (forall d, In d ds -> K d = false) -> dep_hashes s2 b2 ds = dep_hashes s1 b1 ds.
Proof.
  intros Hrel. induction ds as [|d ds IH]; intro Hds; [reflexivity|]. cbn [dep_hashes].
  unfold resolve. rewrite <- Hlen.
  destruct (resolve_clean (S (length (s_nodes s1))) d (Hds d (or_introl eq_refl))) as [Er Hk].
  rewrite Er, IH; [|intros d' Hd'; apply Hds; right; exact Hd'].
  destruct (resolve_alias (S (length (s_nodes s1))) s1 d) as [[j t]|]; [|reflexivity].
  destruct (Hrel j (Hk j t eq_refl)) as (_ & _ & Eo). rewrite Eo. reflexivity.
Qed.

Lemma rel_weaken F1 i l b1 b2 : Rel F1 (i :: l) b1 b2 -> Rel F1 l b1 b2.
Proof.
  intros (R1 & R2 & R3 & R4). split; [exact R1|]. split; [|split; [|exact R4]].
  - intros j Hj. apply R2. right; exact Hj.
  - intros j t key oh Hj. apply R3. right; exact Hj.
Qed.

Lemma rel_mark F1 i l b1 b2 st :
  NoDup (i :: l) -> Rel F1 (i :: l) b1 b2 -> st <> TFailed ->
  Rel F1 l (mark b1 i st) (mark b2 i (hitify st)).
Proof.
  intros Hnd (R1 & R2 & R3 & R4 & R5 & R6 & R7) Hst. inversion Hnd as [|? ? Hni _]; subst.
  destruct (R2 i (or_introl eq_refl)) as [[Hf1 Hl1] [Hf2 Hl2]].
  split; [|split; [|split; [|split; [|split; [|split]]]]]; auto.
  - intros j Hj. destruct (Nat.eq_dec j i) as [->|Hne].
    + rewrite !get_rt_mark_same; auto. rewrite Hf1, Hf2. repeat split; reflexivity.
    + rewrite !get_rt_mark_other; auto.
  - intros j Hj. assert (Hne : i <> j) by (intro; subst; contradiction).
    destruct (R2 j (or_intror Hj)) as [[Hfj1 Hlj1] [Hfj2 Hlj2]].
    unfold fresh. rewrite !get_rt_mark_other, !rt_len_mark; auto.
  - intros j t key oh Hj HE Hn Hnc Hok Hk Ho.
    exact (R3 j t key oh (or_intror Hj) HE Hn Hnc Hok Hk Ho).
Qed.

Lemma exec_in_K_step b i :
  fresh b i -> K i = true -> exec_in_K b -> exec_in_K (pn2 b i).
Proof.
  intros Hf HK Hex lb Hin.
  destruct (pn_exec cfg s2 sel2 Hmode b i Hf) as [Ee|(t & Hn & Hsel2 & Ee)];
    fold pn2 in Ee; rewrite Ee in Hin; [apply Hex, Hin|].
  apply in_app_or in Hin as [Hin|[<-|[]]]; [apply Hex, Hin|].
  exists i, t. auto.
Qed.

(* a node where the second build is unconstrained *)
Lemma rel_step_dirty F1 i l b1 b2 :
  NoDup (i :: l) -> Rel F1 (i :: l) b1 b2 -> K i = true ->
  rt_status (get_rt (pn1 b1 i) i) <> TFailed ->
  (forall j k, i <> j -> rt_key (get_rt (pn2 b2 i) i) = Some k -> rt_key (get_rt F1 j) <> Some k) ->
  Stopped (pn2 b2 i) \/ Rel F1 l (pn1 b1 i) (pn2 b2 i).
Proof.
  intros Hnd HR HK Hnf Hcross. pose proof HR as (R1 & R2 & R3 & R4 & R5 & R6 & R7).
  inversion Hnd as [|? ? Hni _]; subst.
  destruct (R2 i (or_introl eq_refl)) as [[Hf1 Hl1] [Hf2 Hl2]].
  assert (Hex : exec_in_K (pn2 b2 i)) by (apply exec_in_K_step; auto).
  destruct (b_stop (pn2 b2 i)) eqn:Es2.
  { left. split; [exact Es2|]. split; [exists i; exact HK | exact Hex]. }
  right. split; [|split; [|split; [|split; [|split; [|split]]]]]; auto.
  - intros j Hj. assert (Hne : j <> i) by (intro; subst; congruence).
    unfold pn1, pn2. rewrite !pn_other; auto.
  - intros j Hj. split.
    + apply (fresh_tail cfg s1 sel1 Hmode i l b1 Hnd); [|exact Hj]. intros j' Hj'. apply R2, Hj'.
    + apply (fresh_tail cfg s2 sel2 Hmode i l b2 Hnd); [|exact Hj]. intros j' Hj'. apply R2, Hj'.
  - intros j t key oh Hj HE Hn Hnc Hok Hk Ho.
    assert (Hne : i <> j) by (intro; subst; contradiction).
    apply (pn_hit_ready cfg s2 sel2 Hmode); auto.
    + exact (R3 j t key oh (or_intror Hj) HE Hn Hnc Hok Hk Ho).
    + intros _ ti Hti. apply (Hlabels i j ti t HK Hne Hti). rewrite <- (Hnode j HE). exact Hn.
    + intro Hk2. apply (Hcross j key Hne Hk2 Hk).
  - destruct (b_stop (pn1 b1 i)) eqn:Es1; [|reflexivity].
    destruct (pn_stop cfg s1 sel1 Hmode b1 i Hf1 Es1) as [Hs|Hs]; [congruence | contradiction].
  - apply process_node_cc. exact R6.
Qed.

(* a node outside K: the second build replays the first one's outcome from the cache *)
Lemma rel_step_clean F1 i l b1 b2 :
  NoDup (i :: l) -> Rel F1 (i :: l) b1 b2 -> K i = false ->
  get_rt F1 i = get_rt (pn1 b1 i) i ->
  rt_status (get_rt (pn1 b1 i) i) <> TFailed ->
  Rel F1 l (pn1 b1 i) (pn2 b2 i).
Proof.
  intros Hnd HR HK HF1 Hnf. pose proof HR as (R1 & R2 & R3 & R4 & R5 & R6 & R7).
  inversion Hnd as [|? ? Hni _]; subst.
  destruct (R2 i (or_introl eq_refl)) as [[Hf1 Hl1] [Hf2 Hl2]].
  pose proof (HEK i HK) as HE. pose proof (Hnode i HE) as Hn12.
  destruct (existsb (Nat.eqb i) sel1) eqn:Esel.
  2:{ unfold pn1, pn2. rewrite !pn_unsel; [apply rel_weaken with i; exact HR | rewrite <- Hsel; exact Esel | exact Esel]. }
  assert (Esel2 : existsb (Nat.eqb i) sel2 = true) by (rewrite <- Hsel; exact Esel).
  destruct (node_at s1 i) as [n|] eqn:En.
  2:{ unfold pn1, pn2. rewrite !pn_nonode; auto. apply rel_weaken with i; exact HR. }
  assert (Hdeps : forallb (dep_ok b2) (node_deps n) = forallb (dep_ok b1) (node_deps n)).
  { apply forallb_ext_in. intros d Hd. apply dep_ok_rel, R1. apply (Hclosed i n d HK En Hd). }
  destruct (forallb (dep_ok b1) (node_deps n)) eqn:Ed.
  2:{ unfold pn1, pn2. rewrite (pn_skip cfg s1 sel1 b1 i n), (pn_skip cfg s2 sel2 b2 i n); auto.
      apply (rel_mark F1 i l b1 b2 TSkipped); auto. discriminate. }
  destruct n as [t|lb a].
  2:{ unfold pn1, pn2. rewrite (pn_alias cfg s1 sel1 b1 i lb a), (pn_alias cfg s2 sel2 b2 i lb a); auto.
      apply (rel_mark F1 i l b1 b2 THit); auto. discriminate. }
  cbn [node_deps] in *.
  assert (Hin1 : In i sel1) by (apply existsb_eqb_in; exact Esel).
  assert (Hin2 : In i sel2) by (apply existsb_eqb_in; exact Esel2).
  pose proof (pn_target_status cfg s1 sel1 b1 i t En Hin1 R4 Ed) as Hst1. fold pn1 in Hst1.
  assert (Hnf' : rt_status (get_rt (process_target H cfg s1 i t b1) i) <> TFailed) by (rewrite <- Hst1; exact Hnf).
  pose proof (Hnocache i t HK Hin1 En) as Hnc.
  destruct (pt_success cfg s1 i t b1 Hmode Hcache Hnc (fresh_loaded b1 i Hf1) Hl1 Hnf')
    as (dh & oh & st & Hdh & Hrt & Hstok & _).
  rewrite <- Hst1 in Hrt.
  assert (Hdh2 : dep_hashes s2 b2 (td_deps t) = Some dh).
  { rewrite (dep_hashes_rel b1 b2 R1); [exact Hdh|]. intros d Hd. apply (Hclosed i (NTarget t) d HK En Hd). }
  assert (Hkey : pt_key s2 t dh = pt_key s1 t dh).
  { unfold pt_key. apply change_key_ext. intros p Hp. symmetry. apply (Hfiles i t p HE En Hp). }
  assert (Hhr : hit_ready_b b2 t (pt_key s2 t dh) oh).
  { rewrite Hkey. apply (R3 i t (pt_key s1 t dh) oh (or_introl eq_refl) HE En Hnc); rewrite HF1, Hrt; auto. }
  destruct (pt_hit cfg s2 i t b2 dh oh Hmode Hcache Hnc (fresh_loaded b2 i Hf2) Hl2 Hdh2 Hhr R6)
    as (Hrt2 & Hex2 & Hc2 & Hx2).
  destruct (pt_frame cfg s2 i t b2 Hmode (fresh_loaded b2 i Hf2)) as [Hfr2 Hs2].
  assert (Heq2 : pn2 b2 i = process_target H cfg s2 i t b2).
  { apply pn_target_eq.
    - rewrite <- Hn12. reflexivity.
    - exact Hin2.
    - exact R5.
    - rewrite Hdeps. reflexivity.
    - rewrite Hrt2. discriminate. }
  rewrite <- Heq2 in Hrt2, Hex2, Hc2, Hx2, Hfr2, Hs2.
  split; [|split; [|split; [|split; [|split; [|split]]]]].
  - intros j Hj. destruct (Nat.eq_dec j i) as [->|Hne].
    + rewrite Hrt, Hrt2. unfold rel_rt. cbn [rt_status rt_key rt_ohash]. rewrite Hkey.
      destruct Hstok as [-> | ->]; repeat split; reflexivity.
    + unfold pn1. rewrite pn_other; auto. destruct Hfr2 as (_ & Ho & _). rewrite Ho; auto.
  - intros j Hj. split.
    + apply (fresh_tail cfg s1 sel1 Hmode i l b1 Hnd); [|exact Hj]. intros j' Hj'. apply R2, Hj'.
    + apply (fresh_tail cfg s2 sel2 Hmode i l b2 Hnd); [|exact Hj]. intros j' Hj'. apply R2, Hj'.
  - intros j t' key oh' Hj HEj Hn Hnc' Hok Hk Ho.
    apply hit_ready_mono with b2; auto.
    exact (R3 j t' key oh' (or_intror Hj) HEj Hn Hnc' Hok Hk Ho).
  - destruct (b_stop (pn1 b1 i)) eqn:Es1; [|reflexivity].
    destruct (pn_stop cfg s1 sel1 Hmode b1 i Hf1 Es1) as [Hs|Hs]; [congruence | contradiction].
  - rewrite Hs2. exact R5.
  - rewrite Hc2. exact R6.
  - unfold exec_in_K. rewrite Hex2. exact R7.
Qed.


(* ------------------------------------------------------------------ early cut-off: one more replayed node *)
Definition same_dep (b1 b2 : bstate) (d : nat) : Prop :=
  match resolve s1 d, resolve s2 d with
  | Some (j1, t1), Some (j2, t2) => j1 = j2 /\ td_label t1 = td_label t2 /\
                                    rt_ohash (get_rt b2 j1) = rt_ohash (get_rt b1 j1)
  | None, None => True
  | _, _ => False
  end.

Lemma dep_hashes_same b1 b2 : forall ds,
  (forall d, In d ds -> same_dep b1 b2 d) -> dep_hashes s2 b2 ds = dep_hashes s1 b1 ds.
Proof.
  induction ds as [|d ds IH]; intro Hds; [reflexivity|]. cbn [dep_hashes].
  rewrite IH; [|intros d' Hd'; apply Hds; right; exact Hd'].
  pose proof (Hds d (or_introl eq_refl)) as Hd. unfold same_dep in Hd.
  destruct (resolve s1 d) as [[j1 t1]|], (resolve s2 d) as [[j2 t2]|]; try contradiction; [|reflexivity].
  destruct Hd as [<- [El Eo]]. rewrite Eo. unfold dep_contrib. rewrite El. reflexivity.
Qed.

Lemma same_dep_clean b1 b2 d :
  (forall j, K j = false -> rel_rt (get_rt b1 j) (get_rt b2 j)) -> K d = false -> same_dep b1 b2 d.
Proof.
  intros Hrel Hd. unfold same_dep, resolve. rewrite <- Hlen.
  destruct (resolve_clean (S (length (s_nodes s1))) d Hd) as [Er Hk]. rewrite Er.
  destruct (resolve_alias (S (length (s_nodes s1))) s1 d) as [[j t]|]; [|exact I].
  split; [reflexivity|]. split; [reflexivity|]. destruct (Hrel j (Hk j t eq_refl)) as (_ & _ & Eo). exact Eo.
Qed.

Lemma rel_step_cutoff F1 d l b1 b2 t :
  NoDup (d :: l) -> Rel F1 (d :: l) b1 b2 -> E d = false ->
  node_at s1 d = Some (NTarget t) -> td_nocache t = false ->
  get_rt F1 d = get_rt (pn1 b1 d) d -> ok_status (rt_status (get_rt F1 d)) ->
  (forall x, In x (td_deps t) -> (dep_ok b1 x = true -> dep_ok b2 x = true) /\ same_dep b1 b2 x) ->
  rt_status (get_rt (pn2 b2 d) d) = THit /\ b_exec (pn2 b2 d) = b_exec b2.
Proof.
  intros Hnd HR HE En Hnc HF1 Hok Hdeps. pose proof HR as (R1 & R2 & R3 & R4 & R5 & R6 & R7).
  destruct (R2 d (or_introl eq_refl)) as [[Hf1 Hl1] [Hf2 Hl2]].
  rewrite HF1 in Hok.
  destruct (pn_success cfg s1 sel1 Hmode b1 d t _ Hf1 Hl1 Hcache En Hnc eq_refl Hok)
    as (Hin1 & _ & Hd1 & _ & dh & oh & Hdh & Hrt & _).
  fold pn1 in Hrt.
  assert (Hin2 : In d sel2) by (apply existsb_eqb_in; rewrite <- Hsel; apply existsb_eqb_in; exact Hin1).
  assert (Hd2 : forallb (dep_ok b2) (td_deps t) = true).
  { apply forallb_forall. intros x Hx. apply (Hdeps x Hx).
    apply (proj1 (forallb_forall _ _) Hd1 x Hx). }
  assert (Hdh2 : dep_hashes s2 b2 (td_deps t) = Some dh).
  { rewrite (dep_hashes_same b1 b2); [exact Hdh|]. intros x Hx. apply (Hdeps x Hx). }
  assert (Hkey : pt_key s2 t dh = pt_key s1 t dh).
  { unfold pt_key. apply change_key_ext. intros p Hp. symmetry. apply (Hfiles d t p HE En Hp). }
  assert (Hhr : hit_ready_b b2 t (pt_key s2 t dh) oh).
  { rewrite Hkey. apply (R3 d t (pt_key s1 t dh) oh (or_introl eq_refl) HE En Hnc); rewrite HF1, Hrt; auto. }
  destruct (pt_hit cfg s2 d t b2 dh oh Hmode Hcache Hnc (fresh_loaded b2 d Hf2) Hl2 Hdh2 Hhr R6)
    as (Hrt2 & Hex2 & _ & _).
  assert (Heq2 : pn2 b2 d = process_target H cfg s2 d t b2).
  { apply pn_target_eq.
    - rewrite <- (Hnode d HE). exact En.
    - exact Hin2.
    - exact R5.
    - exact Hd2.
    - rewrite Hrt2. discriminate. }
  rewrite Heq2, Hrt2. split; [reflexivity | exact Hex2].
Qed.

(* PART B: the lock-step theorem (l1: the nodes replayed so far, l2: the nodes still to come) *)
Lemma replay_gen l1 : forall l2 b1 b2,
  NoDup (l1 ++ l2) -> Rel (run cfg s1 sel1 (l1 ++ l2) b1) (l1 ++ l2) b1 b2 ->
  no_failed_in (l1 ++ l2) (run cfg s1 sel1 (l1 ++ l2) b1) ->
  (forall i j k, In i l1 -> K i = true -> i <> j ->
     rt_key (get_rt (run cfg s2 sel2 (l1 ++ l2) b2) i) = Some k ->
     rt_key (get_rt (run cfg s1 sel1 (l1 ++ l2) b1) j) <> Some k) ->
  Stopped (run cfg s2 sel2 l1 b2) \/
  Rel (run cfg s1 sel1 (l1 ++ l2) b1) l2 (run cfg s1 sel1 l1 b1) (run cfg s2 sel2 l1 b2).
Proof.
  induction l1 as [|i l1 IH]; intros l2 b1 b2 Hnd HR Hnf Hcross; [right; exact HR|].
  cbn [app] in Hnd, HR, Hnf, Hcross |- *.
  rewrite !run_cons in HR, Hnf, Hcross |- *. fold pn1 pn2 in HR, Hnf, Hcross |- *.
  set (l := l1 ++ l2) in *.
  pose proof HR as (R1 & R2 & _).
  inversion Hnd as [|? ? Hni Hnd']; subst.
  destruct (R2 i (or_introl eq_refl)) as [[Hf1 Hl1] [Hf2 Hl2]].
  assert (Hfr1 : forall j, In j l -> fresh (pn1 b1 i) j).
  { intros j Hj. apply (fresh_tail cfg s1 sel1 Hmode i l b1 Hnd); [|exact Hj]. intros j' Hj'. apply R2, Hj'. }
  assert (Hfr2 : forall j, In j l -> fresh (pn2 b2 i) j).
  { intros j Hj. apply (fresh_tail cfg s2 sel2 Hmode i l b2 Hnd); [|exact Hj]. intros j' Hj'. apply R2, Hj'. }
  assert (HF1 : get_rt (run cfg s1 sel1 l (pn1 b1 i)) i = get_rt (pn1 b1 i) i) by (apply run_other; auto).
  assert (HF2 : get_rt (run cfg s2 sel2 l (pn2 b2 i)) i = get_rt (pn2 b2 i) i) by (apply run_other; auto).
  assert (Hnfi : rt_status (get_rt (pn1 b1 i) i) <> TFailed).
  { rewrite <- HF1. apply Hnf. left; reflexivity. }
  assert (Hstep : Stopped (pn2 b2 i) \/ Rel (run cfg s1 sel1 l (pn1 b1 i)) l (pn1 b1 i) (pn2 b2 i)).
  { destruct (K i) eqn:HK.
    - apply rel_step_dirty; auto. intros j k Hne Hk. apply (Hcross i j k); auto; [left; reflexivity|].
      rewrite HF2. exact Hk.
    - right. apply rel_step_clean; auto. }
  destruct Hstep as [(Hs & Hex & Hin)|HR'].
  - left. destruct (run_stopped cfg s2 sel2 l1 _ Hs) as [Hs' He']. split; [exact Hs'|]. split; [exact Hex|].
    unfold exec_in_K. rewrite He'. exact Hin.
  - apply IH; auto.
    + intros j Hj. apply Hnf. right; exact Hj.
    + intros i' j k Hi'. apply Hcross. right; exact Hi'.
Qed.

Lemma rel_init n w c w' :
  let b1 := init_b w c n in
  let F1 := run cfg s1 sel1 (seq 0 n) b1 in
  let b2 := init_b w' (b_cache F1) n in
  cache_complete c ->
  (forall i, rt_status (get_rt F1 i) <> TFailed) ->
  (forall i j k, i <> j -> rt_key (get_rt F1 i) = Some k -> rt_key (get_rt F1 j) <> Some k) ->
  w_ext w' = w_ext (b_world F1) ->
  Rel F1 (seq 0 n) b1 b2.
Proof.
  intros b1 F1 b2 Hcc Hnf Hdk Hext.
  assert (Hfr : forall b0 w0 c0, b0 = init_b w0 c0 n -> forall i, In i (seq 0 n) -> fresh b0 i /\ i < rt_len b0).
  { intros b0 w0 c0 -> i Hi. split; [apply init_b_fresh|]. rewrite init_b_len. apply in_seq in Hi. lia. }
  split; [|split; [|split; [|split; [|split; [|split]]]]].
  - intros j _. unfold b1, b2. rewrite !init_b_fresh. repeat split; reflexivity.
  - intros j Hj. split; [apply (Hfr b1 w c eq_refl j Hj) | apply (Hfr b2 w' _ eq_refl j Hj)].
  - intros j t key oh Hj HE Hn Hnc Hok Hk Ho.
    destruct (run_facts cfg s1 sel1 Hmode (seq 0 n) b1 (seq_NoDup n 0) (Hfr b1 w c eq_refl) Hcache)
      with (i := j) (t := t) as (key' & oh' & Hk' & Ho' & Hhr); auto.
    + intros i _. apply Hnf.
    + intros i1 i2 k _ _. apply Hdk.
    + change (rt_key (get_rt F1 j) = Some key') in Hk'. change (rt_ohash (get_rt F1 j) = Some oh') in Ho'.
      change (hit_ready_b F1 t key' oh') in Hhr.
      assert (key' = key) by congruence. assert (oh' = oh) by congruence. subst key' oh'.
      destruct Hhr as (r & Hr & Hoh & Hom & Ht & Hchk). exists r.
      unfold b2, init_b. cbn [b_cache b_world]. rewrite Hext. repeat split; auto.
  - reflexivity.
  - reflexivity.
  - unfold b2, init_b. cbn [b_cache]. unfold F1, run. apply fold_process_node_cc. exact Hcc.
  - intros lb [].
Qed.

Lemma replay_init n w c w' :
  let b1 := init_b w c n in
  let F1 := run cfg s1 sel1 (seq 0 n) b1 in
  let b2 := init_b w' (b_cache F1) n in
  let F2 := run cfg s2 sel2 (seq 0 n) b2 in
  cache_complete c ->
  (forall i, rt_status (get_rt F1 i) <> TFailed) ->
  (forall i j k, i <> j -> rt_key (get_rt F1 i) = Some k -> rt_key (get_rt F1 j) <> Some k) ->
  (forall i j k, K i = true -> i <> j -> rt_key (get_rt F2 i) = Some k -> rt_key (get_rt F1 j) <> Some k) ->
  w_ext w' = w_ext (b_world F1) ->
  Stopped F2 \/ Rel F1 [] F1 F2.
Proof.
  intros b1 F1 b2 F2 Hcc Hnf Hdk Hcross Hext.
  pose proof (rel_init n w c w' Hcc Hnf Hdk Hext) as HR. fold b1 F1 b2 in HR.
  pose proof (replay_gen (seq 0 n) [] b1 b2) as Hrep. rewrite app_nil_r in Hrep.
  apply Hrep.
  - apply seq_NoDup.
  - exact HR.
  - intros i _. apply Hnf.
  - intros i j k _. apply Hcross.
Qed.

(* the same from ANY cache c' that holds the results and blobs the first build left and no further taint,
   and ANY world in which the external conditions that held after the first build still hold (e.g. after a
   build with the cache disabled, [cache_off_leaves_cache]) *)
Definition serves (c1 c' : cache) : Prop :=
  c_results c' = c_results c1 /\ c_cas c' = c_cas c1 /\
  (forall l, label_in l (c_taint c') = true -> label_in l (c_taint c1) = true).

Lemma serves_refl c : serves c c.
Proof. repeat split; auto. Qed.

Lemma serves_cc c1 c' : serves c1 c' -> cache_complete c1 -> cache_complete c'.
Proof. intros (Hr & Hc & _) Hcc k r Hk def dg Hin. rewrite Hr in Hk. rewrite Hc. eapply Hcc; eauto. Qed.

Lemma rel_init_gen n w c w' c' :
  let b1 := init_b w c n in
  let F1 := run cfg s1 sel1 (seq 0 n) b1 in
  let b2 := init_b w' c' n in
  cache_complete c ->
  (forall i, rt_status (get_rt F1 i) <> TFailed) ->
  (forall i j k, i <> j -> rt_key (get_rt F1 i) = Some k -> rt_key (get_rt F1 j) <> Some k) ->
  serves (b_cache F1) c' ->
  (forall l, label_in l (w_ext (b_world F1)) = true -> label_in l (w_ext w') = true) ->
  Rel F1 (seq 0 n) b1 b2.
Proof.
  intros b1 F1 b2 Hcc Hnf Hdk Hsv Hext.
  assert (Hfr : forall b0 w0 c0, b0 = init_b w0 c0 n -> forall i, In i (seq 0 n) -> fresh b0 i /\ i < rt_len b0).
  { intros b0 w0 c0 -> i Hi. split; [apply init_b_fresh|]. rewrite init_b_len. apply in_seq in Hi. lia. }
  split; [|split; [|split; [|split; [|split; [|split]]]]].
  - intros j _. unfold b1, b2. rewrite !init_b_fresh. repeat split; reflexivity.
  - intros j Hj. split; [apply (Hfr b1 w c eq_refl j Hj) | apply (Hfr b2 w' _ eq_refl j Hj)].
  - intros j t key oh Hj HE Hn Hnc Hok Hk Ho.
    destruct (run_facts cfg s1 sel1 Hmode (seq 0 n) b1 (seq_NoDup n 0) (Hfr b1 w c eq_refl) Hcache)
      with (i := j) (t := t) as (key' & oh' & Hk' & Ho' & Hhr); auto.
    + intros i _. apply Hnf.
    + intros i1 i2 k _ _. apply Hdk.
    + change (rt_key (get_rt F1 j) = Some key') in Hk'. change (rt_ohash (get_rt F1 j) = Some oh') in Ho'.
      change (hit_ready_b F1 t key' oh') in Hhr.
      assert (key' = key) by congruence. assert (oh' = oh) by congruence. subst key' oh'.
      destruct Hhr as (r & Hr & Hoh & Hom & Ht & Hchk). exists r.
      destruct Hsv as (Sr & Sc & St).
      unfold b2, init_b. cbn [b_cache b_world]. rewrite Sr. repeat split; auto.
      * destruct (label_in (td_label t) (c_taint c')) eqn:Et; [|reflexivity]. apply St in Et. congruence.
      * unfold check_ext in *. apply orb_true_iff in Hchk as [Hchk|Hchk]; apply orb_true_iff; auto.
  - reflexivity.
  - reflexivity.
  - unfold b2, init_b. cbn [b_cache]. apply (serves_cc _ _ Hsv).
    unfold F1, run. apply fold_process_node_cc. exact Hcc.
  - intros lb [].
Qed.

Lemma replay_init_gen n w c w' c' :
  let b1 := init_b w c n in
  let F1 := run cfg s1 sel1 (seq 0 n) b1 in
  let b2 := init_b w' c' n in
  let F2 := run cfg s2 sel2 (seq 0 n) b2 in
  cache_complete c ->
  (forall i, rt_status (get_rt F1 i) <> TFailed) ->
  (forall i j k, i <> j -> rt_key (get_rt F1 i) = Some k -> rt_key (get_rt F1 j) <> Some k) ->
  (forall i j k, K i = true -> i <> j -> rt_key (get_rt F2 i) = Some k -> rt_key (get_rt F1 j) <> Some k) ->
  serves (b_cache F1) c' ->
  (forall l, label_in l (w_ext (b_world F1)) = true -> label_in l (w_ext w') = true) ->
  Stopped F2 \/ Rel F1 [] F1 F2.
Proof.
  intros b1 F1 b2 F2 Hcc Hnf Hdk Hcross Hsv Hext.
  pose proof (rel_init_gen n w c w' c' Hcc Hnf Hdk Hsv Hext) as HR. fold b1 F1 b2 in HR.
  pose proof (replay_gen (seq 0 n) [] b1 b2) as Hrep. rewrite app_nil_r in Hrep.
  apply Hrep.
  - apply seq_NoDup.
  - exact HR.
  - intros i _. apply Hnf.
  - intros i j k _. apply Hcross.
Qed.

End Replay.

(* ------------------------------------------------------------------ builds as runs *)
Definition build_state (cfg : config) (s : sources) (roots : list nat) (w : world) (c : cache) : bstate :=
  run cfg s (selection s roots) (seq 0 (length (s_nodes s))) (init_b w c (length (s_nodes s))).

Definition is_failed (st : tstatus) : bool := match st with TFailed => true | _ => false end.

Lemma build_fields cfg s roots w c :
  br_world (build H cfg s roots w c) = b_world (build_state cfg s roots w c) /\
  br_cache (build H cfg s roots w c) = b_cache (build_state cfg s roots w c) /\
  br_exec (build H cfg s roots w c) = b_exec (build_state cfg s roots w c) /\
  br_status (build H cfg s roots w c) = map rt_status (b_rt (build_state cfg s roots w c)) /\
  br_ok (build H cfg s roots w c) =
    negb (existsb is_failed (map rt_status (b_rt (build_state cfg s roots w c)))).
Proof. repeat split; reflexivity. Qed.

Lemma no_failed_nth (L : list rt) :
  existsb is_failed (map rt_status L) = false <-> (forall i, rt_status (nth i L rt0) <> TFailed).
Proof.
  induction L as [|x L IH]; cbn [map existsb].
  - split; [intros _ [|i]; discriminate | reflexivity].
  - split.
    + intros E i. apply orb_false_iff in E as [E1 E2]. destruct i as [|i]; cbn [nth].
      * intro Hx. rewrite Hx in E1. discriminate.
      * apply IH. exact E2.
    + intro Hall. apply orb_false_iff. split.
      * specialize (Hall 0). cbn [nth] in Hall. destruct (rt_status x); try reflexivity. congruence.
      * apply IH. intro i. apply (Hall (S i)).
Qed.

Lemma br_ok_iff cfg s roots w c :
  br_ok (build H cfg s roots w c) = true <->
  (forall i, rt_status (get_rt (build_state cfg s roots w c) i) <> TFailed).
Proof.
  destruct (build_fields cfg s roots w c) as (_ & _ & _ & _ & ->).
  rewrite negb_true_iff. apply no_failed_nth.
Qed.

(* distinct change keys among the runtime records of a finished build (decidable guard) *)
Definition keys_of (b : bstate) : list str :=
  flat_map (fun x => match rt_key x with Some k => [k] | None => [] end) (b_rt b).

Fixpoint nodup_strs (l : list str) : bool :=
  match l with
  | [] => true
  | x :: l' => negb (str_in x l') && nodup_strs l'
  end.

Definition distinct_keys (b : bstate) : bool := nodup_strs (keys_of b).

Lemma nodup_strs_app_l a b : nodup_strs (a ++ b) = true -> nodup_strs b = true.
Proof.
  induction a as [|x a IH]; cbn [app nodup_strs]; auto.
  intro E. apply andb_true_iff in E as [_ E]. auto.
Qed.

Lemma distinct_keys_list (L : list rt) :
  nodup_strs (flat_map (fun x => match rt_key x with Some k => [k] | None => [] end) L) = true ->
  forall i j k, i <> j -> rt_key (nth i L rt0) = Some k -> rt_key (nth j L rt0) <> Some k.
Proof.
  set (f := fun x => match rt_key x with Some k => [k] | None => [] end).
  assert (Hin : forall L j k, rt_key (nth j L rt0) = Some k -> In k (flat_map f L)).
  { induction L0 as [|x L0 IH]; intros j k Hk.
    - destruct j; discriminate Hk.
    - cbn [flat_map]. apply in_or_app. destruct j as [|j]; cbn [nth] in Hk.
      + left. unfold f. rewrite Hk. left; reflexivity.
      + right. eapply IH; exact Hk. }
  induction L as [|x L IH]; intros Hnd i j k Hij Hi Hj.
  - destruct i; discriminate Hi.
  - cbn [flat_map] in Hnd. destruct i as [|i], j as [|j]; cbn [nth] in Hi, Hj.
    + congruence.
    + unfold f in Hnd at 1. rewrite Hi in Hnd. cbn [app nodup_strs] in Hnd.
      apply andb_true_iff in Hnd as [Hn _]. apply negb_true_iff in Hn.
      assert (Hk : str_in k (flat_map f L) = true) by (apply str_in_spec; eapply Hin; exact Hj).
      congruence.
    + unfold f in Hnd at 1. rewrite Hj in Hnd. cbn [app nodup_strs] in Hnd.
      apply andb_true_iff in Hnd as [Hn _]. apply negb_true_iff in Hn.
      assert (Hk : str_in k (flat_map f L) = true) by (apply str_in_spec; eapply Hin; exact Hi).
      congruence.
    + apply (IH (nodup_strs_app_l _ _ Hnd) i j k); auto.
Qed.

Lemma distinct_keys_spec b :
  distinct_keys b = true ->
  forall i j k, i <> j -> rt_key (get_rt b i) = Some k -> rt_key (get_rt b j) <> Some k.
Proof. unfold distinct_keys, keys_of, get_rt. apply distinct_keys_list. Qed.

(* ------------------------------------------------------------------ distinct labels give distinct keys
   (framed key encoding, HashKey_proofs.key_injective): a decidable guard on the snapshot that implies
   [distinct_keys] for an injective, '_'-free digest *)
Fixpoint nodup_labels (l : list label) : bool :=
  match l with
  | [] => true
  | x :: l' => negb (label_in x l') && nodup_labels l'
  end.

Definition target_labels (s : sources) : list label :=
  flat_map (fun n => match n with NTarget t => [td_label t] | NAlias _ _ => [] end) (s_nodes s).

Definition distinct_labels (s : sources) : bool := nodup_labels (target_labels s).

Lemma label_in_In l ls : label_in l ls = true <-> In l ls.
Proof.
  unfold label_in. rewrite existsb_exists. split.
  - intros (x & Hx & E). apply label_eqb_eq in E. subst x. exact Hx.
  - intro Hl. exists l. split; [exact Hl | apply label_eqb_refl].
Qed.

Lemma distinct_labels_list (L : list ndef) :
  nodup_labels (flat_map (fun n => match n with NTarget t => [td_label t] | NAlias _ _ => [] end) L) = true ->
  forall i j ti tj, i <> j -> nth_error L i = Some (NTarget ti) -> nth_error L j = Some (NTarget tj) ->
                    td_label ti <> td_label tj.
Proof.
  set (f := fun n => match n with NTarget t => [td_label t] | NAlias _ _ => [] end).
  assert (Hin : forall L j t, nth_error L j = Some (NTarget t) -> In (td_label t) (flat_map f L)).
  { induction L0 as [|x L0 IH]; intros j t Hj; [destruct j; discriminate Hj|].
    cbn [flat_map]. apply in_or_app. destruct j as [|j]; cbn [nth_error] in Hj.
    - left. injection Hj as ->. left; reflexivity.
    - right. eapply IH; exact Hj. }
  induction L as [|x L IH]; intros Hnd i j ti tj Hij Hi Hj E; [destruct i; discriminate Hi|].
  cbn [flat_map] in Hnd.
  assert (Hx : forall t k tk, x = NTarget t -> nth_error L k = Some (NTarget tk) -> td_label t <> td_label tk).
  { intros t k tk -> Hk E'. cbn [f app nodup_labels] in Hnd. apply andb_true_iff in Hnd as [Hn _].
    apply negb_true_iff in Hn. rewrite E' in Hn.
    assert (Hk' : label_in (td_label tk) (flat_map f L) = true) by (apply label_in_In; eapply Hin; exact Hk).
    congruence. }
  assert (Hnd' : nodup_labels (flat_map f L) = true).
  { destruct x as [t|l a]; cbn [f app nodup_labels] in Hnd; [|exact Hnd]. apply andb_true_iff in Hnd as [_ Hnd]. exact Hnd. }
  destruct i as [|i], j as [|j]; cbn [nth_error] in Hi, Hj.
  - congruence.
  - injection Hi as Hi. exact (Hx ti j tj Hi Hj E).
  - injection Hj as Hj. symmetry in E. exact (Hx tj i ti Hj Hi E).
  - exact (IH Hnd' i j ti tj ltac:(congruence) Hi Hj E).
Qed.

Lemma distinct_labels_spec s :
  distinct_labels s = true ->
  forall i j ti tj, i <> j -> node_at s i = Some (NTarget ti) -> node_at s j = Some (NTarget tj) ->
                    td_label ti <> td_label tj.
Proof. unfold distinct_labels, target_labels, node_at. apply distinct_labels_list. Qed.

Lemma distinct_keys_list_conv (L : list rt) :
  (forall i j k, i <> j -> rt_key (nth i L rt0) = Some k -> rt_key (nth j L rt0) <> Some k) ->
  nodup_strs (flat_map (fun x => match rt_key x with Some k => [k] | None => [] end) L) = true.
Proof.
  set (f := fun x => match rt_key x with Some k => [k] | None => [] end).
  assert (Hin : forall L k, In k (flat_map f L) -> exists j, rt_key (nth j L rt0) = Some k).
  { induction L0 as [|x L0 IH]; intros k Hk; [destruct Hk|].
    cbn [flat_map] in Hk. apply in_app_or in Hk as [Hk|Hk].
    - exists 0. cbn [nth]. unfold f in Hk. destruct (rt_key x) as [k'|]; [|destruct Hk].
      destruct Hk as [->|[]]. reflexivity.
    - destruct (IH k Hk) as [j Hj]. exists (S j). exact Hj. }
  induction L as [|x L IH]; intro Hd; [reflexivity|].
  cbn [flat_map].
  assert (IH' : nodup_strs (flat_map f L) = true).
  { apply IH. intros i j k Hij Hi. apply (Hd (S i) (S j) k); [congruence | exact Hi]. }
  unfold f at 1. destruct (rt_key x) as [k|] eqn:Ek; [|exact IH'].
  cbn [app nodup_strs]. apply andb_true_iff. split; [|exact IH'].
  apply negb_true_iff. destruct (str_in k (flat_map f L)) eqn:Es; [|reflexivity].
  exfalso. apply str_in_spec in Es. destruct (Hin L k Es) as [j Hj].
  apply (Hd 0 (S j) k); [discriminate | exact Ek | exact Hj].
Qed.

(* every key a build records is the change key of the target at that node *)
Lemma build_state_key_shape cfg s roots w c i k :
  cfg_mode cfg = LAll ->
  rt_key (get_rt (build_state cfg s roots w c) i) = Some k -> key_shape s i k.
Proof.
  intros Hm. unfold build_state.
  apply (run_key_shape cfg s (selection s roots) Hm).
  - apply seq_NoDup.
  - intros j _. apply init_b_fresh.
  - intros j k' Hk. rewrite init_b_fresh in Hk. discriminate Hk.
Qed.

Theorem distinct_labels_distinct_keys cfg s roots w c :
  (forall x y, H x = H y -> x = y) -> (forall x, ~ In ch_us (H x)) ->
  cfg_mode cfg = LAll -> distinct_labels s = true ->
  distinct_keys (build_state cfg s roots w c) = true.
Proof.
  intros H_inj H_hex Hm Hdl. unfold distinct_keys, keys_of. apply distinct_keys_list_conv.
  intros i j k Hij Hi Hj.
  destruct (build_state_key_shape cfg s roots w c i k Hm Hi) as (ti & dhi & Hni & Eki).
  destruct (build_state_key_shape cfg s roots w c j k Hm Hj) as (tj & dhj & Hnj & Ekj).
  apply (distinct_labels_spec s Hdl i j ti tj Hij Hni Hnj).
  rewrite Eki in Ekj. unfold pt_key in Ekj.
  exact (key_label H H_inj H_hex _ _ _ _ Ekj).
Qed.

(* perturbations of output paths between the two builds: ANY state may be put at any path (also a
   directory at a file output's path: a restore replaces it since the repair of C06-F3) *)
Definition apply_perturbs (ps : list (str * pstate)) (ws : list (str * pstate)) : list (str * pstate) :=
  fold_left (fun ws p => ws_set (fst p) (snd p) ws) ps ws.

Definition no_nocache_sel (s : sources) (sel : list nat) : bool :=
  forallb (fun i => match node_at s i with Some (NTarget t) => negb (td_nocache t) | _ => true end) sel.

Lemma no_nocache_sel_spec s sel i t :
  no_nocache_sel s sel = true -> In i sel -> node_at s i = Some (NTarget t) -> td_nocache t = false.
Proof.
  unfold no_nocache_sel. rewrite forallb_forall. intros Hall Hin Hn. specialize (Hall i Hin).
  rewrite Hn in Hall. apply negb_true_iff in Hall. exact Hall.
Qed.

(* ================================================================== C02_noop_rebuild *)
Theorem noop_rebuild cfg s roots w c ps :
  cfg_mode cfg = LAll -> cfg_cache cfg = true -> cache_complete c ->
  br_ok (build H cfg s roots w c) = true ->
  distinct_keys (build_state cfg s roots w c) = true ->
  no_nocache_sel s (selection s roots) = true ->
  let r1 := build H cfg s roots w c in
  let w' := mkWorld (apply_perturbs ps (w_ws (br_world r1))) (w_ext (br_world r1)) in
  let r2 := build H cfg s roots w' (br_cache r1) in
  br_exec r2 = [] /\ br_ok r2 = true.
Proof.
  intros Hm Hc Hcc Hok Hdk Hnn r1 w' r2.
  set (n := length (s_nodes s)). set (sel := selection s roots).
  pose proof (proj1 (br_ok_iff cfg s roots w c) Hok) as Hnf.
  pose proof (distinct_keys_spec _ Hdk) as Hdk'.
  destruct (replay_init cfg s s sel sel (fun _ => false) (fun _ => false) Hm Hc eq_refl) with (n := n) (w := w) (c := c) (w' := w')
    as [(_ & (j & Hj) & _)|(R1 & _ & _ & _ & _ & _ & R7)]; auto; try discriminate.
  - intros i t _ Hin Hn. apply (no_nocache_sel_spec s sel i t Hnn Hin Hn).
  - split.
    + change (br_exec r2) with (b_exec (build_state cfg s roots w' (br_cache r1))).
      destruct (b_exec (build_state cfg s roots w' (br_cache r1))) as [|lb ex] eqn:Eex; [reflexivity|].
      exfalso. destruct (R7 lb) as (j & t & Hj & _); [|discriminate Hj].
      unfold build_state in Eex. fold n sel in Eex. unfold r1 in Eex.
      destruct (build_fields cfg s roots w c) as (_ & Hbc & _). rewrite Hbc in Eex. unfold build_state in Eex.
      fold n sel in Eex. rewrite Eex. left; reflexivity.
    + apply br_ok_iff. intro i. destruct (R1 i eq_refl) as (Est & _).
      unfold build_state. fold n sel. unfold r1.
      destruct (build_fields cfg s roots w c) as (_ & Hbc & _). rewrite Hbc. unfold build_state. fold n sel.
      rewrite Est. specialize (Hnf i). unfold build_state in Hnf. fold n sel in Hnf.
      destruct (rt_status (get_rt (run cfg s sel (seq 0 n) (init_b w c n)) i)); cbn [hitify]; congruence.
Qed.

(* the same with the decidable label guard: with the framed key encoding and an injective, '_'-free
   digest, pairwise distinct target labels give pairwise distinct keys *)
Corollary noop_rebuild_labels cfg s roots w c ps :
  (forall x y, H x = H y -> x = y) -> (forall x, ~ In ch_us (H x)) ->
  cfg_mode cfg = LAll -> cfg_cache cfg = true -> cache_complete c ->
  br_ok (build H cfg s roots w c) = true ->
  distinct_labels s = true ->
  no_nocache_sel s (selection s roots) = true ->
  let r1 := build H cfg s roots w c in
  let w' := mkWorld (apply_perturbs ps (w_ws (br_world r1))) (w_ext (br_world r1)) in
  let r2 := build H cfg s roots w' (br_cache r1) in
  br_exec r2 = [] /\ br_ok r2 = true.
Proof.
  intros H_inj H_hex Hm Hc Hcc Hok Hdl Hnn.
  apply noop_rebuild; auto. apply distinct_labels_distinct_keys; assumption.
Qed.

(* ================================================================== the rebuild from any cache that serves as well *)
(* the second build may start from ANY world in which the external conditions that held after the first
   build still hold and from ANY cache holding the first build's results and blobs and no further taint *)
Theorem noop_rebuild_gen cfg s roots w c w' c' :
  cfg_mode cfg = LAll -> cfg_cache cfg = true -> cache_complete c ->
  br_ok (build H cfg s roots w c) = true ->
  distinct_keys (build_state cfg s roots w c) = true ->
  no_nocache_sel s (selection s roots) = true ->
  let r1 := build H cfg s roots w c in
  serves (br_cache r1) c' ->
  (forall l, label_in l (w_ext (br_world r1)) = true -> label_in l (w_ext w') = true) ->
  let r2 := build H cfg s roots w' c' in
  br_exec r2 = [] /\ br_ok r2 = true.
Proof.
  intros Hm Hc Hcc Hok Hdk Hnn r1 Hsv Hext r2.
  set (n := length (s_nodes s)). set (sel := selection s roots).
  pose proof (proj1 (br_ok_iff cfg s roots w c) Hok) as Hnf.
  pose proof (distinct_keys_spec _ Hdk) as Hdk'.
  destruct (replay_init_gen cfg s s sel sel (fun _ => false) (fun _ => false) Hm Hc eq_refl)
    with (n := n) (w := w) (c := c) (w' := w') (c' := c')
    as [(_ & (j & Hj) & _)|(R1 & _ & _ & _ & _ & _ & R7)]; auto; try discriminate.
  - intros i t _ Hin Hn. apply (no_nocache_sel_spec s sel i t Hnn Hin Hn).
  - split.
    + change (br_exec r2) with (b_exec (build_state cfg s roots w' c')).
      destruct (b_exec (build_state cfg s roots w' c')) as [|lb ex] eqn:Eex; [reflexivity|].
      exfalso. destruct (R7 lb) as (j & t & Hj & _); [|discriminate Hj].
      unfold build_state in Eex. fold n sel in Eex. rewrite Eex. left; reflexivity.
    + apply br_ok_iff. intro i. destruct (R1 i eq_refl) as (Est & _).
      unfold build_state. fold n sel. rewrite Est. specialize (Hnf i). unfold build_state in Hnf. fold n sel in Hnf.
      destruct (rt_status (get_rt (run cfg s sel (seq 0 n) (init_b w c n)) i)); cbn [hitify]; congruence.
Qed.

(* a successful build (mode all) destroys no external condition *)
Lemma build_ext_ok cfg s roots w c :
  cfg_mode cfg = LAll -> br_ok (build H cfg s roots w c) = true ->
  forall l, label_in l (w_ext w) = true -> label_in l (w_ext (br_world (build H cfg s roots w c))) = true.
Proof.
  intros Hm Hok l Hl. pose proof (proj1 (br_ok_iff cfg s roots w c) Hok) as Hnf.
  change (br_world (build H cfg s roots w c)) with (b_world (build_state cfg s roots w c)).
  unfold build_state in *. apply run_ext_ok; auto.
  - apply seq_NoDup.
  - intros i Hi. split; [apply init_b_fresh|]. rewrite init_b_len. apply in_seq in Hi. lia.
  - intros i _. apply Hnf.
Qed.

(* C13 / C02: build with the cache on; do anything to the output paths; build ANY snapshot with the cache
   DISABLED (it succeeds); build the first snapshot again with the cache on: nothing runs.  (Before the
   repair of C02-F2 / C13-F1 the cache-disabled build overwrote the stored results with output-less records
   and the third build re-ran every target that declares outputs.) *)
Theorem rebuild_after_cache_off cfg cfg' s s' roots roots' w c ps :
  cfg_mode cfg = LAll -> cfg_cache cfg = true -> cache_complete c ->
  br_ok (build H cfg s roots w c) = true ->
  distinct_keys (build_state cfg s roots w c) = true ->
  no_nocache_sel s (selection s roots) = true ->
  cfg_mode cfg' = LAll -> cfg_cache cfg' = false ->
  let r1 := build H cfg s roots w c in
  let w1 := mkWorld (apply_perturbs ps (w_ws (br_world r1))) (w_ext (br_world r1)) in
  let roff := build H cfg' s' roots' w1 (br_cache r1) in
  br_ok roff = true ->
  let r3 := build H cfg s roots (br_world roff) (br_cache roff) in
  c_results (br_cache roff) = c_results (br_cache r1) /\ c_cas (br_cache roff) = c_cas (br_cache r1) /\
  br_exec r3 = [] /\ br_ok r3 = true.
Proof.
  intros Hm Hc Hcc Hok Hdk Hnn Hm' Hc' r1 w1 roff Hokoff r3.
  pose proof (Build_lift_proofs.cache_off_leaves_cache H cfg' s' roots' w1 (br_cache r1) Hc') as (Kr & Kc & Kt).
  fold roff in Kr, Kc, Kt.
  split; [exact Kr|]. split; [exact Kc|].
  apply (noop_rebuild_gen cfg s roots w c (br_world roff) (br_cache roff)); auto.
  - repeat split; assumption.
  - intros l Hl. apply (build_ext_ok cfg' s' roots' w1 (br_cache r1) Hm' Hokoff). exact Hl.
Qed.

(* the same over histories: after ANY history without a lost blob, [build on; perturbations of output paths;
   build off; build on] -- the last build runs nothing *)
Definition perturb_ops (ps : list (str * pstate)) : list op := map (fun p => OpPerturb (fst p) (snd p)) ps.

Lemma step_perturbs ps : forall y,
  fold_left (step_op H) (perturb_ops ps) y =
  mkSys (sy_src y) (mkWorld (apply_perturbs ps (w_ws (sy_world y))) (w_ext (sy_world y))) (sy_cache y) (sy_log y).
Proof.
  unfold perturb_ops, apply_perturbs. induction ps as [|p ps IH]; intro y; cbn [map fold_left].
  - destruct y as [src [ws ext] ca lg]. reflexivity.
  - rewrite IH. reflexivity.
Qed.

Theorem history_rebuild_after_cache_off ops cfg cfg' roots roots' ps :
  no_blob_faults ops = true ->
  cfg_mode cfg = LAll -> cfg_cache cfg = true -> cfg_mode cfg' = LAll -> cfg_cache cfg' = false ->
  let y := run_history H ops in
  let s := sy_src y in
  let r1 := build H cfg s roots (sy_world y) (sy_cache y) in
  let w1 := mkWorld (apply_perturbs ps (w_ws (br_world r1))) (w_ext (br_world r1)) in
  let roff := build H cfg' s roots' w1 (br_cache r1) in
  let r3 := build H cfg s roots (br_world roff) (br_cache roff) in
  br_ok r1 = true -> distinct_keys (build_state cfg s roots (sy_world y) (sy_cache y)) = true ->
  no_nocache_sel s (selection s roots) = true -> br_ok roff = true ->
  sy_log (run_history H (ops ++ OpBuild cfg roots :: perturb_ops ps ++ [OpBuild cfg' roots'; OpBuild cfg roots]))
    = sy_log y ++ [r1; roff; r3] /\
  br_exec r3 = [] /\ br_ok r3 = true.
Proof.
  intros Hg Hm Hc Hm' Hc' y s r1 w1 roff r3 Hok Hdk Hnn Hokoff. split.
  - unfold run_history. rewrite fold_left_app. fold (run_history H ops). fold y.
    cbn [fold_left step_op]. rewrite fold_left_app, step_perturbs. cbn [fold_left step_op sy_src sy_world sy_cache sy_log].
    rewrite <- !app_assoc. reflexivity.
  - destruct (rebuild_after_cache_off cfg cfg' s s roots roots' (sy_world y) (sy_cache y) ps) as (_ & _ & R); auto.
    apply run_history_cache_complete, Hg.
Qed.

(* ================================================================== C02_exec_only_if / C02_hit_if (single task) *)
(* the restore of a cached result fails only for reasons visible in the cache contents: the recorded
   output definitions are not the declared ones, or a recorded blob is not in the CAS (nothing that sits
   in the workspace can make it fail) *)
Definition restore_failed (c : cache) (t : tdef) (r : result) : Prop :=
  outputs_match t r = false \/
  (exists def dg, In (def, dg) (r_outs r) /\ alookup dg (c_cas c) = None).

Lemma load_outputs_fail_reason i t r b :
  fst (load_outputs H i t r b) = false -> restore_failed (b_cache b) t r.
Proof.
  intro Hf. destruct (rt_loaded (get_rt b i)) eqn:Hl.
  { unfold load_outputs in Hf. rewrite Hl in Hf. discriminate. }
  destruct (outputs_match t r) eqn:Hom; [|left; exact Hom].
  destruct (load_outputs_false i t r b Hl Hf) as [Hm|(def & dg & Hin & [Hn|(o & Ho & Hb)])].
  - congruence.
  - destruct (outputs_match_find t r def dg Hom Hin) as [o Ho]. congruence.
  - right. exists def, dg. auto.
Qed.

(* the general (any load_outputs mode) hit path of the task *)
Lemma pt_hit_general cfg s i t b dh r :
  dep_hashes s b (td_deps t) = Some dh ->
  rlookup (pt_key s t dh) (c_results (b_cache b)) = Some r ->
  hit_cond cfg t b = true ->
  (cfg_mode cfg = LMinimal \/ fst (load_outputs H i t r (pt_b0 i (pt_key s t dh) b)) = true) ->
  exists b1, process_target H cfg s i t b = mark b1 i THit /\ rt_len b1 = rt_len b /\
             (cfg_mode cfg = LMinimal -> b_exec b1 = b_exec b).
Proof.
  intros Hdh Hr Hcond Hmode.
  unfold process_target. rewrite Hdh. cbv zeta.
  unfold pt_key, pt_b0, hit_cond, pt_tainted in *. cbn [b_cache b_world set_rt] in *.
  rewrite Hr, Hcond.
  destruct (cfg_mode cfg) eqn:Em.
  - destruct Hmode as [Hx|Hl]; [discriminate|].
    match goal with |- context [load_outputs H i t r ?B] => destruct (load_outputs H i t r B) as [hit b1] eqn:El end.
    cbn [fst] in Hl. subst hit. exists b1. split; [reflexivity|]. split; [|discriminate].
    match type of El with load_outputs H i t r ?B = _ =>
      assert (Hlen : rt_len B = rt_len b) by apply rt_len_set_rt;
      destruct (rt_loaded (get_rt B i)) eqn:Eld end.
    + unfold load_outputs in El. rewrite Eld in El. inversion El; subst. exact Hlen.
    + apply load_outputs_frame in El; [|exact Eld]. destruct El as (Hf & _).
      rewrite (frame_len _ _ _ Hf). exact Hlen.
  - eexists. split; [reflexivity|]. split; [|reflexivity]. rewrite !rt_len_set_rt. reflexivity.
Qed.

Lemma hit_cond_false cfg t b :
  hit_cond cfg t b = false ->
  cfg_cache cfg = false \/ pt_tainted t b = true \/ td_nocache t = true \/ check_ok (b_world b) t = false.
Proof.
  unfold hit_cond. intro E.
  destruct (pt_tainted t b); [auto|]. destruct (td_nocache t); [auto|].
  destruct (cfg_cache cfg); [|auto]. destruct (check_ok (b_world b) t); [discriminate | auto].
Qed.

Theorem exec_only_if cfg s i t b :
  i < rt_len b ->
  rt_status (get_rt (process_target H cfg s i t b) i) = TExecuted ->
  exists dh, dep_hashes s b (td_deps t) = Some dh /\
    (rlookup (pt_key s t dh) (c_results (b_cache b)) = None \/
     cfg_cache cfg = false \/ pt_tainted t b = true \/ td_nocache t = true \/
     check_ok (b_world b) t = false \/
     (cfg_mode cfg = LAll /\ exists r, rlookup (pt_key s t dh) (c_results (b_cache b)) = Some r /\
        restore_failed (b_cache b) t r)).
Proof.
  intros Hi Hst.
  destruct (dep_hashes s b (td_deps t)) as [dh|] eqn:Hdh.
  2:{ unfold process_target in Hst. rewrite Hdh in Hst. rewrite rt_status_mark_same in Hst; [discriminate | exact Hi]. }
  exists dh. split; [reflexivity|].
  destruct (rlookup (pt_key s t dh) (c_results (b_cache b))) as [r|] eqn:Hr; [|left; reflexivity].
  right. destruct (hit_cond cfg t b) eqn:Hcond.
  2:{ destruct (hit_cond_false cfg t b Hcond) as [E|[E|[E|E]]]; auto. }
  assert (Hcontra : cfg_mode cfg = LMinimal \/ fst (load_outputs H i t r (pt_b0 i (pt_key s t dh) b)) = true -> False).
  { intro Hm. destruct (pt_hit_general cfg s i t b dh r Hdh Hr Hcond Hm) as (b1 & Heq & Hlen & _).
    rewrite Heq, rt_status_mark_same in Hst; [discriminate | rewrite Hlen; exact Hi]. }
  destruct (cfg_mode cfg) eqn:Em; [|exfalso; apply Hcontra; left; reflexivity].
  destruct (fst (load_outputs H i t r (pt_b0 i (pt_key s t dh) b))) eqn:El;
    [exfalso; apply Hcontra; right; reflexivity|].
  right; right; right; right. split; [reflexivity|]. exists r. split; [reflexivity|].
  apply load_outputs_fail_reason in El. rewrite pt_b0_cache in El. exact El.
Qed.

(* LAll: a command start on behalf of the target itself has the same reasons *)
Theorem exec_label_only_if cfg s i t b :
  cfg_mode cfg = LAll -> i < rt_len b ->
  b_exec (process_target H cfg s i t b) <> b_exec b ->
  exists dh, dep_hashes s b (td_deps t) = Some dh /\
    (rlookup (pt_key s t dh) (c_results (b_cache b)) = None \/
     cfg_cache cfg = false \/ pt_tainted t b = true \/ td_nocache t = true \/
     check_ok (b_world b) t = false \/
     (exists r, rlookup (pt_key s t dh) (c_results (b_cache b)) = Some r /\
        restore_failed (b_cache b) t r)).
Proof.
  intros Hm Hi Hex.
  destruct (dep_hashes s b (td_deps t)) as [dh|] eqn:Hdh.
  2:{ exfalso. apply Hex. unfold process_target. rewrite Hdh. reflexivity. }
  exists dh. split; [reflexivity|].
  destruct (rlookup (pt_key s t dh) (c_results (b_cache b))) as [r|] eqn:Hr; [|left; reflexivity].
  right. destruct (hit_cond cfg t b) eqn:Hcond.
  2:{ destruct (hit_cond_false cfg t b Hcond) as [E|[E|[E|E]]]; auto. }
  destruct (fst (load_outputs H i t r (pt_b0 i (pt_key s t dh) b))) eqn:El.
  - exfalso. apply Hex. rewrite (pt_LAll cfg s i t b Hm), Hdh. cbv zeta. rewrite Hr, Hcond.
    destruct (load_outputs H i t r (pt_b0 i (pt_key s t dh) b)) as [hit b1] eqn:El2. cbn [fst] in El. subst hit.
    rewrite b_exec_mark.
    destruct (rt_loaded (get_rt (pt_b0 i (pt_key s t dh) b) i)) eqn:Eld.
    + unfold load_outputs in El2. rewrite Eld in El2. inversion El2; subst. reflexivity.
    + apply load_outputs_frame in El2; [|exact Eld]. destruct El2 as (_ & _ & He & _). rewrite He. reflexivity.
  - right; right; right; right. exists r. split; [reflexivity|].
    apply load_outputs_fail_reason in El. rewrite pt_b0_cache in El. exact El.
Qed.

Theorem hit_if cfg s i t b dh r :
  cfg_mode cfg = LAll -> i < rt_len b -> rt_loaded (get_rt b i) = false ->
  dep_hashes s b (td_deps t) = Some dh ->
  rlookup (pt_key s t dh) (c_results (b_cache b)) = Some r ->
  pt_tainted t b = false -> td_nocache t = false -> cfg_cache cfg = true ->
  check_ok (b_world b) t = true -> outputs_match t r = true ->
  (forall def dg, In (def, dg) (r_outs r) -> alookup dg (c_cas (b_cache b)) <> None) ->
  rt_status (get_rt (process_target H cfg s i t b) i) = THit /\
  rt_ohash (get_rt (process_target H cfg s i t b) i) = Some (r_outhash r) /\
  b_exec (process_target H cfg s i t b) = b_exec b /\
  b_cache (process_target H cfg s i t b) = b_cache b.
Proof.
  intros Hm Hi Hl Hdh Hr Ht Hn Hc Hchk Hom Hblobs.
  assert (Hcond : hit_cond cfg t b = true).
  { unfold hit_cond. rewrite Ht, Hn, Hc, Hchk. reflexivity. }
  set (b0 := pt_b0 i (pt_key s t dh) b).
  assert (Hl0 : rt_loaded (get_rt b0 i) = false) by (unfold b0; rewrite pt_b0_loaded; exact Hl).
  assert (Hres : restorable (b_cache b0) t (r_outs r)).
  { unfold b0. rewrite pt_b0_cache. intros def dg Hin.
    destruct (outputs_match_find t r def dg Hom Hin) as [o Ho]. exists o. split; [exact Ho|].
    apply (Hblobs def dg Hin). }
  pose proof (load_outputs_ok i t r b0 Hl0 Hom Hres) as Hok.
  rewrite (pt_LAll cfg s i t b Hm), Hdh. cbv zeta. rewrite Hr, Hcond. fold b0.
  destruct (load_outputs H i t r b0) as [hit b1] eqn:El. cbn [fst] in Hok. subst hit.
  pose proof El as Hfr. apply load_outputs_frame in Hfr; [|exact Hl0].
  destruct Hfr as (Hf & Hcb & He & _).
  apply load_outputs_true in El; [|exact Hl0 | unfold b0; rewrite pt_b0_len; exact Hi].
  destruct El as (_ & Hrt).
  assert (Hlen : i < rt_len b1) by (rewrite (frame_len _ _ _ Hf); unfold b0; rewrite pt_b0_len; exact Hi).
  rewrite get_rt_mark_same; [|exact Hlen]. cbn [rt_status rt_ohash]. rewrite Hrt. cbn [rt_ohash].
  rewrite b_exec_mark, b_cache_mark, He, Hcb. auto.
Qed.

(* ================================================================== C02_edit_cone / C02_early_cutoff *)
Definition deps_at (s : sources) (i : nat) : list nat :=
  match node_at s i with Some n => node_deps n | None => [] end.

Lemma closure_ext s1 s2 :
  (forall i, deps_at s1 i = deps_at s2 i) ->
  forall fuel todo acc, closure fuel s1 todo acc = closure fuel s2 todo acc.
Proof.
  intro E. induction fuel as [|f IH]; intros todo acc; cbn [closure]; [reflexivity|].
  destruct todo as [|x todo]; [reflexivity|]. rewrite IH. f_equal.
  apply flat_map_ext. intro a. apply E.
Qed.

Lemma selection_ext s1 s2 roots :
  length (s_nodes s1) = length (s_nodes s2) -> (forall i, deps_at s1 i = deps_at s2 i) ->
  selection s1 roots = selection s2 roots.
Proof. intros Hl E. unfold selection. rewrite Hl. apply closure_ext, E. Qed.

Definition cross_distinct (K : nat -> bool) (F1 F2 : bstate) : Prop :=
  forall i j k, K i = true -> i <> j -> rt_key (get_rt F2 i) = Some k -> rt_key (get_rt F1 j) <> Some k.

Definition distinct_labels_from (K : nat -> bool) (s : sources) : Prop :=
  forall i j ti tj, K i = true -> i <> j ->
    node_at s i = Some (NTarget ti) -> node_at s j = Some (NTarget tj) -> td_label tj <> td_label ti.

Section Edit.
Variable cfg : config.
Variables s1 s2 : sources.
Variable roots : list nat.
Variables (w : world) (c : cache) (w' : world).
Variables E K : nat -> bool.
Hypothesis Hmode : cfg_mode cfg = LAll.
Hypothesis Hcache : cfg_cache cfg = true.
Hypothesis Hcc : cache_complete c.
Hypothesis Hlen : length (s_nodes s1) = length (s_nodes s2).
Hypothesis Hshape : forall i, deps_at s1 i = deps_at s2 i.
Hypothesis Hnode : forall i, E i = false -> node_at s1 i = node_at s2 i.
Hypothesis Hfiles : forall i t p, E i = false -> node_at s1 i = Some (NTarget t) -> In p (td_ins t) ->
                                  pkg_fs s1 t p = pkg_fs s2 t p.
Hypothesis HEsub : forall i, E i = true -> K i = true.
Hypothesis Hcone : forall i d, In d (deps_at s1 i) -> K d = true -> K i = true.
Hypothesis Hnocache : forall i t, K i = false -> In i (selection s1 roots) ->
                                  node_at s1 i = Some (NTarget t) -> td_nocache t = false.
Hypothesis Hlabels : distinct_labels_from K s2.

Let F1 := build_state cfg s1 roots w c.
Let F2 := build_state cfg s2 roots w' (b_cache F1).

Hypothesis Hok1 : br_ok (build H cfg s1 roots w c) = true.
Hypothesis Hdk : distinct_keys F1 = true.
Hypothesis Hcross : cross_distinct K F1 F2.
Hypothesis Hext : w_ext w' = w_ext (b_world F1).

Let sel1 := selection s1 roots.
Let sel2 := selection s2 roots.
Let n := length (s_nodes s1).

Lemma edit_sel : forall i, existsb (Nat.eqb i) sel1 = existsb (Nat.eqb i) sel2.
Proof. intro i. unfold sel1, sel2. rewrite (selection_ext s1 s2 roots Hlen Hshape). reflexivity. Qed.

Lemma edit_HEK : forall i, K i = false -> E i = false.
Proof. intros i HK. destruct (E i) eqn:HE; [|reflexivity]. rewrite (HEsub i HE) in HK. discriminate. Qed.

Lemma edit_closed : forall i nd d, K i = false -> node_at s1 i = Some nd -> In d (node_deps nd) -> K d = false.
Proof.
  intros i nd d HK Hn Hd. destruct (K d) eqn:HKd; [|reflexivity].
  rewrite (Hcone i d) in HK; [discriminate | | exact HKd]. unfold deps_at. rewrite Hn. exact Hd.
Qed.

Lemma edit_F2_eq : F2 = run cfg s2 sel2 (seq 0 n) (init_b w' (b_cache F1) n).
Proof. unfold F2, build_state, sel2, n. rewrite <- Hlen. reflexivity. Qed.

Lemma edit_replay : Stopped s2 sel2 K F2 \/ Rel s1 s2 sel2 E K F1 [] F1 F2.
Proof.
  rewrite edit_F2_eq.
  apply (replay_init cfg s1 s2 sel1 sel2 E K Hmode Hcache Hlen edit_sel edit_HEK Hnode Hfiles edit_closed
                     Hnocache Hlabels n w c w' Hcc).
  - apply (proj1 (br_ok_iff cfg s1 roots w c) Hok1).
  - apply distinct_keys_spec. exact Hdk.
  - pose proof Hcross as Hc. unfold cross_distinct in Hc. rewrite edit_F2_eq in Hc. exact Hc.
  - exact Hext.
Qed.

Theorem edit_cone :
  forall lb, In lb (b_exec F2) ->
  exists j t, K j = true /\ In j (selection s2 roots) /\ node_at s2 j = Some (NTarget t) /\ lb = td_label t.
Proof.
  destruct edit_replay as [(_ & _ & Hex)|(_ & _ & _ & _ & _ & _ & Hex)]; exact Hex.
Qed.

Lemma NoDup_app_l {A} (a b : list A) : NoDup (a ++ b) -> NoDup a.
Proof.
  induction a as [|y a IH]; intro Hnd; [constructor|].
  cbn [app] in Hnd. inversion Hnd as [|? ? Hny Hnd']; subst. constructor; [|apply IH, Hnd'].
  intro Hy. apply Hny, in_or_app. left; exact Hy.
Qed.

Lemma NoDup_app_r {A} (a b : list A) : NoDup (a ++ b) -> NoDup b.
Proof.
  induction a as [|y a IH]; intro Hnd; [exact Hnd|].
  cbn [app] in Hnd. inversion Hnd; subst. auto.
Qed.

Lemma NoDup_app_disj {A} (a b : list A) x : NoDup (a ++ b) -> In x a -> ~ In x b.
Proof.
  induction a as [|y a IH]; intros Hnd Hin; [destruct Hin|].
  cbn [app] in Hnd. inversion Hnd as [|? ? Hny Hnd']; subst.
  destruct Hin as [->|Hin]; [|apply IH; auto].
  intro Hb. apply Hny. apply in_or_app. right; exact Hb.
Qed.

Lemma resolve_target s i t : node_at s i = Some (NTarget t) -> resolve s i = Some (i, t).
Proof. intro Hn. unfold resolve. cbn [resolve_alias]. rewrite Hn. reflexivity. Qed.

Theorem early_cutoff d td :
  node_at s1 d = Some (NTarget td) -> E d = false -> td_nocache td = false ->
  ok_status (rt_status (get_rt F1 d)) ->
  (forall x, In x (td_deps td) -> K x = false \/
      (exists t1 t2, node_at s1 x = Some (NTarget t1) /\ node_at s2 x = Some (NTarget t2) /\
         td_label t1 = td_label t2 /\
         dep_ok F2 x = true /\ rt_ohash (get_rt F2 x) = rt_ohash (get_rt F1 x))) ->
  (cfg_failfast cfg = false \/ br_ok (build H cfg s2 roots w' (b_cache F1)) = true) ->
  rt_status (get_rt F2 d) = THit.
Proof.
  intros En HE Hnc Hok Hdeps Hns.
  set (b1 := init_b w c n). set (b2 := init_b w' (b_cache F1) n).
  assert (EF1 : F1 = run cfg s1 sel1 (seq 0 n) b1) by reflexivity.
  pose proof edit_F2_eq as EF2. fold b2 in EF2.
  assert (Hfr1 : forall i, In i (seq 0 n) -> fresh b1 i /\ i < rt_len b1).
  { intros i Hi. split; [apply init_b_fresh|]. unfold b1. rewrite init_b_len. apply in_seq in Hi. lia. }
  assert (Hfr2 : forall i, In i (seq 0 n) -> fresh b2 i /\ i < rt_len b2).
  { intros i Hi. split; [apply init_b_fresh|]. unfold b2. rewrite init_b_len. apply in_seq in Hi. lia. }
  assert (Hdn : d < n).
  { destruct (lt_dec d n) as [Hlt|Hge]; [exact Hlt|]. exfalso.
    assert (Hlen1 : rt_len F1 = n).
    { rewrite EF1, (run_len cfg s1 sel1 Hmode); [apply init_b_len | apply seq_NoDup |].
      intros i Hi. apply (Hfr1 i Hi). }
    rewrite get_rt_oob in Hok; [|rewrite Hlen1; lia]. destruct Hok; discriminate. }
  assert (Hind : In d (seq 0 n)) by (apply in_seq; lia).
  destruct (in_split d (seq 0 n) Hind) as (l1 & l2 & Hsplit).
  assert (Hnd : NoDup (l1 ++ d :: l2)) by (rewrite <- Hsplit; apply seq_NoDup).
  assert (Hnd2 : NoDup (d :: l2)) by (apply NoDup_app_r in Hnd; exact Hnd).
  assert (HR0 : Rel s1 s2 sel2 E K F1 (l1 ++ d :: l2) b1 b2).
  { rewrite <- Hsplit.
    apply (rel_init cfg s1 s2 sel1 sel2 E K Hmode Hcache Hlen n w c w' Hcc); auto.
    - apply (proj1 (br_ok_iff cfg s1 roots w c) Hok1).
    - apply distinct_keys_spec. exact Hdk. }
  assert (Hin12 : forall i, In i (l1 ++ d :: l2) -> In i (seq 0 n)) by (intros i Hi; rewrite Hsplit; exact Hi).
  set (B1 := run cfg s1 sel1 l1 b1). set (B2 := run cfg s2 sel2 l1 b2).
  assert (EF1' : F1 = run cfg s1 sel1 (d :: l2) B1).
  { rewrite EF1, Hsplit. apply run_app. }
  assert (EF2' : F2 = run cfg s2 sel2 (d :: l2) B2).
  { rewrite EF2, Hsplit. apply run_app. }
  assert (Hnd1 : NoDup l1) by (apply NoDup_app_l in Hnd; exact Hnd).
  assert (HB1 : forall x, ~ In x l1 -> get_rt B1 x = rt0).
  { intros x Hx. unfold B1. rewrite (run_other cfg s1 sel1 Hmode); auto; [apply init_b_fresh|].
    intros i Hi. apply Hfr1, Hin12, in_or_app. left; exact Hi. }
  assert (HB2 : forall x, ~ In x l1 -> get_rt B2 x = rt0).
  { intros x Hx. unfold B2. rewrite (run_other cfg s2 sel2 Hmode); auto; [apply init_b_fresh|].
    intros i Hi. apply Hfr2, Hin12, in_or_app. left; exact Hi. }
  assert (Hfresh2 : forall i, In i (d :: l2) -> fresh B2 i).
  { intros i Hi. apply HB2. intro Hi1. apply (NoDup_app_disj l1 (d :: l2) i Hnd Hi1 Hi). }
  assert (Hfresh1 : forall i, In i (d :: l2) -> fresh B1 i).
  { intros i Hi. apply HB1. intro Hi1. apply (NoDup_app_disj l1 (d :: l2) i Hnd Hi1 Hi). }
  assert (Hkeep1 : forall x, In x l1 -> get_rt F1 x = get_rt B1 x).
  { intros x Hx. rewrite EF1'. apply (run_other cfg s1 sel1 Hmode); auto.
    apply (NoDup_app_disj l1 (d :: l2) x Hnd Hx). }
  assert (Hkeep2 : forall x, In x l1 -> get_rt F2 x = get_rt B2 x).
  { intros x Hx. rewrite EF2'. apply (run_other cfg s2 sel2 Hmode); auto.
    apply (NoDup_app_disj l1 (d :: l2) x Hnd Hx). }
  assert (EF1s : F1 = run cfg s1 sel1 (l1 ++ d :: l2) b1) by (rewrite EF1, Hsplit; reflexivity).
  assert (EF2s : F2 = run cfg s2 sel2 (l1 ++ d :: l2) b2) by (rewrite EF2, Hsplit; reflexivity).
  destruct (replay_gen cfg s1 s2 sel1 sel2 E K Hmode Hcache Hlen edit_sel edit_HEK Hnode Hfiles edit_closed
                       Hnocache Hlabels l1 (d :: l2) b1 b2 Hnd) as [(Hst & _)|HR].
  - rewrite <- EF1s. exact HR0.
  - rewrite <- EF1s. intros i _. apply (proj1 (br_ok_iff cfg s1 roots w c) Hok1).
  - rewrite <- EF1s, <- EF2s. intros i j k _. apply Hcross.
  - (* the second build was stopped before d: excluded *)
    exfalso. fold B2 in Hst.
    assert (Hfl1 : forall i, In i l1 -> fresh b2 i).
    { intros i Hi. apply Hfr2, Hin12, in_or_app. left; exact Hi. }
    destruct Hns as [Hff|Hok2].
    + unfold B2 in Hst. rewrite (run_stop_ff cfg s2 sel2 Hmode l1 b2 Hff Hnd1 Hfl1) in Hst. discriminate Hst.
    + destruct (run_stop_failed cfg s2 sel2 Hmode l1 b2 Hnd1 Hfl1 eq_refl Hst) as (i & Hi & Hfail).
      fold B2 in Hfail. rewrite <- (Hkeep2 i Hi) in Hfail.
      apply (proj1 (br_ok_iff cfg s2 roots w' (b_cache F1)) Hok2 i). exact Hfail.
  - rewrite <- EF1s in HR. fold B1 B2 in HR.
    pose proof HR as (R1 & R2 & _).
    assert (Hd2 : ~ In d l2) by (inversion Hnd2; assumption).
    assert (HF1d : get_rt F1 d = get_rt (pn cfg s1 sel1 B1 d) d).
    { rewrite EF1', run_cons. apply (run_other cfg s1 sel1 Hmode); auto.
      - inversion Hnd2; assumption.
      - intros i Hi. apply (fresh_tail cfg s1 sel1 Hmode d l2 B1 Hnd2); [|exact Hi].
        intros j Hj. apply (R2 j Hj). }
    destruct (rel_step_cutoff cfg s1 s2 sel1 sel2 E K Hmode Hcache edit_sel Hnode Hfiles
                              F1 d l2 B1 B2 td Hnd2 HR HE En Hnc HF1d Hok) as [Hhit _].
    + intros x Hx. destruct (Hdeps x Hx) as [HKx|(t1 & t2 & Hn1 & Hn2 & Hlab & Hdok & Hoh)].
      * split; [intros Hd1; rewrite (dep_ok_rel B1 B2 x (R1 x HKx)); exact Hd1|].
        apply (same_dep_clean s1 s2 E K Hlen edit_HEK Hnode edit_closed B1 B2 x R1 HKx).
      * unfold same_dep. rewrite (resolve_target s1 x t1 Hn1), (resolve_target s2 x t2 Hn2).
        destruct (in_dec Nat.eq_dec x l1) as [Hx1|Hx1].
        -- split; [intros _; unfold dep_ok; rewrite <- (Hkeep2 x Hx1); exact Hdok|].
           split; [reflexivity|]. split; [exact Hlab|]. rewrite <- (Hkeep2 x Hx1), <- (Hkeep1 x Hx1). exact Hoh.
        -- split; [unfold dep_ok; rewrite (HB1 x Hx1); discriminate|].
           split; [reflexivity|]. split; [exact Hlab|]. rewrite (HB1 x Hx1), (HB2 x Hx1). reflexivity.
    + rewrite EF2', run_cons, (run_other cfg s2 sel2 Hmode); auto.
      * inversion Hnd2; assumption.
      * intros i Hi. apply (fresh_tail cfg s2 sel2 Hmode d l2 B2 Hnd2); [|exact Hi].
        intros j Hj. apply (R2 j Hj).
Qed.

End Edit.

End C02.

(* ================================================================== decidable guards *)
Definition no_nocache_outside (K : nat -> bool) (s : sources) (sel : list nat) : bool :=
  forallb (fun i => K i || match node_at s i with Some (NTarget t) => negb (td_nocache t) | _ => true end) sel.

Lemma no_nocache_outside_spec K s sel i t :
  no_nocache_outside K s sel = true -> K i = false -> In i sel -> node_at s i = Some (NTarget t) ->
  td_nocache t = false.
Proof.
  unfold no_nocache_outside. rewrite forallb_forall. intros Hall HK Hin Hn. specialize (Hall i Hin).
  rewrite HK, Hn in Hall. cbn [orb] in Hall. apply negb_true_iff in Hall. exact Hall.
Qed.

Definition key_clash (x1 x2 : rt) : bool :=
  match rt_key x1, rt_key x2 with Some a, Some b => str_eqb a b | _, _ => false end.

Definition cross_distinctb (K : nat -> bool) (F1 F2 : bstate) : bool :=
  forallb (fun i => forallb (fun j => negb (K i && negb (Nat.eqb i j) && key_clash (get_rt F2 i) (get_rt F1 j)))
                            (seq 0 (rt_len F1)))
          (seq 0 (rt_len F2)).

Lemma cross_distinctb_spec K F1 F2 : cross_distinctb K F1 F2 = true -> cross_distinct K F1 F2.
Proof.
  unfold cross_distinctb. intros Hb i j k HK Hij Hk2 Hk1.
  destruct (lt_dec i (rt_len F2)) as [Hi|Hi]; [|rewrite get_rt_oob in Hk2; [discriminate | lia]].
  destruct (lt_dec j (rt_len F1)) as [Hj|Hj]; [|rewrite get_rt_oob in Hk1; [discriminate | lia]].
  rewrite forallb_forall in Hb. specialize (Hb i ltac:(apply in_seq; lia)).
  rewrite forallb_forall in Hb. specialize (Hb j ltac:(apply in_seq; lia)).
  apply negb_true_iff in Hb. rewrite HK in Hb.
  assert (Hne : Nat.eqb i j = false) by (apply Nat.eqb_neq; exact Hij).
  rewrite Hne in Hb. cbn [negb andb] in Hb. unfold key_clash in Hb. rewrite Hk2, Hk1, str_eqb_refl in Hb.
  discriminate.
Qed.

Definition distinct_labels_fromb (K : nat -> bool) (s : sources) : bool :=
  let n := length (s_nodes s) in
  forallb (fun i => forallb (fun j =>
      match node_at s i, node_at s j with
      | Some (NTarget ti), Some (NTarget tj) =>
          negb (K i && negb (Nat.eqb i j) && label_eqb (td_label tj) (td_label ti))
      | _, _ => true
      end) (seq 0 n)) (seq 0 n).

Lemma node_at_lt s i nd : node_at s i = Some nd -> i < length (s_nodes s).
Proof. unfold node_at. intro E. apply nth_error_Some. congruence. Qed.

Lemma distinct_labels_fromb_spec K s : distinct_labels_fromb K s = true -> distinct_labels_from K s.
Proof.
  unfold distinct_labels_fromb. intros Hb i j ti tj HK Hij Hni Hnj Heq.
  pose proof (node_at_lt s i _ Hni) as Hi. pose proof (node_at_lt s j _ Hnj) as Hj.
  rewrite forallb_forall in Hb. specialize (Hb i ltac:(apply in_seq; lia)).
  rewrite forallb_forall in Hb. specialize (Hb j ltac:(apply in_seq; lia)).
  rewrite Hni, Hnj, HK in Hb.
  assert (Hne : Nat.eqb i j = false) by (apply Nat.eqb_neq; exact Hij).
  rewrite Hne, Heq, label_eqb_refl in Hb. discriminate.
Qed.

(* ================================================================== final statements over [build] *)
Theorem edit_cone_build (H : str -> str) cfg s1 s2 roots w c (E K : nat -> bool) :
  cfg_mode cfg = LAll -> cfg_cache cfg = true -> cache_complete c ->
  length (s_nodes s1) = length (s_nodes s2) ->
  (forall i, deps_at s1 i = deps_at s2 i) ->
  (forall i, E i = false -> node_at s1 i = node_at s2 i) ->
  (forall i t p, E i = false -> node_at s1 i = Some (NTarget t) -> In p (td_ins t) ->
                 pkg_fs s1 t p = pkg_fs s2 t p) ->
  (forall i, E i = true -> K i = true) ->
  (forall i d, In d (deps_at s1 i) -> K d = true -> K i = true) ->
  let r1 := build H cfg s1 roots w c in
  br_ok r1 = true ->
  distinct_keys (build_state H cfg s1 roots w c) = true ->
  no_nocache_outside K s1 (selection s1 roots) = true ->
  distinct_labels_fromb K s2 = true ->
  let r2 := build H cfg s2 roots (br_world r1) (br_cache r1) in
  cross_distinctb K (build_state H cfg s1 roots w c)
                    (build_state H cfg s2 roots (br_world r1) (br_cache r1)) = true ->
  forall lb, In lb (br_exec r2) ->
  exists j t, K j = true /\ In j (selection s2 roots) /\ node_at s2 j = Some (NTarget t) /\ lb = td_label t.
Proof.
  intros Hm Hc Hcc Hlen Hshape Hnode Hfiles HEsub Hcone r1 Hok Hdk Hnn Hlab r2 Hcross lb Hin.
  apply (edit_cone H cfg s1 s2 roots w c (br_world r1) E K Hm Hc Hcc Hlen Hshape Hnode Hfiles HEsub Hcone); auto.
  - intros i t HK Hi Hn. apply (no_nocache_outside_spec K s1 _ i t Hnn HK Hi Hn).
  - apply distinct_labels_fromb_spec. exact Hlab.
  - apply cross_distinctb_spec. exact Hcross.
Qed.

Theorem early_cutoff_build (H : str -> str) cfg s1 s2 roots w c (E K : nat -> bool) d td :
  cfg_mode cfg = LAll -> cfg_cache cfg = true -> cache_complete c ->
  length (s_nodes s1) = length (s_nodes s2) ->
  (forall i, deps_at s1 i = deps_at s2 i) ->
  (forall i, E i = false -> node_at s1 i = node_at s2 i) ->
  (forall i t p, E i = false -> node_at s1 i = Some (NTarget t) -> In p (td_ins t) ->
                 pkg_fs s1 t p = pkg_fs s2 t p) ->
  (forall i, E i = true -> K i = true) ->
  (forall i d, In d (deps_at s1 i) -> K d = true -> K i = true) ->
  let r1 := build H cfg s1 roots w c in
  br_ok r1 = true ->
  distinct_keys (build_state H cfg s1 roots w c) = true ->
  no_nocache_outside K s1 (selection s1 roots) = true ->
  distinct_labels_fromb K s2 = true ->
  let r2 := build H cfg s2 roots (br_world r1) (br_cache r1) in
  let F1 := build_state H cfg s1 roots w c in
  let F2 := build_state H cfg s2 roots (br_world r1) (br_cache r1) in
  cross_distinctb K F1 F2 = true ->
  (* d: an unedited cacheable target that succeeded in the first build ... *)
  node_at s1 d = Some (NTarget td) -> E d = false -> td_nocache td = false ->
  (rt_status (get_rt F1 d) = THit \/ rt_status (get_rt F1 d) = TExecuted) ->
  (* ... each of whose dependencies is outside the cone, or is a target that succeeded again with
     the same output hash (e.g. a re-executed edited target reproducing identical outputs) *)
  (forall x, In x (td_deps td) -> K x = false \/
      (exists t1 t2, node_at s1 x = Some (NTarget t1) /\ node_at s2 x = Some (NTarget t2) /\
         td_label t1 = td_label t2 /\
         (rt_status (get_rt F2 x) = THit \/ rt_status (get_rt F2 x) = TExecuted) /\
         rt_ohash (get_rt F2 x) = rt_ohash (get_rt F1 x))) ->
  (cfg_failfast cfg = false \/ br_ok r2 = true) ->
  rt_status (get_rt F2 d) = THit.
Proof.
  intros Hm Hc Hcc Hlen Hshape Hnode Hfiles HEsub Hcone r1 Hok Hdk Hnn Hlab r2 F1 F2 Hcross
         Hnd HEd Hnc Hst Hdeps Hns.
  apply (early_cutoff H cfg s1 s2 roots w c (br_world r1) E K Hm Hc Hcc Hlen Hshape Hnode Hfiles HEsub Hcone)
    with (td := td); auto.
  - intros i t HK Hi Hn. apply (no_nocache_outside_spec K s1 _ i t Hnn HK Hi Hn).
  - apply distinct_labels_fromb_spec. exact Hlab.
  - apply cross_distinctb_spec. exact Hcross.
  - intros x Hx. destruct (Hdeps x Hx) as [HK|(t1 & t2 & H1 & H2 & HL & H3 & H4)]; [left; exact HK|].
    right. exists t1, t2. repeat split; auto. unfold dep_ok.
    change (build_state H cfg s2 roots (br_world r1) (b_cache (build_state H cfg s1 roots w c))) with F2.
    destruct H3 as [-> | ->]; reflexivity.
Qed.

(* ================================================================== the least cone (topologically numbered snapshots) *)
Inductive in_cone (s : sources) (E : nat -> bool) : nat -> Prop :=
| cone_base i : E i = true -> in_cone s E i
| cone_step i d : In d (deps_at s i) -> in_cone s E d -> in_cone s E i.

(* dependencies (and alias targets) have smaller node ids *)
Definition wf_src (s : sources) : bool :=
  forallb (fun i => forallb (fun d => Nat.ltb d i) (deps_at s i)) (seq 0 (length (s_nodes s))).

Fixpoint cone_upto (s : sources) (E : nat -> bool) (k : nat) : list bool :=
  match k with
  | 0 => []
  | S k' => let l := cone_upto s E k' in
            l ++ [E k' || existsb (fun d => nth d l false) (deps_at s k')]
  end.

Definition cone_of (s : sources) (E : nat -> bool) (i : nat) : bool :=
  E i || nth i (cone_upto s E (length (s_nodes s))) false.

Lemma cone_upto_length s E k : length (cone_upto s E k) = k.
Proof. induction k as [|k IH]; cbn [cone_upto]; [reflexivity|]. rewrite app_length, IH. cbn. lia. Qed.

Lemma cone_upto_prefix s E i : forall m k, i < k -> k <= m ->
  nth i (cone_upto s E m) false = nth i (cone_upto s E k) false.
Proof.
  induction m as [|m IH]; intros k Hik Hkm; [lia|].
  destruct (Nat.eq_dec k (S m)) as [->|Hne]; [reflexivity|].
  cbn [cone_upto]. rewrite app_nth1; [|rewrite cone_upto_length; lia]. apply IH; lia.
Qed.

Lemma cone_upto_value s E i m : i < m ->
  nth i (cone_upto s E m) false =
  E i || existsb (fun d => nth d (cone_upto s E i) false) (deps_at s i).
Proof.
  intro Him. rewrite (cone_upto_prefix s E i m (S i)); [|lia|lia].
  cbn [cone_upto]. rewrite app_nth2; rewrite cone_upto_length; [|lia].
  rewrite Nat.sub_diag. reflexivity.
Qed.

Lemma cone_upto_sound s E : forall m i, nth i (cone_upto s E m) false = true -> in_cone s E i.
Proof.
  induction m as [|m IH]; intros i Hi; [destruct i; discriminate Hi|].
  destruct (lt_dec i m) as [Hlt|Hge].
  - apply IH. rewrite <- Hi. symmetry. apply cone_upto_prefix; lia.
  - destruct (Nat.eq_dec i m) as [->|Hne].
    + rewrite cone_upto_value in Hi; [|lia]. apply orb_true_iff in Hi as [HE|Hex].
      * apply cone_base. exact HE.
      * apply existsb_exists in Hex as (d & Hd & Hnd). apply cone_step with d; [exact Hd|]. apply IH. exact Hnd.
    + rewrite nth_overflow in Hi; [discriminate|]. rewrite cone_upto_length. lia.
Qed.

Lemma cone_of_sound s E i : cone_of s E i = true -> in_cone s E i.
Proof.
  unfold cone_of. intro Hc. apply orb_true_iff in Hc as [HE|Hn]; [apply cone_base; exact HE|].
  eapply cone_upto_sound; exact Hn.
Qed.

Lemma cone_of_base s E i : E i = true -> cone_of s E i = true.
Proof. unfold cone_of. intros ->. reflexivity. Qed.

Lemma deps_at_lt s i d : In d (deps_at s i) -> i < length (s_nodes s).
Proof.
  unfold deps_at. destruct (node_at s i) as [nd|] eqn:En; [|intros []]. intros _. eapply node_at_lt; exact En.
Qed.

Lemma cone_of_closed s E i d :
  wf_src s = true -> In d (deps_at s i) -> cone_of s E d = true -> cone_of s E i = true.
Proof.
  intros Hwf Hd Hc. pose proof (deps_at_lt s i d Hd) as Hi.
  assert (Hdi : d < i).
  { unfold wf_src in Hwf. rewrite forallb_forall in Hwf. specialize (Hwf i ltac:(apply in_seq; lia)).
    rewrite forallb_forall in Hwf. specialize (Hwf d Hd). apply Nat.ltb_lt in Hwf. exact Hwf. }
  set (n := length (s_nodes s)) in *.
  assert (Hnd : nth d (cone_upto s E n) false = true).
  { unfold cone_of in Hc. fold n in Hc. apply orb_true_iff in Hc as [HE|Hn]; [|exact Hn].
    rewrite cone_upto_value; [|lia]. rewrite HE. reflexivity. }
  unfold cone_of. fold n. rewrite (cone_upto_value s E i n Hi). apply orb_true_iff. right. apply orb_true_iff. right.
  apply existsb_exists. exists d. split; [exact Hd|].
  rewrite <- Hnd. symmetry. apply cone_upto_prefix; lia.
Qed.

(* C02_edit_cone with the least cone: every executed label belongs to an edited target or to a
   transitive dependant of one *)
Theorem edit_cone_least (H : str -> str) cfg s1 s2 roots w c (E : nat -> bool) :
  cfg_mode cfg = LAll -> cfg_cache cfg = true -> cache_complete c ->
  wf_src s1 = true ->
  length (s_nodes s1) = length (s_nodes s2) ->
  (forall i, deps_at s1 i = deps_at s2 i) ->
  (forall i, E i = false -> node_at s1 i = node_at s2 i) ->
  (forall i t p, E i = false -> node_at s1 i = Some (NTarget t) -> In p (td_ins t) ->
                 pkg_fs s1 t p = pkg_fs s2 t p) ->
  let K := cone_of s1 E in
  let r1 := build H cfg s1 roots w c in
  br_ok r1 = true ->
  distinct_keys (build_state H cfg s1 roots w c) = true ->
  no_nocache_outside K s1 (selection s1 roots) = true ->
  distinct_labels_fromb K s2 = true ->
  let r2 := build H cfg s2 roots (br_world r1) (br_cache r1) in
  cross_distinctb K (build_state H cfg s1 roots w c)
                    (build_state H cfg s2 roots (br_world r1) (br_cache r1)) = true ->
  forall lb, In lb (br_exec r2) ->
  exists j t, in_cone s1 E j /\ In j (selection s2 roots) /\ node_at s2 j = Some (NTarget t) /\ lb = td_label t.
Proof.
  intros Hm Hc Hcc Hwf Hlen Hshape Hnode Hfiles K r1 Hok Hdk Hnn Hlab r2 Hcross lb Hin.
  destruct (edit_cone_build H cfg s1 s2 roots w c E K Hm Hc Hcc Hlen Hshape Hnode Hfiles) with (lb := lb)
    as (j & t & HK & Hj & Hn & Hl); auto.
  - intros i HE. apply cone_of_base. exact HE.
  - intros i d Hd HKd. apply (cone_of_closed s1 E i d Hwf Hd HKd).
  - exists j, t. split; [apply cone_of_sound; exact HK | auto].
Qed.

(* no-op rebuild in the presence of no-cache targets: whatever runs is a no-cache target or a
   transitive dependant of one (the clean statement [noop_rebuild] excludes no-cache targets) *)
Definition is_nocache (s : sources) (i : nat) : bool :=
  match node_at s i with Some (NTarget t) => td_nocache t | _ => false end.

Lemma no_nocache_outside_cone s sel : no_nocache_outside (cone_of s (is_nocache s)) s sel = true.
Proof.
  unfold no_nocache_outside. apply forallb_forall. intros i _.
  destruct (node_at s i) as [[t|lb a]|] eqn:En; try apply orb_true_r.
  destruct (td_nocache t) eqn:Et; [|apply orb_true_r].
  rewrite cone_of_base; [reflexivity|]. unfold is_nocache. rewrite En. exact Et.
Qed.

Theorem noop_rebuild_nocache_cone (H : str -> str) cfg s roots w c :
  cfg_mode cfg = LAll -> cfg_cache cfg = true -> cache_complete c -> wf_src s = true ->
  let K := cone_of s (is_nocache s) in
  let r1 := build H cfg s roots w c in
  br_ok r1 = true ->
  distinct_keys (build_state H cfg s roots w c) = true ->
  distinct_labels_fromb K s = true ->
  let r2 := build H cfg s roots (br_world r1) (br_cache r1) in
  cross_distinctb K (build_state H cfg s roots w c)
                    (build_state H cfg s roots (br_world r1) (br_cache r1)) = true ->
  forall lb, In lb (br_exec r2) ->
  exists j t, in_cone s (is_nocache s) j /\ In j (selection s roots) /\ node_at s j = Some (NTarget t) /\
              lb = td_label t.
Proof.
  intros Hm Hc Hcc Hwf K r1 Hok Hdk Hlab r2 Hcross lb Hin.
  apply (edit_cone_least H cfg s s roots w c (is_nocache s) Hm Hc Hcc Hwf); auto.
  apply no_nocache_outside_cone.
Qed.

(* ================================================================== refutation and non-vacuity (H := hex_enc, injective) *)
Module C02_examples.
Local Open Scope char_scope.

Definition Lb (n : str) : label := mkLabel ["p"] n.
Definition cfgA : config := mkCfg LAll true false.
Definition w0 : world := mkWorld [] [].

(* a <- b <- (alias x) <- c ; a has an input file, c has an output check and a directory output *)
Definition ta := mkTD (Lb ["a"]) ["c";"m";"d";"a"] ["s";"1"] [["i";"n"]] [mkOut OFile ["a";".";"o"]] [] []
                      false false BNormal false.
Definition tb := mkTD (Lb ["b"]) ["c";"m";"d";"b"] ["s";"2"] [] [mkOut OFile ["s";"/";"b";".";"o"]] [0] []
                      false false BNormal false.
Definition tc := mkTD (Lb ["c"]) ["c";"m";"d";"c"] ["s";"3"] [] [mkOut ODir ["c";"d"]] [2] []
                      false false BNormal true.
Definition files1 : list (str * str) := [(["p";"/";"i";"n"], ["h";"i"])].
Definition sx := mkSrc [NTarget ta; NTarget tb; NAlias (Lb ["x"]) 1; NTarget tc] files1.

Definition r1 := build hex_enc cfgA sx [3] w0 empty_cache.
Definition ps : list (str * pstate) :=
  [(["p";"/";"a";".";"o"], PWrongKind); (["p";"/";"s";"/";"b";".";"o"], PNoParent);
   (["p";"/";"c";"d"], PFile ["j";"u";"n";"k"]); (["p";"/";"o";"t";"h";"e";"r"], PAbsent)].
Definition is_wk (st : pstate) : bool := match st with PWrongKind => true | _ => false end.
Definition w1 := mkWorld (apply_perturbs ps (w_ws (br_world r1))) (w_ext (br_world r1)).
Definition r2 := build hex_enc cfgA sx [3] w1 (br_cache r1).

(* every guard of the no-op theorem holds on this instance, the first build really executes,
   and after putting a directory where one (file) output belongs, removing the parent of another and
   corrupting the third the rebuild runs nothing *)
Example noop_rebuild_nonvacuous :
  br_ok r1 = true /\ List.length (br_exec r1) = 3 /\
  distinct_keys (build_state hex_enc cfgA sx [3] w0 empty_cache) = true /\
  no_nocache_sel sx (selection sx [3]) = true /\
  existsb (fun p => is_wk (snd p)) ps = true /\
  br_exec r2 = [] /\ br_ok r2 = true /\ br_status r2 = [THit; THit; THit; THit].
Proof. vm_compute. repeat split; reflexivity. Qed.

Example noop_rebuild_instance : br_exec r2 = [] /\ br_ok r2 = true.
Proof.
  apply (noop_rebuild hex_enc cfgA sx [3] w0 empty_cache ps); try (vm_compute; reflexivity).
  apply empty_cache_complete.
Qed.

(* the label guard holds on this instance, and so does the corollary that uses it *)
Example noop_rebuild_labels_instance : distinct_labels sx = true /\ br_exec r2 = [] /\ br_ok r2 = true.
Proof.
  split; [vm_compute; reflexivity|].
  apply (noop_rebuild_labels hex_enc cfgA sx [3] w0 empty_cache ps hex_enc_inj hex_enc_no_us); try (vm_compute; reflexivity).
  apply empty_cache_complete.
Qed.

(* build (cache on), the same perturbations, build with the cache DISABLED (runs everything, stores nothing),
   build (cache on): nothing runs -- every guard of [rebuild_after_cache_off] holds on this instance *)
Definition cfgOff : config := mkCfg LAll false false.
Definition roff := build hex_enc cfgOff sx [3] w1 (br_cache r1).
Definition r3 := build hex_enc cfgA sx [3] (br_world roff) (br_cache roff).

Example rebuild_after_cache_off_nonvacuous :
  br_ok r1 = true /\
  distinct_keys (build_state hex_enc cfgA sx [3] w0 empty_cache) = true /\
  no_nocache_sel sx (selection sx [3]) = true /\
  br_ok roff = true /\ List.length (br_exec roff) = 3 /\
  br_status roff = [TExecuted; TExecuted; THit; TExecuted] /\
  c_results (br_cache roff) = c_results (br_cache r1) /\ c_cas (br_cache roff) = c_cas (br_cache r1) /\
  br_exec r3 = [] /\ br_ok r3 = true /\ br_status r3 = [THit; THit; THit; THit].
Proof. vm_compute. repeat split; reflexivity. Qed.

Example rebuild_after_cache_off_instance : br_exec r3 = [] /\ br_ok r3 = true.
Proof.
  destruct (rebuild_after_cache_off hex_enc cfgA cfgOff sx sx [3] [3] w0 empty_cache ps) as (_ & _ & R);
    try (vm_compute; reflexivity); [apply empty_cache_complete | exact R].
Qed.

Example history_rebuild_after_cache_off_instance :
  map (fun r => List.length (br_exec r))
      (sy_log (run_history hex_enc ([OpSources sx] ++ OpBuild cfgA [3] :: perturb_ops ps ++
                                    [OpBuild cfgOff [3]; OpBuild cfgA [3]]))) = [3; 3; 0].
Proof. vm_compute. reflexivity. Qed.

(* without distinct keys the statement is false, and distinct labels do not give distinct keys when the
   digest is not injective: under a constant digest //p:a and //p:ab share one change key; the second
   result overwrites the first (the recorded outputs do not match the first target's) and the rebuild
   re-executes *)
Definition constH (x : str) : str := ["h"].
Definition tA := mkTD (Lb ["a"]) ["b";"c"] [] [] [mkOut OFile ["x"]] [] []
                      false false BNormal false.
Definition tB := mkTD (Lb ["a";"b"]) ["c"] [] [] [mkOut OFile ["y"]; mkOut OFile ["z"]] [] []
                      false false BNormal false.
Definition sR := mkSrc [NTarget tA; NTarget tB] [].

Lemma noop_rebuild_refuted :
  exists (H : str -> str) cfg s roots w c,
    cfg_mode cfg = LAll /\ cfg_cache cfg = true /\ cache_complete c /\
    br_ok (build H cfg s roots w c) = true /\
    no_nocache_sel s (selection s roots) = true /\
    distinct_labels s = true /\
    distinct_keys (build_state H cfg s roots w c) = false /\
    let r1 := build H cfg s roots w c in
    br_exec (build H cfg s roots (br_world r1) (br_cache r1)) <> [].
Proof.
  exists constH, cfgA, sR, [0; 1], w0, empty_cache.
  split; [reflexivity|]. split; [reflexivity|].
  split; [apply empty_cache_complete|].
  split; [vm_compute; reflexivity|]. split; [vm_compute; reflexivity|]. split; [vm_compute; reflexivity|].
  split; [vm_compute; reflexivity|].
  vm_compute. discriminate.
Qed.

(* ------------------------------------------------------------------ an edit *)
(* s2: the command text of a changes (new key) but not what it writes; s3: a's input file changes *)
Definition ta2 := mkTD (Lb ["a"]) ["c";"m";"d";"a";"2"] ["s";"1"] [["i";"n"]] [mkOut OFile ["a";".";"o"]] [] []
                       false false BNormal false.
Definition sy := mkSrc [NTarget ta2; NTarget tb; NAlias (Lb ["x"]) 1; NTarget tc] files1.
Definition sz := mkSrc [NTarget ta; NTarget tb; NAlias (Lb ["x"]) 1; NTarget tc] [(["p";"/";"i";"n"], ["h";"o"])].
Definition Ex (i : nat) : bool := Nat.eqb i 0.
Definition Kx (i : nat) : bool := Nat.ltb i 4.

Lemma ex_shape s' : List.length (s_nodes s') = 4 ->
  (forall i, deps_at sx i = deps_at s' i) -> forall i d, In d (deps_at sx i) -> Kx d = true -> Kx i = true.
Proof.
  intros _ _ i d Hd _. destruct i as [|[|[|[|i]]]]; try reflexivity.
  exfalso. unfold deps_at, node_at, sx in Hd. cbn [s_nodes nth_error] in Hd. destruct i; exact Hd.
Qed.

Lemma ex_deps_y : forall i, deps_at sx i = deps_at sy i.
Proof. intros [|[|[|[|i]]]]; try reflexivity. all: try (unfold deps_at, node_at; cbn; destruct i; reflexivity). Qed.
Lemma ex_deps_z : forall i, deps_at sx i = deps_at sz i.
Proof. intros [|[|[|[|i]]]]; try reflexivity. all: try (unfold deps_at, node_at; cbn; destruct i; reflexivity). Qed.

Lemma ex_node_y : forall i, Ex i = false -> node_at sx i = node_at sy i.
Proof. intros [|[|[|[|i]]]] HE; try reflexivity; try discriminate HE. all: try (unfold node_at; cbn; destruct i; reflexivity). Qed.
Lemma ex_node_z : forall i, Ex i = false -> node_at sx i = node_at sz i.
Proof. intros [|[|[|[|i]]]] HE; try reflexivity; try discriminate HE. all: try (unfold node_at; cbn; destruct i; reflexivity). Qed.

Lemma ex_EK : forall i, Ex i = true -> Kx i = true.
Proof. intros i HE. apply Nat.eqb_eq in HE. subst. reflexivity. Qed.

(* only a re-executes (its command text changed), b and c are restored: early cut-off *)
Lemma ex_files_z : forall i t p, Ex i = false -> node_at sx i = Some (NTarget t) -> In p (td_ins t) ->
  pkg_fs sx t p = pkg_fs sz t p.
Proof.
  intros i t p HE Hn Hp. destruct i as [|[|[|[|i]]]]; try discriminate HE.
  - unfold node_at, sx in Hn. cbn in Hn. inversion Hn; subst t. destruct Hp.
  - unfold node_at, sx in Hn. cbn in Hn. discriminate Hn.
  - unfold node_at, sx in Hn. cbn in Hn. inversion Hn; subst t. destruct Hp.
  - unfold node_at, sx in Hn. cbn in Hn. destruct i; discriminate Hn.
Qed.

Lemma ex_files_y : forall i t p, Ex i = false -> node_at sx i = Some (NTarget t) -> In p (td_ins t) ->
  pkg_fs sx t p = pkg_fs sy t p.
Proof. reflexivity. Qed.

Example edit_cone_nonvacuous :
  forall lb, In lb (br_exec (build hex_enc cfgA sy [3] (br_world r1) (br_cache r1))) ->
  exists j t, Kx j = true /\ In j (selection sy [3]) /\ node_at sy j = Some (NTarget t) /\ lb = td_label t.
Proof.
  apply (edit_cone_build hex_enc cfgA sx sy [3] w0 empty_cache Ex Kx);
    [ reflexivity | reflexivity | apply empty_cache_complete | reflexivity | exact ex_deps_y | exact ex_node_y
    | exact ex_files_y | exact ex_EK | apply (ex_shape sy eq_refl ex_deps_y)
    | vm_compute; reflexivity | vm_compute; reflexivity | vm_compute; reflexivity
    | vm_compute; reflexivity | vm_compute; reflexivity ].
Qed.

Example edit_cone_nonvacuous_z :
  forall lb, In lb (br_exec (build hex_enc cfgA sz [3] (br_world r1) (br_cache r1))) ->
  exists j t, Kx j = true /\ In j (selection sz [3]) /\ node_at sz j = Some (NTarget t) /\ lb = td_label t.
Proof.
  apply (edit_cone_build hex_enc cfgA sx sz [3] w0 empty_cache Ex Kx);
    [ reflexivity | reflexivity | apply empty_cache_complete | reflexivity | exact ex_deps_z | exact ex_node_z
    | exact ex_files_z | exact ex_EK | apply (ex_shape sz eq_refl ex_deps_z)
    | vm_compute; reflexivity | vm_compute; reflexivity | vm_compute; reflexivity
    | vm_compute; reflexivity | vm_compute; reflexivity ].
Qed.

Example edit_cone_least_nonvacuous :
  wf_src sx = true /\
  forall lb, In lb (br_exec (build hex_enc cfgA sz [3] (br_world r1) (br_cache r1))) ->
  exists j t, in_cone sx Ex j /\ In j (selection sz [3]) /\ node_at sz j = Some (NTarget t) /\ lb = td_label t.
Proof.
  split; [reflexivity|].
  apply (edit_cone_least hex_enc cfgA sx sz [3] w0 empty_cache Ex);
    [ reflexivity | reflexivity | apply empty_cache_complete | reflexivity | reflexivity | exact ex_deps_z
    | exact ex_node_z | exact ex_files_z
    | vm_compute; reflexivity | vm_compute; reflexivity | vm_compute; reflexivity
    | vm_compute; reflexivity | vm_compute; reflexivity ].
Qed.

(* b is tagged no-cache: the rebuild runs b only, which is inside the cone of the no-cache targets *)
Definition tbn := mkTD (Lb ["b"]) ["c";"m";"d";"b"] ["s";"2"] [] [mkOut OFile ["s";"/";"b";".";"o"]] [0] []
                       true false BNormal false.
Definition sn := mkSrc [NTarget ta; NTarget tbn; NAlias (Lb ["x"]) 1; NTarget tc] files1.
Definition rn1 := build hex_enc cfgA sn [3] w0 empty_cache.

Example noop_rebuild_nocache_cone_nonvacuous :
  br_exec (build hex_enc cfgA sn [3] (br_world rn1) (br_cache rn1)) = [Lb ["b"]] /\
  forall lb, In lb (br_exec (build hex_enc cfgA sn [3] (br_world rn1) (br_cache rn1))) ->
  exists j t, in_cone sn (is_nocache sn) j /\ In j (selection sn [3]) /\ node_at sn j = Some (NTarget t) /\
              lb = td_label t.
Proof.
  split; [vm_compute; reflexivity|].
  apply (noop_rebuild_nocache_cone hex_enc cfgA sn [3] w0 empty_cache);
    [ reflexivity | reflexivity | apply empty_cache_complete | reflexivity
    | vm_compute; reflexivity | vm_compute; reflexivity | vm_compute; reflexivity | vm_compute; reflexivity ].
Qed.

Example edit_exec_concrete :
  br_exec (build hex_enc cfgA sy [3] (br_world r1) (br_cache r1)) = [Lb ["a"]] /\
  br_exec (build hex_enc cfgA sz [3] (br_world r1) (br_cache r1)) = [Lb ["a"]; Lb ["b"]; Lb ["c"]].
Proof. vm_compute. split; reflexivity. Qed.

Example early_cutoff_nonvacuous :
  rt_status (get_rt (build_state hex_enc cfgA sy [3] (br_world r1) (br_cache r1)) 1) = THit.
Proof.
  apply (early_cutoff_build hex_enc cfgA sx sy [3] w0 empty_cache Ex Kx 1 tb);
    [ reflexivity | reflexivity | apply empty_cache_complete | reflexivity | exact ex_deps_y | exact ex_node_y
    | exact ex_files_y | exact ex_EK | apply (ex_shape sy eq_refl ex_deps_y)
    | vm_compute; reflexivity | vm_compute; reflexivity | vm_compute; reflexivity
    | vm_compute; reflexivity | vm_compute; reflexivity
    | reflexivity | reflexivity | reflexivity | right; vm_compute; reflexivity | | left; reflexivity ].
  intros x [<-|[]]. right. exists ta, ta2. split; [reflexivity|]. split; [reflexivity|].
  split; [reflexivity|].
  split; [right; vm_compute; reflexivity | vm_compute; reflexivity].
Qed.

(* ------------------------------------------------------------------ single task *)
Definition b_first : bstate := init_b w0 empty_cache 4.
Definition b_second : bstate := init_b w1 (br_cache r1) 4.
Definition r_a : result :=
  match rlookup (pt_key hex_enc sx ta []) (c_results (br_cache r1)) with Some r => r | None => mkRes [] [] end.

(* first build: a executes, and the reason the theorem gives is "no result under its key" *)
Example exec_only_if_nonvacuous :
  rt_status (get_rt (process_target hex_enc cfgA sx 0 ta b_first) 0) = TExecuted /\
  b_exec (process_target hex_enc cfgA sx 0 ta b_first) <> b_exec b_first /\
  dep_hashes sx b_first (td_deps ta) = Some [] /\
  rlookup (pt_key hex_enc sx ta []) (c_results (b_cache b_first)) = None.
Proof. vm_compute. repeat split; try reflexivity. discriminate. Qed.

(* second build, after a directory was put where a's (file) output belongs: every hypothesis of hit_if holds *)
Example hit_if_nonvacuous :
  ws_get ["p";"/";"a";".";"o"] (w_ws (b_world b_second)) = PWrongKind /\
  rt_status (get_rt (process_target hex_enc cfgA sx 0 ta b_second) 0) = THit /\
  b_exec (process_target hex_enc cfgA sx 0 ta b_second) = b_exec b_second.
Proof.
  split; [vm_compute; reflexivity|].
  destruct (hit_if hex_enc cfgA sx 0 ta b_second [] r_a) as (A & _ & B & _);
    try (vm_compute; reflexivity); [| | auto].
  - vm_compute. lia.
  - intros def dg Hin. vm_compute in Hin. destruct Hin as [E0|[]]. inversion E0; subst. vm_compute. discriminate.
Qed.

Example run_history_cache_complete_nonvacuous :
  no_blob_faults [OpSources sx; OpBuild cfgA [3]; OpPerturb ["p";"/";"a";".";"o"] PAbsent; OpDropResults;
                  OpBuild cfgA [3]] = true.
Proof. reflexivity. Qed.

End C02_examples.
