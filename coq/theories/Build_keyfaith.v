(* Build_keyfaith.v -- the structural (decidable) guard that replaces C01's abstract guard
   [key_faithful] (Build_ideal.v).  Definitions only; proofs: Build_keyfaith_proofs.v.

   In Build.v a target carries fields that in reality are functions of the command text but are
   separate fields of the model: [td_salt], [td_beh], [td_check], and the ORDER in which the
   generated command reads its dependencies' outputs ([ideal_reads]: declared order of [td_deps],
   and per dependency the declared order of its [td_outs]).  The change key is order-free in deps
   and outs.  [cmd_faithful] states the modelling fact "equal label + equal command text => equal
   salt, behaviour, check flag and equal read shape" for the visited snapshots.  The no-cache tag is
   not covered by the key either: [cmd_faithful] also asks that a target keeping label and command text
   keeps the tag (see [key_faithful]).  No-cache targets are otherwise admitted anywhere in the graph;
   what they contribute to the keys of their dependants (GetNoCacheOutputHash: the digest of the sorted,
   comma-joined "<definition>=<digest>" items) decodes uniquely when no output definition of a no-cache
   target contains a comma: [outdefs_comma_free]. *)
From Coq Require Import List Ascii Bool Arith.
From Grog Require Import Str Label HashKey Build Build_ideal.
Import ListNotations.

(* ------------------------------------------------------------------ boolean equalities *)
Definition okind_eqb (a b : okind) : bool :=
  match a, b with OFile, OFile => true | ODir, ODir => true | _, _ => false end.

Definition outdef_eqb (a b : outdef) : bool :=
  okind_eqb (o_kind a) (o_kind b) && str_eqb (o_path a) (o_path b).

Definition beh_eqb (a b : behaviour) : bool :=
  match a, b with
  | BNormal, BNormal => true
  | BFail, BFail => true
  | BSkipOutput j, BSkipOutput k => Nat.eqb j k
  | BFailAfter, BFailAfter => true
  | BBreakCheck, BBreakCheck => true
  | _, _ => false
  end.

Fixpoint list_eqb {A} (eqb : A -> A -> bool) (l l' : list A) : bool :=
  match l, l' with
  | [], [] => true
  | x :: r, y :: r' => eqb x y && list_eqb eqb r r'
  | _, _ => false
  end.

(* ------------------------------------------------------------------ the read shape of a command *)
(* per declared dependency: the label and the declared outputs (in declared order) of the target it
   resolves to -- exactly what fixes the paths and the order of the "D <path>" blocks the command reads *)
Definition shape_entry := option (label * list outdef).

Definition dep_shape (s : sources) (t : tdef) : list shape_entry :=
  map (fun d => match resolve s d with
                | Some (_, dt) => Some (td_label dt, td_outs dt)
                | None => None
                end) (td_deps t).

Definition shape_eqb (a b : shape_entry) : bool :=
  match a, b with
  | None, None => true
  | Some (l, os), Some (l', os') => label_eqb l l' && list_eqb outdef_eqb os os'
  | _, _ => false
  end.

(* ------------------------------------------------------------------ the guard *)
(* what the command text determines in the generated workspaces *)
Definition cmd_agree (s1 : sources) (t1 : tdef) (s2 : sources) (t2 : tdef) : Prop :=
  td_salt t1 = td_salt t2 /\ td_beh t1 = td_beh t2 /\ td_check t1 = td_check t2 /\
  dep_shape s1 t1 = dep_shape s2 t2 /\ td_nocache t1 = td_nocache t2.

Definition cmd_faithful (V : list sources) : Prop :=
  forall s1 s2 t1 t2, In s1 V -> In s2 V ->
    In (NTarget t1) (s_nodes s1) -> In (NTarget t2) (s_nodes s2) ->
    td_label t1 = td_label t2 -> td_cmd t1 = td_cmd t2 -> cmd_agree s1 t1 s2 t2.

Definition cmd_agreeb (s1 : sources) (t1 : tdef) (s2 : sources) (t2 : tdef) : bool :=
  str_eqb (td_salt t1) (td_salt t2) && beh_eqb (td_beh t1) (td_beh t2) &&
  Bool.eqb (td_check t1) (td_check t2) && list_eqb shape_eqb (dep_shape s1 t1) (dep_shape s2 t2) &&
  Bool.eqb (td_nocache t1) (td_nocache t2).

Definition node_agreeb (s1 s2 : sources) (n1 n2 : ndef) : bool :=
  match n1, n2 with
  | NTarget t1, NTarget t2 =>
      if label_eqb (td_label t1) (td_label t2) && str_eqb (td_cmd t1) (td_cmd t2)
      then cmd_agreeb s1 t1 s2 t2 else true
  | _, _ => true
  end.

Definition cmd_faithfulb (V : list sources) : bool :=
  forallb (fun s1 => forallb (fun s2 =>
    forallb (fun n1 => forallb (node_agreeb s1 s2 n1) (s_nodes s2)) (s_nodes s1)) V) V.

(* grog rejects two nodes with one label (C11).  Dependency contributions enter the key through the
   PRINTED label ("//pkg:name=<hash>"), so uniqueness is asked of the printed labels; for names
   without ':' (validateName) this is uniqueness of the labels (labels_unique_of_names) *)
Definition printed (n : ndef) : str := print_label (node_label n).

Definition labels_unique (s : sources) : Prop := NoDup (map printed (s_nodes s)).

Fixpoint nodup_strb (l : list str) : bool :=
  match l with
  | [] => true
  | x :: r => negb (str_in x r) && nodup_strb r
  end.

Definition labels_uniqueb (s : sources) : bool := nodup_strb (map printed (s_nodes s)).

(* no declared output of a no-cache target has a ',' in its path (the items of the no-cache output hash
   are joined with ','; "file::" / "dir::" contain none) *)
Definition comma_free (p : str) : bool := negb (mem_ch ch_comma p).

Definition node_comma_free (n : ndef) : bool :=
  match n with
  | NTarget t => negb (td_nocache t) || forallb (fun o => comma_free (o_path o)) (td_outs t)
  | NAlias _ _ => true
  end.

Definition outdefs_comma_free (s : sources) : Prop :=
  forall t, In (NTarget t) (s_nodes s) -> td_nocache t = true ->
    forall o, In o (td_outs t) -> ~ In ch_comma (o_path o).

Definition outdefs_comma_freeb (s : sources) : bool := forallb node_comma_free (s_nodes s).

(* the structural guard on the snapshots of a history, as one boolean *)
Definition snaps_okb (V : list sources) : bool :=
  cmd_faithfulb V && forallb labels_uniqueb V && forallb outdefs_comma_freeb V.

(* ------------------------------------------------------------------ the digest *)
(* lower-case hex digit *)
Definition is_hex (c : ascii) : bool :=
  let n := nat_of_ascii c in ((48 <=? n) && (n <=? 57)) || ((97 <=? n) && (n <=? 102)).

(* an injective, hex-only, prefix-free "digest" (non-vacuity of the hypotheses on H): every byte as
   three base-15 digits 0-9a-e, then the terminator f *)
Definition digit15 (n : nat) : ascii := ascii_of_nat (if n <? 10 then 48 + n else 87 + n).

Definition pf_byte (c : ascii) : str :=
  let n := nat_of_ascii c in [digit15 (n / 225); digit15 ((n / 15) mod 15); digit15 (n mod 15)].

Fixpoint pf_enc (s : str) : str :=
  match s with
  | [] => ["f"%char]
  | c :: r => pf_byte c ++ pf_enc r
  end.

(* ------------------------------------------------------------------ for the "each conjunct is needed" witnesses *)
(* [cmd_faithfulb] with some conjuncts switched off (false = the conjunct is not asked for) *)
Record cmask := mkMask { m_salt : bool; m_beh : bool; m_check : bool; m_shape : bool; m_nc : bool }.

Definition cmd_agreeb_m (m : cmask) (s1 : sources) (t1 : tdef) (s2 : sources) (t2 : tdef) : bool :=
  (negb (m_salt m) || str_eqb (td_salt t1) (td_salt t2)) &&
  (negb (m_beh m) || beh_eqb (td_beh t1) (td_beh t2)) &&
  (negb (m_check m) || Bool.eqb (td_check t1) (td_check t2)) &&
  (negb (m_shape m) || list_eqb shape_eqb (dep_shape s1 t1) (dep_shape s2 t2)) &&
  (negb (m_nc m) || Bool.eqb (td_nocache t1) (td_nocache t2)).

Definition node_agreeb_m (m : cmask) (s1 s2 : sources) (n1 n2 : ndef) : bool :=
  match n1, n2 with
  | NTarget t1, NTarget t2 =>
      if label_eqb (td_label t1) (td_label t2) && str_eqb (td_cmd t1) (td_cmd t2)
      then cmd_agreeb_m m s1 t1 s2 t2 else true
  | _, _ => true
  end.

Definition cmd_faithfulb_m (m : cmask) (V : list sources) : bool :=
  forallb (fun s1 => forallb (fun s2 =>
    forallb (fun n1 => forallb (node_agreeb_m m s1 s2 n1) (s_nodes s2)) (s_nodes s1)) V) V.

(* the build after history ops serves target i (a Hit) bytes that differ from what the
   from-scratch build of the same sources writes at output o *)
Definition incremental_differs (H : str -> str) (ops : list op) (cfg : config) (roots : list nat)
           (ext' : list label) (i : nat) (t : tdef) (o : outdef) : Prop :=
  let y := run_history H ops in
  let r := build H cfg (sy_src y) roots (sy_world y) (sy_cache y) in
  let rc := clean_build H cfg (sy_src y) roots ext' in
  node_at (sy_src y) i = Some (NTarget t) /\ In o (td_outs t) /\
  nth i (br_status r) TNone = THit /\ nth i (br_status rc) TNone = TExecuted /\
  ws_get (out_path t o) (w_ws (br_world r)) <> ws_get (out_path t o) (w_ws (br_world rc)).
