(* Store_proofs.v -- proofs about Store.v (C07: crash/fault consistency of the local back end;
   C08: RemoteWrapper as a mirror). *)
From Grog Require Import Str Store.

(* ------------------------------------------------------------------ key spaces *)
Lemma path_eqb_eq a b : path_eqb a b = true <-> a = b.
Proof. destruct a, b; simpl; split; intro E; try reflexivity; try discriminate. Qed.

Lemma pk_eqb_eq p k p' k' : pk_eqb p k (p', k') = true <-> p = p' /\ k = k'.
Proof.
  unfold pk_eqb; simpl. rewrite andb_true_iff, path_eqb_eq, str_eqb_eq. tauto.
Qed.

Lemma pk_eqb_refl p k : pk_eqb p k (p, k) = true.
Proof. apply pk_eqb_eq; split; reflexivity. Qed.

Lemma pk_eqb_neq p k p' k' : (p <> p' \/ k <> k') -> pk_eqb p k (p', k') = false.
Proof.
  intro Hn. destruct (pk_eqb p k (p', k')) eqn:E; [|reflexivity].
  apply pk_eqb_eq in E as [-> ->]. destruct Hn as [Hn|Hn]; congruence.
Qed.

Lemma lookup_remove_same m p k : lookup (remove m p k) p k = None.
Proof.
  induction m as [|[[p' k'] b] m IH]; simpl; [reflexivity|].
  destruct (pk_eqb p k (p', k')) eqn:E; [exact IH|]. simpl. rewrite E. exact IH.
Qed.

Lemma lookup_remove_other m p k p' k' :
  (p' <> p \/ k' <> k) -> lookup (remove m p k) p' k' = lookup m p' k'.
Proof.
  intro Hn. induction m as [|[[p2 k2] b] m IH]; simpl; [reflexivity|].
  destruct (pk_eqb p k (p2, k2)) eqn:E.
  - apply pk_eqb_eq in E as [<- <-]. rewrite (pk_eqb_neq p' k' p k Hn). exact IH.
  - simpl. destruct (pk_eqb p' k' (p2, k2)); [reflexivity | exact IH].
Qed.

Lemma lookup_upd_same m p k b : lookup (upd m p k b) p k = Some b.
Proof. unfold upd; simpl. rewrite pk_eqb_refl. reflexivity. Qed.

Lemma lookup_upd_other m p k b p' k' :
  (p' <> p \/ k' <> k) -> lookup (upd m p k b) p' k' = lookup m p' k'.
Proof.
  intro Hn. unfold upd; simpl. rewrite (pk_eqb_neq p' k' p k Hn). apply lookup_remove_other; exact Hn.
Qed.

Lemma pk_dec (p p' : path) (k k' : key) : (p' = p /\ k' = k) \/ (p' <> p \/ k' <> k).
Proof.
  destruct (pk_eqb p' k' (p, k)) eqn:E.
  - left. apply pk_eqb_eq; exact E.
  - right. destruct (path_eqb p' p) eqn:E1.
    + right. intro Hk; subst. apply path_eqb_eq in E1; subst.
      rewrite pk_eqb_refl in E; discriminate.
    + left. intro Hp; subst. destruct p; discriminate.
Qed.

Lemma lookup_upd m p k b p' k' :
  lookup (upd m p k b) p' k' = if pk_eqb p' k' (p, k) then Some b else lookup m p' k'.
Proof.
  destruct (pk_dec p p' k k') as [[-> ->]|Hn].
  - rewrite pk_eqb_refl. apply lookup_upd_same.
  - rewrite (pk_eqb_neq _ _ _ _ Hn). apply lookup_upd_other; exact Hn.
Qed.

Lemma lookup_remove m p k p' k' :
  lookup (remove m p k) p' k' = if pk_eqb p' k' (p, k) then None else lookup m p' k'.
Proof.
  destruct (pk_dec p p' k k') as [[-> ->]|Hn].
  - rewrite pk_eqb_refl. apply lookup_remove_same.
  - rewrite (pk_eqb_neq _ _ _ _ Hn). apply lookup_remove_other; exact Hn.
Qed.

(* ================================================================== Layer 1 *)
Lemma fupd_same {A} (f : tid -> A) t v : fupd f t v t = v.
Proof. unfold fupd. rewrite Nat.eqb_refl. reflexivity. Qed.

Lemma fupd_other {A} (f : tid -> A) t v u : u <> t -> fupd f t v u = f u.
Proof. intro Hn. unfold fupd. apply Nat.eqb_neq in Hn. rewrite Hn. reflexivity. Qed.

Definition is_rename (k : skind) : bool := match k with KRename _ _ => true | _ => false end.

(* temp files are never visible: only a Rename changes what is visible *)
Lemma exec_vis_non_rename st x f : is_rename (s_kind x) = false -> vis (exec st x f) = vis st.
Proof.
  intro Hk. unfold exec. destruct (s_kind x); simpl in Hk; try discriminate;
    repeat match goal with |- context [if ?c then _ else _] => destruct c end; reflexivity.
Qed.

Lemma run_vis_non_rename l : forall st fl,
  Forall (fun x => is_rename (s_kind x) = false) l -> vis (run_store st l fl) = vis st.
Proof.
  induction l as [|x l IH]; intros st fl Hf; simpl; [reflexivity|].
  inversion Hf; subst. rewrite IH by assumption. apply exec_vis_non_rename; assumption.
Qed.

Lemma run_app l1 : forall l2 st fl,
  run_store st (l1 ++ l2) fl = run_store (run_store st l1 fl) l2 (skipn (length l1) fl).
Proof.
  induction l1 as [|x l1 IH]; intros l2 st fl; simpl; [reflexivity|].
  rewrite IH. destruct fl; simpl; [rewrite skipn_nil|]; reflexivity.
Qed.

(* a thread's registers are only touched by its own steps *)
Lemma exec_other st x f u :
  u <> s_tid x ->
  tmp (exec st x f) u = tmp st u /\ skipping (exec st x f) u = skipping st u /\ dead (exec st x f) u = dead st u.
Proof.
  intro Hn. unfold exec. destruct (s_kind x); simpl;
    repeat match goal with
           | |- context [if ?c then _ else _] => destruct c; simpl
           | |- context [match ?c with Some _ => _ | None => _ end] => destruct c; simpl
           end; rewrite ?fupd_other by exact Hn; auto.
Qed.

Lemma exec_dead_stays st x f t : dead st t = true -> dead (exec st x f) t = true.
Proof.
  intro Hd. unfold exec, active.
  destruct (s_kind x); simpl;
    repeat match goal with
           | |- context [if ?c then _ else _] => destruct c eqn:?; simpl
           | |- context [match ?c with Some _ => _ | None => _ end] => destruct c eqn:?; simpl
           end; unfold fupd; try (destruct (Nat.eqb t (s_tid x))); auto.
Qed.

Section L1.
  Variable H : bytes -> key.
  Variable refs : bytes -> list key.

  Definition rename_ok (have : key -> Prop) (p : path) (k : key) (b : bytes) : Prop :=
    match p with
    | PCas => H b = k
    | PTarget => forall d, In d (refs b) -> have d
    | PTaint => True
    end.

  Definition have_add (p : path) (k : key) (have : key -> Prop) : key -> Prop :=
    fun d => (p = PCas /\ d = k) \/ have d.

  (* what the rest of a thread's step list needs, given its registers (sk, tm) and the digests known
     to be visible (have); every outcome of a check and of a deferred remove is covered *)
  Fixpoint all_ok (sk : bool) (tm : option bytes) (have : key -> Prop) (l : list skind) : Prop :=
    match l with
    | [] => True
    | k :: l' =>
        match k with
        | KCheck d => all_ok false tm have l' /\ all_ok true tm (have_add PCas d have) l'
        | KMkdir => all_ok sk tm have l'
        | KClose => all_ok sk tm have l'
        | KCreate => all_ok sk (if sk then tm else Some []) have l'
        | KWrite c => all_ok sk (if sk then tm else option_map (fun b => b ++ c) tm) have l'
        | KRename p key =>
            if sk then all_ok sk tm have l'
            else match tm with
                 | None => True
                 | Some b => rename_ok have p key b /\ all_ok false None (have_add p key have) l'
                 end
        | KRemove => all_ok false None have l' /\ all_ok false tm have l'
        | KMemo d => (sk = false -> have d) /\ all_ok sk tm have l'
        end
    end.

  Lemma rename_ok_mono (have have' : key -> Prop) p k b :
    (forall d, have d -> have' d) -> rename_ok have p k b -> rename_ok have' p k b.
  Proof. intros Hm. destruct p; simpl; auto. Qed.

  Lemma have_add_mono (have have' : key -> Prop) p k :
    (forall d, have d -> have' d) -> forall d, have_add p k have d -> have_add p k have' d.
  Proof. intros Hm d [Hd|Hd]; [left; exact Hd | right; auto]. Qed.

  Lemma all_ok_mono l : forall sk tm (have have' : key -> Prop),
    (forall d, have d -> have' d) -> all_ok sk tm have l -> all_ok sk tm have' l.
  Proof.
    induction l as [|k l IH]; intros sk tm have have' Hm Hok; simpl in *; [exact I|].
    destruct k.
    - destruct Hok as [H1 H2]. split; [eapply IH; eauto|].
      eapply IH; [|exact H2]. apply have_add_mono; exact Hm.
    - eapply IH; eauto.
    - eapply IH; eauto.
    - eapply IH; eauto.
    - eapply IH; eauto.
    - destruct sk; [eapply IH; eauto|]. destruct tm as [b|]; [|exact I].
      destruct Hok as [H1 H2]. split; [eapply rename_ok_mono; eauto|].
      eapply IH; [|exact H2]. apply have_add_mono; exact Hm.
    - destruct Hok as [H1 H2]. split; eapply IH; eauto.
    - destruct Hok as [H1 H2]. split; [intro E; auto | eapply IH; eauto].
  Qed.

  Definition have_of (st : state) : key -> Prop := fun d => visible st PCas d <> None.

  Definition thread_ok (st : state) (t : tid) (l : list step) : Prop :=
    Forall (fun y => s_tid y = t) l /\
    (dead st t = false -> all_ok (skipping st t) (tmp st t) (have_of st) (map s_kind l)).

  Definition Good (st : state) (ls : list (list step)) : Prop :=
    Inv H refs st /\ memo_sound st /\
    forall i l, nth_error ls i = Some l -> thread_ok st i l.

  (* blobs are only ever added *)
  Lemma exec_cas_mono st x f d : have_of st d -> have_of (exec st x f) d.
  Proof.
    unfold have_of, visible. intro Hv.
    destruct (is_rename (s_kind x)) eqn:Er; [|rewrite exec_vis_non_rename by exact Er; exact Hv].
    unfold exec. destruct (s_kind x) as [| | | | |p k| |]; simpl in Er; try discriminate.
    destruct (active st (s_tid x)); [|exact Hv].
    destruct f; [exact Hv|].
    destruct (tmp st (s_tid x)) as [b|]; [|exact Hv]. cbn [vis set_tmp set_vis].
    rewrite lookup_upd. destruct (pk_eqb PCas d (p, k)); [discriminate | exact Hv].
  Qed.

  (* stability: a step of another thread keeps thread u's obligations *)
  Lemma thread_ok_stable st x f u l :
    u <> s_tid x -> thread_ok st u l -> thread_ok (exec st x f) u l.
  Proof.
    intros Hn [Ht Hok]. split; [exact Ht|].
    destruct (exec_other st x f u Hn) as (-> & -> & ->). intro Hd.
    eapply all_ok_mono; [|exact (Hok Hd)]. intros d. apply exec_cas_mono.
  Qed.

  Lemma inv_non_rename st x f :
    is_rename (s_kind x) = false -> Inv H refs st -> Inv H refs (exec st x f).
  Proof.
    intros Hk [I1 I2]. unfold Inv, visible in *. rewrite (exec_vis_non_rename st x f Hk). split; assumption.
  Qed.

  Lemma visible_set_tmp st t v p k : visible (set_tmp st t v) p k = visible st p k.
  Proof. reflexivity. Qed.

  (* the step of thread t itself *)
  Lemma own_step st x f l :
    Inv H refs st -> memo_sound st -> thread_ok st (s_tid x) (x :: l) ->
    Inv H refs (exec st x f) /\ memo_sound (exec st x f) /\ thread_ok (exec st x f) (s_tid x) l.
  Proof.
    intros HI Hm [Ht Hok]. set (t := s_tid x) in *.
    assert (Htl : Forall (fun y => s_tid y = t) l) by (inversion Ht; assumption).
    destruct (dead st t) eqn:Hd.
    { (* the thread already returned an error: nothing but the deferred remove has an effect *)
      assert (Hd' : dead (exec st x f) t = true) by (apply exec_dead_stays; exact Hd).
      assert (Hv : vis (exec st x f) = vis st /\ memo (exec st x f) = memo st).
      { unfold exec, active. fold t. rewrite Hd. destruct (s_kind x); simpl; auto; destruct f; simpl; auto. }
      destruct Hv as [Hv Hmm].
      split; [|split].
      - destruct HI as [I1 I2]. unfold Inv, visible. rewrite Hv. split; assumption.
      - unfold memo_sound, visible. rewrite Hv, Hmm. exact Hm.
      - split; [exact Htl|]. rewrite Hd'. discriminate. }
    specialize (Hok eq_refl). simpl in Hok.
    unfold exec, active. fold t. rewrite Hd. simpl.
    destruct (s_kind x) as [d| | |c| |p k| |d] eqn:Ek; simpl in Hok.
    - (* KCheck *)
      destruct Hok as [Hno Hyes].
      destruct f.
      + split; [exact HI|]. split; [exact Hm|]. split; [exact Htl|]. intros _. simpl.
        rewrite fupd_same. exact Hno.
      + destruct (known st d) eqn:Hk.
        * assert (Hvd : have_of st d).
          { unfold known in Hk. apply orb_true_iff in Hk as [Hk|Hk].
            - apply str_in_spec in Hk. apply Hm; exact Hk.
            - unfold have_of. destruct (visible st PCas d); [discriminate | discriminate]. }
          split; [exact HI|]. split.
          { intros d' [<-|Hin]; [exact Hvd | apply Hm; exact Hin]. }
          split; [exact Htl|]. intros _. simpl. rewrite fupd_same.
          eapply all_ok_mono; [|exact Hyes]. intros d' [[_ ->]|Hh]; [exact Hvd | exact Hh].
        * split; [exact HI|]. split; [exact Hm|]. split; [exact Htl|]. intros _. simpl.
          rewrite fupd_same. exact Hno.
    - (* KMkdir *)
      destruct (skipping st t) eqn:Hs; simpl.
      + split; [exact HI|]. split; [exact Hm|]. split; [exact Htl|]. intros _. rewrite Hs. exact Hok.
      + destruct f; simpl.
        * split; [exact HI|]. split; [exact Hm|]. split; [exact Htl|]. simpl. rewrite fupd_same. discriminate.
        * split; [exact HI|]. split; [exact Hm|]. split; [exact Htl|]. intros _. rewrite Hs. exact Hok.
    - (* KCreate *)
      destruct (skipping st t) eqn:Hs; simpl.
      + split; [exact HI|]. split; [exact Hm|]. split; [exact Htl|]. intros _. rewrite Hs. exact Hok.
      + destruct f; simpl.
        * split; [exact HI|]. split; [exact Hm|]. split; [exact Htl|]. simpl. rewrite fupd_same. discriminate.
        * split; [exact HI|]. split; [exact Hm|]. split; [exact Htl|]. intros _. simpl.
          rewrite fupd_same, Hs. exact Hok.
    - (* KWrite *)
      destruct (skipping st t) eqn:Hs; simpl.
      + split; [exact HI|]. split; [exact Hm|]. split; [exact Htl|]. intros _. rewrite Hs. exact Hok.
      + destruct f; simpl.
        * split; [exact HI|]. split; [exact Hm|]. split; [exact Htl|]. simpl. rewrite fupd_same. discriminate.
        * split; [exact HI|]. split; [exact Hm|]. split; [exact Htl|]. intros _. simpl.
          rewrite fupd_same, Hs. exact Hok.
    - (* KClose *)
      destruct (skipping st t) eqn:Hs; simpl.
      + split; [exact HI|]. split; [exact Hm|]. split; [exact Htl|]. intros _. rewrite Hs. exact Hok.
      + destruct f; simpl.
        * split; [exact HI|]. split; [exact Hm|]. split; [exact Htl|]. simpl. rewrite fupd_same. discriminate.
        * split; [exact HI|]. split; [exact Hm|]. split; [exact Htl|]. intros _. rewrite Hs. exact Hok.
    - (* KRename *)
      destruct (skipping st t) eqn:Hs; simpl.
      + split; [exact HI|]. split; [exact Hm|]. split; [exact Htl|]. intros _. rewrite Hs. exact Hok.
      + destruct f; simpl.
        * split; [exact HI|]. split; [exact Hm|]. split; [exact Htl|]. simpl. rewrite fupd_same. discriminate.
        * destruct (tmp st t) as [b|] eqn:Etm.
          2:{ split; [exact HI|]. split; [exact Hm|]. split; [exact Htl|]. simpl. rewrite fupd_same. discriminate. }
          destruct Hok as [Hr Hrest]. destruct HI as [I1 I2].
          assert (Hmono : forall d', have_of st d' -> lookup (upd (vis st) p k b) PCas d' <> None).
          { intros d' Hv. rewrite lookup_upd. destruct (pk_eqb PCas d' (p, k)); [discriminate | exact Hv]. }
          split; [|split].
          { unfold Inv, visible; cbn [vis set_tmp set_vis]. split.
            - intros d' b'. rewrite lookup_upd. destruct (pk_eqb PCas d' (p, k)) eqn:E.
              + apply pk_eqb_eq in E as [<- <-]. intro Eb; inversion Eb; subst. exact Hr.
              + apply I1.
            - intros k' r. rewrite lookup_upd. destruct (pk_eqb PTarget k' (p, k)) eqn:E.
              + apply pk_eqb_eq in E as [<- <-]. intro Eb; inversion Eb; subst.
                intros d' Hin. apply Hmono. apply Hr; exact Hin.
              + intros Hv d' Hin. apply Hmono. exact (I2 k' r Hv d' Hin). }
          { intros d' Hin. unfold visible; cbn [vis set_tmp set_vis]. apply Hmono. apply Hm; exact Hin. }
          split; [exact Htl|]. intros _. simpl. rewrite fupd_same, Hs.
          eapply all_ok_mono; [|exact Hrest].
          intros d' [[-> ->]|Hh]; unfold have_of, visible; cbn [vis set_tmp set_vis].
          { rewrite lookup_upd_same. discriminate. }
          { apply Hmono; exact Hh. }
    - (* KRemove *)
      destruct Hok as [Hnone Hkeep].
      split; [|split].
      + destruct f; exact HI.
      + destruct f; exact Hm.
      + split; [exact Htl|]. intros _. destruct f; simpl; rewrite ?fupd_same.
        * exact Hkeep.
        * exact Hnone.
    - (* KMemo *)
      destruct Hok as [Hh Hrest].
      destruct (skipping st t) eqn:Hs; simpl.
      + split; [exact HI|]. split; [exact Hm|]. split; [exact Htl|]. intros _. rewrite Hs. exact Hrest.
      + split; [exact HI|]. split.
        { intros d' [<-|Hin]; [exact (Hh eq_refl) | apply Hm; exact Hin]. }
        split; [exact Htl|]. intros _. simpl. rewrite Hs. exact Hrest.
  Qed.

  Lemma nth_error_mid {A} (pre : list A) x post : nth_error (pre ++ x :: post) (length pre) = Some x.
  Proof. induction pre; simpl; auto. Qed.

  Lemma nth_error_mid_other {A} (pre : list A) x y post i :
    i <> length pre -> nth_error (pre ++ y :: post) i = nth_error (pre ++ x :: post) i.
  Proof.
    revert i; induction pre as [|a pre IH]; intros i Hn; simpl in *.
    - destruct i; [congruence | reflexivity].
    - destruct i; [reflexivity|]. simpl. apply IH. intro; apply Hn; congruence.
  Qed.

  Lemma good_step st x f pre l post :
    Good st (pre ++ (x :: l) :: post) -> Good (exec st x f) (pre ++ l :: post).
  Proof.
    intros (HI & Hm & Hth).
    assert (Hown : thread_ok st (length pre) (x :: l)) by (apply Hth; apply nth_error_mid).
    assert (Etid : s_tid x = length pre) by (destruct Hown as [Ht _]; inversion Ht; assumption).
    rewrite <- Etid in Hown.
    destruct (own_step st x f l HI Hm Hown) as (HI' & Hm' & Hown').
    split; [exact HI'|]. split; [exact Hm'|].
    intros i l' Hnth. destruct (Nat.eq_dec i (length pre)) as [->|Hn].
    - rewrite nth_error_mid in Hnth. inversion Hnth; subst. rewrite <- Etid. exact Hown'.
    - apply thread_ok_stable; [rewrite Etid; exact Hn|].
      apply Hth. rewrite <- Hnth. apply nth_error_mid_other; exact Hn.
  Qed.

  Lemma good_every_prefix il ls :
    interleaving il ls -> forall st, Good st ls -> forall n faults, Inv H refs (run_store st (firstn n il) faults).
  Proof.
    induction 1 as [ls Hall | x il pre l post Hil IH]; intros st Hg n faults.
    - destruct n; simpl; apply Hg.
    - destruct n; simpl; [apply Hg|].
      apply IH. apply good_step. exact Hg.
  Qed.

  (* ---- well-formed traffic satisfies the obligations *)
  Lemma all_ok_writes_skip cs : forall tm have rest,
    all_ok true tm have rest -> all_ok true tm have (map KWrite cs ++ rest).
  Proof. induction cs as [|c cs IH]; intros; simpl; auto. Qed.

  Lemma all_ok_writes cs : forall b have rest,
    all_ok false (Some (b ++ concat cs)) have rest -> all_ok false (Some b) have (map KWrite cs ++ rest).
  Proof.
    induction cs as [|c cs IH]; intros b have rest Hr; simpl in *.
    - rewrite app_nil_r in Hr. exact Hr.
    - apply IH. rewrite <- app_assoc. exact Hr.
  Qed.

  Lemma have_add_equiv_wf ops : forall (h1 h2 : key -> Prop),
    (forall d, h1 d -> h2 d) -> wf_ops H refs h1 ops -> wf_ops H refs h2 ops.
  Proof.
    induction ops as [|o ops IH]; intros h1 h2 Hm Hw; simpl in *; [exact I|].
    destruct o as [d cs|k cs]; destruct Hw as [Hw1 Hw2]; split; auto.
    - eapply IH; [|exact Hw2]. intros x [->|Hx]; [left; reflexivity | right; auto].
    - eapply IH; eauto.
  Qed.

  Lemma kinds_blob d cs rest :
    op_kinds (OBlob d cs) ++ rest =
    KCheck d :: KMkdir :: KCreate :: map KWrite cs ++ (KClose :: KRename PCas d :: KRemove :: KMemo d :: rest).
  Proof. unfold op_kinds, set_kinds. simpl. rewrite <- !app_assoc. reflexivity. Qed.

  Lemma kinds_result k cs rest :
    op_kinds (OResult k cs) ++ rest =
    KMkdir :: KCreate :: map KWrite cs ++ (KClose :: KRename PTarget k :: KRemove :: rest).
  Proof. unfold op_kinds, set_kinds. simpl. rewrite <- !app_assoc. reflexivity. Qed.

  Lemma wf_all_ok ops : forall have tm,
    wf_ops H refs have ops -> all_ok false tm have (target_kinds ops).
  Proof.
    unfold target_kinds.
    induction ops as [|o ops IH]; intros have tm Hw; [exact I|].
    cbn [map concat].
    destruct o as [d cs|k cs]; cbn [wf_ops] in Hw; destruct Hw as [Hw1 Hw2].
    - (* blob *)
      rewrite kinds_blob.
      assert (Hrest : forall tm', all_ok false tm' (have_add PCas d have) (concat (map op_kinds ops))).
      { intro tm'. apply IH. eapply have_add_equiv_wf; [|exact Hw2].
        intros x [->|Hx]; [left; split; reflexivity | right; exact Hx]. }
      cbn [all_ok]. split.
      + (* the check says "absent" (or fails): Set runs *)
        apply all_ok_writes. cbn [all_ok app]. split; [exact Hw1|].
        split; (split; [intros _; left; split; reflexivity | apply Hrest]).
      + (* the check says "present": everything up to the deferred remove is skipped *)
        apply all_ok_writes_skip. cbn [all_ok].
        split; (split; [intros _; left; split; reflexivity | apply Hrest]).
    - (* result *)
      rewrite kinds_result.
      assert (Hrest : forall tm', all_ok false tm' (have_add PTarget k have) (concat (map op_kinds ops))).
      { intro tm'. apply IH. eapply have_add_equiv_wf; [|exact Hw2]. intros x Hx; right; exact Hx. }
      cbn [all_ok]. apply all_ok_writes. cbn [all_ok app]. split; [exact Hw1|].
      split; apply Hrest.
  Qed.

  Definition idle (st : state) : Prop := memo_sound st /\ forall t, skipping st t = false.

  Lemma target_steps_tid t ops : Forall (fun y => s_tid y = t) (target_steps t ops).
  Proof. unfold target_steps. apply Forall_forall. intros y Hy. apply in_map_iff in Hy as [k [<- _]]. reflexivity. Qed.

  Lemma lists_from_nth opss : forall t i l,
    nth_error (lists_from t opss) i = Some l ->
    exists ops, nth_error opss i = Some ops /\ l = target_steps (t + i) ops.
  Proof.
    induction opss as [|ops opss IH]; intros t i l Hn; simpl in Hn.
    - destruct i; discriminate.
    - destruct i; simpl in *.
      + inversion Hn; subst. exists ops. rewrite Nat.add_0_r. auto.
      + destruct (IH (S t) i l Hn) as [ops' [H1 H2]]. exists ops'. split; [exact H1|].
        rewrite H2. f_equal. lia.
  Qed.

  Theorem inv_every_prefix st0 opss il :
    Inv H refs st0 -> idle st0 ->
    interleaving il (per_target_lists opss) ->
    Forall (wf_ops H refs (have_of st0)) opss ->
    forall n faults, Inv H refs (run_store st0 (firstn n il) faults).
  Proof.
    intros HI [Hm Hs] Hil Hwf n faults.
    eapply good_every_prefix; [exact Hil|].
    split; [exact HI|]. split; [exact Hm|].
    intros i l Hn. apply lists_from_nth in Hn as [ops [Hn ->]]. simpl.
    split; [apply target_steps_tid|]. intros _. rewrite Hs.
    unfold target_steps. rewrite map_map. simpl. rewrite map_id.
    apply wf_all_ok. eapply Forall_forall in Hwf; [exact Hwf|]. eapply nth_error_In; exact Hn.
  Qed.
End L1.

(* ------------------------------------------------------------------ one Set: visible only at the Rename *)
Definition pre_kinds (cs : list bytes) : list skind := [KMkdir; KCreate] ++ map KWrite cs ++ [KClose].

Lemma set_kinds_split p k cs : set_kinds p k cs = pre_kinds cs ++ [KRename p k; KRemove].
Proof. unfold set_kinds, pre_kinds. rewrite <- !app_assoc. reflexivity. Qed.

Lemma active_set_dead st t : active (set_dead st t) t = false.
Proof. unfold active; simpl. rewrite fupd_same. reflexivity. Qed.

Lemma option_map_app_nil (x : option bytes) : option_map (fun b => b ++ []) x = x.
Proof. destruct x; simpl; [rewrite app_nil_r|]; reflexivity. Qed.

Lemma run_writes t cs : forall st fl,
  active (run_store st (map (mkStep t) (map KWrite cs)) fl) t = true ->
  active st t = true /\
  tmp (run_store st (map (mkStep t) (map KWrite cs)) fl) t = option_map (fun b => b ++ concat cs) (tmp st t).
Proof.
  induction cs as [|c cs IH]; intros st fl Ha; simpl in *.
  - split; [exact Ha | symmetry; apply option_map_app_nil].
  - unfold exec in *; simpl in *. destruct (active st t) eqn:Hact.
    + destruct (hd false fl).
      * apply IH in Ha as [Ha _]. rewrite active_set_dead in Ha. discriminate.
      * apply IH in Ha as [_ Ht]. split; [reflexivity|]. rewrite Ht. simpl. rewrite fupd_same.
        destruct (tmp st t); simpl; [rewrite <- app_assoc|]; reflexivity.
    + apply IH in Ha as [Ha _]. congruence.
Qed.

Lemma Forall_firstn {A} (P : A -> Prop) l : forall n, Forall P l -> Forall P (firstn n l).
Proof.
  induction l as [|x l IH]; intros [|n] Hf; simpl; try constructor; inversion Hf; subst; auto.
Qed.

Lemma pre_non_rename t cs : Forall (fun x => is_rename (s_kind x) = false) (map (mkStep t) (pre_kinds cs)).
Proof.
  apply Forall_forall. intros x Hx. apply in_map_iff in Hx as [k [<- Hk]]. simpl.
  unfold pre_kinds in Hk. simpl in Hk. destruct Hk as [<-|[<-|Hk]]; try reflexivity.
  apply in_app_or in Hk as [Hk|[<-|[]]]; [|reflexivity].
  apply in_map_iff in Hk as [c [<- _]]. reflexivity.
Qed.

Lemma step_plain_active st t k f :
  (k = KClose \/ k = KMkdir) ->
  active (exec st (mkStep t k) f) t = true ->
  active st t = true /\ tmp (exec st (mkStep t k) f) t = tmp st t.
Proof.
  intros [-> | ->]; unfold exec; cbn [s_tid s_kind]; destruct (active st t) eqn:E; cbn [andb];
    try (intro Hx; rewrite E in Hx; discriminate);
    (destruct f; [rewrite active_set_dead; discriminate | auto]).
Qed.

Lemma step_create_active st t f :
  active (exec st (mkStep t KCreate) f) t = true ->
  active st t = true /\ tmp (exec st (mkStep t KCreate) f) t = Some [].
Proof.
  unfold exec; cbn [s_tid s_kind]. destruct (active st t) eqn:E.
  - destruct f; [rewrite active_set_dead; discriminate|]. intros _. split; [reflexivity|].
    cbn [tmp set_tmp]. apply fupd_same.
  - intro Hx; rewrite E in Hx; discriminate.
Qed.

Lemma run_pre t cs st fl :
  let s1 := run_store st (map (mkStep t) (pre_kinds cs)) fl in
  vis s1 = vis st /\ (active s1 t = true -> tmp s1 t = Some (concat cs)).
Proof.
  split; [apply run_vis_non_rename, pre_non_rename|].
  unfold pre_kinds. cbn [map app]. rewrite map_app. cbn [run_store map].
  rewrite run_app. cbn [run_store]. intro Ha.
  set (sa := exec st (mkStep t KMkdir) (hd false fl)) in *.
  set (sb := exec sa (mkStep t KCreate) (hd false (tl fl))) in *.
  set (sc := run_store sb (map (mkStep t) (map KWrite cs)) (tl (tl fl))) in *.
  apply step_plain_active in Ha as [Hc Ht]; [|left; reflexivity]. rewrite Ht.
  apply run_writes in Hc as [Hb Hw]. fold sc in Hw. rewrite Hw.
  apply step_create_active in Hb as [_ Hbt]. fold sb in Hbt. rewrite Hbt. reflexivity.
Qed.

Theorem set_visible_only_complete t p k cs st n fl :
  let steps := set_steps t p k cs in
  let st' := run_store st (firstn n steps) fl in
  (forall p' k', (p' <> p \/ k' <> k) -> visible st' p' k' = visible st p' k') /\
  (visible st' p k = visible st p k \/
   (visible st' p k = Some (concat cs) /\ length steps - 1 <= n)).
Proof.
  cbv zeta. unfold set_steps. rewrite set_kinds_split, map_app.
  set (pre := map (mkStep t) (pre_kinds cs)).
  rewrite firstn_app.
  destruct (Nat.le_gt_cases n (length pre)) as [Hle|Hgt].
  - replace (n - length pre) with 0 by lia. rewrite firstn_O, app_nil_r.
    assert (Hv : vis (run_store st (firstn n pre) fl) = vis st).
    { apply run_vis_non_rename. apply Forall_firstn. apply pre_non_rename. }
    unfold visible. rewrite Hv. split; [reflexivity | left; reflexivity].
  - rewrite firstn_all2 by lia.
    destruct (n - length pre) as [|j] eqn:Ej; [lia|]. cbn [map firstn].
    rewrite run_app. cbn [run_store].
    destruct (run_pre t cs st fl) as [Hv1 Htm]. fold pre in Hv1, Htm.
    set (s1 := run_store st pre fl) in *.
    set (f := hd false (skipn (length pre) fl)).
    set (s2 := exec s1 (mkStep t (KRename p k)) f).
    assert (Hv3 : vis (run_store s2 (firstn j [mkStep t KRemove]) (tl (skipn (length pre) fl))) = vis s2).
    { apply run_vis_non_rename. apply Forall_firstn. repeat constructor. }
    unfold visible. rewrite Hv3.
    assert (Hlen : length (pre ++ [mkStep t (KRename p k); mkStep t KRemove]) - 1 <= n).
    { rewrite app_length. cbn [length]. lia. }
    unfold s2, exec; cbn [s_tid s_kind]. destruct (active s1 t) eqn:Ha.
    + destruct f.
      * cbn [vis set_dead]. rewrite Hv1. split; [reflexivity | left; reflexivity].
      * rewrite (Htm eq_refl). cbn [vis set_tmp set_vis]. rewrite Hv1. split.
        { intros p' k' Hn. apply lookup_upd_other; exact Hn. }
        { right. split; [apply lookup_upd_same | exact Hlen]. }
    + rewrite Hv1. split; [reflexivity | left; reflexivity].
Qed.

(* no step other than a Rename changes what is visible, whatever the fault: temp files are never visible *)
Theorem temps_never_visible st x f p k :
  is_rename (s_kind x) = false -> visible (exec st x f) p k = visible st p k.
Proof. intro Hk. unfold visible. rewrite exec_vis_non_rename by exact Hk. reflexivity. Qed.

(* ---- non-vacuity: a concrete two-target build, digest = identity, results = comma separated digests *)
Definition ex_H (b : bytes) : key := b.
Definition s_aa : str := ["a"; "a"]%char.
Definition s_b : str := ["b"]%char.
Definition s_k1 : str := ["k"; "1"]%char.
Definition s_k2 : str := ["k"; "2"]%char.
Definition ex_blob (s : str) : op := OBlob s [s].
Definition ex_opss : list (list op) :=
  [ [ex_blob s_aa; ex_blob s_b; OResult s_k1 [s_aa ++ [ch_comma]; s_b]];
    [ex_blob s_b; OResult s_k2 [s_b]] ].
Definition ex_il : list step := merge_by [0; 1; 1; 0; 0; 1; 1; 1; 0; 1; 1; 1; 0; 0; 1] (per_target_lists ex_opss).

Ltac il_step :=
  first [ refine (il_cons _ _ [] _ _ _) | refine (il_cons _ _ [_] _ [] _) ].

Lemma ex_interleaving : interleaving ex_il (per_target_lists ex_opss).
Proof.
  vm_compute. repeat il_step. apply il_nil. repeat constructor.
Qed.

Lemma ex_wf : Forall (wf_ops ex_H refs_csv (have_of (boot []))) ex_opss.
Proof.
  unfold ex_opss. constructor; [|constructor; [|constructor]].
  - cbn [wf_ops ex_blob]. split; [reflexivity|]. split; [reflexivity|]. split; [|exact I].
    vm_compute. intros d [<-|[<-|[]]]; auto.
  - cbn [wf_ops ex_blob]. split; [reflexivity|]. split; [|exact I].
    vm_compute. intros d [<-|[]]; auto.
Qed.

Lemma ex_inv0 : Inv ex_H refs_csv (boot []) /\ idle (boot []).
Proof.
  split; [split; intros; discriminate|]. split; [intros d []|reflexivity].
Qed.

Lemma ex_final :
  visible (run_store (boot []) ex_il []) PTarget s_k1 = Some (s_aa ++ ch_comma :: s_b) /\
  visible (run_store (boot []) ex_il []) PCas s_aa = Some s_aa /\
  visible (run_store (boot []) (firstn 20 ex_il) []) PTarget s_k1 = None /\
  length ex_il = 37.
Proof. vm_compute. repeat split. Qed.

(* ================================================================== Layer 2 *)
Lemma loc_set_loc_same w m f : loc (set_loc w m f) m = f.
Proof. destruct m; reflexivity. Qed.

Lemma rem_set_loc w m f : rem (set_loc w m f) = rem w.
Proof. destruct m; reflexivity. Qed.

Lemma wmemo_set_loc w m f : wmemo (set_loc w m f) = wmemo w.
Proof. destruct m; reflexivity. Qed.

Lemma lookup_none_is_some m p k : is_some (lookup m p k) = false <-> lookup m p k = None.
Proof. destruct (lookup m p k); simpl; split; intro; congruence. Qed.

(* ---- faults degrade: a wrapper Get returns the stored bytes, a miss or an error; never other bytes *)
Theorem get_faults_degrade w m p k :
  let (r, w') := w_get w m p k in
  rem w' = rem w /\
  match r with
  | RHit b => (lookup (loc w m) p k = Some b \/
               (lookup (loc w m) p k = None /\ lookup (rem w) p k = Some b)) /\
              lookup (loc w' m) p k = Some b
  | RMiss => loc w' m = loc w m
  | RErr => loc w' m = loc w m
  | _ => False
  end.
Proof.
  unfold w_get. destruct (lookup (loc w m) p k) as [b|] eqn:El.
  - split; [reflexivity|]. split; [left; reflexivity | exact El].
  - unfold r_get, next_rf.
    destruct (hd FNone (rfl w)); cbn -[upd set_loc loc lookup];
      try (split; [reflexivity | destruct m; reflexivity]).
    destruct (lookup (rem w) p k) as [b|] eqn:Er; cbn -[upd set_loc loc lookup].
    + unfold fs_set, next_lf. destruct (hd LOk (lfl w)); cbn -[upd set_loc loc lookup].
      * rewrite rem_set_loc. split; [reflexivity|]. split.
        { right. split; [reflexivity | reflexivity]. }
        { rewrite loc_set_loc_same. apply lookup_upd_same. }
      * split; [reflexivity | destruct m; reflexivity].
      * split; [reflexivity | destruct m; reflexivity].
    + split; [reflexivity | destruct m; reflexivity].
Qed.

(* every op of a sequence produces an outcome (the model's functions are total: no stuck state) *)
Lemma run_ops_total ops : forall w, length (fst (run_ops w ops)) = length ops.
Proof.
  induction ops as [|o ops IH]; intro w; simpl; [reflexivity|].
  destruct (do_op w o) as [x w1]. specialize (IH w1). destruct (run_ops w1 ops) as [xs w2].
  simpl in *. congruence.
Qed.

(* ---- machine B restores through the wrapper *)
Definition agrees (w : world) : Prop :=
  forall p k b, lookup (locB w) p k = Some b -> lookup (rem w) p k = Some b.

Lemma get_fill_B w p k b :
  agrees w -> rfl w = [] -> lfl w = [] -> lookup (rem w) p k = Some b ->
  exists w', w_get w MB p k = (RHit b, w') /\ agrees w' /\ rem w' = rem w /\ rfl w' = [] /\ lfl w' = [] /\
             lookup (locB w') p k = Some b /\
             (forall p' k' b', lookup (locB w) p' k' = Some b' -> lookup (locB w') p' k' = Some b').
Proof.
  intros Hag Hr Hl Hrem. unfold w_get. cbn [loc].
  destruct (lookup (locB w) p k) as [b0|] eqn:El.
  - pose proof (Hag p k b0 El) as E. rewrite Hrem in E. inversion E; subst b0.
    exists w. repeat split; auto.
  - unfold r_get, next_rf. rewrite Hr. cbn -[upd lookup]. rewrite Hrem.
    unfold fs_set, next_lf. cbn -[upd lookup]. rewrite Hl. cbn -[upd lookup].
    eexists. split; [reflexivity|]. unfold agrees. cbn -[upd lookup]. repeat split; auto.
    + intros p' k' b'. rewrite lookup_upd. destruct (pk_eqb p' k' (p, k)) eqn:E.
      * apply pk_eqb_eq in E as [-> ->]. intro Eb; inversion Eb; subst. exact Hrem.
      * apply Hag.
    + apply lookup_upd_same.
    + intros p' k' b' Hb. rewrite lookup_upd. destruct (pk_eqb p' k' (p, k)) eqn:E; [|exact Hb].
      apply pk_eqb_eq in E as [-> ->]. congruence.
Qed.

Definition get_ops (items : list (path * key)) : list wop :=
  map (fun e => Do MB Wrapped (AGet (fst e) (snd e))) items.

Definition remote_answer (w : world) (e : path * key) : res :=
  match lookup (rem w) (fst e) (snd e) with Some b => RHit b | None => RMiss end.

Lemma B_reads items : forall w,
  agrees w -> rfl w = [] -> lfl w = [] ->
  (forall e, In e items -> lookup (rem w) (fst e) (snd e) <> None) ->
  fst (run_ops w (get_ops items)) = map (remote_answer w) items /\
  rem (snd (run_ops w (get_ops items))) = rem w /\
  (forall e, In e items -> lookup (locB (snd (run_ops w (get_ops items)))) (fst e) (snd e) = lookup (rem w) (fst e) (snd e)) /\
  (forall p k b, lookup (locB w) p k = Some b -> lookup (locB (snd (run_ops w (get_ops items)))) p k = Some b).
Proof.
  induction items as [|[p k] items IH]; intros w Hag Hr Hl Hall; simpl.
  - repeat split; auto. intros e [].
  - destruct (lookup (rem w) p k) as [b|] eqn:Eb; [|exfalso; apply (Hall (p, k)); [left; reflexivity | exact Eb]].
    destruct (get_fill_B w p k b Hag Hr Hl Eb) as (w1 & Hg & Hag1 & Hrem1 & Hr1 & Hl1 & Hhit & Hkeep).
    rewrite Hg.
    assert (Hall1 : forall e, In e items -> lookup (rem w1) (fst e) (snd e) <> None).
    { intros e He. rewrite Hrem1. apply Hall. right; exact He. }
    destruct (IH w1 Hag1 Hr1 Hl1 Hall1) as (I1 & I2 & I3 & I4).
    destruct (run_ops w1 (get_ops items)) as [xs w2] eqn:E2. simpl in *.
    repeat split.
    + unfold remote_answer at 1. simpl. rewrite Eb. f_equal. rewrite I1.
      apply map_ext_in. intros e _. unfold remote_answer. rewrite Hrem1. reflexivity.
    + congruence.
    + intros e [<-|He]; simpl.
      * rewrite Eb. apply I4. exact Hhit.
      * rewrite I3 by exact He. rewrite Hrem1. reflexivity.
    + intros p' k' b' Hb. apply I4. apply Hkeep. exact Hb.
Qed.

Section Restore.
  Variable refs : bytes -> list key.

  Definition remote_complete (w : world) (results : list key) : Prop :=
    forall k, In k results ->
      exists r, lookup (rem w) PTarget k = Some r /\ forall d, In d (refs r) -> lookup (rem w) PCas d <> None.

  (* what a build on B reads for the given results: each result, then every blob it references *)
  Definition restore_items (w : world) (results : list key) : list (path * key) :=
    flat_map (fun k => (PTarget, k) ::
                       match lookup (rem w) PTarget k with
                       | Some r => map (fun d => (PCas, d)) (refs r)
                       | None => []
                       end) results.

  Theorem machineB_restores w results :
    remote_complete w results -> locB w = [] -> rfl w = [] -> lfl w = [] ->
    let items := restore_items w results in
    let out := run_ops w (get_ops items) in
    fst out = map (remote_answer w) items /\
    (forall e, In e items -> exists b, lookup (rem w) (fst e) (snd e) = Some b /\
                                       lookup (locB (snd out)) (fst e) (snd e) = Some b) /\
    rem (snd out) = rem w.
  Proof.
    intros Hc Hb Hr Hl items out.
    assert (Hag : agrees w) by (intros p k b; rewrite Hb; discriminate).
    assert (Hall : forall e, In e items -> lookup (rem w) (fst e) (snd e) <> None).
    { intros e He. unfold items, restore_items in He. apply in_flat_map in He as [k [Hk He]].
      destruct (Hc k Hk) as [r [Er Hd]]. rewrite Er in He. destruct He as [<-|He]; simpl.
      - rewrite Er. discriminate.
      - apply in_map_iff in He as [d [<- Hin]]. simpl. apply Hd; exact Hin. }
    destruct (B_reads items w Hag Hr Hl Hall) as (I1 & I2 & I3 & _).
    split; [exact I1|]. split; [|exact I2].
    intros e He. specialize (Hall e He). specialize (I3 e He).
    destruct (lookup (rem w) (fst e) (snd e)) as [b|] eqn:E; [|congruence].
    exists b. split; [reflexivity | exact I3].
  Qed.
End Restore.

(* ---- no dangling references after a publish through the wrapper *)
Lemma lookup_In m : forall p k b, lookup m p k = Some b -> In ((p, k), b) m.
Proof.
  induction m as [|[[p' k'] b'] m IH]; intros p k b Hl; simpl in Hl; [discriminate|].
  destruct (pk_eqb p k (p', k')) eqn:E.
  - apply pk_eqb_eq in E as [-> ->]. inversion Hl; subst. left; reflexivity.
  - right. apply IH; exact Hl.
Qed.


(* [same_rs w w']: the remote and the stored-memos are untouched.  [ext w w']: the remote's blobs only
   grow, and every digest newly remembered as stored is in the remote. *)
Definition same_rs (w w' : world) : Prop := rem w' = rem w /\ wstored w' = wstored w.

Definition ext (w w' : world) : Prop :=
  (forall d, lookup (rem w) PCas d <> None -> lookup (rem w') PCas d <> None) /\
  (forall m d, In d (wstored w' m Wrapped) -> In d (wstored w m Wrapped) \/ lookup (rem w') PCas d <> None).

Definition stored_sound (w : world) (m : machine) : Prop :=
  forall d, In d (wstored w m Wrapped) -> lookup (rem w) PCas d <> None.

Lemma stored_in_remote_sound w m : stored_in_remote w m = true <-> stored_sound w m.
Proof.
  unfold stored_in_remote, stored_sound. rewrite forallb_forall.
  split; intros Hs d Hd; specialize (Hs d Hd); destruct (lookup (rem w) PCas d); simpl in *; congruence.
Qed.

Lemma same_rs_refl w : same_rs w w.
Proof. split; reflexivity. Qed.

Lemma same_rs_trans a b c : same_rs a b -> same_rs b c -> same_rs a c.
Proof. intros [A1 A2] [B1 B2]. split; congruence. Qed.

Lemma same_rs_ext w w' : same_rs w w' -> ext w w'.
Proof.
  intros [Hr Hs]. split.
  - intros d Hd. rewrite Hr. exact Hd.
  - intros m d Hd. rewrite Hs in Hd. left; exact Hd.
Qed.

Lemma ext_refl w : ext w w.
Proof. apply same_rs_ext, same_rs_refl. Qed.

Lemma ext_trans a b c : ext a b -> ext b c -> ext a c.
Proof.
  intros [A1 A2] [B1 B2]. split.
  - intros d Hd. apply B1, A1, Hd.
  - intros m d Hd. destruct (B2 m d Hd) as [Hb|Hc]; [|right; exact Hc].
    destruct (A2 m d Hb) as [Ha|Hr]; [left; exact Ha | right; apply B1, Hr].
Qed.

Lemma ext_sound w w' m : ext w w' -> stored_sound w m -> stored_sound w' m.
Proof.
  intros [E1 E2] Hs d Hd. destruct (E2 m d Hd) as [Hin|Hr]; [apply E1, Hs, Hin | exact Hr].
Qed.

Lemma ext_add_wmemo w w1 m md d : ext w w1 -> ext w (add_wmemo w1 m md d).
Proof. intros [A B]. split; [exact A | exact B]. Qed.

Lemma ext_add_wstored w w1 m md d :
  ext w w1 -> (md = Wrapped -> lookup (rem w1) PCas d <> None) -> ext w (add_wstored w1 m md d).
Proof.
  intros [Hm Hs] Hd. split.
  - intros d' H. cbn [rem add_wstored]. apply Hm, H.
  - intros m' d'. cbn [wstored add_wstored rem]. destruct md; cbn [mode_eqb].
    + rewrite andb_false_r. apply Hs.
    + rewrite andb_true_r. destruct (machine_eqb m' m).
      * intros [<-|H]; [right; apply Hd; reflexivity | apply Hs; exact H].
      * apply Hs.
Qed.

(* ---- the primitives that leave the remote and the stored-memos alone *)
Lemma r_head_same_rs w p k : same_rs w (snd (r_head w p k)).
Proof. unfold r_head, next_rf. destruct (hd FNone (rfl w)); split; reflexivity. Qed.

Lemma r_get_same_rs w p k : same_rs w (snd (r_get w p k)).
Proof. unfold r_get, next_rf. destruct (hd FNone (rfl w)); split; reflexivity. Qed.

Lemma fs_set_same_rs w m p k b : same_rs w (snd (fs_set w m p k b)).
Proof. unfold fs_set, next_lf. destruct (hd LOk (lfl w)); destruct m; split; reflexivity. Qed.

Lemma w_get_same_rs w m p k : same_rs w (snd (w_get w m p k)).
Proof.
  unfold w_get. destruct (lookup (loc w m) p k) as [b0|]; [apply same_rs_refl|].
  pose proof (r_get_same_rs w p k) as H1. destruct (r_get w p k) as [r w1]. cbn [snd] in H1.
  destruct r; try exact H1.
  pose proof (fs_set_same_rs w1 m p k b) as H2. destruct (fs_set w1 m p k b) as [r2 w2]. cbn [snd] in H2.
  destruct r2; cbn [snd]; exact (same_rs_trans _ _ _ H1 H2).
Qed.

Lemma w_exists_same_rs w m p k : same_rs w (snd (w_exists w m p k)).
Proof.
  unfold w_exists. destruct (is_some (lookup (loc w m) p k)); [apply same_rs_refl | apply r_head_same_rs].
Qed.

Lemma w_exists_all_same_rs w m p k : same_rs w (snd (w_exists_all w m p k)).
Proof.
  unfold w_exists_all. destruct (is_some (lookup (loc w m) p k)); [apply r_head_same_rs | apply same_rs_refl].
Qed.

(* ExistsEverywhere answers true only for a key the remote holds *)
Lemma w_exists_all_true w m p k : fst (w_exists_all w m p k) = RTrue -> lookup (rem w) p k <> None.
Proof.
  unfold w_exists_all. destruct (is_some (lookup (loc w m) p k)); [|discriminate].
  unfold r_head, next_rf. destruct (hd FNone (rfl w)); cbn -[lookup]; try discriminate.
  destruct (lookup (rem w) p k); cbn [is_some]; [intros _; discriminate | discriminate].
Qed.

Lemma b_get_same_rs w m md p k : same_rs w (snd (b_get w m md p k)).
Proof. destruct md; [apply same_rs_refl | apply w_get_same_rs]. Qed.

Lemma b_exists_same_rs w m md p k : same_rs w (snd (b_exists w m md p k)).
Proof. destruct md; [apply same_rs_refl | apply w_exists_same_rs]. Qed.

Lemma cas_exists_same_rs w m md d : same_rs w (snd (cas_exists w m md d)).
Proof.
  unfold cas_exists. destruct (str_in d (wmemo w m md)); [apply same_rs_refl|].
  pose proof (b_exists_same_rs w m md PCas d) as [H1 H2].
  destruct (b_exists w m md PCas d) as [r w1]. cbn [snd] in *.
  destruct r; split; assumption.
Qed.

(* ---- Set: the stored-memos are untouched, the remote keeps what it has and, when Set returns ok, holds the entry *)
Lemma w_set_spec w m p k b :
  wstored (snd (w_set w m p k b)) = wstored w /\
  (rem (snd (w_set w m p k b)) = rem w \/ rem (snd (w_set w m p k b)) = upd (rem w) p k b) /\
  (fst (w_set w m p k b) = ROk -> rem (snd (w_set w m p k b)) = upd (rem w) p k b).
Proof.
  unfold w_set, next_lf, next_rf. cbn -[upd lookup null].
  destruct (hd LOk (lfl w)); destruct (hd FNone (rfl w)); destruct (null b); destruct m;
    cbn -[upd lookup]; (split; [reflexivity|]); (split; [auto|]); try discriminate; intros _; reflexivity.
Qed.

Lemma upd_keeps m p k b p' k' : lookup m p' k' <> None -> lookup (upd m p k b) p' k' <> None.
Proof. intro H. rewrite lookup_upd. destruct (pk_eqb p' k' (p, k)); [discriminate | exact H]. Qed.

Lemma b_set_spec w m md p k b :
  wstored (snd (b_set w m md p k b)) = wstored w /\
  (forall p' k', lookup (rem w) p' k' <> None -> lookup (rem (snd (b_set w m md p k b))) p' k' <> None) /\
  (fst (b_set w m md p k b) = ROk -> md = Wrapped -> lookup (rem (snd (b_set w m md p k b))) p k = Some b).
Proof.
  destruct md; cbn [b_set].
  - destruct (fs_set_same_rs w m p k b) as [Hr Hs]. split; [exact Hs|]. split.
    + intros p' k' H. rewrite Hr. exact H.
    + intros _ Hmd. discriminate.
  - destruct (w_set_spec w m p k b) as (Hs & Hr & Hok). split; [exact Hs|]. split.
    + intros p' k' H. destruct Hr as [-> | ->]; [exact H | apply upd_keeps, H].
    + intros E _. rewrite (Hok E). apply lookup_upd_same.
Qed.

Lemma b_set_ext w m md p k b : ext w (snd (b_set w m md p k b)).
Proof.
  destruct (b_set_spec w m md p k b) as (Hs & Hm & _). split.
  - intros d Hd. apply Hm, Hd.
  - intros m' d Hd. rewrite Hs in Hd. left; exact Hd.
Qed.

(* ---- caching.Cas *)
Lemma cas_stored_spec w m md d :
  ext w (snd (cas_stored w m md d)) /\
  (fst (cas_stored w m md d) = true -> md = Wrapped ->
   In d (wstored w m Wrapped) \/ lookup (rem w) PCas d <> None).
Proof.
  unfold cas_stored. destruct (str_in d (wstored w m md)) eqn:Em.
  - cbn [fst snd]. split; [apply ext_refl|]. intros _ ->. left. apply str_in_spec; exact Em.
  - destruct md.
    + pose proof (cas_exists_same_rs w m Local d) as HS.
      destruct (cas_exists w m Local d) as [r w1]. cbn [snd] in HS. apply same_rs_ext in HS.
      destruct r; cbn [fst snd]; (split; [|intros _ Hmd; discriminate]); try exact HS.
      apply ext_add_wstored; [exact HS | intro Hmd; discriminate].
    + pose proof (w_exists_all_same_rs w m PCas d) as HS. pose proof (w_exists_all_true w m PCas d) as HT.
      destruct (w_exists_all w m PCas d) as [r w1]. cbn [fst snd] in HS, HT.
      assert (Hrem : rem w1 = rem w) by (destruct HS; assumption). apply same_rs_ext in HS.
      destruct r; cbn [fst snd]; (split; [|intros E _; try discriminate]); try exact HS.
      * apply ext_add_wstored; [exact HS | intros _; rewrite Hrem; apply HT; reflexivity].
      * right. apply HT; reflexivity.
Qed.

Lemma cas_write_spec w m md d b :
  ext w (snd (cas_write w m md d b)) /\
  (fst (cas_write w m md d b) = ROk -> md = Wrapped -> stored_sound w m ->
   lookup (rem (snd (cas_write w m md d b))) PCas d <> None).
Proof.
  unfold cas_write. pose proof (cas_stored_spec w m md d) as [E1 T1].
  destruct (cas_stored w m md d) as [s w1]. cbn [fst snd] in E1, T1. destruct s.
  - cbn [fst snd]. split; [exact E1|]. intros _ Hmd Hs.
    destruct E1 as [Em _]. destruct (T1 eq_refl Hmd) as [Hin|Hr]; apply Em; [apply Hs, Hin | exact Hr].
  - pose proof (b_set_ext w1 m md PCas d b) as E2. pose proof (b_set_spec w1 m md PCas d b) as (_ & _ & Hok).
    destruct (b_set w1 m md PCas d b) as [r2 w2]. cbn [fst snd] in E2, Hok.
    pose proof (ext_trans _ _ _ E1 E2) as E12.
    destruct r2; cbn [fst snd]; (split; [|intros E Hmd _; try discriminate]); try exact E12.
    + apply ext_add_wstored; [apply ext_add_wmemo; exact E12|].
      intro Hmd. cbn [rem add_wmemo]. rewrite (Hok eq_refl Hmd). discriminate.
    + cbn [rem add_wstored add_wmemo]. rewrite (Hok eq_refl Hmd). discriminate.
Qed.

(* ---- every op but a delete keeps "remembered as stored => in the remote", for the memos of both machines *)
Lemma reset_ext w m : ext w (reset_memo w m).
Proof.
  split.
  - intros d Hd. exact Hd.
  - intros m' d. cbn [wstored reset_memo]. destruct (machine_eqb m' m); [intros [] | intro Hd; left; exact Hd].
Qed.

Lemma do_op_ext w o : is_delete o = false -> ext w (snd (do_op w o)).
Proof.
  destruct o as [m md a | m]; [|intros _; apply reset_ext].
  destruct a as [p k | p k b | p k | p k | d b | d]; cbn [is_delete do_op]; intro Hd; try discriminate.
  - apply same_rs_ext, b_get_same_rs.
  - apply b_set_ext.
  - apply same_rs_ext, b_exists_same_rs.
  - apply cas_write_spec.
  - apply same_rs_ext, cas_exists_same_rs.
Qed.

Lemma run_ops_ext ops : forall w,
  forallb (fun o => negb (is_delete o)) ops = true -> ext w (snd (run_ops w ops)).
Proof.
  induction ops as [|o ops IH]; intros w Hnd; cbn [run_ops].
  - apply ext_refl.
  - cbn [forallb] in Hnd. apply andb_true_iff in Hnd as [Ho Hr]. apply negb_true_iff in Ho.
    pose proof (do_op_ext w o Ho) as E1. destruct (do_op w o) as [x w1]. cbn [snd] in E1.
    specialize (IH w1 Hr). destruct (run_ops w1 ops) as [xs w2]. cbn [snd] in *.
    exact (ext_trans _ _ _ E1 IH).
Qed.

(* the guard of no_dangling is an invariant of delete-free histories (grog deletes nothing during a build) *)
Theorem stored_in_remote_invariant ops w m :
  forallb (fun o => negb (is_delete o)) ops = true ->
  stored_in_remote w m = true -> stored_in_remote (snd (run_ops w ops)) m = true.
Proof.
  intros Hnd Hs. apply stored_in_remote_sound. apply stored_in_remote_sound in Hs.
  exact (ext_sound _ _ m (run_ops_ext ops w Hnd) Hs).
Qed.

Lemma machine_eqb_refl m : machine_eqb m m = true.
Proof. destruct m; reflexivity. Qed.

(* ... and it holds for a new process, whatever the stores contain *)
Lemma stored_in_remote_reset w m : stored_in_remote (reset_memo w m) m = true.
Proof. unfold stored_in_remote. cbn [wstored reset_memo]. rewrite machine_eqb_refl. reflexivity. Qed.

Section Dangling.
  Variable refs : bytes -> list key.

  (* the claim for one publish: the process on machine m writes the blobs, then the result that references
     them; if every call returns ok, the remote holds the result and every referenced blob *)
  Definition no_dangling_at (w : world) (m : machine) (blobs : list (key * bytes)) (k : key) (r : bytes) : Prop :=
    (forall d, In d (refs r) -> In d (map fst blobs)) ->
    forallb is_ok (fst (run_ops w (publish m blobs k r))) = true ->
    lookup (rem (snd (run_ops w (publish m blobs k r)))) PTarget k = Some r /\
    forall d, In d (refs r) -> lookup (rem (snd (run_ops w (publish m blobs k r)))) PCas d <> None.

  Lemma publish_ok m k r blobs : forall w,
    stored_sound w m ->
    forallb is_ok (fst (run_ops w (publish m blobs k r))) = true ->
    lookup (rem (snd (run_ops w (publish m blobs k r)))) PTarget k = Some r /\
    (forall d, In d (map fst blobs) -> lookup (rem (snd (run_ops w (publish m blobs k r)))) PCas d <> None) /\
    (forall d, lookup (rem w) PCas d <> None -> lookup (rem (snd (run_ops w (publish m blobs k r)))) PCas d <> None).
  Proof.
    unfold publish. induction blobs as [|[d b] blobs IH]; intros w HS Hok.
    - cbn [map app run_ops do_op] in *.
      pose proof (b_set_spec w m Wrapped PTarget k r) as (_ & Hm & Hset).
      destruct (b_set w m Wrapped PTarget k r) as [x w1]. cbn [fst snd forallb] in *.
      destruct x; try discriminate.
      split; [apply Hset; reflexivity|]. split; [intros d []|].
      intros d Hd. apply Hm, Hd.
    - cbn [map app run_ops do_op fst snd] in *.
      pose proof (cas_write_spec w m Wrapped d b) as [E1 T1].
      destruct (cas_write w m Wrapped d b) as [x w1].
      destruct (run_ops w1 (map (fun e => Do m Wrapped (ACasWrite (fst e) (snd e))) blobs ++
                            [Do m Wrapped (ASet PTarget k r)])) as [xs w2] eqn:Er.
      cbn [fst snd forallb] in *. apply andb_true_iff in Hok as [Hx Hxs].
      destruct x; try discriminate.
      pose proof (ext_sound _ _ m E1 HS) as HS1.
      pose proof (T1 eq_refl eq_refl HS) as Hd1. destruct E1 as [Hmono1 _].
      specialize (IH w1 HS1). rewrite Er in IH. cbn [fst snd] in IH.
      destruct (IH Hxs) as (I1 & I2 & I3).
      split; [exact I1|]. split.
      + intros d' [<-|Hin]; [apply I3; exact Hd1 | apply I2; exact Hin].
      + intros d' Hd'. apply I3, Hmono1, Hd'.
  Qed.

  (* for every world (whatever the local caches and the remote hold), machine, blob list and fault lists *)
  Theorem no_dangling w m blobs k r :
    stored_in_remote w m = true -> no_dangling_at w m blobs k r.
  Proof.
    intros Hg Hrefs Hok. apply stored_in_remote_sound in Hg.
    destruct (publish_ok m k r blobs w Hg Hok) as (I1 & I2 & _).
    split; [exact I1|]. intros d Hd. apply I2, Hrefs, Hd.
  Qed.

  (* a new process (empty memo) *)
  Corollary no_dangling_new_process w m blobs k r :
    wstored w m Wrapped = [] -> no_dangling_at w m blobs k r.
  Proof. intro Hm. apply no_dangling. unfold stored_in_remote. rewrite Hm. reflexivity. Qed.

  (* a process that started at any point of a delete-free history before the publish *)
  Corollary no_dangling_after_history w m ops blobs k r :
    forallb (fun o => negb (is_delete o)) ops = true ->
    no_dangling_at (snd (run_ops (reset_memo w m) ops)) m blobs k r.
  Proof.
    intro Hnd. apply no_dangling. apply stored_in_remote_invariant; [exact Hnd | apply stored_in_remote_reset].
  Qed.
End Dangling.

(* the history that used to leave a dangling reference: the blob is in A's local cache (an earlier build
   without the remote), the remote is empty; a result is "the digest it references" *)
Definition wit_d : key := ["d"]%char.
Definition wit_x : bytes := ["x"]%char.
Definition wit_k : key := ["k"]%char.
Definition wit_world : world :=
  mkW [((PCas, wit_d), wit_x)] [] [] (fun _ _ => []) (fun _ _ => []) [] [].
Definition wit_refs (r : bytes) : list key := [r].

(* ... now uploads the blob: both calls return ok and the remote ends with the result and the blob *)
Lemma repaired_trace :
  lookup (locA wit_world) PCas wit_d = Some wit_x /\ rem wit_world = [] /\
  stored_in_remote wit_world MA = true /\
  map fst (run_trace wit_world (publish MA [(wit_d, wit_x)] wit_k wit_d)) = [ROk; ROk] /\
  rem (snd (run_ops wit_world (publish MA [(wit_d, wit_x)] wit_k wit_d)))
  = [((PTarget, wit_k), wit_d); ((PCas, wit_d), wit_x)].
Proof. vm_compute. repeat split. Qed.

(* the guard cannot be dropped: a process that remembers a digest as stored which the remote does not hold
   (it was deleted from the remote after the process had seen it) skips the upload *)
Definition stale_world : world :=
  mkW [((PCas, wit_d), wit_x)] [] [] (fun _ _ => [])
      (fun m md => match m, md with MA, Wrapped => [wit_d] | _, _ => [] end) [] [].

Theorem stored_guard_needed :
  exists w m blobs k r, stored_in_remote w m = false /\ ~ no_dangling_at wit_refs w m blobs k r.
Proof.
  exists stale_world, MA, [(wit_d, wit_x)], wit_k, wit_d. split; [reflexivity|]. intro Hc.
  assert (P2 : forall d, In d (wit_refs wit_d) -> In d (map fst [(wit_d, wit_x)])) by (intros d Hd; exact Hd).
  assert (P3 : forallb is_ok (fst (run_ops stale_world (publish MA [(wit_d, wit_x)] wit_k wit_d))) = true)
    by (vm_compute; reflexivity).
  destruct (Hc P2 P3) as [_ Hd]. apply (Hd wit_d (or_introl eq_refl)). vm_compute. reflexivity.
Qed.

(* ... and such a memo only arises through a delete: the history  A writes the blob ; the blob is deleted from
   the remote ; A (same process) publishes  *)
Lemma stale_history :
  let ops := [Do MA Wrapped (ACasWrite wit_d wit_x); Do MB Wrapped (ADelete PCas wit_d)] in
  let w := snd (run_ops (empty_world [] []) ops) in
  forallb (fun o => negb (is_delete o)) ops = false /\ stored_in_remote w MA = false /\
  map fst (run_trace w (publish MA [(wit_d, wit_x)] wit_k wit_d)) = [ROk; ROk] /\
  rem (snd (run_ops w (publish MA [(wit_d, wit_x)] wit_k wit_d))) = [((PTarget, wit_k), wit_d)].
Proof. vm_compute. repeat split. Qed.

(* non-vacuity of no_dangling and of the restore theorem on the formerly failing history: machine A, blob in
   its local cache only, publishes; B restores with two hits *)
Lemma no_dangling_nonvacuous :
  let out := run_ops wit_world (publish MA [(wit_d, wit_x)] wit_k wit_d) in
  stored_in_remote wit_world MA = true /\ forallb is_ok (fst out) = true /\
  remote_complete wit_refs (snd out) [wit_k] /\ locB (snd out) = [] /\
  fst (run_ops (snd out) (get_ops (restore_items wit_refs (snd out) [wit_k]))) = [RHit wit_d; RHit wit_x].
Proof.
  cbv zeta. split; [reflexivity|]. split; [vm_compute; reflexivity|]. split.
  - intros k [<-|[]]. exists wit_d. split; [vm_compute; reflexivity|].
    intros d [<-|[]]. vm_compute. discriminate.
  - split; vm_compute; reflexivity.
Qed.

(* a fault example: B's first remote Get fails, the second one is answered "not found" *)
Lemma degrade_example :
  let w := mkW [] [] [((PCas, wit_d), wit_x)] (fun _ _ => []) (fun _ _ => []) [FFail; FNotFound] [] in
  map fst (run_trace w [Do MB Wrapped (AGet PCas wit_d); Do MB Wrapped (AGet PCas wit_d); Do MB Wrapped (AGet PCas wit_d)])
  = [RErr; RMiss; RHit wit_x].
Proof. vm_compute. reflexivity. Qed.

(* the other way a blob becomes local-only: the remote Put of a tee'd Set fails after the local rename
   succeeded (the write returns an error, the build fails); the next process publishes again and uploads it *)
Lemma put_fault_then_retry :
  let w0 := empty_world [FFail] [] in
  let w1 := snd (run_ops w0 [Do MA Wrapped (ACasWrite wit_d wit_x)]) in
  fst (run_ops w0 [Do MA Wrapped (ACasWrite wit_d wit_x)]) = [RErr] /\
  lookup (locA w1) PCas wit_d = Some wit_x /\ rem w1 = [] /\
  let out := run_ops (reset_memo w1 MA) (publish MA [(wit_d, wit_x)] wit_k wit_d) in
  fst out = [ROk; ROk] /\ rem (snd out) = [((PTarget, wit_k), wit_d); ((PCas, wit_d), wit_x)].
Proof. vm_compute. repeat split. Qed.
