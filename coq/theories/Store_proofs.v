(* Store_proofs.v -- proofs about Store.v (C07: crash/fault consistency of the local back end;
   C08: RemoteWrapper as a mirror). *)
From Grog Require Import Str Store.

(* ------------------------------------------------------------------ key spaces *)
Lemma path_eqb_eq a b : path_eqb a b = true <-> a = b.
Proof. destruct a, b; simpl; split; intro E; try reflexivity; try discriminate. Qed.

Lemma pk_eqb_eq p k p' k' : pk_eqb p k (p', k') = true <-> p = p' /\ k = k'.
Proof.
  unfold pk_eqb; simpl. rewrite andb_true_iff, path_eqb_eq, str_eqb_eq. tauto.
Qed.

Lemma pk_eqb_refl p k : pk_eqb p k (p, k) = true.
Proof. apply pk_eqb_eq; split; reflexivity. Qed.

Lemma pk_eqb_neq p k p' k' : (p <> p' \/ k <> k') -> pk_eqb p k (p', k') = false.
Proof.
  intro Hn. destruct (pk_eqb p k (p', k')) eqn:E; [|reflexivity].
  apply pk_eqb_eq in E as [-> ->]. destruct Hn as [Hn|Hn]; congruence.
Qed.

Lemma lookup_remove_same m p k : lookup (remove m p k) p k = None.
Proof.
  induction m as [|[[p' k'] b] m IH]; simpl; [reflexivity|].
  destruct (pk_eqb p k (p', k')) eqn:E; [exact IH|]. simpl. rewrite E. exact IH.
Qed.

Lemma lookup_remove_other m p k p' k' :
  (p' <> p \/ k' <> k) -> lookup (remove m p k) p' k' = lookup m p' k'.
Proof.
  intro Hn. induction m as [|[[p2 k2] b] m IH]; simpl; [reflexivity|].
  destruct (pk_eqb p k (p2, k2)) eqn:E.
  - apply pk_eqb_eq in E as [<- <-]. rewrite (pk_eqb_neq p' k' p k Hn). exact IH.
  - simpl. destruct (pk_eqb p' k' (p2, k2)); [reflexivity | exact IH].
Qed.

Lemma lookup_upd_same m p k b : lookup (upd m p k b) p k = Some b.
Proof. unfold upd; simpl. rewrite pk_eqb_refl. reflexivity. Qed.

Lemma lookup_upd_other m p k b p' k' :
  (p' <> p \/ k' <> k) -> lookup (upd m p k b) p' k' = lookup m p' k'.
Proof.
  intro Hn. unfold upd; simpl. rewrite (pk_eqb_neq p' k' p k Hn). apply lookup_remove_other; exact Hn.
Qed.

Lemma pk_dec (p p' : path) (k k' : key) : (p' = p /\ k' = k) \/ (p' <> p \/ k' <> k).
Proof.
  destruct (pk_eqb p' k' (p, k)) eqn:E.
  - left. apply pk_eqb_eq; exact E.
  - right. destruct (path_eqb p' p) eqn:E1.
    + right. intro Hk; subst. apply path_eqb_eq in E1; subst.
      rewrite pk_eqb_refl in E; discriminate.
    + left. intro Hp; subst. destruct p; discriminate.
Qed.

Lemma lookup_upd m p k b p' k' :
  lookup (upd m p k b) p' k' = if pk_eqb p' k' (p, k) then Some b else lookup m p' k'.
Proof.
  destruct (pk_dec p p' k k') as [[-> ->]|Hn].
  - rewrite pk_eqb_refl. apply lookup_upd_same.
  - rewrite (pk_eqb_neq _ _ _ _ Hn). apply lookup_upd_other; exact Hn.
Qed.

Lemma lookup_remove m p k p' k' :
  lookup (remove m p k) p' k' = if pk_eqb p' k' (p, k) then None else lookup m p' k'.
Proof.
  destruct (pk_dec p p' k k') as [[-> ->]|Hn].
  - rewrite pk_eqb_refl. apply lookup_remove_same.
  - rewrite (pk_eqb_neq _ _ _ _ Hn). apply lookup_remove_other; exact Hn.
Qed.

(* ================================================================== Layer 1 *)
Lemma fupd_same {A} (f : tid -> A) t v : fupd f t v t = v.
Proof. unfold fupd. rewrite Nat.eqb_refl. reflexivity. Qed.

Lemma fupd_other {A} (f : tid -> A) t v u : u <> t -> fupd f t v u = f u.
Proof. intro Hn. unfold fupd. apply Nat.eqb_neq in Hn. rewrite Hn. reflexivity. Qed.

Definition is_rename (k : skind) : bool := match k with KRename _ _ => true | _ => false end.

(* temp files are never visible: only a Rename changes what is visible *)
Lemma exec_vis_non_rename st x f : is_rename (s_kind x) = false -> vis (exec st x f) = vis st.
Proof.
  intro Hk. unfold exec. destruct (s_kind x); simpl in Hk; try discriminate;
    repeat match goal with |- context [if ?c then _ else _] => destruct c end; reflexivity.
Qed.

Lemma run_vis_non_rename l : forall st fl,
  Forall (fun x => is_rename (s_kind x) = false) l -> vis (run_store st l fl) = vis st.
Proof.
  induction l as [|x l IH]; intros st fl Hf; simpl; [reflexivity|].
  inversion Hf; subst. rewrite IH by assumption. apply exec_vis_non_rename; assumption.
Qed.

Lemma run_app l1 : forall l2 st fl,
  run_store st (l1 ++ l2) fl = run_store (run_store st l1 fl) l2 (skipn (length l1) fl).
Proof.
  induction l1 as [|x l1 IH]; intros l2 st fl; simpl; [reflexivity|].
  rewrite IH. destruct fl; simpl; [rewrite skipn_nil|]; reflexivity.
Qed.

(* a thread's registers are only touched by its own steps *)
Lemma exec_other st x f u :
  u <> s_tid x ->
  tmp (exec st x f) u = tmp st u /\ skipping (exec st x f) u = skipping st u /\ dead (exec st x f) u = dead st u.
Proof.
  intro Hn. unfold exec. destruct (s_kind x); simpl;
    repeat match goal with
           | |- context [if ?c then _ else _] => destruct c; simpl
           | |- context [match ?c with Some _ => _ | None => _ end] => destruct c; simpl
           end; rewrite ?fupd_other by exact Hn; auto.
Qed.

Lemma exec_dead_stays st x f t : dead st t = true -> dead (exec st x f) t = true.
Proof.
  intro Hd. destruct (Nat.eq_dec t (s_tid x)) as [->|Hn].
  - unfold exec, active. destruct (s_kind x); simpl; rewrite ?Hd; simpl; try exact Hd.
    destruct f; simpl; exact Hd.
  - destruct (exec_other st x f t Hn) as (_ & _ & ->). exact Hd.
Qed.

Section L1.
  Variable H : bytes -> key.
  Variable refs : bytes -> list key.

  Definition rename_ok (have : key -> Prop) (p : path) (k : key) (b : bytes) : Prop :=
    match p with
    | PCas => H b = k
    | PTarget => forall d, In d (refs b) -> have d
    | PTaint => True
    end.

  Definition have_add (p : path) (k : key) (have : key -> Prop) : key -> Prop :=
    fun d => (p = PCas /\ d = k) \/ have d.

  (* what the rest of a thread's step list needs, given its registers (sk, tm) and the digests known
     to be visible (have); every outcome of a check and of a deferred remove is covered *)
  Fixpoint all_ok (sk : bool) (tm : option bytes) (have : key -> Prop) (l : list skind) : Prop :=
    match l with
    | [] => True
    | k :: l' =>
        match k with
        | KCheck d => all_ok false tm have l' /\ all_ok true tm (have_add PCas d have) l'
        | KMkdir => all_ok sk tm have l'
        | KClose => all_ok sk tm have l'
        | KCreate => all_ok sk (if sk then tm else Some []) have l'
        | KWrite c => all_ok sk (if sk then tm else option_map (fun b => b ++ c) tm) have l'
        | KRename p key =>
            if sk then all_ok sk tm have l'
            else match tm with
                 | None => True
                 | Some b => rename_ok have p key b /\ all_ok false None (have_add p key have) l'
                 end
        | KRemove => all_ok false None have l' /\ all_ok false tm have l'
        | KMemo d => (sk = false -> have d) /\ all_ok sk tm have l'
        end
    end.

  Lemma rename_ok_mono (have have' : key -> Prop) p k b :
    (forall d, have d -> have' d) -> rename_ok have p k b -> rename_ok have' p k b.
  Proof. intros Hm. destruct p; simpl; auto. Qed.

  Lemma have_add_mono (have have' : key -> Prop) p k :
    (forall d, have d -> have' d) -> forall d, have_add p k have d -> have_add p k have' d.
  Proof. intros Hm d [Hd|Hd]; [left; exact Hd | right; auto]. Qed.

  Lemma all_ok_mono l : forall sk tm (have have' : key -> Prop),
    (forall d, have d -> have' d) -> all_ok sk tm have l -> all_ok sk tm have' l.
  Proof.
    induction l as [|k l IH]; intros sk tm have have' Hm Hok; simpl in *; [exact I|].
    destruct k.
    - destruct Hok as [H1 H2]. split; [eapply IH; eauto|].
      eapply IH; [|exact H2]. apply have_add_mono; exact Hm.
    - eapply IH; eauto.
    - eapply IH; eauto.
    - eapply IH; eauto.
    - eapply IH; eauto.
    - destruct sk; [eapply IH; eauto|]. destruct tm as [b|]; [|exact I].
      destruct Hok as [H1 H2]. split; [eapply rename_ok_mono; eauto|].
      eapply IH; [|exact H2]. apply have_add_mono; exact Hm.
    - destruct Hok as [H1 H2]. split; eapply IH; eauto.
    - destruct Hok as [H1 H2]. split; [intro E; auto | eapply IH; eauto].
  Qed.

  Definition have_of (st : state) : key -> Prop := fun d => visible st PCas d <> None.

  Definition thread_ok (st : state) (t : tid) (l : list step) : Prop :=
    Forall (fun y => s_tid y = t) l /\
    (dead st t = false -> all_ok (skipping st t) (tmp st t) (have_of st) (map s_kind l)).

  Definition Good (st : state) (ls : list (list step)) : Prop :=
    Inv H refs st /\ memo_sound st /\
    forall i l, nth_error ls i = Some l -> thread_ok st i l.

  (* blobs are only ever added *)
  Lemma exec_cas_mono st x f d : have_of st d -> have_of (exec st x f) d.
  Proof.
    unfold have_of, visible. intro Hv.
    destruct (is_rename (s_kind x)) eqn:Er; [|rewrite exec_vis_non_rename by exact Er; exact Hv].
    unfold exec. destruct (s_kind x) as [| | | | |p k| |]; simpl in Er; try discriminate.
    destruct (active st (s_tid x)); [|exact Hv].
    destruct f; [exact Hv|].
    destruct (tmp st (s_tid x)) as [b|]; [|exact Hv]. simpl.
    rewrite lookup_upd. destruct (pk_eqb PCas d (p, k)); [discriminate | exact Hv].
  Qed.

  (* stability: a step of another thread keeps thread u's obligations *)
  Lemma thread_ok_stable st x f u l :
    u <> s_tid x -> thread_ok st u l -> thread_ok (exec st x f) u l.
  Proof.
    intros Hn [Ht Hok]. split; [exact Ht|].
    destruct (exec_other st x f u Hn) as (-> & -> & ->). intro Hd.
    eapply all_ok_mono; [|exact (Hok Hd)]. intros d. apply exec_cas_mono.
  Qed.

  Lemma inv_non_rename st x f :
    is_rename (s_kind x) = false -> Inv H refs st -> Inv H refs (exec st x f).
  Proof.
    intros Hk [I1 I2]. unfold Inv, visible in *. rewrite (exec_vis_non_rename st x f Hk). split; assumption.
  Qed.

  Lemma visible_set_tmp st t v p k : visible (set_tmp st t v) p k = visible st p k.
  Proof. reflexivity. Qed.

  (* the step of thread t itself *)
  Lemma own_step st x f l :
    Inv H refs st -> memo_sound st -> thread_ok st (s_tid x) (x :: l) ->
    Inv H refs (exec st x f) /\ memo_sound (exec st x f) /\ thread_ok (exec st x f) (s_tid x) l.
  Proof.
    intros HI Hm [Ht Hok]. set (t := s_tid x) in *.
    assert (Htl : Forall (fun y => s_tid y = t) l) by (inversion Ht; assumption).
    destruct (dead st t) eqn:Hd.
    { (* the thread already returned an error: nothing but the deferred remove has an effect *)
      assert (Hd' : dead (exec st x f) t = true) by (apply exec_dead_stays; exact Hd).
      assert (Hv : vis (exec st x f) = vis st /\ memo (exec st x f) = memo st).
      { unfold exec, active. fold t. rewrite Hd. destruct (s_kind x); simpl; auto; destruct f; simpl; auto. }
      destruct Hv as [Hv Hmm].
      split; [|split].
      - destruct HI as [I1 I2]. unfold Inv, visible. rewrite Hv. split; assumption.
      - unfold memo_sound, visible. rewrite Hv, Hmm. exact Hm.
      - split; [exact Htl|]. rewrite Hd'. discriminate. }
    specialize (Hok eq_refl). simpl in Hok.
    unfold exec, active. fold t. rewrite Hd. simpl.
    destruct (s_kind x) as [d| | |c| |p k| |d] eqn:Ek; simpl in Hok.
    - (* KCheck *)
      destruct Hok as [Hno Hyes].
      destruct f.
      + split; [exact HI|]. split; [exact Hm|]. split; [exact Htl|]. intros _. simpl.
        rewrite fupd_same. exact Hno.
      + destruct (known st d) eqn:Hk.
        * assert (Hvd : have_of st d).
          { unfold known in Hk. apply orb_true_iff in Hk as [Hk|Hk].
            - apply str_in_spec in Hk. apply Hm; exact Hk.
            - unfold have_of. destruct (visible st PCas d); [discriminate | discriminate]. }
          split; [exact HI|]. split.
          { intros d' [<-|Hin]; [exact Hvd | apply Hm; exact Hin]. }
          split; [exact Htl|]. intros _. simpl. rewrite fupd_same.
          eapply all_ok_mono; [|exact Hyes]. intros d' [[_ ->]|Hh]; [exact Hvd | exact Hh].
        * split; [exact HI|]. split; [exact Hm|]. split; [exact Htl|]. intros _. simpl.
          rewrite fupd_same. exact Hno.
    - (* KMkdir *)
      destruct (skipping st t) eqn:Hs; simpl.
      + split; [exact HI|]. split; [exact Hm|]. split; [exact Htl|]. intros _. rewrite Hs. exact Hok.
      + destruct f; simpl.
        * split; [exact HI|]. split; [exact Hm|]. split; [exact Htl|]. simpl. rewrite fupd_same. discriminate.
        * split; [exact HI|]. split; [exact Hm|]. split; [exact Htl|]. intros _. rewrite Hs. exact Hok.
    - (* KCreate *)
      destruct (skipping st t) eqn:Hs; simpl.
      + split; [exact HI|]. split; [exact Hm|]. split; [exact Htl|]. intros _. rewrite Hs. exact Hok.
      + destruct f; simpl.
        * split; [exact HI|]. split; [exact Hm|]. split; [exact Htl|]. simpl. rewrite fupd_same. discriminate.
        * split; [exact HI|]. split; [exact Hm|]. split; [exact Htl|]. intros _. simpl.
          rewrite fupd_same, Hs. exact Hok.
    - (* KWrite *)
      destruct (skipping st t) eqn:Hs; simpl.
      + split; [exact HI|]. split; [exact Hm|]. split; [exact Htl|]. intros _. rewrite Hs. exact Hok.
      + destruct f; simpl.
        * split; [exact HI|]. split; [exact Hm|]. split; [exact Htl|]. simpl. rewrite fupd_same. discriminate.
        * split; [exact HI|]. split; [exact Hm|]. split; [exact Htl|]. intros _. simpl.
          rewrite fupd_same, Hs. exact Hok.
    - (* KClose *)
      destruct (skipping st t) eqn:Hs; simpl.
      + split; [exact HI|]. split; [exact Hm|]. split; [exact Htl|]. intros _. rewrite Hs. exact Hok.
      + destruct f; simpl.
        * split; [exact HI|]. split; [exact Hm|]. split; [exact Htl|]. simpl. rewrite fupd_same. discriminate.
        * split; [exact HI|]. split; [exact Hm|]. split; [exact Htl|]. intros _. rewrite Hs. exact Hok.
    - (* KRename *)
      destruct (skipping st t) eqn:Hs; simpl.
      + split; [exact HI|]. split; [exact Hm|]. split; [exact Htl|]. intros _. rewrite Hs. exact Hok.
      + destruct f; simpl.
        * split; [exact HI|]. split; [exact Hm|]. split; [exact Htl|]. simpl. rewrite fupd_same. discriminate.
        * destruct (tmp st t) as [b|] eqn:Etm.
          2:{ split; [exact HI|]. split; [exact Hm|]. split; [exact Htl|]. simpl. rewrite fupd_same. discriminate. }
          destruct Hok as [Hr Hrest]. destruct HI as [I1 I2].
          assert (Hmono : forall d', have_of st d' -> lookup (upd (vis st) p k b) PCas d' <> None).
          { intros d' Hv. rewrite lookup_upd. destruct (pk_eqb PCas d' (p, k)); [discriminate | exact Hv]. }
          split; [|split].
          { unfold Inv, visible; simpl. split.
            - intros d' b'. rewrite lookup_upd. destruct (pk_eqb PCas d' (p, k)) eqn:E.
              + apply pk_eqb_eq in E as [<- <-]. intro Eb; inversion Eb; subst. exact Hr.
              + apply I1.
            - intros k' r. rewrite lookup_upd. destruct (pk_eqb PTarget k' (p, k)) eqn:E.
              + apply pk_eqb_eq in E as [<- <-]. intro Eb; inversion Eb; subst.
                intros d' Hin. apply Hmono. apply Hr; exact Hin.
              + intros Hv d' Hin. apply Hmono. exact (I2 k' r Hv d' Hin). }
          { intros d' Hin. unfold visible; simpl. apply Hmono. apply Hm; exact Hin. }
          split; [exact Htl|]. intros _. simpl. rewrite fupd_same, Hs.
          eapply all_ok_mono; [|exact Hrest].
          intros d' [[-> ->]|Hh]; unfold have_of, visible; simpl.
          { rewrite lookup_upd_same. discriminate. }
          { apply Hmono; exact Hh. }
    - (* KRemove *)
      destruct Hok as [Hnone Hkeep].
      split; [|split].
      + destruct f; exact HI.
      + destruct f; exact Hm.
      + split; [exact Htl|]. intros _. destruct f; simpl; rewrite ?fupd_same.
        * exact Hkeep.
        * exact Hnone.
    - (* KMemo *)
      destruct Hok as [Hh Hrest].
      destruct (skipping st t) eqn:Hs; simpl.
      + split; [exact HI|]. split; [exact Hm|]. split; [exact Htl|]. intros _. rewrite Hs. exact Hrest.
      + split; [exact HI|]. split.
        { intros d' [<-|Hin]; [exact (Hh eq_refl) | apply Hm; exact Hin]. }
        split; [exact Htl|]. intros _. simpl. rewrite Hs. exact Hrest.
  Qed.

  Lemma nth_error_mid {A} (pre : list A) x post : nth_error (pre ++ x :: post) (length pre) = Some x.
  Proof. induction pre; simpl; auto. Qed.

  Lemma nth_error_mid_other {A} (pre : list A) x y post i :
    i <> length pre -> nth_error (pre ++ y :: post) i = nth_error (pre ++ x :: post) i.
  Proof.
    revert i; induction pre as [|a pre IH]; intros i Hn; simpl in *.
    - destruct i; [congruence | reflexivity].
    - destruct i; [reflexivity|]. simpl. apply IH. intro; apply Hn; congruence.
  Qed.

  Lemma good_step st x f pre l post :
    Good st (pre ++ (x :: l) :: post) -> Good (exec st x f) (pre ++ l :: post).
  Proof.
    intros (HI & Hm & Hth).
    assert (Hown : thread_ok st (length pre) (x :: l)) by (apply Hth; apply nth_error_mid).
    assert (Etid : s_tid x = length pre) by (destruct Hown as [Ht _]; inversion Ht; assumption).
    rewrite <- Etid in Hown.
    destruct (own_step st x f l HI Hm Hown) as (HI' & Hm' & Hown').
    split; [exact HI'|]. split; [exact Hm'|].
    intros i l' Hnth. destruct (Nat.eq_dec i (length pre)) as [->|Hn].
    - rewrite nth_error_mid in Hnth. inversion Hnth; subst. rewrite <- Etid. exact Hown'.
    - apply thread_ok_stable; [rewrite Etid; exact Hn|].
      apply Hth. rewrite <- Hnth. apply nth_error_mid_other; exact Hn.
  Qed.

  Lemma good_every_prefix il ls :
    interleaving il ls -> forall st, Good st ls -> forall n faults, Inv H refs (run_store st (firstn n il) faults).
  Proof.
    induction 1 as [ls Hall | x il pre l post Hil IH]; intros st Hg n faults.
    - destruct n; simpl; apply Hg.
    - destruct n; simpl; [apply Hg|].
      apply IH. apply good_step. exact Hg.
  Qed.

  (* ---- well-formed traffic satisfies the obligations *)
  Lemma all_ok_writes_skip cs : forall tm have rest,
    all_ok true tm have rest -> all_ok true tm have (map KWrite cs ++ rest).
  Proof. induction cs as [|c cs IH]; intros; simpl; auto. Qed.

  Lemma all_ok_writes cs : forall b have rest,
    all_ok false (Some (b ++ concat cs)) have rest -> all_ok false (Some b) have (map KWrite cs ++ rest).
  Proof.
    induction cs as [|c cs IH]; intros b have rest Hr; simpl in *.
    - rewrite app_nil_r in Hr. exact Hr.
    - apply IH. rewrite <- app_assoc. exact Hr.
  Qed.

  Lemma have_add_equiv_wf ops : forall (h1 h2 : key -> Prop),
    (forall d, h1 d -> h2 d) -> wf_ops H refs h1 ops -> wf_ops H refs h2 ops.
  Proof.
    induction ops as [|o ops IH]; intros h1 h2 Hm Hw; simpl in *; [exact I|].
    destruct o as [d cs|k cs]; destruct Hw as [Hw1 Hw2]; split; auto.
    - eapply IH; [|exact Hw2]. intros x [->|Hx]; [left; reflexivity | right; auto].
    - eapply IH; eauto.
  Qed.

  Lemma wf_all_ok ops : forall have tm,
    wf_ops H refs have ops -> all_ok false tm have (target_kinds ops).
  Proof.
    induction ops as [|o ops IH]; intros have tm Hw; simpl; [exact I|].
    unfold target_kinds in *. simpl.
    destruct o as [d cs|k cs]; simpl in Hw; destruct Hw as [Hw1 Hw2]; simpl.
    - (* blob *) split.
      + (* the check says "absent" (or fails): Set runs *)
        apply all_ok_writes. simpl. split; [exact Hw1|].
        assert (Hrest : all_ok false None (have_add PCas d have) (concat (map op_kinds ops))).
        { apply IH. eapply have_add_equiv_wf; [|exact Hw2].
          intros x [->|Hx]; [left; split; reflexivity | right; exact Hx]. }
        split; (split; [intros _; left; split; reflexivity | exact Hrest]).
      + (* the check says "present": everything up to the deferred remove is skipped *)
        apply all_ok_writes_skip. simpl.
        assert (Hrest : forall tm', all_ok false tm' (have_add PCas d have) (concat (map op_kinds ops))).
        { intro tm'. apply IH. eapply have_add_equiv_wf; [|exact Hw2].
          intros x [->|Hx]; [left; split; reflexivity | right; exact Hx]. }
        split; (split; [intros _; left; split; reflexivity | apply Hrest]).
    - (* result *)
      apply all_ok_writes. simpl. split; [exact Hw1|].
      assert (Hrest : forall tm', all_ok false tm' (have_add PTarget k have) (concat (map op_kinds ops))).
      { intro tm'. apply IH. eapply have_add_equiv_wf; [|exact Hw2]. intros x Hx; right; exact Hx. }
      split; apply Hrest.
  Qed.

  Definition idle (st : state) : Prop := memo_sound st /\ forall t, skipping st t = false.

  Lemma target_steps_tid t ops : Forall (fun y => s_tid y = t) (target_steps t ops).
  Proof. unfold target_steps. apply Forall_forall. intros y Hy. apply in_map_iff in Hy as [k [<- _]]. reflexivity. Qed.

  Lemma lists_from_nth opss : forall t i l,
    nth_error (lists_from t opss) i = Some l ->
    exists ops, nth_error opss i = Some ops /\ l = target_steps (t + i) ops.
  Proof.
    induction opss as [|ops opss IH]; intros t i l Hn; simpl in Hn.
    - destruct i; discriminate.
    - destruct i; simpl in *.
      + inversion Hn; subst. exists ops. rewrite Nat.add_0_r. auto.
      + destruct (IH (S t) i l Hn) as [ops' [H1 H2]]. exists ops'. split; [exact H1|].
        rewrite H2. f_equal. lia.
  Qed.

  Theorem inv_every_prefix st0 opss il :
    Inv H refs st0 -> idle st0 ->
    interleaving il (per_target_lists opss) ->
    Forall (wf_ops H refs (have_of st0)) opss ->
    forall n faults, Inv H refs (run_store st0 (firstn n il) faults).
  Proof.
    intros HI [Hm Hs] Hil Hwf n faults.
    eapply good_every_prefix; [exact Hil|].
    split; [exact HI|]. split; [exact Hm|].
    intros i l Hn. apply lists_from_nth in Hn as [ops [Hn ->]]. simpl.
    split; [apply target_steps_tid|]. intros _. rewrite Hs.
    unfold target_steps. rewrite map_map. simpl. rewrite map_id.
    apply wf_all_ok. eapply Forall_forall in Hwf; [exact Hwf|]. eapply nth_error_In; exact Hn.
  Qed.
End L1.
