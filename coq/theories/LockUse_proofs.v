From Coq Require Import List Arith Bool Lia.
From Grog Require Import Lock LockUse.
Import ListNotations.

Lemma single_unlock_is_model : forall evs s, urun s (map Base evs) = run s evs.
Proof.
  induction evs as [|e r IH]; intros s; cbn [map urun run ustep]; [reflexivity|].
  destruct (step s e) as [s'|]; [apply IH|reflexivity].
Qed.

Lemma double_unlock_refuted :
  exists s, urun (mk_init [] None) double_unlock_sched = Some s /\
            all_guarded (mk_init [] None) double_unlock_sched = true /\
            holds_b s 1 = true /\ holds_b s 2 = true /\ count_holders s 3 = 2.
Proof.
  eexists. split; [vm_compute; reflexivity|].
  split; [vm_compute; reflexivity|].
  split; [vm_compute; reflexivity|].
  split; vm_compute; reflexivity.
Qed.

(* a second release is harmless exactly when nobody acquired in between *)
Lemma unlock_again_when_free : forall s p s',
  ustep s (UnlockAgain p) = Some s' -> lock s = None -> s' = s.
Proof.
  intros s p s' H Hl. cbn [ustep] in H. destruct (pcs s p); try discriminate.
  inversion H; subst; clear H. destruct s as [l c cr n pc]; cbn in *. subst l. reflexivity.
Qed.

(* ... and otherwise it takes the lock file away from under its holder: every process keeps its
   program counter (a holder stays a holder) while the path is free for the next contender *)
Lemma unlock_again_steals : forall s p s',
  ustep s (UnlockAgain p) = Some s' ->
  lock s' = None /\ (forall q, pcs s' q = pcs s q) /\ pcs s p = Done.
Proof.
  intros s p s' H. cbn [ustep] in H. destruct (pcs s p) eqn:E; try discriminate.
  inversion H; subst; clear H. cbn. auto.
Qed.

Lemma unlock_again_then_second_holder : forall s p q i s',
  ustep s (UnlockAgain p) = Some s' -> pcs s q = Held i -> forall r, pcs s r = Idle -> r <> q ->
  exists s'', ustep s' (Base (TryCreate r)) = Some s'' /\ holds_b s'' q = true /\ holds_b s'' r = true.
Proof.
  intros s p q i s' H Hq r Hr Hne.
  destruct (unlock_again_steals _ _ _ H) as [Hl [Hp _]].
  cbn [ustep step]. rewrite Hp, Hr, Hl. eexists. split; [reflexivity|].
  unfold holds_b; cbn. unfold upd.
  rewrite Nat.eqb_refl.
  destruct (Nat.eqb q r) eqn:E; [apply Nat.eqb_eq in E; congruence|].
  rewrite Hp, Hq. split; reflexivity.
Qed.
