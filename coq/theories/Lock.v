(* Lock.v -- model of the workspace lock (internal/locking/workspace_locker.go), property C10.
   Definitions only.  One event per file-system call ON THE LOCK PATH of Lock()/Unlock(), any
   number of processes, crashes anywhere.  DESIGN.md 5.C10 and B.3.

   What each step mirrors (functions of workspace_locker.go):
     TryCreate p  Lock -> createLockFile: os.Link(tmp, path).  The PID was written before into a
                          temporary file (os.CreateTemp in the lock directory, Write, Chmod, Close)
                          that only p knows the name of; link(2) then gives that inode -- WITH its
                          content -- the lock path as a second name, and fails with EEXIST if the
                          path names anything, exactly like O_CREATE|O_EXCL.  Success = a FRESH inode
                          containing p's PID is now named by the path and Lock returns nil (the
                          deferred os.Remove(tmp) drops the private name only); EEXIST = go and
                          read the file.
                          The temporary file is private to p: creating, writing and unlinking it is
                          invisible to every other process and never touches the lock path, so it is
                          not an event.  A crash between the write of the temporary file and the
                          link leaves no lock file: it is [Crash p] at [Idle].
     Read p       Lock    os.ReadFile(path)+Atoi: whatever inode is at the path NOW;
                          absent -> remove; empty/unparsable -> remove; a PID -> probe it
     Probe p      Lock    processRunning(pid) = kill(pid,0): dead -> remove; alive -> wait.
                          (DESIGN lists read+parse+probe as one step [Read]; the code makes two system
                          calls with an arbitrary delay in between -- the holder may unlock and
                          exit, and another process may create a fresh file, between them -- so
                          the model keeps them apart.  Merging them back is the special case of
                          schedules in which [Probe p] directly follows [Read p].)
     Remove p     Lock    os.Remove(path): unconditional, unlinks whatever the path names now
     Wake p       Lock    the one-second timer fires; back to the top of the loop
     Cancel p     Lock    ctx.Done() wins the select (SIGINT/SIGTERM cancel the build's context):
                          Lock returns ctx.Err() WITHOUT making any call on the lock path; the process
                          lives on (pc GaveUp) and never acts on the lock again.  The context is
                          only consulted in that select: a cancellation that arrives anywhere else
                          is observed at the next Waiting.
     Unlock p     Unlock  os.Remove(path): unconditional
     Crash p      --      SIGKILL / os.Exit anywhere (cmds/build.go exits without Unlock on failure)

   History: until the repair of finding C10-F1 the file was created empty (O_CREATE|O_EXCL) and the
   PID written by a second call; the model had a pc [Created i] and an event [WritePid p] between
   [TryCreate] and [Held], and mutual exclusion needed a second guard, read_before_write.  Both are
   gone: an inode created by a process has its content from the step that makes it visible
   (Lock_proofs.lock_file_never_empty).

   [creator] is ghost state (who created an inode, None for a pre-existing file); it never
   influences [step] and is only mentioned by theorems. *)
From Coq Require Import Arith Bool List.
Import ListNotations.

Definition pid := nat.
Definition inode := nat.

Inductive pc : Type :=
| Idle                                   (* about to call os.Link (top of the loop) *)
| WantRead                               (* link failed with EEXIST, about to os.ReadFile *)
| WantProbe (i : inode) (q : pid)        (* read PID q out of inode i, about to kill(q,0) *)
| WantRemove (ex : option inode)         (* decided to os.Remove; ex = the inode it examined *)
| Waiting                                (* in the select, timer pending *)
| GaveUp                                 (* Lock() returned ctx.Err(): alive, holds nothing *)
| Held (i : inode)                       (* Lock() returned nil *)
| Done                                   (* Unlock() returned *)
| Dead.

Inductive event : Type :=
| TryCreate (p : pid) | Read (p : pid) | Probe (p : pid)
| Remove (p : pid) | Wake (p : pid) | Unlock (p : pid) | Crash (p : pid)
| Cancel (p : pid).

Record state : Type := mkState {
  lock    : option inode;            (* what the lock path names now *)
  content : inode -> option pid;     (* None = empty or unparsable *)
  creator : inode -> option pid;     (* ghost *)
  next    : inode;                   (* fresh inode counter *)
  pcs     : pid -> pc }.

Definition upd {A : Type} (f : nat -> A) (k : nat) (v : A) : nat -> A :=
  fun x => if Nat.eqb x k then v else f x.

Definition set_pc (s : state) (p : pid) (c : pc) : state :=
  mkState (lock s) (content s) (creator s) (next s) (upd (pcs s) p c).

Definition is_dead (c : pc) : bool := match c with Dead => true | _ => false end.
Definition alive_b (s : state) (q : pid) : bool := negb (is_dead (pcs s q)).
Definition alive (s : state) (q : pid) : Prop := pcs s q <> Dead.

Definition step (s : state) (e : event) : option state :=
  match e with
  | TryCreate p =>
    match pcs s p with
    | Idle =>
      match lock s with
      | None =>
        let i := next s in
        Some (mkState (Some i) (upd (content s) i (Some p)) (upd (creator s) i (Some p)) (S i)
                      (upd (pcs s) p (Held i)))
      | Some _ => Some (set_pc s p WantRead)
      end
    | _ => None
    end
  | Read p =>
    match pcs s p with
    | WantRead =>
      match lock s with
      | None => Some (set_pc s p (WantRemove None))
      | Some i =>
        match content s i with
        | None => Some (set_pc s p (WantRemove (Some i)))
        | Some q => Some (set_pc s p (WantProbe i q))
        end
      end
    | _ => None
    end
  | Probe p =>
    match pcs s p with
    | WantProbe i q =>
      if alive_b s q then Some (set_pc s p Waiting) else Some (set_pc s p (WantRemove (Some i)))
    | _ => None
    end
  | Remove p =>
    match pcs s p with
    | WantRemove _ =>
      Some (mkState None (content s) (creator s) (next s) (upd (pcs s) p Idle))
    | _ => None
    end
  | Wake p =>
    match pcs s p with
    | Waiting => Some (set_pc s p Idle)
    | _ => None
    end
  | Unlock p =>
    match pcs s p with
    | Held _ => Some (mkState None (content s) (creator s) (next s) (upd (pcs s) p Done))
    | _ => None
    end
  | Crash p =>
    match pcs s p with
    | Dead => None
    | _ => Some (set_pc s p Dead)
    end
  | Cancel p =>
    match pcs s p with
    | Waiting => Some (set_pc s p GaveUp)
    | _ => None
    end
  end.

Fixpoint run (s : state) (evs : list event) : option state :=
  match evs with
  | [] => Some s
  | e :: r => match step s e with Some s' => run s' r | None => None end
  end.

Definition actor (e : event) : pid :=
  match e with
  | TryCreate p | Read p | Probe p | Remove p | Wake p | Unlock p | Crash p
  | Cancel p => p
  end.

(* ---- who holds ---------------------------------------------------------------------- *)
Definition holds (s : state) (p : pid) : Prop := exists i, pcs s p = Held i.
Definition is_held (c : pc) : bool := match c with Held _ => true | _ => false end.
Definition holds_b (s : state) (p : pid) : bool := is_held (pcs s p).

(* the inode a process has created (and not yet given up) *)
Definition owner_of (c : pc) : option inode :=
  match c with Held i => Some i | _ => None end.
Definition owns (s : state) (p : pid) (i : inode) : Prop := owner_of (pcs s p) = Some i.

(* ---- initial states: every process has not started or is dead; any lock file -------- *)
Definition init (s : state) : Prop :=
  (forall p, pcs s p = Idle \/ pcs s p = Dead) /\ (forall i, lock s = Some i -> i < next s).

(* the lock file is left over: unparsable, or names a dead process *)
Definition stale (s : state) (i : inode) : Prop :=
  match content s i with None => True | Some q => pcs s q = Dead end.

(* ---- the one step kind that breaks mutual exclusion, as a boolean guard --------------- *)
Definition opt_inode_eqb (a b : option inode) : bool :=
  match a, b with
  | None, None => true
  | Some x, Some y => Nat.eqb x y
  | _, _ => false
  end.

(* a Remove while the path names an inode other than the one the remover examined *)
Definition remove_of_unexamined_inode (s : state) (e : event) : bool :=
  match e with
  | Remove p =>
    match pcs s p, lock s with
    | WantRemove ex, Some j => negb (opt_inode_eqb ex (Some j))
    | _, _ => false
    end
  | _ => false
  end.

Definition guarded (s : state) (e : event) : bool := negb (remove_of_unexamined_inode s e).

(* reachability: all steps / steps on which the guard does not fire *)
Inductive reachable (s0 : state) : state -> Prop :=
| r_init : reachable s0 s0
| r_step : forall s e s', reachable s0 s -> step s e = Some s' -> reachable s0 s'.

Inductive reachable_g (s0 : state) : state -> Prop :=
| rg_init : reachable_g s0 s0
| rg_step : forall s e s', reachable_g s0 s -> step s e = Some s' ->
    remove_of_unexamined_inode s e = false ->
    reachable_g s0 s'.

(* ---- executable helpers for the driver and for the witnesses ------------------------ *)
(* initial configuration: processes in [dead] are dead, all others idle;
   lock file: None = absent, Some None = empty/garbage, Some (Some q) = contains PID q *)
Definition mk_init (dead : list pid) (lk : option (option pid)) : state :=
  mkState (match lk with None => None | Some _ => Some 0 end)
          (fun i => match lk with Some (Some q) => if Nat.eqb i 0 then Some q else None | _ => None end)
          (fun _ => None)
          (match lk with None => 0 | Some _ => 1 end)
          (fun p => if existsb (Nat.eqb p) dead then Dead else Idle).

(* the one non-crash event process p can take by itself ([Cancel p] is imposed from outside and
   is enabled exactly when [next_event s p = Some (Wake p)]) *)
Definition next_event (s : state) (p : pid) : option event :=
  match pcs s p with
  | Idle => Some (TryCreate p)
  | WantRead => Some (Read p)
  | WantProbe _ _ => Some (Probe p)
  | WantRemove _ => Some (Remove p)
  | Waiting => Some (Wake p)
  | GaveUp => None
  | Held _ => Some (Unlock p)
  | Done => None
  | Dead => None
  end.

Fixpoint count_holders (s : state) (n : nat) : nat :=
  match n with
  | O => 0
  | S k => (if holds_b s k then 1 else 0) + count_holders s k
  end.

(* run a schedule and report: final state, did [remove_of_unexamined_inode] fire, was there ever
   more than one holder among pids < n *)
Fixpoint run_flags (n : nat) (s : state) (evs : list event) (u v : bool)
  : option (state * bool * bool) :=
  match evs with
  | [] => Some (s, u, v || Nat.ltb 1 (count_holders s n))
  | e :: r =>
    match step s e with
    | None => None
    | Some s' =>
      run_flags n s' r (u || remove_of_unexamined_inode s e) (v || Nat.ltb 1 (count_holders s n))
    end
  end.

(* W1 (regression; finding C10-F1, repaired): 0 creates; 1 finds the file and reads it.  Before the
   repair the file was still empty at that point, 1 removed it and acquired, and 0 wrote its PID
   into the unlinked inode (TryCreate 0; TryCreate 1; Read 1; Remove 1; TryCreate 1; WritePid 1;
   WritePid 0: both past Lock()).  Now the file has 0's PID from the step that creates it: 1 reads
   it, probes 0, finds it alive and waits. *)
Definition w1_init : state := mk_init [] None.
Definition w1_sched : list event := [TryCreate 0; TryCreate 1; Read 1; Probe 1].

(* W2: the file names dead process 2; 0 and 1 both read and probe it; 0 removes it and creates
   its own; 1 then removes 0's FRESH file and creates its own: both are past Lock(). *)
Definition w2_init : state := mk_init [2] (Some (Some 2)).
Definition w2_sched : list event :=
  [TryCreate 0; TryCreate 1; Read 0; Read 1; Probe 0; Probe 1;
   Remove 0; TryCreate 0; Remove 1; TryCreate 1].

(* NC: 0 holds; 1 contends, waits and is interrupted; 2 contends and waits (the interrupted
   waiter left 0's file alone); 0 unlocks; 2 wakes up and acquires. *)
Definition nc_sched : list event :=
  [TryCreate 0; TryCreate 1; Read 1; Probe 1; Cancel 1;
   TryCreate 2; Read 2; Probe 2; Unlock 0; Wake 2; TryCreate 2].
