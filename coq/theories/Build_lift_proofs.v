(* Build_lift_proofs.v -- from one task to whole builds (mode load_outputs=all): what the walk over
   the nodes preserves, and the build-level statements of C05 (failed targets are not cached),
   C13 (taint / no-cache / cache off force execution, the taint is consumed), C14 (success implies
   the postconditions; a failing check forces execution) and C18 (no exit 0, no cache entry). *)
From Coq Require Import List Ascii Bool Arith Lia.
From Grog Require Import Str Label HashKey Build Build_proofs Build_single_proofs Build_ideal.
Import ListNotations.

Section Lift.
Variable H : str -> str.

Notation process_target := (process_target H).
Notation process_node := (process_node H).
Notation build := (build H).
Notation build_prefix := (build_prefix H).
Notation status_of := Build_single_proofs.status_of.

(* ================================================================== what one node's step preserves *)
Record node_frame (s : sources) (j : nat) (b b' : bstate) : Prop := {
  nf_len   : rt_len b' = rt_len b;
  nf_sts   : forall i, i <> j -> status_of b' i = status_of b i;
  nf_exec  : exists extra, b_exec b' = b_exec b ++ extra;
  nf_taint : forall l, label_in l (c_taint (b_cache b')) = true -> label_in l (c_taint (b_cache b)) = true;
  nf_taint_other : forall l, (forall t, node_at s j = Some (NTarget t) -> td_label t <> l) ->
                   label_in l (c_taint (b_cache b')) = label_in l (c_taint (b_cache b));
  nf_ext_other : forall l, (forall t, node_at s j = Some (NTarget t) -> td_label t <> l) ->
                 label_in l (w_ext (b_world b')) = label_in l (w_ext (b_world b))
}.

Lemma node_frame_refl s j b : node_frame s j b b.
Proof. constructor; auto. exists []. rewrite app_nil_r. reflexivity. Qed.

Lemma node_frame_mark s j b st : node_frame s j b (mark b j st).
Proof.
  constructor; autorewrite with bst; auto.
  - intros i Hi. unfold Build_single_proofs.status_of. rewrite sts_mark. apply status_list_set_other. auto.
  - exists []. rewrite app_nil_r. reflexivity.
Qed.

Lemma rt_len_of_sts b b' : length (sts b') = length (sts b) -> rt_len b' = rt_len b.
Proof. rewrite !sts_length. auto. Qed.

Lemma node_frame_stopped s j b b' : node_frame s j b b' -> node_frame s j b (stopped b').
Proof. intros [A B C D E F]. constructor; auto. Qed.

Lemma node_frame_task cfg s j t b :
  cfg_mode cfg = LAll -> node_at s j = Some (NTarget t) -> j < rt_len b ->
  node_frame s j b (process_target cfg s j t b).
Proof.
  intros Hm Hn Hj.
  pose proof (process_target_all H cfg s j t b Hm) as Ho.
  destruct (task_cases H cfg s j t b _ Ho Hj) as [Hs Hc].
  set (b' := Build.process_target H cfg s j t b) in *.
  assert (Hlen : rt_len b' = rt_len b).
  { apply rt_len_of_sts. rewrite Hs. apply list_set_length. }
  assert (Hsts : forall i, i <> j -> status_of b' i = status_of b i).
  { intros i Hi. unfold Build_single_proofs.status_of. rewrite Hs. apply status_list_set_other. auto. }
  assert (Hother : forall l, (forall t0, node_at s j = Some (NTarget t0) -> td_label t0 <> l) -> l <> td_label t).
  { intros l Hl E. apply (Hl t Hn). auto. }
  destruct Hc as [[_ [Fc Fx Fe]] | [[_ [R1 R2 R3 R4 R5 R6 R7 R8]] | [_ (dh & b1 & b3 & Hd & C1 & X1 & E1 & Hok & Hb')]]].
  - (* failed *)
    constructor.
    + exact Hlen.
    + exact Hsts.
    + destruct Fx as [Fx|Fx]; rewrite Fx; [exists []; rewrite app_nil_r; reflexivity | eauto].
    + intros l Hl. rewrite Fc in Hl. exact Hl.
    + intros l _. rewrite Fc. reflexivity.
    + intros l Hl. apply Fe. apply Hother; exact Hl.
  - (* hit *)
    constructor.
    + exact Hlen.
    + exact Hsts.
    + exists []. rewrite app_nil_r. exact R7.
    + intros l Hl. rewrite R6 in Hl. exact Hl.
    + intros l _. rewrite R6. reflexivity.
    + intros l _. rewrite R8. reflexivity.
  - (* executed *)
    destruct Hok as [K1 K2 K3 K4 K5 K6 K7 K8 K9 K10 K11].
    assert (Wb' : b_world b' = b_world b3) by (rewrite Hb'; apply b_world_mark).
    assert (Cb' : b_cache b' = b_cache b3) by (rewrite Hb'; apply b_cache_mark).
    assert (Xb' : b_exec b' = b_exec b3) by (rewrite Hb'; apply b_exec_mark).
    constructor.
    + exact Hlen.
    + exact Hsts.
    + rewrite Xb', K8. unfold exec_start. destruct (null (td_cmd t)).
      * exists []. rewrite app_nil_r. exact X1.
      * rewrite b_exec_add_exec, X1. eauto.
    + intros l Hl. rewrite Cb', K7, C1 in Hl.
      destruct (label_in (td_label t) (c_taint (b_cache b))); [eapply label_in_remove_mono; exact Hl | exact Hl].
    + intros l Hl. rewrite Cb', K7, C1.
      destruct (label_in (td_label t) (c_taint (b_cache b))); [|reflexivity].
      apply label_in_remove_other. apply Hother; exact Hl.
    + intros l Hl. rewrite Wb'. rewrite <- E1.
      destruct (null (td_cmd t)).
      * rewrite K1. reflexivity.
      * apply (run_command_ext s t _ _ K1). apply Hother; exact Hl.
Qed.

Lemma node_frame_step cfg s sel b j :
  cfg_mode cfg = LAll -> j < rt_len b -> node_frame s j b (process_node cfg s sel b j).
Proof.
  intros Hm Hj.
  destruct (process_node_cases H cfg s sel b j) as [E | [(st & E & _) | (t & Hn & _ & _ & _ & [E | [E _]])]];
    rewrite E.
  - apply node_frame_refl.
  - apply node_frame_mark.
  - apply node_frame_task; auto.
  - apply node_frame_stopped. apply node_frame_task; auto.
Qed.

(* ================================================================== selection is contained in the dependency closure of the roots *)
Inductive breach (s : sources) : nat -> nat -> Prop :=
| breach_refl i : breach s i i
| breach_step i n d j : node_at s i = Some n -> In d (node_deps n) -> breach s d j -> breach s i j.

Lemma breach_trans s i j k : breach s i j -> breach s j k -> breach s i k.
Proof. induction 1; intro Hk; [exact Hk | eapply breach_step; eauto]. Qed.

Lemma closure_sound s roots : forall fuel todo acc,
  (forall x, In x todo -> exists r, In r roots /\ breach s r x) ->
  (forall x, In x acc -> exists r, In r roots /\ breach s r x) ->
  forall x, In x (closure fuel s todo acc) -> exists r, In r roots /\ breach s r x.
Proof.
  induction fuel as [|f IH]; intros todo acc Ht Ha x Hx; cbn [closure] in Hx; [apply Ha, Hx|].
  destruct todo as [|t0 todo']; [apply Ha, Hx|].
  apply IH in Hx; auto.
  - intros y Hy. apply in_flat_map in Hy as (i & Hi & Hy).
    apply filter_In in Hi as [Hi _].
    destruct (node_at s i) as [n|] eqn:En; [|destruct Hy].
    destruct (Ht i Hi) as (r & Hr & Hb). exists r. split; [exact Hr|].
    eapply breach_trans; [exact Hb|]. eapply breach_step; [exact En | exact Hy | apply breach_refl].
  - intros y Hy. apply in_app_or in Hy as [Hy|Hy]; [apply Ha, Hy|].
    apply filter_In in Hy as [Hy _]. apply Ht, Hy.
Qed.

Theorem selection_sound s roots x :
  In x (selection s roots) -> exists r, In r roots /\ breach s r x.
Proof.
  unfold selection. apply closure_sound.
  - intros y Hy. exists y. split; [exact Hy | apply breach_refl].
  - intros y [].
Qed.

(* ================================================================== prefixes of the walk *)
Lemma nth_map_repeat_rt0 n i : nth i (map rt_status (repeat rt0 n)) TNone = TNone.
Proof.
  revert i. induction n as [|n IH]; intros [|i]; simpl; auto.
Qed.

Lemma build_prefix_S cfg s roots w c k :
  build_prefix cfg s roots w c (S k) =
  process_node cfg s (selection s roots) (build_prefix cfg s roots w c k) k.
Proof.
  unfold Build_ideal.build_prefix. rewrite seq_S, fold_left_app. reflexivity.
Qed.

Lemma build_is_prefix cfg s roots w c :
  let b := build_prefix cfg s roots w c (length (s_nodes s)) in
  build cfg s roots w c =
  mkBR (b_world b) (b_cache b) (sts b) (b_exec b)
       (negb (existsb (fun st => match st with TFailed => true | _ => false end) (sts b))).
Proof. reflexivity. Qed.

Section Walk.
Variables (cfg : config) (s : sources) (roots : list nat) (w : world) (c : cache).
Hypothesis Hall : cfg_mode cfg = LAll.
Let n := length (s_nodes s).
Let P k := build_prefix cfg s roots w c k.

Lemma prefix_len k : k <= n -> rt_len (P k) = n.
Proof.
  induction k as [|k IH]; intro Hk.
  - unfold P, Build_ideal.build_prefix, build_init, rt_len. simpl. apply repeat_length.
  - unfold P. rewrite build_prefix_S. fold (P k).
    rewrite (nf_len _ _ _ _ (node_frame_step cfg s _ (P k) k Hall ltac:(rewrite IH; lia))). apply IH. lia.
Qed.

Lemma prefix_frame k : k < n -> node_frame s k (P k) (P (S k)).
Proof.
  intro Hk. unfold P at 2. rewrite build_prefix_S. fold (P k).
  apply node_frame_step; auto. rewrite prefix_len; lia.
Qed.

(* a node's status is TNone until its step and does not change afterwards *)
Lemma prefix_status_before k i : k <= n -> k <= i -> status_of (P k) i = TNone.
Proof.
  induction k as [|k IH]; intros Hk Hi.
  - unfold P, Build_ideal.build_prefix, build_init, Build_single_proofs.status_of, sts. simpl.
    apply nth_map_repeat_rt0.
  - rewrite (nf_sts _ _ _ _ (prefix_frame k ltac:(lia))) by lia. apply IH; lia.
Qed.

Lemma prefix_status_after i m : i < m -> m <= n -> status_of (P m) i = status_of (P (S i)) i.
Proof.
  intros Him Hm. induction m as [|m IH]; [lia|].
  destruct (Nat.eq_dec m i) as [->|Hne]; [reflexivity|].
  rewrite (nf_sts _ _ _ _ (prefix_frame m ltac:(lia))) by lia. apply IH; lia.
Qed.

Lemma final_status i : i < n -> nth i (br_status (build cfg s roots w c)) TNone = status_of (P (S i)) i.
Proof.
  intro Hi. rewrite build_is_prefix. cbn [br_status]. fold n. fold (P n).
  change (nth i (sts (P n)) TNone) with (status_of (P n) i).
  destruct (Nat.eq_dec (S i) n) as [<-|Hne]; [reflexivity|].
  apply prefix_status_after; lia.
Qed.

(* commands started are never forgotten; taints are only consumed, never added *)
Lemma prefix_exec_mono k m : k <= m -> m <= n -> exists extra, b_exec (P m) = b_exec (P k) ++ extra.
Proof.
  intros Hkm Hm. induction m as [|m IH].
  - assert (k = 0) by lia. subst. exists []. rewrite app_nil_r. reflexivity.
  - destruct (Nat.eq_dec k (S m)) as [->|Hne]; [exists []; rewrite app_nil_r; reflexivity|].
    destruct IH as [e1 E1]; [lia|lia|].
    destruct (nf_exec _ _ _ _ (prefix_frame m ltac:(lia))) as [e2 E2].
    exists (e1 ++ e2). rewrite E2, E1, app_assoc. reflexivity.
Qed.

Lemma prefix_taint_mono k m l : k <= m -> m <= n ->
  label_in l (c_taint (b_cache (P m))) = true -> label_in l (c_taint (b_cache (P k))) = true.
Proof.
  intros Hkm Hm. induction m as [|m IH]; intro Hl.
  - assert (k = 0) by lia. subst. exact Hl.
  - destruct (Nat.eq_dec k (S m)) as [->|Hne]; [exact Hl|].
    apply IH; [lia|lia|]. apply (nf_taint _ _ _ _ (prefix_frame m ltac:(lia))). exact Hl.
Qed.

(* nobody but the target itself touches its taint or its external condition: labels are unique *)
Definition unique_label (i : nat) (t : tdef) : Prop :=
  forall j t', node_at s j = Some (NTarget t') -> td_label t' = td_label t -> j = i.

Lemma prefix_taint_own i t k : unique_label i t -> k <= i -> i < n ->
  label_in (td_label t) (c_taint (b_cache (P k))) = label_in (td_label t) (c_taint c).
Proof.
  intros Hu Hk Hi. induction k as [|k IH]; [reflexivity|].
  rewrite (nf_taint_other _ _ _ _ (prefix_frame k ltac:(lia))).
  - apply IH. lia.
  - intros t' Hn E. specialize (Hu k t' Hn E). lia.
Qed.

Lemma prefix_ext_own i t k : unique_label i t -> k <= i -> i < n ->
  label_in (td_label t) (w_ext (b_world (P k))) = label_in (td_label t) (w_ext w).
Proof.
  intros Hu Hk Hi. induction k as [|k IH]; [reflexivity|].
  rewrite (nf_ext_other _ _ _ _ (prefix_frame k ltac:(lia))).
  - apply IH. lia.
  - intros t' Hn E. specialize (Hu k t' Hn E). lia.
Qed.

(* ================================================================== the step of a target node *)
Lemma status_of_stopped b i : status_of (stopped b) i = status_of b i. Proof. reflexivity. Qed.

Inductive target_step (i : nat) (t : tdef) (b b' : bstate) : Prop :=
| TS_untouched : b' = b -> target_step i t b b'                     (* not selected *)
| TS_skipped   : status_of b' i = TSkipped -> b_cache b' = b_cache b -> b_exec b' = b_exec b ->
                 target_step i t b b'                                (* a dependency did not succeed / fail-fast stop *)
| TS_failed    : status_of b' i = TFailed -> failed_facts t b b' -> target_step i t b b'
| TS_hit       : status_of b' i = THit -> hit_facts H cfg s t b b' -> target_step i t b b'
| TS_executed  : forall dh b1 b3,
                 status_of b' i = TExecuted ->
                 dep_hashes s b (td_deps t) = Some dh -> b_cache b1 = b_cache b -> b_exec b1 = b_exec b ->
                 w_ext (b_world b1) = w_ext (b_world b) ->
                 exec_ok cfg s t (key_of H s t dh) (label_in (td_label t) (c_taint (b_cache b))) b1 b3 ->
                 b' = mark b3 i TExecuted -> target_step i t b b'.

Lemma target_step_at i t : i < n -> node_at s i = Some (NTarget t) -> target_step i t (P i) (P (S i)).
Proof.
  intros Hi Hn. unfold P at 2. rewrite build_prefix_S. fold (P i).
  assert (Hlen : i < rt_len (P i)) by (rewrite prefix_len; lia).
  destruct (process_node_cases H cfg s (selection s roots) (P i) i)
    as [E | [(st & E & Hst) | (t' & Hn' & _ & _ & _ & Hpt)]].
  - apply TS_untouched. exact E.
  - destruct Hst as [->|[-> (l & a & Ha)]]; [|rewrite Hn in Ha; discriminate].
    apply TS_skipped; rewrite E; autorewrite with bst; auto.
    unfold Build_single_proofs.status_of. rewrite sts_mark. apply status_list_set. rewrite sts_length. exact Hlen.
  - rewrite Hn in Hn'. inversion Hn'; subst t'. clear Hn'.
    pose proof (process_target_all H cfg s i t (P i) Hall) as Ho.
    destruct (task_cases H cfg s i t (P i) _ Ho Hlen) as [_ Hc].
    destruct Hc as [[Hst Hf] | [[Hst Hh] | [Hst (dh & b1 & b3 & Hd & C1 & X1 & E1 & Hok & Hb')]]].
    + (* failed: with or without the fail-fast flag *)
      destruct Hpt as [E | [E _]]; rewrite E.
      * apply TS_failed; auto.
      * apply TS_failed; [rewrite status_of_stopped; exact Hst|].
        destruct Hf as [F1 F2 F3]. constructor; auto.
    + destruct Hpt as [E | [E Hff]]; rewrite E.
      * apply TS_hit; auto.
      * rewrite <- status_of_get_rt in Hff. rewrite Hff in Hst. discriminate.
    + destruct Hpt as [E | [E Hff]]; rewrite E.
      * eapply TS_executed; eauto.
      * rewrite <- status_of_get_rt in Hff. rewrite Hff in Hst. discriminate.
Qed.

(* ---------------------------------------------------------------- C13 / C14: what forces execution *)
Theorem hit_needs i t :
  i < n -> node_at s i = Some (NTarget t) ->
  nth i (br_status (build cfg s roots w c)) TNone = THit ->
  hit_facts H cfg s t (P i) (P (S i)).
Proof.
  intros Hi Hn Hst. rewrite final_status in Hst by exact Hi.
  destruct (target_step_at i t Hi Hn) as [E|Hs _ _|Hs _|_ Hh|dh b1 b3 Hs _ _ _ _ _ _]; try congruence.
  rewrite E in Hst. rewrite prefix_status_before in Hst; [discriminate | lia | lia].
Qed.

Theorem taint_forces i t :
  i < n -> node_at s i = Some (NTarget t) -> unique_label i t ->
  label_in (td_label t) (c_taint c) = true ->
  nth i (br_status (build cfg s roots w c)) TNone <> THit.
Proof.
  intros Hi Hn Hu Ht Hst. pose proof (hf_taint _ _ _ _ _ _ (hit_needs i t Hi Hn Hst)) as Hf.
  rewrite (prefix_taint_own i t i Hu (le_n _) Hi) in Hf. congruence.
Qed.

Theorem nocache_never_restored i t :
  i < n -> node_at s i = Some (NTarget t) -> td_nocache t = true ->
  nth i (br_status (build cfg s roots w c)) TNone <> THit.
Proof.
  intros Hi Hn Hc Hst. pose proof (hf_nocache _ _ _ _ _ _ (hit_needs i t Hi Hn Hst)). congruence.
Qed.

Theorem cache_off_all_execute i t :
  i < n -> node_at s i = Some (NTarget t) -> cfg_cache cfg = false ->
  nth i (br_status (build cfg s roots w c)) TNone <> THit.
Proof.
  intros Hi Hn Hc Hst. pose proof (hf_cache _ _ _ _ _ _ (hit_needs i t Hi Hn Hst)). congruence.
Qed.

Theorem failing_check_forces i t :
  i < n -> node_at s i = Some (NTarget t) -> unique_label i t ->
  td_check t = true -> label_in (td_label t) (w_ext w) = false ->
  nth i (br_status (build cfg s roots w c)) TNone <> THit.
Proof.
  intros Hi Hn Hu Hck Hext Hst. pose proof (hf_check _ _ _ _ _ _ (hit_needs i t Hi Hn Hst)) as Hc.
  unfold check_ok in Hc. rewrite Hck in Hc. cbn [negb orb] in Hc.
  rewrite (prefix_ext_own i t i Hu (le_n _) Hi) in Hc. congruence.
Qed.

(* a hit writes nothing and runs nothing *)
Theorem hit_is_silent i t :
  i < n -> node_at s i = Some (NTarget t) ->
  nth i (br_status (build cfg s roots w c)) TNone = THit ->
  b_cache (P (S i)) = b_cache (P i) /\ b_exec (P (S i)) = b_exec (P i).
Proof.
  intros Hi Hn Hst. destruct (hit_needs i t Hi Hn Hst) as [_ _ _ _ _ Hc Hx _]. auto.
Qed.

(* ---------------------------------------------------------------- C14: success implies the postconditions *)
Theorem executed_post i t :
  i < n -> node_at s i = Some (NTarget t) ->
  nth i (br_status (build cfg s roots w c)) TNone = TExecuted ->
  check_ok (b_world (P (S i))) t = true /\
  (forall o, In o (td_outs t) -> exists x, ws_get (out_path t o) (w_ws (b_world (P (S i)))) = PFile x) /\
  (null (td_cmd t) = false ->
     exists w0, w_ext w0 = w_ext (b_world (P i)) /\ run_command s t w0 = Some (b_world (P (S i)))) /\
  (cfg_cache cfg = true ->
   exists dh res, dep_hashes s (P i) (td_deps t) = Some dh /\
                  rlookup (key_of H s t dh) (c_results (b_cache (P (S i)))) = Some res).
Proof.
  intros Hi Hn Hst. rewrite final_status in Hst by exact Hi.
  destruct (target_step_at i t Hi Hn) as [E|Hs _ _|Hs _|Hs _|dh b1 b3 Hs Hd C1 X1 E1 Hok Hb']; try congruence.
  - rewrite E in Hst. rewrite prefix_status_before in Hst; [discriminate | lia | lia].
  - destruct Hok as [K1 K2 K3 K4 K5 K6 K7 K8 K9 K10 K11].
    rewrite Hb'. autorewrite with bst. split; [exact K2|]. split; [exact K3|]. split.
    + intro Hc. rewrite Hc in K1. exists (b_world b1). split; [exact E1 | exact K1].
    + intro Hon. rewrite Hon in K4. destruct K4 as [res Hr]. exists dh, res. split; [exact Hd | exact Hr].
Qed.

(* the only way a step of a target node changes the stored results is a successful execution *)
Theorem cached_only_if_executed i t :
  i < n -> node_at s i = Some (NTarget t) ->
  c_results (b_cache (P (S i))) <> c_results (b_cache (P i)) ->
  nth i (br_status (build cfg s roots w c)) TNone = TExecuted.
Proof.
  intros Hi Hn Hne. rewrite final_status by exact Hi.
  destruct (target_step_at i t Hi Hn) as [E|_ Hc _|_ [Hc _ _]|_ [_ _ _ _ _ Hc _ _]|dh b1 b3 Hs _ _ _ _ _ _];
    try (exfalso; apply Hne; congruence); auto.
Qed.

(* the command of an executed target was started in this build *)
Theorem executed_ran i t :
  i < n -> node_at s i = Some (NTarget t) -> null (td_cmd t) = false ->
  nth i (br_status (build cfg s roots w c)) TNone = TExecuted ->
  In (td_label t) (br_exec (build cfg s roots w c)).
Proof.
  intros Hi Hn Hc Hst. pose proof Hst as Hst'. rewrite final_status in Hst' by exact Hi.
  destruct (target_step_at i t Hi Hn) as [E|Hs _ _|Hs _|Hs _|dh b1 b3 Hs Hd C1 X1 E1 Hok Hb']; try congruence.
  - rewrite E in Hst'. rewrite prefix_status_before in Hst'; [discriminate | lia | lia].
  - destruct (prefix_exec_mono (S i) n ltac:(lia) (le_n _)) as [extra Hx].
    rewrite build_is_prefix. cbn [br_exec]. fold n. fold (P n). rewrite Hx. apply in_or_app. left.
    rewrite Hb'. autorewrite with bst. rewrite (eo_exec _ _ _ _ _ _ _ Hok). unfold exec_start. rewrite Hc.
    rewrite b_exec_add_exec. apply in_or_app. right. left. reflexivity.
Qed.

(* the taint is consumed by the successful execution (and never comes back during the build) *)
Theorem taint_consumed i t :
  i < n -> node_at s i = Some (NTarget t) ->
  nth i (br_status (build cfg s roots w c)) TNone = TExecuted ->
  label_in (td_label t) (c_taint (br_cache (build cfg s roots w c))) = false.
Proof.
  intros Hi Hn Hst. pose proof Hst as Hst'. rewrite final_status in Hst' by exact Hi.
  destruct (target_step_at i t Hi Hn) as [E|Hs _ _|Hs _|Hs _|dh b1 b3 Hs Hd C1 X1 E1 Hok Hb']; try congruence.
  - rewrite E in Hst'. rewrite prefix_status_before in Hst'; [discriminate | lia | lia].
  - assert (Hafter : label_in (td_label t) (c_taint (b_cache (P (S i)))) = false).
    { rewrite Hb'. autorewrite with bst. rewrite (eo_taints _ _ _ _ _ _ _ Hok), C1.
      destruct (label_in (td_label t) (c_taint (b_cache (P i)))) eqn:Et; [apply label_in_remove | exact Et]. }
    rewrite build_is_prefix. cbn [br_cache]. fold n. fold (P n).
    destruct (label_in (td_label t) (c_taint (b_cache (P n)))) eqn:Ef; [|reflexivity].
    apply (prefix_taint_mono (S i) n _ ltac:(lia) (le_n _)) in Ef. congruence.
Qed.

(* ---------------------------------------------------------------- C05: a failed target leaves no cache entry *)
Theorem failed_not_cached i t :
  i < n -> node_at s i = Some (NTarget t) ->
  nth i (br_status (build cfg s roots w c)) TNone = TFailed ->
  b_cache (P (S i)) = b_cache (P i).
Proof.
  intros Hi Hn Hst. rewrite final_status in Hst by exact Hi.
  destruct (target_step_at i t Hi Hn) as [E|Hs _ _|_ [Hc _ _]|Hs _|dh b1 b3 Hs _ _ _ _ _ _]; try congruence.
Qed.

(* ... and neither does a skipped one *)
Theorem skipped_not_cached_not_run i t :
  i < n -> node_at s i = Some (NTarget t) ->
  nth i (br_status (build cfg s roots w c)) TNone = TSkipped ->
  b_cache (P (S i)) = b_cache (P i) /\ b_exec (P (S i)) = b_exec (P i).
Proof.
  intros Hi Hn Hst. rewrite final_status in Hst by exact Hi.
  destruct (target_step_at i t Hi Hn) as [E|_ Hc Hx|Hs _|Hs _|dh b1 b3 Hs _ _ _ _ _ _]; try congruence.
  - rewrite E. auto.
  - auto.
Qed.

(* ---------------------------------------------------------------- C12: only selected targets' commands run *)
Lemma step_exec_selected k : k < n ->
  b_exec (P (S k)) = b_exec (P k) \/
  exists t, node_at s k = Some (NTarget t) /\ existsb (Nat.eqb k) (selection s roots) = true /\
            b_exec (P (S k)) = b_exec (P k) ++ [td_label t].
Proof.
  intro Hk. unfold P at 1 3. rewrite build_prefix_S. fold (P k).
  assert (Hlen : k < rt_len (P k)) by (rewrite prefix_len; lia).
  destruct (process_node_cases H cfg s (selection s roots) (P k) k)
    as [E | [(st & E & _) | (t & Hn & Hsel & _ & _ & Hpt)]].
  - left. rewrite E. reflexivity.
  - left. rewrite E. apply b_exec_mark.
  - pose proof (process_target_all H cfg s k t (P k) Hall) as Ho.
    destruct (task_cases H cfg s k t (P k) _ Ho Hlen) as [_ Hc].
    assert (Hx : b_exec (Build.process_target H cfg s k t (P k)) = b_exec (P k) \/
                 b_exec (Build.process_target H cfg s k t (P k)) = b_exec (P k) ++ [td_label t]).
    { destruct Hc as [[_ [_ Fx _]] | [[_ [_ _ _ _ _ _ R7 _]] | [_ (dh & b1 & b3 & Hd & C1 & X1 & E1 & Hok & Hb')]]].
      - exact Fx.
      - left. exact R7.
      - rewrite Hb', b_exec_mark, (eo_exec _ _ _ _ _ _ _ Hok). unfold exec_start.
        destruct (null (td_cmd t)); [left; exact X1 | right; rewrite b_exec_add_exec, X1; reflexivity]. }
    assert (Hst : forall x, b_exec (stopped x) = b_exec x) by reflexivity.
    destruct Hpt as [E | [E _]]; rewrite E, ?Hst; (destruct Hx as [Hx|Hx]; [left; exact Hx | right; exists t; auto]).
Qed.

Theorem exec_only_selected l :
  In l (br_exec (build cfg s roots w c)) ->
  exists i t, i < n /\ existsb (Nat.eqb i) (selection s roots) = true /\
              node_at s i = Some (NTarget t) /\ td_label t = l.
Proof.
  rewrite build_is_prefix. cbn [br_exec]. fold n. fold (P n).
  assert (Hgen : forall k, k <= n -> In l (b_exec (P k)) ->
            exists i t, i < k /\ existsb (Nat.eqb i) (selection s roots) = true /\
                        node_at s i = Some (NTarget t) /\ td_label t = l).
  { induction k as [|k IH]; intros Hk Hin.
    - unfold P, Build_ideal.build_prefix, build_init in Hin. simpl in Hin. destruct Hin.
    - destruct (step_exec_selected k ltac:(lia)) as [E | (t & Hn & Hsel & E)]; rewrite E in Hin.
      + destruct (IH ltac:(lia) Hin) as (i & t & Hi & R). exists i, t. split; [lia | exact R].
      + apply in_app_or in Hin as [Hin | [<- | []]].
        * destruct (IH ltac:(lia) Hin) as (i & t' & Hi & R). exists i, t'. split; [lia | exact R].
        * exists k, t. repeat split; auto. }
  intro Hin. destruct (Hgen n (le_n _) Hin) as (i & t & Hi & R). exists i, t. split; [exact Hi | exact R].
Qed.

End Walk.

(* ================================================================== C18 / C05: no exit 0, no cache entry *)
(* a command that does not exit 0 -- it failed, timed out, or was killed by an interrupt -- stores nothing *)
Theorem no_exit0_no_result cfg s i t key tainted b :
  null (td_cmd t) = false -> run_command s t (b_world b) = None ->
  exists b', execute H cfg s i t key tainted b = (false, b') /\ b_cache b' = b_cache b.
Proof.
  intros Hc Hr. unfold Build.execute. rewrite Hc. autorewrite with bst. rewrite Hr.
  eexists. split; [reflexivity|]. reflexivity.
Qed.

(* ================================================================== C13: a disabled cache is not written *)
(* c' holds the stored results and blobs of c, and no taint that c does not hold *)
Definition cache_kept (c c' : cache) : Prop :=
  c_results c' = c_results c /\ c_cas c' = c_cas c /\
  (forall l, label_in l (c_taint c') = true -> label_in l (c_taint c) = true).

Lemma cache_kept_refl c : cache_kept c c.
Proof. repeat split; auto. Qed.

Lemma cache_kept_trans a b c : cache_kept a b -> cache_kept b c -> cache_kept a c.
Proof. intros (R1 & C1 & T1) (R2 & C2 & T2). repeat split; [congruence | congruence | auto]. Qed.

Lemma cache_kept_eq c c' : c' = c -> cache_kept c c'.
Proof. intros ->. apply cache_kept_refl. Qed.

Lemma execute_cache_off cfg s i t key tn b ok b' :
  cfg_cache cfg = false -> execute H cfg s i t key tn b = (ok, b') -> cache_kept (b_cache b) (b_cache b').
Proof.
  intros Hc E. destruct ok.
  - apply (execute_ok H) in E. destruct E as [_ _ _ K4 _ _ K7 _ _ _ _]. rewrite Hc in K4.
    destruct K4 as [Kr Kc]. split; [exact Kr|]. split; [exact Kc|].
    intros l Hl. rewrite K7 in Hl. destruct tn; [eapply label_in_remove_mono; exact Hl | exact Hl].
  - apply (execute_fail H) in E as (F1 & _). apply cache_kept_eq, F1.
Qed.

Lemma load_outputs_cache_kept i t r b ok b' :
  load_outputs H i t r b = (ok, b') -> cache_kept (b_cache b) (b_cache b').
Proof. intro E. apply (load_outputs_frame H) in E as (Fc & _). apply cache_kept_eq, Fc. Qed.

Lemma load_dep_outputs_cache_off cfg s : cfg_cache cfg = false -> forall f ds b ok b',
  load_dep_outputs H f cfg s ds b = (ok, b') -> cache_kept (b_cache b) (b_cache b').
Proof.
  intro Hc. induction f as [|f IH]; intros ds b ok b' E; cbn [load_dep_outputs] in E.
  { inversion E; subst. apply cache_kept_refl. }
  destruct ds as [|d0 ds']; [inversion E; subst; apply cache_kept_refl|].
  destruct (resolve s d0) as [[d dt]|]; [|eapply IH; exact E].
  destruct (rt_loaded (get_rt b d)); [eapply IH; exact E|].
  destruct (rt_key (get_rt b d)) as [dkey|]; [|inversion E; subst; apply cache_kept_refl].
  destruct (rlookup dkey (c_results (b_cache b))) as [r|]; [|eapply execute_cache_off; eauto].
  destruct (load_outputs H d dt r b) as [ok1 b1] eqn:El. apply load_outputs_cache_kept in El.
  destruct (negb ok1 || (td_nocache dt && negb (rt_loaded (get_rt b1 d)))).
  - destruct (load_dep_outputs H f cfg s (td_deps dt) b1) as [ok2 b2] eqn:E2. apply IH in E2.
    pose proof (cache_kept_trans _ _ _ El E2) as K12.
    destruct ok2; cbn [negb] in E; [|inversion E; subst; exact K12].
    destruct (execute H cfg s d dt dkey false b2) as [ok3 b3] eqn:E3.
    apply (execute_cache_off cfg s d dt dkey false b2 ok3 b3 Hc) in E3.
    pose proof (cache_kept_trans _ _ _ K12 E3) as K13.
    destruct ok3; [|inversion E; subst; exact K13].
    apply IH in E. eapply cache_kept_trans; eauto.
  - apply IH in E. eapply cache_kept_trans; eauto.
Qed.

Lemma process_target_cache_off cfg s i t b :
  cfg_cache cfg = false -> cache_kept (b_cache b) (b_cache (process_target cfg s i t b)).
Proof.
  intro Hc. unfold Build.process_target.
  destruct (dep_hashes s b (td_deps t)) as [dh|]; [|apply cache_kept_refl]. cbv zeta.
  set (b0 := set_rt b i _).
  assert (K0 : cache_kept (b_cache b) (b_cache b0)) by apply cache_kept_refl.
  clearbody b0.
  match goal with |- context [let '(hit, b1) := ?X in _] => destruct X as [hit b1] eqn:Eh end.
  assert (Hh : hit = false /\ b1 = b0).
  { destruct (rlookup _ (c_results (b_cache b0))) as [res|]; [|inversion Eh; auto].
    rewrite Hc, andb_false_r in Eh. cbn [andb] in Eh. inversion Eh; auto. }
  destruct Hh as [-> ->].
  match goal with |- context [let '(okd, b2) := ?X in _] => destruct X as [okd b2] eqn:Ed end.
  assert (K2 : cache_kept (b_cache b0) (b_cache b2)).
  { destruct (cfg_mode cfg).
    - inversion Ed; subst. apply cache_kept_refl.
    - eapply load_dep_outputs_cache_off; eauto. }
  destruct okd; cbn [negb]; [|rewrite b_cache_mark; eapply cache_kept_trans; eauto].
  match goal with |- context [let '(ok, b3) := ?X in _] => destruct X as [ok b3] eqn:Ee end.
  rewrite b_cache_mark. apply (execute_cache_off _ _ _ _ _ _ _ _ _ Hc) in Ee.
  eapply cache_kept_trans; [exact K0|]. eapply cache_kept_trans; eauto.
Qed.

Lemma process_node_cache_off cfg s sel b i :
  cfg_cache cfg = false -> cache_kept (b_cache b) (b_cache (process_node cfg s sel b i)).
Proof.
  intro Hc. unfold Build.process_node.
  destruct (negb (existsb (Nat.eqb i) sel)); [apply cache_kept_refl|].
  destruct (b_stop b); [apply cache_kept_refl|].
  destruct (node_at s i) as [nd|]; [|apply cache_kept_refl].
  destruct (negb (forallb (dep_ok b) (node_deps nd))); [apply cache_kept_refl|].
  destruct nd as [t|l a]; [|apply cache_kept_refl].
  pose proof (process_target_cache_off cfg s i t b Hc) as K.
  destruct (rt_status (get_rt (Build.process_target H cfg s i t b) i)); try exact K.
  destruct (cfg_failfast cfg); exact K.
Qed.

(* every state, every load_outputs mode: a build with the cache disabled leaves the stored results and the
   blobs as they are (it neither reads nor writes them) and adds no taint *)
Theorem cache_off_leaves_cache cfg s roots w c :
  cfg_cache cfg = false -> cache_kept c (br_cache (build cfg s roots w c)).
Proof.
  intro Hc. unfold Build.build. cbn [br_cache].
  set (b0 := mkB w c _ _ _). change c with (b_cache b0) at 1. clearbody b0.
  generalize (seq 0 (length (s_nodes s))). intro l. revert b0.
  induction l as [|i l IH]; intro b0; cbn [fold_left]; [apply cache_kept_refl|].
  eapply cache_kept_trans; [apply (process_node_cache_off cfg s (selection s roots) b0 i Hc) | apply IH].
Qed.

End Lift.
