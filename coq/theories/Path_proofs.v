From Grog Require Import Str Path.

(* Path_proofs.v -- facts about Path.v: split/join, the lexical Clean against the semantic
   walk ([resolve_from], [walk_abs]), and the string tests against component tests. *)

(* same body as Analysis.plain_comp *)
Definition plain (c : str) : Prop := c <> [] /\ ~ In ch_slash c /\ c <> dot /\ c <> dotdot.

Definition noslash (c : str) : Prop := ~ In ch_slash c.

Lemma plain_noslash c : plain c -> noslash c.
Proof. intros [_ [H _]]; exact H. Qed.

Lemma Forall_plain_noslash cs : Forall plain cs -> Forall noslash cs.
Proof. intro H. eapply Forall_impl; [|exact H]. exact plain_noslash. Qed.

(* ------------------------------------------------------------------ unfolding equations *)

Lemma split_slash_cons c s :
  split_slash (c :: s) =
  if Ascii.eqb c ch_slash then [] :: split_slash s
  else match split_slash s with [] => [[c]] | x :: r => (c :: x) :: r end.
Proof. reflexivity. Qed.

Lemma resolve_from_cons st c cs :
  resolve_from st (c :: cs) =
  if null c || str_eqb c dot then resolve_from st cs
  else if str_eqb c dotdot then
    match st with [] => None | _ :: st' => resolve_from st' cs end
  else resolve_from (c :: st) cs.
Proof. reflexivity. Qed.

Lemma walk_abs_cons st c cs :
  walk_abs st (c :: cs) =
  if null c || str_eqb c dot then walk_abs st cs
  else if str_eqb c dotdot then walk_abs (tl st) cs
  else walk_abs (c :: st) cs.
Proof. reflexivity. Qed.

Lemma fold_clean_cons b st c cs :
  fold_left (clean_step b) (c :: cs) st = fold_left (clean_step b) cs (clean_step b st c).
Proof. reflexivity. Qed.

(* the three kinds of element *)
Lemma skip_false c : null c || str_eqb c dot = false -> c <> [] /\ c <> dot.
Proof.
  intro H. apply orb_false_iff in H as [H1 H2]. split.
  - intro E; subst; discriminate.
  - apply str_eqb_neq; exact H2.
Qed.

Lemma plain_skip c : plain c -> null c || str_eqb c dot = false.
Proof.
  intros [H1 [_ [H2 _]]]. apply orb_false_iff; split.
  - destruct c; [contradiction | reflexivity].
  - apply str_eqb_neq; exact H2.
Qed.

Lemma plain_up c : plain c -> str_eqb c dotdot = false.
Proof. intros [_ [_ [_ H]]]. apply str_eqb_neq; exact H. Qed.

Lemma dotdot_skip : null dotdot || str_eqb dotdot dot = false.
Proof. reflexivity. Qed.

(* ------------------------------------------------------------------ split / join *)

Lemma split_slash_ne s : split_slash s <> [].
Proof.
  destruct s as [|c s]; [discriminate|].
  rewrite split_slash_cons.
  destruct (Ascii.eqb c ch_slash); [discriminate|].
  destruct (split_slash s); discriminate.
Qed.

(* L0 *)
Lemma split_slash_no_slash : forall s c, In c (split_slash s) -> ~ In ch_slash c.
Proof.
  induction s as [|x s IH]; intros c Hin.
  - simpl in Hin. destruct Hin as [<-|[]]. intros [].
  - rewrite split_slash_cons in Hin. destruct (Ascii.eqb x ch_slash) eqn:E.
    + destruct Hin as [<-|Hin]; [intros [] | exact (IH c Hin)].
    + destruct (split_slash s) as [|y r] eqn:Es.
      * destruct Hin as [<-|[]]. intros [H|[]].
        subst x; rewrite Ascii.eqb_refl in E; discriminate.
      * destruct Hin as [<-|Hin].
        -- intros [H|H].
           ++ subst x; rewrite Ascii.eqb_refl in E; discriminate.
           ++ exact (IH y (or_introl eq_refl) H).
        -- apply IH; right; exact Hin.
Qed.

Lemma split_slash_Forall_noslash s : Forall noslash (split_slash s).
Proof. apply Forall_forall. intros c Hc. exact (split_slash_no_slash s c Hc). Qed.

(* L0b *)
Lemma split_slash_join : forall a b,
  split_slash (a ++ ch_slash :: b) = split_slash a ++ split_slash b.
Proof.
  induction a as [|x a IH]; intro b.
  - simpl app. rewrite split_slash_cons, Ascii.eqb_refl. reflexivity.
  - change ((x :: a) ++ ch_slash :: b) with (x :: (a ++ ch_slash :: b)).
    rewrite !split_slash_cons, IH.
    destruct (Ascii.eqb x ch_slash); [reflexivity|].
    destruct (split_slash a) as [|y r] eqn:Ea; [|reflexivity].
    exfalso; exact (split_slash_ne a Ea).
Qed.

Lemma split_slash_noslash s : noslash s -> split_slash s = [s].
Proof.
  unfold noslash. induction s as [|x s IH]; intro H; [reflexivity|].
  rewrite split_slash_cons. destruct (Ascii.eqb x ch_slash) eqn:E.
  - apply Ascii.eqb_eq in E; subst x. exfalso; apply H; left; reflexivity.
  - rewrite IH; [reflexivity|]. intro Hs; apply H; right; exact Hs.
Qed.

Lemma join_cons2 sep x y l : join sep (x :: y :: l) = x ++ sep ++ join sep (y :: l).
Proof. reflexivity. Qed.

Lemma split_join_noslash cs :
  cs <> [] -> Forall noslash cs -> split_slash (join slash cs) = cs.
Proof.
  induction cs as [|x cs IH]; intros Hne Hall; [contradiction|].
  inversion Hall as [|x' cs' Hx Hcs]; subst.
  destruct cs as [|y l].
  - simpl. apply split_slash_noslash; exact Hx.
  - rewrite join_cons2.
    change (x ++ slash ++ join slash (y :: l)) with (x ++ ch_slash :: join slash (y :: l)).
    rewrite split_slash_join, IH; [|discriminate|exact Hcs].
    rewrite split_slash_noslash; [reflexivity | exact Hx].
Qed.

(* L0c *)
Lemma split_join_plain : forall cs,
  cs <> [] -> Forall plain cs -> split_slash (join slash cs) = cs.
Proof.
  intros cs Hne Hall. apply split_join_noslash; [exact Hne|].
  apply Forall_plain_noslash; exact Hall.
Qed.

Lemma join_app sep d r :
  d <> [] -> r <> [] -> join sep (d ++ r) = join sep d ++ sep ++ join sep r.
Proof.
  induction d as [|x d IH]; intros Hd Hr; [contradiction|].
  destruct d as [|y d].
  - destruct r as [|z r]; [contradiction|]. reflexivity.
  - change ((x :: y :: d) ++ r) with (x :: y :: (d ++ r)).
    rewrite !join_cons2.
    change (y :: d ++ r) with ((y :: d) ++ r).
    rewrite IH; [|discriminate|exact Hr].
    rewrite <- !app_assoc. reflexivity.
Qed.

(* ------------------------------------------------------------------ resolve_from *)

(* L1 (with the extra hypothesis that the elements contain no '/') *)
Lemma resolve_from_plain : forall cs st r,
  Forall plain st -> (forall c, In c cs -> ~ In ch_slash c) ->
  resolve_from st cs = Some r -> Forall plain r.
Proof.
  induction cs as [|c cs IH]; intros st r Hst Hns Hr.
  - simpl in Hr. inversion Hr; subst. apply Forall_rev; exact Hst.
  - rewrite resolve_from_cons in Hr.
    assert (Hns' : forall c0, In c0 cs -> ~ In ch_slash c0)
      by (intros c0 H0; apply Hns; right; exact H0).
    destruct (null c || str_eqb c dot) eqn:E1.
    + exact (IH st r Hst Hns' Hr).
    + destruct (str_eqb c dotdot) eqn:E2.
      * destruct st as [|t st']; [discriminate|].
        apply Forall_inv_tail in Hst. exact (IH st' r Hst Hns' Hr).
      * apply (IH (c :: st) r); [|exact Hns'|exact Hr].
        constructor; [|exact Hst].
        apply skip_false in E1 as [Ha Hb]. apply str_eqb_neq in E2.
        repeat split; try assumption. apply Hns; left; reflexivity.
Qed.

Lemma resolve_from_split2_plain a b r :
  resolve_from [] (split_slash a ++ split_slash b) = Some r -> Forall plain r.
Proof.
  intro Hr. eapply resolve_from_plain; [constructor| |exact Hr].
  intros c Hin. apply in_app_or in Hin as [H|H]; eapply split_slash_no_slash; exact H.
Qed.

Lemma resolve_plain p r : resolve p = Some r -> Forall plain r.
Proof.
  unfold resolve. intro Hr. eapply resolve_from_plain; [constructor| |exact Hr].
  intros c Hin. eapply split_slash_no_slash; exact Hin.
Qed.

(* plain elements are all pushed *)
Lemma resolve_from_plain_id r : forall st,
  Forall plain r -> resolve_from st r = Some (rev st ++ r).
Proof.
  induction r as [|c r IH]; intros st Hall.
  - simpl. rewrite app_nil_r. reflexivity.
  - inversion Hall as [|c' r' Hc Hr]; subst.
    rewrite resolve_from_cons, (plain_skip c Hc), (plain_up c Hc), (IH (c :: st) Hr).
    simpl. rewrite <- app_assoc. reflexivity.
Qed.

(* a walk that stays inside is what Clean computes (relative case) *)
Lemma resolve_clean_stack : forall cs st r,
  ~ In dotdot st -> resolve_from st cs = Some r ->
  fold_left (clean_step false) cs st = rev r.
Proof.
  induction cs as [|c cs IH]; intros st r Hdd Hr.
  - simpl in *. inversion Hr; subst. rewrite rev_involutive. reflexivity.
  - rewrite resolve_from_cons in Hr. rewrite fold_clean_cons. unfold clean_step.
    destruct (null c || str_eqb c dot) eqn:E1.
    + apply IH; assumption.
    + destruct (str_eqb c dotdot) eqn:E2.
      * destruct st as [|t st']; [discriminate|].
        assert (Et : str_eqb t dotdot = false).
        { apply str_eqb_neq. intro; subst. apply Hdd; left; reflexivity. }
        rewrite Et. apply IH; [|exact Hr]. intro H; apply Hdd; right; exact H.
      * apply IH; [|exact Hr]. intros [H|H]; [|exact (Hdd H)].
        subst c. rewrite str_eqb_refl in E2; discriminate.
Qed.

Lemma clean_rel_unfold p :
  p <> [] -> is_abs p = false ->
  clean p = if null (render (clean_stack false (split_slash p))) then dot
            else render (clean_stack false (split_slash p)).
Proof.
  intros Hne Habs. unfold clean.
  destruct (null p) eqn:En; [destruct p; [contradiction | discriminate]|].
  cbv zeta. rewrite Habs. reflexivity.
Qed.

Lemma resolve_nil : resolve [] = Some [].
Proof. reflexivity. Qed.

Lemma join_plain_nonnull c cs : plain c -> null (join slash (c :: cs)) = false.
Proof.
  intros [Hne _]. destruct c as [|a c]; [contradiction|].
  destruct cs; reflexivity.
Qed.

Lemma is_abs_join_plain c cs : plain c -> is_abs (join slash (c :: cs)) = false.
Proof.
  intros [Hne [Hns _]]. destruct c as [|a c]; [contradiction|].
  assert (E : Ascii.eqb a ch_slash = false).
  { destruct (Ascii.eqb a ch_slash) eqn:E; [|reflexivity].
    apply Ascii.eqb_eq in E; subst a. exfalso; apply Hns; left; reflexivity. }
  destruct cs; simpl; exact E.
Qed.

(* Clean of a relative path whose walk stays inside renders the walk's result *)
Lemma clean_rel p r :
  is_abs p = false -> resolve p = Some r ->
  clean p = match r with [] => dot | _ :: _ => join slash r end.
Proof.
  intros Habs Hr. destruct p as [|x p].
  - rewrite resolve_nil in Hr. inversion Hr; subst. reflexivity.
  - rewrite clean_rel_unfold; [|discriminate|exact Habs].
    unfold clean_stack. unfold resolve in Hr.
    rewrite (resolve_clean_stack _ [] r (fun H => H) Hr).
    unfold render. rewrite rev_involutive.
    destruct r as [|c cs]; [reflexivity|].
    assert (Hc : plain c).
    { apply (Forall_inv (l := cs)). eapply resolve_from_plain; [constructor| |exact Hr].
      intros c0 Hin. eapply split_slash_no_slash; exact Hin. }
    rewrite (join_plain_nonnull c cs Hc). reflexivity.
Qed.

Lemma resolve_join_plain r : r <> [] -> Forall plain r -> resolve (join slash r) = Some r.
Proof.
  intros Hne Hall. unfold resolve. rewrite split_join_plain; [|exact Hne|exact Hall].
  rewrite resolve_from_plain_id; [reflexivity | exact Hall].
Qed.

(* Clean is the identity on rendered plain elements *)
Lemma clean_join_plain r : r <> [] -> Forall plain r -> clean (join slash r) = join slash r.
Proof.
  intros Hne Hall. destruct r as [|c cs]; [contradiction|].
  rewrite (clean_rel _ (c :: cs)); [reflexivity| |].
  - apply is_abs_join_plain. exact (Forall_inv Hall).
  - apply resolve_join_plain; assumption.
Qed.

Lemma join_path_nil_l id : join_path [[]; id] = if null id then [] else clean id.
Proof. reflexivity. Qed.

Lemma join_path_cons_l x pkg id :
  join_path [x :: pkg; id] = clean ((x :: pkg) ++ ch_slash :: id).
Proof. reflexivity. Qed.

Lemma clean_render_rel r : Forall plain r -> clean (render_rel r) = render_rel r.
Proof.
  destruct r as [|c cs]; [reflexivity|]. intro F. apply clean_join_plain; [discriminate | exact F].
Qed.

(* L2 (with the two hypotheses ruling out a rooted join): the lexical form writes the elements
   of the walk from the workspace root, "." when the walk ends at the root itself *)
Lemma lexical_output_path_rel : forall pkg id r,
  resolve_from [] (split_slash pkg ++ split_slash id) = Some r ->
  is_abs pkg = false -> (pkg = [] -> is_abs id = false) ->
  lexical_output_path pkg id = render_rel r.
Proof.
  intros pkg id r Hr Hpkg Hid. unfold lexical_output_path.
  assert (Hpl : Forall plain r) by exact (resolve_from_split2_plain pkg id _ Hr).
  destruct pkg as [|x pkg].
  - change (split_slash [] ++ split_slash id) with ([] :: split_slash id) in Hr.
    rewrite resolve_from_cons in Hr. simpl (null [] || _) in Hr. cbv iota in Hr.
    rewrite join_path_nil_l. destruct id as [|y id].
    + simpl in Hr. inversion Hr; subst. reflexivity.
    + simpl null. cbv iota.
      rewrite (clean_rel (y :: id) r (Hid eq_refl) Hr).
      exact (clean_render_rel r Hpl).
  - rewrite join_path_cons_l.
    rewrite (clean_rel ((x :: pkg) ++ ch_slash :: id) r).
    + exact (clean_render_rel r Hpl).
    + exact Hpkg.
    + unfold resolve. rewrite split_slash_join. exact Hr.
Qed.

Lemma lexical_output_path_plain : forall pkg id c cs,
  resolve_from [] (split_slash pkg ++ split_slash id) = Some (c :: cs) ->
  is_abs pkg = false -> (pkg = [] -> is_abs id = false) ->
  lexical_output_path pkg id = join slash (c :: cs).
Proof.
  intros pkg id c cs Hr Hpkg Hid. exact (lexical_output_path_rel pkg id (c :: cs) Hr Hpkg Hid).
Qed.

(* ------------------------------------------------------------------ absolute walk *)

Lemma walk_abs_plain_prefix rootc : forall st cs,
  Forall plain rootc -> walk_abs st (rootc ++ cs) = walk_abs (rev rootc ++ st) cs.
Proof.
  induction rootc as [|c rootc IH]; intros st cs Hall; [reflexivity|].
  inversion Hall as [|c' r' Hc Hr]; subst.
  change ((c :: rootc) ++ cs) with (c :: (rootc ++ cs)).
  rewrite walk_abs_cons, (plain_skip c Hc), (plain_up c Hc), (IH (c :: st) cs Hr).
  simpl. rewrite <- app_assoc. reflexivity.
Qed.

(* a walk that stays inside its starting directory is the same walk below any base *)
Lemma resolve_walk_abs : forall cs st base r,
  resolve_from st cs = Some r -> walk_abs (st ++ base) cs = rev base ++ r.
Proof.
  induction cs as [|c cs IH]; intros st base r Hr.
  - simpl in *. inversion Hr; subst. apply rev_app_distr.
  - rewrite resolve_from_cons in Hr. rewrite walk_abs_cons.
    destruct (null c || str_eqb c dot) eqn:E1.
    + apply IH; exact Hr.
    + destruct (str_eqb c dotdot) eqn:E2.
      * destruct st as [|t st']; [discriminate|]. simpl tl. apply IH; exact Hr.
      * change (c :: st ++ base) with ((c :: st) ++ base). apply IH; exact Hr.
Qed.

(* L3 *)
Lemma location_plain : forall rootc pkg id r, Forall plain rootc ->
  resolve_from [] (split_slash pkg ++ split_slash id) = Some r ->
  location rootc pkg id = rootc ++ r.
Proof.
  intros rootc pkg id r Hroot Hr. unfold location.
  rewrite walk_abs_plain_prefix; [|exact Hroot]. rewrite app_nil_r.
  pose proof (resolve_walk_abs _ [] (rev rootc) r Hr) as H.
  rewrite rev_involutive in H. exact H.
Qed.

(* rooted Clean and the absolute walk are the same machine *)
Lemma clean_stack_true_walk : forall cs st,
  ~ In dotdot st -> rev (fold_left (clean_step true) cs st) = walk_abs st cs.
Proof.
  induction cs as [|c cs IH]; intros st Hdd; [reflexivity|].
  rewrite fold_clean_cons, walk_abs_cons. unfold clean_step.
  destruct (null c || str_eqb c dot) eqn:E1.
  - apply IH; exact Hdd.
  - destruct (str_eqb c dotdot) eqn:E2.
    + destruct st as [|t st'].
      * simpl tl. apply IH; exact Hdd.
      * assert (Et : str_eqb t dotdot = false).
        { apply str_eqb_neq. intro; subst. apply Hdd; left; reflexivity. }
        rewrite Et. simpl tl. apply IH. intro H; apply Hdd; right; exact H.
    + apply IH. intros [H|H]; [|exact (Hdd H)].
      subst c. rewrite str_eqb_refl in E2; discriminate.
Qed.

Lemma comps_prefix_spec a : forall b, comps_prefix a b = true <-> exists r, b = a ++ r.
Proof.
  induction a as [|x a IH]; intros b; simpl.
  - split; [intros _; exists b; reflexivity | reflexivity].
  - destruct b as [|y b]; split; intro H; try discriminate.
    + destruct H as [r Hr]; discriminate.
    + apply andb_true_iff in H as [H1 H2]. apply str_eqb_eq in H1; subst y.
      apply IH in H2 as [r ->]. exists r; reflexivity.
    + destruct H as [r Hr]. inversion Hr; subst. apply andb_true_iff; split;
        [apply str_eqb_refl | apply IH; exists r; reflexivity].
Qed.

(* L3b *)
Lemma is_within_workspace_spec : forall rootc pkg rel, Forall plain rootc ->
  (is_within_workspace rootc pkg rel = true <->
   exists r, location rootc pkg rel = rootc ++ r).
Proof.
  intros rootc pkg rel _. unfold is_within_workspace, location, clean_stack.
  rewrite clean_stack_true_walk; [|intros []].
  apply comps_prefix_spec.
Qed.

(* ------------------------------------------------------------------ the workspace-relative form *)

(* the elements of an absolute location are plain *)
Lemma walk_abs_plain : forall cs st,
  Forall plain st -> (forall c, In c cs -> ~ In ch_slash c) -> Forall plain (walk_abs st cs).
Proof.
  induction cs as [|c cs IH]; intros st Hst Hns.
  - simpl. apply Forall_rev; exact Hst.
  - rewrite walk_abs_cons.
    assert (Hns' : forall c0, In c0 cs -> ~ In ch_slash c0)
      by (intros c0 H0; apply Hns; right; exact H0).
    destruct (null c || str_eqb c dot) eqn:E1.
    + exact (IH st Hst Hns').
    + destruct (str_eqb c dotdot) eqn:E2.
      * apply IH; [|exact Hns']. destruct st as [|t st']; [constructor|].
        apply Forall_inv_tail in Hst. exact Hst.
      * apply IH; [|exact Hns']. constructor; [|exact Hst].
        apply skip_false in E1 as [Ha Hb]. apply str_eqb_neq in E2.
        repeat split; try assumption. apply Hns; left; reflexivity.
Qed.

Lemma location_plain_comps rootc pkg id : Forall plain rootc -> Forall plain (location rootc pkg id).
Proof.
  intro Hr. unfold location. apply walk_abs_plain; [constructor|].
  intros c Hin. apply in_app_or in Hin as [H|H].
  - rewrite Forall_forall in Hr. exact (plain_noslash c (Hr c H)).
  - apply in_app_or in H as [H|H]; eapply split_slash_no_slash; exact H.
Qed.

(* Rel to a base that is a prefix: the remaining elements, no ".." *)
Lemma rel_comps_prefix base r : rel_comps base (base ++ r) = r.
Proof.
  induction base as [|b base IH]; simpl.
  - destruct r; reflexivity.
  - rewrite str_eqb_refl. exact IH.
Qed.

(* workspaceRelativePath is Rel of the location *)
Lemma workspace_relative_location rootc pkg id :
  workspace_relative rootc pkg id = rel_comps rootc (location rootc pkg id).
Proof.
  unfold workspace_relative, location, clean_stack.
  rewrite clean_stack_true_walk; [reflexivity | intros []].
Qed.

(* L2': for an output INSIDE the workspace, however it is spelled, cleanOutputPath writes the
   elements of its location below the root, "." when it is the root itself *)
Lemma clean_output_path_within rootc pkg id r :
  location rootc pkg id = rootc ++ r -> clean_output_path rootc pkg id = render_rel r.
Proof.
  intro Hl. unfold clean_output_path. rewrite workspace_relative_location, Hl, rel_comps_prefix.
  reflexivity.
Qed.

(* the repair is conservative: on a spelling that never climbs above the root the new key is the
   old, lexical one *)
Lemma clean_output_path_lexical rootc pkg id : Forall plain rootc ->
  resolve_from [] (split_slash pkg ++ split_slash id) <> None ->
  is_abs pkg = false -> (pkg = [] -> is_abs id = false) ->
  clean_output_path rootc pkg id = lexical_output_path pkg id.
Proof.
  intros Hroot Hres Hpkg Hid.
  destruct (resolve_from [] (split_slash pkg ++ split_slash id)) as [r|] eqn:Hr; [|contradiction].
  rewrite (lexical_output_path_rel pkg id r Hr Hpkg Hid).
  apply clean_output_path_within. exact (location_plain rootc pkg id r Hroot Hr).
Qed.

(* ------------------------------------------------------------------ string tests vs elements *)

(* L4 *)
Lemma join_slash_inj : forall a b, a <> [] -> b <> [] -> Forall plain a -> Forall plain b ->
  join slash a = join slash b -> a = b.
Proof.
  intros a b Ha Hb Fa Fb E. apply (f_equal split_slash) in E.
  rewrite (split_join_plain a Ha Fa), (split_join_plain b Hb Fb) in E. exact E.
Qed.

(* ------------------------------------------------------------------ escaping walks *)

Lemma dotdot_noslash : noslash dotdot.
Proof.
  intros [H|[H|[]]]; apply Ascii.eqb_eq in H; discriminate H.
Qed.

(* once the bottom of the stack is "..", it stays *)
Lemma clean_step_bottom c st :
  exists st', clean_step false (st ++ [dotdot]) c = st' ++ [dotdot].
Proof.
  unfold clean_step. destruct (null c || str_eqb c dot) eqn:E1; [exists st; reflexivity|].
  destruct (str_eqb c dotdot) eqn:E2; [|exists (c :: st); reflexivity].
  destruct st as [|t st'].
  - exists [dotdot]. reflexivity.
  - change ((t :: st') ++ [dotdot]) with (t :: (st' ++ [dotdot])). cbv beta iota.
    destruct (str_eqb t dotdot).
    + exists (dotdot :: t :: st'). reflexivity.
    + exists st'. reflexivity.
Qed.

Lemma fold_clean_bottom : forall cs st,
  exists st', fold_left (clean_step false) cs (st ++ [dotdot]) = st' ++ [dotdot].
Proof.
  induction cs as [|c cs IH]; intro st; [exists st; reflexivity|].
  rewrite fold_clean_cons. destruct (clean_step_bottom c st) as [st1 H1].
  rewrite H1. apply IH.
Qed.

(* a walk that leaves leaves ".." at the bottom of Clean's stack *)
Lemma resolve_none_stack : forall cs st,
  ~ In dotdot st -> resolve_from st cs = None ->
  exists st', fold_left (clean_step false) cs st = st' ++ [dotdot].
Proof.
  induction cs as [|c cs IH]; intros st Hdd Hr; [discriminate|].
  rewrite resolve_from_cons in Hr. rewrite fold_clean_cons. unfold clean_step.
  destruct (null c || str_eqb c dot) eqn:E1.
  - apply IH; assumption.
  - destruct (str_eqb c dotdot) eqn:E2.
    + destruct st as [|t st'].
      * apply (fold_clean_bottom cs []).
      * assert (Et : str_eqb t dotdot = false).
        { apply str_eqb_neq. intro; subst. apply Hdd; left; reflexivity. }
        rewrite Et. apply IH; [|exact Hr]. intro H; apply Hdd; right; exact H.
    + apply IH; [|exact Hr]. intros [H|H]; [|exact (Hdd H)].
      subst c. rewrite str_eqb_refl in E2; discriminate.
Qed.

Lemma clean_step_noslash b st c :
  Forall noslash st -> noslash c -> Forall noslash (clean_step b st c).
Proof.
  intros Hst Hc. unfold clean_step.
  destruct (null c || str_eqb c dot); [exact Hst|].
  destruct (str_eqb c dotdot); [|constructor; assumption].
  destruct st as [|t st'].
  - destruct b; [constructor | constructor; [exact dotdot_noslash | constructor]].
  - destruct (str_eqb t dotdot).
    + constructor; [exact dotdot_noslash | exact Hst].
    + exact (Forall_inv_tail Hst).
Qed.

Lemma fold_clean_noslash b : forall cs st,
  Forall noslash st -> Forall noslash cs -> Forall noslash (fold_left (clean_step b) cs st).
Proof.
  induction cs as [|c cs IH]; intros st Hst Hcs; [exact Hst|].
  rewrite fold_clean_cons. apply IH.
  - apply clean_step_noslash; [exact Hst | exact (Forall_inv Hcs)].
  - exact (Forall_inv_tail Hcs).
Qed.

(* Clean of a relative path whose walk leaves: a leading ".." element *)
Lemma clean_rel_none p :
  is_abs p = false -> resolve p = None ->
  exists rest, clean p = join slash (dotdot :: rest) /\ Forall noslash rest.
Proof.
  intros Habs Hr.
  assert (Hne : p <> []) by (intro; subst p; rewrite resolve_nil in Hr; discriminate).
  rewrite (clean_rel_unfold p Hne Habs). unfold clean_stack. unfold resolve in Hr.
  destruct (resolve_none_stack _ [] (fun H => H) Hr) as [st' Hst'].
  assert (Hns : Forall noslash (st' ++ [dotdot])).
  { rewrite <- Hst'. apply fold_clean_noslash; [constructor | apply split_slash_Forall_noslash]. }
  rewrite Hst'. unfold render. rewrite rev_app_distr.
  change (rev [dotdot] ++ rev st') with (dotdot :: rev st').
  exists (rev st'). split.
  - destruct (rev st'); reflexivity.
  - apply Forall_rev. apply Forall_app in Hns as [Hns _]. exact Hns.
Qed.

Lemma escape_dotdot rest :
  has_prefix dotdot_slash (join slash (dotdot :: rest))
  || str_eqb (join slash (dotdot :: rest)) dotdot = true.
Proof.
  destruct rest as [|y l]; [reflexivity|].
  rewrite join_cons2.
  change (dotdot ++ slash ++ join slash (y :: l)) with (dotdot_slash ++ join slash (y :: l)).
  rewrite has_prefix_app. reflexivity.
Qed.

Lemma not_escape_plain c cs :
  plain c ->
  has_prefix dotdot_slash (join slash (c :: cs))
  || str_eqb (join slash (c :: cs)) dotdot = false.
Proof.
  intros [Hne [Hns [Hd Hdd]]]. apply orb_false_iff; split.
  - destruct (has_prefix dotdot_slash (join slash (c :: cs))) eqn:E; [|reflexivity].
    exfalso. apply has_prefix_spec in E as [rest E].
    destruct cs as [|y l].
    + simpl in E. apply Hns. rewrite E. right; right; left; reflexivity.
    + rewrite join_cons2 in E.
      change (c ++ slash ++ join slash (y :: l)) with (c ++ ch_slash :: join slash (y :: l)) in E.
      change (dotdot_slash ++ rest) with (dotdot ++ ch_slash :: rest) in E.
      apply (f_equal (split_first ch_slash)) in E.
      rewrite (split_first_app _ _ _ Hns), (split_first_app _ _ _ dotdot_noslash) in E.
      inversion E as [[E1 E2]]. exact (Hdd E1).
  - apply str_eqb_neq. intro E. destruct cs as [|y l].
    + simpl in E. exact (Hdd E).
    + rewrite join_cons2 in E. apply dotdot_noslash. rewrite <- E.
      apply in_or_app; right; left; reflexivity.
Qed.

(* L6 *)
Lemma tries_to_escape_resolve : forall p, is_abs p = false ->
  (tries_to_escape p = true <-> resolve p = None).
Proof.
  intros p Habs. unfold tries_to_escape. cbv zeta.
  destruct (resolve p) as [r|] eqn:Hr.
  - split; [|discriminate]. intro H. exfalso.
    rewrite (clean_rel p r Habs Hr) in H. destruct r as [|c cs]; [discriminate H|].
    rewrite not_escape_plain in H; [discriminate|].
    exact (Forall_inv (resolve_plain p _ Hr)).
  - split; [reflexivity|]. intros _.
    destruct (clean_rel_none p Habs Hr) as [rest [Hc _]].
    rewrite Hc. apply escape_dotdot.
Qed.

(* ------------------------------------------------------------------ pathWithin vs elements *)

(* a rendered non-empty list of plain elements is not "." *)
Lemma join_plain_not_dot d : d <> [] -> Forall plain d -> str_eqb (join slash d) dot = false.
Proof.
  intros Hd Fd. apply str_eqb_neq. intro E. apply (f_equal split_slash) in E.
  rewrite (split_join_plain d Hd Fd) in E. change (split_slash dot) with [dot] in E. subst d.
  destruct (Forall_inv Fd) as [_ [_ [H _]]]. apply H; reflexivity.
Qed.

Lemma tries_to_escape_join_plain c cs :
  Forall plain (c :: cs) -> tries_to_escape (join slash (c :: cs)) = false.
Proof.
  intro F. unfold tries_to_escape. cbv zeta. rewrite clean_join_plain; [|discriminate|exact F].
  apply not_escape_plain. exact (Forall_inv F).
Qed.

(* L5: below a named directory the separator decides (dist / dist2) *)
Lemma path_within_comps : forall a d, a <> [] -> d <> [] -> Forall plain a -> Forall plain d ->
  (path_within (join slash a) (join slash d) = true <-> exists r, a = d ++ r).
Proof.
  intros a d Ha Hd Fa Fd. unfold path_within. rewrite (join_plain_not_dot d Hd Fd). split.
  - intro H. apply orb_true_iff in H as [H|H].
    + apply str_eqb_eq in H. apply (join_slash_inj a d Ha Hd Fa Fd) in H.
      exists []. rewrite app_nil_r. exact H.
    + apply has_prefix_spec in H as [rest Hrest].
      apply (f_equal split_slash) in Hrest.
      rewrite (split_join_plain a Ha Fa) in Hrest.
      rewrite <- app_assoc in Hrest.
      change (slash ++ rest) with (ch_slash :: rest) in Hrest.
      rewrite split_slash_join, (split_join_plain d Hd Fd) in Hrest.
      exists (split_slash rest). exact Hrest.
  - intros [r Hr]. subst a. destruct r as [|x r].
    + rewrite app_nil_r, str_eqb_refl. reflexivity.
    + apply orb_true_iff; right.
      rewrite join_app; [|exact Hd|discriminate].
      rewrite app_assoc. apply has_prefix_app.
Qed.

Lemma dot_not_join_plain y d : Forall plain (y :: d) -> dot <> join slash (y :: d).
Proof.
  intros Fd E.
  assert (H : str_eqb (join slash (y :: d)) dot = true) by (apply str_eqb_eq; symmetry; exact E).
  rewrite join_plain_not_dot in H; [discriminate H | discriminate | exact Fd].
Qed.

(* L5b: the same for paths written the way Clean writes them, the root "." included:
   pathWithin = prefix on path elements *)
Lemma path_within_rel : forall a d, Forall plain a -> Forall plain d ->
  (path_within (render_rel a) (render_rel d) = true <-> exists r, a = d ++ r).
Proof.
  intros a d Fa Fd. destruct d as [|y d]; destruct a as [|x a].
  - split; [intros _; exists []; reflexivity | intros _; reflexivity].
  - split; [intros _; exists (x :: a); reflexivity|]. intros _.
    unfold render_rel, path_within. change (str_eqb dot dot) with true. cbv iota.
    rewrite (is_abs_join_plain x a (Forall_inv Fa)), (tries_to_escape_join_plain x a Fa).
    apply orb_true_r.
  - split; [|intros [r Hr]; discriminate Hr]. intro H. exfalso.
    unfold render_rel, path_within in H.
    rewrite (join_plain_not_dot (y :: d)) in H; [|discriminate|exact Fd].
    apply orb_true_iff in H as [H|H].
    + apply str_eqb_eq in H. exact (dot_not_join_plain y d Fd H).
    + apply has_prefix_spec in H as [rest E].
      assert (Hin : In ch_slash dot).
      { rewrite E. apply in_or_app; left. apply in_or_app; right. left; reflexivity. }
      destruct Hin as [Hc|[]]. discriminate Hc.
  - unfold render_rel. apply path_within_comps; try discriminate; assumption.
Qed.

Lemma render_rel_inj a b : Forall plain a -> Forall plain b -> render_rel a = render_rel b -> a = b.
Proof.
  intros Fa Fb E. destruct a as [|x a], b as [|y b]; unfold render_rel in E.
  - reflexivity.
  - exfalso. exact (dot_not_join_plain y b Fb E).
  - exfalso. symmetry in E. exact (dot_not_join_plain x a Fa E).
  - apply join_slash_inj; try discriminate; assumption.
Qed.

(* ------------------------------------------------------------------ DESIGN.md's lemmas *)

(* L7 *)
Lemma clean_semantics : forall p, is_abs p = false -> resolve (clean p) = resolve p.
Proof.
  intros p Habs. destruct (resolve p) as [r|] eqn:Hr.
  - rewrite (clean_rel p r Habs Hr). destruct r as [|c cs]; [reflexivity|].
    apply resolve_join_plain; [discriminate | exact (resolve_plain p _ Hr)].
  - destruct (clean_rel_none p Habs Hr) as [rest [Hc Hns]].
    rewrite Hc. unfold resolve.
    rewrite split_join_noslash; [reflexivity | discriminate |].
    constructor; [exact dotdot_noslash | exact Hns].
Qed.

(* L8 *)
Lemma clean_eq_iff_resolve : forall p q, is_abs p = false -> is_abs q = false ->
  resolve p <> None -> resolve q <> None ->
  (clean p = clean q <-> resolve p = resolve q).
Proof.
  intros p q Hp Hq Np Nq. split; intro E.
  - rewrite <- (clean_semantics p Hp), <- (clean_semantics q Hq), E. reflexivity.
  - destruct (resolve p) as [r|] eqn:Hr; [|exfalso; apply Np; reflexivity].
    symmetry in E. rewrite (clean_rel p r Hp Hr), (clean_rel q r Hq E). reflexivity.
Qed.
