(* Build_ideal.v -- the clean ("ideal") semantics of one source snapshot, standalone, and the
   guards / invariants of property C01 over Build.v.  Definitions only (proofs: Build_c01_proofs.v).

   [ideal s] is indexed like [s_nodes s] and is computed left to right.  The entry of a target is
   [Some d] exactly when every dependency (alias-resolved) has an entry, none of these has the
   empty string as output hash (grog refuses to key a target on an empty dependency hash: the
   clause mirrors [dep_hashes]; it is dead as soon as the digest never returns ""), and the
   command of the target runs to successful completion ([beh_ok]).  [d] carries the bytes every
   declared output gets, the output hash and the change key of a from-scratch build, and whether
   the target is tagged no-cache ([i_nc]: such a target is never restored; its execution stores an
   output-less record and puts no blob into the CAS). *)
From Coq Require Import List Ascii Bool Arith.
From Grog Require Import Str Label HashKey Build.
Import ListNotations.

Section Ideal.
Variable H : str -> str.

Record idata := mkI {
  i_outs  : list (outdef * str);     (* declared output, content; in td_outs order *)
  i_ohash : str;
  i_key   : str;
  i_nc    : bool                     (* td_nocache of the target *)
}.

(* the command of t runs to completion, creates every declared output and its own output check
   holds afterwards.  (BSkipOutput k with k past the last declared output skips nothing;
   BBreakCheck only matters when the target has an output check.) *)
Definition beh_ok (t : tdef) : bool :=
  match td_beh t with
  | BNormal => true
  | BSkipOutput k => length (td_outs t) <=? k
  | BBreakCheck => negb (td_check t)
  | BFail | BFailAfter => false
  end.

(* the ideal data of the direct, alias-resolved dependencies, in declaration order *)
Fixpoint ideal_deps (s : sources) (acc : list (option idata)) (ds : list nat)
  : option (list (tdef * idata)) :=
  match ds with
  | [] => Some []
  | d :: ds' =>
      match resolve s d with
      | None => None
      | Some (j, dt) =>
          match nth j acc None, ideal_deps s acc ds' with
          | Some dj, Some rest => if null (i_ohash dj) then None else Some ((dt, dj) :: rest)
          | _, _ => None
          end
      end
  end.

(* what the command reads from its dependencies: exactly [dep_parts] over the ideal contents *)
Fixpoint ideal_parts_of (dt : tdef) (ocs : list (outdef * str)) : str :=
  match ocs with
  | [] => []
  | (o, c) :: r => ["D"%char] ++ sp ++ out_path dt o ++ nl ++ c ++ nl ++ ideal_parts_of dt r
  end.

Fixpoint ideal_reads (deps : list (tdef * idata)) : str :=
  match deps with
  | [] => []
  | (dt, dj) :: r => ideal_parts_of dt (i_outs dj) ++ ideal_reads r
  end.

Fixpoint ideal_outs (s : sources) (t : tdef) (k : nat) (outs : list outdef) (reads : str)
  : list (outdef * str) :=
  match outs with
  | [] => []
  | o :: r => (o, content_of s t k o reads) :: ideal_outs s t (S k) r reads
  end.

Definition ideal_key (s : sources) (t : tdef) (deps : list (tdef * idata)) : str :=
  change_key H (pkg_fs s t) (state_of t (map (fun e => dep_contrib (fst e) (i_ohash (snd e))) deps)).

(* (output definition, digest) of one declared output holding content [snd e] *)
Definition out_pair (e : outdef * str) : str * str := (out_def (fst e), out_digest H (fst e) (snd e)).

(* OnTargetComplete, cache enabled: the no-cache branch comes first (GetNoCacheOutputHash over the
   "<definition>=<digest>" items of every declared output; for a no-cache target WITHOUT outputs this is
   the hash of the empty item list, not the key); a cacheable target without outputs gets its key *)
Definition ideal_ohash (t : tdef) (key : str) (outs : list (outdef * str)) : str :=
  if td_nocache t then nocache_output_hash H (map out_pair outs)
  else match td_outs t with
       | [] => key
       | _ => output_hash H (map (fun e => ser_out (fst e) (out_digest H (fst e) (snd e))) outs)
       end.

Definition ideal_target (s : sources) (acc : list (option idata)) (t : tdef) : option idata :=
  match ideal_deps s acc (td_deps t) with
  | None => None
  | Some deps =>
      if beh_ok t then
        let key := ideal_key s t deps in
        let outs := ideal_outs s t 0 (td_outs t) (ideal_reads deps) in
        Some (mkI outs (ideal_ohash t key outs) key (td_nocache t))
      else None
  end.

(* the key a from-scratch build computes for t: defined as soon as the dependencies are there,
   whether or not the command of t then succeeds *)
Definition ideal_key_of (s : sources) (acc : list (option idata)) (t : tdef) : option str :=
  match ideal_deps s acc (td_deps t) with
  | None => None
  | Some deps => Some (ideal_key s t deps)
  end.

Definition ideal_entry (s : sources) (acc : list (option idata)) (n : ndef) : option idata :=
  match n with
  | NTarget t => ideal_target s acc t
  | NAlias _ a => nth a acc None
  end.

(* entries of the nodes 0 .. k-1 *)
Fixpoint ideal_upto (s : sources) (k : nat) : list (option idata) :=
  match k with
  | 0 => []
  | S k' =>
      let acc := ideal_upto s k' in
      acc ++ [match node_at s k' with Some n => ideal_entry s acc n | None => None end]
  end.

Definition ideal (s : sources) : list (option idata) := ideal_upto s (length (s_nodes s)).

Definition ideal_key_at (s : sources) (j : nat) : option str :=
  match node_at s j with
  | Some (NTarget t) => ideal_key_of s (ideal_upto s j) t
  | _ => None
  end.

(* ------------------------------------------------------------------ guards *)
Definition node_paths (n : ndef) : list str :=
  match n with NTarget t => map (out_path t) (td_outs t) | NAlias _ _ => [] end.
Definition all_out_paths (s : sources) : list str := flat_map node_paths (s_nodes s).

(* no two declared outputs (of one or of two targets) are the same workspace path *)
Definition no_overwrite (s : sources) : Prop := NoDup (all_out_paths s).

(* every target has a command (command-less targets stay excluded; no-cache targets are admitted) *)
Definition plain_node (n : ndef) : bool :=
  match n with NTarget t => negb (null (td_cmd t)) | NAlias _ _ => true end.
Definition plain (s : sources) : Prop := forallb plain_node (s_nodes s) = true.

Definition src_ok (s : sources) : Prop := no_overwrite s /\ plain s.

Definition same_outs (d1 d2 : idata) : Prop :=
  forall o c, In (o, c) (i_outs d1) <-> In (o, c) (i_outs d2).

Definition is_target (s : sources) (j : nat) : Prop := exists t, node_at s j = Some (NTarget t).

(* C09 restricted to the states this history visits: whenever a target (s1, j1) whose
   dependencies all have ideal entries gets the key of a target (s2, j2) that completes in the
   ideal semantics, (s1, j1) completes too, writes the same declared outputs with the same
   bytes and carries the same no-cache tag (the tag is not covered by the key; the one deviating
   case is an output-less target whose tag is removed: the cacheable target is served the
   output-less record of the no-cache one and hands its dependants the no-cache output hash
   instead of its key).  ((o, c) pairs are compared directly; [out_def] is injective, so this is
   the same as comparing (out_def o, c) pairs.) *)
Definition key_faithful (V : list sources) : Prop :=
  forall s1 s2 j1 j2 k d2,
    In s1 V -> In s2 V ->
    ideal_key_at s1 j1 = Some k ->
    is_target s2 j2 -> nth j2 (ideal s2) None = Some d2 -> i_key d2 = k ->
    exists d1, nth j1 (ideal s1) None = Some d1 /\ same_outs d1 d2 /\ i_nc d1 = i_nc d2.

Definition cfg_ok (cfg : config) : Prop := cfg_mode cfg = LAll /\ cfg_cache cfg = true.

Definition op_ok (o : op) : Prop :=
  match o with
  | OpBuild cfg _ => cfg_ok cfg
  | OpSources s => src_ok s
  | _ => True
  end.

Definition snaps (ops : list op) : list sources :=
  flat_map (fun o => match o with OpSources s => [s] | _ => [] end) ops.

Definition hist_ok (ops : list op) : Prop := Forall op_ok ops /\ key_faithful (snaps ops).

(* cache faults: stored blobs / target results are lost (both are admissible ops of a history) *)
Definition is_cache_fault (o : op) : Prop :=
  match o with OpDropBlob _ | OpDropResults => True | _ => False end.

(* ------------------------------------------------------------------ invariants *)
Definition cas_sound (cas : list (str * str)) : Prop :=
  forall dg x, alookup dg cas = Some x ->
    (exists r, x = "T"%char :: r) /\ (dg = H x \/ dg = H ("D"%char :: x)).

(* the target result a successful execution of a target with ideal data d stores
   (output-less on the no-cache path) *)
Definition res_of (d : idata) : result :=
  mkRes (i_ohash d) (if i_nc d then [] else map out_pair (i_outs d)).

(* every blob that IS in the CAS is right, and every stored result is the ideal result of a
   visited state with that key.  Nothing is said about which blobs are present: cache faults
   (OpDropBlob / OpDropResults) only remove entries and keep this invariant. *)
Definition cache_sound (V : list sources) (c : cache) : Prop :=
  cas_sound (c_cas c) /\
  forall k r, rlookup k (c_results c) = Some r ->
    exists s' j' d', In s' V /\ is_target s' j' /\ nth j' (ideal s') None = Some d' /\
      k = i_key d' /\ r = res_of d'.

(* ------------------------------------------------------------------ a build, node by node *)
Definition build_init (s : sources) (w : world) (c : cache) : bstate :=
  mkB w c (repeat rt0 (length (s_nodes s))) [] false.

(* the state of the build just before node k is processed *)
Definition build_prefix (cfg : config) (s : sources) (roots : list nat) (w : world) (c : cache)
           (k : nat) : bstate :=
  fold_left (process_node H cfg s (selection s roots)) (seq 0 k) (build_init s w c).

Definition st_ok (st : tstatus) : bool :=
  match st with THit | TExecuted => true | _ => false end.

(* the result the task of target t (node i) looks up in state b, if it gets that far *)
Definition served (s : sources) (i : nat) (t : tdef) (b : bstate) : option (str * result) :=
  match dep_hashes s b (td_deps t) with
  | None => None
  | Some dh =>
      let key := change_key H (pkg_fs s t) (state_of t dh) in
      match rlookup key (c_results (b_cache b)) with
      | Some r => Some (key, r)
      | None => None
      end
  end.

End Ideal.
