(* LoadMerge.v -- the registration step of LoadPackages (internal/loading/load.go) under CONCURRENCY
   (property C16, clause "the loaded graph does not depend on directory-walk order or worker count").
   Definitions only; lemmas in LoadMerge_proofs.v, statements in properties/C16_loadmerge.v.

   Loader.v is sequential: [merge_all frs] folds [insert_fragment] over the per-file fragments in ONE arrival
   order, and C16_merge_order_independent says that the order does not matter.  That W worker goroutines
   behave like SOME arrival order was only assumed (sync.Mutex "modelled rather than verified").  Here the
   worker loop is cut into its shared-memory steps and every interleaving is a run:

     Take     `for fileEntry := range fileListQueue`: any idle worker takes the head of the channel; then
              LoadIfMatched + getEnrichedPackage on ITS file (no shared state: part of the same step).  When the
              sticky error is set (`loadContext.Err() != nil { continue }`) the file is dropped instead.
     Lock     `loadedMutex.Lock()`: enabled iff the mutex is free
     Lookup   `existingPackage, ok := loadedPackages[packagePath]`
     Merge    ok:  `mergePackages(packageModel, existingPackage)`; an error sets the sticky error
              (setError -> cancel: the result of LoadPackages is the error whatever happens afterwards)
              A failed mergePackages leaves the targets it copied before the collision in the package and the
              error becomes visible (cancel) only after Unlock; the model leaves the registry as it was and sets
              the flag at once: from then on the result is the error, the registry is never returned.
     Insert   !ok: `loadedPackages[packagePath] = packageModel`
     Unlock   `loadedMutex.Unlock()`

   The registry is the association list [insert_fragment] keeps (one package per key, new keys appended).
   Value semantics: Lookup delivers a SNAPSHOT [ex] of the registered package, Merge writes
   [merge_packages f ex] back ([reg_store]).  Go holds a pointer and mutates it in place; under the lock
   the snapshot is the live entry (LoadMerge_proofs.merging_snapshot_current), so both readings coincide
   for VCorrect, where Lookup;Merge/Insert IS [insert_fragment] (insert_fragment_as_lookup).  For the two
   seeded orders an unsynchronised read-compute-write of a Go map is read as a lost update (what the seeds'
   demos observe besides the runtime abort "concurrent map writes").

   Variants (same step function, parameter [variant]):
     VCorrect        the order of /repo
     VMergeOutside   seeds C16c / C16g: Lock; Lookup; (!ok: Insert); Unlock; (ok: Merge WITHOUT the lock)
     VLoadThenStore  seeds C16f / C16i: sync.Map: Lookup (Load) and Insert (Store) without any lock,
                     a mutex only around Merge
   [log] (fragments in the order of their Merge/Insert step) and [dropped] are ghost: they never influence [step]. *)
From Grog Require Import Str Label Loader.
Local Open Scope list_scope.

Inductive variant : Type := VCorrect | VMergeOutside | VLoadThenStore.

Inductive pc : Type :=
| PIdle                               (* at the top of the loop *)
| PLoaded (f : package)               (* its file is loaded and enriched: fragment f in hand *)
| PLocked (f : package)               (* inside loadedMutex, before the lookup *)
| PMerging (f ex : package)           (* lookup hit: ex = what the lookup delivered *)
| PInserting (f : package)            (* lookup miss *)
| PUnlockM (f ex : package)           (* VMergeOutside only: hit; Unlock comes first, the merge afterwards *)
| PWaitM (f ex : package)             (* VLoadThenStore only: hit; mergeMutex.Lock() comes next *)
| PUnlock.                            (* registered, still holding the mutex *)

Inductive stepk : Type := STake | SLock | SLookup | SMerge | SInsert | SUnlock.

Definition event : Type := (nat * stepk)%type.    (* (worker, step) *)

Record state : Type := mkState {
  queue   : list package;       (* fileListQueue: fragments not taken yet, head first *)
  reg     : list package;       (* loadedPackages *)
  lock    : option nat;         (* holder of loadedMutex (mergeMutex in VLoadThenStore) *)
  err     : bool;               (* loadError != nil *)
  pcs     : nat -> pc;
  log     : list package;       (* ghost: fragments in the order of their Merge / Insert step *)
  dropped : list package        (* ghost: fragments skipped after the error, in order *)
}.

Definition upd {A : Type} (f : nat -> A) (t : nat) (x : A) : nat -> A :=
  fun u => if Nat.eqb u t then x else f u.

Definition init (frs : list package) : state := mkState frs [] None false (fun _ => PIdle) [] [].

(* loadedPackages[k] *)
Fixpoint reg_lookup (k : str) (m : list package) : option package :=
  match m with
  | [] => None
  | p :: m' => if str_eqb (pkey p) k then Some p else reg_lookup k m'
  end.

(* loadedPackages[pkey q] = q *)
Fixpoint reg_store (q : package) (m : list package) : list package :=
  match m with
  | [] => [q]
  | p :: m' => if str_eqb (pkey p) (pkey q) then q :: m' else p :: reg_store q m'
  end.

Definition set_pc (s : state) (w : nat) (p : pc) : state :=
  mkState (queue s) (reg s) (lock s) (err s) (upd (pcs s) w p) (log s) (dropped s).
Definition set_lock (s : state) (l : option nat) (w : nat) (p : pc) : state :=
  mkState (queue s) (reg s) l (err s) (upd (pcs s) w p) (log s) (dropped s).
(* the Merge / Insert step of fragment f: new registry, error flag *)
Definition commit (s : state) (f : package) (m : list package) (e : bool) (w : nat) (p : pc) : state :=
  mkState (queue s) m (lock s) e (upd (pcs s) w p) (log s ++ [f]) (dropped s).

(* where the program goes ... *)
Definition after_lookup_hit (v : variant) (f ex : package) : pc :=
  match v with VCorrect => PMerging f ex | VMergeOutside => PUnlockM f ex | VLoadThenStore => PWaitM f ex end.
Definition after_merge (v : variant) : pc :=
  match v with VMergeOutside => PIdle | _ => PUnlock end.
Definition after_insert (v : variant) : pc :=
  match v with VLoadThenStore => PIdle | _ => PUnlock end.

Definition do_lookup (v : variant) (s : state) (w : nat) (f : package) : state :=
  match reg_lookup (pkey f) (reg s) with
  | Some ex => set_pc s w (after_lookup_hit v f ex)
  | None => set_pc s w (PInserting f)
  end.

Definition step (v : variant) (W : nat) (s : state) (e : event) : option state :=
  let w := fst e in
  if negb (w <? W) then None else
  match snd e, pcs s w with
  | STake, PIdle =>
      match queue s with
      | [] => None
      | f :: q =>
          if err s then Some (mkState q (reg s) (lock s) (err s) (pcs s) (log s) (dropped s ++ [f]))
          else Some (mkState q (reg s) (lock s) (err s) (upd (pcs s) w (PLoaded f)) (log s) (dropped s))
      end
  | SLock, PLoaded f =>
      match v, lock s with
      | VLoadThenStore, _ => None
      | _, None => Some (set_lock s (Some w) w (PLocked f))
      | _, Some _ => None
      end
  | SLock, PWaitM f ex =>
      match v, lock s with
      | VLoadThenStore, None => Some (set_lock s (Some w) w (PMerging f ex))
      | _, _ => None
      end
  | SLookup, PLocked f => Some (do_lookup v s w f)
  | SLookup, PLoaded f =>
      match v with VLoadThenStore => Some (do_lookup v s w f) | _ => None end
  | SMerge, PMerging f ex =>
      match merge_packages f ex with
      | None => Some (commit s f (reg s) true w (after_merge v))
      | Some p' => Some (commit s f (reg_store p' (reg s)) (err s) w (after_merge v))
      end
  | SInsert, PInserting f => Some (commit s f (reg_store f (reg s)) (err s) w (after_insert v))
  | SUnlock, PUnlock => Some (set_lock s None w PIdle)
  | SUnlock, PUnlockM f ex =>
      match v with VMergeOutside => Some (set_lock s None w (PMerging f ex)) | _ => None end
  | _, _ => None
  end.

Fixpoint run (v : variant) (W : nat) (s : state) (evs : list event) : option state :=
  match evs with
  | [] => Some s
  | e :: r => match step v W s e with Some s' => run v W s' r | None => None end
  end.

Definition reachable (v : variant) (W : nat) (frs : list package) (s : state) : Prop :=
  exists evs, run v W (init frs) evs = Some s.

(* ------------------------------------------------------------------ what the theorems talk about *)
Definition is_idle (p : pc) : bool := match p with PIdle => true | _ => false end.

(* LoadPackages returns: the channel is drained and closed, every worker is back at the top of its loop *)
Definition complete (W : nat) (s : state) : Prop := queue s = [] /\ forall w, w < W -> pcs s w = PIdle.
Definition completeb (W : nat) (s : state) : bool :=
  match queue s with [] => true | _ => false end && forallb (fun w => is_idle (pcs s w)) (seq 0 W).

(* what LoadPackages returns: the error, or the registered packages *)
Definition result (s : state) : option (list package) := if err s then None else Some (reg s).
(* ... followed by model.BuildNodeMapFromPackages' duplicate check, as in [load_all] *)
Definition loaded (s : state) : option (list package) :=
  match result s with
  | None => None
  | Some m => if nodup_labels (all_labels m) then Some m else None
  end.

(* the arrival order a run realises: the order of the Merge / Insert steps, then what was dropped *)
Definition commit_order (s : state) : list package := log s ++ dropped s.

(* the program text between Lock and Unlock *)
Definition in_cs (p : pc) : bool :=
  match p with PLocked _ | PMerging _ _ | PInserting _ | PUnlockM _ _ | PUnlock => true | _ => false end.

(* the fragment a worker has in hand and has not registered yet *)
Definition pc_frag (p : pc) : list package :=
  match p with
  | PIdle | PUnlock => []
  | PLoaded f | PLocked f | PMerging f _ | PInserting f | PUnlockM f _ | PWaitM f _ => [f]
  end.
Definition inflight (W : nat) (s : state) : list package := flat_map (fun w => pc_frag (pcs s w)) (seq 0 W).

(* number of steps a worker at pc p still takes before it is idle again (VCorrect): the termination measure *)
Definition pc_measure (p : pc) : nat :=
  match p with
  | PIdle => 0 | PLoaded _ => 4 | PLocked _ => 3 | PMerging _ _ => 2 | PInserting _ => 2 | PUnlock => 1
  | PUnlockM _ _ => 3 | PWaitM _ _ => 3
  end.
Definition measure (W : nat) (s : state) : nat :=
  5 * length (queue s) + list_sum (map (fun w => pc_measure (pcs s w)) (seq 0 W)).

(* outcome of a schedule, for the examples: None = not a run / not complete; Some r = what is loaded *)
Definition run_outcome (v : variant) (W : nat) (frs : list package) (evs : list event)
  : option (option (list package)) :=
  match run v W (init frs) evs with
  | Some s => if completeb W s then Some (loaded s) else None
  | None => None
  end.

(* labels of the loaded graph *)
Definition outcome_labels (o : option (option (list package))) : option (list label) :=
  match o with Some (Some m) => Some (all_labels m) | _ => None end.
