(* Owners_proofs.v -- `grog owners` over inputs and arguments AS SPELLED (C20).
   1. Path facts: Clean of <root>/<p> for a p that does not climb above the root is <root>/<walk of p>; hence the
      absolute comparison owners.go makes and the root-less comparison of Select.owners agree on such paths.
   2. [owners_abs_is_owners]: Select.owners_abs (the code's comparison, root in front) = Select.owners under the
      guard [stays_inside] on inputs and arguments; the guard is necessary ([owners_root_dropped_refuted]).
   3. [owners_spelling_independent]: only the cleaned form of an input / of an argument matters.
   4. examples: non-canonical spellings are found; the comparison with the spelling misses them. *)
From Grog Require Import Str Path Path_proofs.
From Grog Require Import Label Graph Select Select_proofs.   (* after Path: [resolve] is Select.resolve *)
From Coq Require Import Lia.

(* ------------------------------------------------------------------ 1. Clean below an absolute root *)

Lemma clean_rooted_unfold q :
  clean (ch_slash :: q) = ch_slash :: render (clean_stack true (split_slash (ch_slash :: q))).
Proof.
  unfold clean. cbn [null]. cbv zeta. unfold is_abs. rewrite Ascii.eqb_refl. reflexivity.
Qed.

Lemma split_abs_root rootc p :
  split_slash (abs_root rootc ++ ch_slash :: p) = [] :: split_slash (join slash rootc) ++ split_slash p.
Proof.
  unfold abs_root. change ((ch_slash :: join slash rootc) ++ ch_slash :: p)
    with (ch_slash :: (join slash rootc ++ ch_slash :: p)).
  rewrite split_slash_cons, Ascii.eqb_refl, split_slash_join. reflexivity.
Qed.

(* the root's elements are all pushed *)
Lemma walk_abs_root rootc cs :
  Forall plain rootc -> walk_abs [] (split_slash (join slash rootc) ++ cs) = walk_abs (rev rootc) cs.
Proof.
  intro Hr. destruct rootc as [|c rootc].
  - reflexivity.
  - rewrite split_join_plain; [| discriminate | exact Hr].
    rewrite walk_abs_plain_prefix; [| exact Hr]. rewrite app_nil_r. reflexivity.
Qed.

(* Clean(<root>/<p>) = <root>/<walk of p>, for p that stays inside (p may be spelled in any way) *)
Lemma clean_abs_inside rootc p r :
  Forall plain rootc -> Path.resolve p = Some r ->
  clean (abs_root rootc ++ ch_slash :: p) = abs_root (rootc ++ r).
Proof.
  intros Hr Hp.
  assert (Hw : rev (clean_stack true (split_slash (abs_root rootc ++ ch_slash :: p))) = rootc ++ r).
  { unfold clean_stack. rewrite clean_stack_true_walk; [| intros []].
    rewrite split_abs_root, walk_abs_cons. cbn [null orb].
    rewrite walk_abs_root; [| exact Hr].
    pose proof (resolve_walk_abs (split_slash p) [] (rev rootc) r Hp) as H.
    rewrite rev_involutive in H. exact H. }
  change (abs_root rootc ++ ch_slash :: p) with (ch_slash :: (join slash rootc ++ ch_slash :: p)) in *.
  rewrite clean_rooted_unfold. unfold render. rewrite Hw. reflexivity.
Qed.

Lemma join_slash_inj0 a b : Forall plain a -> Forall plain b -> join slash a = join slash b -> a = b.
Proof.
  intros Fa Fb E. destruct a as [|x a], b as [|y b].
  - reflexivity.
  - exfalso. pose proof (join_plain_nonnull y b (Forall_inv Fb)) as H. rewrite <- E in H. discriminate H.
  - exfalso. pose proof (join_plain_nonnull x a (Forall_inv Fa)) as H. rewrite E in H. discriminate H.
  - apply join_slash_inj; try discriminate; assumption.
Qed.

Lemma abs_root_inj rootc r1 r2 :
  Forall plain rootc -> Forall plain r1 -> Forall plain r2 ->
  abs_root (rootc ++ r1) = abs_root (rootc ++ r2) -> r1 = r2.
Proof.
  intros Hr F1 F2 E. unfold abs_root in E. injection E as E.
  apply join_slash_inj0 in E; [| apply Forall_app; split; assumption | apply Forall_app; split; assumption].
  exact (app_inv_head rootc r1 r2 E).
Qed.

Lemma clean_rel_render p r : is_abs p = false -> Path.resolve p = Some r -> clean p = render_rel r.
Proof. intros Ha Hp. rewrite (clean_rel p r Ha Hp). reflexivity. Qed.

(* the root prefix can be dropped from the comparison *)
Lemma abs_eq_iff_rel rootc p q r1 r2 :
  Forall plain rootc -> is_abs p = false -> is_abs q = false ->
  Path.resolve p = Some r1 -> Path.resolve q = Some r2 ->
  (clean (abs_root rootc ++ ch_slash :: p) = clean (abs_root rootc ++ ch_slash :: q) <-> clean p = clean q).
Proof.
  intros Hr Ap Aq Hp Hq.
  rewrite (clean_abs_inside rootc p r1 Hr Hp), (clean_abs_inside rootc q r2 Hr Hq).
  rewrite (clean_rel_render p r1 Ap Hp), (clean_rel_render q r2 Aq Hq).
  pose proof (resolve_plain p r1 Hp) as F1. pose proof (resolve_plain q r2 Hq) as F2.
  split; intro E.
  - rewrite (abs_root_inj rootc r1 r2 Hr F1 F2 E). reflexivity.
  - rewrite (render_rel_inj r1 r2 F1 F2 E). reflexivity.
Qed.

(* what the guard gives *)
Lemma stays_inside_spec p : stays_inside p = true <-> is_abs p = false /\ exists r, Path.resolve p = Some r.
Proof.
  unfold stays_inside. rewrite andb_true_iff, !negb_true_iff. split.
  - intros [Ha Ht]. split; [exact Ha |]. destruct (Path.resolve p) as [r|] eqn:Hr; [exists r; reflexivity |].
    apply (tries_to_escape_resolve p Ha) in Hr. rewrite Hr in Ht. discriminate Ht.
  - intros [Ha [r Hr]]. split; [exact Ha |].
    destruct (tries_to_escape p) eqn:Ht; [| reflexivity].
    apply (tries_to_escape_resolve p Ha) in Ht. rewrite Ht in Hr. discriminate Hr.
Qed.

(* Clean of a path that stays inside stays inside, with the same walk *)
Lemma clean_inside p r :
  is_abs p = false -> Path.resolve p = Some r -> is_abs (clean p) = false /\ Path.resolve (clean p) = Some r.
Proof.
  intros Ha Hp. split.
  - rewrite (clean_rel_render p r Ha Hp). destruct r as [|c cs]; [reflexivity |].
    apply is_abs_join_plain. exact (Forall_inv (resolve_plain p _ Hp)).
  - rewrite (clean_semantics p Ha). exact Hp.
Qed.

(* ------------------------------------------------------------------ 2. the absolute comparison is the root-less one *)

Lemma existsb_ext_in {A} (p q : A -> bool) l : (forall x, In x l -> p x = q x) -> existsb p l = existsb q l.
Proof.
  induction l as [|x l IH]; intro H; [reflexivity |]. cbn [existsb].
  rewrite (H x (or_introl eq_refl)), IH; [reflexivity |]. intros y Hy. apply H. right. exact Hy.
Qed.

Lemma str_eqb_iff a b c d : (a = b <-> c = d) -> str_eqb a b = str_eqb c d.
Proof.
  intro H. destruct (str_eqb a b) eqn:E1, (str_eqb c d) eqn:E2; try reflexivity.
  - apply str_eqb_eq in E1. apply H in E1. apply str_eqb_neq in E2. contradiction.
  - apply str_eqb_eq in E2. apply H in E2. apply str_eqb_neq in E1. contradiction.
Qed.

(* filepath.Join(root, x) for the absolute root *)
Lemma join_abs_root rootc x : join_path [abs_root rootc; x] = clean (abs_root rootc ++ ch_slash :: x).
Proof. reflexivity. Qed.

(* filepath.Join(package, input) is Clean of package/input as spelled ("" when both are empty) *)
Lemma join_path_input a inp :
  join_path [lpkg (nlabel a); inp] = if null (input_path a inp) then [] else clean (input_path a inp).
Proof.
  unfold input_path. destruct (lpkg (nlabel a)) as [|x pkg]; cbn [null].
  - apply join_path_nil_l.
  - apply join_path_cons_l.
Qed.

(* Join(package, input) of an input that stays inside the workspace stays inside, with the walk of package/input *)
Lemma join_path_input_inside a inp r :
  is_abs (input_path a inp) = false -> Path.resolve (input_path a inp) = Some r ->
  is_abs (join_path [lpkg (nlabel a); inp]) = false /\ Path.resolve (join_path [lpkg (nlabel a); inp]) = Some r.
Proof.
  intros Ha Hp. rewrite join_path_input. destruct (input_path a inp) as [|c x] eqn:E.
  - cbn [null]. rewrite resolve_nil in Hp. split; [reflexivity | exact Hp].
  - cbn [null]. exact (clean_inside (c :: x) r Ha Hp).
Qed.

Lemma owns_abs_is_owns rootc a f :
  Forall plain rootc ->
  (forall inp, In inp (ninputs a) -> stays_inside (input_path a inp) = true) ->
  stays_inside f = true ->
  owns_abs rootc a f = owns a f.
Proof.
  intros Hr Hin Hf. unfold owns_abs, owns. f_equal. apply existsb_ext_in. intros inp Hinp.
  apply stays_inside_spec in Hf. destruct Hf as [Af [rf Rf]].
  specialize (Hin inp Hinp). apply stays_inside_spec in Hin. destruct Hin as [Ai [ri Ri]].
  destruct (join_path_input_inside a inp ri Ai Ri) as [Aj Rj].
  apply str_eqb_iff. unfold abs_input, abs_arg, canon_input, canon_arg. rewrite Af, !join_abs_root.
  exact (abs_eq_iff_rel rootc _ f ri rf Hr Aj Af Rj Rf).
Qed.

(* owners.go's comparison of absolute paths = the model's comparison without the root, for a workspace whose inputs
   and a command line whose arguments do not climb above the workspace root *)
Lemma owners_abs_is_owners rootc ns files :
  Forall plain rootc ->
  (forall a inp, In a ns -> In inp (ninputs a) -> stays_inside (input_path a inp) = true) ->
  (forall f, In f files -> stays_inside f = true) ->
  owners_abs rootc ns files = owners ns files.
Proof.
  intros Hr Hin Hf. unfold owners_abs, owners, owners_idx. f_equal. apply filter_ext_in. intros i Hi.
  apply in_seq in Hi. apply existsb_ext_in. intros f Hff.
  apply owns_abs_is_owns; [exact Hr | | exact (Hf f Hff)].
  intros inp Hinp. apply (Hin (attr ns i)); [| exact Hinp]. unfold attr. apply nth_In. lia.
Qed.

(* ---- where the guard on inputs comes from: an input that stays inside its PACKAGE (analysis.checkInputPathsRelative:
   relative, no leading ".." after Clean) stays inside the workspace, for a package path made of plain elements *)

Lemma resolve_from_plain_prefix comps : forall st cs,
  Forall plain comps -> resolve_from st (comps ++ cs) = resolve_from (rev comps ++ st) cs.
Proof.
  induction comps as [|c comps IH]; intros st cs Hall; [reflexivity |].
  inversion Hall as [|c' r' Hc Hcs]; subst.
  change ((c :: comps) ++ cs) with (c :: (comps ++ cs)).
  rewrite resolve_from_cons, (plain_skip c Hc), (plain_up c Hc), (IH (c :: st) cs Hcs).
  cbn [rev]. rewrite <- app_assoc. reflexivity.
Qed.

(* a walk that stays inside its starting directory is the same walk below any base *)
Lemma resolve_from_base : forall cs st base r,
  resolve_from st cs = Some r -> resolve_from (st ++ base) cs = Some (rev base ++ r).
Proof.
  induction cs as [|c cs IH]; intros st base r Hr.
  - cbn [resolve_from] in *. inversion Hr; subst. rewrite rev_app_distr. reflexivity.
  - rewrite resolve_from_cons in Hr. rewrite resolve_from_cons.
    destruct (null c || str_eqb c dot) eqn:E1.
    + apply IH; exact Hr.
    + destruct (str_eqb c dotdot) eqn:E2.
      * destruct st as [|t st']; [discriminate |]. cbn [app]. apply IH; exact Hr.
      * change (c :: st ++ base) with ((c :: st) ++ base). apply IH; exact Hr.
Qed.

Lemma input_stays_in_workspace a inp comps :
  Forall plain comps -> lpkg (nlabel a) = join slash comps ->
  stays_inside inp = true -> stays_inside (input_path a inp) = true.
Proof.
  intros Hc Hpkg Hinp. unfold input_path. rewrite Hpkg. destruct comps as [|c cs].
  - exact Hinp.
  - rewrite (join_plain_nonnull c cs (Forall_inv Hc)).
    apply stays_inside_spec in Hinp. destruct Hinp as [_ [r Hr]]. apply stays_inside_spec. split.
    + pose proof (is_abs_join_plain c cs (Forall_inv Hc)) as Ha.
      pose proof (join_plain_nonnull c cs (Forall_inv Hc)) as Hn.
      destruct (join slash (c :: cs)) as [|x p]; [discriminate Hn | exact Ha].
    + exists ((c :: cs) ++ r). unfold Path.resolve in *.
      rewrite split_slash_join, split_join_plain; [| discriminate | exact Hc].
      rewrite resolve_from_plain_prefix; [| exact Hc]. rewrite app_nil_r.
      pose proof (resolve_from_base (split_slash inp) [] (rev (c :: cs)) r Hr) as H.
      rewrite rev_involutive in H. exact H.
Qed.

(* the guard is necessary: from the root /w/ws the argument ../ws/p/f names the input f of //p:t, which the absolute
   comparison finds and the root-less one cannot *)
Definition s_w : str := ["w"]%char.
Definition s_ws : str := ["w"; "s"]%char.
Definition s_p : str := ["p"]%char.
Definition s_f : str := ["f"]%char.
Definition s_t : str := ["t"]%char.
Definition climb_nodes : list node := [mkNode KTarget (mkLabel s_p s_t) [] [] false [s_f]].
Definition climb_arg : str := (dotdot ++ ch_slash :: s_ws ++ ch_slash :: s_p ++ ch_slash :: s_f).

Example owners_root_dropped_refuted :
  owners_abs [s_w; s_ws] climb_nodes [climb_arg] = [dslash ++ s_p ++ ch_colon :: s_t] /\
  owners climb_nodes [climb_arg] = [] /\
  stays_inside climb_arg = false.
Proof. repeat split; vm_compute; reflexivity. Qed.

Lemma plain_w_ws : Forall plain [s_w; s_ws].
Proof.
  constructor; [| constructor; [| constructor]]; unfold plain; repeat split; try (intro H; discriminate H).
  - intros [H | []]. discriminate H.
  - intros [H | [H | []]]; discriminate H.
Qed.

(* ... and the guarded statement has instances: the same workspace asked for p/./f *)
Example owners_abs_is_owners_nonvacuous :
  Forall plain [s_w; s_ws] /\
  (forall a inp, In a climb_nodes -> In inp (ninputs a) -> stays_inside (input_path a inp) = true) /\
  (forall f, In f [s_p ++ ch_slash :: dot ++ ch_slash :: s_f] -> stays_inside f = true) /\
  owners_abs [s_w; s_ws] climb_nodes [s_p ++ ch_slash :: dot ++ ch_slash :: s_f] = [dslash ++ s_p ++ ch_colon :: s_t].
Proof.
  split; [| split; [| split]].
  - exact plain_w_ws.
  - intros a inp [<- | []] [<- | []]. vm_compute. reflexivity.
  - intros f [<- | []]. vm_compute. reflexivity.
  - vm_compute. reflexivity.
Qed.

(* ------------------------------------------------------------------ 3. only the cleaned form matters *)

Lemma existsb_Forall2 {A B} (p : A -> bool) (q : B -> bool) l l' :
  Forall2 (fun x y => p x = q y) l l' -> existsb p l = existsb q l'.
Proof.
  intro H. induction H as [|x y l l' Hxy _ IH]; [reflexivity |]. cbn [existsb]. rewrite Hxy, IH. reflexivity.
Qed.

Lemma Forall2_imp {A B} (P Q : A -> B -> Prop) l l' :
  (forall x y, P x y -> Q x y) -> Forall2 P l l' -> Forall2 Q l l'.
Proof. intros HPQ H. induction H as [|x y l l' Hxy _ IH]; constructor; [exact (HPQ x y Hxy) | exact IH]. Qed.

Lemma Forall2_len {A B} (P : A -> B -> Prop) l l' : Forall2 P l l' -> length l = length l'.
Proof. intro H. induction H as [|x y l l' _ _ IH]; [reflexivity | cbn [length]; rewrite IH; reflexivity]. Qed.

Lemma Forall2_refl {A} (P : A -> A -> Prop) l : (forall x, P x x) -> Forall2 P l l.
Proof. intro H. induction l as [|x l IH]; [constructor | constructor; [apply H | exact IH]]. Qed.

Lemma owns_respelled a b f f' : respelled a b -> canon_arg f = canon_arg f' -> owns a f = owns b f'.
Proof.
  intros [Hk [Hl Hi]] Hf. unfold owns, is_target. rewrite <- Hk, <- Hl, <- Hf. f_equal.
  apply existsb_Forall2. eapply Forall2_imp; [| exact Hi].
  intros i j E. cbv beta in E. rewrite E. reflexivity.
Qed.

Lemma respelled_default : respelled default_node default_node.
Proof. repeat split. constructor. Qed.

Lemma attr_respelled ns ns' : Forall2 respelled ns ns' -> forall i, respelled (attr ns i) (attr ns' i).
Proof.
  intro H. induction H as [|a b ns ns' Hab _ IH]; intro i.
  - unfold attr. destruct i; exact respelled_default.
  - destruct i as [|i]; [exact Hab | exact (IH i)].
Qed.

Lemma existsb_owns_respelled a b files files' :
  respelled a b -> args_respelled files files' -> existsb (owns a) files = existsb (owns b) files'.
Proof.
  intros Hab Hf. apply existsb_Forall2. eapply Forall2_imp; [| exact Hf].
  intros f f' E. exact (owns_respelled a b f f' Hab E).
Qed.

(* replacing inputs of targets by other spellings of the same files, and arguments by other spellings of the same
   files, changes nothing in what `owners` prints *)
Lemma owners_spelling_independent ns ns' files files' :
  Forall2 respelled ns ns' -> args_respelled files files' -> owners ns files = owners ns' files'.
Proof.
  intros Hn Hf. pose proof (attr_respelled ns ns' Hn) as Ha.
  assert (Hidx : owners_idx ns files = owners_idx ns' files').
  { unfold owners_idx. rewrite <- (Forall2_len _ _ _ Hn). apply filter_ext. intro i.
    exact (existsb_owns_respelled _ _ files files' (Ha i) Hf). }
  unfold owners. rewrite <- Hidx. unfold print_sorted, sorted_labels. do 2 f_equal.
  apply map_ext. intro i. destruct (Ha i) as [_ [Hl _]]. rewrite Hl. reflexivity.
Qed.

(* the two special cases the property speaks of: one input of one target respelled; one argument respelled *)
Lemma respelled_refl a : respelled a a.
Proof.
  repeat split. apply Forall2_refl. reflexivity.
Qed.

Lemma Forall2_respelled_refl ns : Forall2 respelled ns ns.
Proof. apply Forall2_refl. exact respelled_refl. Qed.

Lemma args_respelled_refl files : args_respelled files files.
Proof. apply Forall2_refl. reflexivity. Qed.

(* node a with another input list *)
Definition with_inputs (a : node) (ins : list str) : node :=
  mkNode (nkind a) (nlabel a) (ntags a) (nplats a) (nbin a) ins.

Lemma owners_input_respelled pre post a i j ins1 ins2 files :
  ninputs a = ins1 ++ i :: ins2 ->
  canon_input (lpkg (nlabel a)) i = canon_input (lpkg (nlabel a)) j ->
  owners (pre ++ a :: post) files = owners (pre ++ with_inputs a (ins1 ++ j :: ins2) :: post) files.
Proof.
  intros Hins Hc. apply owners_spelling_independent; [| apply args_respelled_refl].
  apply Forall2_app; [apply Forall2_respelled_refl |]. constructor; [| apply Forall2_respelled_refl].
  repeat split. rewrite Hins. cbn [with_inputs ninputs].
  apply Forall2_app; [| constructor; [exact Hc |]]; apply Forall2_refl; reflexivity.
Qed.

Lemma owners_arg_respelled ns fs1 fs2 f f' :
  canon_arg f = canon_arg f' -> owners ns (fs1 ++ f :: fs2) = owners ns (fs1 ++ f' :: fs2).
Proof.
  intro Hc. apply owners_spelling_independent; [apply Forall2_respelled_refl |].
  apply Forall2_app; [apply args_respelled_refl |]. constructor; [exact Hc | apply args_respelled_refl].
Qed.

(* ------------------------------------------------------------------ 4. examples *)

(* package p: t1 .. t4 spell their input non-canonically, t5 canonically *)
Definition sp_1 : str := ["."; "/"; "f"]%char.                          (* ./f *)
Definition sp_2 : str := ["z"; "z"; "/"; "."; "."; "/"; "f"]%char.      (* zz/../f *)
Definition sp_3 : str := ["d"; "/"; "/"; "g"]%char.                     (* d//g *)
Definition sp_4 : str := ["d"; "/"; "."; "/"; "g"]%char.                (* d/./g *)
Definition tnode (name : str) (ins : list str) : node := mkNode KTarget (mkLabel s_p name) [] [] false ins.
Definition t_1 : str := ["t"; "1"]%char.
Definition t_2 : str := ["t"; "2"]%char.
Definition t_3 : str := ["t"; "3"]%char.
Definition t_4 : str := ["t"; "4"]%char.
Definition t_5 : str := ["t"; "5"]%char.
Definition spelled_nodes : list node :=
  [tnode t_4 [sp_4]; tnode t_1 [sp_1]; tnode t_5 [s_f]; tnode t_3 [sp_3]; tnode t_2 [sp_2]].
Definition arg_pf : str := ["p"; "/"; "f"]%char.                        (* p/f *)
Definition arg_pdg : str := ["p"; "/"; "d"; "/"; "g"]%char.             (* p/d/g *)
Definition arg_pf' : str := ["."; "/"; "p"; "/"; "/"; "f"]%char.        (* ./p//f *)
Definition arg_pdg' : str := ["p"; "/"; "x"; "/"; "."; "."; "/"; "d"; "/"; "."; "/"; "g"]%char.   (* p/x/../d/./g *)
Definition plab (name : str) : str := dslash ++ s_p ++ ch_colon :: name.

(* every spelling is found, whichever way the arguments are spelled *)
Example owners_spelled_found :
  owners spelled_nodes [arg_pf; arg_pdg] = [plab t_1; plab t_2; plab t_3; plab t_4; plab t_5] /\
  owners spelled_nodes [arg_pf'; arg_pdg'] = [plab t_1; plab t_2; plab t_3; plab t_4; plab t_5] /\
  owners spelled_nodes [arg_pf] = [plab t_1; plab t_2; plab t_5] /\
  owners spelled_nodes [arg_pdg'] = [plab t_3; plab t_4].
Proof. repeat split; vm_compute; reflexivity. Qed.

(* the comparison with the spelling (seeded changes C20c, C20d, C20f) finds the canonically spelled input only *)
Example owners_verbatim_refuted :
  owners_verbatim spelled_nodes [arg_pf; arg_pdg] = [plab t_5] /\
  owners spelled_nodes [arg_pf; arg_pdg] <> owners_verbatim spelled_nodes [arg_pf; arg_pdg].
Proof. split; [vm_compute; reflexivity | vm_compute; intro H; discriminate H]. Qed.

(* the hypotheses of the spelling-independence theorem have non-trivial instances: the example workspace and the same
   workspace spelled canonically; the typed arguments and their canonical forms *)
Definition canonical_nodes : list node :=
  [tnode t_4 [["d"; "/"; "g"]%char]; tnode t_1 [s_f]; tnode t_5 [s_f]; tnode t_3 [["d"; "/"; "g"]%char]; tnode t_2 [s_f]].

Example owners_spelling_independent_nonvacuous :
  Forall2 respelled spelled_nodes canonical_nodes /\ args_respelled [arg_pf'; arg_pdg'] [arg_pf; arg_pdg] /\
  spelled_nodes <> canonical_nodes /\
  owners spelled_nodes [arg_pf'; arg_pdg'] = owners canonical_nodes [arg_pf; arg_pdg].
Proof.
  assert (Hn : Forall2 respelled spelled_nodes canonical_nodes).
  { unfold spelled_nodes, canonical_nodes.
    repeat (constructor; [repeat split; cbn [ninputs tnode]; constructor; [vm_compute; reflexivity | constructor] |]).
    constructor. }
  assert (Hf : args_respelled [arg_pf'; arg_pdg'] [arg_pf; arg_pdg]).
  { repeat (constructor; [vm_compute; reflexivity |]). constructor. }
  split; [exact Hn |]. split; [exact Hf |]. split; [intro H; discriminate H |].
  exact (owners_spelling_independent _ _ _ _ Hn Hf).
Qed.
