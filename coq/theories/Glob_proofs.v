(* Glob_proofs.v -- lemmas about the input-pattern model Glob.v *)
From Coq Require Import List Ascii Bool Arith Permutation Lia.
From Grog Require Import Str Label HashKey HashKey_proofs Graph Select Select_proofs Glob.
Import ListNotations.

(* ---------- canonical file order ---------- *)
Lemma dedup_in x l : In x (dedup l) <-> In x l.
Proof.
  induction l as [|y l IH]; cbn [dedup]; [tauto|].
  destruct (str_in y l) eqn:E.
  - rewrite IH. split; [intro H; right; exact H|]. intros [H|H]; [subst; apply str_in_spec; exact E|exact H].
  - cbn [In]. rewrite IH. tauto.
Qed.

Lemma canon_in x files : In x (canon files) <-> In x files.
Proof. unfold canon. rewrite dedup_in. apply sort_strs_in. Qed.

Lemma canon_perm f1 f2 : Permutation f1 f2 -> canon f1 = canon f2.
Proof. intro H. unfold canon. rewrite (sort_strs_canonical _ _ H). reflexivity. Qed.

Lemma glob_files_in files g x : In x (glob_files files g) <-> In x files /\ smatch g x = true.
Proof. unfold glob_files. rewrite filter_In, canon_in. tauto. Qed.

Lemma resolve_inputs_perm f1 f2 ins exs :
  Permutation f1 f2 -> resolve_inputs f1 ins exs = resolve_inputs f2 ins exs.
Proof.
  intro H. unfold resolve_inputs, excluded, resolve_entry, glob_files.
  rewrite (canon_perm _ _ H). reflexivity.
Qed.

(* ---------- selection ---------- *)
Lemma excluded_in files exs x :
  In x (excluded files exs) <-> exists e, In e exs /\ In x files /\ smatch e x = true.
Proof.
  unfold excluded. rewrite in_flat_map. split.
  - intros [e [He Hx]]. apply glob_files_in in Hx. exists e. tauto.
  - intros [e [He Hx]]. exists e. split; [exact He|]. apply glob_files_in. exact Hx.
Qed.

Lemma resolve_inputs_in files ins exs x :
  In x (resolve_inputs files ins exs) <->
  (exists e, In e ins /\ In x (resolve_entry files e)) /\
  (exs = [] \/ ~ In x (excluded files exs)).
Proof.
  unfold resolve_inputs. destruct exs as [|e0 exs'].
  - rewrite in_flat_map. split; [intro H; split; [exact H|left; reflexivity]|tauto].
  - rewrite filter_In, in_flat_map, negb_true_iff. split.
    + intros [H1 H2]. split; [exact H1|]. right. intro H. apply str_in_spec in H. congruence.
    + intros [H1 [H2|H2]]; [discriminate|]. split; [exact H1|].
      destruct (str_in x (excluded files (e0 :: exs'))) eqn:E; [|reflexivity].
      exfalso. apply H2. apply str_in_spec. exact E.
Qed.

Lemma content_sensitivity files ins exs g f :
  In f files -> In g ins -> is_glob g = true -> smatch g f = true ->
  (forall e, In e exs -> smatch e f = false) ->
  In f (resolve_inputs files ins exs).
Proof.
  intros Hf Hg Hig Hm Hex. apply resolve_inputs_in. split.
  - exists g. split; [exact Hg|]. unfold resolve_entry. rewrite Hig. apply glob_files_in. tauto.
  - right. intro H. apply excluded_in in H. destruct H as [e [He [_ Hme]]]. rewrite (Hex e He) in Hme. discriminate.
Qed.

Lemma selection_converse files ins exs x :
  In x (resolve_inputs files ins exs) ->
  (exists e, In e ins /\ is_glob e = false /\ x = e) \/
  (exists g, In g ins /\ is_glob g = true /\ In x files /\ smatch g x = true).
Proof.
  intro H. apply resolve_inputs_in in H. destruct H as [[e [He Hx]] _].
  unfold resolve_entry in Hx. destruct (is_glob e) eqn:E.
  - right. exists e. apply glob_files_in in Hx. tauto.
  - left. exists e. destruct Hx as [Hx|[]]. auto.
Qed.

Lemma excluded_not_selected files ins exs e x :
  In e exs -> In x files -> smatch e x = true -> ~ In x (resolve_inputs files ins exs).
Proof.
  intros He Hx Hm H. apply resolve_inputs_in in H. destruct H as [_ [H|H]].
  - subst. destruct He.
  - apply H. apply excluded_in. exists e. tauto.
Qed.

(* ---------- is_glob is complete for the constructs of the language ---------- *)
Lemma is_glob_cons c r : is_glob (c :: r) = false ->
  Ascii.eqb c ch_star = false /\ Ascii.eqb c ch_qm = false /\ Ascii.eqb c ch_lbr = false /\
  Ascii.eqb c ch_lbc = false /\ is_glob r = false.
Proof.
  unfold is_glob. cbn [existsb]. intro H. apply orb_false_iff in H. destruct H as [H1 H2].
  unfold mem_ch, glob_chars in H1. cbn [existsb] in H1.
  apply orb_false_iff in H1. destruct H1 as [Ha H1].
  apply orb_false_iff in H1. destruct H1 as [Hb H1].
  apply orb_false_iff in H1. destruct H1 as [Hc H1].
  apply orb_false_iff in H1. destruct H1 as [Hd _].
  repeat split; assumption.
Qed.

Lemma pp_lit fuel : forall s p, is_glob s = false -> pp fuel None s = Some p -> has_meta p = false.
Proof.
  induction fuel as [|f IH]; intros s p Hg Hp; [discriminate|].
  destruct s as [|c r]; cbn [pp] in Hp.
  - injection Hp as <-. reflexivity.
  - apply is_glob_cons in Hg. destruct Hg as (H1 & H2 & H3 & H4 & Hr).
    rewrite H1, H2, H3, H4 in Hp. cbv beta iota zeta in Hp.
    destruct (Ascii.eqb c ch_bsl) eqn:Eb.
    + destruct r as [|e r1]; [discriminate|].
      destruct (pp f None r1) as [q|] eqn:Eq; [|discriminate]. cbn [option_map] in Hp. injection Hp as <-.
      apply is_glob_cons in Hr. destruct Hr as (_ & _ & _ & _ & Hr1).
      cbn [has_meta existsb ptok_meta tok_meta orb]. exact (IH r1 q Hr1 Eq).
    + destruct (Ascii.eqb c ch_rbc); [discriminate|].
      destruct (pp f None r) as [q|] eqn:Eq; [|discriminate]. cbn [option_map] in Hp. injection Hp as <-.
      cbn [has_meta existsb ptok_meta tok_meta orb]. exact (IH r q Hr Eq).
Qed.

Lemma is_glob_complete s p : parse s = Some p -> has_meta p = true -> is_glob s = true.
Proof.
  intros Hp Hm. destruct (is_glob s) eqn:E; [reflexivity|].
  unfold parse in Hp. rewrite (pp_lit _ _ _ E Hp) in Hm. discriminate.
Qed.

(* ---------- alternatives distribute ---------- *)
Lemma expand_ptoks ts q : expand (map PTok ts ++ q) = map (app ts) (expand q).
Proof.
  induction ts as [|t ts IH]; cbn [map app expand].
  - symmetry. apply map_id.
  - rewrite IH, map_map. apply map_ext. reflexivity.
Qed.

Lemma brace_distributes pre a b post s :
  matches (map PTok pre ++ PAlt [a; b] :: post) s =
  matches (map PTok pre ++ map PTok a ++ post) s || matches (map PTok pre ++ map PTok b ++ post) s.
Proof.
  unfold matches. rewrite !expand_ptoks. cbn [expand flat_map]. rewrite app_nil_r, map_app, existsb_app.
  reflexivity.
Qed.

(* ---------- * and ? stay inside one path segment ---------- *)
Lemma split_path_nonempty s : split_path s <> [].
Proof. destruct s as [|c s]; cbn [split_path]; [discriminate|]. destruct (Ascii.eqb c ch_slash); [discriminate|]. destruct (split_path s); discriminate. Qed.

Lemma split_path_noslash s : mem_ch ch_slash s = false -> split_path s = [s].
Proof.
  induction s as [|c s IH]; intro H; [reflexivity|].
  unfold mem_ch in H. cbn [existsb] in H. apply orb_false_iff in H. destruct H as [H1 H2].
  cbn [split_path]. rewrite Ascii.eqb_sym, H1. rewrite (IH H2). reflexivity.
Qed.

Lemma split_path_slash s : mem_ch ch_slash s = true -> exists n m ms, split_path s = n :: m :: ms.
Proof.
  induction s as [|c s IH]; intro H; [discriminate|].
  cbn [split_path]. destruct (Ascii.eqb c ch_slash) eqn:E.
  - destruct (split_path s) as [|m ms] eqn:Es; [exfalso; exact (split_path_nonempty s Es)|]. exists [], m, ms. reflexivity.
  - unfold mem_ch in H. cbn [existsb] in H. rewrite Ascii.eqb_sym, E in H. cbn [orb] in H.
    destruct (IH H) as (n & m & ms & Es). rewrite Es. exists (c :: n), m, ms. reflexivity.
Qed.

Lemma single_segment_no_slash p s : path_match [SPat p] (split_path s) = true -> mem_ch ch_slash s = false.
Proof.
  intro H. destruct (mem_ch ch_slash s) eqn:E; [|reflexivity].
  destruct (split_path_slash s E) as (n & m & ms & Es). rewrite Es in H. cbn [path_match nilb] in H.
  rewrite andb_false_r in H. discriminate.
Qed.

Lemma star_all s : mem_ch ch_slash s = false -> seg_match [TStar] s = true.
Proof.
  induction s as [|c s IH]; intro H; [reflexivity|].
  unfold mem_ch in H. cbn [existsb] in H. apply orb_false_iff in H. destruct H as [H1 H2].
  specialize (IH H2). cbn [seg_match null] in *. rewrite Ascii.eqb_sym, H1. cbn [negb andb orb].
  exact IH.
Qed.

Lemma smatch_star s : smatch [ch_star] s = negb (mem_ch ch_slash s).
Proof.
  change (smatch [ch_star] s) with (path_match [SPat [TStar]] (split_path s) || false).
  rewrite orb_false_r. destruct (mem_ch ch_slash s) eqn:E; cbn [negb].
  - destruct (path_match [SPat [TStar]] (split_path s)) eqn:F; [|reflexivity].
    rewrite (single_segment_no_slash _ _ F) in E. discriminate.
  - rewrite (split_path_noslash s E). cbn [path_match nilb]. rewrite (star_all s E). reflexivity.
Qed.

Lemma smatch_question s : smatch [ch_qm] s = true <-> exists c, s = [c] /\ c <> ch_slash.
Proof.
  change (smatch [ch_qm] s) with (path_match [SPat [TAny]] (split_path s) || false).
  rewrite orb_false_r. split.
  - intro H. pose proof (single_segment_no_slash _ _ H) as E. rewrite (split_path_noslash s E) in H.
    cbn [path_match nilb] in H. rewrite andb_true_r in H.
    destruct s as [|c [|d s']]; cbn [seg_match null] in H; try discriminate.
    + exists c. split; [reflexivity|]. apply andb_true_iff in H. destruct H as [H _].
      apply negb_true_iff in H. apply Ascii.eqb_neq. exact H.
    + rewrite andb_false_r in H. discriminate.
  - intros [c [-> Hc]]. apply Ascii.eqb_neq in Hc. cbn [split_path]. rewrite Hc. cbn. rewrite Hc. reflexivity.
Qed.

(* segments handed to seg_match never contain a slash: the structural reason no construct crosses `/` *)
Lemma split_path_segments s : forall n, In n (split_path s) -> mem_ch ch_slash n = false.
Proof.
  induction s as [|c s IH]; intros n Hn.
  - destruct Hn as [<-|[]]. reflexivity.
  - cbn [split_path] in Hn. destruct (Ascii.eqb c ch_slash) eqn:E.
    + destruct Hn as [<-|Hn]; [reflexivity|exact (IH n Hn)].
    + destruct (split_path s) as [|x l] eqn:Es.
      * destruct Hn as [<-|[]]. unfold mem_ch. cbn [existsb]. rewrite Ascii.eqb_sym, E. reflexivity.
      * destruct Hn as [<-|Hn].
        -- unfold mem_ch. cbn [existsb]. rewrite Ascii.eqb_sym, E. cbn [orb]. apply (IH x). left. reflexivity.
        -- apply (IH n). right. exact Hn.
Qed.

(* ---------- concrete instances (evaluated) ---------- *)
From Coq Require Import String.
Open Scope string_scope.
Definition L (s : String.string) : str := lit s.
Definition ex_files : list str :=
  [L "src/a.txt"; L "src/b.md"; L "src/sub/c.txt"; L "lib/x/d.txt"; L "e.txt"; L "README"].
Definition ex_files_perm : list str :=
  [L "README"; L "lib/x/d.txt"; L "src/sub/c.txt"; L "e.txt"; L "src/b.md"; L "src/a.txt"].
Definition ex_inputs : list str :=
  [L "src/**/*.txt"; L "*.{txt,md}"; L "lib/?/[a-d].txt"; L "missing.txt"; L "{src,lib}/*.md"].
Definition ex_excludes : list str := [L "**/c.txt"].

Definition ex_expected : list str := [L "src/a.txt"; L "e.txt"; L "lib/x/d.txt"; L "missing.txt"; L "src/b.md"].
Lemma example_resolve :
  Permutation ex_files ex_files_perm /\
  resolve_inputs ex_files ex_inputs ex_excludes = ex_expected /\
  resolve_inputs ex_files_perm ex_inputs ex_excludes = resolve_inputs ex_files ex_inputs ex_excludes /\
  resolve_inputs ex_files ex_inputs [] <> resolve_inputs ex_files ex_inputs ex_excludes.
Proof.
  split; [|split; [vm_compute; reflexivity|split; [vm_compute; reflexivity|vm_compute; discriminate]]].
  unfold ex_files, ex_files_perm.
  apply Permutation_sym. apply NoDup_Permutation.
  - repeat constructor; cbn; intuition discriminate.
  - repeat constructor; cbn; intuition discriminate.
  - intro x. cbn. tauto.
Qed.

(* seeded change C02m: without `{` in the loader's test an alternatives-only entry is kept as a literal file name *)
Lemma without_brace_refuted :
  exists s p f, parse s = Some p /\ has_meta p = true /\ matches p f = true /\ f <> s /\
                is_glob_nobrace s = false /\ is_glob s = true.
Proof.
  exists (L "src/{a,b}.txt").
  eexists. exists (L "src/a.txt").
  split; [vm_compute; reflexivity|]. repeat split; try (vm_compute; reflexivity). vm_compute. discriminate.
Qed.

Lemma literal_examples :
  smatch (L "src/a.txt") (L "src/a.txt") = true /\
  smatch (L "src/a.txt") (L "src/b.txt") = false /\
  smatch (L "src/a.txt") (L "src/a.txt/x") = false /\
  smatch (L "a\*b") (L "a*b") = true /\ smatch (L "a\*b") (L "axb") = false /\
  smatch (L "x.{txt,}") (L "x.") = false /\        (* doublestar.Glob drops an empty last alternative *)
  smatch (L "src/**") (L "src") = false /\ smatch (L "src/**/a.txt") (L "src/a.txt") = true /\
  parse (L "[a") = None /\ parse (L "{a,b") = None /\ parse (L "a}") = None /\ parse (L "a\") = None.
Proof. vm_compute. repeat split; reflexivity. Qed.

(* ---------- a pattern without metacharacters selects exactly the path spelled like it ---------- *)
Close Scope string_scope.
Definition plain_char (c : ascii) : bool := negb (mem_ch c [ch_star; ch_qm; ch_lbr; ch_lbc; ch_rbc; ch_bsl]).
Definition plain (s : str) : bool := forallb plain_char s.
Definition lf (s : str) : flat := map TLit s.

Lemma plain_char_spec c : plain_char c = true ->
  Ascii.eqb c ch_star = false /\ Ascii.eqb c ch_qm = false /\ Ascii.eqb c ch_lbr = false /\
  Ascii.eqb c ch_lbc = false /\ Ascii.eqb c ch_rbc = false /\ Ascii.eqb c ch_bsl = false.
Proof.
  unfold plain_char, mem_ch. cbn [existsb]. intro H. apply negb_true_iff in H.
  apply orb_false_iff in H. destruct H as [Ha H]. apply orb_false_iff in H. destruct H as [Hb H].
  apply orb_false_iff in H. destruct H as [Hc H]. apply orb_false_iff in H. destruct H as [Hd H].
  apply orb_false_iff in H. destruct H as [He H]. apply orb_false_iff in H. destruct H as [Hf _].
  repeat split; assumption.
Qed.

Lemma pp_plain fuel : forall s : str, List.length s < fuel -> plain s = true -> pp fuel None s = Some (lits s).
Proof.
  induction fuel as [|f IH]; intros s Hl Hp; [lia|].
  destruct s as [|c r]; [reflexivity|].
  cbn [plain forallb] in Hp. apply andb_true_iff in Hp. destruct Hp as [Hc Hr].
  destruct (plain_char_spec c Hc) as (H1 & H2 & H3 & H4 & H5 & H6).
  cbn [pp]. rewrite H1, H2, H3, H4, H5, H6. cbv beta iota zeta.
  cbn [List.length] in Hl. rewrite (IH r); [reflexivity|lia|exact Hr].
Qed.

Lemma expand_lits s : expand (lits s) = [lf s].
Proof. induction s as [|c s IH]; [reflexivity|]. cbn [lits map expand] in *. unfold lits in IH. rewrite IH. reflexivity. Qed.

Lemma split_toks_lf s : split_toks (lf s) = map lf (split_path s).
Proof.
  induction s as [|c s IH]; [reflexivity|].
  cbn [lf map split_toks is_sep split_path]. fold (lf s). rewrite IH.
  destruct (Ascii.eqb c ch_slash); [reflexivity|]. destruct (split_path s); reflexivity.
Qed.

Lemma classify_lf n : classify (lf n) = SPat (lf n).
Proof. destruct n as [|a [|b [|c n]]]; reflexivity. Qed.

Lemma seg_match_lf n : forall m, seg_match (lf n) m = true <-> n = m.
Proof.
  induction n as [|x n IH]; intros [|c m]; cbn [lf map seg_match null]; try (split; [discriminate|discriminate]).
  - tauto.
  - fold (lf n). rewrite andb_true_iff, Ascii.eqb_eq, IH. split; [intros [-> ->]; reflexivity|intro H; injection H; auto].
Qed.

Lemma path_match_lf ns : forall ms, path_match (map (fun n => SPat (lf n)) ns) ms = true <-> ns = ms.
Proof.
  induction ns as [|n ns IH]; intros [|m ms]; cbn [map path_match nilb]; try (split; [discriminate|discriminate]).
  - tauto.
  - rewrite andb_true_iff, seg_match_lf, IH. split; [intros [-> ->]; reflexivity|intro H; injection H; auto].
Qed.

Lemma join_split s : join [ch_slash] (split_path s) = s.
Proof.
  induction s as [|c s IH]; [reflexivity|].
  cbn [split_path]. destruct (Ascii.eqb c ch_slash) eqn:E.
  - apply Ascii.eqb_eq in E. subst c. destruct (split_path s) as [|y l] eqn:Es; [exfalso; exact (split_path_nonempty s Es)|].
    change (join [ch_slash] ([] :: y :: l)) with ([] ++ [ch_slash] ++ join [ch_slash] (y :: l)). rewrite IH. reflexivity.
  - destruct (split_path s) as [|x [|y l]] eqn:Es.
    + exfalso; exact (split_path_nonempty s Es).
    + cbn [join] in *. rewrite IH. reflexivity.
    + change (join [ch_slash] ((c :: x) :: y :: l)) with ((c :: x) ++ [ch_slash] ++ join [ch_slash] (y :: l)).
      change (join [ch_slash] (x :: y :: l)) with (x ++ [ch_slash] ++ join [ch_slash] (y :: l)) in IH.
      rewrite <- IH. reflexivity.
Qed.

Lemma literal_selects_itself s t : plain s = true -> smatch s t = str_eqb s t.
Proof.
  intro Hp. unfold smatch, parse. rewrite (pp_plain _ s (Nat.lt_succ_diag_r _) Hp).
  unfold matches. rewrite expand_lits. cbn [existsb]. rewrite orb_false_r.
  unfold flat_match, segs_of. rewrite split_toks_lf, map_map.
  rewrite (map_ext _ (fun n => SPat (lf n)) classify_lf).
  destruct (str_eqb s t) eqn:E.
  - apply str_eqb_eq in E. subst t. apply path_match_lf. reflexivity.
  - destruct (path_match _ _) eqn:F; [|reflexivity]. apply path_match_lf in F.
    apply str_eqb_neq in E. exfalso. apply E. rewrite <- (join_split s), <- (join_split t), F. reflexivity.
Qed.
