(* Str.v -- strings as [list ascii] and the handful of Go [strings] functions the
   models need.  Definitions only + their characterising lemmas (small, stable). *)
From Coq Require Export List Ascii Bool Arith Lia.
Export ListNotations.

Definition str := list ascii.

Definition lit (s : String.string) : str := String.list_ascii_of_string s.

Definition ch_colon : ascii := ":"%char.
Definition ch_slash : ascii := "/"%char.
Definition ch_dot   : ascii := "."%char.
Definition ch_comma : ascii := ","%char.
Definition ch_eq    : ascii := "="%char.
Definition ch_us    : ascii := "_"%char.

Fixpoint str_eqb (a b : str) : bool :=
  match a, b with
  | [], [] => true
  | x :: a', y :: b' => Ascii.eqb x y && str_eqb a' b'
  | _, _ => false
  end.

Lemma str_eqb_eq a b : str_eqb a b = true <-> a = b.
Proof.
  revert b; induction a as [|x a IH]; intros [|y b]; simpl; split; intro H;
    try reflexivity; try discriminate.
  - apply andb_true_iff in H as [H1 H2]. apply Ascii.eqb_eq in H1. apply IH in H2. congruence.
  - inversion H; subst. apply andb_true_iff; split; [apply Ascii.eqb_refl | apply IH; reflexivity].
Qed.

Lemma str_eqb_refl a : str_eqb a a = true.
Proof. apply str_eqb_eq; reflexivity. Qed.

Lemma str_eqb_neq a b : str_eqb a b = false <-> a <> b.
Proof.
  split; intro H.
  - intro E. apply str_eqb_eq in E. congruence.
  - destruct (str_eqb a b) eqn:E; [apply str_eqb_eq in E; contradiction | reflexivity].
Qed.

Definition null (s : str) : bool := match s with [] => true | _ => false end.

(* strings.HasPrefix *)
Fixpoint has_prefix (p s : str) : bool :=
  match p, s with
  | [], _ => true
  | x :: p', y :: s' => Ascii.eqb x y && has_prefix p' s'
  | _ :: _, [] => false
  end.

Lemma has_prefix_spec p s : has_prefix p s = true <-> exists r, s = p ++ r.
Proof.
  revert s; induction p as [|x p IH]; intros s; simpl.
  - split; [intros _; exists s; reflexivity | reflexivity].
  - destruct s as [|y s]; split; intro H; try discriminate.
    + destruct H as [r Hr]; discriminate.
    + apply andb_true_iff in H as [H1 H2]. apply Ascii.eqb_eq in H1; subst y.
      apply IH in H2 as [r ->]. exists r; reflexivity.
    + destruct H as [r Hr]. inversion Hr; subst. apply andb_true_iff; split;
        [apply Ascii.eqb_refl | apply IH; exists r; reflexivity].
Qed.

Lemma has_prefix_app p r : has_prefix p (p ++ r) = true.
Proof. apply has_prefix_spec; exists r; reflexivity. Qed.

(* first occurrence of a byte: strings.Index(s, "c") together with the two slices *)
Fixpoint split_first (c : ascii) (s : str) : option (str * str) :=
  match s with
  | [] => None
  | x :: s' =>
      if Ascii.eqb x c then Some ([], s')
      else match split_first c s' with
           | Some (a, b) => Some (x :: a, b)
           | None => None
           end
  end.

Lemma split_first_some c s a b :
  split_first c s = Some (a, b) -> s = a ++ c :: b /\ ~ In c a.
Proof.
  revert a b; induction s as [|x s IH]; intros a b H; simpl in H; [discriminate|].
  destruct (Ascii.eqb x c) eqn:E.
  - apply Ascii.eqb_eq in E; subst. inversion H; subst. split; [reflexivity | intros []].
  - destruct (split_first c s) as [[a' b']|] eqn:E2; [|discriminate].
    inversion H; subst. destruct (IH a' b eq_refl) as [-> Hn]. split; [reflexivity|].
    intros [Hx|Hx]; [subst; rewrite Ascii.eqb_refl in E; discriminate | contradiction].
Qed.

Lemma split_first_none c s : split_first c s = None <-> ~ In c s.
Proof.
  induction s as [|x s IH]; simpl; [split; [intros _ [] | reflexivity]|].
  destruct (Ascii.eqb x c) eqn:E.
  - apply Ascii.eqb_eq in E; subst. split; [discriminate | intro H; exfalso; apply H; left; reflexivity].
  - destruct (split_first c s) as [[a b]|] eqn:E2.
    + split; [discriminate|]. intro H. exfalso.
      assert (Hs : ~ In c s) by (intro; apply H; right; assumption).
      apply IH in Hs. discriminate.
    + split; [|reflexivity]. intros _ [Hx|Hx].
      * subst; rewrite Ascii.eqb_refl in E; discriminate.
      * apply (proj1 IH eq_refl Hx).
Qed.

Lemma split_first_app c a b : ~ In c a -> split_first c (a ++ c :: b) = Some (a, b).
Proof.
  induction a as [|x a IH]; intro H; simpl.
  - rewrite Ascii.eqb_refl; reflexivity.
  - destruct (Ascii.eqb x c) eqn:E.
    + apply Ascii.eqb_eq in E; subst. exfalso; apply H; left; reflexivity.
    + rewrite IH; [reflexivity|]. intro; apply H; right; assumption.
Qed.

(* strings.Index(s, p): index of the first occurrence of p *)
Fixpoint find_sub (p s : str) : option nat :=
  if has_prefix p s then Some 0
  else match s with
       | [] => None
       | _ :: s' => option_map S (find_sub p s')
       end.

Definition contains (p s : str) : bool :=
  match find_sub p s with Some _ => true | None => false end.

(* the part after the last occurrence of c (the whole string when there is none):
   strings.Split(s, c)[last]  and  s[strings.LastIndex(s, c)+1:] *)
Definition mem_ch (c : ascii) (s : str) : bool := existsb (Ascii.eqb c) s.

Lemma mem_ch_spec c s : mem_ch c s = true <-> In c s.
Proof.
  unfold mem_ch. rewrite existsb_exists. split.
  - intros [y [Hy E]]. apply Ascii.eqb_eq in E; subst; assumption.
  - intro H; exists c; split; [assumption | apply Ascii.eqb_refl].
Qed.

Lemma mem_ch_false c s : mem_ch c s = false <-> ~ In c s.
Proof.
  split; intro H.
  - intro Hi. apply mem_ch_spec in Hi. congruence.
  - destruct (mem_ch c s) eqn:E; [apply mem_ch_spec in E; contradiction | reflexivity].
Qed.

Fixpoint after_last (c : ascii) (s : str) : str :=
  match s with
  | [] => []
  | x :: s' => if mem_ch c s' then after_last c s'
               else if Ascii.eqb x c then s' else x :: s'
  end.

Lemma after_last_none c s : ~ In c s -> after_last c s = s.
Proof.
  induction s as [|x s IH]; intro H; simpl; [reflexivity|].
  assert (Hs : ~ In c s) by (intro; apply H; right; assumption).
  rewrite (proj2 (mem_ch_false c s) Hs).
  destruct (Ascii.eqb x c) eqn:E; [|reflexivity].
  apply Ascii.eqb_eq in E; subst. exfalso; apply H; left; reflexivity.
Qed.

Lemma after_last_app c a b : ~ In c b -> after_last c (a ++ c :: b) = b.
Proof.
  intro Hb. induction a as [|x a IH]; simpl.
  - rewrite (proj2 (mem_ch_false c b) Hb). rewrite Ascii.eqb_refl. reflexivity.
  - assert (Hm : mem_ch c (a ++ c :: b) = true)
      by (apply mem_ch_spec, in_or_app; right; left; reflexivity).
    rewrite Hm. exact IH.
Qed.

Lemma after_last_no_c c s : ~ In c (after_last c s).
Proof.
  induction s as [|x s IH]; simpl; [intros []|].
  destruct (mem_ch c s) eqn:E; [exact IH|].
  apply mem_ch_false in E.
  destruct (Ascii.eqb x c) eqn:E2; [exact E|].
  intros [Hx|Hx]; [subst; rewrite Ascii.eqb_refl in E2; discriminate | contradiction].
Qed.

Definition last_char (s : str) : option ascii :=
  match rev s with [] => None | x :: _ => Some x end.

Definition ends_with (c : ascii) (s : str) : bool :=
  match last_char s with Some x => Ascii.eqb x c | None => false end.

(* s[:len(s)-1] *)
Definition drop_last (s : str) : str := removelast s.

(* byte-wise lexicographic order: Go's string < *)
Definition byte_of (c : ascii) : nat := nat_of_ascii c.

Fixpoint str_ltb (a b : str) : bool :=
  match a, b with
  | [], [] => false
  | [], _ :: _ => true
  | _ :: _, [] => false
  | x :: a', y :: b' =>
      if Nat.ltb (byte_of x) (byte_of y) then true
      else if Nat.ltb (byte_of y) (byte_of x) then false
      else str_ltb a' b'
  end.
Definition str_leb (a b : str) : bool := negb (str_ltb b a).

(* insertion sort, stable: sort.Strings on distinct-or-equal byte strings *)
Fixpoint insert_sorted (x : str) (l : list str) : list str :=
  match l with
  | [] => [x]
  | y :: l' => if str_leb x y then x :: l else y :: insert_sorted x l'
  end.
Definition sort_strs (l : list str) : list str := fold_right insert_sorted [] l.

(* strings.Join *)
Fixpoint join (sep : str) (l : list str) : str :=
  match l with
  | [] => []
  | [x] => x
  | x :: l' => x ++ sep ++ join sep l'
  end.

Definition str_in (x : str) (l : list str) : bool := existsb (str_eqb x) l.

Lemma str_in_spec x l : str_in x l = true <-> In x l.
Proof.
  unfold str_in. rewrite existsb_exists. split.
  - intros [y [Hy E]]. apply str_eqb_eq in E; subst; assumption.
  - intro H; exists x; split; [assumption | apply str_eqb_refl].
Qed.

Fixpoint dedup (l : list str) : list str :=
  match l with
  | [] => []
  | x :: l' => if str_in x l' then dedup l' else x :: dedup l'
  end.
