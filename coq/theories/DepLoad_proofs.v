(* DepLoad_proofs.v -- lemmas about DepLoad.v (property C15, concurrent loading of a dependency's outputs,
   with the per-dependency lock of the executor, with lost blobs and with failing lookups of the dependency's target result).
   The theorems restated in properties/C15_depload.v are at the end. *)
From Coq Require Import Arith Bool List Lia.
Import ListNotations.
From Grog Require Import DepLoad.

(* ------------------------------------------------------------------ small facts *)
Lemma upd_same : forall (A : Type) (f : nat -> A) t x, upd f t x t = x.
Proof. intros A f t x. unfold upd. now rewrite Nat.eqb_refl. Qed.

Lemma upd_other : forall (A : Type) (f : nat -> A) t x u, u <> t -> upd f t x u = f u.
Proof. intros A f t x u Hne. unfold upd. destruct (Nat.eqb_spec u t) as [E|E]; [contradiction|reflexivity]. Qed.

Lemma memb_In : forall i l, memb i l = true <-> In i l.
Proof.
  intros i l. unfold memb. rewrite existsb_exists. split.
  - intros [x [Hx E]]. apply Nat.eqb_eq in E. now subst.
  - intros H. exists i. split; [assumption|apply Nat.eqb_refl].
Qed.

Lemma memb_false : forall i l, memb i l = false <-> ~ In i l.
Proof.
  intros i l. rewrite <- memb_In. destruct (memb i l); split; intros H.
  - discriminate H.
  - exfalso. now apply H.
  - intros H'. discriminate H'.
  - reflexivity.
Qed.

Lemma memb_cons : forall j i l, memb j (i :: l) = Nat.eqb j i || memb j l.
Proof. intros j i l. reflexivity. Qed.

Lemma all_done_spec : forall n done, all_done n done = true <-> (forall j, j < n -> In j done).
Proof.
  intros n done. unfold all_done. rewrite forallb_forall. split.
  - intros H j Hj. apply memb_In. apply H. apply in_seq. lia.
  - intros H j Hj. apply in_seq in Hj. apply memb_In. apply H. lia.
Qed.

Lemma all_done_nil : forall n, all_done n [] = true <-> n = 0.
Proof.
  intros n. rewrite all_done_spec. split.
  - intros H. destruct n as [|n]; [reflexivity|]. exfalso. apply (H 0). lia.
  - intros -> j Hj. lia.
Qed.

Lemma map_snd_pair : forall (t : nat) (l : list nat), map snd (map (pair t) l) = l.
Proof. intros t l. induction l as [|a l IH]; [reflexivity|]. cbn [map snd]. now rewrite IH. Qed.

(* every projection of every one-field update *)
Ltac sp := cbn [flag olock lock files pcs requested missing result_fails restores reruns obs wrote
                set_pc set_flag set_olock set_lock set_files set_requested log_restore log_rerun log_obs log_wrote].
Ltac sp_in H := cbn [flag olock lock files pcs requested missing result_fails restores reruns obs wrote
                set_pc set_flag set_olock set_lock set_files set_requested log_restore log_rerun log_obs log_wrote] in H.

(* ------------------------------------------------------------------ the steps of the repaired protocol, once *)
Inductive step_shape (n : nat) (s : state) (t : nat) : stepk -> state -> Prop :=
| sh_start : pcs s t = PStart -> step_shape n s t SStart (set_pc s t POuterLock)
| sh_olock : pcs s t = POuterLock -> olock s = None ->
    step_shape n s t SOuterLock (set_pc (set_olock s (Some t)) t PCheckFlag)
| sh_check : pcs s t = PCheckFlag ->
    step_shape n s t SCheckFlag (set_pc s t (if flag s then POuterUnlock else PLoadResult))
| sh_load : pcs s t = PLoadResult -> result_fails s = false -> step_shape n s t SLoadResult (set_pc s t PLock)
| sh_loadf : pcs s t = PLoadResult -> result_fails s = true -> step_shape n s t SLoadResult (set_pc s t PRerunStart)
| sh_lock : pcs s t = PLock -> lock s = None -> step_shape n s t SLock (set_pc (set_lock s (Some t)) t PRecheck)
| sh_recheck : pcs s t = PRecheck -> step_shape n s t SRecheck (set_pc s t (if flag s then PUnlock else PValidate))
| sh_validate : pcs s t = PValidate ->
    step_shape n s t SValidate (set_pc s t (if all_done n [] then PSetFlag else PRestore []))
| sh_fail : forall i done, pcs s t = PRestore done -> i < n -> ~ In i done -> missing s i = true ->
    step_shape n s t (SRestore i) (set_pc (set_flag s (flag s)) t PUnlockF)
| sh_restore : forall i done, pcs s t = PRestore done -> i < n -> ~ In i done -> missing s i = false ->
    step_shape n s t (SRestore i)
      (set_pc (log_restore (set_files s (upd (files s) i Current)) t i) t
              (if all_done n (i :: done) then PSetFlag else PRestore (i :: done)))
| sh_setflag : pcs s t = PSetFlag -> step_shape n s t SSetFlag (set_pc (set_flag s true) t PUnlock)
| sh_unlock : pcs s t = PUnlock -> step_shape n s t SUnlock (set_pc (set_lock s None) t POuterUnlock)
| sh_unlockf : pcs s t = PUnlockF -> step_shape n s t SUnlock (set_pc (set_lock s None) t PRerunStart)
| sh_rerun : pcs s t = PRerunStart ->
    step_shape n s t SRerunStart
      (set_pc (log_rerun (set_files s (tear n (files s))) t) t (if all_done n [] then PComplete else PRerun []))
| sh_write : forall i done, pcs s t = PRerun done -> i < n -> ~ In i done ->
    step_shape n s t (SRerunWrite i)
      (set_pc (set_files s (upd (files s) i Current)) t (if all_done n (i :: done) then PComplete else PRerun (i :: done)))
| sh_complete : pcs s t = PComplete -> lock s = None ->
    step_shape n s t SComplete (set_pc (log_wrote (set_flag s true) t (observe n s)) t POuterUnlock)
| sh_ounlock : pcs s t = POuterUnlock -> step_shape n s t SOuterUnlock (set_pc (set_olock s None) t PRunCmd)
| sh_cmd : pcs s t = PRunCmd -> step_shape n s t SRunCmd (set_pc (log_obs s t (observe n s)) t PDone).

Lemma guard_spec : forall i n done, Nat.ltb i n && negb (memb i done) = true -> i < n /\ ~ In i done.
Proof.
  intros i n done Eg. apply andb_true_iff in Eg. destruct Eg as [Hlt Hm]. apply Nat.ltb_lt in Hlt.
  apply negb_true_iff in Hm. apply memb_false in Hm. now split.
Qed.

Lemma step_cases : forall n s t k s', step VCorrect n s (t, k) = Some s' -> step_shape n s t k s'.
Proof.
  intros n s t k s' H. unfold step in H. cbn [fst snd outer_locked after_validate after_setflag after_restores flag_after_failure
                           after_start after_outerlock after_checkflag after_loadresult] in H.
  destruct k as [| | | | | | |i| | | |i| | |]; destruct (pcs s t) as [| | | | | | |done| | | | |done| | | |] eqn:Ep;
    try discriminate H.
  - injection H as <-. now constructor.
  - destruct (olock s) eqn:El; [discriminate H|]. injection H as <-. now constructor.
  - injection H as <-. now constructor.
  - destruct (result_fails s) eqn:Erf; injection H as <-; [now apply sh_loadf|now apply sh_load].
  - destruct (lock s) eqn:El; [discriminate H|]. injection H as <-. now constructor.
  - injection H as <-. now constructor.
  - injection H as <-. now constructor.
  - destruct (Nat.ltb i n && negb (memb i done)) eqn:Eg; [|discriminate H]. destruct (guard_spec _ _ _ Eg) as [Hi Hnd].
    destruct (missing s i) eqn:Em; injection H as <-; [now apply sh_fail with done|now apply sh_restore].
  - injection H as <-. now constructor.
  - injection H as <-. now constructor.
  - injection H as <-. now constructor.
  - injection H as <-. now constructor.
  - destruct (Nat.ltb i n && negb (memb i done)) eqn:Eg; [|discriminate H]. destruct (guard_spec _ _ _ Eg) as [Hi Hnd].
    injection H as <-. now apply sh_write.
  - destruct (lock s) eqn:El; [discriminate H|]. injection H as <-. now constructor.
  - injection H as <-. now constructor.
  - injection H as <-. now constructor.
Qed.

Ltac step_inv H :=
  apply step_cases in H;
  destruct H as [Hpc|Hpc Hol|Hpc|Hpc Hrf|Hpc Hrf|Hpc Hlk|Hpc|Hpc|i0 done0 Hpc Hi0 Hnd0 Hmiss|i0 done0 Hpc Hi0 Hnd0 Hmiss
                |Hpc|Hpc|Hpc|Hpc|i0 done0 Hpc Hi0 Hnd0|Hpc Hlk|Hpc|Hpc].

(* look through an update of a function at the point u *)
Ltac upd_at u t H :=
  let Hne := fresh "Hne" in
  destruct (Nat.eq_dec u t) as [->|Hne];
  [rewrite upd_same in H | rewrite (upd_other _ _ _ _ _ Hne) in H].
Ltac upd_goal u t :=
  let Hne := fresh "Hne" in
  destruct (Nat.eq_dec u t) as [->|Hne];
  [rewrite upd_same | rewrite (upd_other _ _ _ _ _ Hne)].

(* ------------------------------------------------------------------ the invariant of the repaired protocol *)
(* the holder of the outer lock found the flag false and has not set it yet *)
Definition working (p : pc) : bool :=
  match p with
  | PLoadResult | PLock | PRecheck | PValidate | PRestore _ | PSetFlag | PUnlockF | PRerunStart | PRerun _ | PComplete => true
  | _ => false
  end.
(* the flag was seen or set true *)
Definition flagged (p : pc) : bool := match p with PUnlock | POuterUnlock | PRunCmd => true | _ => false end.
(* under the outer lock, before the first restore *)
Definition pre_restore (p : pc) : bool :=
  match p with PCheckFlag | PLoadResult | PLock | PRecheck | PValidate => true | _ => false end.

Lemma locked_outer : forall p, in_locked_region p = true -> in_outer_region p = true.
Proof. intros p. destruct p; cbn; intros H; try discriminate H; reflexivity. Qed.
Lemma working_outer : forall p, working p = true -> in_outer_region p = true.
Proof. intros p. destruct p; cbn; intros H; try discriminate H; reflexivity. Qed.
Lemma pre_restore_outer : forall p, pre_restore p = true -> in_outer_region p = true.
Proof. intros p. destruct p; cbn; intros H; try discriminate H; reflexivity. Qed.
Lemma rerunning_outer : forall p, rerunning p = true -> in_outer_region p = true.
Proof. intros p. destruct p; cbn; intros H; try discriminate H; reflexivity. Qed.

Definition file_of_log (l : list (nat * nat)) (i : nat) : fstate := if memb i (map snd l) then Current else Stale.

Record Inv (n k : nat) (miss : nat -> bool) (rf : bool) (s : state) : Prop := mkInv {
  inv_oregion : forall t, in_outer_region (pcs s t) = true -> olock s = Some t;
  inv_oholder : forall t, olock s = Some t -> in_outer_region (pcs s t) = true;
  inv_region : forall t, in_locked_region (pcs s t) = true -> lock s = Some t;
  inv_holder : forall t, lock s = Some t -> in_locked_region (pcs s t) = true;
  inv_outside : forall t, k <= t -> pcs s t = PDone;
  inv_missing : missing s = miss;
  inv_rf : result_fails s = rf;
  inv_noflag : forall t, working (pcs s t) = true -> flag s = false;
  inv_after : forall t, flagged (pcs s t) = true -> flag s = true;
  inv_flag : flag s = true -> forall i, i < n -> files s i = Current;
  inv_pristine : forall t, pre_restore (pcs s t) = true -> flag s = false -> restores s = [] /\ reruns s = [];
  inv_idle : olock s = None -> flag s = false -> restores s = [] /\ reruns s = [];
  inv_restore : forall t done, pcs s t = PRestore done ->
      all_done n done = false /\ restores s = map (pair t) done /\ reruns s = [];
  inv_files : reruns s = [] -> forall i, files s i = file_of_log (restores s) i;
  inv_log : forall t i, In (t, i) (restores s) -> i < n /\ missing s i = false;
  inv_once : NoDup (map snd (restores s));
  inv_setflag : forall t, pcs s t = PSetFlag -> forall i, i < n -> files s i = Current;
  inv_rerun : forall t done, pcs s t = PRerun done ->
      all_done n done = false /\ reruns s <> [] /\ forall i, In i done -> files s i = Current;
  inv_complete : forall t, pcs s t = PComplete -> forall i, i < n -> files s i = Current;
  inv_reruns : length (reruns s) <= 1;
  inv_acct : reruns s <> [] -> flag s = true \/ exists t, rerunning (pcs s t) = true;
  inv_obs : forall t o, In (t, o) (obs s) -> saw_all_current n o = true;
  inv_wrote : forall t o, In (t, o) (wrote s) -> saw_all_current n o = true;
  inv_done : forall t, t < k -> pcs s t = PDone -> exists o, In (t, o) (obs s);
  inv_torn : forall i, files s i = Torn -> i < n /\ exists t done, pcs s t = PRerun done /\ ~ In i done
}.

Lemma inv_init : forall n k miss rf, Inv n k miss rf (init k miss rf).
Proof.
  intros n k miss rf. constructor; cbn [init flag olock lock files pcs missing result_fails restores reruns obs wrote map length].
  - intros t. destruct (Nat.ltb t k); discriminate.
  - discriminate.
  - intros t. destruct (Nat.ltb t k); discriminate.
  - discriminate.
  - intros t Ht. destruct (Nat.ltb_spec t k) as [H|H]; [lia|reflexivity].
  - reflexivity.
  - reflexivity.
  - intros t. destruct (Nat.ltb t k); discriminate.
  - intros t. destruct (Nat.ltb t k); discriminate.
  - discriminate.
  - intros t. destruct (Nat.ltb t k); discriminate.
  - now split.
  - intros t done. destruct (Nat.ltb t k); discriminate.
  - reflexivity.
  - intros t i [].
  - constructor.
  - intros t. destruct (Nat.ltb t k); discriminate.
  - intros t done. destruct (Nat.ltb t k); discriminate.
  - intros t. destruct (Nat.ltb t k); discriminate.
  - lia.
  - intros H. now contradiction H.
  - intros t o [].
  - intros t o [].
  - intros t Ht. destruct (Nat.ltb_spec t k) as [H|H]; [discriminate|lia].
  - discriminate.
Qed.

(* at most one task is between OuterLock and OuterUnlock *)
Lemma excl : forall n k miss rf s t u, Inv n k miss rf s ->
  in_outer_region (pcs s t) = true -> in_outer_region (pcs s u) = true -> t = u.
Proof.
  intros n k miss rf s t u I Ht Hu. apply (inv_oregion _ _ _ _ _ I) in Ht. apply (inv_oregion _ _ _ _ _ I) in Hu.
  rewrite Ht in Hu. now injection Hu.
Qed.

(* facts about the acting task t, from its pc *)
Ltac own I :=
  match goal with
  | Hpc : pcs ?s ?t = _ |- _ =>
      try (assert (Hown : olock s = Some t) by (apply (inv_oregion _ _ _ _ _ I); rewrite Hpc; reflexivity));
      try (assert (Hlown : lock s = Some t) by (apply (inv_region _ _ _ _ _ I); rewrite Hpc; reflexivity));
      try (assert (Hnf : flag s = false) by (apply (inv_noflag _ _ _ _ _ I t); rewrite Hpc; reflexivity));
      try (assert (Hfl : flag s = true) by (apply (inv_after _ _ _ _ _ I t); rewrite Hpc; reflexivity))
  end.

(* u <> t, both in the outer region: impossible *)
Ltac by_excl I :=
  match goal with
  | Hne : ?u <> ?t, Hpc : pcs ?s ?t = _ |- _ =>
      exfalso; apply Hne; apply (excl _ _ _ _ s u t I);
      [first [assumption | apply locked_outer; assumption | apply working_outer; assumption
             | apply pre_restore_outer; assumption | apply rerunning_outer; assumption
             | match goal with Hu : pcs s u = _ |- _ => rewrite Hu; reflexivity end]
      | rewrite Hpc; reflexivity]
  end.

Lemma pres_oregion : forall n k miss rf s e s', Inv n k miss rf s -> step VCorrect n s e = Some s' ->
  forall u, in_outer_region (pcs s' u) = true -> olock s' = Some u.
Proof.
  intros n k miss rf s [t st] s' I H. step_inv H; own I; sp; intros u Hu; upd_at u t Hu;
    try discriminate Hu; try reflexivity; try assumption; try (now apply (inv_oregion _ _ _ _ _ I)).
  - apply (inv_oregion _ _ _ _ _ I) in Hu. rewrite Hol in Hu. discriminate Hu.
  - by_excl I.
Qed.

Lemma pres_oholder : forall n k miss rf s e s', Inv n k miss rf s -> step VCorrect n s e = Some s' ->
  forall u, olock s' = Some u -> in_outer_region (pcs s' u) = true.
Proof.
  intros n k miss rf s [t st] s' I H. step_inv H; own I; sp; intros u Hu; try discriminate Hu;
    try (rewrite Hown in Hu; injection Hu as <-; rewrite upd_same; try reflexivity).
  all: try solve [destruct (flag s); reflexivity | destruct (all_done n _); reflexivity].
  - upd_goal u t; [|now apply (inv_oholder _ _ _ _ _ I)]. apply (inv_oholder _ _ _ _ _ I) in Hu. rewrite Hpc in Hu. discriminate Hu.
  - injection Hu as <-. now rewrite upd_same.
  - upd_goal u t; [|now apply (inv_oholder _ _ _ _ _ I)]. apply (inv_oholder _ _ _ _ _ I) in Hu. rewrite Hpc in Hu. discriminate Hu.
Qed.

Lemma pres_region : forall n k miss rf s e s', Inv n k miss rf s -> step VCorrect n s e = Some s' ->
  forall u, in_locked_region (pcs s' u) = true -> lock s' = Some u.
Proof.
  intros n k miss rf s [t st] s' I H. step_inv H; own I; sp; intros u Hu; upd_at u t Hu;
    try discriminate Hu; try reflexivity; try assumption; try (now apply (inv_region _ _ _ _ _ I)).
  all: try solve [destruct (flag s); discriminate Hu | destruct (all_done n _); discriminate Hu].
  all: try solve [apply locked_outer in Hu; by_excl I].
Qed.

Lemma pres_holder : forall n k miss rf s e s', Inv n k miss rf s -> step VCorrect n s e = Some s' ->
  forall u, lock s' = Some u -> in_locked_region (pcs s' u) = true.
Proof.
  intros n k miss rf s [t st] s' I H. step_inv H; own I; sp; intros u Hu; try discriminate Hu;
    try (rewrite Hlown in Hu; injection Hu as <-; rewrite upd_same; try reflexivity).
  all: try solve [destruct (flag s); reflexivity | destruct (all_done n _); reflexivity].
  all: try solve [injection Hu as <-; now rewrite upd_same].
  all: apply (inv_holder _ _ _ _ _ I) in Hu; upd_goal u t; try exact Hu; rewrite Hpc in Hu; discriminate Hu.
Qed.

Lemma pres_outside : forall n k miss rf s e s', Inv n k miss rf s -> step VCorrect n s e = Some s' ->
  forall u, k <= u -> pcs s' u = PDone.
Proof.
  intros n k miss rf s [t st] s' I H.
  assert (Hu' : forall u, k <= u -> pcs s u = PDone) by apply (inv_outside _ _ _ _ _ I).
  step_inv H; sp; intros u Hu; (upd_goal u t; [|now apply Hu']);
    apply Hu' in Hu; rewrite Hpc in Hu; try discriminate Hu; reflexivity.
Qed.

Lemma pres_missing : forall n k miss rf s e s', Inv n k miss rf s -> step VCorrect n s e = Some s' -> missing s' = miss.
Proof. intros n k miss rf s [t st] s' I H. step_inv H; sp; exact (inv_missing _ _ _ _ _ I). Qed.

Lemma pres_rf : forall n k miss rf s e s', Inv n k miss rf s -> step VCorrect n s e = Some s' -> result_fails s' = rf.
Proof. intros n k miss rf s [t st] s' I H. step_inv H; sp; exact (inv_rf _ _ _ _ _ I). Qed.

Lemma pres_noflag : forall n k miss rf s e s', Inv n k miss rf s -> step VCorrect n s e = Some s' ->
  forall u, working (pcs s' u) = true -> flag s' = false.
Proof.
  intros n k miss rf s [t st] s' I H. step_inv H; own I; sp; intros u Hu; upd_at u t Hu;
    try discriminate Hu; try assumption; try (now apply (inv_noflag _ _ _ _ _ I u)).
  all: try solve [destruct (flag s); [discriminate Hu|reflexivity]].
  all: apply working_outer in Hu; by_excl I.
Qed.

Lemma pres_after : forall n k miss rf s e s', Inv n k miss rf s -> step VCorrect n s e = Some s' ->
  forall u, flagged (pcs s' u) = true -> flag s' = true.
Proof.
  intros n k miss rf s [t st] s' I H. step_inv H; own I; sp; intros u Hu; upd_at u t Hu;
    try discriminate Hu; try reflexivity; try assumption; try (now apply (inv_after _ _ _ _ _ I u)).
  all: try solve [destruct (flag s); [reflexivity|discriminate Hu] | destruct (all_done n _); discriminate Hu].
Qed.

Lemma pres_flag : forall n k miss rf s e s', Inv n k miss rf s -> step VCorrect n s e = Some s' ->
  flag s' = true -> forall i, i < n -> files s' i = Current.
Proof.
  intros n k miss rf s [t st] s' I H. step_inv H; own I; sp; intros Hf j Hj;
    try (rewrite Hnf in Hf; discriminate Hf); try (now apply (inv_flag _ _ _ _ _ I)).
  - now apply (inv_setflag _ _ _ _ _ I t).
  - now apply (inv_complete _ _ _ _ _ I t).
Qed.

Lemma pres_pristine : forall n k miss rf s e s', Inv n k miss rf s -> step VCorrect n s e = Some s' ->
  forall u, pre_restore (pcs s' u) = true -> flag s' = false -> restores s' = [] /\ reruns s' = [].
Proof.
  intros n k miss rf s [t st] s' I H. step_inv H; own I; sp; intros u Hu Hf; upd_at u t Hu;
    try discriminate Hu; try (now apply (inv_pristine _ _ _ _ _ I u)).
  all: try solve [apply pre_restore_outer in Hu; by_excl I].
  all: try solve [apply (inv_pristine _ _ _ _ _ I t); [rewrite Hpc; reflexivity|assumption]].
  all: try solve [destruct (all_done n _); discriminate Hu].
  now apply (inv_idle _ _ _ _ _ I).
Qed.

Lemma pres_idle : forall n k miss rf s e s', Inv n k miss rf s -> step VCorrect n s e = Some s' ->
  olock s' = None -> flag s' = false -> restores s' = [] /\ reruns s' = [].
Proof.
  intros n k miss rf s [t st] s' I H. step_inv H; own I; sp; intros Ho Hf;
    try (rewrite Hown in Ho; discriminate Ho); try discriminate Ho; try (now apply (inv_idle _ _ _ _ _ I)).
  rewrite Hfl in Hf. discriminate Hf.
Qed.

Lemma pres_restore : forall n k miss rf s e s', Inv n k miss rf s -> step VCorrect n s e = Some s' ->
  forall u done, pcs s' u = PRestore done ->
  all_done n done = false /\ restores s' = map (pair u) done /\ reruns s' = [].
Proof.
  intros n k miss rf s [t st] s' I H. step_inv H; own I; sp; intros u done Hu; upd_at u t Hu;
    try discriminate Hu; try (now apply (inv_restore _ _ _ _ _ I u)).
  all: try solve [by_excl I].
  all: try solve [destruct (flag s); discriminate Hu].
  - destruct (all_done n []) eqn:Ea; [discriminate Hu|]. injection Hu as <-.
    destruct (inv_pristine _ _ _ _ _ I t) as [Hr Hq]; [rewrite Hpc; reflexivity|assumption|]. now rewrite Hr, Hq.
  - destruct (all_done n (i0 :: done0)) eqn:Ea; [discriminate Hu|]. injection Hu as <-.
    destruct (inv_restore _ _ _ _ _ I t done0 Hpc) as (_ & Hr & Hq). rewrite Hr. now split.
  - destruct (all_done n []); discriminate Hu.
  - destruct (all_done n (i0 :: done0)); discriminate Hu.
Qed.

Lemma file_of_log_cons : forall l t i j,
  file_of_log ((t, i) :: l) j = upd (file_of_log l) i Current j.
Proof.
  intros l t i j. unfold file_of_log, upd. cbn [map snd]. rewrite memb_cons. destruct (Nat.eqb j i); reflexivity.
Qed.

Lemma upd_ext : forall (A : Type) (f g : nat -> A) i x j, f j = g j -> upd f i x j = upd g i x j.
Proof. intros A f g i x j H. unfold upd. now destruct (Nat.eqb j i). Qed.

Lemma pres_files : forall n k miss rf s e s', Inv n k miss rf s -> step VCorrect n s e = Some s' ->
  reruns s' = [] -> forall i, files s' i = file_of_log (restores s') i.
Proof.
  intros n k miss rf s [t st] s' I H. step_inv H; sp; intros Hq j; try (now apply (inv_files _ _ _ _ _ I)).
  - rewrite file_of_log_cons. apply upd_ext. now apply (inv_files _ _ _ _ _ I).
  - discriminate Hq.
  - destruct (inv_rerun _ _ _ _ _ I t done0 Hpc) as (_ & Hne & _). contradiction.
Qed.

Lemma pres_log : forall n k miss rf s e s', Inv n k miss rf s -> step VCorrect n s e = Some s' ->
  forall u i, In (u, i) (restores s') -> i < n /\ missing s' i = false.
Proof.
  intros n k miss rf s [t st] s' I H. step_inv H; sp; intros u j Hin; try (now apply (inv_log _ _ _ _ _ I u)).
  destruct Hin as [Hin|Hin]; [injection Hin as _ <-; now split|now apply (inv_log _ _ _ _ _ I u)].
Qed.

Lemma pres_once : forall n k miss rf s e s', Inv n k miss rf s -> step VCorrect n s e = Some s' ->
  NoDup (map snd (restores s')).
Proof.
  intros n k miss rf s [t st] s' I H. step_inv H; sp; try exact (inv_once _ _ _ _ _ I).
  cbn [map snd]. constructor; [|exact (inv_once _ _ _ _ _ I)].
  destruct (inv_restore _ _ _ _ _ I t done0 Hpc) as (_ & Hr & _). now rewrite Hr, map_snd_pair.
Qed.

Lemma upd_files_current : forall (f : nat -> fstate) i j, f j = Current -> upd f i Current j = Current.
Proof. intros f i j H. unfold upd. now destruct (Nat.eqb j i). Qed.

(* inside the restore loop the outputs restored so far are current *)
Lemma restored_current : forall n k miss rf s t done, Inv n k miss rf s -> pcs s t = PRestore done ->
  forall j, In j done -> files s j = Current.
Proof.
  intros n k miss rf s t done I Hpc j Hj. destruct (inv_restore _ _ _ _ _ I t done Hpc) as (_ & Hr & Hq).
  rewrite (inv_files _ _ _ _ _ I Hq). unfold file_of_log. rewrite Hr, map_snd_pair.
  apply memb_In in Hj. now rewrite Hj.
Qed.

Lemma pres_setflag : forall n k miss rf s e s', Inv n k miss rf s -> step VCorrect n s e = Some s' ->
  forall u, pcs s' u = PSetFlag -> forall i, i < n -> files s' i = Current.
Proof.
  intros n k miss rf s [t st] s' I H. step_inv H; own I; sp; intros u Hu; upd_at u t Hu;
    try discriminate Hu; try (now apply (inv_setflag _ _ _ _ _ I u)).
  all: try solve [by_excl I].
  all: try solve [destruct (flag s); discriminate Hu].
  - destruct (all_done n []) eqn:Ea; [|discriminate Hu]. apply all_done_nil in Ea. intros i Hi. lia.
  - destruct (all_done n (i0 :: done0)) eqn:Ea; [|discriminate Hu]. intros j Hj.
    destruct (proj1 (all_done_spec _ _) Ea j Hj) as [<-|Hin]; [apply upd_same|].
    apply upd_files_current. now apply (restored_current n k miss rf s t done0 I Hpc).
  - destruct (all_done n []); discriminate Hu.
  - destruct (all_done n (i0 :: done0)); discriminate Hu.
Qed.

Lemma pres_rerun : forall n k miss rf s e s', Inv n k miss rf s -> step VCorrect n s e = Some s' ->
  forall u done, pcs s' u = PRerun done ->
  all_done n done = false /\ reruns s' <> [] /\ forall i, In i done -> files s' i = Current.
Proof.
  intros n k miss rf s [t st] s' I H. step_inv H; own I; sp; intros u done Hu; upd_at u t Hu;
    try discriminate Hu; try (now apply (inv_rerun _ _ _ _ _ I u)).
  all: try solve [by_excl I].
  all: try solve [destruct (flag s); discriminate Hu].
  - destruct (all_done n []); discriminate Hu.
  - destruct (all_done n (i0 :: done0)); discriminate Hu.
  - destruct (all_done n []) eqn:Ea; [discriminate Hu|]. injection Hu as <-. split; [exact Ea|]. split; [discriminate|intros i []].
  - destruct (all_done n (i0 :: done0)) eqn:Ea; [discriminate Hu|]. injection Hu as <-.
    destruct (inv_rerun _ _ _ _ _ I t done0 Hpc) as (_ & Hq & Hf). split; [exact Ea|]. split; [exact Hq|].
    intros j [<-|Hj]; [apply upd_same|]. apply upd_files_current. now apply Hf.
Qed.

Lemma pres_complete : forall n k miss rf s e s', Inv n k miss rf s -> step VCorrect n s e = Some s' ->
  forall u, pcs s' u = PComplete -> forall i, i < n -> files s' i = Current.
Proof.
  intros n k miss rf s [t st] s' I H. step_inv H; own I; sp; intros u Hu; upd_at u t Hu;
    try discriminate Hu; try (now apply (inv_complete _ _ _ _ _ I u)).
  all: try solve [by_excl I].
  all: try solve [destruct (flag s); discriminate Hu].
  - destruct (all_done n []); discriminate Hu.
  - destruct (all_done n (i0 :: done0)); discriminate Hu.
  - destruct (all_done n []) eqn:Ea; [|discriminate Hu]. apply all_done_nil in Ea. intros i Hi. lia.
  - destruct (all_done n (i0 :: done0)) eqn:Ea; [|discriminate Hu]. intros j Hj.
    destruct (proj1 (all_done_spec _ _) Ea j Hj) as [<-|Hin]; [apply upd_same|].
    apply upd_files_current. now apply (proj2 (proj2 (inv_rerun _ _ _ _ _ I t done0 Hpc))).
Qed.

(* d's command has not run when a task is about to start it *)
Lemma no_rerun_yet : forall n k miss rf s t, Inv n k miss rf s -> pcs s t = PRerunStart -> reruns s = [].
Proof.
  intros n k miss rf s t I Hpc. destruct (reruns s) as [|r l] eqn:Er; [reflexivity|]. exfalso.
  destruct (inv_acct _ _ _ _ _ I) as [Hf|[u Hu]]; [rewrite Er; discriminate| |].
  - rewrite (inv_noflag _ _ _ _ _ I t) in Hf by (now rewrite Hpc). discriminate Hf.
  - assert (E : u = t) by (apply (excl _ _ _ _ s u t I); [now apply rerunning_outer|now rewrite Hpc]).
    subst u. rewrite Hpc in Hu. discriminate Hu.
Qed.

Lemma pres_reruns : forall n k miss rf s e s', Inv n k miss rf s -> step VCorrect n s e = Some s' -> length (reruns s') <= 1.
Proof.
  intros n k miss rf s [t st] s' I H. step_inv H; sp; try exact (inv_reruns _ _ _ _ _ I).
  rewrite (no_rerun_yet n k miss rf s t I Hpc). cbn [length]. lia.
Qed.

Lemma pres_acct : forall n k miss rf s e s', Inv n k miss rf s -> step VCorrect n s e = Some s' ->
  reruns s' <> [] -> flag s' = true \/ exists u, rerunning (pcs s' u) = true.
Proof.
  intros n k miss rf s [t st] s' I H.
  assert (A := inv_acct _ _ _ _ _ I).
  step_inv H; sp; intros Hq;
    try (destruct (A Hq) as [Hf|[u Hu]];
         [now left
         |destruct (Nat.eq_dec u t) as [->|Hne];
          [rewrite Hpc in Hu; try discriminate Hu|right; exists u; now rewrite upd_other]]).
  - right. exists t. rewrite upd_same. now destruct (all_done n []).
  - right. exists t. rewrite upd_same. now destruct (all_done n (i0 :: done0)).
  - now left.
Qed.

Lemma observe_current : forall n s, (forall i, i < n -> files s i = Current) -> saw_all_current n (observe n s) = true.
Proof.
  intros n s H. unfold saw_all_current, observe. rewrite map_length, seq_length, Nat.eqb_refl. cbn [andb].
  apply forallb_forall. intros f Hf. apply in_map_iff in Hf. destruct Hf as [i [<- Hi]]. apply in_seq in Hi.
  rewrite H by lia. reflexivity.
Qed.

Lemma pres_obs : forall n k miss rf s e s', Inv n k miss rf s -> step VCorrect n s e = Some s' ->
  forall u o, In (u, o) (obs s') -> saw_all_current n o = true.
Proof.
  intros n k miss rf s [t st] s' I H. step_inv H; own I; sp; intros u o Hu; try (now apply (inv_obs _ _ _ _ _ I u)).
  destruct Hu as [Hu|Hu]; [|now apply (inv_obs _ _ _ _ _ I u)]. injection Hu as <- <-.
  apply observe_current. now apply (inv_flag _ _ _ _ _ I).
Qed.

Lemma pres_wrote : forall n k miss rf s e s', Inv n k miss rf s -> step VCorrect n s e = Some s' ->
  forall u o, In (u, o) (wrote s') -> saw_all_current n o = true.
Proof.
  intros n k miss rf s [t st] s' I H. step_inv H; sp; intros u o Hu; try (now apply (inv_wrote _ _ _ _ _ I u)).
  destruct Hu as [Hu|Hu]; [|now apply (inv_wrote _ _ _ _ _ I u)]. injection Hu as <- <-.
  apply observe_current. now apply (inv_complete _ _ _ _ _ I t).
Qed.

Lemma pres_done : forall n k miss rf s e s', Inv n k miss rf s -> step VCorrect n s e = Some s' ->
  forall u, u < k -> pcs s' u = PDone -> exists o, In (u, o) (obs s').
Proof.
  intros n k miss rf s [t st] s' I H.
  assert (Hu' : forall u, u < k -> pcs s u = PDone -> exists o, In (u, o) (obs s)) by apply (inv_done _ _ _ _ _ I).
  step_inv H; sp; intros u Hk Hu; upd_at u t Hu; try discriminate Hu; try (now apply (Hu' u)).
  all: try solve [destruct (flag s); discriminate Hu | destruct (all_done n _); discriminate Hu].
  - exists (observe n s). now left.
  - destruct (Hu' u Hk Hu) as [o Ho]. exists o. now right.
Qed.

(* a file is torn only while a task runs d's command and has not written it yet *)
Lemma pres_torn : forall n k miss rf s e s', Inv n k miss rf s -> step VCorrect n s e = Some s' ->
  forall i, files s' i = Torn -> i < n /\ exists u done, pcs s' u = PRerun done /\ ~ In i done.
Proof.
  intros n k miss rf s [t st] s' I H.
  assert (T := inv_torn _ _ _ _ _ I).
  assert (Keep : forall j p, (forall d, pcs s t <> PRerun d) -> files s j = Torn ->
            j < n /\ exists u done, upd (pcs s) t p u = PRerun done /\ ~ In j done).
  { intros j p Hp Hj. destruct (T j Hj) as [Hn (u & done & Hu & Hd)]. split; [exact Hn|]. exists u, done.
    split; [|exact Hd]. destruct (Nat.eq_dec u t) as [->|Hne]; [now contradiction (Hp done)|now rewrite upd_other]. }
  step_inv H; sp; intros j Hj; try (apply Keep; [intros d; rewrite Hpc; discriminate|exact Hj]).
  - apply Keep; [intros d; rewrite Hpc; discriminate|]. unfold upd in Hj. destruct (Nat.eqb j i0); [discriminate Hj|exact Hj].
  - unfold tear in Hj. destruct (Nat.ltb_spec j n) as [Hlt|Hge].
    + split; [exact Hlt|]. exists t, []. rewrite upd_same. destruct (all_done n []) eqn:Ea.
      * apply all_done_nil in Ea. lia.
      * split; [reflexivity|intros []].
    + destruct (T j Hj) as [Hn _]. lia.
  - assert (Hji : j <> i0) by (intros E; rewrite E, upd_same in Hj; discriminate Hj).
    rewrite upd_other in Hj by exact Hji.
    destruct (T j Hj) as [Hn (u & done & Hu & Hd)]. split; [exact Hn|].
    assert (E : u = t) by (apply (excl _ _ _ _ s u t I); [now rewrite Hu|now rewrite Hpc]). subst u.
    rewrite Hpc in Hu. injection Hu as <-. exists t. rewrite upd_same.
    destruct (all_done n (i0 :: done0)) eqn:Ea.
    + exfalso. destruct (proj1 (all_done_spec _ _) Ea j Hn) as [E|Hin]; [now apply Hji|now apply Hd].
    + exists (i0 :: done0). split; [reflexivity|]. intros [E|Hin]; [now apply Hji|now apply Hd].
Qed.

Lemma inv_step : forall n k miss rf s e s', Inv n k miss rf s -> step VCorrect n s e = Some s' -> Inv n k miss rf s'.
Proof.
  intros n k miss rf s e s' I H. constructor.
  - exact (pres_oregion n k miss rf s e s' I H).
  - exact (pres_oholder n k miss rf s e s' I H).
  - exact (pres_region n k miss rf s e s' I H).
  - exact (pres_holder n k miss rf s e s' I H).
  - exact (pres_outside n k miss rf s e s' I H).
  - exact (pres_missing n k miss rf s e s' I H).
  - exact (pres_rf n k miss rf s e s' I H).
  - exact (pres_noflag n k miss rf s e s' I H).
  - exact (pres_after n k miss rf s e s' I H).
  - exact (pres_flag n k miss rf s e s' I H).
  - exact (pres_pristine n k miss rf s e s' I H).
  - exact (pres_idle n k miss rf s e s' I H).
  - exact (pres_restore n k miss rf s e s' I H).
  - exact (pres_files n k miss rf s e s' I H).
  - exact (pres_log n k miss rf s e s' I H).
  - exact (pres_once n k miss rf s e s' I H).
  - exact (pres_setflag n k miss rf s e s' I H).
  - exact (pres_rerun n k miss rf s e s' I H).
  - exact (pres_complete n k miss rf s e s' I H).
  - exact (pres_reruns n k miss rf s e s' I H).
  - exact (pres_acct n k miss rf s e s' I H).
  - exact (pres_obs n k miss rf s e s' I H).
  - exact (pres_wrote n k miss rf s e s' I H).
  - exact (pres_done n k miss rf s e s' I H).
  - exact (pres_torn n k miss rf s e s' I H).
Qed.

Lemma inv_run : forall n k miss rf evs s s', Inv n k miss rf s -> run VCorrect n s evs = Some s' -> Inv n k miss rf s'.
Proof.
  intros n k miss rf evs. induction evs as [|e r IH]; intros s s' I H; cbn [run] in H.
  - injection H as <-. exact I.
  - destruct (step VCorrect n s e) as [s1|] eqn:E; [|discriminate H]. apply (IH s1 s'); [|exact H].
    exact (inv_step n k miss rf s e s1 I E).
Qed.

Lemma inv_reachable : forall n k miss rf s, reachable VCorrect n k miss rf s -> Inv n k miss rf s.
Proof. intros n k miss rf s [evs H]. exact (inv_run n k miss rf evs (init k miss rf) s (inv_init n k miss rf) H). Qed.

Lemma run_app : forall v n evs1 evs2 s,
  run v n s (evs1 ++ evs2) = match run v n s evs1 with Some s1 => run v n s1 evs2 | None => None end.
Proof.
  intros v n evs1. induction evs1 as [|e r IH]; intros evs2 s; cbn [run app]; [reflexivity|].
  destruct (step v n s e) as [s1|]; [apply IH|reflexivity].
Qed.

Lemma reachable_step : forall v n k miss rf s e s', reachable v n k miss rf s -> step v n s e = Some s' -> reachable v n k miss rf s'.
Proof.
  intros v n k miss rf s e s' [evs H] Hs. exists (evs ++ [e]). rewrite run_app, H. cbn [run]. now rewrite Hs.
Qed.

(* ------------------------------------------------------------------ 1-3: safety, with any set of lost blobs *)
Lemma saw_all_current_repeat : forall n o, saw_all_current n o = true <-> o = repeat Current n.
Proof.
  intros n o. unfold saw_all_current. rewrite andb_true_iff, Nat.eqb_eq. split.
  - intros [<- Hall]. induction o as [|f o IH]; [reflexivity|]. cbn [forallb] in Hall.
    apply andb_true_iff in Hall. destruct Hall as [Hf Ho]. destruct f; try discriminate Hf.
    cbn [length repeat]. f_equal. now apply IH.
  - intros ->. split; [apply repeat_length|]. induction n as [|n IH]; [reflexivity|]. cbn. exact IH.
Qed.

Lemma cmd_sees_current : forall n k miss rf s, reachable VCorrect n k miss rf s ->
  forall t o, In (t, o) (obs s) -> o = repeat Current n.
Proof.
  intros n k miss rf s Hr t o Hin. apply saw_all_current_repeat. exact (inv_obs _ _ _ _ _ (inv_reachable n k miss rf s Hr) t o Hin).
Qed.

Lemma forallb_current_repeat : forall m, forallb is_current (repeat Current m) = true.
Proof. intros m. induction m as [|m IH]; [reflexivity|exact IH]. Qed.

Lemma existsb_torn_repeat : forall m, existsb is_torn (repeat Current m) = false.
Proof. intros m. induction m as [|m IH]; [reflexivity|exact IH]. Qed.

Lemma cmd_never_saw_stale : forall n k miss rf s, reachable VCorrect n k miss rf s -> cmd_saw_stale s = false.
Proof.
  intros n k miss rf s Hr. unfold cmd_saw_stale. destruct (existsb _ (obs s)) eqn:E; [|reflexivity].
  apply existsb_exists in E. destruct E as [[t o] [Hin Hb]]. cbn [snd] in Hb.
  rewrite (cmd_sees_current n k miss rf s Hr t o Hin), forallb_current_repeat in Hb. discriminate Hb.
Qed.

Lemma done_task_observed : forall n k miss rf s, reachable VCorrect n k miss rf s ->
  forall t, t < k -> pcs s t = PDone -> In (t, repeat Current n) (obs s).
Proof.
  intros n k miss rf s Hr t Ht Hd. destruct (inv_done _ _ _ _ _ (inv_reachable n k miss rf s Hr) t Ht Hd) as [o Ho].
  now rewrite <- (cmd_sees_current n k miss rf s Hr t o Ho).
Qed.

Lemma flag_implies_restored : forall n k miss rf s, reachable VCorrect n k miss rf s ->
  flag s = true -> forall i, i < n -> files s i = Current.
Proof. intros n k miss rf s Hr. exact (inv_flag _ _ _ _ _ (inv_reachable n k miss rf s Hr)). Qed.

Lemma file_of_log_current : forall l i, file_of_log l i = Current <-> exists t, In (t, i) l.
Proof.
  intros l i. unfold file_of_log. destruct (memb i (map snd l)) eqn:E.
  - apply memb_In in E. apply in_map_iff in E. destruct E as [[t j] [Ej Hin]]. cbn [snd] in Ej. subst j.
    split; [intros _; now exists t|reflexivity].
  - split; [discriminate|]. intros [t Hin]. apply memb_false in E. exfalso. apply E.
    apply in_map_iff. exists (t, i). now split.
Qed.

Lemma restored_once : forall n k miss rf s, reachable VCorrect n k miss rf s ->
  NoDup (map snd (restores s)) /\
  (forall t i, In (t, i) (restores s) -> i < n /\ miss i = false) /\
  (reruns s = [] -> forall i, files s i = Current <-> exists t, In (t, i) (restores s)).
Proof.
  intros n k miss rf s Hr. assert (I := inv_reachable n k miss rf s Hr). split; [exact (inv_once _ _ _ _ _ I)|]. split.
  - intros t i Hin. rewrite <- (inv_missing _ _ _ _ _ I). exact (inv_log _ _ _ _ _ I t i Hin).
  - intros Hq i. rewrite (inv_files _ _ _ _ _ I Hq). apply file_of_log_current.
Qed.

Lemma restore_by_holder_of_stale : forall n k miss rf s t i s', reachable VCorrect n k miss rf s ->
  step VCorrect n s (t, SRestore i) = Some s' ->
  olock s = Some t /\ lock s = Some t /\ flag s = false /\ files s i = Stale.
Proof.
  intros n k miss rf s t i s' Hr H. assert (I := inv_reachable n k miss rf s Hr).
  remember (SRestore i) as st eqn:Est.
  step_inv H; try discriminate Est; injection Est as ->; own I; (do 3 (split; [assumption|]));
    destruct (inv_restore _ _ _ _ _ I t done0 Hpc) as (_ & Hr' & Hq);
    rewrite (inv_files _ _ _ _ _ I Hq); unfold file_of_log; rewrite Hr', map_snd_pair;
    apply memb_false in Hnd0; now rewrite Hnd0.
Qed.

(* ------------------------------------------------------------------ 4: the dependency's command is re-run at most once *)
Lemma rerun_at_most_once : forall n k miss rf s, reachable VCorrect n k miss rf s -> length (reruns s) <= 1.
Proof. intros n k miss rf s Hr. exact (inv_reruns _ _ _ _ _ (inv_reachable n k miss rf s Hr)). Qed.

Lemma rerun_by_outer_holder : forall n k miss rf s t s', reachable VCorrect n k miss rf s ->
  step VCorrect n s (t, SRerunStart) = Some s' ->
  olock s = Some t /\ lock s = None /\ flag s = false /\ reruns s = [].
Proof.
  intros n k miss rf s t s' Hr H. assert (I := inv_reachable n k miss rf s Hr).
  remember SRerunStart as st eqn:Est.
  step_inv H; try discriminate Est. own I. split; [assumption|]. split.
  - destruct (lock s) as [h|] eqn:El; [|reflexivity]. exfalso.
    assert (Hh := inv_holder _ _ _ _ _ I h El).
    assert (E : h = t) by (apply (excl _ _ _ _ s h t I); [now apply locked_outer|now rewrite Hpc]).
    subst h. rewrite Hpc in Hh. discriminate Hh.
  - split; [assumption|]. exact (no_rerun_yet n k miss rf s t I Hpc).
Qed.

Lemma wrote_current : forall n k miss rf s, reachable VCorrect n k miss rf s ->
  forall t o, In (t, o) (wrote s) -> o = repeat Current n.
Proof.
  intros n k miss rf s Hr t o Hin. apply saw_all_current_repeat. exact (inv_wrote _ _ _ _ _ (inv_reachable n k miss rf s Hr) t o Hin).
Qed.

Lemma never_torn : forall n k miss rf s, reachable VCorrect n k miss rf s -> cmd_saw_torn s = false /\ cached_torn s = false.
Proof.
  intros n k miss rf s Hr. split.
  - unfold cmd_saw_torn. destruct (existsb _ (obs s)) eqn:E; [|reflexivity].
    apply existsb_exists in E. destruct E as [[t o] [Hin Hb]]. cbn [snd] in Hb.
    rewrite (cmd_sees_current n k miss rf s Hr t o Hin), existsb_torn_repeat in Hb. discriminate Hb.
  - unfold cached_torn. destruct (existsb _ (wrote s)) eqn:E; [|reflexivity].
    apply existsb_exists in E. destruct E as [[t o] [Hin Hb]]. cbn [snd] in Hb.
    rewrite (wrote_current n k miss rf s Hr t o Hin), existsb_torn_repeat in Hb. discriminate Hb.
Qed.

(* a file is torn only while the holder of the outer lock runs d's command and has not written it yet *)
Lemma torn_only_during_rerun : forall n k miss rf s, reachable VCorrect n k miss rf s ->
  forall i, files s i = Torn -> i < n /\ exists t done, olock s = Some t /\ pcs s t = PRerun done /\ ~ In i done.
Proof.
  intros n k miss rf s Hr i Hi. assert (I := inv_reachable n k miss rf s Hr).
  destruct (inv_torn _ _ _ _ _ I i Hi) as [Hn (t & done & Hp & Hd)]. split; [exact Hn|]. exists t, done.
  split; [|now split]. apply (inv_oregion _ _ _ _ _ I). now rewrite Hp.
Qed.

(* ------------------------------------------------------------------ 4b: the result lookups fail *)
(* not at the door of, nor inside, Registry.LoadOutputs *)
Definition no_load (p : pc) : bool :=
  match p with PLock | PRecheck | PValidate | PRestore _ | PSetFlag | PUnlock | PUnlockF => false | _ => true end.

Record InvR (k : nat) (s : state) : Prop := mkInvR {
  invr_noload : forall t, no_load (pcs s t) = true;
  invr_restores : restores s = [];
  invr_flag : flag s = true -> reruns s <> [];
  invr_complete : forall t, pcs s t = PComplete -> reruns s <> [];
  invr_done : forall t, t < k -> pcs s t = PDone -> flag s = true
}.

Lemma invr_init : forall k miss rf, InvR k (init k miss rf).
Proof.
  intros k miss rf. constructor; cbn [init flag pcs restores reruns].
  - intros t. destruct (Nat.ltb t k); reflexivity.
  - reflexivity.
  - discriminate.
  - intros t. destruct (Nat.ltb t k); discriminate.
  - intros t Ht. destruct (Nat.ltb_spec t k) as [H|H]; [discriminate|lia].
Qed.

Lemma invr_step : forall n k miss s e s', Inv n k miss true s -> InvR k s -> step VCorrect n s e = Some s' -> InvR k s'.
Proof.
  intros n k miss s [t st] s' I R H.
  assert (Hrf' := inv_rf _ _ _ _ _ I).
  assert (Nl := invr_noload _ _ R t).
  step_inv H; rewrite Hpc in Nl; try discriminate Nl; try (rewrite Hrf' in Hrf; discriminate Hrf); own I.
  all: constructor; sp.
  all: try exact (invr_restores _ _ R).
  all: try (intros u; upd_goal u t; [try reflexivity|exact (invr_noload _ _ R u)]).
  all: try solve [destruct (flag s); reflexivity | destruct (all_done n _); reflexivity].
  all: try (intros Hf; first [exact (invr_flag _ _ R Hf) | discriminate]).
  all: try (intros u Hc; upd_at u t Hc; try discriminate Hc; try discriminate; try exact (invr_complete _ _ R u Hc)).
  all: try (intros u Hu Hd; upd_at u t Hd; try discriminate Hd; try reflexivity; try assumption; try exact (invr_done _ _ R u Hu Hd)).
  all: try solve [destruct (flag s); discriminate Hd | destruct (all_done n _); discriminate Hd].
  - destruct (flag s); discriminate Hc.
  - destruct (inv_rerun _ _ _ _ _ I t done0 Hpc) as (_ & Hq & _). exact Hq.
  - intros _. exact (invr_complete _ _ R t Hpc).
Qed.

Lemma invr_run : forall n k miss evs s s', Inv n k miss true s -> InvR k s -> run VCorrect n s evs = Some s' -> InvR k s'.
Proof.
  intros n k miss evs. induction evs as [|e r IH]; intros s s' I R H; cbn [run] in H.
  - injection H as <-. exact R.
  - destruct (step VCorrect n s e) as [s1|] eqn:E; [|discriminate H].
    exact (IH s1 s' (inv_step n k miss true s e s1 I E) (invr_step n k miss s e s1 I R E) H).
Qed.

(* when the result lookups fail nothing is ever restored, nobody enters Registry.LoadOutputs, and once the flag is set --
   in particular once some dependant has run its command -- d's command has run exactly once *)
Lemma result_fault_one_rerun : forall n k miss s, reachable VCorrect n k miss true s ->
  restores s = [] /\ lock s = None /\
  (flag s = true -> length (reruns s) = 1) /\
  (forall t, t < k -> pcs s t = PDone -> length (reruns s) = 1).
Proof.
  intros n k miss s Hr. assert (I := inv_reachable n k miss true s Hr). destruct Hr as [evs Hrun].
  assert (R := invr_run n k miss evs _ s (inv_init n k miss true) (invr_init k miss true) Hrun).
  assert (Hone : flag s = true -> length (reruns s) = 1).
  { intros Hf. assert (Hq := invr_flag _ _ R Hf). assert (Hle := inv_reruns _ _ _ _ _ I).
    destruct (reruns s) as [|a l]; [now contradiction Hq|]. cbn [length] in *. lia. }
  split; [exact (invr_restores _ _ R)|]. split.
  - destruct (lock s) as [h|] eqn:El; [|reflexivity]. exfalso.
    assert (Hh := inv_holder _ _ _ _ _ I h El). assert (Nl := invr_noload _ _ R h).
    destruct (pcs s h); cbn in Hh, Nl; congruence.
  - split; [exact Hone|]. intros t Ht Hd. apply Hone. exact (invr_done _ _ R t Ht Hd).
Qed.

(* ------------------------------------------------------------------ 5: progress *)
Lemma forallb_false_witness : forall (A : Type) (f : A -> bool) l,
  forallb f l = false -> exists x, In x l /\ f x = false.
Proof.
  intros A f l. induction l as [|a l IH]; cbn [forallb]; intros H; [discriminate H|].
  destruct (f a) eqn:Ea.
  - destruct (IH H) as [x [Hx Hf]]. exists x. split; [now right|exact Hf].
  - exists a. split; [now left|exact Ea].
Qed.

Lemma all_done_false : forall n done, all_done n done = false -> exists i, i < n /\ ~ In i done.
Proof.
  intros n done H. apply forallb_false_witness in H. destruct H as [i [Hi Hm]].
  apply in_seq in Hi. apply memb_false in Hm. exists i. split; [lia|exact Hm].
Qed.

Ltac fire st Ep := left; exists st; unfold step; cbn [fst snd outer_locked]; rewrite Ep; eexists; reflexivity.

(* a task that is not done can step, unless it waits for a lock that somebody holds *)
Lemma enabled_or_blocked : forall n k miss rf s t, Inv n k miss rf s -> pcs s t <> PDone ->
  (exists st s', step VCorrect n s (t, st) = Some s') \/
  (pcs s t = POuterLock /\ exists h, olock s = Some h) \/
  ((pcs s t = PLock \/ pcs s t = PComplete) /\ exists h, lock s = Some h).
Proof.
  intros n k miss rf s t I Hnd.
  destruct (pcs s t) as [| | | | | | |done| | | | |done| | | |] eqn:Ep.
  - fire SStart Ep.
  - destruct (olock s) as [h|] eqn:El.
    + right; left. split; [reflexivity|]. now exists h.
    + left. exists SOuterLock. unfold step; cbn [fst snd outer_locked]. rewrite Ep, El. eexists. reflexivity.
  - fire SCheckFlag Ep.
  - fire SLoadResult Ep.
  - destruct (lock s) as [h|] eqn:El.
    + right; right. split; [now left|]. now exists h.
    + left. exists SLock. unfold step; cbn [fst snd]. rewrite Ep, El. eexists. reflexivity.
  - fire SRecheck Ep.
  - fire SValidate Ep.
  - destruct (all_done_false n done (proj1 (inv_restore _ _ _ _ _ I t done Ep))) as [i [Hi Hni]].
    left. exists (SRestore i). unfold step; cbn [fst snd]; rewrite Ep.
    apply Nat.ltb_lt in Hi. apply memb_false in Hni. rewrite Hi, Hni. cbn [andb negb].
    destruct (missing s i); eexists; reflexivity.
  - fire SSetFlag Ep.
  - fire SUnlock Ep.
  - fire SUnlock Ep.
  - fire SRerunStart Ep.
  - destruct (all_done_false n done (proj1 (inv_rerun _ _ _ _ _ I t done Ep))) as [i [Hi Hni]].
    left. exists (SRerunWrite i). unfold step; cbn [fst snd]; rewrite Ep.
    apply Nat.ltb_lt in Hi. apply memb_false in Hni. rewrite Hi, Hni. cbn [andb negb]. eexists; reflexivity.
  - destruct (lock s) as [h|] eqn:El.
    + right; right. split; [now right|]. now exists h.
    + left. exists SComplete. unfold step; cbn [fst snd]. rewrite Ep, El. eexists. reflexivity.
  - fire SOuterUnlock Ep.
  - fire SRunCmd Ep.
  - contradiction.
Qed.

(* the registry's lock is only ever held by the holder of the outer lock: nobody waits for it *)
Lemma inner_lock_free_for_outer_holder : forall n k miss rf s t h, Inv n k miss rf s ->
  in_outer_region (pcs s t) = true -> in_locked_region (pcs s t) = false -> lock s = Some h -> False.
Proof.
  intros n k miss rf s t h I Ho Hl El. assert (Hh := inv_holder _ _ _ _ _ I h El).
  assert (E : h = t) by (apply (excl _ _ _ _ s h t I); [now apply locked_outer|exact Ho]).
  subst h. rewrite Hl in Hh. discriminate Hh.
Qed.

Lemma all_done_or_not : forall s k, (forall t, t < k -> pcs s t = PDone) \/ (exists t, t < k /\ pcs s t <> PDone).
Proof.
  intros s k. induction k as [|k IH].
  - left. intros t Ht. lia.
  - destruct IH as [IH|[t [Ht Hp]]].
    + destruct (is_done (pcs s k)) eqn:Ed.
      * left. intros t Ht. destruct (Nat.eq_dec t k) as [->|Hne]; [|apply IH; lia].
        destruct (pcs s k); try discriminate Ed. reflexivity.
      * right. exists k. split; [lia|]. intros E. rewrite E in Ed. discriminate Ed.
    + right. exists t. split; [lia|exact Hp].
Qed.

(* the holder of the outer lock can always step *)
Lemma outer_holder_enabled : forall n k miss rf s h, Inv n k miss rf s -> olock s = Some h ->
  exists st s', step VCorrect n s (h, st) = Some s'.
Proof.
  intros n k miss rf s h I Ho. assert (Hreg := inv_oholder _ _ _ _ _ I h Ho).
  assert (Hh : pcs s h <> PDone) by (intros E; rewrite E in Hreg; discriminate Hreg).
  destruct (enabled_or_blocked n k miss rf s h I Hh) as [Hen|[[Hp _]|[Hp [h' Hl]]]].
  - exact Hen.
  - rewrite Hp in Hreg. discriminate Hreg.
  - exfalso. apply (inner_lock_free_for_outer_holder n k miss rf s h h' I Hreg); [|exact Hl].
    destruct Hp as [Hp|Hp]; rewrite Hp; reflexivity.
Qed.

Lemma no_deadlock : forall n k miss rf s, reachable VCorrect n k miss rf s ->
  all_tasks_done k s \/ exists e s', step VCorrect n s e = Some s'.
Proof.
  intros n k miss rf s Hr. assert (I := inv_reachable n k miss rf s Hr).
  destruct (all_done_or_not s k) as [Hall|[t [Ht Hp]]]; [now left|]. right.
  destruct (enabled_or_blocked n k miss rf s t I Hp) as [(st & s' & Hs)|[[Hpl [h Hl]]|[Hpl [h Hl]]]].
  - now exists (t, st), s'.
  - destruct (outer_holder_enabled n k miss rf s h I Hl) as (st & s' & Hs). now exists (h, st), s'.
  - exfalso. apply (inner_lock_free_for_outer_holder n k miss rf s t h I); [| |exact Hl];
      destruct Hpl as [Hpl|Hpl]; rewrite Hpl; reflexivity.
Qed.

(* the measure *)
Lemma remaining_nil : forall n, length (remaining n []) = n.
Proof.
  intros n. unfold remaining.
  assert (H : forall l, filter (fun j => negb (memb j [])) l = l).
  { intros l. induction l as [|a l IH]; [reflexivity|]. cbn [filter]. unfold memb at 1. cbn [existsb negb]. now rewrite IH. }
  rewrite H. apply seq_length.
Qed.

Lemma filter_cons_le : forall i done l,
  length (filter (fun j => negb (memb j (i :: done))) l) <= length (filter (fun j => negb (memb j done)) l).
Proof.
  intros i done l. induction l as [|a l IH]; [apply le_n|]. cbn [filter]. unfold memb at 1. cbn [existsb].
  fold (memb a done). destruct (Nat.eqb a i); cbn [orb negb].
  - destruct (negb (memb a done)); cbn [length]; lia.
  - destruct (negb (memb a done)); cbn [length]; lia.
Qed.

Lemma filter_cons_lt : forall i done l, In i l -> ~ In i done ->
  length (filter (fun j => negb (memb j (i :: done))) l) < length (filter (fun j => negb (memb j done)) l).
Proof.
  intros i done l Hin Hnd. induction l as [|a l IH]; [destruct Hin|]. cbn [filter]. unfold memb at 1. cbn [existsb].
  fold (memb a done). assert (Hle := filter_cons_le i done l). destruct Hin as [->|Hin].
  - rewrite Nat.eqb_refl. cbn [orb negb]. apply memb_false in Hnd. rewrite Hnd. cbn [negb length]. lia.
  - specialize (IH Hin). destruct (Nat.eqb a i); cbn [orb negb].
    + destruct (negb (memb a done)); cbn [length]; lia.
    + destruct (negb (memb a done)); cbn [length]; lia.
Qed.

Lemma remaining_cons_lt : forall n i done, i < n -> ~ In i done ->
  length (remaining n (i :: done)) < length (remaining n done).
Proof. intros n i done Hi Hnd. apply filter_cons_lt; [apply in_seq; lia|exact Hnd]. Qed.

Lemma remaining_le : forall n done, length (remaining n done) <= n.
Proof.
  intros n done. unfold remaining. rewrite <- (seq_length n 0) at 2. generalize (seq 0 n). intros l.
  induction l as [|a l IH]; [apply le_n|]. cbn [filter]. destruct (negb (memb a done)); cbn [length]; lia.
Qed.

Lemma sum_upd_lt : forall (g g' : nat -> nat) t l, (forall u, u <> t -> g' u = g u) -> g' t < g t ->
  NoDup l -> (In t l -> list_sum (map g' l) < list_sum (map g l)) /\ (~ In t l -> list_sum (map g' l) = list_sum (map g l)).
Proof.
  intros g g' t l Hsame Hlt. induction l as [|a l IH]; intros Hnd.
  - split; [intros []|reflexivity].
  - inversion Hnd as [|x l' Hni Hnd']. subst. destruct (IH Hnd') as [IH1 IH2].
    change (list_sum (map g' (a :: l))) with (g' a + list_sum (map g' l)).
    change (list_sum (map g (a :: l))) with (g a + list_sum (map g l)). split.
    + intros [->|Hin].
      * rewrite (IH2 Hni). lia.
      * assert (a <> t) by (intros ->; contradiction). rewrite (Hsame a) by assumption. specialize (IH1 Hin). lia.
    + intros Hn. assert (a <> t) by (intros ->; apply Hn; now left). rewrite (Hsame a) by assumption.
      rewrite IH2; [reflexivity|]. intros Hin. apply Hn. now right.
Qed.

Lemma measure_upd_lt : forall n k s s' t p, t < k -> pcs s' = upd (pcs s) t p ->
  pc_measure n p < pc_measure n (pcs s t) -> measure n k s' < measure n k s.
Proof.
  intros n k s s' t p Ht Hp Hlt. unfold measure. rewrite Hp.
  apply (sum_upd_lt (fun u => pc_measure n (pcs s u)) (fun u => pc_measure n (upd (pcs s) t p u)) t (seq 0 k)).
  - intros u Hne. now rewrite upd_other.
  - now rewrite upd_same.
  - apply seq_NoDup.
  - apply in_seq. lia.
Qed.

Lemma step_decreases : forall n k miss rf s e s', Inv n k miss rf s -> step VCorrect n s e = Some s' -> measure n k s' < measure n k s.
Proof.
  intros n k miss rf s [t st] s' I H.
  assert (Ht : t < k).
  { destruct (Nat.lt_ge_cases t k) as [Hlt|Hge]; [exact Hlt|]. exfalso.
    assert (Hd := inv_outside _ _ _ _ _ I t Hge). step_inv H; rewrite Hd in Hpc; discriminate Hpc. }
  step_inv H; (eapply measure_upd_lt; [exact Ht|sp; reflexivity|rewrite Hpc; cbn [pc_measure]]);
    try lia; try (destruct (flag s); cbn [pc_measure]; lia).
  - destruct (all_done n []); cbn [pc_measure]; [lia|]. rewrite remaining_nil. lia.
  - assert (Hl := remaining_cons_lt n i0 done0 Hi0 Hnd0).
    destruct (all_done n (i0 :: done0)); cbn [pc_measure]; lia.
  - destruct (all_done n []); cbn [pc_measure]; [lia|]. rewrite remaining_nil. lia.
  - assert (Hl := remaining_cons_lt n i0 done0 Hi0 Hnd0).
    destruct (all_done n (i0 :: done0)); cbn [pc_measure]; lia.
Qed.

Lemma measure_init : forall n k miss rf, measure n k (init k miss rf) = run_bound n k.
Proof.
  intros n k miss rf. unfold measure, run_bound.
  assert (H : forall l, (forall t, In t l -> t < k) ->
            list_sum (map (fun t => pc_measure n (pcs (init k miss rf) t)) l) = length l * (2 * n + 14)).
  { intros l. induction l as [|a l IH]; intros Hl; [reflexivity|].
    change (list_sum (map (fun t => pc_measure n (pcs (init k miss rf) t)) (a :: l)))
      with (pc_measure n (pcs (init k miss rf) a) + list_sum (map (fun t => pc_measure n (pcs (init k miss rf) t)) l)).
    rewrite IH by (intros t Ht; apply Hl; now right).
    assert (Ha : a < k) by (apply Hl; now left). cbn [init pcs]. apply Nat.ltb_lt in Ha. rewrite Ha.
    cbn [pc_measure length]. lia. }
  rewrite H by (intros t Ht; apply in_seq in Ht; lia). now rewrite seq_length.
Qed.

Lemma run_length : forall n k miss rf evs s s', Inv n k miss rf s -> run VCorrect n s evs = Some s' ->
  length evs + measure n k s' <= measure n k s.
Proof.
  intros n k miss rf evs. induction evs as [|e r IH]; intros s s' I H; cbn [run] in H.
  - injection H as <-. cbn [length]. lia.
  - destruct (step VCorrect n s e) as [s1|] eqn:E; [|discriminate H].
    assert (Hd := step_decreases n k miss rf s e s1 I E). assert (I1 := inv_step n k miss rf s e s1 I E).
    specialize (IH s1 s' I1 H). cbn [length]. lia.
Qed.

Lemma run_bounded : forall n k miss rf evs s, run VCorrect n (init k miss rf) evs = Some s -> length evs <= run_bound n k.
Proof.
  intros n k miss rf evs s H. assert (Hl := run_length n k miss rf evs (init k miss rf) s (inv_init n k miss rf) H).
  rewrite measure_init in Hl. lia.
Qed.

(* from every reachable state some continuation ends with every command run (and it cannot run for ever: run_bounded) *)
Lemma can_finish : forall n k miss rf s, reachable VCorrect n k miss rf s ->
  exists evs s', run VCorrect n s evs = Some s' /\ all_tasks_done k s'.
Proof.
  intros n k miss rf s Hr. remember (measure n k s) as m eqn:Em.
  assert (Hm : measure n k s <= m) by lia. clear Em. revert s Hr Hm.
  induction m as [|m IH]; intros s Hr Hm.
  - destruct (no_deadlock n k miss rf s Hr) as [Hd|(e & s1 & Hs)].
    + exists [], s. now split.
    + assert (Hd := step_decreases n k miss rf s e s1 (inv_reachable n k miss rf s Hr) Hs). lia.
  - destruct (no_deadlock n k miss rf s Hr) as [Hd|(e & s1 & Hs)].
    + exists [], s. now split.
    + assert (Hd := step_decreases n k miss rf s e s1 (inv_reachable n k miss rf s Hr) Hs).
      destruct (IH s1 (reachable_step _ n k miss rf s e s1 Hr Hs)) as (evs & s' & Hrun & Hall); [lia|].
      exists (e :: evs), s'. cbn [run]. rewrite Hs. now split.
Qed.

(* ------------------------------------------------------------------ 6: the orders that are wrong, in the model too *)
(* up to the restore of the single output *)
Definition into_restore (t : nat) : list event :=
  [(t, SStart); (t, SOuterLock); (t, SCheckFlag); (t, SLoadResult); (t, SLock); (t, SRecheck); (t, SValidate)].
(* dependant 0 is inside the restore of the single output when dependant 1 arrives *)
Definition sched_flag_early : list event :=
  into_restore 0 ++ [(0, SSetFlag); (1, SStart); (1, SOuterLock); (1, SCheckFlag); (1, SOuterUnlock); (1, SRunCmd)].
Definition sched_requested_once : list event :=
  into_restore 0 ++ [(1, SStart); (1, SRunCmd)].

Lemma flag_early_refuted : exists evs, run_saw_stale VFlagEarly 1 2 evs = true.
Proof. exists sched_flag_early. vm_compute. reflexivity. Qed.

Lemma requested_once_refuted : exists evs, run_saw_stale VRequestedOnce 1 2 evs = true.
Proof. exists sched_requested_once. vm_compute. reflexivity. Qed.

(* the same interleavings are not even schedules of the real order *)
Lemma seeded_schedules_harmless_for_real_order :
  run_saw_stale VCorrect 1 2 sched_flag_early = false /\ run_saw_stale VCorrect 1 2 sched_requested_once = false.
Proof. split; vm_compute; reflexivity. Qed.

(* C15-F1, the code before the outer lock: the single blob is lost, both dependants find d unrestorable *)
Definition all_blobs_missing : nat -> bool := fun _ => true.
Definition to_rerun (t : nat) : list event := into_restore t ++ [(t, SRestore 0); (t, SUnlock)].
(* 0 has re-made d and starts its command while 1 has just started d's command again: 0 reads a torn file *)
Definition sched_torn_read : list event :=
  to_rerun 0 ++ [(0, SRerunStart)] ++ to_rerun 1 ++
  [(0, SRerunWrite 0); (0, SComplete); (0, SOuterUnlock); (1, SRerunStart); (0, SRunCmd)].
(* 1 starts d's command between 0's write and 0's WriteOutputs: the torn bytes go into the cache *)
Definition sched_torn_cached : list event :=
  to_rerun 0 ++ [(0, SRerunStart)] ++ to_rerun 1 ++ [(0, SRerunWrite 0); (1, SRerunStart); (0, SComplete)].

Lemma no_outer_lock_refuted :
  run_fault_summary VNoOuterLock 1 2 all_blobs_missing false sched_torn_read = Some (true, false, 2) /\
  run_fault_summary VNoOuterLock 1 2 all_blobs_missing false sched_torn_cached = Some (false, true, 2).
Proof. split; vm_compute; reflexivity. Qed.

(* with the outer lock these are not schedules: 1 cannot pass OuterLock while 0 works on d *)
Lemma no_outer_lock_schedules_blocked :
  run_fault_summary VCorrect 1 2 all_blobs_missing false sched_torn_read = None /\
  run_fault_summary VCorrect 1 2 all_blobs_missing false sched_torn_cached = None /\
  run VCorrect 1 (init 2 all_blobs_missing false) (to_rerun 0 ++ [(0, SRerunStart); (1, SStart); (1, SOuterLock)]) = None.
Proof. repeat split; vm_compute; reflexivity. Qed.

(* seed C15j, the flag check and the result lookup made before the outer lock, no re-check under it; the result lookups
   fail (no blob is lost): both dependants decide "re-run" before either holds the lock *)
Definition lookup_early (t : nat) : list event := [(t, SStart); (t, SCheckFlag); (t, SLoadResult)].
Definition remake (t : nat) : list event := [(t, SOuterLock); (t, SRerunStart); (t, SRerunWrite 0); (t, SComplete); (t, SOuterUnlock)].
(* 0 has re-made d and released the lock; 1 takes it and starts d's command AGAIN; 0's command reads a torn file *)
Definition sched_lookup_torn : list event :=
  lookup_early 0 ++ lookup_early 1 ++ remake 0 ++ [(1, SOuterLock); (1, SRerunStart); (0, SRunCmd)].
(* the same, but 0's command runs before 1 starts d's command: nobody sees a torn file, d's command still runs twice *)
Definition sched_lookup_twice : list event :=
  lookup_early 0 ++ lookup_early 1 ++ remake 0 ++ [(0, SRunCmd)] ++ remake 1 ++ [(1, SRunCmd)].

Lemma lookup_before_lock_refuted :
  run_fault_summary VLookupBeforeLock 1 2 no_blob_missing true sched_lookup_torn = Some (true, false, 2) /\
  run_fault_summary VLookupBeforeLock 1 2 no_blob_missing true sched_lookup_twice = Some (false, false, 2).
Proof. split; vm_compute; reflexivity. Qed.

(* in the real order these are not schedules (the flag is read under the lock) ... *)
Lemma lookup_before_lock_schedules_blocked :
  run_fault_summary VCorrect 1 2 no_blob_missing true sched_lookup_torn = None /\
  run_fault_summary VCorrect 1 2 no_blob_missing true sched_lookup_twice = None.
Proof. split; vm_compute; reflexivity. Qed.

(* ... and the seeded order is harmless for the OTHER fault (the blob lost, the result readable): the second dependant goes
   through Registry.LoadOutputs, which does read the flag again under its own lock -- why a harness whose only fault
   is a lost blob cannot see this seed *)
Definition sched_lookup_blob_fault : list event :=
  lookup_early 0 ++ lookup_early 1 ++
  [(0, SOuterLock); (0, SLock); (0, SRecheck); (0, SValidate); (0, SRestore 0); (0, SUnlock); (0, SRerunStart);
   (0, SRerunWrite 0); (0, SComplete); (0, SOuterUnlock); (1, SOuterLock); (1, SLock); (1, SRecheck); (1, SUnlock);
   (1, SOuterUnlock); (0, SRunCmd); (1, SRunCmd)].
Lemma lookup_before_lock_blob_fault_harmless :
  run_fault_summary VLookupBeforeLock 1 2 all_blobs_missing false sched_lookup_blob_fault = Some (false, false, 1).
Proof. vm_compute. reflexivity. Qed.

(* ------------------------------------------------------------------ 7: non-vacuity *)
Definition complete_and_current (n k : nat) (miss : nat -> bool) (rf : bool) (evs : list event) (n_restores n_reruns : nat) : bool :=
  match run VCorrect n (init k miss rf) evs with
  | Some s => forallb (fun t => is_done (pcs s t)) (seq 0 k) && Nat.eqb (length (obs s)) k
              && forallb (fun to => saw_all_current n (snd to)) (obs s) && Nat.eqb (length (restores s)) n_restores
              && Nat.eqb (length (reruns s)) n_reruns && forallb (fun to => saw_all_current n (snd to)) (wrote s)
              && Nat.eqb (length (wrote s)) n_reruns
  | None => false
  end.

(* 2 dependants, 2 outputs, no fault: 1 arrives while 0 restores, waits for the outer lock, sees the flag *)
Definition sched_two_two : list event :=
  into_restore 0 ++ [(0, SRestore 1); (1, SStart); (0, SRestore 0); (0, SSetFlag); (0, SUnlock); (0, SOuterUnlock);
   (1, SOuterLock); (0, SRunCmd); (1, SCheckFlag); (1, SOuterUnlock); (1, SRunCmd)].

Lemma depload_nonvacuous : complete_and_current 2 2 no_blob_missing false sched_two_two 2 0 = true.
Proof. vm_compute. reflexivity. Qed.

(* 2 dependants, 2 outputs, the blob of output 1 is lost: 0 restores output 0, fails on output 1, re-runs d (1 waits at the
   outer lock all the time), both commands see current outputs; exactly one re-run, whose bytes are cached current *)
Definition only_blob_1_missing : nat -> bool := fun i => Nat.eqb i 1.
Definition sched_fault : list event :=
  into_restore 0 ++ [(0, SRestore 0); (1, SStart); (0, SRestore 1); (0, SUnlock); (0, SRerunStart); (0, SRerunWrite 1);
   (0, SRerunWrite 0); (0, SComplete); (0, SOuterUnlock); (1, SOuterLock); (1, SCheckFlag); (0, SRunCmd);
   (1, SOuterUnlock); (1, SRunCmd)].

Lemma depload_fault_nonvacuous : complete_and_current 2 2 only_blob_1_missing false sched_fault 1 1 = true.
Proof. vm_compute. reflexivity. Qed.

(* 2 dependants, 2 outputs, no blob lost, the result lookups fail: 0 finds the flag false under the lock, cannot read the
   result, re-runs d at once (nothing is restored, Registry.LoadOutputs is never entered); 1 waits at the outer lock, then
   finds the flag set; exactly one re-run, both commands see current outputs *)
Definition sched_result_fault : list event :=
  [(0, SStart); (0, SOuterLock); (0, SCheckFlag); (0, SLoadResult); (1, SStart); (0, SRerunStart); (0, SRerunWrite 1);
   (0, SRerunWrite 0); (0, SComplete); (0, SOuterUnlock); (1, SOuterLock); (1, SCheckFlag); (0, SRunCmd);
   (1, SOuterUnlock); (1, SRunCmd)].

Lemma depload_result_fault_nonvacuous : complete_and_current 2 2 no_blob_missing true sched_result_fault 0 1 = true.
Proof. vm_compute. reflexivity. Qed.

(* while 0 holds the outer lock, 1 cannot take it *)
Lemma lock_blocks_nonvacuous :
  run VCorrect 2 (init 2 no_blob_missing false) [(0, SStart); (0, SOuterLock); (1, SStart); (1, SOuterLock)] = None.
Proof. vm_compute. reflexivity. Qed.

(* ------------------------------------------------------------------ the tie evaluates runs of the model *)
Lemma first_auto_step : forall v n ts s s', first_auto v n s ts = Some s' -> exists e, step v n s e = Some s'.
Proof.
  intros v n ts. induction ts as [|t r IH]; intros s s' H; cbn [first_auto] in H; [discriminate H|].
  destruct (auto_step n s (pcs s t)) as [st|]; [|now apply IH].
  destruct (step v n s (t, st)) as [s1|] eqn:E; [|now apply IH]. injection H as <-. now exists (t, st).
Qed.

Lemma settle_reachable : forall v n k miss rf ts fuel s, reachable v n k miss rf s -> reachable v n k miss rf (settle fuel v n ts s).
Proof.
  intros v n k miss rf ts fuel. induction fuel as [|f IH]; intros s Hr; cbn [settle]; [exact Hr|].
  destruct (first_auto v n s ts) as [s1|] eqn:E; [|exact Hr].
  apply IH. destruct (first_auto_step v n ts s s1 E) as [e He]. exact (reachable_step v n k miss rf s e s1 Hr He).
Qed.

Lemma do_token_reachable : forall v asc n k miss rf s tok, reachable v n k miss rf s ->
  reachable v n k miss rf (snd (do_token v asc n k s tok)).
Proof.
  intros v asc n k miss rf s tok Hr. unfold do_token.
  destruct (token_event n s (task_order asc k) tok) as [e|]; [|exact Hr].
  destruct (step v n s e) as [s1|] eqn:E; [|exact Hr]. cbn [snd].
  apply settle_reachable. exact (reachable_step v n k miss rf s e s1 Hr E).
Qed.

Lemma replay_from_reachable : forall v asc n k miss rf toks s, reachable v n k miss rf s ->
  reachable v n k miss rf (snd (replay_from v asc n k s toks)).
Proof.
  intros v asc n k miss rf toks. induction toks as [|tok r IH]; intros s Hr; cbn [replay_from snd]; [exact Hr|].
  apply IH. now apply do_token_reachable.
Qed.

Lemma replay_state_reachable : forall v asc n k miss rf toks,
  reachable v n k miss rf (snd (replay_from v asc n k (init k miss rf) toks)).
Proof. intros v asc n k miss rf toks. apply replay_from_reachable. now exists []. Qed.

(* the fuel of [settle] is enough: afterwards no step that needs no token is enabled *)
Lemma settle_quiescent : forall n k miss rf ts fuel s, Inv n k miss rf s -> measure n k s <= fuel ->
  first_auto VCorrect n (settle fuel VCorrect n ts s) ts = None.
Proof.
  intros n k miss rf ts fuel. induction fuel as [|f IH]; intros s I Hm; cbn [settle].
  - destruct (first_auto VCorrect n s ts) as [s1|] eqn:E; [|reflexivity].
    destruct (first_auto_step _ n ts s s1 E) as [e He]. assert (Hd := step_decreases n k miss rf s e s1 I He). lia.
  - destruct (first_auto VCorrect n s ts) as [s1|] eqn:E; [|exact E].
    destruct (first_auto_step _ n ts s s1 E) as [e He]. assert (Hd := step_decreases n k miss rf s e s1 I He).
    apply IH; [exact (inv_step n k miss rf s e s1 I He)|lia].
Qed.

Lemma measure_le_init : forall n k miss rf s, reachable VCorrect n k miss rf s -> measure n k s <= run_bound n k.
Proof.
  intros n k miss rf s [evs H]. assert (Hl := run_length n k miss rf evs (init k miss rf) s (inv_init n k miss rf) H).
  rewrite measure_init in Hl. lia.
Qed.

Lemma do_token_quiescent : forall asc n k miss rf s tok, reachable VCorrect n k miss rf s ->
  fst (do_token VCorrect asc n k s tok) = true ->
  first_auto VCorrect n (snd (do_token VCorrect asc n k s tok)) (task_order asc k) = None.
Proof.
  intros asc n k miss rf s tok Hr. unfold do_token.
  destruct (token_event n s (task_order asc k) tok) as [e|]; [|discriminate].
  destruct (step VCorrect n s e) as [s1|] eqn:E; [|discriminate]. cbn [fst snd]. intros _.
  assert (Hr1 := reachable_step _ n k miss rf s e s1 Hr E).
  apply (settle_quiescent n k miss rf); [exact (inv_reachable n k miss rf s1 Hr1)|exact (measure_le_init n k miss rf s1 Hr1)].
Qed.
