(* DepLoad_proofs.v -- lemmas about DepLoad.v (property C15, concurrent loading of a dependency's outputs).
   The theorems restated in properties/C15_depload.v are at the end. *)
From Coq Require Import Arith Bool List Lia.
Import ListNotations.
From Grog Require Import DepLoad.

(* ------------------------------------------------------------------ small facts *)
Lemma upd_same : forall (A : Type) (f : nat -> A) t x, upd f t x t = x.
Proof. intros A f t x. unfold upd. now rewrite Nat.eqb_refl. Qed.

Lemma upd_other : forall (A : Type) (f : nat -> A) t x u, u <> t -> upd f t x u = f u.
Proof. intros A f t x u Hne. unfold upd. destruct (Nat.eqb_spec u t) as [E|E]; [contradiction|reflexivity]. Qed.

Lemma memb_In : forall i l, memb i l = true <-> In i l.
Proof.
  intros i l. unfold memb. rewrite existsb_exists. split.
  - intros [x [Hx E]]. apply Nat.eqb_eq in E. now subst.
  - intros H. exists i. split; [assumption|apply Nat.eqb_refl].
Qed.

Lemma memb_false : forall i l, memb i l = false <-> ~ In i l.
Proof.
  intros i l. rewrite <- memb_In. destruct (memb i l); split; intros H.
  - discriminate H.
  - exfalso. now apply H.
  - intros H'. discriminate H'.
  - reflexivity.
Qed.

Lemma all_done_spec : forall n done, all_done n done = true <-> (forall j, j < n -> In j done).
Proof.
  intros n done. unfold all_done. rewrite forallb_forall. split.
  - intros H j Hj. apply memb_In. apply H. apply in_seq. lia.
  - intros H j Hj. apply in_seq in Hj. apply memb_In. apply H. lia.
Qed.

Lemma all_done_nil : forall n, all_done n [] = true <-> n = 0.
Proof.
  intros n. rewrite all_done_spec. split.
  - intros H. destruct n as [|n]; [reflexivity|]. exfalso. apply (H 0). lia.
  - intros -> j Hj. lia.
Qed.

(* ------------------------------------------------------------------ the steps of the real protocol, once *)
Lemma step_cases : forall n s t k s',
  step VCorrect n s (t, k) = Some s' ->
  (k = SCheckFlag /\ pcs s t = PCheckFlag /\ s' = set_pc s t (if flag s then PRunCmd else PLoadResult)) \/
  (k = SLoadResult /\ pcs s t = PLoadResult /\ s' = set_pc s t PLock) \/
  (k = SLock /\ pcs s t = PLock /\ lock s = None /\
     s' = mkState (flag s) (Some t) (files s) (upd (pcs s) t PRecheck) (requested s) (restores s) (obs s)) \/
  (k = SRecheck /\ pcs s t = PRecheck /\ s' = set_pc s t (if flag s then PUnlock else PValidate)) \/
  (k = SValidate /\ pcs s t = PValidate /\ s' = set_pc s t (if all_done n [] then PSetFlag else PRestore [])) \/
  (exists i done, k = SRestore i /\ pcs s t = PRestore done /\ i < n /\ ~ In i done /\
     s' = mkState (flag s) (lock s) (upd (files s) i Current)
                  (upd (pcs s) t (if all_done n (i :: done) then PSetFlag else PRestore (i :: done)))
                  (requested s) ((t, i) :: restores s) (obs s)) \/
  (k = SSetFlag /\ pcs s t = PSetFlag /\
     s' = mkState true (lock s) (files s) (upd (pcs s) t PUnlock) (requested s) (restores s) (obs s)) \/
  (k = SUnlock /\ pcs s t = PUnlock /\
     s' = mkState (flag s) None (files s) (upd (pcs s) t PRunCmd) (requested s) (restores s) (obs s)) \/
  (k = SRunCmd /\ pcs s t = PRunCmd /\
     s' = mkState (flag s) (lock s) (files s) (upd (pcs s) t PDone) (requested s) (restores s)
                  ((t, observe n s) :: obs s)).
Proof.
  intros n s t k s' H. unfold step in H. cbn [fst snd] in H.
  destruct k as [| | | | |i| | |]; destruct (pcs s t) as [| | | | |done| | | |] eqn:Ep; try discriminate H.
  - injection H as <-. left. auto.
  - injection H as <-. right; left. auto.
  - destruct (lock s) eqn:El; [discriminate H|]. injection H as <-. do 2 right; left. auto.
  - injection H as <-. do 3 right; left. auto.
  - injection H as <-. do 4 right; left. auto.
  - destruct (Nat.ltb i n && negb (memb i done)) eqn:Eg; [|discriminate H]. injection H as <-.
    apply andb_true_iff in Eg. destruct Eg as [Hlt Hm]. apply Nat.ltb_lt in Hlt.
    apply negb_true_iff in Hm. apply memb_false in Hm.
    do 5 right; left. exists i, done. auto.
  - injection H as <-. do 6 right; left. auto.
  - injection H as <-. do 7 right; left. auto.
  - injection H as <-. do 8 right. auto.
Qed.

Ltac step_inv H :=
  apply step_cases in H;
  destruct H as [(-> & Hpc & ->)|[(-> & Hpc & ->)|[(-> & Hpc & Hlk & ->)|[(-> & Hpc & ->)|[(-> & Hpc & ->)|
                [(i0 & done0 & -> & Hpc & Hi0 & Hnd0 & ->)|[(-> & Hpc & ->)|[(-> & Hpc & ->)|(-> & Hpc & ->)]]]]]]]].

(* look through an update of a function at the point u *)
Ltac upd_at u t H :=
  let Hne := fresh "Hne" in
  destruct (Nat.eq_dec u t) as [->|Hne];
  [rewrite upd_same in H | rewrite (upd_other _ _ _ _ _ Hne) in H].
Ltac upd_goal u t :=
  let Hne := fresh "Hne" in
  destruct (Nat.eq_dec u t) as [->|Hne];
  [rewrite upd_same | rewrite (upd_other _ _ _ _ _ Hne)].

(* ------------------------------------------------------------------ the invariant of the real protocol *)
(* between the re-check of the flag under the lock and SetFlag *)
Definition before_setflag (p : pc) : bool :=
  match p with PValidate | PRestore _ | PSetFlag => true | _ => false end.

Lemma before_setflag_locked : forall p, before_setflag p = true -> in_locked_region p = true.
Proof. intros p. destruct p; cbn; intros H; try discriminate H; reflexivity. Qed.

Record Inv (n k : nat) (s : state) : Prop := mkInv {
  inv_flag : flag s = true -> forall i, i < n -> files s i = Current;
  inv_region : forall t, in_locked_region (pcs s t) = true -> lock s = Some t;
  inv_holder : forall t, lock s = Some t -> in_locked_region (pcs s t) = true;
  inv_noflag : forall t, before_setflag (pcs s t) = true -> flag s = false;
  inv_restore : forall t done, pcs s t = PRestore done ->
      all_done n done = false /\ forall i, In i done -> files s i = Current;
  inv_setflag : forall t, pcs s t = PSetFlag -> forall i, i < n -> files s i = Current;
  inv_after : forall t, pcs s t = PUnlock \/ pcs s t = PRunCmd -> flag s = true;
  inv_obs : forall t o, In (t, o) (obs s) -> saw_all_current n o = true;
  inv_outside : forall t, k <= t -> pcs s t = PDone;
  inv_done : forall t, t < k -> pcs s t = PDone -> exists o, In (t, o) (obs s);
  inv_log : forall t i, In (t, i) (restores s) -> i < n /\
      (flag s = true \/
       exists u, lock s = Some u /\ (pcs s u = PSetFlag \/ exists done, pcs s u = PRestore done /\ In i done));
  inv_files : forall i, files s i = Current <-> exists t, In (t, i) (restores s);
  inv_once : NoDup (map snd (restores s))
}.

Lemma inv_init : forall n k, Inv n k (init k).
Proof.
  intros n k. constructor; cbn [init flag lock files pcs obs restores map].
  - discriminate.
  - intros t. destruct (Nat.ltb t k); discriminate.
  - discriminate.
  - intros t. destruct (Nat.ltb t k); discriminate.
  - intros t done. destruct (Nat.ltb t k); discriminate.
  - intros t. destruct (Nat.ltb t k); discriminate.
  - intros t. destruct (Nat.ltb t k); intros [H|H]; discriminate H.
  - intros t o [].
  - intros t Ht. destruct (Nat.ltb_spec t k) as [H|H]; [lia|reflexivity].
  - intros t Ht. destruct (Nat.ltb_spec t k) as [H|H]; [discriminate|lia].
  - intros t i [].
  - intros i. split; [discriminate|intros [t []]].
  - constructor.
Qed.

Lemma pres_flag : forall n k s e s', Inv n k s -> step VCorrect n s e = Some s' ->
  flag s' = true -> forall i, i < n -> files s' i = Current.
Proof.
  intros n k s [t st] s' I H. step_inv H; cbn [flag files set_pc]; intros Hf j Hj;
    try (now apply (inv_flag _ _ _ I)).
  - unfold upd. destruct (Nat.eqb j i0); [reflexivity|]. now apply (inv_flag _ _ _ I).
  - now apply (inv_setflag _ _ _ I t).
Qed.

Lemma pres_region : forall n k s e s', Inv n k s -> step VCorrect n s e = Some s' ->
  forall u, in_locked_region (pcs s' u) = true -> lock s' = Some u.
Proof.
  intros n k s [t st] s' I H.
  assert (Ht : in_locked_region (pcs s t) = true -> lock s = Some t) by apply (inv_region _ _ _ I).
  assert (Hu' : forall u, in_locked_region (pcs s u) = true -> lock s = Some u) by apply (inv_region _ _ _ I).
  step_inv H; cbn [lock pcs set_pc]; intros u Hu; rewrite Hpc in Ht; cbn [in_locked_region] in Ht;
    upd_at u t Hu; try (now apply Hu'); try (now apply Ht).
  - destruct (flag s); discriminate Hu.
  - reflexivity.
  - apply Hu' in Hu. rewrite Hlk in Hu. discriminate Hu.
  - discriminate Hu.
  - apply Hu' in Hu. rewrite (Ht eq_refl) in Hu. injection Hu as <-. contradiction.
Qed.

Lemma pres_holder : forall n k s e s', Inv n k s -> step VCorrect n s e = Some s' ->
  forall u, lock s' = Some u -> in_locked_region (pcs s' u) = true.
Proof.
  intros n k s [t st] s' I H.
  assert (Hu' : forall u, lock s = Some u -> in_locked_region (pcs s u) = true) by apply (inv_holder _ _ _ I).
  step_inv H; cbn [lock pcs set_pc]; intros u Hu;
    try (apply Hu' in Hu; upd_goal u t; [rewrite Hpc in Hu; cbn [in_locked_region] in Hu; try discriminate Hu|exact Hu]).
  - injection Hu as <-. now rewrite upd_same.
  - now destruct (flag s).
  - now destruct (all_done n []).
  - now destruct (all_done n (i0 :: done0)).
  - reflexivity.
  - discriminate Hu.
Qed.

Lemma pres_noflag : forall n k s e s', Inv n k s -> step VCorrect n s e = Some s' ->
  forall u, before_setflag (pcs s' u) = true -> flag s' = false.
Proof.
  intros n k s [t st] s' I H.
  assert (Hu' : forall u, before_setflag (pcs s u) = true -> flag s = false) by apply (inv_noflag _ _ _ I).
  assert (Hr : forall u, in_locked_region (pcs s u) = true -> lock s = Some u) by apply (inv_region _ _ _ I).
  assert (Ht := Hu' t). rewrite Hpc in Ht || idtac.
  step_inv H; cbn [flag pcs set_pc]; intros u Hu; rewrite Hpc in Ht; cbn [before_setflag] in Ht;
    upd_at u t Hu; try (now apply (Hu' u)); try (now apply Ht).
  all: try solve [discriminate Hu | destruct (flag s); (discriminate Hu || reflexivity) | apply Ht; reflexivity].
  apply before_setflag_locked in Hu. apply Hr in Hu.
  assert (Hl : lock s = Some t) by (apply Hr; now rewrite Hpc). rewrite Hl in Hu. injection Hu as <-. contradiction.
Qed.

Lemma upd_files_current : forall (f : nat -> fstate) i j, f j = Current -> upd f i Current j = Current.
Proof. intros f i j H. unfold upd. now destruct (Nat.eqb j i). Qed.

Lemma pres_restore : forall n k s e s', Inv n k s -> step VCorrect n s e = Some s' ->
  forall u done, pcs s' u = PRestore done ->
  all_done n done = false /\ forall i, In i done -> files s' i = Current.
Proof.
  intros n k s [t st] s' I H.
  assert (Hu' : forall u done, pcs s u = PRestore done ->
            all_done n done = false /\ forall i, In i done -> files s i = Current) by apply (inv_restore _ _ _ I).
  step_inv H; cbn [files pcs set_pc]; intros u done Hu; upd_at u t Hu; try (now apply (Hu' u)).
  all: try solve [discriminate Hu | destruct (flag s); discriminate Hu].
  - destruct (all_done n []) eqn:Ea; [discriminate Hu|]. injection Hu as <-. split; [exact Ea|]. intros i [].
  - destruct (all_done n (i0 :: done0)) eqn:Ea; [discriminate Hu|]. injection Hu as <-. split; [exact Ea|].
    intros j [<-|Hj]; [apply upd_same|]. apply upd_files_current. now apply (Hu' t done0).
  - destruct (Hu' u done Hu) as [Ha Hf]. split; [exact Ha|]. intros j Hj. apply upd_files_current. now apply Hf.
Qed.

Lemma pres_setflag : forall n k s e s', Inv n k s -> step VCorrect n s e = Some s' ->
  forall u, pcs s' u = PSetFlag -> forall i, i < n -> files s' i = Current.
Proof.
  intros n k s [t st] s' I H.
  assert (Hu' : forall u, pcs s u = PSetFlag -> forall i, i < n -> files s i = Current) by apply (inv_setflag _ _ _ I).
  assert (Hr := inv_restore _ _ _ I).
  step_inv H; cbn [files pcs set_pc]; intros u Hu; upd_at u t Hu; try (now apply (Hu' u)).
  all: try solve [discriminate Hu | destruct (flag s); discriminate Hu].
  - destruct (all_done n []) eqn:Ea; [|discriminate Hu]. apply all_done_nil in Ea. intros i Hi. lia.
  - destruct (all_done n (i0 :: done0)) eqn:Ea; [|discriminate Hu]. intros j Hj.
    destruct (proj1 (all_done_spec _ _) Ea j Hj) as [<-|Hin]; [apply upd_same|].
    apply upd_files_current. now apply (proj2 (Hr t done0 Hpc)).
  - intros j Hj. apply upd_files_current. now apply (Hu' u).
Qed.

Lemma pres_after : forall n k s e s', Inv n k s -> step VCorrect n s e = Some s' ->
  forall u, pcs s' u = PUnlock \/ pcs s' u = PRunCmd -> flag s' = true.
Proof.
  intros n k s [t st] s' I H.
  assert (Hu' : forall u, pcs s u = PUnlock \/ pcs s u = PRunCmd -> flag s = true) by apply (inv_after _ _ _ I).
  step_inv H; cbn [flag pcs set_pc]; intros u Hu; try reflexivity; upd_at u t Hu; try (now apply (Hu' u)).
  all: try solve [destruct Hu as [Hu|Hu]; discriminate Hu
                 |destruct (flag s); [reflexivity|destruct Hu as [Hu|Hu]; discriminate Hu]].
  - destruct (all_done n []); destruct Hu as [Hu|Hu]; discriminate Hu.
  - destruct (all_done n (i0 :: done0)); destruct Hu as [Hu|Hu]; discriminate Hu.
  - apply (Hu' t). now left.
Qed.

Lemma observe_current : forall n s, (forall i, i < n -> files s i = Current) -> saw_all_current n (observe n s) = true.
Proof.
  intros n s H. unfold saw_all_current, observe. rewrite map_length, seq_length, Nat.eqb_refl. cbn [andb].
  apply forallb_forall. intros f Hf. apply in_map_iff in Hf. destruct Hf as [i [<- Hi]]. apply in_seq in Hi.
  rewrite H by lia. reflexivity.
Qed.

Lemma pres_obs : forall n k s e s', Inv n k s -> step VCorrect n s e = Some s' ->
  forall u o, In (u, o) (obs s') -> saw_all_current n o = true.
Proof.
  intros n k s [t st] s' I H.
  assert (Hu' : forall u o, In (u, o) (obs s) -> saw_all_current n o = true) by apply (inv_obs _ _ _ I).
  step_inv H; cbn [obs set_pc]; intros u o Hu; try (now apply (Hu' u)).
  destruct Hu as [Hu|Hu]; [|now apply (Hu' u)]. injection Hu as <- <-.
  apply observe_current. apply (inv_flag _ _ _ I). apply (inv_after _ _ _ I t). now right.
Qed.

Lemma pres_outside : forall n k s e s', Inv n k s -> step VCorrect n s e = Some s' ->
  forall u, k <= u -> pcs s' u = PDone.
Proof.
  intros n k s [t st] s' I H.
  assert (Hu' : forall u, k <= u -> pcs s u = PDone) by apply (inv_outside _ _ _ I).
  step_inv H; cbn [pcs set_pc]; intros u Hu; (upd_goal u t; [|now apply Hu']);
    apply Hu' in Hu; rewrite Hpc in Hu; try discriminate Hu; reflexivity.
Qed.

Lemma pres_done : forall n k s e s', Inv n k s -> step VCorrect n s e = Some s' ->
  forall u, u < k -> pcs s' u = PDone -> exists o, In (u, o) (obs s').
Proof.
  intros n k s [t st] s' I H.
  assert (Hu' : forall u, u < k -> pcs s u = PDone -> exists o, In (u, o) (obs s)) by apply (inv_done _ _ _ I).
  step_inv H; cbn [obs pcs set_pc]; intros u Hk Hu; upd_at u t Hu; try (now apply (Hu' u)).
  all: try solve [discriminate Hu | destruct (flag s); discriminate Hu].
  - destruct (all_done n []); discriminate Hu.
  - destruct (all_done n (i0 :: done0)); discriminate Hu.
  - exists (observe n s). now left.
  - destruct (Hu' u Hk Hu) as [o Ho]. exists o. now right.
Qed.

Lemma pres_files : forall n k s e s', Inv n k s -> step VCorrect n s e = Some s' ->
  forall i, files s' i = Current <-> exists u, In (u, i) (restores s').
Proof.
  intros n k s [t st] s' I H.
  assert (Hu' : forall i, files s i = Current <-> exists u, In (u, i) (restores s)) by apply (inv_files _ _ _ I).
  step_inv H; cbn [files restores set_pc]; intros i; try (now apply Hu').
  split.
  - intros Hf. destruct (Nat.eq_dec i i0) as [->|Hne]; [exists t; now left|].
    rewrite upd_other in Hf by assumption. apply Hu' in Hf. destruct Hf as [u Hin]. exists u. now right.
  - intros [u [Hin|Hin]]; [injection Hin as _ <-; apply upd_same|].
    apply upd_files_current. apply Hu'. now exists u.
Qed.

(* who accounts for a logged restore of output i: the flag, or the task that is still inside LoadOutputs *)
Definition log_ok (n : nat) (s : state) (i : nat) : Prop :=
  i < n /\ (flag s = true \/
            exists h, lock s = Some h /\ (pcs s h = PSetFlag \/ exists done, pcs s h = PRestore done /\ In i done)).

Lemma pres_log : forall n k s e s', Inv n k s -> step VCorrect n s e = Some s' ->
  forall u i, In (u, i) (restores s') -> log_ok n s' i.
Proof.
  intros n k s [t st] s' I H.
  assert (Hu' : forall u i, In (u, i) (restores s) -> log_ok n s i) by apply (inv_log _ _ _ I).
  assert (Hr : forall u, in_locked_region (pcs s u) = true -> lock s = Some u) by apply (inv_region _ _ _ I).
  assert (Hlt : in_locked_region (pcs s t) = true -> lock s = Some t) by apply Hr.
  step_inv H; cbn [restores set_pc]; intros u i Hu; rewrite Hpc in Hlt; cbn [in_locked_region] in Hlt.
  6: { (* Restore *)
    specialize (Hlt eq_refl).
    assert (Hnew : forall j, In j (i0 :: done0) -> j < n -> log_ok n
       (mkState (flag s) (lock s) (upd (files s) i0 Current)
          (upd (pcs s) t (if all_done n (i0 :: done0) then PSetFlag else PRestore (i0 :: done0)))
          (requested s) ((t, i0) :: restores s) (obs s)) j).
    { intros j Hj Hjn. split; [exact Hjn|]. right. exists t. cbn [lock pcs]. split; [exact Hlt|]. rewrite upd_same.
      destruct (all_done n (i0 :: done0)); [now left|]. right. exists (i0 :: done0). now split. }
    destruct Hu as [Hu|Hu]; [injection Hu as _ <-; apply Hnew; [now left|exact Hi0]|].
    destruct (Hu' u i Hu) as [Hi [Hf|(h & Hl & Hp)]].
    - rewrite (inv_noflag _ _ _ I t) in Hf by (now rewrite Hpc). discriminate Hf.
    - rewrite Hlt in Hl. injection Hl as <-. rewrite Hpc in Hp.
      destruct Hp as [Hp|(d & Hp & Hin)]; [discriminate Hp|]. injection Hp as <-. apply Hnew; [now right|exact Hi]. }
  all: destruct (Hu' u i Hu) as [Hi [Hf|(h & Hl & Hp)]]; (split; [exact Hi|]); cbn [flag lock pcs set_pc];
    try (left; first [exact Hf|reflexivity]).
  all: destruct (Nat.eq_dec h t) as [->|Hne];
    [rewrite Hpc in Hp; destruct Hp as [Hp|(d & Hp & _)]; try discriminate Hp
    |try (right; exists h; rewrite (upd_other _ _ _ _ _ Hne); split; [exact Hl|exact Hp])].
  - rewrite Hlk in Hl. discriminate Hl.
  - rewrite (Hlt eq_refl) in Hl. injection Hl as <-. contradiction.
Qed.

Lemma pres_once : forall n k s e s', Inv n k s -> step VCorrect n s e = Some s' ->
  NoDup (map snd (restores s')).
Proof.
  intros n k s [t st] s' I H.
  assert (Hu' := inv_once _ _ _ I).
  assert (Hlog : forall u i, In (u, i) (restores s) -> log_ok n s i) by apply (inv_log _ _ _ I).
  assert (Hr : in_locked_region (pcs s t) = true -> lock s = Some t) by apply (inv_region _ _ _ I).
  assert (Hnf : before_setflag (pcs s t) = true -> flag s = false) by apply (inv_noflag _ _ _ I).
  step_inv H; cbn [restores set_pc]; try exact Hu'.
  cbn [map snd]. constructor; [|exact Hu'].
  intros Hin. apply in_map_iff in Hin. destruct Hin as [[u j] [Ej Hin]]. cbn [snd] in Ej. subst j.
  rewrite Hpc in Hr, Hnf. specialize (Hr eq_refl). specialize (Hnf eq_refl).
  destruct (Hlog u i0 Hin) as [_ [Hf|(h & Hl & Hp)]].
  - rewrite Hnf in Hf. discriminate Hf.
  - rewrite Hr in Hl. injection Hl as <-. rewrite Hpc in Hp.
    destruct Hp as [Hp|(d & Hp & Hd)]; [discriminate Hp|]. injection Hp as <-. contradiction.
Qed.

Lemma inv_step : forall n k s e s', Inv n k s -> step VCorrect n s e = Some s' -> Inv n k s'.
Proof.
  intros n k s e s' I H. constructor.
  - exact (pres_flag n k s e s' I H).
  - exact (pres_region n k s e s' I H).
  - exact (pres_holder n k s e s' I H).
  - exact (pres_noflag n k s e s' I H).
  - exact (pres_restore n k s e s' I H).
  - exact (pres_setflag n k s e s' I H).
  - exact (pres_after n k s e s' I H).
  - exact (pres_obs n k s e s' I H).
  - exact (pres_outside n k s e s' I H).
  - exact (pres_done n k s e s' I H).
  - exact (pres_log n k s e s' I H).
  - exact (pres_files n k s e s' I H).
  - exact (pres_once n k s e s' I H).
Qed.

Lemma inv_run : forall n k evs s s', Inv n k s -> run VCorrect n s evs = Some s' -> Inv n k s'.
Proof.
  intros n k evs. induction evs as [|e r IH]; intros s s' I H; cbn [run] in H.
  - injection H as <-. exact I.
  - destruct (step VCorrect n s e) as [s1|] eqn:E; [|discriminate H]. apply (IH s1 s'); [|exact H].
    exact (inv_step n k s e s1 I E).
Qed.

Lemma inv_reachable : forall n k s, reachable VCorrect n k s -> Inv n k s.
Proof. intros n k s [evs H]. exact (inv_run n k evs (init k) s (inv_init n k) H). Qed.

Lemma run_app : forall v n evs1 evs2 s,
  run v n s (evs1 ++ evs2) = match run v n s evs1 with Some s1 => run v n s1 evs2 | None => None end.
Proof.
  intros v n evs1. induction evs1 as [|e r IH]; intros evs2 s; cbn [run app]; [reflexivity|].
  destruct (step v n s e) as [s1|]; [apply IH|reflexivity].
Qed.

Lemma reachable_step : forall v n k s e s', reachable v n k s -> step v n s e = Some s' -> reachable v n k s'.
Proof.
  intros v n k s e s' [evs H] Hs. exists (evs ++ [e]). rewrite run_app, H. cbn [run]. now rewrite Hs.
Qed.

(* ------------------------------------------------------------------ 1-3: safety *)
Lemma saw_all_current_repeat : forall n o, saw_all_current n o = true <-> o = repeat Current n.
Proof.
  intros n o. unfold saw_all_current. rewrite andb_true_iff, Nat.eqb_eq. split.
  - intros [<- Hall]. induction o as [|f o IH]; [reflexivity|]. cbn [forallb] in Hall.
    apply andb_true_iff in Hall. destruct Hall as [Hf Ho]. destruct f; [discriminate Hf|].
    cbn [length repeat]. f_equal. now apply IH.
  - intros ->. split; [apply repeat_length|]. induction n as [|n IH]; [reflexivity|]. cbn. exact IH.
Qed.

Lemma cmd_sees_current : forall n k s, reachable VCorrect n k s ->
  forall t o, In (t, o) (obs s) -> o = repeat Current n.
Proof.
  intros n k s Hr t o Hin. apply saw_all_current_repeat. exact (inv_obs _ _ _ (inv_reachable n k s Hr) t o Hin).
Qed.

Lemma cmd_never_saw_stale : forall n k s, reachable VCorrect n k s -> cmd_saw_stale s = false.
Proof.
  intros n k s Hr. unfold cmd_saw_stale. destruct (existsb _ (obs s)) eqn:E; [|reflexivity].
  apply existsb_exists in E. destruct E as [[t o] [Hin Hb]]. cbn [snd] in Hb.
  rewrite (cmd_sees_current n k s Hr t o Hin) in Hb. exfalso.
  assert (H : forall m, forallb is_current (repeat Current m) = true)
    by (intros m; induction m as [|m IH]; [reflexivity|exact IH]).
  rewrite H in Hb. discriminate Hb.
Qed.

Lemma done_task_observed : forall n k s, reachable VCorrect n k s ->
  forall t, t < k -> pcs s t = PDone -> In (t, repeat Current n) (obs s).
Proof.
  intros n k s Hr t Ht Hd. destruct (inv_done _ _ _ (inv_reachable n k s Hr) t Ht Hd) as [o Ho].
  now rewrite <- (cmd_sees_current n k s Hr t o Ho).
Qed.

Lemma flag_implies_restored : forall n k s, reachable VCorrect n k s ->
  flag s = true -> forall i, i < n -> files s i = Current.
Proof. intros n k s Hr. exact (inv_flag _ _ _ (inv_reachable n k s Hr)). Qed.

Lemma restored_once : forall n k s, reachable VCorrect n k s ->
  NoDup (map snd (restores s)) /\
  (forall t i, In (t, i) (restores s) -> i < n) /\
  (forall i, files s i = Current <-> exists t, In (t, i) (restores s)).
Proof.
  intros n k s Hr. assert (I := inv_reachable n k s Hr). split; [exact (inv_once _ _ _ I)|]. split.
  - intros t i Hin. exact (proj1 (inv_log _ _ _ I t i Hin)).
  - exact (inv_files _ _ _ I).
Qed.

Lemma restore_by_holder_of_stale : forall n k s t i s', reachable VCorrect n k s ->
  step VCorrect n s (t, SRestore i) = Some s' ->
  lock s = Some t /\ flag s = false /\ files s i = Stale.
Proof.
  intros n k s t i s' Hr H. assert (I := inv_reachable n k s Hr).
  remember (SRestore i) as st eqn:Est.
  assert (N := pres_once n k s _ s' I H).
  step_inv H; try discriminate Est. injection Est as ->.
  assert (Hl : lock s = Some t) by (apply (inv_region _ _ _ I); now rewrite Hpc).
  assert (Hf : flag s = false) by (apply (inv_noflag _ _ _ I t); now rewrite Hpc).
  split; [exact Hl|]. split; [exact Hf|].
  destruct (files s i) eqn:Ef; [reflexivity|]. exfalso.
  apply (inv_files _ _ _ I) in Ef. destruct Ef as [u Hin].
  cbn [restores map snd] in N. inversion N as [|x l Hni Hnd]. subst. apply Hni.
  apply in_map_iff. exists (u, i). now split.
Qed.

(* ------------------------------------------------------------------ 4: progress *)
Lemma forallb_false_witness : forall (A : Type) (f : A -> bool) l,
  forallb f l = false -> exists x, In x l /\ f x = false.
Proof.
  intros A f l. induction l as [|a l IH]; cbn [forallb]; intros H; [discriminate H|].
  destruct (f a) eqn:Ea.
  - destruct (IH H) as [x [Hx Hf]]. exists x. split; [now right|exact Hf].
  - exists a. split; [now left|exact Ea].
Qed.

Lemma all_done_false : forall n done, all_done n done = false -> exists i, i < n /\ ~ In i done.
Proof.
  intros n done H. apply forallb_false_witness in H. destruct H as [i [Hi Hm]].
  apply in_seq in Hi. apply memb_false in Hm. exists i. split; [lia|exact Hm].
Qed.

(* a task that is not done can step, unless it waits for the lock that somebody holds *)
Lemma enabled_or_blocked : forall n k s t, Inv n k s -> pcs s t <> PDone ->
  (exists st s', step VCorrect n s (t, st) = Some s') \/ (pcs s t = PLock /\ exists h, lock s = Some h).
Proof.
  intros n k s t I Hnd.
  destruct (pcs s t) as [| | | | |done| | | |] eqn:Ep.
  - left. exists SCheckFlag. unfold step; cbn [fst snd]; rewrite Ep. eexists. reflexivity.
  - left. exists SLoadResult. unfold step; cbn [fst snd]; rewrite Ep. eexists. reflexivity.
  - destruct (lock s) as [h|] eqn:El.
    + right. split; [reflexivity|]. now exists h.
    + left. exists SLock. unfold step; cbn [fst snd]; rewrite Ep, El. eexists. reflexivity.
  - left. exists SRecheck. unfold step; cbn [fst snd]; rewrite Ep. eexists. reflexivity.
  - left. exists SValidate. unfold step; cbn [fst snd]; rewrite Ep. eexists. reflexivity.
  - destruct (all_done_false n done (proj1 (inv_restore _ _ _ I t done Ep))) as [i [Hi Hni]].
    left. exists (SRestore i). unfold step; cbn [fst snd]; rewrite Ep.
    apply Nat.ltb_lt in Hi. apply memb_false in Hni. rewrite Hi, Hni. cbn [andb negb]. eexists. reflexivity.
  - left. exists SSetFlag. unfold step; cbn [fst snd]; rewrite Ep. eexists. reflexivity.
  - left. exists SUnlock. unfold step; cbn [fst snd]; rewrite Ep. eexists. reflexivity.
  - left. exists SRunCmd. unfold step; cbn [fst snd]; rewrite Ep. eexists. reflexivity.
  - contradiction.
Qed.

Lemma all_done_or_not : forall s k, (forall t, t < k -> pcs s t = PDone) \/ (exists t, t < k /\ pcs s t <> PDone).
Proof.
  intros s k. induction k as [|k IH].
  - left. intros t Ht. lia.
  - destruct IH as [IH|[t [Ht Hp]]].
    + destruct (is_done (pcs s k)) eqn:Ed.
      * left. intros t Ht. destruct (Nat.eq_dec t k) as [->|Hne]; [|apply IH; lia].
        destruct (pcs s k); try discriminate Ed. reflexivity.
      * right. exists k. split; [lia|]. intros E. rewrite E in Ed. discriminate Ed.
    + right. exists t. split; [lia|exact Hp].
Qed.

Lemma no_deadlock : forall n k s, reachable VCorrect n k s ->
  all_tasks_done k s \/ exists e s', step VCorrect n s e = Some s'.
Proof.
  intros n k s Hr. assert (I := inv_reachable n k s Hr).
  destruct (all_done_or_not s k) as [Hall|[t [Ht Hp]]]; [now left|]. right.
  destruct (enabled_or_blocked n k s t I Hp) as [(st & s' & Hs)|[Hpl [h Hl]]].
  - now exists (t, st), s'.
  - assert (Hreg := inv_holder _ _ _ I h Hl).
    assert (Hh : pcs s h <> PDone) by (intros E; rewrite E in Hreg; discriminate Hreg).
    destruct (enabled_or_blocked n k s h I Hh) as [(st & s' & Hs)|[Hpl' _]].
    + now exists (h, st), s'.
    + rewrite Hpl' in Hreg. discriminate Hreg.
Qed.

(* the measure *)
Lemma remaining_nil : forall n, length (remaining n []) = n.
Proof.
  intros n. unfold remaining.
  assert (H : forall l, filter (fun j => negb (memb j [])) l = l).
  { intros l. induction l as [|a l IH]; [reflexivity|]. cbn [filter]. unfold memb at 1. cbn [existsb negb]. now rewrite IH. }
  rewrite H. apply seq_length.
Qed.

Lemma filter_cons_le : forall i done l,
  length (filter (fun j => negb (memb j (i :: done))) l) <= length (filter (fun j => negb (memb j done)) l).
Proof.
  intros i done l. induction l as [|a l IH]; [apply le_n|]. cbn [filter]. unfold memb at 1. cbn [existsb].
  fold (memb a done). destruct (Nat.eqb a i); cbn [orb negb].
  - destruct (negb (memb a done)); cbn [length]; lia.
  - destruct (negb (memb a done)); cbn [length]; lia.
Qed.

Lemma filter_cons_lt : forall i done l, In i l -> ~ In i done ->
  length (filter (fun j => negb (memb j (i :: done))) l) < length (filter (fun j => negb (memb j done)) l).
Proof.
  intros i done l Hin Hnd. induction l as [|a l IH]; [destruct Hin|]. cbn [filter]. unfold memb at 1. cbn [existsb].
  fold (memb a done). assert (Hle := filter_cons_le i done l). destruct Hin as [->|Hin].
  - rewrite Nat.eqb_refl. cbn [orb negb]. apply memb_false in Hnd. rewrite Hnd. cbn [negb length]. lia.
  - specialize (IH Hin). destruct (Nat.eqb a i); cbn [orb negb].
    + destruct (negb (memb a done)); cbn [length]; lia.
    + destruct (negb (memb a done)); cbn [length]; lia.
Qed.

Lemma remaining_cons_lt : forall n i done, i < n -> ~ In i done ->
  length (remaining n (i :: done)) < length (remaining n done).
Proof. intros n i done Hi Hnd. apply filter_cons_lt; [apply in_seq; lia|exact Hnd]. Qed.

Lemma sum_upd_lt : forall (g g' : nat -> nat) t l, (forall u, u <> t -> g' u = g u) -> g' t < g t ->
  NoDup l -> (In t l -> list_sum (map g' l) < list_sum (map g l)) /\ (~ In t l -> list_sum (map g' l) = list_sum (map g l)).
Proof.
  intros g g' t l Hsame Hlt. induction l as [|a l IH]; intros Hnd.
  - split; [intros []|reflexivity].
  - inversion Hnd as [|x l' Hni Hnd']. subst. destruct (IH Hnd') as [IH1 IH2].
    change (list_sum (map g' (a :: l))) with (g' a + list_sum (map g' l)).
    change (list_sum (map g (a :: l))) with (g a + list_sum (map g l)). split.
    + intros [->|Hin].
      * rewrite (IH2 Hni). lia.
      * assert (a <> t) by (intros ->; contradiction). rewrite (Hsame a) by assumption. specialize (IH1 Hin). lia.
    + intros Hn. assert (a <> t) by (intros ->; apply Hn; now left). rewrite (Hsame a) by assumption.
      rewrite IH2; [reflexivity|]. intros Hin. apply Hn. now right.
Qed.

Lemma measure_upd_lt : forall n k s s' t p, t < k -> pcs s' = upd (pcs s) t p ->
  pc_measure n p < pc_measure n (pcs s t) -> measure n k s' < measure n k s.
Proof.
  intros n k s s' t p Ht Hp Hlt. unfold measure. rewrite Hp.
  apply (sum_upd_lt (fun u => pc_measure n (pcs s u)) (fun u => pc_measure n (upd (pcs s) t p u)) t (seq 0 k)).
  - intros u Hne. now rewrite upd_other.
  - now rewrite upd_same.
  - apply seq_NoDup.
  - apply in_seq. lia.
Qed.

Lemma step_decreases : forall n k s e s', Inv n k s -> step VCorrect n s e = Some s' -> measure n k s' < measure n k s.
Proof.
  intros n k s [t st] s' I H.
  assert (Ht : t < k).
  { destruct (Nat.lt_ge_cases t k) as [Hlt|Hge]; [exact Hlt|]. exfalso.
    assert (Hd := inv_outside _ _ _ I t Hge). step_inv H; rewrite Hd in Hpc; discriminate Hpc. }
  step_inv H; (eapply measure_upd_lt; [exact Ht|cbn [pcs set_pc]; reflexivity|rewrite Hpc; cbn [pc_measure]]).
  - destruct (flag s); cbn [pc_measure]; lia.
  - lia.
  - lia.
  - destruct (flag s); cbn [pc_measure]; lia.
  - destruct (all_done n []); cbn [pc_measure]; [lia|]. rewrite remaining_nil. lia.
  - assert (Hl := remaining_cons_lt n i0 done0 Hi0 Hnd0).
    destruct (all_done n (i0 :: done0)); cbn [pc_measure]; lia.
  - lia.
  - lia.
  - lia.
Qed.

Lemma measure_init : forall n k, measure n k (init k) = k * (n + 8).
Proof.
  intros n k. unfold measure.
  assert (H : forall l, (forall t, In t l -> t < k) ->
            list_sum (map (fun t => pc_measure n (pcs (init k) t)) l) = length l * (n + 8)).
  { intros l. induction l as [|a l IH]; intros Hl; [reflexivity|].
    change (list_sum (map (fun t => pc_measure n (pcs (init k) t)) (a :: l)))
      with (pc_measure n (pcs (init k) a) + list_sum (map (fun t => pc_measure n (pcs (init k) t)) l)).
    rewrite IH by (intros t Ht; apply Hl; now right).
    assert (Ha : a < k) by (apply Hl; now left). cbn [init pcs]. apply Nat.ltb_lt in Ha. rewrite Ha.
    cbn [pc_measure length]. lia. }
  rewrite H by (intros t Ht; apply in_seq in Ht; lia). now rewrite seq_length.
Qed.

Lemma run_length : forall n k evs s s', Inv n k s -> run VCorrect n s evs = Some s' ->
  length evs + measure n k s' <= measure n k s.
Proof.
  intros n k evs. induction evs as [|e r IH]; intros s s' I H; cbn [run] in H.
  - injection H as <-. cbn [length]. lia.
  - destruct (step VCorrect n s e) as [s1|] eqn:E; [|discriminate H].
    assert (Hd := step_decreases n k s e s1 I E). assert (I1 := inv_step n k s e s1 I E).
    specialize (IH s1 s' I1 H). cbn [length]. lia.
Qed.

Lemma run_bounded : forall n k evs s, run VCorrect n (init k) evs = Some s -> length evs <= k * (n + 8).
Proof.
  intros n k evs s H. assert (Hl := run_length n k evs (init k) s (inv_init n k) H).
  rewrite measure_init in Hl. lia.
Qed.

(* from every reachable state some continuation ends with every command run (and it cannot run for ever: run_bounded) *)
Lemma can_finish : forall n k s, reachable VCorrect n k s ->
  exists evs s', run VCorrect n s evs = Some s' /\ all_tasks_done k s'.
Proof.
  intros n k s Hr. remember (measure n k s) as m eqn:Em.
  assert (Hm : measure n k s <= m) by lia. clear Em. revert s Hr Hm.
  induction m as [|m IH]; intros s Hr Hm.
  - destruct (no_deadlock n k s Hr) as [Hd|(e & s1 & Hs)].
    + exists [], s. now split.
    + assert (Hd := step_decreases n k s e s1 (inv_reachable n k s Hr) Hs). lia.
  - destruct (no_deadlock n k s Hr) as [Hd|(e & s1 & Hs)].
    + exists [], s. now split.
    + assert (Hd := step_decreases n k s e s1 (inv_reachable n k s Hr) Hs).
      destruct (IH s1 (reachable_step _ n k s e s1 Hr Hs)) as (evs & s' & Hrun & Hall); [lia|].
      exists (e :: evs), s'. cbn [run]. rewrite Hs. now split.
Qed.

(* ------------------------------------------------------------------ 5: the two seeded orders are wrong, in the model too *)
(* dependant 0 is inside the restore of the single output when dependant 1 arrives *)
Definition sched_flag_early : list event :=
  [(0, SCheckFlag); (0, SLoadResult); (0, SLock); (0, SRecheck); (0, SValidate); (0, SSetFlag);
   (1, SCheckFlag); (1, SRunCmd)].
Definition sched_requested_once : list event :=
  [(0, SCheckFlag); (0, SLoadResult); (0, SLock); (0, SRecheck); (0, SValidate);
   (1, SCheckFlag); (1, SRunCmd)].

Lemma flag_early_refuted : exists evs, run_saw_stale VFlagEarly 1 2 evs = true.
Proof. exists sched_flag_early. vm_compute. reflexivity. Qed.

Lemma requested_once_refuted : exists evs, run_saw_stale VRequestedOnce 1 2 evs = true.
Proof. exists sched_requested_once. vm_compute. reflexivity. Qed.

(* the same interleavings are not even schedules of the real order, or end with the command seeing current bytes *)
Lemma seeded_schedules_harmless_for_real_order :
  run_saw_stale VCorrect 1 2 sched_flag_early = false /\ run_saw_stale VCorrect 1 2 sched_requested_once = false.
Proof. split; vm_compute; reflexivity. Qed.

(* ------------------------------------------------------------------ 6: non-vacuity *)
Definition complete_and_current (n k : nat) (evs : list event) : bool :=
  match run VCorrect n (init k) evs with
  | Some s => forallb (fun t => is_done (pcs s t)) (seq 0 k) && Nat.eqb (length (obs s)) k
              && forallb (fun to => saw_all_current n (snd to)) (obs s) && Nat.eqb (length (restores s)) n
  | None => false
  end.

(* 2 dependants, 2 outputs: 1 arrives while 0 restores, passes the unlocked check, waits for the lock, sees the flag *)
Definition sched_two_two : list event :=
  [(0, SCheckFlag); (0, SLoadResult); (0, SLock); (0, SRecheck); (0, SValidate); (0, SRestore 1);
   (1, SCheckFlag); (1, SLoadResult);
   (0, SRestore 0); (0, SSetFlag); (0, SUnlock);
   (1, SLock); (0, SRunCmd); (1, SRecheck); (1, SUnlock); (1, SRunCmd)].

Lemma depload_nonvacuous : complete_and_current 2 2 sched_two_two = true.
Proof. vm_compute. reflexivity. Qed.

(* while 0 holds the lock, 1 cannot take it *)
Lemma lock_blocks_nonvacuous :
  run VCorrect 2 (init 2) [(0, SCheckFlag); (0, SLoadResult); (0, SLock); (1, SCheckFlag); (1, SLoadResult); (1, SLock)] = None.
Proof. vm_compute. reflexivity. Qed.

(* ------------------------------------------------------------------ the tie evaluates runs of the model *)
Lemma first_auto_step : forall v n ts s s', first_auto v n s ts = Some s' -> exists e, step v n s e = Some s'.
Proof.
  intros v n ts. induction ts as [|t r IH]; intros s s' H; cbn [first_auto] in H; [discriminate H|].
  destruct (auto_step (pcs s t)) as [st|]; [|now apply IH].
  destruct (step v n s (t, st)) as [s1|] eqn:E; [|now apply IH]. injection H as <-. now exists (t, st).
Qed.

Lemma settle_reachable : forall v n k ts fuel s, reachable v n k s -> reachable v n k (settle fuel v n ts s).
Proof.
  intros v n k ts fuel. induction fuel as [|f IH]; intros s Hr; cbn [settle]; [exact Hr|].
  destruct (first_auto v n s ts) as [s1|] eqn:E; [|exact Hr].
  apply IH. destruct (first_auto_step v n ts s s1 E) as [e He]. exact (reachable_step v n k s e s1 Hr He).
Qed.

Lemma do_token_reachable : forall v asc n k s tok, reachable v n k s -> reachable v n k (snd (do_token v asc n k s tok)).
Proof.
  intros v asc n k s tok Hr. unfold do_token.
  destruct (token_event s (task_order asc k) tok) as [e|]; [|exact Hr].
  destruct (step v n s e) as [s1|] eqn:E; [|exact Hr]. cbn [snd].
  apply settle_reachable. exact (reachable_step v n k s e s1 Hr E).
Qed.

Lemma replay_from_reachable : forall v asc n k toks s, reachable v n k s ->
  reachable v n k (snd (replay_from v asc n k s toks)).
Proof.
  intros v asc n k toks. induction toks as [|tok r IH]; intros s Hr; cbn [replay_from snd]; [exact Hr|].
  apply IH. now apply do_token_reachable.
Qed.

Lemma replay_state_reachable : forall v asc n k toks,
  reachable v n k (snd (replay_from v asc n k (init k) toks)).
Proof. intros v asc n k toks. apply replay_from_reachable. now exists []. Qed.

(* the fuel of [settle] is enough: afterwards no step that needs no token is enabled *)
Lemma settle_quiescent : forall n k ts fuel s, Inv n k s -> measure n k s <= fuel ->
  first_auto VCorrect n (settle fuel VCorrect n ts s) ts = None.
Proof.
  intros n k ts fuel. induction fuel as [|f IH]; intros s I Hm; cbn [settle].
  - destruct (first_auto VCorrect n s ts) as [s1|] eqn:E; [|reflexivity].
    destruct (first_auto_step _ n ts s s1 E) as [e He]. assert (Hd := step_decreases n k s e s1 I He). lia.
  - destruct (first_auto VCorrect n s ts) as [s1|] eqn:E; [|exact E].
    destruct (first_auto_step _ n ts s s1 E) as [e He]. assert (Hd := step_decreases n k s e s1 I He).
    apply IH; [exact (inv_step n k s e s1 I He)|lia].
Qed.

Lemma measure_le_init : forall n k s, reachable VCorrect n k s -> measure n k s <= k * (n + 8).
Proof.
  intros n k s [evs H]. assert (Hl := run_length n k evs (init k) s (inv_init n k) H). rewrite measure_init in Hl. lia.
Qed.

Lemma do_token_quiescent : forall asc n k s tok, reachable VCorrect n k s ->
  fst (do_token VCorrect asc n k s tok) = true ->
  first_auto VCorrect n (snd (do_token VCorrect asc n k s tok)) (task_order asc k) = None.
Proof.
  intros asc n k s tok Hr. unfold do_token.
  destruct (token_event s (task_order asc k) tok) as [e|]; [|discriminate].
  destruct (step VCorrect n s e) as [s1|] eqn:E; [|discriminate]. cbn [fst snd]. intros _.
  assert (Hr1 := reachable_step _ n k s e s1 Hr E).
  apply (settle_quiescent n k); [exact (inv_reachable n k s1 Hr1)|exact (measure_le_init n k s1 Hr1)].
Qed.
