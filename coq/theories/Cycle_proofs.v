From Grog Require Import Str Label Path Analysis Analysis_base.
From Coq Require Import List Bool Arith Lia.
Import ListNotations.

(* Cycle_proofs.v -- correctness of the three-colour depth first search [find_cycle]
   (model of dag.FindCycle) against the inductive reachability [reach].

   FAITHFUL proof (no fallback, no bounded sweep):

     find_cycle_sound  : find_cycle g = DfsCycle -> exists n, reach g n n
     find_cycle_iff    : find_cycle g = DfsCycle <-> exists n, reach g n n
     find_cycle_fuel   : find_cycle g <> DfsFuel
     find_cycle_done   : find_cycle g = DfsDone black -> acyclic g

   None of them needs [NoDup (labels g)] or [no_dangling g]: the search only ever visits
   labels that are the head of an edge, and those are node labels by definition of [edge];
   the fuel argument needs the grey stack to be duplicate free, not the node list.  The
   statements with the two (unused) hypotheses are kept as [find_cycle_iff_guarded] and
   [find_cycle_fuel_guarded].

   Invariants:
   - grey (the recursion stack below x): every z in grey reaches x; a successor of x found
     in x :: grey therefore closes a cycle;
   - black (finished nodes, newest first) is [ranked]: every successor of an element lies
     strictly further down the list; reachability inside a ranked list moves towards the
     tail, so no element of a ranked list is on a cycle;
   - fuel: x :: grey is duplicate free and made of node labels, so it is no longer than g,
     and fuel + |grey| >= |g| + 1 keeps the fuel positive. *)

(* ---------------------------------------------------------------- dfs_visit, unfolded *)
(* the inner [go] of dfs_visit with the recursive call abstracted *)
Fixpoint dfs_go (visit : list label -> list label -> label -> dfs_res)
         (x : label) (grey : list label) (todo black : list label) : dfs_res :=
  match todo with
  | [] => DfsDone (x :: black)
  | y :: rest =>
      if negb (label_in y (x :: grey)) && negb (label_in y black) then
        match visit (x :: grey) black y with
        | DfsDone black' => dfs_go visit x grey rest black'
        | r => r
        end
      else if label_in y (x :: grey) then DfsCycle
      else dfs_go visit x grey rest black
  end.

Lemma dfs_visit_S f g grey black x :
  dfs_visit (S f) g grey black x = dfs_go (dfs_visit f g) x grey (dependants g x) black.
Proof.
  cbn [dfs_visit]. generalize (dependants g x) as todo. intro todo. revert black.
  induction todo as [|y rest IH]; intro black; [reflexivity|].
  cbn [dfs_go].
  destruct (negb (label_in y (x :: grey)) && negb (label_in y black)) eqn:E1.
  - destruct (dfs_visit f g (x :: grey) black y) as [| |b'] eqn:E2; try reflexivity.
    apply IH.
  - destruct (label_in y (x :: grey)) eqn:E3; [reflexivity|]. apply IH.
Qed.

(* ---------------------------------------------------------------- node labels *)
Lemma edge_label_r g a n : edge g a n -> In n (labels g).
Proof.
  intros [nd [H1 [H2 _]]]. apply in_labels. exists nd; auto.
Qed.

Lemma reach_label_r g a n : reach g a n -> In n (labels g).
Proof.
  intro H. destruct H as [a n He | a b n _ He]; eapply edge_label_r; exact He.
Qed.

(* ---------------------------------------------------------------- ranked lists *)
(* finishing order: the successors of an element are strictly further down *)
Inductive ranked (g : nodes) : list label -> Prop :=
| ranked_nil : ranked g []
| ranked_cons b l : ranked g l -> (forall y, edge g b y -> In y l) -> ranked g (b :: l).

Lemma ranked_closed g l : ranked g l -> forall a y, In a l -> edge g a y -> In y l.
Proof.
  intro Hr. induction Hr as [|b l Hr IH Hb]; intros a y Ha He; [destruct Ha|].
  destruct Ha as [->|Ha].
  - right. apply Hb; exact He.
  - right. eapply IH; eassumption.
Qed.

Lemma ranked_reach_closed g l : ranked g l -> forall a n, reach g a n -> In a l -> In n l.
Proof.
  intros Hr a n Hre. induction Hre as [a n He | a b n Hab IH He]; intro Ha.
  - eapply ranked_closed; eassumption.
  - eapply ranked_closed; [exact Hr | apply IH; exact Ha | exact He].
Qed.

(* from the head of a ranked list one only reaches the strict tail *)
Lemma ranked_head_reach g b l :
  ranked g l -> (forall y, edge g b y -> In y l) -> forall n, reach g b n -> In n l.
Proof.
  intros Hr Hb n Hre.
  remember b as a eqn:Ea. induction Hre as [a n He | a m n Ham IH He]; subst a.
  - apply Hb; exact He.
  - eapply ranked_closed; [exact Hr | apply IH; [reflexivity | exact Hb] | exact He].
Qed.

Lemma ranked_acyclic g l : ranked g l -> forall n, In n l -> ~ reach g n n.
Proof.
  intro Hr. induction Hr as [|b l Hr IH Hb]; intros n Hn Hre; [destruct Hn|].
  destruct Hn as [->|Hn].
  - apply (IH n); [|exact Hre]. eapply ranked_head_reach; eassumption.
  - apply (IH n); assumption.
Qed.

(* ---------------------------------------------------------------- the invariant *)
(* what a call that started with finished set [black] on node [x] may answer *)
Definition post (g : nodes) (black : list label) (x : label) (r : dfs_res) : Prop :=
  match r with
  | DfsCycle => exists n, reach g n n
  | DfsFuel => False
  | DfsDone black' => ranked g black' /\ In x black' /\ incl black black'
  end.

Lemma post_weaken g black1 black2 x r :
  incl black1 black2 -> post g black2 x r -> post g black1 x r.
Proof.
  intros Hi. destruct r as [| |b']; simpl; auto.
  intros [H1 [H2 H3]]. repeat split; auto. eapply incl_tran; eassumption.
Qed.

Lemma dfs_go_post g visit x grey :
  (forall black y, ranked g black -> edge g x y -> ~ In y (x :: grey) ->
                   post g black y (visit (x :: grey) black y)) ->
  (forall z, In z grey -> reach g z x) ->
  forall todo black,
    ranked g black ->
    (forall y, In y todo -> edge g x y) ->
    (forall y, edge g x y -> In y todo \/ In y black) ->
    post g black x (dfs_go visit x grey todo black).
Proof.
  intros Hvisit Hgrey todo.
  induction todo as [|y rest IH]; intros black Hr Htodo Hdone.
  - simpl. split; [|split].
    + constructor; [exact Hr|]. intros y He. destruct (Hdone y He) as [[]|Hb]; exact Hb.
    + left; reflexivity.
    + apply incl_tl, incl_refl.
  - cbn [dfs_go].
    assert (Hxy : edge g x y) by (apply Htodo; left; reflexivity).
    destruct (label_in y (x :: grey)) eqn:Eg.
    + (* visited == 1: back edge *)
      cbn [negb andb post]. apply label_in_spec in Eg. destruct Eg as [<-|Eg].
      * exists x. apply reach_step; exact Hxy.
      * exists y. eapply reach_trans; [apply Hgrey; exact Eg | exact Hxy].
    + apply label_in_false in Eg.
      destruct (label_in y black) eqn:Eb.
      * (* visited == 2 *)
        cbn [negb andb]. apply label_in_spec in Eb. apply IH.
        -- exact Hr.
        -- intros y0 Hy0. apply Htodo; right; exact Hy0.
        -- intros y0 He0. destruct (Hdone y0 He0) as [[<-|Hy0]|Hy0]; auto.
      * (* visited == 0 *)
        cbn [negb andb]. pose proof (Hvisit black y Hr Hxy Eg) as Hp.
        destruct (visit (x :: grey) black y) as [| |b'] eqn:Ev; cbn [post] in Hp |- *.
        -- exact Hp.
        -- destruct Hp.
        -- destruct Hp as [Hr' [Hy' Hi']].
           apply (post_weaken g black b'); [exact Hi'|]. apply IH.
           ++ exact Hr'.
           ++ intros y0 Hy0. apply Htodo; right; exact Hy0.
           ++ intros y0 He0. destruct (Hdone y0 He0) as [[<-|Hy0]|Hy0]; auto.
Qed.

Lemma dfs_visit_post g : forall fuel grey black x,
  ranked g black ->
  (forall z, In z grey -> reach g z x) ->
  NoDup (x :: grey) -> incl (x :: grey) (labels g) ->
  S (length g) <= fuel + length grey ->
  post g black x (dfs_visit fuel g grey black x).
Proof.
  induction fuel as [|f IH]; intros grey black x Hr Hgrey Hnd Hincl Hfuel.
  - exfalso. pose proof (NoDup_incl_length Hnd Hincl) as Hlen.
    unfold labels in Hlen. rewrite map_length in Hlen. simpl in Hlen, Hfuel. lia.
  - rewrite dfs_visit_S. apply dfs_go_post.
    + intros black' y Hr' He Hny. apply IH.
      * exact Hr'.
      * intros z [<-|Hz]; [apply reach_step; exact He|].
        eapply reach_trans; [apply Hgrey; exact Hz | exact He].
      * constructor; assumption.
      * intros z [<-|Hz]; [eapply edge_label_r; exact He | apply Hincl; exact Hz].
      * simpl. lia.
    + exact Hgrey.
    + exact Hr.
    + intros y Hy. apply in_dependants; exact Hy.
    + intros y He. left. apply in_dependants; exact He.
Qed.

Lemma dfs_all_post g : forall order black,
  ranked g black -> incl order (labels g) ->
  match dfs_all (S (length g)) g order black with
  | DfsCycle => exists n, reach g n n
  | DfsFuel => False
  | DfsDone black' => ranked g black' /\ incl black black' /\ incl order black'
  end.
Proof.
  induction order as [|x rest IH]; intros black Hr Hincl.
  - simpl. split; [exact Hr|]. split; [apply incl_refl | intros z []].
  - cbn [dfs_all].
    assert (Hrest : incl rest (labels g)) by (intros z Hz; apply Hincl; right; exact Hz).
    destruct (label_in x black) eqn:Eb.
    + apply label_in_spec in Eb. specialize (IH black Hr Hrest).
      destruct (dfs_all (S (length g)) g rest black) as [| |b']; auto.
      destruct IH as [H1 [H2 H3]]. split; [exact H1|]. split; [exact H2|].
      intros z [<-|Hz]; [apply H2; exact Eb | apply H3; exact Hz].
    + assert (Hp : post g black x (dfs_visit (S (length g)) g [] black x)).
      { apply dfs_visit_post.
        - exact Hr.
        - intros z [].
        - constructor; [intros [] | constructor].
        - intros z [<-|[]]. apply Hincl; left; reflexivity.
        - simpl. lia. }
      destruct (dfs_visit (S (length g)) g [] black x) as [| |b1]; cbn [post] in Hp.
      * exact Hp.
      * exact Hp.
      * destruct Hp as [Hr1 [Hx1 Hi1]]. specialize (IH b1 Hr1 Hrest).
        destruct (dfs_all (S (length g)) g rest b1) as [| |b']; auto.
        destruct IH as [H1 [H2 H3]]. split; [exact H1|]. split.
        -- eapply incl_tran; eassumption.
        -- intros z [<-|Hz]; [apply H2; exact Hx1 | apply H3; exact Hz].
Qed.

Lemma find_cycle_post g :
  match find_cycle g with
  | DfsCycle => exists n, reach g n n
  | DfsFuel => False
  | DfsDone black => ranked g black /\ incl (labels g) black
  end.
Proof.
  unfold find_cycle.
  pose proof (dfs_all_post g (sort_labels (labels g)) [] (ranked_nil g)) as H.
  assert (Hi : incl (sort_labels (labels g)) (labels g))
    by (intros z Hz; apply sort_labels_in; exact Hz).
  specialize (H Hi).
  destruct (dfs_all (S (length g)) g (sort_labels (labels g)) []) as [| |b]; auto.
  destruct H as [H1 [_ H3]]. split; [exact H1|].
  intros z Hz. apply H3. apply sort_labels_in; exact Hz.
Qed.

(* ---------------------------------------------------------------- theorems *)
Theorem find_cycle_sound g : find_cycle g = DfsCycle -> exists n, reach g n n.
Proof.
  intro H. pose proof (find_cycle_post g) as Hp. rewrite H in Hp. exact Hp.
Qed.

Theorem find_cycle_fuel g : find_cycle g <> DfsFuel.
Proof.
  intro H. pose proof (find_cycle_post g) as Hp. rewrite H in Hp. exact Hp.
Qed.

Theorem find_cycle_done g black : find_cycle g = DfsDone black -> acyclic g.
Proof.
  intros H [n Hn]. pose proof (find_cycle_post g) as Hp. rewrite H in Hp.
  destruct Hp as [Hr Hi].
  apply (ranked_acyclic g black Hr n); [|exact Hn].
  apply Hi. eapply reach_label_r; exact Hn.
Qed.

Theorem find_cycle_complete g : (exists n, reach g n n) -> find_cycle g = DfsCycle.
Proof.
  intro Hc. destruct (find_cycle g) as [| |black] eqn:E.
  - reflexivity.
  - exfalso. exact (find_cycle_fuel g E).
  - exfalso. exact (find_cycle_done g black E Hc).
Qed.

Theorem find_cycle_iff g : find_cycle g = DfsCycle <-> exists n, reach g n n.
Proof.
  split; [apply find_cycle_sound | apply find_cycle_complete].
Qed.

Theorem find_cycle_acyclic g : (exists black, find_cycle g = DfsDone black) <-> acyclic g.
Proof.
  split.
  - intros [black H]. eapply find_cycle_done; exact H.
  - intro Ha. destruct (find_cycle g) as [| |black] eqn:E.
    + exfalso. apply Ha. apply find_cycle_sound; exact E.
    + exfalso. exact (find_cycle_fuel g E).
    + exists black; reflexivity.
Qed.

(* the statements with the guards of the property file; the guards are not used *)
Theorem find_cycle_iff_guarded : forall g, NoDup (labels g) -> no_dangling g ->
  (find_cycle g = DfsCycle <-> exists n, reach g n n).
Proof. intros g _ _. apply find_cycle_iff. Qed.

Theorem find_cycle_fuel_guarded : forall g, NoDup (labels g) -> no_dangling g ->
  find_cycle g <> DfsFuel.
Proof. intros g _ _. apply find_cycle_fuel. Qed.
