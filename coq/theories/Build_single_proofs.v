(* Build_single_proofs.v -- what ONE target's task (Build.process_target: getTaskFunc, executeTarget,
   OnTargetComplete) can and cannot do, for every configuration, snapshot, runtime state, world and
   cache; and the lift of those facts to whole builds (Build.build).  Used by C05 (never cached),
   C13 (taint / no-cache / cache off force execution), C14 (success implies postconditions) and
   C18 (an interrupted command leaves no cache entry). *)
From Coq Require Import List Ascii Bool Arith Lia.
From Grog Require Import Str Label HashKey Build Build_proofs.
Import ListNotations.

Section Single.
Variable H : str -> str.

Notation execute := (execute H).
Notation on_complete := (on_complete H).
Notation process_target := (process_target H).
Notation process_node := (process_node H).
Notation load_dep_outputs := (load_dep_outputs H).
Notation build := (build H).

Definition sts (b : bstate) : list tstatus := map rt_status (b_rt b).

(* ================================================================== statuses are only changed by [mark] *)
Lemma map_list_set {A B} (f : A -> B) x : forall l i, map f (list_set i x l) = list_set i (f x) (map f l).
Proof. induction l as [|y l IH]; intros [|i]; simpl; auto. f_equal. apply IH. Qed.

Lemma list_set_same_nth {A} (d : A) : forall l i, list_set i (nth i l d) l = l.
Proof.
  induction l as [|y l IH]; intros [|i]; simpl; auto. f_equal. apply IH.
Qed.

Lemma sts_set_rt_keep b i r : rt_status r = rt_status (get_rt b i) -> sts (set_rt b i r) = sts b.
Proof.
  intro Hs. unfold sts. rewrite b_rt_set_rt, map_list_set, Hs. unfold get_rt.
  change (rt_status (nth i (b_rt b) rt0)) with (rt_status (nth i (b_rt b) rt0)).
  replace (rt_status (nth i (b_rt b) rt0)) with (nth i (map rt_status (b_rt b)) TNone)
    by (change TNone with (rt_status rt0); apply map_nth).
  apply list_set_same_nth.
Qed.

Lemma sts_set_world b w : sts (set_world b w) = sts b. Proof. reflexivity. Qed.
Lemma sts_set_cache b c : sts (set_cache b c) = sts b. Proof. reflexivity. Qed.
Lemma sts_add_exec b l : sts (add_exec b l) = sts b. Proof. reflexivity. Qed.
Lemma sts_mark b i st : sts (mark b i st) = list_set i st (sts b).
Proof. unfold mark, sts. rewrite b_rt_set_rt, map_list_set. reflexivity. Qed.

Lemma sts_length b : length (sts b) = rt_len b.
Proof. unfold sts, rt_len. apply map_length. Qed.

Lemma nth_sts b i : nth i (sts b) TNone = rt_status (get_rt b i).
Proof. unfold sts, get_rt. change TNone with (rt_status rt0). apply map_nth. Qed.

(* ================================================================== OnTargetComplete *)
Lemma present_digests_some t : forall outs ws ds,
  present_digests H t outs ws = Some ds ->
  forall o, In o outs -> exists c, ws_get (out_path t o) ws = PFile c.
Proof.
  induction outs as [|o outs IH]; intros ws ds Hd o' Ho'; [destruct Ho'|].
  simpl in Hd.
  destruct (ws_get (out_path t o) ws) as [| |c|] eqn:E; try discriminate.
  destruct (present_digests H t outs ws) as [rest|] eqn:E2; try discriminate.
  destruct Ho' as [<-|Ho']; [eauto | eapply IH; eauto].
Qed.

Lemma on_complete_spec cfg i t key b b2 :
  on_complete cfg i t key b = Some b2 ->
  exists ds res cas',
    present_digests H t (td_outs t) (w_ws (b_world b)) = Some ds /\
    b_world b2 = b_world b /\ b_exec b2 = b_exec b /\ b_stop b2 = b_stop b /\ sts b2 = sts b /\
    b_cache b2 = (if cfg_cache cfg
                  then mkCache (results_set key res (c_results (b_cache b))) cas' (c_taint (b_cache b))
                  else b_cache b) /\
    rt_len b2 = rt_len b.
Proof.
  unfold Build.on_complete. intro Hc.
  destruct (present_digests H t (td_outs t) (w_ws (b_world b))) as [ds|] eqn:Ed.
  2:{ destruct (td_outs t); discriminate. }
  match type of Hc with
  | (let '(res, cas') := ?X in _) = _ => destruct X as [res cas'] eqn:EX
  end.
  inversion Hc; subst b2; clear Hc.
  exists ds, res, cas'. split; [reflexivity|].
  repeat split; autorewrite with bst; try reflexivity.
  - rewrite sts_set_rt_keep; [apply sts_set_cache | reflexivity].
Qed.

(* ================================================================== the command touches only its own external condition *)
Definition ext_frame (t : tdef) (w w' : world) : Prop :=
  forall l, l <> td_label t -> label_in l (w_ext w') = label_in l (w_ext w).

Lemma ext_frame_refl t w : ext_frame t w w. Proof. intros l _. reflexivity. Qed.
Lemma ext_frame_eq t w w' : w_ext w' = w_ext w -> ext_frame t w w'.
Proof. intros E l _. rewrite E. reflexivity. Qed.
Lemma ext_frame_trans t w1 w2 w3 : ext_frame t w1 w2 -> ext_frame t w2 w3 -> ext_frame t w1 w3.
Proof. intros A B l Hl. rewrite (B l Hl). apply A; exact Hl. Qed.

Lemma label_eqb_eq a b : label_eqb a b = true <-> a = b.
Proof.
  unfold label_eqb. rewrite andb_true_iff, !str_eqb_eq. destruct a, b; simpl. split.
  - intros [-> ->]; reflexivity.
  - intro E; inversion E; auto.
Qed.
Lemma label_eqb_refl a : label_eqb a a = true.
Proof. apply label_eqb_eq; reflexivity. Qed.
Lemma label_eqb_false a b : a <> b -> label_eqb a b = false.
Proof. intro Hn. destruct (label_eqb a b) eqn:E; [apply label_eqb_eq in E; contradiction | reflexivity]. Qed.

Lemma label_in_remove_mono l l' ls : label_in l (label_remove l' ls) = true -> label_in l ls = true.
Proof.
  unfold label_in, label_remove. induction ls as [|x ls IH]; simpl; auto.
  destruct (label_eqb l' x) eqn:E; simpl.
  - intro Hl. rewrite (IH Hl). apply orb_true_r.
  - destruct (label_eqb l x); simpl; auto.
Qed.

Lemma label_in_remove_other l l' ls : l <> l' -> label_in l (label_remove l' ls) = label_in l ls.
Proof.
  intro Hne. unfold label_in, label_remove. induction ls as [|x ls IH]; simpl; auto.
  destruct (label_eqb l' x) eqn:E; simpl.
  - rewrite IH. destruct (label_eqb l x) eqn:E2; simpl; auto.
    apply label_eqb_eq in E. apply label_eqb_eq in E2. subst. contradiction.
  - rewrite IH. reflexivity.
Qed.

Lemma run_command_ext s t w w' : run_command s t w = Some w' -> ext_frame t w w'.
Proof.
  unfold run_command. intro Hr.
  destruct (td_beh t) eqn:Eb; try discriminate;
    destruct (dep_parts s (w_ws w) (td_deps t)) as [reads|]; try discriminate;
    inversion Hr; subst w'; clear Hr; intros l Hl; cbn [w_ext];
    destruct (td_check t); try reflexivity;
    try (destruct (label_in (td_label t) (w_ext w)); [reflexivity|];
         cbn [label_in existsb]; rewrite (label_eqb_false _ _ Hl); reflexivity).
  apply label_in_remove_other; exact Hl.
Qed.

Lemma run_command_failed_world_ext s t w : w_ext (run_command_failed_world s t w) = w_ext w.
Proof.
  unfold run_command_failed_world. destruct (td_beh t); try reflexivity.
  destruct (dep_parts s (w_ws w) (td_deps t)); reflexivity.
Qed.

(* ================================================================== executeTarget *)
(* the state in which the command of t starts *)
Definition exec_start (t : tdef) (b : bstate) : bstate :=
  if null (td_cmd t) then b else add_exec b (td_label t).

Lemma execute_fail cfg s i t key tainted b b' :
  execute cfg s i t key tainted b = (false, b') ->
  b_cache b' = b_cache b /\ sts b' = sts b /\ b_exec b' = b_exec (exec_start t b) /\ b_stop b' = b_stop b /\
  rt_len b' = rt_len b /\ ext_frame t (b_world b) (b_world b').
Proof.
  unfold Build.execute, exec_start. intro He.
  set (b0 := if null (td_cmd t) then b else add_exec b (td_label t)) in *.
  assert (Hw0 : b_world b0 = b_world b) by (unfold b0; destruct (null (td_cmd t)); reflexivity).
  assert (Hc0 : b_cache b0 = b_cache b) by (unfold b0; destruct (null (td_cmd t)); reflexivity).
  assert (Hs0 : sts b0 = sts b) by (unfold b0; destruct (null (td_cmd t)); reflexivity).
  assert (Hp0 : b_stop b0 = b_stop b) by (unfold b0; destruct (null (td_cmd t)); reflexivity).
  assert (Hl0 : rt_len b0 = rt_len b) by (unfold b0; destruct (null (td_cmd t)); reflexivity).
  destruct (if null (td_cmd t) then Some (b_world b0) else run_command s t (b_world b0)) as [w'|] eqn:Er.
  - assert (Hext : ext_frame t (b_world b) w').
    { destruct (null (td_cmd t)).
      - inversion Er. rewrite Hw0. apply ext_frame_refl.
      - rewrite Hw0 in Er. eapply run_command_ext; exact Er. }
    destruct (negb (check_ok w' t)) eqn:Ec.
    + inversion He; subst b'. autorewrite with bst. repeat split; auto.
    + destruct (Build.on_complete H cfg i t key _) as [b2|] eqn:Eo.
      * destruct tainted; discriminate.
      * inversion He; subst b'. autorewrite with bst. repeat split; auto.
  - inversion He; subst b'. autorewrite with bst. repeat split; auto.
    apply ext_frame_eq. rewrite run_command_failed_world_ext, Hw0. reflexivity.
Qed.

(* what a successful execution guarantees *)
Record exec_ok (cfg : config) (s : sources) (t : tdef) (key : str) (tainted : bool) (b b' : bstate) : Prop := {
  eo_cmd     : if null (td_cmd t) then b_world b' = b_world b
               else run_command s t (b_world b) = Some (b_world b');      (* the command exited 0 *)
  eo_check   : check_ok (b_world b') t = true;                           (* every output check passes afterwards *)
  eo_outs    : forall o, In o (td_outs t) ->
               exists c, ws_get (out_path t o) (w_ws (b_world b')) = PFile c;   (* every declared output exists *)
  eo_result  : if cfg_cache cfg
               then exists res, rlookup key (c_results (b_cache b')) = Some res   (* the result is stored under the key *)
               else c_results (b_cache b') = c_results (b_cache b) /\
                    c_cas (b_cache b') = c_cas (b_cache b);         (* ... unless the cache is disabled: not written *)
  eo_others  : forall k, k <> key -> rlookup k (c_results (b_cache b')) = rlookup k (c_results (b_cache b));
  eo_taint   : tainted = true -> label_in (td_label t) (c_taint (b_cache b')) = false;  (* the taint is consumed *)
  eo_taints  : c_taint (b_cache b') = if tainted then label_remove (td_label t) (c_taint (b_cache b))
                                      else c_taint (b_cache b);
  eo_exec    : b_exec b' = b_exec (exec_start t b);
  eo_sts     : sts b' = sts b;
  eo_stop    : b_stop b' = b_stop b;
  eo_len     : rt_len b' = rt_len b
}.

Lemma execute_ok cfg s i t key tainted b b' :
  execute cfg s i t key tainted b = (true, b') -> exec_ok cfg s t key tainted b b'.
Proof.
  unfold Build.execute. intro He.
  set (b0 := if null (td_cmd t) then b else add_exec b (td_label t)) in *.
  assert (Hw0 : b_world b0 = b_world b) by (unfold b0; destruct (null (td_cmd t)); reflexivity).
  assert (Hc0 : b_cache b0 = b_cache b) by (unfold b0; destruct (null (td_cmd t)); reflexivity).
  assert (Hs0 : sts b0 = sts b) by (unfold b0; destruct (null (td_cmd t)); reflexivity).
  assert (Hp0 : b_stop b0 = b_stop b) by (unfold b0; destruct (null (td_cmd t)); reflexivity).
  assert (Hl0 : rt_len b0 = rt_len b) by (unfold b0; destruct (null (td_cmd t)); reflexivity).
  destruct (if null (td_cmd t) then Some (b_world b0) else run_command s t (b_world b0)) as [w'|] eqn:Er;
    [|discriminate].
  destruct (negb (check_ok w' t)) eqn:Ec; [discriminate|].
  apply negb_false_iff in Ec.
  destruct (Build.on_complete H cfg i t key (set_world b0 w')) as [b2|] eqn:Eo; [|discriminate].
  apply on_complete_spec in Eo as (ds & res & cas' & Hd & Hw & Hx & Hst & Hss & Hca & Hlen).
  autorewrite with bst in *.
  assert (Hb' : b_world b' = w' /\ b_exec b' = b_exec b0 /\ b_stop b' = b_stop b /\ sts b' = sts b /\
                rt_len b' = rt_len b /\
                (if cfg_cache cfg then c_results (b_cache b') = results_set key res (c_results (b_cache b))
                 else c_results (b_cache b') = c_results (b_cache b) /\ c_cas (b_cache b') = c_cas (b_cache b)) /\
                (tainted = true -> label_in (td_label t) (c_taint (b_cache b')) = false) /\
                c_taint (b_cache b') = (if tainted then label_remove (td_label t) (c_taint (b_cache b))
                                        else c_taint (b_cache b))).
  { rewrite sts_set_world in Hss.
    destruct tainted; inversion He; subst b'; clear He.
    - rewrite sts_set_cache. autorewrite with bst.
      rewrite Hw, Hx, Hst, Hss, Hlen, Hca, Hc0, Hs0, Hp0, Hl0.
      destruct (cfg_cache cfg); cbn [c_results c_cas c_taint];
        repeat split; try reflexivity; intros _; apply label_in_remove.
    - rewrite Hw, Hx, Hst, Hss, Hlen, Hca, Hc0, Hs0, Hp0, Hl0.
      destruct (cfg_cache cfg); cbn [c_results c_cas c_taint];
        repeat split; try reflexivity; intros ?; discriminate. }
  destruct Hb' as (Bw & Bx & Bs & Bt & Bl & Br & Btn & Bts).
  constructor.
  - rewrite Bw. destruct (null (td_cmd t)) eqn:En.
    + inversion Er. rewrite Hw0. reflexivity.
    + rewrite Hw0 in Er. exact Er.
  - rewrite Bw. exact Ec.
  - rewrite Bw. eapply present_digests_some. exact Hd.
  - destruct (cfg_cache cfg); [exists res; rewrite Br; apply rlookup_set_same | exact Br].
  - intros k Hk. destruct (cfg_cache cfg); [rewrite Br; apply rlookup_set_other; congruence|].
    destruct Br as [Br _]. rewrite Br. reflexivity.
  - exact Btn.
  - exact Bts.
  - exact Bx.
  - exact Bt.
  - exact Bs.
  - exact Bl.
Qed.

(* ================================================================== Registry.LoadOutputs *)
Lemma load_outputs_frame i t r b ok b' :
  load_outputs H i t r b = (ok, b') ->
  b_cache b' = b_cache b /\ b_exec b' = b_exec b /\ b_stop b' = b_stop b /\ sts b' = sts b /\ rt_len b' = rt_len b /\
  w_ext (b_world b') = w_ext (b_world b).
Proof.
  unfold load_outputs. intro Hl.
  destruct (rt_loaded (get_rt b i)); [inversion Hl; subst; repeat split; reflexivity|].
  destruct (negb (outputs_match t r)); [inversion Hl; subst; repeat split; reflexivity|].
  destruct (load_all H (b_cache b) t (r_outs r) (w_ws (b_world b))) as [ok' ws'] eqn:El.
  destruct ok'; inversion Hl; subst ok b'; clear Hl.
  - autorewrite with bst. repeat split; try reflexivity.
    rewrite sts_set_rt_keep; reflexivity.
  - repeat split; reflexivity.
Qed.

(* ================================================================== the task of one target, mode "all" *)
Definition key_of (s : sources) (t : tdef) (dh : list str) : str :=
  change_key H (pkg_fs s t) (state_of t dh).

(* b with the change hash of node i recorded *)
Definition with_key (b : bstate) (i : nat) (key : str) : bstate :=
  let x := get_rt b i in set_rt b i (mkRt (Some key) (rt_ohash x) (rt_loaded x) (rt_status x)).

Lemma with_key_frame b i key :
  b_world (with_key b i key) = b_world b /\ b_cache (with_key b i key) = b_cache b /\
  b_exec (with_key b i key) = b_exec b /\ b_stop (with_key b i key) = b_stop b /\
  sts (with_key b i key) = sts b /\ rt_len (with_key b i key) = rt_len b.
Proof.
  unfold with_key. autorewrite with bst. repeat split; try reflexivity.
  apply sts_set_rt_keep. reflexivity.
Qed.

Inductive task_outcome (cfg : config) (s : sources) (i : nat) (t : tdef) (b b' : bstate) : Prop :=
| TO_nohash :                       (* a dependency has no output hash: the task fails before anything happens *)
    dep_hashes s b (td_deps t) = None ->
    b' = mark b i TFailed -> task_outcome cfg s i t b b'
| TO_hit : forall dh res b1,         (* served from the cache *)
    dep_hashes s b (td_deps t) = Some dh ->
    rlookup (key_of s t dh) (c_results (b_cache b)) = Some res ->
    label_in (td_label t) (c_taint (b_cache b)) = false ->
    td_nocache t = false -> cfg_cache cfg = true -> check_ok (b_world b) t = true ->
    b_cache b1 = b_cache b -> b_exec b1 = b_exec b -> b_stop b1 = b_stop b -> sts b1 = sts b -> rt_len b1 = rt_len b ->
    w_ext (b_world b1) = w_ext (b_world b) ->
    b' = mark b1 i THit -> task_outcome cfg s i t b b'
| TO_exec_ok : forall dh b1 b3,      (* executed successfully *)
    dep_hashes s b (td_deps t) = Some dh ->
    b_cache b1 = b_cache b -> b_exec b1 = b_exec b -> sts b1 = sts b -> w_ext (b_world b1) = w_ext (b_world b) ->
    exec_ok cfg s t (key_of s t dh) (label_in (td_label t) (c_taint (b_cache b))) b1 b3 ->
    b' = mark b3 i TExecuted -> task_outcome cfg s i t b b'
| TO_exec_fail : forall dh b1 b3,    (* executed and failed: nothing is stored *)
    dep_hashes s b (td_deps t) = Some dh ->
    b_cache b1 = b_cache b -> b_exec b1 = b_exec b -> sts b1 = sts b -> w_ext (b_world b1) = w_ext (b_world b) ->
    b_cache b3 = b_cache b1 -> sts b3 = sts b1 -> b_exec b3 = b_exec (exec_start t b1) ->
    ext_frame t (b_world b1) (b_world b3) ->
    b' = mark b3 i TFailed -> task_outcome cfg s i t b b'.

Lemma process_target_all cfg s i t b :
  cfg_mode cfg = LAll ->
  task_outcome cfg s i t b (process_target cfg s i t b).
Proof.
  intro Hm. unfold Build.process_target.
  destruct (dep_hashes s b (td_deps t)) as [dh|] eqn:Edh; [|apply TO_nohash; auto].
  fold (key_of s t dh). fold (with_key b i (key_of s t dh)).
  set (key := key_of s t dh). set (bk := with_key b i key).
  destruct (with_key_frame b i key) as (Kw & Kc & Kx & Ks & Kt & Kl). fold bk in Kw, Kc, Kx, Ks, Kt, Kl.
  rewrite Kc.
  rewrite Hm.
  (* the hit attempt *)
  match goal with
  | |- task_outcome _ _ _ _ _ (let '(hit, b1) := ?X in _) => destruct X as [hit b1] eqn:Eh
  end.
  destruct hit.
  - (* hit *)
    destruct (rlookup key (c_results (b_cache b))) as [res|] eqn:Er; [|inversion Eh].
    destruct (negb (label_in (td_label t) (c_taint (b_cache b))) && negb (td_nocache t) && cfg_cache cfg &&
              check_ok (b_world bk) t) eqn:Eg; [|inversion Eh].
    apply andb_true_iff in Eg as [Eg Eg4]. apply andb_true_iff in Eg as [Eg Eg3].
    apply andb_true_iff in Eg as [Eg1 Eg2].
    apply negb_true_iff in Eg1. apply negb_true_iff in Eg2.
    apply load_outputs_frame in Eh as (L1 & L2 & L3 & L4 & L5 & L6).
    rewrite Kw in Eg4.
    eapply TO_hit with (dh := dh) (res := res) (b1 := b1); eauto; try congruence.
  - (* no hit: execute (mode all: no dependency loading) *)
    assert (Hb1 : b_cache b1 = b_cache b /\ b_exec b1 = b_exec b /\ sts b1 = sts b /\ w_ext (b_world b1) = w_ext (b_world b)).
    { destruct (rlookup key (c_results (b_cache b))) as [res|] eqn:Er.
      - destruct (negb (label_in (td_label t) (c_taint (b_cache b))) && negb (td_nocache t) && cfg_cache cfg &&
                  check_ok (b_world bk) t) eqn:Eg.
        + apply load_outputs_frame in Eh as (L1 & L2 & L3 & L4 & L5 & L6). repeat split; congruence.
        + inversion Eh; subst b1. repeat split; try assumption.
      - inversion Eh; subst b1. repeat split; try assumption. }
    destruct Hb1 as (C1 & X1 & S1 & E1).
    cbn [negb].
    destruct (Build.execute H cfg s i t key (label_in (td_label t) (c_taint (b_cache b))) b1) as [ok b3] eqn:Ee.
    destruct ok.
    + apply execute_ok in Ee. eapply TO_exec_ok with (dh := dh) (b1 := b1) (b3 := b3); eauto.
    + apply execute_fail in Ee as (F1 & F2 & F3 & F4 & F5 & F6).
      eapply TO_exec_fail with (dh := dh) (b1 := b1) (b3 := b3); eauto.
Qed.

(* ================================================================== reading the outcome off the final state *)
Definition status_of (b : bstate) (i : nat) : tstatus := nth i (sts b) TNone.

Lemma status_of_get_rt b i : status_of b i = rt_status (get_rt b i).
Proof. apply nth_sts. Qed.

Lemma status_list_set l i st : i < length l -> nth i (list_set i st l) TNone = st.
Proof. apply nth_list_set_same. Qed.

Lemma status_list_set_other l i j (st : tstatus) : i <> j -> nth j (list_set i st l) TNone = nth j l TNone.
Proof. apply nth_list_set_other. Qed.

(* the facts that hold when the task ends as a cache hit *)
Record hit_facts (cfg : config) (s : sources) (t : tdef) (b b' : bstate) : Prop := {
  hf_result  : exists dh res, dep_hashes s b (td_deps t) = Some dh /\
               rlookup (key_of s t dh) (c_results (b_cache b)) = Some res;
  hf_taint   : label_in (td_label t) (c_taint (b_cache b)) = false;
  hf_nocache : td_nocache t = false;
  hf_cache   : cfg_cache cfg = true;
  hf_check   : check_ok (b_world b) t = true;
  hf_same    : b_cache b' = b_cache b;                 (* a hit writes nothing *)
  hf_exec    : b_exec b' = b_exec b;                   (* and runs nothing *)
  hf_ext     : w_ext (b_world b') = w_ext (b_world b)
}.

(* ... when it ends as executed *)
Record executed_facts (cfg : config) (s : sources) (t : tdef) (b b' : bstate) : Prop := {
  ef_ok : exists dh b1, dep_hashes s b (td_deps t) = Some dh /\
          b_cache b1 = b_cache b /\ b_exec b1 = b_exec b /\
          exec_ok cfg s t (key_of s t dh) (label_in (td_label t) (c_taint (b_cache b))) b1 b'
}.

(* ... when it ends as failed *)
Record failed_facts (t : tdef) (b b' : bstate) : Prop := {
  ff_cache : b_cache b' = b_cache b;                   (* nothing is stored, nothing is removed *)
  ff_exec  : b_exec b' = b_exec b \/ b_exec b' = b_exec b ++ [td_label t];
  ff_ext   : ext_frame t (b_world b) (b_world b')
}.

Lemma task_cases cfg s i t b b' :
  task_outcome cfg s i t b b' -> i < rt_len b ->
  sts b' = list_set i (status_of b' i) (sts b) /\
  ((status_of b' i = TFailed /\ failed_facts t b b') \/
   (status_of b' i = THit /\ hit_facts cfg s t b b') \/
   (status_of b' i = TExecuted /\
    exists dh b1 b3, dep_hashes s b (td_deps t) = Some dh /\ b_cache b1 = b_cache b /\ b_exec b1 = b_exec b /\
                     w_ext (b_world b1) = w_ext (b_world b) /\
                     exec_ok cfg s t (key_of s t dh) (label_in (td_label t) (c_taint (b_cache b))) b1 b3 /\
                     b' = mark b3 i TExecuted)).
Proof.
  intros Ho Hi. rewrite <- sts_length in Hi. unfold status_of.
  destruct Ho as [Hd ->|dh res b1 Hd Hr Ht Hn Hc Hk C1 X1 P1 S1 L1 E1 ->|dh b1 b3 Hd C1 X1 S1 E1 Hok ->|dh b1 b3 Hd C1 X1 S1 E1 C3 S3 X3 E3 ->].
  - rewrite sts_mark, status_list_set by exact Hi. split; [reflexivity|]. left. split; [reflexivity|].
    constructor; autorewrite with bst; auto. apply ext_frame_refl.
  - rewrite sts_mark, S1, status_list_set by exact Hi. split; [reflexivity|]. right; left. split; [reflexivity|].
    constructor; autorewrite with bst; eauto.
  - pose proof (eo_sts _ _ _ _ _ _ _ Hok) as S3.
    rewrite sts_mark, S3, S1, status_list_set by exact Hi. split; [reflexivity|]. right; right. split; [reflexivity|].
    exists dh, b1, b3. split; [exact Hd|]. split; [exact C1|]. split; [exact X1|]. split; [exact E1|].
    split; [exact Hok | reflexivity].
  - rewrite sts_mark, S3, S1, status_list_set by exact Hi. split; [reflexivity|]. left. split; [reflexivity|].
    constructor; autorewrite with bst; [congruence| |].
    + rewrite X3. unfold exec_start. destruct (null (td_cmd t)); [left; exact X1 | right].
      rewrite b_exec_add_exec, X1. reflexivity.
    + eapply ext_frame_trans; [apply ext_frame_eq; exact E1 | exact E3].
Qed.

(* ================================================================== one node of the walk *)
Definition stopped (b : bstate) : bstate := mkB (b_world b) (b_cache b) (b_rt b) (b_exec b) true.

Lemma process_node_cases cfg s sel b j :
  let b' := process_node cfg s sel b j in
  b' = b \/
  (exists st, b' = mark b j st /\
              (st = TSkipped \/ (st = THit /\ exists l a, node_at s j = Some (NAlias l a)))) \/
  (exists t, node_at s j = Some (NTarget t) /\ existsb (Nat.eqb j) sel = true /\ b_stop b = false /\
             forallb (dep_ok b) (td_deps t) = true /\
             (b' = process_target cfg s j t b \/
              (b' = stopped (process_target cfg s j t b) /\
               rt_status (get_rt (process_target cfg s j t b) j) = TFailed))).
Proof.
  cbv zeta. unfold Build.process_node.
  destruct (existsb (Nat.eqb j) sel) eqn:Es; cbn [negb]; [|left; reflexivity].
  destruct (b_stop b) eqn:Ep; [right; left; exists TSkipped; auto|].
  destruct (node_at s j) as [n|] eqn:En; [|left; reflexivity].
  destruct (forallb (dep_ok b) (node_deps n)) eqn:Ed; cbn [negb]; [|right; left; exists TSkipped; auto].
  destruct n as [t|l a].
  - right; right. exists t. repeat split; auto.
    destruct (rt_status (get_rt (Build.process_target H cfg s j t b) j)) eqn:Est; auto.
    destruct (cfg_failfast cfg); auto.
  - right; left. exists THit. split; [reflexivity|]. right. split; [reflexivity|]. eauto.
Qed.

End Single.
