(* Lock_proofs.v -- proofs about the workspace-lock model Lock.v (property C10).

   Invariants of the guarded relation (DESIGN 5.C10), with owns p i := pc p = Held i:
     J    owns p i -> lock = Some i
     J'   owns p i -> owns q i -> p = q
     Jf   every inode that is linked, or remembered in a WantRemove / WantProbe, is < next
     K    content i = Some q -> owns r i -> r = q
     H    pc p = Held i -> content i = Some p            (needed for the Read-of-blank case)
     J3   pc p = WantRemove (Some ex) -> nobody owns ex
     J3p  pc p = WantProbe ex q -> owns r ex -> r = q    (J3 for the split Read/Probe step)
   Ownership is only ever acquired by creating a fresh inode, so J3/J3p are stable.
   Since the repair of C10-F1 the lock file is created with its content (one step from Idle to
   Held): H makes a blank inode unowned, so a Read needs no guard any more. *)
From Coq Require Import Arith Bool List Lia.
From Grog Require Import Lock.
Import ListNotations.

Record Inv (s : state) : Prop := mkInv {
  iJ   : forall p i, owns s p i -> lock s = Some i;
  iJ'  : forall p q i, owns s p i -> owns s q i -> p = q;
  iFl  : forall i, lock s = Some i -> i < next s;
  iFr  : forall p i, pcs s p = WantRemove (Some i) -> i < next s;
  iFp  : forall p i q, pcs s p = WantProbe i q -> i < next s;
  iK   : forall i q r, content s i = Some q -> owns s r i -> r = q;
  iH   : forall p i, pcs s p = Held i -> content s i = Some p;
  iJ3  : forall p ex, pcs s p = WantRemove (Some ex) -> forall q, ~ owns s q ex;
  iJ3p : forall p ex q, pcs s p = WantProbe ex q -> forall r, owns s r ex -> r = q }.

Ltac split_eqb :=
  repeat match goal with
  | H : context[Nat.eqb ?a ?b] |- _ => destruct (Nat.eqb_spec a b); subst; simpl in H
  | |- context[Nat.eqb ?a ?b] => destruct (Nat.eqb_spec a b); subst; simpl
  end.

Ltac have P tac := lazymatch goal with | _ : P |- _ => fail | _ => assert P by tac end.

Ltac clean :=
  repeat match goal with
  | H : Some _ = Some _ |- _ => inversion H; subst; clear H
  | H : Some _ = None |- _ => discriminate H
  | H : None = Some _ |- _ => discriminate H
  | H : ?x = ?x |- _ => clear H
  | H : ?a <> ?a |- _ => exfalso; apply H; reflexivity
  | H : @eq pc ?a ?b |- _ =>
      lazymatch a with pcs _ _ => fail | _ => idtac end;
      lazymatch b with pcs _ _ => fail | _ => idtac end;
      inversion H; subst; clear H
  end.

(* forward chaining of the invariant fields over the atoms in the context *)
Ltac fwd1 :=
  match goal with
  | H : pcs ?s ?p = Held ?i |- _ => have (owner_of (pcs s p) = Some i) ltac:(rewrite H; reflexivity)
  | HJ : (forall p i, owner_of (pcs ?s p) = Some i -> lock ?s = Some i),
    H : owner_of (pcs ?s ?p) = Some ?i |- _ => have (lock s = Some i) ltac:(exact (HJ p i H))
  | HJ' : (forall p q i, owner_of (pcs ?s p) = Some i -> owner_of (pcs ?s q) = Some i -> p = q),
    H1 : owner_of (pcs ?s ?p) = Some ?i, H2 : owner_of (pcs ?s ?q) = Some ?i |- _ =>
      lazymatch p with q => fail | _ => have (p = q) ltac:(exact (HJ' p q i H1 H2)) end
  | H1 : lock ?s = Some ?i, H2 : lock ?s = Some ?j |- _ =>
      lazymatch i with j => fail | _ => have (i = j) ltac:(congruence) end
  | HFl : (forall i, lock ?s = Some i -> i < next ?s), H : lock ?s = Some ?i |- _ =>
      have (i < next s) ltac:(exact (HFl i H))
  | HFr : (forall p i, pcs ?s p = WantRemove (Some i) -> i < next ?s), H : pcs ?s ?p = WantRemove (Some ?i) |- _ =>
      have (i < next s) ltac:(exact (HFr p i H))
  | HFp : (forall p i q, pcs ?s p = WantProbe i q -> i < next ?s), H : pcs ?s ?p = WantProbe ?i ?q |- _ =>
      have (i < next s) ltac:(exact (HFp p i q H))
  | HK : (forall i q r, content ?s i = Some q -> owner_of (pcs ?s r) = Some i -> r = q),
    H1 : content ?s ?i = Some ?q, H2 : owner_of (pcs ?s ?r) = Some ?i |- _ =>
      lazymatch r with q => fail | _ => have (r = q) ltac:(exact (HK i q r H1 H2)) end
  | HH : (forall p i, pcs ?s p = Held i -> content ?s i = Some p), H : pcs ?s ?p = Held ?i |- _ =>
      have (content s i = Some p) ltac:(exact (HH p i H))
  | HJ3 : (forall p ex, pcs ?s p = WantRemove (Some ex) -> forall q, owner_of (pcs ?s q) <> Some ex),
    H1 : pcs ?s ?p = WantRemove (Some ?ex), H2 : owner_of (pcs ?s ?q) = Some ?ex |- _ =>
      exfalso; exact (HJ3 p ex H1 q H2)
  | HJ3p : (forall p ex q, pcs ?s p = WantProbe ex q -> forall r, owner_of (pcs ?s r) = Some ex -> r = q),
    H1 : pcs ?s ?p = WantProbe ?ex ?q, H2 : owner_of (pcs ?s ?r) = Some ?ex |- _ =>
      lazymatch r with q => fail | _ => have (r = q) ltac:(exact (HJ3p p ex q H1 r H2)) end
  end.

Ltac fwd := repeat (fwd1; clean; subst).

Ltac crush :=
  unfold owns, set_pc, upd in *; simpl in *; split_eqb; clean; fwd;
  try congruence; try lia; eauto;
  try (solve [intro; clean; fwd; (congruence || lia)]).

Ltac dinv HI := destruct HI as [HJ HJ' HFl HFr HFp HK HH HJ3 HJ3p].

Lemma inv_trycreate : forall s p s', Inv s -> step s (TryCreate p) = Some s' -> Inv s'.
Proof.
  intros s p s' HI Hs.
  unfold step in Hs. destruct (pcs s p) eqn:Ep; try discriminate.
  destruct (lock s) eqn:El; inversion Hs; subst; clear Hs; dinv HI.
  - constructor; intros; crush.
  - constructor; intros; crush.
Qed.

(* a blank inode is owned by nobody (H): no guard is needed *)
Lemma inv_read : forall s p s', Inv s -> step s (Read p) = Some s' -> Inv s'.
Proof.
  intros s p s' HI Hs.
  unfold step in Hs.
  destruct (pcs s p) eqn:Ep; try discriminate.
  destruct (lock s) eqn:El.
  - destruct (content s i) eqn:Ec; inversion Hs; subst; clear Hs; dinv HI.
    + constructor; intros; crush.
    + constructor; intros; crush.
      intro Ho. destruct (pcs s q) eqn:Eq; simpl in Ho; clean.
      pose proof (HH _ _ Eq). congruence.
  - inversion Hs; subst; clear Hs; dinv HI. constructor; intros; crush.
Qed.

Lemma inv_probe : forall s p s', Inv s -> step s (Probe p) = Some s' -> Inv s'.
Proof.
  intros s p s' HI Hs.
  unfold step in Hs. destruct (pcs s p) eqn:Ep; try discriminate.
  destruct (alive_b s q) eqn:Ea; inversion Hs; subst; clear Hs; dinv HI.
  - constructor; intros; crush.
  - constructor; intros; crush.
    intro Ho. pose proof (HJ3p _ _ _ Ep _ Ho); subst.
    unfold alive_b in Ea. destruct (pcs s q); simpl in *; discriminate.
Qed.

Lemma inv_remove : forall s p s', Inv s -> step s (Remove p) = Some s' ->
  remove_of_unexamined_inode s (Remove p) = false -> Inv s'.
Proof.
  intros s p s' HI Hs Hg.
  unfold step in Hs. unfold remove_of_unexamined_inode in Hg.
  destruct (pcs s p) eqn:Ep; try discriminate.
  inversion Hs; subst; clear Hs.
  destruct (lock s) eqn:El; dinv HI.
  - destruct ex as [j|]; simpl in Hg; [|discriminate].
    apply negb_false_iff in Hg. apply Nat.eqb_eq in Hg. subst j.
    constructor; intros; crush.
  - constructor; intros; crush.
Qed.

Lemma inv_wake : forall s p s', Inv s -> step s (Wake p) = Some s' -> Inv s'.
Proof.
  intros s p s' HI Hs.
  unfold step in Hs. destruct (pcs s p) eqn:Ep; try discriminate.
  inversion Hs; subst; clear Hs; dinv HI.
  constructor; intros; crush.
Qed.

Lemma inv_unlock : forall s p s', Inv s -> step s (Unlock p) = Some s' -> Inv s'.
Proof.
  intros s p s' HI Hs.
  unfold step in Hs. destruct (pcs s p) eqn:Ep; try discriminate.
  inversion Hs; subst; clear Hs; dinv HI.
  constructor; intros; crush.
Qed.

Lemma inv_crash : forall s p s', Inv s -> step s (Crash p) = Some s' -> Inv s'.
Proof.
  intros s p s' HI Hs.
  unfold step in Hs.
  destruct (pcs s p) eqn:Ep; try discriminate; inversion Hs; subst; clear Hs; dinv HI;
    (constructor; intros; crush).
Qed.

(* an interrupted waiter only changes its own pc, and neither Waiting nor GaveUp occurs in Inv *)
Lemma inv_cancel : forall s p s', Inv s -> step s (Cancel p) = Some s' -> Inv s'.
Proof.
  intros s p s' HI Hs.
  unfold step in Hs. destruct (pcs s p) eqn:Ep; try discriminate.
  inversion Hs; subst; clear Hs; dinv HI.
  constructor; intros; crush.
Qed.

(* ---------------------------------------------------------------- mutual exclusion, guarded *)
Lemma inv_step : forall s e s', Inv s -> step s e = Some s' ->
  remove_of_unexamined_inode s e = false -> Inv s'.
Proof.
  intros s e s' HI Hs Hu. destruct e.
  - eapply inv_trycreate; eauto.
  - eapply inv_read; eauto.
  - eapply inv_probe; eauto.
  - eapply inv_remove; eauto.
  - eapply inv_wake; eauto.
  - eapply inv_unlock; eauto.
  - eapply inv_crash; eauto.
  - eapply inv_cancel; eauto.
Qed.

Lemma inv_init : forall s, init s -> Inv s.
Proof.
  intros s [Hp Hl].
  assert (Hno : forall p i, ~ owns s p i).
  { intros p i Ho. unfold owns in Ho. destruct (Hp p) as [E|E]; rewrite E in Ho; discriminate. }
  constructor; intros;
    try (exfalso; eapply Hno; eassumption);
    try (match goal with H : pcs s ?p = _ |- _ => destruct (Hp p) as [E|E]; rewrite E in H; discriminate end);
    auto.
Qed.

Lemma inv_reachable_g : forall s0 s, init s0 -> reachable_g s0 s -> Inv s.
Proof.
  intros s0 s Hi Hr. induction Hr.
  - apply inv_init; assumption.
  - eapply inv_step; eauto.
Qed.

Lemma inv_mutex : forall s, Inv s -> forall p q, holds s p -> holds s q -> p = q.
Proof.
  intros s HI p q [i Hp] [j Hq].
  assert (Op : owns s p i) by (unfold owns; rewrite Hp; reflexivity).
  assert (Oq : owns s q j) by (unfold owns; rewrite Hq; reflexivity).
  pose proof (iJ s HI _ _ Op) as L1. pose proof (iJ s HI _ _ Oq) as L2.
  rewrite L1 in L2. inversion L2; subst.
  eapply (iJ' s HI); eassumption.
Qed.

Theorem mutex_partial : forall s0 s, init s0 -> reachable_g s0 s ->
  forall p q, holds s p -> holds s q -> p = q.
Proof. intros s0 s Hi Hr. apply inv_mutex. eapply inv_reachable_g; eauto. Qed.

(* in guarded-reachable states the lock file is the holder's: it names the holder's inode and
   that inode contains the holder's PID *)
Lemma holder_file : forall s0 s, init s0 -> reachable_g s0 s ->
  forall h i, pcs s h = Held i -> lock s = Some i /\ content s i = Some h.
Proof.
  intros s0 s Hi Hr h i Hh. pose proof (inv_reachable_g _ _ Hi Hr) as HI. split.
  - apply (iJ s HI h). unfold owns. rewrite Hh. reflexivity.
  - apply (iH s HI). assumption.
Qed.

(* ---------------------------------------------------------------- refutation witnesses *)
Lemma run_reachable : forall evs s0 s, run s0 evs = Some s -> reachable s0 s.
Proof.
  intros evs. induction evs as [|e r IH] using rev_ind; intros s0 s Hr.
  - simpl in Hr. inversion Hr. constructor.
  - assert (Happ : forall a b s1, run s1 (a ++ b) = match run s1 a with Some s2 => run s2 b | None => None end).
    { clear. induction a as [|x a IHa]; intros b s1; simpl; [reflexivity|]. destruct (step s1 x); auto. }
    rewrite Happ in Hr. destruct (run s0 r) eqn:E; [|discriminate].
    simpl in Hr. destruct (step s1 e) eqn:Es; [|discriminate]. inversion Hr; subst.
    eapply r_step; [apply IH; eassumption | eassumption].
Qed.

Definition two_holders (s : state) : Prop := exists p q, p <> q /\ holds s p /\ holds s q.

(* does the guard fire along a schedule *)
Definition guard_fired (s : state) (evs : list event) : option bool :=
  match run_flags 0 s evs false false with
  | Some (_, u, _) => Some u
  | None => None
  end.

Lemma w1_init_ok : init w1_init.
Proof. split; [intro p; left; reflexivity | intros i H; discriminate H]. Qed.

Lemma w2_init_ok : init w2_init.
Proof.
  split.
  - intro p. unfold w2_init, mk_init. simpl. destruct (Nat.eqb p 2); simpl; auto.
  - intros i H. simpl in H. inversion H. simpl. lia.
Qed.

Lemma holds_of_b : forall s p, holds_b s p = true -> holds s p.
Proof.
  intros s p H. unfold holds_b in H. unfold holds. destruct (pcs s p); try discriminate; eauto.
Qed.

(* W2 (finding C10-F2): the one guard fires and both 0 and 1 are past Lock() *)
Theorem mutex_refuted :
  init w2_init /\ guard_fired w2_init w2_sched = Some true /\
  exists s, run w2_init w2_sched = Some s /\ reachable w2_init s /\ two_holders s.
Proof.
  split; [exact w2_init_ok|]. split; [vm_compute; reflexivity|].
  destruct (run w2_init w2_sched) as [s|] eqn:E; [|vm_compute in E; discriminate].
  exists s. split; [reflexivity|]. split; [eapply run_reachable; eassumption|].
  exists 0, 1. split; [discriminate|].
  assert (X : match run w2_init w2_sched with Some t => holds_b t 0 && holds_b t 1 | None => false end = true)
    by (vm_compute; reflexivity).
  rewrite E in X. apply andb_true_iff in X. destruct X as [H0 H1].
  split; apply holds_of_b; assumption.
Qed.

(* the unguarded statement of C10 is false of the model *)
Corollary mutex_unguarded_false :
  ~ (forall s0 s, init s0 -> reachable s0 s -> forall p q, holds s p -> holds s q -> p = q).
Proof.
  intro Hall. destruct mutex_refuted as [Hi [_ [s [_ [Hr [p [q [Hne [Hp Hq]]]]]]]]].
  apply Hne. eapply Hall; eassumption.
Qed.

(* ---------------------------------------------------------------- non-vacuity of the guarded relation *)
Fixpoint run_g (s : state) (evs : list event) : option state :=
  match evs with
  | [] => Some s
  | e :: r =>
    if guarded s e then match step s e with Some s' => run_g s' r | None => None end else None
  end.

Lemma reachable_g_prepend : forall s0 e s1 s, step s0 e = Some s1 ->
  remove_of_unexamined_inode s0 e = false ->
  reachable_g s1 s -> reachable_g s0 s.
Proof.
  intros s0 e s1 s Hs Hu Hr. induction Hr.
  - eapply rg_step; [apply rg_init | eassumption | assumption].
  - eapply rg_step; eassumption.
Qed.

Lemma run_g_reachable_g : forall evs s0 s, run_g s0 evs = Some s -> reachable_g s0 s.
Proof.
  induction evs as [|e r IH]; intros s0 s H; simpl in H.
  - inversion H. apply rg_init.
  - destruct (guarded s0 e) eqn:G; [|discriminate].
    destruct (step s0 e) as [s1|] eqn:Es; [|discriminate].
    unfold guarded in G. apply negb_true_iff in G.
    eapply reachable_g_prepend; eauto.
Qed.

(* a stale file (PID of dead process 2) is recovered by 0 while 1 contends and waits; 0 unlocks; 1 acquires *)
Definition nv_unlock_sched : list event :=
  [TryCreate 0; TryCreate 1; Read 0; Probe 0; Remove 0; TryCreate 0;
   Read 1; Probe 1; Unlock 0; Wake 1; TryCreate 1].
(* ... 0 dies while holding; 1 finds the PID dead, removes the file and acquires *)
Definition nv_crash_sched : list event :=
  [TryCreate 0; TryCreate 1; Read 0; Probe 0; Remove 0; TryCreate 0;
   Read 1; Probe 1; Crash 0; Wake 1; TryCreate 1; Read 1; Probe 1; Remove 1; TryCreate 1].

Theorem mutex_partial_nonvacuous :
  init w2_init /\
  (exists s, run_g w2_init nv_unlock_sched = Some s /\ reachable_g w2_init s /\ holds s 1 /\ pcs s 0 = Done) /\
  (exists s, run_g w2_init nv_crash_sched = Some s /\ reachable_g w2_init s /\ holds s 1 /\ pcs s 0 = Dead).
Proof.
  split; [exact w2_init_ok|]. split.
  - destruct (run_g w2_init nv_unlock_sched) as [s|] eqn:E; [|vm_compute in E; discriminate].
    exists s. split; [reflexivity|]. split; [eapply run_g_reachable_g; eassumption|].
    assert (X : match run_g w2_init nv_unlock_sched with
                | Some t => holds_b t 1 && (match pcs t 0 with Done => true | _ => false end)
                | None => false end = true) by (vm_compute; reflexivity).
    rewrite E in X. apply andb_true_iff in X. destruct X as [X1 X2].
    split; [apply holds_of_b; assumption | destruct (pcs s 0); try discriminate; reflexivity].
  - destruct (run_g w2_init nv_crash_sched) as [s|] eqn:E; [|vm_compute in E; discriminate].
    exists s. split; [reflexivity|]. split; [eapply run_g_reachable_g; eassumption|].
    assert (X : match run_g w2_init nv_crash_sched with
                | Some t => holds_b t 1 && is_dead (pcs t 0)
                | None => false end = true) by (vm_compute; reflexivity).
    rewrite E in X. apply andb_true_iff in X. destruct X as [X1 X2].
    split; [apply holds_of_b; assumption | destruct (pcs s 0); try discriminate; reflexivity].
Qed.

(* ---------------------------------------------------------------- progress (solo runs) *)
(* a step of p itself that is not its death *)
Definition own_step (p : pid) (e : event) : Prop := actor e = p /\ e <> Crash p.

(* p, scheduled alone, gets from s to a state in which it holds the lock *)
Definition acquires_alone (s : state) (p : pid) : Prop :=
  exists evs, Forall (own_step p) evs /\ exists s', run s evs = Some s' /\ holds s' p.

Definition in_loop (c : pc) : Prop :=
  c = Idle \/ c = WantRead \/ (exists i q, c = WantProbe i q) \/ (exists ex, c = WantRemove ex) \/ c = Waiting.

Definition free_or_stale (s : state) : Prop :=
  match lock s with None => True | Some i => stale s i end.

Lemma acquires_step : forall s p e s', own_step p e -> step s e = Some s' ->
  acquires_alone s' p -> acquires_alone s p.
Proof.
  intros s p e s' Ho Hs [evs [Hf [s2 [Hr Hh]]]].
  exists (e :: evs). split; [constructor; assumption|].
  exists s2. simpl. rewrite Hs. split; assumption.
Qed.

Lemma acquires_now : forall s p, holds s p -> acquires_alone s p.
Proof. intros s p H. exists []. split; [constructor|]. exists s. split; [reflexivity | assumption]. Qed.

Lemma upd_same : forall (A : Type) (f : nat -> A) k v, upd f k v k = v.
Proof. intros. unfold upd. rewrite Nat.eqb_refl. reflexivity. Qed.

Lemma upd_other : forall (A : Type) (f : nat -> A) k v x, x <> k -> upd f k v x = f x.
Proof. intros A f k v x H. unfold upd. apply Nat.eqb_neq in H. rewrite H. reflexivity. Qed.

Ltac own := split; [reflexivity | discriminate].

(* the file is absent: one call creates it with the PID in it *)
Lemma acquire_free : forall s p, pcs s p = Idle -> lock s = None -> acquires_alone s p.
Proof.
  intros s p Ep El.
  eapply acquires_step with (e := TryCreate p); [own | simpl; rewrite Ep, El; reflexivity |].
  apply acquires_now. exists (next s). simpl. apply upd_same.
Qed.

Lemma acquire_from_remove : forall s p ex, pcs s p = WantRemove ex -> acquires_alone s p.
Proof.
  intros s p ex Ep.
  eapply acquires_step with (e := Remove p); [own | simpl; rewrite Ep; reflexivity |].
  apply acquire_free; simpl; [apply upd_same | reflexivity].
Qed.

Lemma stale_set_pc : forall s p c, pcs s p <> Dead -> free_or_stale s -> free_or_stale (set_pc s p c).
Proof.
  intros s p c Hp H. unfold free_or_stale, stale in *. simpl.
  destruct (lock s) as [i|]; [|exact I].
  destruct (content s i) as [q|]; [|exact I].
  destruct (Nat.eq_dec q p) as [->|Hn]; [contradiction|].
  rewrite upd_other; assumption.
Qed.

Lemma acquire_from_read : forall s p, pcs s p = WantRead -> free_or_stale s -> acquires_alone s p.
Proof.
  intros s p Ep Hfs. unfold free_or_stale in Hfs.
  destruct (lock s) as [i|] eqn:El.
  - unfold stale in Hfs. destruct (content s i) as [q|] eqn:Ec.
    + (* a PID: probe it, it is dead *)
      assert (Hqp : q <> p) by (intro; subst; congruence).
      eapply acquires_step with (e := Read p); [own | simpl; rewrite Ep, El, Ec; reflexivity |].
      eapply acquires_step with (e := Probe p); [own | |].
      * simpl. rewrite upd_same. unfold alive_b. simpl. rewrite upd_other by assumption.
        rewrite Hfs. simpl. reflexivity.
      * eapply acquire_from_remove. simpl. apply upd_same.
    + eapply acquires_step with (e := Read p); [own | simpl; rewrite Ep, El, Ec; reflexivity |].
      eapply acquire_from_remove. simpl. apply upd_same.
  - eapply acquires_step with (e := Read p); [own | simpl; rewrite Ep, El; reflexivity |].
    eapply acquire_from_remove. simpl. apply upd_same.
Qed.

Lemma acquire_from_idle : forall s p, pcs s p = Idle -> free_or_stale s -> acquires_alone s p.
Proof.
  intros s p Ep Hfs. destruct (lock s) as [i|] eqn:El.
  - eapply acquires_step with (e := TryCreate p); [own | simpl; rewrite Ep, El; reflexivity |].
    apply acquire_from_read; [simpl; apply upd_same |].
    apply stale_set_pc; [congruence | assumption].
  - apply acquire_free; assumption.
Qed.

Lemma acquire_from_waiting : forall s p, pcs s p = Waiting -> free_or_stale s -> acquires_alone s p.
Proof.
  intros s p Ep Hfs.
  eapply acquires_step with (e := Wake p); [own | simpl; rewrite Ep; reflexivity |].
  apply acquire_from_idle; [simpl; apply upd_same |].
  apply stale_set_pc; [congruence | assumption].
Qed.

(* solo progress from anywhere in the acquisition loop, as soon as the file is absent or stale *)
Theorem solo_progress : forall s p, in_loop (pcs s p) -> free_or_stale s -> acquires_alone s p.
Proof.
  intros s p Hl Hfs. destruct Hl as [E|[E|[[i [q E]]|[[ex E]|E]]]].
  - apply acquire_from_idle; assumption.
  - apply acquire_from_read; assumption.
  - destruct (alive_b s q) eqn:Ea.
    + eapply acquires_step with (e := Probe p); [own | simpl; rewrite E, Ea; reflexivity |].
      apply acquire_from_waiting; [simpl; apply upd_same |].
      apply stale_set_pc; [congruence | assumption].
    + eapply acquires_step with (e := Probe p); [own | simpl; rewrite E, Ea; reflexivity |].
      eapply acquire_from_remove. simpl. apply upd_same.
  - eapply acquire_from_remove; eassumption.
  - apply acquire_from_waiting; assumption.
Qed.

(* a lock file left behind by a dead process (or garbage) never blocks a new build *)
Theorem stale_recovered : forall s p i,
  lock s = Some i -> stale s i -> pcs s p = Idle -> acquires_alone s p.
Proof.
  intros s p i El Hst Ep. apply acquire_from_idle; [assumption|].
  unfold free_or_stale. rewrite El. assumption.
Qed.

(* after Unlock or Crash of the holder, a contender anywhere in its loop, run alone, acquires *)
Theorem waiter_proceeds : forall s h w i s1,
  pcs s h = Held i -> lock s = Some i -> content s i = Some h -> in_loop (pcs s w) ->
  (step s (Unlock h) = Some s1 \/ step s (Crash h) = Some s1) ->
  acquires_alone s1 w.
Proof.
  intros s h w i s1 Eh El Ec Hw Hs.
  assert (Hne : w <> h).
  { intro; subst. rewrite Eh in Hw. destruct Hw as [E|[E|[[? [? E]]|[[? E]|E]]]]; discriminate. }
  destruct Hs as [Hs|Hs]; simpl in Hs; rewrite Eh in Hs; inversion Hs; subst; clear Hs.
  - apply solo_progress; simpl; [rewrite upd_other by assumption; assumption|].
    unfold free_or_stale. simpl. exact I.
  - apply solo_progress; simpl; [rewrite upd_other by assumption; assumption|].
    unfold free_or_stale, stale. simpl. rewrite El, Ec. apply upd_same.
Qed.

(* the same for every state the guarded relation can reach: the lock file is then the holder's *)
Theorem waiter_proceeds_reachable : forall s0 s h w s1,
  init s0 -> reachable_g s0 s -> holds s h -> in_loop (pcs s w) ->
  (step s (Unlock h) = Some s1 \/ step s (Crash h) = Some s1) ->
  acquires_alone s1 w.
Proof.
  intros s0 s h w s1 Hi Hr [i Eh] Hw Hs.
  destruct (holder_file _ _ Hi Hr _ _ Eh) as [El Ec].
  eapply waiter_proceeds; eassumption.
Qed.

(* C18-style: a build that exits without unlocking (cmds/build.go: every os.Exit(1) after Lock)
   is Crash of the holder; the next build, started afterwards, acquires the lock *)
Theorem exit_without_unlock_recoverable : forall s0 s h s1 p,
  init s0 -> reachable_g s0 s -> holds s h -> step s (Crash h) = Some s1 ->
  pcs s1 p = Idle -> acquires_alone s1 p.
Proof.
  intros s0 s h s1 p Hi Hr Hh Hs Ep.
  assert (Hph : p <> h).
  { intro; subst. destruct Hh as [i Eh]. simpl in Hs. rewrite Eh in Hs. inversion Hs; subst.
    simpl in Ep. rewrite upd_same in Ep. discriminate. }
  eapply waiter_proceeds_reachable with (w := p); eauto.
  left. destruct Hh as [i Eh]. simpl in Hs. rewrite Eh in Hs. inversion Hs; subst.
  simpl in Ep. rewrite upd_other in Ep by assumption. assumption.
Qed.

(* the hypotheses of the progress theorems are satisfiable: W2's initial state is stale *)
Example stale_recovered_nonvacuous :
  lock w2_init = Some 0 /\ stale w2_init 0 /\ pcs w2_init 0 = Idle /\ acquires_alone w2_init 0.
Proof.
  assert (A : lock w2_init = Some 0) by reflexivity.
  assert (B : stale w2_init 0) by (unfold stale; simpl; reflexivity).
  assert (C : pcs w2_init 0 = Idle) by reflexivity.
  repeat split; try assumption. eapply stale_recovered; eassumption.
Qed.

(* ---------------------------------------------------------------- cancellation of a waiter *)
(* [Cancel p]: ctx.Done() wins the select in Lock (workspace_locker.go, end of the loop). *)

(* an interrupted waiter changes nothing but its own pc *)
Theorem cancel_frame : forall s p s', step s (Cancel p) = Some s' ->
  pcs s p = Waiting /\
  lock s' = lock s /\ (forall i, content s' i = content s i) /\
  (forall i, creator s' i = creator s i) /\ next s' = next s /\
  (forall q, q <> p -> pcs s' q = pcs s q) /\ pcs s' p = GaveUp.
Proof.
  intros s p s' Hs. simpl in Hs. destruct (pcs s p) eqn:Ep; try discriminate.
  inversion Hs; subst; clear Hs. simpl.
  repeat split; try reflexivity.
  - intros q Hq. apply upd_other. assumption.
  - apply upd_same.
Qed.

(* a step only changes the pc of its actor *)
Lemma step_other : forall s e s' q, step s e = Some s' -> q <> actor e -> pcs s' q = pcs s q.
Proof.
  intros s e s' q Hs Hq.
  destruct e as [p|p|p|p|p|p|p|p]; simpl in Hs, Hq;
    destruct (pcs s p) eqn:Ep; try discriminate;
    repeat match type of Hs with
           | context[match ?x with _ => _ end] => destruct x
           end;
    try discriminate; inversion Hs; subst; simpl; apply upd_other; assumption.
Qed.

(* the pcs of a contender t that finds the live holder h's file (inode i) at the path *)
Definition blocked_pc (i : inode) (h : pid) (c : pc) : Prop :=
  c = Idle \/ c = WantRead \/ c = WantProbe i h \/ c = Waiting \/ c = GaveUp.

Lemma blocked_not_held : forall i h c, blocked_pc i h c -> forall j, c <> Held j.
Proof. intros i h c [E|[E|[E|[E|E]]]] j; rewrite E; discriminate. Qed.

(* h holds, its file is at the path with its PID in it: a step of another contender t itself
   (anything but its death) keeps all that and keeps t in [blocked_pc] *)
Lemma blocked_step : forall s h i t e s',
  pcs s h = Held i -> lock s = Some i -> content s i = Some h -> t <> h ->
  blocked_pc i h (pcs s t) -> own_step t e -> step s e = Some s' ->
  pcs s' h = Held i /\ lock s' = Some i /\ content s' i = Some h /\ blocked_pc i h (pcs s' t).
Proof.
  intros s h i t e s' Hh Hl Hc Hne Hb [Ha Hnc] Hs.
  assert (Hne' : h <> t) by (intro; apply Hne; symmetry; assumption).
  destruct e as [p|p|p|p|p|p|p|p]; simpl in Ha; subst p;
    try (exfalso; apply Hnc; reflexivity); simpl in Hs;
    destruct Hb as [E|[E|[E|[E|E]]]]; rewrite E in Hs; try discriminate.
  - (* TryCreate at Idle: EEXIST *)
    rewrite Hl in Hs. inversion Hs; subst; clear Hs. simpl.
    rewrite upd_same, upd_other by assumption. unfold blocked_pc. repeat split; auto 7.
  - (* Read at WantRead: h's PID *)
    rewrite Hl, Hc in Hs. inversion Hs; subst; clear Hs. simpl.
    rewrite upd_same, upd_other by assumption. unfold blocked_pc. repeat split; auto 7.
  - (* Probe: h is alive *)
    inversion E; subst. unfold alive_b in Hs. rewrite Hh in Hs. simpl in Hs.
    inversion Hs; subst; clear Hs. simpl.
    rewrite upd_same, upd_other by assumption. unfold blocked_pc. repeat split; auto 7.
  - (* Wake *)
    inversion Hs; subst; clear Hs. simpl.
    rewrite upd_same, upd_other by assumption. unfold blocked_pc. repeat split; auto 7.
  - (* Cancel *)
    inversion Hs; subst; clear Hs. simpl.
    rewrite upd_same, upd_other by assumption. unfold blocked_pc. repeat split; auto 7.
Qed.

Lemma blocked_run : forall evs s h i t s',
  pcs s h = Held i -> lock s = Some i -> content s i = Some h -> t <> h ->
  blocked_pc i h (pcs s t) -> Forall (own_step t) evs -> run s evs = Some s' ->
  pcs s' h = Held i /\ lock s' = Some i /\ content s' i = Some h /\ blocked_pc i h (pcs s' t).
Proof.
  induction evs as [|e r IH]; intros s h i t s' Hh Hl Hc Hne Hb Hf Hr; simpl in Hr.
  - inversion Hr; subst. auto.
  - inversion Hf as [|e' r' Ho Hf']; subst.
    destruct (step s e) as [s1|] eqn:Es; [|discriminate].
    destruct (blocked_step _ _ _ _ _ _ Hh Hl Hc Hne Hb Ho Es) as [Hh1 [Hl1 [Hc1 Hb1]]].
    eapply IH; eassumption.
Qed.

(* ... and t, run alone from the top of its loop, is Waiting after three calls *)
Lemma blocked_reaches_waiting : forall s h i t,
  pcs s h = Held i -> lock s = Some i -> content s i = Some h -> t <> h -> pcs s t = Idle ->
  exists s2, run s [TryCreate t; Read t; Probe t] = Some s2 /\ pcs s2 t = Waiting.
Proof.
  intros s h i t Hh Hl Hc Hne Ep.
  assert (Hne' : h <> t) by (intro; apply Hne; symmetry; assumption).
  assert (Hq : Nat.eqb h t = false) by (apply Nat.eqb_neq; assumption).
  assert (S1 : step s (TryCreate t) = Some (set_pc s t WantRead))
    by (simpl; rewrite Ep, Hl; reflexivity).
  set (s1 := set_pc s t WantRead) in *.
  assert (S2 : step s1 (Read t) = Some (set_pc s1 t (WantProbe i h)))
    by (unfold s1; simpl; rewrite upd_same, Hl, Hc; reflexivity).
  set (s2 := set_pc s1 t (WantProbe i h)) in *.
  assert (S3 : step s2 (Probe t) = Some (set_pc s2 t Waiting)).
  { unfold s2, s1. simpl. rewrite upd_same. unfold alive_b. simpl. unfold upd. rewrite Hq, Hh.
    reflexivity. }
  exists (set_pc s2 t Waiting). split.
  - cbn [run]. rewrite S1, S2, S3. reflexivity.
  - simpl. apply upd_same.
Qed.

(* Mutual exclusion survives the cancellation of a waiter: in a state of the guarded relation in
   which h holds, after [Cancel w] the state is still in the guarded relation, h still holds, the
   path still names h's inode and that inode still contains h's PID; every further contender t,
   run alone from the top of its loop, is Waiting after three calls and never gets past Lock()
   -- and never disturbs h's file -- however long it runs. *)
Theorem cancel_keeps_holder : forall s0 s h i w s1,
  init s0 -> reachable_g s0 s -> pcs s h = Held i -> step s (Cancel w) = Some s1 ->
  reachable_g s0 s1 /\ pcs s1 h = Held i /\ lock s1 = Some i /\ content s1 i = Some h /\
  forall t, pcs s1 t = Idle ->
    (exists s2, run s1 [TryCreate t; Read t; Probe t] = Some s2 /\ pcs s2 t = Waiting) /\
    (forall evs s2, Forall (own_step t) evs -> run s1 evs = Some s2 ->
       ~ holds s2 t /\ pcs s2 h = Held i /\ lock s2 = Some i /\ content s2 i = Some h).
Proof.
  intros s0 s h i w s1 Hi Hr Hh Hs.
  destruct (holder_file _ _ Hi Hr _ _ Hh) as [Hl Hc].
  destruct (cancel_frame _ _ _ Hs) as [Ew [Fl [Fc [_ [_ [Fo Fw]]]]]].
  assert (Hwh : h <> w) by (intro; subst; congruence).
  assert (Hh1 : pcs s1 h = Held i) by (rewrite Fo; assumption).
  assert (Hl1 : lock s1 = Some i) by (rewrite Fl; assumption).
  assert (Hc1 : content s1 i = Some h) by (rewrite Fc; assumption).
  split; [eapply rg_step; [exact Hr | exact Hs | reflexivity]|].
  split; [assumption|]. split; [assumption|]. split; [assumption|].
  intros t Et.
  assert (Hth : t <> h) by (intro; subst; congruence).
  split.
  - eapply blocked_reaches_waiting; eassumption.
  - intros evs s2 Hf Hr2.
    assert (Hb : blocked_pc i h (pcs s1 t)) by (left; assumption).
    destruct (blocked_run _ _ _ _ _ _ Hh1 Hl1 Hc1 Hth Hb Hf Hr2) as [Hh2 [Hl2 [Hc2 Hb2]]].
    split; [|auto].
    intros [j Ej]. exact (blocked_not_held _ _ _ Hb2 j Ej).
Qed.

(* after GaveUp a process has no step of its own left but its exit *)
Lemma gaveup_stuck : forall s w e, pcs s w = GaveUp -> actor e = w -> e <> Crash w -> step s e = None.
Proof.
  intros s w e Ew Ha Hnc.
  destruct e as [p|p|p|p|p|p|p|p]; simpl in Ha; subst p; simpl; rewrite Ew; try reflexivity.
  exfalso. apply Hnc. reflexivity.
Qed.

Definition gone (c : pc) : Prop := c = GaveUp \/ c = Dead.

Lemma gone_step : forall s e s' w, gone (pcs s w) -> step s e = Some s' -> gone (pcs s' w).
Proof.
  intros s e s' w Hg Hs. destruct (Nat.eq_dec w (actor e)) as [Ha|Ha].
  - destruct e as [p|p|p|p|p|p|p|p]; simpl in Ha; subst p; simpl in Hs;
      destruct Hg as [E|E]; rewrite E in Hs; try discriminate.
    inversion Hs; subst. simpl. rewrite upd_same. right. reflexivity.
  - rewrite (step_other _ _ _ _ Hs Ha). assumption.
Qed.

Lemma gone_run : forall evs s s' w, gone (pcs s w) -> run s evs = Some s' -> gone (pcs s' w).
Proof.
  induction evs as [|e r IH]; intros s s' w Hg Hr; simpl in Hr.
  - inversion Hr; subst. assumption.
  - destruct (step s e) as [s1|] eqn:Es; [|discriminate].
    eapply IH; [eapply gone_step; eassumption | eassumption].
Qed.

(* a waiter can always give up, and then it never gets past Lock(): its only remaining step is
   its exit, and no schedule whatsoever (of any processes) makes it hold *)
Theorem waiter_can_give_up : forall s w, pcs s w = Waiting ->
  exists s1, step s (Cancel w) = Some s1 /\ pcs s1 w = GaveUp /\
    (forall e, actor e = w -> e <> Crash w -> step s1 e = None) /\
    (forall evs s2, run s1 evs = Some s2 -> ~ holds s2 w).
Proof.
  intros s w Ew. exists (set_pc s w GaveUp).
  assert (Eg : pcs (set_pc s w GaveUp) w = GaveUp) by (simpl; apply upd_same).
  split; [simpl; rewrite Ew; reflexivity|]. split; [assumption|]. split.
  - intros e Ha Hnc. apply gaveup_stuck with (w := w); assumption.
  - intros evs s2 Hr [j Ej].
    assert (Hg : gone (pcs s2 w)) by (eapply gone_run; [left; exact Eg | exact Hr]).
    destruct Hg as [E|E]; rewrite E in Ej; discriminate.
Qed.

(* [Cancel] is enabled exactly at Waiting *)
Lemma cancel_enabled_iff : forall s p, (exists s', step s (Cancel p) = Some s') <-> pcs s p = Waiting.
Proof.
  intros s p. split.
  - intros [s' Hs]. simpl in Hs. destruct (pcs s p); try discriminate. reflexivity.
  - intro E. exists (set_pc s p GaveUp). simpl. rewrite E. reflexivity.
Qed.

(* ---------------------------------------------------------------- non-vacuity of the cancellation theorems *)
Definition pc_is_held_at (c : pc) (i : inode) : bool :=
  match c with Held j => Nat.eqb i j | _ => false end.
Definition pc_is_waiting (c : pc) : bool := match c with Waiting => true | _ => false end.
Definition pc_is_gaveup (c : pc) : bool := match c with GaveUp => true | _ => false end.
Definition pc_is_idle (c : pc) : bool := match c with Idle => true | _ => false end.
Definition pc_is_done (c : pc) : bool := match c with Done => true | _ => false end.

Lemma pc_is_held_at_eq : forall c i, pc_is_held_at c i = true -> c = Held i.
Proof. intros c i H. destruct c; try discriminate. simpl in H. apply Nat.eqb_eq in H. subst. reflexivity. Qed.
Lemma pc_is_waiting_eq : forall c, pc_is_waiting c = true -> c = Waiting.
Proof. intros c H. destruct c; try discriminate. reflexivity. Qed.
Lemma pc_is_gaveup_eq : forall c, pc_is_gaveup c = true -> c = GaveUp.
Proof. intros c H. destruct c; try discriminate. reflexivity. Qed.
Lemma pc_is_idle_eq : forall c, pc_is_idle c = true -> c = Idle.
Proof. intros c H. destruct c; try discriminate. reflexivity. Qed.
Lemma pc_is_done_eq : forall c, pc_is_done c = true -> c = Done.
Proof. intros c H. destruct c; try discriminate. reflexivity. Qed.

(* schedule NC (Lock.v): 0 holds, 1 waits -- the hypotheses of [cancel_keeps_holder] and
   [waiter_can_give_up] --; 1 is cancelled and 2, started afterwards, waits behind 0's intact
   file; 0 unlocks, 2 wakes up and acquires; 1 has given up for good.  No guard fires. *)
Theorem cancel_nonvacuous :
  nc_sched = [TryCreate 0; TryCreate 1; Read 1; Probe 1; Cancel 1;
              TryCreate 2; Read 2; Probe 2; Unlock 0; Wake 2; TryCreate 2] /\
  init w1_init /\
  (exists s, run_g w1_init (firstn 4 nc_sched) = Some s /\ reachable_g w1_init s /\
     pcs s 0 = Held 0 /\ pcs s 1 = Waiting /\ pcs s 2 = Idle) /\
  (exists s, run_g w1_init (firstn 8 nc_sched) = Some s /\ reachable_g w1_init s /\
     pcs s 0 = Held 0 /\ pcs s 1 = GaveUp /\ pcs s 2 = Waiting /\
     lock s = Some 0 /\ content s 0 = Some 0) /\
  (exists s, run_g w1_init nc_sched = Some s /\ reachable_g w1_init s /\
     holds s 2 /\ pcs s 1 = GaveUp /\ pcs s 0 = Done).
Proof.
  split; [reflexivity|]. split; [exact w1_init_ok|]. split; [|split].
  - destruct (run_g w1_init (firstn 4 nc_sched)) as [s|] eqn:E; [|vm_compute in E; discriminate].
    exists s. split; [reflexivity|]. split; [eapply run_g_reachable_g; eassumption|].
    assert (X : match run_g w1_init (firstn 4 nc_sched) with
                | Some t => pc_is_held_at (pcs t 0) 0 && pc_is_waiting (pcs t 1) && pc_is_idle (pcs t 2)
                | None => false end = true) by (vm_compute; reflexivity).
    rewrite E in X. apply andb_true_iff in X. destruct X as [X X3].
    apply andb_true_iff in X. destruct X as [X1 X2].
    split; [apply pc_is_held_at_eq; assumption|].
    split; [apply pc_is_waiting_eq; assumption | apply pc_is_idle_eq; assumption].
  - destruct (run_g w1_init (firstn 8 nc_sched)) as [s|] eqn:E; [|vm_compute in E; discriminate].
    exists s. split; [reflexivity|]. split; [eapply run_g_reachable_g; eassumption|].
    assert (X : match run_g w1_init (firstn 8 nc_sched) with
                | Some t => pc_is_held_at (pcs t 0) 0 && pc_is_gaveup (pcs t 1) && pc_is_waiting (pcs t 2)
                            && opt_inode_eqb (lock t) (Some 0) && opt_inode_eqb (content t 0) (Some 0)
                | None => false end = true) by (vm_compute; reflexivity).
    rewrite E in X. apply andb_true_iff in X. destruct X as [X X5].
    apply andb_true_iff in X. destruct X as [X X4]. apply andb_true_iff in X. destruct X as [X X3].
    apply andb_true_iff in X. destruct X as [X1 X2].
    split; [apply pc_is_held_at_eq; assumption|]. split; [apply pc_is_gaveup_eq; assumption|].
    split; [apply pc_is_waiting_eq; assumption|]. split.
    + destruct (lock s) as [j|]; simpl in X4; [|discriminate]. apply Nat.eqb_eq in X4. subst. reflexivity.
    + destruct (content s 0) as [j|]; simpl in X5; [|discriminate]. apply Nat.eqb_eq in X5. subst. reflexivity.
  - destruct (run_g w1_init nc_sched) as [s|] eqn:E; [|vm_compute in E; discriminate].
    exists s. split; [reflexivity|]. split; [eapply run_g_reachable_g; eassumption|].
    assert (X : match run_g w1_init nc_sched with
                | Some t => holds_b t 2 && pc_is_gaveup (pcs t 1) && pc_is_done (pcs t 0)
                | None => false end = true) by (vm_compute; reflexivity).
    rewrite E in X. apply andb_true_iff in X. destruct X as [X X3].
    apply andb_true_iff in X. destruct X as [X1 X2].
    split; [apply holds_of_b; assumption|].
    split; [apply pc_is_gaveup_eq; assumption | apply pc_is_done_eq; assumption].
Qed.

(* ---------------------------------------------------------------- the lock file names its creator *)
(* (repair of finding C10-F1) every inode a process has created carries that process's PID, from
   the step that makes it visible on: no guard, every step, every schedule *)
Definition created_named (s : state) : Prop :=
  forall i p, creator s i = Some p -> content s i = Some p.

Lemma created_named_step : forall s e s', created_named s -> step s e = Some s' -> created_named s'.
Proof.
  intros s e s' Hn Hs i r Hc.
  destruct e as [p|p|p|p|p|p|p|p]; simpl in Hs;
    destruct (pcs s p) eqn:Ep; try discriminate;
    repeat match type of Hs with
           | context[match ?x with _ => _ end] => destruct x eqn:?
           end;
    try discriminate; inversion Hs; subst; clear Hs; simpl in *; try (apply Hn; assumption).
  unfold upd in *. destruct (Nat.eqb i (next s)); [assumption | apply Hn; assumption].
Qed.

Theorem lock_file_never_empty : forall s0 s,
  created_named s0 -> reachable s0 s -> created_named s.
Proof.
  intros s0 s H0 Hr. induction Hr as [|s e s' Hr IH Hs]; [assumption|].
  eapply created_named_step; eassumption.
Qed.

Corollary lock_file_names_creator : forall s0 s,
  (forall i, creator s0 i = None) -> reachable s0 s ->
  forall i p, creator s i = Some p -> content s i = Some p.
Proof.
  intros s0 s H0. apply lock_file_never_empty. intros i p H. rewrite H0 in H. discriminate H.
Qed.

(* inodes made since the start all have a creator; what the path names is never a future inode *)
Record Fresh (s0 s : state) : Prop := mkFresh {
  fN : next s0 <= next s;
  fC : forall i, next s0 <= i -> i < next s -> exists p, creator s i = Some p;
  fL : forall i, lock s = Some i -> i < next s }.

Lemma fresh_step : forall s0 s e s', Fresh s0 s -> step s e = Some s' -> Fresh s0 s'.
Proof.
  intros s0 s e s' [HN HC HL] Hs.
  destruct e as [p|p|p|p|p|p|p|p]; simpl in Hs;
    destruct (pcs s p) eqn:Ep; try discriminate;
    repeat match type of Hs with
           | context[match ?x with _ => _ end] => destruct x eqn:?
           end;
    try discriminate; inversion Hs; subst; clear Hs;
    try (constructor; simpl; solve [assumption | intros; discriminate | intros; apply HL; congruence]).
  constructor; simpl.
  - lia.
  - intros j Hlo Hhi. unfold upd. destruct (Nat.eqb_spec j (next s)) as [->|Hne]; [eauto|].
    apply HC; lia.
  - intros j Hj. inversion Hj; subst. lia.
Qed.

Lemma fresh_reachable : forall s0 s, init s0 -> reachable s0 s -> Fresh s0 s.
Proof.
  intros s0 s [_ Hl] Hr. induction Hr as [|s e s' Hr IH Hs].
  - constructor; [lia | intros i H1 H2; lia | assumption].
  - eapply fresh_step; eassumption.
Qed.

(* a contender that reads the lock file and finds no PID in it is looking at a file that was
   there before any process started: a file created by Lock() is never seen empty *)
Theorem blank_read_is_preexisting : forall s0 s p s' i,
  init s0 -> (forall j, creator s0 j = None) -> reachable s0 s ->
  step s (Read p) = Some s' -> pcs s' p = WantRemove (Some i) ->
  lock s = Some i /\ content s i = None /\ creator s i = None /\ i < next s0.
Proof.
  intros s0 s p s' i Hi Hc0 Hr Hs Hp.
  assert (Hn : created_named s).
  { eapply lock_file_never_empty; [|exact Hr]. intros j q Hj. rewrite Hc0 in Hj. discriminate. }
  destruct (fresh_reachable _ _ Hi Hr) as [HN HC HL].
  simpl in Hs. destruct (pcs s p) eqn:Ep; try discriminate.
  destruct (lock s) as [j|] eqn:El.
  - destruct (content s j) as [q|] eqn:Ec; inversion Hs; subst; clear Hs;
      simpl in Hp; rewrite upd_same in Hp; inversion Hp; subst.
    assert (Hcr : creator s i = None).
    { destruct (creator s i) as [r|] eqn:Er; [|reflexivity]. rewrite (Hn _ _ Er) in Ec. discriminate. }
    repeat split; try assumption.
    destruct (le_lt_dec (next s0) i) as [Hge|Hlt]; [|assumption].
    destruct (HC i Hge (HL _ eq_refl)) as [r Hr']. congruence.
  - inversion Hs; subst; clear Hs. simpl in Hp. rewrite upd_same in Hp. discriminate.
Qed.

(* ---------------------------------------------------------------- W1, repaired *)
(* The schedule that used to give two holders (finding C10-F1): 0 creates, 1 finds the file and
   reads it at once.  The old continuation -- 1 removes the "empty" file -- is not a step any more;
   1 has read 0's PID, probes it and waits behind 0's intact file.  The guard does not fire, so the
   state is in the guarded relation and [mutex_partial] applies to it. *)
Theorem w1_repaired :
  w1_sched = [TryCreate 0; TryCreate 1; Read 1; Probe 1] /\
  init w1_init /\ guard_fired w1_init w1_sched = Some false /\
  run w1_init [TryCreate 0; TryCreate 1; Read 1; Remove 1] = None /\
  exists s, run_g w1_init w1_sched = Some s /\ reachable_g w1_init s /\
    pcs s 0 = Held 0 /\ pcs s 1 = Waiting /\ lock s = Some 0 /\ content s 0 = Some 0 /\
    forall p q, holds s p -> holds s q -> p = q.
Proof.
  split; [reflexivity|]. split; [exact w1_init_ok|]. split; [vm_compute; reflexivity|].
  split; [vm_compute; reflexivity|].
  destruct (run_g w1_init w1_sched) as [s|] eqn:E; [|vm_compute in E; discriminate].
  assert (Hr : reachable_g w1_init s) by (eapply run_g_reachable_g; eassumption).
  exists s. split; [reflexivity|]. split; [assumption|].
  assert (X : match run_g w1_init w1_sched with
              | Some t => pc_is_held_at (pcs t 0) 0 && pc_is_waiting (pcs t 1)
                          && opt_inode_eqb (lock t) (Some 0) && opt_inode_eqb (content t 0) (Some 0)
              | None => false end = true) by (vm_compute; reflexivity).
  rewrite E in X. apply andb_true_iff in X. destruct X as [X X4].
  apply andb_true_iff in X. destruct X as [X X3]. apply andb_true_iff in X. destruct X as [X1 X2].
  split; [apply pc_is_held_at_eq; assumption|]. split; [apply pc_is_waiting_eq; assumption|].
  split; [|split].
  - destruct (lock s) as [j|]; simpl in X3; [|discriminate]. apply Nat.eqb_eq in X3. subst. reflexivity.
  - destruct (content s 0) as [j|]; simpl in X4; [|discriminate]. apply Nat.eqb_eq in X4. subst. reflexivity.
  - eapply mutex_partial; [exact w1_init_ok | exact Hr].
Qed.

(* the hypotheses of the two theorems on created files hold of every [mk_init] configuration, and
   both conclusions are exercised: from an EMPTY pre-existing lock file (inode 0), 0 reads it blank
   (inode 0 < next = 1, no creator), removes it and creates inode 1, which names its creator *)
Definition blank_init : state := mk_init [] (Some None).

Example created_files_nonvacuous :
  (forall dead lk, created_named (mk_init dead lk) /\ forall j, creator (mk_init dead lk) j = None) /\
  init blank_init /\
  (exists s s', run blank_init [TryCreate 0] = Some s /\ step s (Read 0) = Some s' /\
     pcs s' 0 = WantRemove (Some 0) /\ 0 < next blank_init) /\
  (exists s, run blank_init [TryCreate 0; Read 0; Remove 0; TryCreate 0] = Some s /\
     lock s = Some 1 /\ creator s 1 = Some 0 /\ content s 1 = Some 0 /\ content s 0 = None).
Proof.
  split; [|split; [|split]].
  - intros dead lk. split; [intros i p H; discriminate H | reflexivity].
  - split; [intro p; left; reflexivity | intros i H; inversion H; simpl; lia].
  - eexists. eexists. split; [reflexivity|]. split; [reflexivity|]. split; [reflexivity | simpl; lia].
  - eexists. split; [reflexivity|]. repeat split; reflexivity.
Qed.
