(* DepLoad.v -- concurrent loading of ONE dependency's outputs by SEVERAL dependants in
   load_outputs=minimal (property C15, clause "every command that executes finds its direct
   dependencies' outputs present and current").  Definitions only; lemmas in DepLoad_proofs.v,
   statements in properties/C15_depload.v.

   Build.v is a sequential semantics: a dependant's task calls LoadDependencyOutputs, which loads each
   dependency.  In the real executor several dependants of one cache-hit dependency d run concurrently
   (worker pool) and race on d.  What each step mirrors:

     CheckFlag    internal/execution/execute.go LoadDependencyOutputs: `if localDep.OutputsLoaded { continue }`,
                  an UNLOCKED read of d.OutputsLoaded; true -> nothing to do for d, on to the command
     LoadResult   execute.go: `e.targetCache.Load(ctx, localDep.ChangeHash)` (d is a cache hit: it succeeds)
     Lock         internal/output/registry.go LoadOutputs: `r.targetMutexMap.Lock(target.Label.String())`,
                  blocks (= not enabled) while another task holds d's lock
     RecheckFlag  registry.go: `if target.OutputsLoaded { return nil }` under the lock (the deferred Unlock follows)
     Validate     registry.go: validateTargetResultOutputs
     Restore i    registry.go: the pool task of output i: handler.Load = the blob is read from the CAS and the
                  file written.  The n tasks run in parallel in the real code: any order, one step each;
                  the pc remembers which outputs THIS task has restored
     SetFlag      registry.go: `target.OutputsLoaded = true` -- after `task.Wait()` of every restore
     Unlock       registry.go: the deferred `r.targetMutexMap.Unlock`
     RunCmd       the dependant's command starts: it READS every output of d (the observation)

   Out of scope: a restore that fails (lost blob) and the re-run path behind it -- Build.v covers the fault path
   sequentially (Build_c15_proofs.v); here d is a cache hit whose blobs are all readable.

   Variants (same step function, parameter [variant]) are the two seeded regressions kept in /verif/seeded:
     VFlagEarly      C15h: `target.OutputsLoaded = true` moved BEFORE the restores (still under the lock)
     VRequestedOnce  C15f: a "requested once" map consulted and marked at the top of the loop
                     (`requestedDependencies.LoadOrStore`): every dependant but the first skips d.
   [restores] and [obs] are ghost logs: they never influence [step]. *)
From Coq Require Import Arith Bool List.
Import ListNotations.

Inductive variant : Type := VCorrect | VFlagEarly | VRequestedOnce.

Inductive fstate : Type := Stale (* absent, or the bytes of another version *) | Current.

Inductive pc : Type :=
| PCheckFlag
| PLoadResult
| PLock
| PRecheck
| PValidate
| PRestore (done : list nat)     (* inside the restore loop; done = outputs this task has restored *)
| PSetFlag
| PUnlock
| PRunCmd
| PDone.

Inductive stepk : Type :=
| SCheckFlag | SLoadResult | SLock | SRecheck | SValidate | SRestore (i : nat) | SSetFlag | SUnlock | SRunCmd.

Definition event : Type := (nat * stepk)%type.    (* (task, step) *)

Record state : Type := mkState {
  flag      : bool;                         (* d.OutputsLoaded *)
  lock      : option nat;                   (* holder of d's entry in targetMutexMap *)
  files     : nat -> fstate;                (* workspace copy of output i of d *)
  pcs       : nat -> pc;
  requested : bool;                         (* VRequestedOnce only: d is in requestedDependencies *)
  restores  : list (nat * nat);             (* ghost: (task, output) of every Restore step, latest first *)
  obs       : list (nat * list fstate)      (* ghost: (task, what its command saw for outputs 0..n-1), latest first *)
}.

Definition upd {A : Type} (f : nat -> A) (t : nat) (x : A) : nat -> A :=
  fun u => if Nat.eqb u t then x else f u.

Definition init (k : nat) : state :=
  mkState false None (fun _ => Stale) (fun t => if Nat.ltb t k then PCheckFlag else PDone) false [] [].

Definition set_pc (s : state) (t : nat) (p : pc) : state :=
  mkState (flag s) (lock s) (files s) (upd (pcs s) t p) (requested s) (restores s) (obs s).

Definition memb (i : nat) (l : list nat) : bool := existsb (Nat.eqb i) l.

(* every output 0..n-1 is in [done] *)
Definition all_done (n : nat) (done : list nat) : bool := forallb (fun j => memb j done) (seq 0 n).

(* where the program goes ... *)
Definition after_validate (v : variant) (n : nat) : pc :=      (* ... after Validate *)
  match v with
  | VFlagEarly => PSetFlag
  | _ => if all_done n [] then PSetFlag else PRestore []
  end.
Definition after_setflag (v : variant) (n : nat) : pc :=       (* ... after SetFlag *)
  match v with
  | VFlagEarly => if all_done n [] then PUnlock else PRestore []
  | _ => PUnlock
  end.
Definition after_restores (v : variant) : pc :=                (* ... after the last Restore *)
  match v with VFlagEarly => PUnlock | _ => PSetFlag end.

Definition observe (n : nat) (s : state) : list fstate := map (files s) (seq 0 n).

Definition step (v : variant) (n : nat) (s : state) (e : event) : option state :=
  let t := fst e in
  match snd e, pcs s t with
  | SCheckFlag, PCheckFlag =>
      match v with
      | VRequestedOnce =>
          if requested s then Some (set_pc s t PRunCmd)
          else Some (mkState (flag s) (lock s) (files s)
                             (upd (pcs s) t (if flag s then PRunCmd else PLoadResult)) true (restores s) (obs s))
      | _ => Some (set_pc s t (if flag s then PRunCmd else PLoadResult))
      end
  | SLoadResult, PLoadResult => Some (set_pc s t PLock)
  | SLock, PLock =>
      match lock s with
      | None => Some (mkState (flag s) (Some t) (files s) (upd (pcs s) t PRecheck) (requested s) (restores s) (obs s))
      | Some _ => None
      end
  | SRecheck, PRecheck => Some (set_pc s t (if flag s then PUnlock else PValidate))
  | SValidate, PValidate => Some (set_pc s t (after_validate v n))
  | SRestore i, PRestore done =>
      if Nat.ltb i n && negb (memb i done) then
        Some (mkState (flag s) (lock s) (upd (files s) i Current)
                      (upd (pcs s) t (if all_done n (i :: done) then after_restores v else PRestore (i :: done)))
                      (requested s) ((t, i) :: restores s) (obs s))
      else None
  | SSetFlag, PSetFlag =>
      Some (mkState true (lock s) (files s) (upd (pcs s) t (after_setflag v n)) (requested s) (restores s) (obs s))
  | SUnlock, PUnlock =>
      Some (mkState (flag s) None (files s) (upd (pcs s) t PRunCmd) (requested s) (restores s) (obs s))
  | SRunCmd, PRunCmd =>
      Some (mkState (flag s) (lock s) (files s) (upd (pcs s) t PDone) (requested s) (restores s)
                    ((t, observe n s) :: obs s))
  | _, _ => None
  end.

Fixpoint run (v : variant) (n : nat) (s : state) (evs : list event) : option state :=
  match evs with
  | [] => Some s
  | e :: r => match step v n s e with Some s' => run v n s' r | None => None end
  end.

Definition reachable (v : variant) (n k : nat) (s : state) : Prop :=
  exists evs, run v n (init k) evs = Some s.

(* ------------------------------------------------------------------ what the theorems talk about *)
Definition is_current (f : fstate) : bool := match f with Current => true | Stale => false end.
Definition saw_all_current (n : nat) (o : list fstate) : bool :=
  Nat.eqb (length o) n && forallb is_current o.
(* some recorded command saw a stale (or absent) output *)
Definition cmd_saw_stale (s : state) : bool := existsb (fun to => negb (forallb is_current (snd to))) (obs s).
Definition run_saw_stale (v : variant) (n k : nat) (evs : list event) : bool :=
  match run v n (init k) evs with Some s => cmd_saw_stale s | None => false end.

Definition is_done (p : pc) : bool := match p with PDone => true | _ => false end.
Definition all_tasks_done (k : nat) (s : state) : Prop := forall t, t < k -> pcs s t = PDone.

(* the program text between Lock and Unlock *)
Definition in_locked_region (p : pc) : bool :=
  match p with PRecheck | PValidate | PRestore _ | PSetFlag | PUnlock => true | _ => false end.

(* outputs a task inside the restore loop still has to restore *)
Definition remaining (n : nat) (done : list nat) : list nat := filter (fun j => negb (memb j done)) (seq 0 n).

(* number of steps a task at pc p can still take (VCorrect): the termination measure *)
Definition pc_measure (n : nat) (p : pc) : nat :=
  match p with
  | PCheckFlag => n + 8 | PLoadResult => n + 7 | PLock => n + 6 | PRecheck => n + 5 | PValidate => n + 4
  | PRestore done => 3 + length (remaining n done)
  | PSetFlag => 3 | PUnlock => 2 | PRunCmd => 1 | PDone => 0
  end.
Definition measure (n k : nat) (s : state) : nat := list_sum (map (fun t => pc_measure n (pcs s t)) (seq 0 k)).

(* ------------------------------------------------------------------ the deterministic tie (tools/c15.py depload_stage)
   The harness (harness/go/depload) drives the real Executor/Registry with a cache backend whose CAS reads are
   held at a gate.  A schedule is a list of tokens; after each token the implementation runs until every goroutine
   is blocked (quiescence).  The model side of a token:
     TStart t    task t takes its CheckFlag step (the dependant is handed to a worker), then everything settles
     TRelease i  the held read of blob i is released: the task inside the restore loop takes Restore i, then
                 everything settles (i is reported by the harness; a release while nothing is held is a no-op)
   [settle] runs every step that needs no token (all but CheckFlag and Restore), lowest task first when [asc],
   highest first otherwise, until none is enabled.  Observation per token (a "window"): the blob reads held at the
   gate afterwards (= the outputs the task inside the restore loop has not restored yet) and the commands that
   ran in the window with what they saw. *)
Inductive token : Type := TStart (t : nat) | TRelease (i : nat).

Definition auto_step (p : pc) : option stepk :=
  match p with
  | PLoadResult => Some SLoadResult | PLock => Some SLock | PRecheck => Some SRecheck | PValidate => Some SValidate
  | PSetFlag => Some SSetFlag | PUnlock => Some SUnlock | PRunCmd => Some SRunCmd
  | PCheckFlag | PRestore _ | PDone => None
  end.

Fixpoint first_auto (v : variant) (n : nat) (s : state) (ts : list nat) : option state :=
  match ts with
  | [] => None
  | t :: r =>
      match auto_step (pcs s t) with
      | Some k => match step v n s (t, k) with Some s' => Some s' | None => first_auto v n s r end
      | None => first_auto v n s r
      end
  end.

Fixpoint settle (fuel : nat) (v : variant) (n : nat) (ts : list nat) (s : state) : state :=
  match fuel with
  | O => s
  | S f => match first_auto v n s ts with Some s' => settle f v n ts s' | None => s end
  end.

(* the task inside the restore loop, if any *)
Fixpoint restorer (s : state) (ts : list nat) : option (nat * list nat) :=
  match ts with
  | [] => None
  | t :: r => match pcs s t with PRestore done => Some (t, done) | _ => restorer s r end
  end.

Definition token_event (s : state) (ts : list nat) (tok : token) : option event :=
  match tok with
  | TStart t => Some (t, SCheckFlag)
  | TRelease i => match restorer s ts with Some (t, _) => Some (t, SRestore i) | None => None end
  end.

Definition held (n : nat) (s : state) (ts : list nat) : list nat :=
  match restorer s ts with Some (_, done) => remaining n done | None => [] end.

Definition task_order (asc : bool) (k : nat) : list nat := if asc then seq 0 k else rev (seq 0 k).
Definition settle_fuel (n k : nat) : nat := k * (n + 8).

(* one token: (enabled?, state after settling) *)
Definition do_token (v : variant) (asc : bool) (n k : nat) (s : state) (tok : token) : bool * state :=
  let ts := task_order asc k in
  match token_event s ts tok with
  | None => (false, s)
  | Some e => match step v n s e with
              | None => (false, s)
              | Some s' => (true, settle (settle_fuel n k) v n ts s')
              end
  end.

(* a window as numbers: [enabled; held...] :: one list per command of the window, oldest first: task :: (1 = current, 0 = stale) per output *)
Definition enc_obs (to : nat * list fstate) : list nat :=
  fst to :: map (fun f => if is_current f then 1 else 0) (snd to).
Definition window (n k : nat) (asc : bool) (before : state) (r : bool * state) : list (list nat) :=
  let s' := snd r in
  ((if fst r then 1 else 0) :: held n s' (task_order asc k))
    :: map enc_obs (rev (firstn (length (obs s') - length (obs before)) (obs s'))).

Fixpoint replay_from (v : variant) (asc : bool) (n k : nat) (s : state) (toks : list token)
  : list (list (list nat)) * state :=
  match toks with
  | [] => ([], s)
  | tok :: r =>
      let res := do_token v asc n k s tok in
      let rest := replay_from v asc n k (snd res) r in
      (window n k asc s res :: fst rest, snd rest)
  end.

(* the windows of a schedule, then a last entry: the pcs that are not Done at the end (0 = all commands ran) *)
Definition replay (v : variant) (asc : bool) (n k : nat) (toks : list token) : list (list (list nat)) :=
  let r := replay_from v asc n k (init k) toks in
  fst r ++ [[filter (fun t => negb (is_done (pcs (snd r) t))) (seq 0 k)]].
