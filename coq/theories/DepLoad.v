(* DepLoad.v -- concurrent loading of ONE dependency's outputs by SEVERAL dependants in
   load_outputs=minimal (property C15, clauses "every command that executes finds its direct
   dependencies' outputs present and current" and "cache faults while dependency outputs are being
   loaded").  Definitions only; lemmas in DepLoad_proofs.v, statements in properties/C15_depload.v.

   Build.v is a sequential semantics: a dependant's task calls LoadDependencyOutputs, which loads each
   dependency.  In the real executor several dependants of one cache-hit dependency d run concurrently
   (worker pool) and race on d.  What each step mirrors (internal/execution/execute.go LoadDependencyOutputs,
   closure loadDependency, unless said otherwise):

     Start        the dependant is handed to a worker and reaches d in its loop over the dependencies
     OuterLock    `e.dependencyMutexMap.Lock(localDep.Label.String())`: the per-dependency lock around the WHOLE
                  step "make the outputs of d present"; blocks (= not enabled) while another task holds it
     CheckFlag    `if localDep.OutputsLoaded { return false, nil }` -- read UNDER the outer lock
     LoadResult   `e.targetCache.Load(ctx, localDep.ChangeHash)`.  d was a cache hit when IT was checked; the lookup made now
                  for the dependant succeeds, or -- second FAULT, [result_fails s], fixed by the initial state: the result
                  file vanished or the backend errs between d's own cache check and the dependants' lookups -- fails:
                  `if err != nil { return true, rerunDependency() }` ("We cannot even get the target cache: re-run
                  immediately"): the task goes straight to RerunStart, still under the outer lock and AFTER the flag
                  check, never entering Registry.LoadOutputs.  "Every lookup fails" is the worst case: a lookup is only
                  ever made by a task that found the flag false
     Lock         internal/output/registry.go LoadOutputs: `r.targetMutexMap.Lock(target.Label.String())`, the
                  registry's own (inner) lock; blocks while another task holds it
     Recheck      registry.go: `if target.OutputsLoaded { return nil }` under the inner lock
     Validate     registry.go: validateTargetResultOutputs
     Restore i    registry.go: the pool task of output i: handler.Load = the blob is read from the CAS and the
                  file written.  The n tasks run in parallel in the real code: any order, one step each; the pc
                  remembers which outputs THIS task has restored.  FAULT: when blob i is missing from the cache
                  ([missing s i], fixed by the initial state) the step fails: LoadOutputs returns the error, the
                  flag stays false, the task goes on to Unlock and then RE-RUNS d
     SetFlag      registry.go: `target.OutputsLoaded = true` -- after `task.Wait()` of every restore
     Unlock       registry.go: the deferred `r.targetMutexMap.Unlock`
     RerunStart   `rerunDependency()` = executeTarget(d): d's command starts in d's package directory.  From now on
                  every output of d is [Torn] (removed, truncated or half written) ...
     RerunWrite i ... until this run of the command has completely written output i: [Current]
     Complete     execute.go executeTarget -> OnTargetComplete: registry.WriteOutputs (takes the registry's inner lock
                  for its duration: enabled only while nobody holds it; READS every output and stores the bytes
                  in the cache -- logged in [wrote]) and `target.OutputsLoaded = true`
     OuterUnlock  the deferred `e.dependencyMutexMap.Unlock`
     RunCmd       the dependant's command starts: it READS every output of d (the observation, logged in [obs])

   Out of scope: the other dependencies of the dependant (after a failed result lookup the real loop stops: `return true`),
   a re-run whose command fails (Build.v covers the failing path sequentially, tools/c15.py
   witness_rerun_fails runs it), the recursive LoadDependencyOutputs(d) before the re-run (d's own dependencies:
   the same protocol one level up, locks taken towards ancestors only), restore tasks of LoadOutputs still in
   flight when an earlier task's failure is returned.

   Variants (same step function, parameter [variant]):
     VNoOuterLock    the code BEFORE the repair of C15-F1: no outer lock (OuterLock / OuterUnlock do nothing), so
                     CheckFlag is an unlocked read and two dependants that both find d unrestorable re-run it at
                     the same time
     VFlagEarly      seed C15h, made against the code before the outer lock (so: no outer lock either):
                     `target.OutputsLoaded = true` moved BEFORE the restores, reset when a restore fails
     VRequestedOnce  seed C15f: a "requested once" map consulted and marked at the top of the loop, before the
                     outer lock (`requestedDependencies.LoadOrStore`): every dependant but the first skips d.
     VLookupBeforeLock  seed C15j: CheckFlag and LoadResult are made BEFORE OuterLock ("a read-only round trip the
                     dependants need not do one after the other"), the flag is not read again under the lock ("LoadOutputs
                     re-checks it under the registry's lock" -- true of the load path only): a dependant that found the
                     flag false and the result unreadable re-runs d as soon as it gets the lock, whatever happened meanwhile.
   [restores], [reruns], [obs], [wrote] are ghost logs: they never influence [step]. *)
From Coq Require Import Arith Bool List.
Import ListNotations.

Inductive variant : Type := VCorrect | VFlagEarly | VRequestedOnce | VNoOuterLock | VLookupBeforeLock.

(* does the variant take the per-dependency lock of the executor? *)
Definition outer_locked (v : variant) : bool :=
  match v with VCorrect | VRequestedOnce | VLookupBeforeLock => true | VFlagEarly | VNoOuterLock => false end.

Inductive fstate : Type :=
| Stale    (* absent, or the bytes of another version *)
| Torn     (* a run of d's command is rewriting it *)
| Current.

Inductive pc : Type :=
| PStart
| POuterLock
| PCheckFlag
| PLoadResult
| PLock
| PRecheck
| PValidate
| PRestore (done : list nat)     (* inside the restore loop; done = outputs this task has restored *)
| PSetFlag
| PUnlock                        (* leaving LoadOutputs, no error *)
| PUnlockF                       (* leaving LoadOutputs with the error of a failed restore *)
| PRerunStart
| PRerun (done : list nat)       (* d's command is running; done = outputs this run has written *)
| PComplete
| POuterUnlock
| PRunCmd
| PDone.

Inductive stepk : Type :=
| SStart | SOuterLock | SCheckFlag | SLoadResult | SLock | SRecheck | SValidate | SRestore (i : nat) | SSetFlag
| SUnlock | SRerunStart | SRerunWrite (i : nat) | SComplete | SOuterUnlock | SRunCmd.

Definition event : Type := (nat * stepk)%type.    (* (task, step) *)

Record state : Type := mkState {
  flag      : bool;                         (* d.OutputsLoaded *)
  olock     : option nat;                   (* holder of d's entry in the executor's dependencyMutexMap *)
  lock      : option nat;                   (* holder of d's entry in the registry's targetMutexMap *)
  files     : nat -> fstate;                (* workspace copy of output i of d *)
  pcs       : nat -> pc;
  requested : bool;                         (* VRequestedOnce only: d is in requestedDependencies *)
  missing   : nat -> bool;                  (* blob i is lost from the cache; never changes *)
  result_fails : bool;                      (* every lookup of d's target RESULT fails; never changes *)
  restores  : list (nat * nat);             (* ghost: (task, output) of every successful Restore step, latest first *)
  reruns    : list nat;                     (* ghost: the task of every RerunStart step, latest first *)
  obs       : list (nat * list fstate);     (* ghost: (task, what its command saw for outputs 0..n-1), latest first *)
  wrote     : list (nat * list fstate)      (* ghost: (task, what WriteOutputs read and cached after its re-run) *)
}.

Definition upd {A : Type} (f : nat -> A) (t : nat) (x : A) : nat -> A :=
  fun u => if Nat.eqb u t then x else f u.

Definition init (k : nat) (miss : nat -> bool) (rf : bool) : state :=
  mkState false None None (fun _ => Stale) (fun t => if Nat.ltb t k then PStart else PDone) false miss rf [] [] [] [].

(* one-field updates *)
Definition set_pc (s : state) (t : nat) (p : pc) : state :=
  mkState (flag s) (olock s) (lock s) (files s) (upd (pcs s) t p) (requested s) (missing s) (result_fails s) (restores s) (reruns s) (obs s) (wrote s).
Definition set_flag (s : state) (b : bool) : state :=
  mkState b (olock s) (lock s) (files s) (pcs s) (requested s) (missing s) (result_fails s) (restores s) (reruns s) (obs s) (wrote s).
Definition set_olock (s : state) (o : option nat) : state :=
  mkState (flag s) o (lock s) (files s) (pcs s) (requested s) (missing s) (result_fails s) (restores s) (reruns s) (obs s) (wrote s).
Definition set_lock (s : state) (o : option nat) : state :=
  mkState (flag s) (olock s) o (files s) (pcs s) (requested s) (missing s) (result_fails s) (restores s) (reruns s) (obs s) (wrote s).
Definition set_files (s : state) (f : nat -> fstate) : state :=
  mkState (flag s) (olock s) (lock s) f (pcs s) (requested s) (missing s) (result_fails s) (restores s) (reruns s) (obs s) (wrote s).
Definition set_requested (s : state) : state :=
  mkState (flag s) (olock s) (lock s) (files s) (pcs s) true (missing s) (result_fails s) (restores s) (reruns s) (obs s) (wrote s).
Definition log_restore (s : state) (t i : nat) : state :=
  mkState (flag s) (olock s) (lock s) (files s) (pcs s) (requested s) (missing s) (result_fails s) ((t, i) :: restores s) (reruns s) (obs s) (wrote s).
Definition log_rerun (s : state) (t : nat) : state :=
  mkState (flag s) (olock s) (lock s) (files s) (pcs s) (requested s) (missing s) (result_fails s) (restores s) (t :: reruns s) (obs s) (wrote s).
Definition log_obs (s : state) (t : nat) (o : list fstate) : state :=
  mkState (flag s) (olock s) (lock s) (files s) (pcs s) (requested s) (missing s) (result_fails s) (restores s) (reruns s) ((t, o) :: obs s) (wrote s).
Definition log_wrote (s : state) (t : nat) (o : list fstate) : state :=
  mkState (flag s) (olock s) (lock s) (files s) (pcs s) (requested s) (missing s) (result_fails s) (restores s) (reruns s) (obs s) ((t, o) :: wrote s).

Definition memb (i : nat) (l : list nat) : bool := existsb (Nat.eqb i) l.

(* every output 0..n-1 is in [done] *)
Definition all_done (n : nat) (done : list nat) : bool := forallb (fun j => memb j done) (seq 0 n).

(* where the program goes ... *)
Definition after_validate (v : variant) (n : nat) : pc :=      (* ... after Validate *)
  match v with
  | VFlagEarly => PSetFlag
  | _ => if all_done n [] then PSetFlag else PRestore []
  end.
Definition after_setflag (v : variant) (n : nat) : pc :=       (* ... after SetFlag *)
  match v with
  | VFlagEarly => if all_done n [] then PUnlock else PRestore []
  | _ => PUnlock
  end.
Definition after_restores (v : variant) : pc :=                (* ... after the last Restore *)
  match v with VFlagEarly => PUnlock | _ => PSetFlag end.
Definition flag_after_failure (v : variant) (b : bool) : bool :=   (* ... the flag after a failed restore *)
  match v with VFlagEarly => false | _ => b end.

(* the order of the first steps: VLookupBeforeLock (seed C15j) reads the flag and looks the result up BEFORE it queues for
   the outer lock, and acts on what it found then once it holds the lock *)
Definition after_start (v : variant) : pc :=                    (* ... after Start *)
  match v with VLookupBeforeLock => PCheckFlag | _ => POuterLock end.
Definition after_outerlock (v : variant) (rf : bool) : pc :=    (* ... after OuterLock *)
  match v with VLookupBeforeLock => if rf then PRerunStart else PLock | _ => PCheckFlag end.
Definition after_checkflag (v : variant) (fl : bool) : pc :=    (* ... after CheckFlag; fl = the flag as read *)
  match v with
  | VLookupBeforeLock => if fl then PRunCmd else PLoadResult    (* `return false, nil` before any lock is taken *)
  | _ => if fl then POuterUnlock else PLoadResult
  end.
Definition after_loadresult (v : variant) (rf : bool) : pc :=   (* ... after LoadResult; rf = the lookup failed *)
  match v with VLookupBeforeLock => POuterLock | _ => if rf then PRerunStart else PLock end.

Definition observe (n : nat) (s : state) : list fstate := map (files s) (seq 0 n).

(* d's command starts: each of its n outputs is unspecified until this run has written it *)
Definition tear (n : nat) (f : nat -> fstate) : nat -> fstate := fun i => if Nat.ltb i n then Torn else f i.

Definition step (v : variant) (n : nat) (s : state) (e : event) : option state :=
  let t := fst e in
  match snd e, pcs s t with
  | SStart, PStart =>
      match v with
      | VRequestedOnce => if requested s then Some (set_pc s t PRunCmd) else Some (set_pc (set_requested s) t POuterLock)
      | _ => Some (set_pc s t (after_start v))
      end
  | SOuterLock, POuterLock =>
      if outer_locked v then
        match olock s with
        | None => Some (set_pc (set_olock s (Some t)) t (after_outerlock v (result_fails s)))
        | Some _ => None
        end
      else Some (set_pc s t (after_outerlock v (result_fails s)))
  | SCheckFlag, PCheckFlag => Some (set_pc s t (after_checkflag v (flag s)))
  | SLoadResult, PLoadResult => Some (set_pc s t (after_loadresult v (result_fails s)))
  | SLock, PLock =>
      match lock s with
      | None => Some (set_pc (set_lock s (Some t)) t PRecheck)
      | Some _ => None
      end
  | SRecheck, PRecheck => Some (set_pc s t (if flag s then PUnlock else PValidate))
  | SValidate, PValidate => Some (set_pc s t (after_validate v n))
  | SRestore i, PRestore done =>
      if Nat.ltb i n && negb (memb i done) then
        if missing s i then Some (set_pc (set_flag s (flag_after_failure v (flag s))) t PUnlockF)
        else Some (set_pc (log_restore (set_files s (upd (files s) i Current)) t i) t
                          (if all_done n (i :: done) then after_restores v else PRestore (i :: done)))
      else None
  | SSetFlag, PSetFlag => Some (set_pc (set_flag s true) t (after_setflag v n))
  | SUnlock, PUnlock => Some (set_pc (set_lock s None) t POuterUnlock)
  | SUnlock, PUnlockF => Some (set_pc (set_lock s None) t PRerunStart)
  | SRerunStart, PRerunStart =>
      Some (set_pc (log_rerun (set_files s (tear n (files s))) t) t (if all_done n [] then PComplete else PRerun []))
  | SRerunWrite i, PRerun done =>
      if Nat.ltb i n && negb (memb i done) then
        Some (set_pc (set_files s (upd (files s) i Current)) t
                     (if all_done n (i :: done) then PComplete else PRerun (i :: done)))
      else None
  | SComplete, PComplete =>
      match lock s with
      | None => Some (set_pc (log_wrote (set_flag s true) t (observe n s)) t POuterUnlock)
      | Some _ => None
      end
  | SOuterUnlock, POuterUnlock => Some (set_pc (if outer_locked v then set_olock s None else s) t PRunCmd)
  | SRunCmd, PRunCmd => Some (set_pc (log_obs s t (observe n s)) t PDone)
  | _, _ => None
  end.

Fixpoint run (v : variant) (n : nat) (s : state) (evs : list event) : option state :=
  match evs with
  | [] => Some s
  | e :: r => match step v n s e with Some s' => run v n s' r | None => None end
  end.

(* [miss] = the set of blobs lost from the cache: any set; [rf] = every lookup of d's target result fails *)
Definition reachable (v : variant) (n k : nat) (miss : nat -> bool) (rf : bool) (s : state) : Prop :=
  exists evs, run v n (init k miss rf) evs = Some s.

(* ------------------------------------------------------------------ what the theorems talk about *)
Definition is_current (f : fstate) : bool := match f with Current => true | _ => false end.
Definition is_torn (f : fstate) : bool := match f with Torn => true | _ => false end.
Definition saw_all_current (n : nat) (o : list fstate) : bool :=
  Nat.eqb (length o) n && forallb is_current o.
(* some recorded command saw an output that is not current (stale, absent or torn) *)
Definition cmd_saw_stale (s : state) : bool := existsb (fun to => negb (forallb is_current (snd to))) (obs s).
(* some recorded command saw a torn output / WriteOutputs cached a torn output *)
Definition cmd_saw_torn (s : state) : bool := existsb (fun to => existsb is_torn (snd to)) (obs s).
Definition cached_torn (s : state) : bool := existsb (fun to => existsb is_torn (snd to)) (wrote s).
Definition no_blob_missing : nat -> bool := fun _ => false.
Definition run_saw_stale (v : variant) (n k : nat) (evs : list event) : bool :=
  match run v n (init k no_blob_missing false) evs with Some s => cmd_saw_stale s | None => false end.
(* with the blobs [miss] lost, the result lookups failing when [rf]:
   (a command saw a torn output, torn bytes were cached, number of runs of d's command) *)
Definition run_fault_summary (v : variant) (n k : nat) (miss : nat -> bool) (rf : bool) (evs : list event)
  : option (bool * bool * nat) :=
  match run v n (init k miss rf) evs with
  | Some s => Some (cmd_saw_torn s, cached_torn s, length (reruns s))
  | None => None
  end.

Definition is_done (p : pc) : bool := match p with PDone => true | _ => false end.
Definition all_tasks_done (k : nat) (s : state) : Prop := forall t, t < k -> pcs s t = PDone.

(* the program text between OuterLock and OuterUnlock *)
Definition in_outer_region (p : pc) : bool :=
  match p with PStart | POuterLock | PRunCmd | PDone => false | _ => true end.
(* the program text between Lock and Unlock (inside Registry.LoadOutputs) *)
Definition in_locked_region (p : pc) : bool :=
  match p with PRecheck | PValidate | PRestore _ | PSetFlag | PUnlock | PUnlockF => true | _ => false end.
(* d's command is running, or has run and its outputs are being written to the cache *)
Definition rerunning (p : pc) : bool := match p with PRerun _ | PComplete => true | _ => false end.

(* outputs a task inside the restore loop (or a run of d's command) still has to produce *)
Definition remaining (n : nat) (done : list nat) : list nat := filter (fun j => negb (memb j done)) (seq 0 n).

(* number of steps a task at pc p can still take (VCorrect): the termination measure *)
Definition pc_measure (n : nat) (p : pc) : nat :=
  match p with
  | PStart => 2 * n + 14 | POuterLock => 2 * n + 13 | PCheckFlag => 2 * n + 12 | PLoadResult => 2 * n + 11
  | PLock => 2 * n + 10 | PRecheck => 2 * n + 9 | PValidate => 2 * n + 8
  | PRestore done => n + 7 + length (remaining n done)
  | PSetFlag => 4 | PUnlock => 3
  | PUnlockF => n + 6 | PRerunStart => n + 5
  | PRerun done => 3 + length (remaining n done)
  | PComplete => 3 | POuterUnlock => 2 | PRunCmd => 1 | PDone => 0
  end.
Definition measure (n k : nat) (s : state) : nat := list_sum (map (fun t => pc_measure n (pcs s t)) (seq 0 k)).
Definition run_bound (n k : nat) : nat := k * (2 * n + 14).

(* ------------------------------------------------------------------ the deterministic tie (tools/c15.py depload_stage)
   The harness (harness/go/depload) drives the real Executor/Registry with a cache backend whose CAS reads are
   held at a gate, and gives d a real command that stops at a gate of its own after it has started to rewrite its
   outputs.  A schedule is a list of tokens; after each token the implementation runs until every goroutine is
   blocked and every running command of d sits at its gate (quiescence).  The model side of a token:
     TStart t    task t takes its Start step (the dependant is handed to a worker), then everything settles
     TRelease i  the held read of blob i is released: the task inside the restore loop takes Restore i, then
                 everything settles (i is reported by the harness; a release while nothing is held is a no-op)
     TGo         the run of d's command that waits at its gate goes on: RerunWrite of its first output, then
                 everything settles (the other outputs are written without a further token)
   [settle] runs every step that needs no token, lowest task first when [asc], highest first otherwise, until none is
   enabled.  A Restore of a MISSING blob needs no token (the read fails at once) but is taken only when no other
   output is left to restore: LoadOutputs waits for its restore tasks in output order, and the tie uses sets of
   missing blobs that are upper segments {m, ..., n-1}, so the failure surfaces when every lower output is in place.
   Observation per token (a "window"): enabled?, the number of runs of d's command at their gate, the number of
   runs started so far; the blob reads held at the gate afterwards; the commands that ran in the window with what
   they saw. *)
Inductive token : Type := TStart (t : nat) | TRelease (i : nat) | TGo.

Definition only_missing_left (n : nat) (s : state) (done : list nat) : bool := forallb (missing s) (remaining n done).

Definition auto_step (n : nat) (s : state) (p : pc) : option stepk :=
  match p with
  | PStart | PDone => None
  | POuterLock => Some SOuterLock | PCheckFlag => Some SCheckFlag | PLoadResult => Some SLoadResult
  | PLock => Some SLock | PRecheck => Some SRecheck | PValidate => Some SValidate
  | PRestore done => if only_missing_left n s done then option_map SRestore (hd_error (remaining n done)) else None
  | PSetFlag => Some SSetFlag | PUnlock | PUnlockF => Some SUnlock | PRerunStart => Some SRerunStart
  | PRerun [] => None
  | PRerun done => option_map SRerunWrite (hd_error (remaining n done))
  | PComplete => Some SComplete | POuterUnlock => Some SOuterUnlock | PRunCmd => Some SRunCmd
  end.

Fixpoint first_auto (v : variant) (n : nat) (s : state) (ts : list nat) : option state :=
  match ts with
  | [] => None
  | t :: r =>
      match auto_step n s (pcs s t) with
      | Some k => match step v n s (t, k) with Some s' => Some s' | None => first_auto v n s r end
      | None => first_auto v n s r
      end
  end.

Fixpoint settle (fuel : nat) (v : variant) (n : nat) (ts : list nat) (s : state) : state :=
  match fuel with
  | O => s
  | S f => match first_auto v n s ts with Some s' => settle f v n ts s' | None => s end
  end.

(* the task inside the restore loop, if any *)
Fixpoint restorer (s : state) (ts : list nat) : option (nat * list nat) :=
  match ts with
  | [] => None
  | t :: r => match pcs s t with PRestore done => Some (t, done) | _ => restorer s r end
  end.

(* the tasks whose run of d's command waits at its gate *)
Definition at_gate (s : state) (ts : list nat) : list nat :=
  filter (fun t => match pcs s t with PRerun [] => true | _ => false end) ts.

Definition token_event (n : nat) (s : state) (ts : list nat) (tok : token) : option event :=
  match tok with
  | TStart t => Some (t, SStart)
  | TRelease i => match restorer s ts with Some (t, _) => Some (t, SRestore i) | None => None end
  | TGo => match at_gate s ts, remaining n [] with t :: _, i :: _ => Some (t, SRerunWrite i) | _, _ => None end
  end.

(* the reads held at the backend's gate: the outputs the restorer has not restored, but for the lost blobs *)
Definition held (n : nat) (s : state) (ts : list nat) : list nat :=
  match restorer s ts with
  | Some (_, done) => filter (fun i => negb (missing s i)) (remaining n done)
  | None => []
  end.

Definition task_order (asc : bool) (k : nat) : list nat := if asc then seq 0 k else rev (seq 0 k).
Definition settle_fuel (n k : nat) : nat := run_bound n k.

(* one token: (enabled?, state after settling) *)
Definition do_token (v : variant) (asc : bool) (n k : nat) (s : state) (tok : token) : bool * state :=
  let ts := task_order asc k in
  match token_event n s ts tok with
  | None => (false, s)
  | Some e => match step v n s e with
              | None => (false, s)
              | Some s' => (true, settle (settle_fuel n k) v n ts s')
              end
  end.

(* a window as numbers: [enabled; runs at their gate; runs started so far] :: [held reads...] :: one list per command of the
   window, oldest first: task :: (1 = current, 0 = stale, 2 = torn) per output *)
Definition enc_fstate (f : fstate) : nat := match f with Stale => 0 | Current => 1 | Torn => 2 end.
Definition enc_obs (to : nat * list fstate) : list nat := fst to :: map enc_fstate (snd to).
Definition window (n k : nat) (asc : bool) (before : state) (r : bool * state) : list (list nat) :=
  let s' := snd r in
  [(if fst r then 1 else 0); length (at_gate s' (task_order asc k)); length (reruns s')]
    :: held n s' (task_order asc k)
    :: map enc_obs (rev (firstn (length (obs s') - length (obs before)) (obs s'))).

Fixpoint replay_from (v : variant) (asc : bool) (n k : nat) (s : state) (toks : list token)
  : list (list (list nat)) * state :=
  match toks with
  | [] => ([], s)
  | tok :: r =>
      let res := do_token v asc n k s tok in
      let rest := replay_from v asc n k (snd res) r in
      (window n k asc s res :: fst rest, snd rest)
  end.

(* the blobs lost in a tie case: the upper segment {m, ..., n-1} (m >= n: none) *)
Definition missing_from (m : nat) : nat -> bool := fun i => Nat.leb m i.

(* the windows of a schedule, then a last entry: the pcs that are not Done at the end (0 = all commands ran) and what
   WriteOutputs cached after a re-run ([task; per output 1 | 0 | 2]) *)
Definition replay (v : variant) (asc : bool) (n k m : nat) (rf : bool) (toks : list token) : list (list (list nat)) :=
  let r := replay_from v asc n k (init k (missing_from m) rf) toks in
  fst r ++ [filter (fun t => negb (is_done (pcs (snd r) t))) (seq 0 k) :: map enc_obs (rev (wrote (snd r)))].
