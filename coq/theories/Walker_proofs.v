(* Walker_proofs.v -- all lemmas about the scheduler model of Walker.v (C03, C04, C05, C18). *)
From Grog Require Import Graph Walker.

Arguments upd : simpl never.
Arguments release : simpl never.
Arguments desc : simpl never.
Arguments count_run : simpl never.
Arguments running : simpl never.
Arguments all_final : simpl never.

(* ------------------------------------------------------------------ basics *)

Lemma status_eqb_eq a b : status_eqb a b = true <-> a = b.
Proof. destruct a, b; simpl; split; intro H; try reflexivity; discriminate H. Qed.

Lemma status_eqb_refl a : status_eqb a a = true.
Proof. apply status_eqb_eq. reflexivity. Qed.

Lemma upd_same A (f : nat -> A) n x : upd f n x n = x.
Proof. unfold upd. rewrite Nat.eqb_refl. reflexivity. Qed.

Lemma upd_other A (f : nat -> A) n x m : m <> n -> upd f n x m = f m.
Proof. intro H. unfold upd. destruct (Nat.eqb_spec m n) as [E|E]; [contradiction|reflexivity]. Qed.

Lemma event_eqb_eq a b : event_eqb a b = true <-> a = b.
Proof.
  destruct a, b; simpl; split; intro H; try reflexivity; try discriminate H;
    try (apply Nat.eqb_eq in H; subst; reflexivity);
    try (inversion H; subst; apply Nat.eqb_refl).
Qed.

Lemma mem_nat_In x l : mem_nat x l = true <-> In x l.
Proof.
  unfold mem_nat. rewrite existsb_exists. split.
  - intros [y [Hy E]]. apply Nat.eqb_eq in E. subst. exact Hy.
  - intro H. exists x. split; [exact H|apply Nat.eqb_refl].
Qed.

Ltac proj := cbn [st cp cmd fft ctxc dead ret snap set_st complete_ok] in *.

Ltac boolp :=
  repeat match goal with
  | H : _ && _ = true |- _ => apply andb_true_iff in H; destruct H
  | H : Nat.ltb _ _ = true |- _ => apply Nat.ltb_lt in H
  | H : status_eqb _ _ = true |- _ => apply status_eqb_eq in H
  | H : negb _ = true |- _ => apply negb_true_iff in H
  end.

Ltac grd H E :=
  match type of H with
  | (if ?b then _ else _) = _ => destruct b eqn:E; [|discriminate H]
  end.

(* ------------------------------------------------------------------ step, event by event *)

Lemma step_Start g c s n s' : step g c s (Start n) = Some s' ->
  n < size g /\ st s n = Ready /\ s' = set_st s (upd (st s) n Queued).
Proof.
  unfold step. intro H. grd H E. boolp. inversion H. auto.
Qed.

Lemma step_CancelRecv g c s n s' : step g c s (CancelRecv n) = Some s' ->
  n < size g /\ (st s n = Parked \/ st s n = Ready) /\ cp s n = true /\
  s' = set_st s (upd (st s) n Skipped).
Proof.
  unfold step. intro H. grd H E. boolp. inversion H.
  repeat split; auto.
  match goal with H0 : _ || _ = true |- _ => apply orb_true_iff in H0; destruct H0 as [H0|H0];
    apply status_eqb_eq in H0; auto end.
Qed.

Lemma step_Pick g c s n s' : step g c s (Pick n) = Some s' ->
  n < size g /\ st s n = Queued /\ running g s + dead s < W c /\
  s' = set_st s (upd (st s) n Running).
Proof.
  unfold step. intro H. grd H E. boolp. inversion H. auto.
Qed.

Lemma step_CmdStart g c s n s' : step g c s (CmdStart n) = Some s' ->
  n < size g /\ st s n = Running /\ cmd s n = false /\ inner_cancelled s = false /\
  s' = mkState (st s) (cp s) (upd (cmd s) n true) (fft s) (ctxc s) (dead s) (ret s) (snap s).
Proof.
  unfold step. intro H. grd H E. boolp. inversion H. auto.
Qed.

Lemma step_Reject g c s n s' : step g c s (Reject n) = Some s' ->
  n < size g /\ st s n = Queued /\ closed s = true /\ s' = complete_fail g c s n.
Proof.
  unfold step. intro H. grd H E. boolp. inversion H. auto.
Qed.

Lemma step_FinishOk g c s n s' : step g c s (FinishOk n) = Some s' ->
  n < size g /\ st s n = Running /\ s' = complete_ok g s n.
Proof.
  unfold step. intro H. grd H E. boolp. inversion H. auto.
Qed.

Lemma step_FinishFail g c s n s' : step g c s (FinishFail n) = Some s' ->
  n < size g /\ st s n = Running /\ s' = complete_fail g c s n.
Proof.
  unfold step. intro H. grd H E. boolp. inversion H. auto.
Qed.

Lemma step_FinishCancelled g c s n s' : step g c s (FinishCancelled n) = Some s' ->
  n < size g /\ st s n = Running /\ inner_cancelled s = true /\
  s' = set_st s (upd (st s) n Aborted).
Proof.
  unfold step. intro H. grd H E. boolp. inversion H. auto.
Qed.

Lemma step_CtxCancel g c s s' : step g c s CtxCancel = Some s' ->
  ctxc s = false /\
  s' = mkState (st s) (cp s) (cmd s) (fft s) true (dead s) (ret s) (snap s).
Proof.
  unfold step. intro H. grd H E. boolp. inversion H. auto.
Qed.

Lemma step_WorkerExit g c s s' : step g c s WorkerExit = Some s' ->
  closed s = true /\ running g s + dead s < W c /\
  s' = mkState (st s) (cp s) (cmd s) (fft s) (ctxc s) (S (dead s)) (ret s) (snap s).
Proof.
  unfold step. intro H. grd H E. boolp. inversion H. auto.
Qed.

Lemma step_WalkReturn g c s s' : step g c s WalkReturn = Some s' ->
  ret s = false /\ (all_final g s = true \/ inner_cancelled s = true) /\
  s' = mkState (st s) (if inner_cancelled s then fun _ => true else cp s)
               (cmd s) (fft s) (ctxc s) (dead s) true (fun m => entry_of (st s m)).
Proof.
  unfold step. intro H. grd H E. boolp. inversion H.
  repeat split; auto. apply orb_true_iff. assumption.
Qed.

(* ------------------------------------------------------------------ release, complete_ok, complete_fail *)

Lemma release_spec g f n m :
  (f m <> Parked /\ release g f n m = f m) \/
  (f m = Parked /\ mem_nat n (deps g m) = true /\ deps_ok g f m = true /\ release g f n m = Ready) \/
  (f m = Parked /\ (mem_nat n (deps g m) = false \/ deps_ok g f m = false) /\ release g f n m = Parked).
Proof.
  unfold release. destruct (f m) eqn:E; try (left; split; [discriminate|reflexivity]).
  right. destruct (mem_nat n (deps g m)) eqn:E1; destruct (deps_ok g f m) eqn:E2; simpl; auto.
Qed.

Lemma deps_ok_spec g f m : deps_ok g f m = true <-> forall d, In d (deps g m) -> f d = Ok.
Proof.
  unfold deps_ok. rewrite forallb_forall. split; intros H d Hd; specialize (H d Hd).
  - destruct (f d); simpl in H; try discriminate H. reflexivity.
  - rewrite H. reflexivity.
Qed.

Lemma deps_ok_false g f m : deps_ok g f m = false -> exists d, In d (deps g m) /\ f d <> Ok.
Proof.
  unfold deps_ok. induction (deps g m) as [|d l IH]; simpl; intro H; [discriminate H|].
  apply andb_false_iff in H. destruct H as [H|H].
  - exists d. split; [left; reflexivity|]. intro E. rewrite E in H. discriminate H.
  - destruct (IH H) as [d' [Hd' Hn]]. exists d'. split; [right; exact Hd'|exact Hn].
Qed.

Lemma release_ok g f n m : f m = Ok -> release g f n m = Ok.
Proof.
  intro H. destruct (release_spec g f n m) as [[_ E]|[[E _]|[E _]]]; congruence.
Qed.

Lemma release_not_ok g f n m : f m <> Ok -> release g f n m <> Ok.
Proof.
  intro H. destruct (release_spec g f n m) as [[_ E]|[[_ [_ [_ E]]]|[_ [_ E]]]]; rewrite E; congruence.
Qed.

(* what FinishOk does to the statuses *)
Lemma complete_ok_cases g s n m : st s n = Running ->
  st (complete_ok g s n) m = st s m \/
  (m = n /\ st (complete_ok g s n) m = Ok) \/
  (st s m = Parked /\ st (complete_ok g s n) m = Ready /\ fft s = false /\
   forall d, In d (deps g m) -> st (complete_ok g s n) d = Ok).
Proof.
  intro HR. proj. destruct (fft s) eqn:EF.
  - destruct (Nat.eq_dec m n) as [E|E].
    + subst. right. left. split; [reflexivity|apply upd_same].
    + left. apply upd_other. exact E.
  - destruct (Nat.eq_dec m n) as [E|E].
    + subst. right. left. split; [reflexivity|]. apply release_ok. apply upd_same.
    + destruct (release_spec g (upd (st s) n Ok) n m) as [[_ R]|[[P [_ [D R]]]|[P [_ R]]]].
      * left. rewrite R. apply upd_other. exact E.
      * right. right. rewrite upd_other in P by exact E. repeat split; auto.
        intros d Hd. apply release_ok. rewrite deps_ok_spec in D. apply D. exact Hd.
      * left. rewrite R. rewrite upd_other in P by exact E. symmetry. exact P.
Qed.

Lemma complete_ok_n g s n : st (complete_ok g s n) n = Ok.
Proof.
  proj. destruct (fft s); [apply upd_same|apply release_ok; apply upd_same].
Qed.

Lemma complete_ok_parked g s n m : fft s = false ->
  st (complete_ok g s n) m = Parked ->
  st s m = Parked /\ m <> n /\
  (~ In n (deps g m) \/ exists d, In d (deps g m) /\ d <> n /\ st s d <> Ok).
Proof.
  intros EF HP. proj. rewrite EF in HP.
  destruct (release_spec g (upd (st s) n Ok) n m) as [[NP R]|[[_ [_ [_ R]]]|[P [C _]]]].
  - rewrite R in HP. contradiction.
  - rewrite R in HP. discriminate HP.
  - assert (Hmn : m <> n). { intro E. subst. rewrite upd_same in P. discriminate P. }
    rewrite upd_other in P by exact Hmn. split; [exact P|]. split; [exact Hmn|].
    destruct C as [C|C].
    + left. intro HI. apply mem_nat_In in HI. rewrite HI in C. discriminate C.
    + right. destruct (deps_ok_false _ _ _ C) as [d [Hd Hn]]. exists d. split; [exact Hd|].
      assert (Hdn : d <> n). { intro E. subst. rewrite upd_same in Hn. apply Hn. reflexivity. }
      split; [exact Hdn|]. rewrite upd_other in Hn by exact Hdn. exact Hn.
Qed.

Lemma complete_fail_spec g c s n :
  st (complete_fail g c s n) = upd (st s) n Failed /\
  cmd (complete_fail g c s n) = cmd s /\
  ctxc (complete_fail g c s n) = ctxc s /\
  dead (complete_fail g c s n) = dead s /\
  ret (complete_fail g c s n) = ret s /\
  snap (complete_fail g c s n) = snap s /\
  ((fft s = true /\ fft (complete_fail g c s n) = true /\ cp (complete_fail g c s n) = cp s) \/
   (fft s = false /\ ff c = true /\ fft (complete_fail g c s n) = true /\
    cp (complete_fail g c s n) = (fun _ => true)) \/
   (fft s = false /\ ff c = false /\ fft (complete_fail g c s n) = false /\
    cp (complete_fail g c s n) = (fun m => cp s m || mem_nat m (desc g n)))).
Proof.
  unfold complete_fail. destruct (fft s) eqn:EF; [|destruct (ff c) eqn:EC]; cbn [st cp cmd fft ctxc dead ret snap];
    repeat split; auto.
  - right. left. auto.
  - right. right. auto.
Qed.

(* ------------------------------------------------------------------ reach and desc *)

Lemma deps_beyond g m : size g <= m -> deps g m = [].
Proof. intro H. unfold deps. apply nth_overflow. exact H. Qed.

Lemma reach_lt_size g a m : reach g a m -> m < size g.
Proof.
  intro H. destruct (Nat.lt_ge_cases m (size g)) as [L|L]; [exact L|].
  apply deps_beyond in L. destruct H as [a n HI|a b n _ HI]; rewrite L in HI; destruct HI.
Qed.

Lemma reach_topo_lt g a m : topo g -> reach g a m -> a < m.
Proof.
  intros HT H. induction H as [a n HI|a b n _ IH HI].
  - apply HT. exact HI.
  - apply HT in HI. lia.
Qed.

Lemma reach_app g a b n : reach g a b -> reach g b n -> reach g a n.
Proof.
  intros Hab Hbn. induction Hbn as [b n HI|b b' n _ IH HI].
  - eapply reach_trans; eassumption.
  - eapply reach_trans; [apply IH; exact Hab|exact HI].
Qed.

Lemma desc_upto_sound g a k m : In m (desc_upto g a k) -> m < k /\ reach g a m.
Proof.
  revert m. induction k as [|k IH]; simpl; intros m H; [destruct H|].
  destruct (existsb _ (deps g k)) eqn:E.
  - destruct H as [H|H].
    + subst m. split; [lia|].
      apply existsb_exists in E. destruct E as [d [Hd E]].
      apply orb_true_iff in E. destruct E as [E|E].
      * apply Nat.eqb_eq in E. subst d. apply reach_step. exact Hd.
      * apply mem_nat_In in E. apply IH in E. eapply reach_trans; [apply E|exact Hd].
    + apply IH in H. split; [lia|apply H].
  - apply IH in H. split; [lia|apply H].
Qed.

Lemma desc_upto_complete g a k m : topo g -> m < k -> reach g a m -> In m (desc_upto g a k).
Proof.
  intros HT. revert m. induction k as [|k IH]; intros m Hm HR; [lia|]. simpl.
  assert (Hlt : m < k \/ m = k) by lia. destruct Hlt as [Hlt|Heq].
  - specialize (IH m Hlt HR). destruct (existsb _ (deps g k)); [right|]; exact IH.
  - subst m.
    assert (E : existsb (fun d => Nat.eqb d a || mem_nat d (desc_upto g a k)) (deps g k) = true).
    { apply existsb_exists. inversion HR as [a' n' HI|a' b n' Hab HI]; subst.
      - exists a. split; [exact HI|]. rewrite Nat.eqb_refl. reflexivity.
      - exists b. split; [exact HI|]. apply orb_true_iff. right. apply mem_nat_In.
        apply IH; [apply HT in HI; exact HI|exact Hab]. }
    rewrite E. left. reflexivity.
Qed.

Lemma desc_spec g a m : topo g -> (mem_nat m (desc g a) = true <-> reach g a m).
Proof.
  intro HT. rewrite mem_nat_In. unfold desc. split.
  - intro H. apply desc_upto_sound in H. apply H.
  - intro H. apply desc_upto_complete; [exact HT|eapply reach_lt_size; exact H|exact H].
Qed.

Lemma desc_sound g a m : mem_nat m (desc g a) = true -> reach g a m.
Proof. rewrite mem_nat_In. unfold desc. intro H. apply desc_upto_sound in H. apply H. Qed.

(* ------------------------------------------------------------------ the invariant *)

Definition active (x : status) : Prop :=
  x = Ready \/ x = Queued \/ x = Running \/ x = Ok \/ x = Failed \/ x = Aborted.

Record Inv (g : graph) (c : config) (s : state) : Prop := {
  I_deps  : forall n d, active (st s n) -> In d (deps g n) -> st s d = Ok;
  I_eager : fft s = false -> forall n, st s n = Parked ->
            exists d, In d (deps g n) /\ st s d <> Ok;
  I_fail  : forall a n, st s a = Failed -> reach g a n -> cp s n = true;
  I_skip  : forall n, st s n = Skipped -> cp s n = true;
  I_cp    : forall n, cp s n = true ->
            (exists a, st s a = Failed /\ reach g a n) \/ fft s = true \/ ctxc s = true;
  I_abort : forall n, st s n = Aborted -> fft s = true \/ ctxc s = true;
  I_fft   : fft s = true -> ff c = true /\ forall n, cp s n = true;
  I_ret   : ret s = true ->
            (forall n, n < size g -> is_final (st s n) = true) \/
            ((fft s = true \/ ctxc s = true) /\ forall n, cp s n = true);
  I_dead  : dead s > 0 -> closed s = true
}.

Lemma inv_init g c : Inv g c (init g).
Proof.
  constructor; unfold init; cbn [st cp cmd fft ctxc dead ret snap].
  - intros n d HA HI. destruct (deps g n) eqn:E; [destruct HI|].
    unfold active in HA. repeat (destruct HA as [HA|HA]; try discriminate HA).
  - intros _ n HP. destruct (deps g n) as [|d l] eqn:E; [discriminate HP|].
    exists d. split; [left; reflexivity|]. destruct (deps g d); discriminate.
  - intros a n H. destruct (deps g a); discriminate H.
  - intros n H. destruct (deps g n); discriminate H.
  - intros n H. discriminate H.
  - intros n H. destruct (deps g n); discriminate H.
  - intro H. discriminate H.
  - intro H. discriminate H.
  - intro H. lia.
Qed.

(* a status change at one node, nothing else *)
Lemma inv_point g c s n x :
  Inv g c s ->
  st s n <> Ok -> st s n <> Failed ->
  x <> Parked -> x <> Ok -> x <> Failed ->
  (active x -> active (st s n)) ->
  (is_final (st s n) = true -> is_final x = true) ->
  (x = Skipped -> cp s n = true) ->
  (x = Aborted -> fft s = true \/ ctxc s = true) ->
  Inv g c (set_st s (upd (st s) n x)).
Proof.
  intros HI Ho1 Ho2 Hx1 Hx2 Hx3 Hact Hfin Hskip Hab.
  destruct HI as [Jd Je Jf Js Jc Ja Jt Jr Jdd].
  constructor; proj.
  - intros m d HA Hd.
    assert (Hsd : st s d = Ok).
    { destruct (Nat.eq_dec m n) as [E|E].
      - subst m. rewrite upd_same in HA. apply (Jd n d); [apply Hact; exact HA|exact Hd].
      - rewrite upd_other in HA by exact E. apply (Jd m d); assumption. }
    assert (Hdn : d <> n) by (intro E; subst d; contradiction).
    rewrite upd_other by exact Hdn. exact Hsd.
  - intros EF m HP.
    assert (Hmn : m <> n) by (intro E; subst m; rewrite upd_same in HP; contradiction).
    rewrite upd_other in HP by exact Hmn.
    destruct (Je EF m HP) as [d [Hd Hn]]. exists d. split; [exact Hd|].
    destruct (Nat.eq_dec d n) as [E|E].
    + subst d. rewrite upd_same. exact Hx2.
    + rewrite upd_other by exact E. exact Hn.
  - intros a m HF HR.
    assert (Han : a <> n) by (intro E; subst a; rewrite upd_same in HF; contradiction).
    rewrite upd_other in HF by exact Han. eapply Jf; eassumption.
  - intros m HS. destruct (Nat.eq_dec m n) as [E|E].
    + subst m. rewrite upd_same in HS. apply Hskip. exact HS.
    + rewrite upd_other in HS by exact E. apply Js. exact HS.
  - intros m HC. destruct (Jc m HC) as [[a [HF HR]]|H]; [|right; exact H].
    left. exists a. split; [|exact HR].
    assert (Han : a <> n) by (intro E; subst a; contradiction).
    rewrite upd_other by exact Han. exact HF.
  - intros m HA. destruct (Nat.eq_dec m n) as [E|E].
    + subst m. rewrite upd_same in HA. apply Hab. exact HA.
    + rewrite upd_other in HA by exact E. eapply Ja. exact HA.
  - exact Jt.
  - intro HR. destruct (Jr HR) as [H|H]; [left|right; exact H].
    intros m Hm. destruct (Nat.eq_dec m n) as [E|E].
    + subst m. rewrite upd_same. apply Hfin. apply H. exact Hm.
    + rewrite upd_other by exact E. apply H. exact Hm.
  - exact Jdd.
Qed.

Lemma complete_fail_facts g c s n : topo g -> Inv g c s ->
  let s' := complete_fail g c s n in
  st s' = upd (st s) n Failed /\ ctxc s' = ctxc s /\ dead s' = dead s /\ ret s' = ret s /\
  (fft s = true -> fft s' = true) /\
  (forall m, cp s m = true -> cp s' m = true) /\
  (fft s' = true -> ff c = true /\ forall m, cp s' m = true) /\
  (forall m, reach g n m -> cp s' m = true) /\
  (forall m, cp s' m = true -> cp s m = true \/ reach g n m \/ fft s' = true).
Proof.
  intros HT HI s'. subst s'.
  destruct (complete_fail_spec g c s n) as [E1 [_ [E3 [E4 [E5 [_ Hc]]]]]].
  repeat (split; [assumption|]).
  destruct Hc as [[F [F' C]]|[[F [FC [F' C]]]|[F [FC [F' C]]]]]; rewrite F', C.
  - destruct (I_fft _ _ _ HI F) as [A B]. repeat split; auto.
  - repeat split; auto.
  - repeat split.
    + intro H. rewrite F in H. discriminate H.
    + intros m H. rewrite H. reflexivity.
    + discriminate H.
    + discriminate H.
    + intros m H. apply orb_true_iff. right. apply desc_spec; assumption.
    + intros m H. apply orb_true_iff in H. destruct H as [H|H]; [left; exact H|].
      right. left. apply desc_sound. exact H.
Qed.

Lemma inv_complete_fail g c s n : topo g -> Inv g c s -> n < size g ->
  (st s n = Running \/ st s n = Queued) -> Inv g c (complete_fail g c s n).
Proof.
  intros HT HI Hn Hold.
  destruct (complete_fail_facts g c s n HT HI) as [E1 [E3 [E4 [E5 [M1 [M2 [M3 [M4 M5]]]]]]]].
  assert (Hact : active (st s n)).
  { unfold active. destruct Hold as [H|H]; rewrite H; auto. }
  assert (Hnf : is_final (st s n) = false) by (destruct Hold as [H|H]; rewrite H; reflexivity).
  assert (Hno : st s n <> Ok) by (destruct Hold as [H|H]; rewrite H; discriminate).
  assert (Hnfl : st s n <> Failed) by (destruct Hold as [H|H]; rewrite H; discriminate).
  assert (Hnp : st s n <> Parked) by (destruct Hold as [H|H]; rewrite H; discriminate).
  assert (Hns : st s n <> Skipped) by (destruct Hold as [H|H]; rewrite H; discriminate).
  assert (Hna : st s n <> Aborted) by (destruct Hold as [H|H]; rewrite H; discriminate).
  destruct HI as [Jd Je Jf Js Jc Ja Jt Jr Jdd].
  constructor; rewrite ?E1, ?E3, ?E4, ?E5.
  - intros m d HA Hd.
    assert (Hsd : st s d = Ok).
    { destruct (Nat.eq_dec m n) as [E|E].
      - subst m. apply (Jd n d); assumption.
      - rewrite upd_other in HA by exact E. apply (Jd m d); assumption. }
    assert (Hdn : d <> n) by (intro E; subst d; contradiction).
    rewrite upd_other by exact Hdn. exact Hsd.
  - intros EF m HP.
    assert (EF0 : fft s = false).
    { destruct (fft s) eqn:E; [|reflexivity]. rewrite (M1 eq_refl) in EF. discriminate EF. }
    assert (Hmn : m <> n) by (intro E; subst m; rewrite upd_same in HP; discriminate HP).
    rewrite upd_other in HP by exact Hmn.
    destruct (Je EF0 m HP) as [d [Hd Hnd]]. exists d. split; [exact Hd|].
    destruct (Nat.eq_dec d n) as [E|E].
    + subst d. rewrite upd_same. discriminate.
    + rewrite upd_other by exact E. exact Hnd.
  - intros a m HF HR. destruct (Nat.eq_dec a n) as [E|E].
    + subst a. apply M4. exact HR.
    + rewrite upd_other in HF by exact E. apply M2. eapply Jf; eassumption.
  - intros m HS.
    assert (Hmn : m <> n) by (intro E; subst m; rewrite upd_same in HS; discriminate HS).
    rewrite upd_other in HS by exact Hmn. apply M2. apply Js. exact HS.
  - intros m HC. destruct (M5 m HC) as [H|[H|H]].
    + destruct (Jc m H) as [[a [HF HR]]|[H1|H1]].
      * left. exists a. split; [|exact HR].
        assert (Han : a <> n) by (intro E; subst a; contradiction).
        rewrite upd_other by exact Han. exact HF.
      * right. left. apply M1. exact H1.
      * right. right. exact H1.
    + left. exists n. split; [apply upd_same|exact H].
    + right. left. exact H.
  - intros m HA.
    assert (Hmn : m <> n) by (intro E; subst m; rewrite upd_same in HA; discriminate HA).
    rewrite upd_other in HA by exact Hmn.
    destruct (Ja m HA) as [H|H]; [left; apply M1; exact H|right; exact H].
  - exact M3.
  - intro HR. destruct (Jr HR) as [H|[[H|H] H2]].
    + rewrite (H n Hn) in Hnf. discriminate Hnf.
    + right. split; [left; apply M1; exact H|]. intro m. apply M2. apply H2.
    + right. split; [right; exact H|]. intro m. apply M2. apply H2.
  - unfold closed. rewrite E3, E5. exact Jdd.
Qed.

Lemma inv_complete_ok g c s n : Inv g c s -> n < size g -> st s n = Running ->
  Inv g c (complete_ok g s n).
Proof.
  intros HI Hn HR.
  pose proof (fun m => complete_ok_cases g s n m HR) as HC.
  pose proof (complete_ok_n g s n) as HN.
  pose proof (complete_ok_parked g s n) as HP.
  assert (Ecp : cp (complete_ok g s n) = cp s) by reflexivity.
  assert (Efft : fft (complete_ok g s n) = fft s) by reflexivity.
  assert (Ectx : ctxc (complete_ok g s n) = ctxc s) by reflexivity.
  assert (Edead : dead (complete_ok g s n) = dead s) by reflexivity.
  assert (Eret : ret (complete_ok g s n) = ret s) by reflexivity.
  set (s' := complete_ok g s n) in *. clearbody s'.
  assert (K1 : forall m y, st s' m = y -> y <> Ok -> y <> Ready -> st s m = y).
  { intros m y Hy Y1 Y2. destruct (HC m) as [E|[[_ E]|[_ [E _]]]]; congruence. }
  assert (K2 : forall m, st s m = Ok -> st s' m = Ok).
  { intros m Hm. destruct (HC m) as [E|[[_ E]|[E _]]]; congruence. }
  assert (K3 : forall m, st s m = Failed -> st s' m = Failed).
  { intros m Hm. destruct (HC m) as [E|[[E _]|[E _]]]; congruence. }
  assert (K4 : forall d, d <> n -> st s d <> Ok -> st s' d <> Ok).
  { intros d Hd Hno. destruct (HC d) as [E|[[E _]|[_ [E _]]]]; congruence. }
  destruct HI as [Jd Je Jf Js Jc Ja Jt Jr Jdd].
  constructor; rewrite ?Ecp, ?Efft, ?Ectx, ?Edead, ?Eret.
  - intros m d HA Hd. destruct (HC m) as [E|[[E _]|[_ [_ [_ E]]]]].
    + rewrite E in HA. apply K2. apply (Jd m d); assumption.
    + subst m. apply K2. apply (Jd n d); [|exact Hd]. rewrite HR. unfold active. auto.
    + apply E. exact Hd.
  - intros EF m Hm. destruct (HP m EF Hm) as [P [Hmn [A|[d [Hd [Hdn Hno]]]]]].
    + destruct (Je EF m P) as [d [Hd Hno]]. exists d. split; [exact Hd|].
      apply K4; [|exact Hno]. intro E. subst d. contradiction.
    + exists d. split; [exact Hd|]. apply K4; assumption.
  - intros a m HF HRe. apply (Jf a m); [|exact HRe]. apply K1; [exact HF|discriminate|discriminate].
  - intros m HS. apply Js. apply K1; [exact HS|discriminate|discriminate].
  - intros m Hm. destruct (Jc m Hm) as [[a [HF HRe]]|H]; [|right; exact H].
    left. exists a. split; [apply K3; exact HF|exact HRe].
  - intros m HA. apply (Ja m). apply K1; [exact HA|discriminate|discriminate].
  - exact Jt.
  - intro Hret. destruct (Jr Hret) as [H|H]; [|right; exact H].
    specialize (H n Hn). rewrite HR in H. discriminate H.
  - unfold closed. rewrite Ectx, Eret. exact Jdd.
Qed.

Lemma inner_cancelled_true s : inner_cancelled s = true <-> fft s = true \/ ctxc s = true.
Proof. unfold inner_cancelled. apply orb_true_iff. Qed.

Lemma inner_cancelled_false s : inner_cancelled s = false <-> fft s = false /\ ctxc s = false.
Proof. unfold inner_cancelled. apply orb_false_iff. Qed.

Lemma all_final_spec g s : all_final g s = true <-> forall n, n < size g -> is_final (st s n) = true.
Proof.
  unfold all_final. rewrite forallb_forall. split.
  - intros H n Hn. apply H. apply in_seq. lia.
  - intros H n Hn. apply in_seq in Hn. apply H. lia.
Qed.

Lemma inv_step g c s e s' : topo g -> Inv g c s -> step g c s e = Some s' -> Inv g c s'.
Proof.
  intros HT HI HS. destruct e as [n|n|n|n|n|n|n|n| | |].
  - apply step_Start in HS. destruct HS as [Hn [Hst E]]. subst s'.
    apply inv_point; rewrite ?Hst; try discriminate; auto.
    intros _. unfold active. auto.
  - apply step_CancelRecv in HS. destruct HS as [Hn [Hst [Hcp E]]]. subst s'.
    apply inv_point; auto; try discriminate; try (destruct Hst as [H|H]; rewrite H; discriminate).
    unfold active. intro H. repeat (destruct H as [H|H]; try discriminate H).
  - apply step_Pick in HS. destruct HS as [Hn [Hst [_ E]]]. subst s'.
    apply inv_point; rewrite ?Hst; try discriminate; auto.
    intros _. unfold active. auto.
  - apply step_CmdStart in HS. destruct HS as [_ [_ [_ [_ E]]]]. subst s'.
    destruct HI as [Jd Je Jf Js Jc Ja Jt Jr Jdd]. constructor; assumption.
  - apply step_Reject in HS. destruct HS as [Hn [Hst [_ E]]]. subst s'.
    apply inv_complete_fail; auto.
  - apply step_FinishOk in HS. destruct HS as [Hn [Hst E]]. subst s'.
    apply inv_complete_ok; auto.
  - apply step_FinishFail in HS. destruct HS as [Hn [Hst E]]. subst s'.
    apply inv_complete_fail; auto.
  - apply step_FinishCancelled in HS. destruct HS as [Hn [Hst [Hic E]]]. subst s'.
    apply inner_cancelled_true in Hic.
    apply inv_point; rewrite ?Hst; try discriminate; auto.
    intros _. unfold active. auto.
  - apply step_CtxCancel in HS. destruct HS as [Hc E]. subst s'.
    destruct HI as [Jd Je Jf Js Jc Ja Jt Jr Jdd]. constructor; proj.
    + exact Jd.
    + exact Je.
    + exact Jf.
    + exact Js.
    + intros n H. right. right. reflexivity.
    + intros n H. right. reflexivity.
    + exact Jt.
    + intro H. destruct (Jr H) as [H1|[_ H1]]; [left; exact H1|right].
      split; [right; reflexivity|exact H1].
    + intros _. reflexivity.
  - apply step_WorkerExit in HS. destruct HS as [Hc [_ E]]. subst s'.
    destruct HI as [Jd Je Jf Js Jc Ja Jt Jr Jdd]. constructor; proj.
    + exact Jd.
    + exact Je.
    + exact Jf.
    + exact Js.
    + exact Jc.
    + exact Ja.
    + exact Jt.
    + exact Jr.
    + intros _. exact Hc.
  - apply step_WalkReturn in HS. destruct HS as [Hr [Hor E]]. subst s'.
    destruct HI as [Jd Je Jf Js Jc Ja Jt Jr Jdd]. constructor; proj.
    + exact Jd.
    + exact Je.
    + intros a n HF HRe. destruct (inner_cancelled s); [reflexivity|]. eapply Jf; eassumption.
    + intros n H. destruct (inner_cancelled s); [reflexivity|]. apply Js. exact H.
    + intros n H. destruct (inner_cancelled s) eqn:E; [|apply Jc; exact H].
      apply inner_cancelled_true in E. right. exact E.
    + exact Ja.
    + intro H. destruct (Jt H) as [H1 H2]. split; [exact H1|].
      intro n. destruct (inner_cancelled s); [reflexivity|apply H2].
    + intros _. destruct (inner_cancelled s) eqn:E.
      * right. apply inner_cancelled_true in E. split; [exact E|reflexivity].
      * left. destruct Hor as [H|H]; [|discriminate H]. apply all_final_spec. exact H.
    + intros _. unfold closed. proj. apply orb_true_r.
Qed.

Lemma run_from_inv g c evs : topo g -> forall s s', Inv g c s -> run_from g c s evs = Some s' -> Inv g c s'.
Proof.
  intro HT. induction evs as [|e r IH]; intros s s' HI HR; simpl in HR.
  - inversion HR. subst. exact HI.
  - destruct (step g c s e) as [s1|] eqn:E; [|discriminate HR].
    eapply IH; [|exact HR]. eapply inv_step; eassumption.
Qed.

Lemma run_inv g c evs s : topo g -> run g c evs = Some s -> Inv g c s.
Proof. intros HT H. eapply run_from_inv; [exact HT|apply inv_init|exact H]. Qed.

Lemma reachable_inv g c s : topo g -> reachable g c s -> Inv g c s.
Proof. intros HT [evs H]. eapply run_inv; eassumption. Qed.

(* ------------------------------------------------------------------ counting running nodes *)

Definition r1 (x : status) : nat := if is_running x then 1 else 0.

Lemma count_run_S f N : count_run f (S N) = count_run f N + r1 (f N).
Proof.
  unfold count_run, r1. rewrite seq_S, filter_app, app_length. simpl.
  destruct (is_running (f N)); reflexivity.
Qed.

Lemma count_run_0 f : count_run f 0 = 0.
Proof. reflexivity. Qed.

Lemma count_run_ext f h N : (forall m, m < N -> is_running (f m) = is_running (h m)) ->
  count_run f N = count_run h N.
Proof.
  induction N as [|N IH]; intro H; [reflexivity|].
  rewrite !count_run_S. rewrite IH by (intros m Hm; apply H; lia).
  unfold r1. rewrite (H N) by lia. reflexivity.
Qed.

Lemma count_run_zero f N : (forall m, m < N -> is_running (f m) = false) -> count_run f N = 0.
Proof.
  induction N as [|N IH]; intro H; [reflexivity|].
  rewrite count_run_S. rewrite IH by (intros m Hm; apply H; lia).
  unfold r1. rewrite (H N) by lia. reflexivity.
Qed.

Lemma count_run_upd f n x N : n < N ->
  count_run (upd f n x) N + r1 (f n) = count_run f N + r1 x.
Proof.
  induction N as [|N IH]; intro H; [lia|].
  rewrite !count_run_S.
  assert (C : n < N \/ n = N) by lia. destruct C as [C|C].
  - specialize (IH C). rewrite (upd_other _ f n x N) by lia. lia.
  - subst n. rewrite upd_same.
    rewrite (count_run_ext (upd f N x) f N).
    + lia.
    + intros m Hm. rewrite upd_other by lia. reflexivity.
Qed.

Lemma count_run_pos f N : count_run f N > 0 -> exists m, m < N /\ f m = Running.
Proof.
  induction N as [|N IH]; intro H; [rewrite count_run_0 in H; lia|].
  rewrite count_run_S in H. unfold r1 in H. destruct (f N) eqn:E; simpl in H;
    try (destruct IH as [m [Hm Hf]]; [lia|exists m; split; [lia|exact Hf]]).
  exists N. split; [lia|exact E].
Qed.

Lemma is_running_release g f n m : is_running (release g f n m) = is_running (f m).
Proof.
  destruct (release_spec g f n m) as [[_ R]|[[P [_ [_ R]]]|[P [_ R]]]]; rewrite R; try reflexivity;
    rewrite P; reflexivity.
Qed.

Lemma running_set_st g s n x : n < size g ->
  running g (set_st s (upd (st s) n x)) + r1 (st s n) = running g s + r1 x.
Proof. intro H. unfold running. proj. apply count_run_upd. exact H. Qed.

Lemma running_complete_ok g s n : n < size g -> st s n = Running ->
  running g (complete_ok g s n) + 1 = running g s.
Proof.
  intros H HR. unfold running. proj.
  pose proof (count_run_upd (st s) n Ok (size g) H) as HU. rewrite HR in HU.
  unfold r1 in HU. simpl in HU.
  destruct (fft s).
  - lia.
  - rewrite (count_run_ext _ (upd (st s) n Ok)); [lia|].
    intros m _. apply is_running_release.
Qed.

Lemma running_complete_fail g c s n : n < size g ->
  running g (complete_fail g c s n) + r1 (st s n) = running g s.
Proof.
  intro H. unfold running.
  destruct (complete_fail_spec g c s n) as [E _]. rewrite E.
  pose proof (count_run_upd (st s) n Failed (size g) H) as HU.
  unfold r1 in HU at 2. simpl in HU. lia.
Qed.

Lemma running_pos g s : running g s > 0 -> exists m, m < size g /\ st s m = Running.
Proof. unfold running. apply count_run_pos. Qed.

Lemma step_bound g c s e s' : running g s + dead s <= W c -> step g c s e = Some s' ->
  running g s' + dead s' <= W c.
Proof.
  intros HB HS. destruct e as [n|n|n|n|n|n|n|n| | |].
  - apply step_Start in HS. destruct HS as [Hn [Hst E]]. subst s'.
    pose proof (running_set_st g s n Queued Hn) as HU. rewrite Hst in HU.
    unfold r1 in HU. simpl in HU. proj. lia.
  - apply step_CancelRecv in HS. destruct HS as [Hn [Hst [Hcp E]]]. subst s'.
    pose proof (running_set_st g s n Skipped Hn) as HU.
    unfold r1 in HU. destruct Hst as [Hst|Hst]; rewrite Hst in HU; simpl in HU; proj; lia.
  - apply step_Pick in HS. destruct HS as [Hn [Hst [HL E]]]. subst s'.
    pose proof (running_set_st g s n Running Hn) as HU. rewrite Hst in HU.
    unfold r1 in HU. simpl in HU. proj. lia.
  - apply step_CmdStart in HS. destruct HS as [_ [_ [_ [_ E]]]]. subst s'. exact HB.
  - apply step_Reject in HS. destruct HS as [Hn [Hst [_ E]]]. subst s'.
    pose proof (running_complete_fail g c s n Hn) as HU. rewrite Hst in HU.
    unfold r1 in HU. simpl in HU.
    destruct (complete_fail_spec g c s n) as [_ [_ [_ [E4 _]]]]. rewrite E4. lia.
  - apply step_FinishOk in HS. destruct HS as [Hn [Hst E]]. subst s'.
    pose proof (running_complete_ok g s n Hn Hst) as HU.
    change (dead (complete_ok g s n)) with (dead s). lia.
  - apply step_FinishFail in HS. destruct HS as [Hn [Hst E]]. subst s'.
    pose proof (running_complete_fail g c s n Hn) as HU. rewrite Hst in HU.
    unfold r1 in HU. simpl in HU.
    destruct (complete_fail_spec g c s n) as [_ [_ [_ [E4 _]]]]. rewrite E4. lia.
  - apply step_FinishCancelled in HS. destruct HS as [Hn [Hst [_ E]]]. subst s'.
    pose proof (running_set_st g s n Aborted Hn) as HU. rewrite Hst in HU.
    unfold r1 in HU. simpl in HU. proj. lia.
  - apply step_CtxCancel in HS. destruct HS as [_ E]. subst s'. exact HB.
  - apply step_WorkerExit in HS. destruct HS as [_ [HL E]]. subst s'.
    change (running g s + S (dead s) <= W c). lia.
  - apply step_WalkReturn in HS. destruct HS as [_ [_ E]]. subst s'. exact HB.
Qed.

Lemma run_from_bound g c evs : forall s s', running g s + dead s <= W c ->
  run_from g c s evs = Some s' -> running g s' + dead s' <= W c.
Proof.
  induction evs as [|e r IH]; intros s s' HB HR; simpl in HR.
  - inversion HR. subst. exact HB.
  - destruct (step g c s e) as [s1|] eqn:E; [|discriminate HR].
    eapply IH; [|exact HR]. eapply step_bound; eassumption.
Qed.

Lemma running_init g : running g (init g) = 0.
Proof.
  unfold running. apply count_run_zero. intros m _. unfold init. cbn [st].
  destruct (deps g m); reflexivity.
Qed.

Lemma worker_bound g c evs s : run g c evs = Some s -> running g s + dead s <= W c.
Proof.
  intro H. eapply run_from_bound; [|exact H]. rewrite running_init. unfold init. cbn [dead]. lia.
Qed.

(* ------------------------------------------------------------------ C03: dependencies first *)

Lemma inv_deps_reach g c s : Inv g c s -> forall a n, reach g a n -> active (st s n) -> st s a = Ok.
Proof.
  intros HI a n HR. induction HR as [a n Hd|a b n Hab IH Hd]; intro HA.
  - eapply I_deps; eassumption.
  - apply IH. assert (E : st s b = Ok) by (eapply I_deps; eassumption).
    rewrite E. unfold active. auto.
Qed.

Lemma deps_first : forall g c evs s n a, topo g -> wf_graph g -> W c >= 1 ->
  run g c evs = Some s ->
  (st s n = Ready \/ st s n = Queued \/ st s n = Running \/ st s n = Ok \/ st s n = Failed \/
   st s n = Aborted) ->
  reach g a n -> st s a = Ok.
Proof.
  intros g c evs s n a HT _ _ HR HA Hre.
  eapply inv_deps_reach; [eapply run_inv; eassumption|exact Hre|exact HA].
Qed.

(* ------------------------------------------------------------------ status transitions *)

(* the second argument tells whether fail-fast has been triggered: then nothing is released *)
Definition legal (fftb : bool) (x y : status) : Prop :=
  match x, y with
  | Parked, Ready => fftb = false
  | Parked, Skipped | Ready, Skipped | Ready, Queued | Queued, Running | Queued, Failed
  | Running, Ok | Running, Failed | Running, Aborted => True
  | _, _ => False
  end.

Lemma point_legal (b : bool) (f : nat -> status) n x m : legal b (f n) x ->
  upd f n x m = f m \/ legal b (f m) (upd f n x m).
Proof.
  intro H. destruct (Nat.eq_dec m n) as [E|E].
  - subst m. right. rewrite upd_same. exact H.
  - left. apply upd_other. exact E.
Qed.

Lemma step_status_cases g c s e s' : step g c s e = Some s' ->
  forall m, st s' m = st s m \/ legal (fft s) (st s m) (st s' m).
Proof.
  intros HS m. destruct e as [n|n|n|n|n|n|n|n| | |].
  - apply step_Start in HS. destruct HS as [Hn [Hst E]]. subst s'. proj.
    apply point_legal. rewrite Hst. exact I.
  - apply step_CancelRecv in HS. destruct HS as [Hn [Hst [Hcp E]]]. subst s'. proj.
    apply point_legal. destruct Hst as [Hst|Hst]; rewrite Hst; exact I.
  - apply step_Pick in HS. destruct HS as [Hn [Hst [HL E]]]. subst s'. proj.
    apply point_legal. rewrite Hst. exact I.
  - apply step_CmdStart in HS. destruct HS as [_ [_ [_ [_ E]]]]. subst s'. left. reflexivity.
  - apply step_Reject in HS. destruct HS as [Hn [Hst [_ E]]]. subst s'.
    destruct (complete_fail_spec g c s n) as [E1 _]. rewrite E1.
    apply point_legal. rewrite Hst. exact I.
  - apply step_FinishOk in HS. destruct HS as [Hn [Hst E]]. subst s'.
    destruct (complete_ok_cases g s n m Hst) as [H|[[H1 H2]|[H1 [H2 [H3 _]]]]].
    + left. exact H.
    + right. subst m. rewrite H2, Hst. exact I.
    + right. rewrite H1, H2. exact H3.
  - apply step_FinishFail in HS. destruct HS as [Hn [Hst E]]. subst s'.
    destruct (complete_fail_spec g c s n) as [E1 _]. rewrite E1.
    apply point_legal. rewrite Hst. exact I.
  - apply step_FinishCancelled in HS. destruct HS as [Hn [Hst [_ E]]]. subst s'. proj.
    apply point_legal. rewrite Hst. exact I.
  - apply step_CtxCancel in HS. destruct HS as [_ E]. subst s'. left. reflexivity.
  - apply step_WorkerExit in HS. destruct HS as [_ [_ E]]. subst s'. left. reflexivity.
  - apply step_WalkReturn in HS. destruct HS as [_ [_ E]]. subst s'. left. reflexivity.
Qed.

(* flags are never reset *)
Lemma step_flags g c s e s' : step g c s e = Some s' ->
  (fft s = true -> fft s' = true) /\ (ctxc s = true -> ctxc s' = true) /\
  (ret s = true -> ret s' = true) /\ (forall n, cmd s n = true -> cmd s' n = true) /\
  dead s <= dead s'.
Proof.
  intros HS. destruct e as [n|n|n|n|n|n|n|n| | |].
  - apply step_Start in HS. destruct HS as [_ [_ E]]. subst s'. proj. repeat split; auto; lia.
  - apply step_CancelRecv in HS. destruct HS as [_ [_ [_ E]]]. subst s'. proj. repeat split; auto; lia.
  - apply step_Pick in HS. destruct HS as [_ [_ [_ E]]]. subst s'. proj. repeat split; auto; lia.
  - apply step_CmdStart in HS. destruct HS as [_ [_ [_ [_ E]]]]. subst s'. proj.
    repeat split; auto. intros m H. destruct (Nat.eq_dec m n) as [E|E].
    + subst. apply upd_same.
    + rewrite upd_other by exact E. exact H.
  - apply step_Reject in HS. destruct HS as [_ [_ [_ E]]]. subst s'.
    destruct (complete_fail_spec g c s n) as [_ [E2 [E3 [E4 [E5 [_ Hc]]]]]].
    rewrite E2, E3, E4, E5. repeat split; auto.
    intro H. destruct Hc as [[_ [F _]]|[[_ [_ [F _]]]|[F _]]]; congruence.
  - apply step_FinishOk in HS. destruct HS as [_ [_ E]]. subst s'. proj. repeat split; auto; lia.
  - apply step_FinishFail in HS. destruct HS as [_ [_ E]]. subst s'.
    destruct (complete_fail_spec g c s n) as [_ [E2 [E3 [E4 [E5 [_ Hc]]]]]].
    rewrite E2, E3, E4, E5. repeat split; auto.
    intro H. destruct Hc as [[_ [F _]]|[[_ [_ [F _]]]|[F _]]]; congruence.
  - apply step_FinishCancelled in HS. destruct HS as [_ [_ [_ E]]]. subst s'. proj. repeat split; auto; lia.
  - apply step_CtxCancel in HS. destruct HS as [_ E]. subst s'. proj. repeat split; auto; lia.
  - apply step_WorkerExit in HS. destruct HS as [_ [_ E]]. subst s'. proj. repeat split; auto; lia.
  - apply step_WalkReturn in HS. destruct HS as [_ [_ E]]. subst s'. proj. repeat split; auto; lia.
Qed.

(* ------------------------------------------------------------------ C03: at most once *)

Lemma count_potential g c (P : state -> nat) e0 :
  (forall s e s', step g c s e = Some s' -> P s' <= P s) ->
  (forall s s', step g c s e0 = Some s' -> P s' < P s) ->
  forall evs s s', run_from g c s evs = Some s' -> count_ev e0 evs + P s' <= P s.
Proof.
  intros Hmono Hstrict. induction evs as [|e r IH]; intros s s' HR; simpl in HR |- *.
  - inversion HR. lia.
  - destruct (step g c s e) as [s1|] eqn:E; [|discriminate HR].
    specialize (IH s1 s' HR). destruct (event_eqb e0 e) eqn:EE.
    + apply event_eqb_eq in EE. subst e. apply Hstrict in E. lia.
    + apply Hmono in E. lia.
Qed.

Definition pS (x : status) : nat := match x with Parked | Ready => 1 | _ => 0 end.
Definition pP (x : status) : nat := match x with Parked | Ready | Queued => 1 | _ => 0 end.

Lemma legal_pS b x y : legal b x y -> pS y <= pS x.
Proof. destruct x, y; simpl; intro H; try lia; contradiction. Qed.

Lemma legal_pP b x y : legal b x y -> pP y <= pP x.
Proof. destruct x, y; simpl; intro H; try lia; contradiction. Qed.

Lemma at_most_once : forall g c evs s n, run g c evs = Some s ->
  count_ev (Start n) evs <= 1 /\ count_ev (Pick n) evs <= 1 /\ count_ev (CmdStart n) evs <= 1.
Proof.
  intros g c evs s n HR. unfold run in HR. repeat split.
  - pose proof (count_potential g c (fun s => pS (st s n)) (Start n)) as HP.
    cbv beta in HP. specialize (fun A B => HP A B evs (init g) s HR).
    assert (HB : pS (st (init g) n) <= 1) by (destruct (st (init g) n); simpl; lia).
    cut (count_ev (Start n) evs + pS (st s n) <= pS (st (init g) n)); [lia|].
    apply HP.
    + intros s0 e s1 HS. destruct (step_status_cases _ _ _ _ _ HS n) as [E|L].
      * rewrite E. lia.
      * eapply legal_pS. exact L.
    + intros s0 s1 HS. apply step_Start in HS. destruct HS as [_ [Hst E]]. subst s1. proj.
      rewrite upd_same, Hst. simpl. lia.
  - pose proof (count_potential g c (fun s => pP (st s n)) (Pick n)) as HP.
    cbv beta in HP. specialize (fun A B => HP A B evs (init g) s HR).
    assert (HB : pP (st (init g) n) <= 1) by (destruct (st (init g) n); simpl; lia).
    cut (count_ev (Pick n) evs + pP (st s n) <= pP (st (init g) n)); [lia|].
    apply HP.
    + intros s0 e s1 HS. destruct (step_status_cases _ _ _ _ _ HS n) as [E|L].
      * rewrite E. lia.
      * eapply legal_pP. exact L.
    + intros s0 s1 HS. apply step_Pick in HS. destruct HS as [_ [Hst [_ E]]]. subst s1. proj.
      rewrite upd_same, Hst. simpl. lia.
  - pose proof (count_potential g c (fun s => if cmd s n then 0 else 1) (CmdStart n)) as HP.
    cbv beta in HP. specialize (fun A B => HP A B evs (init g) s HR).
    cut (count_ev (CmdStart n) evs + (if cmd s n then 0 else 1) <= (if cmd (init g) n then 0 else 1));
      [unfold init; cbn [cmd]; destruct (cmd s n); lia|].
    apply HP.
    + intros s0 e s1 HS. destruct (step_flags _ _ _ _ _ HS) as [_ [_ [_ [HC _]]]].
      specialize (HC n). destruct (cmd s0 n); [rewrite HC by reflexivity; lia|].
      destruct (cmd s1 n); lia.
    + intros s0 s1 HS. apply step_CmdStart in HS. destruct HS as [_ [_ [Hc [_ E]]]]. subst s1. proj.
      rewrite upd_same, Hc. lia.
Qed.

(* ------------------------------------------------------------------ C03: examples *)

Lemma worker_bound_tight_example :
  exists evs s, run (antichain 4) (mkConfig 3 false) evs = Some s /\
    running (antichain 4) s = 3 /\ st s 3 = Queued /\
    step (antichain 4) (mkConfig 3 false) s (Pick 3) = None.
Proof.
  exists [Start 0; Start 1; Start 2; Start 3; Pick 0; Pick 1; Pick 2].
  eexists. split; [vm_compute; reflexivity|].
  split; [vm_compute; reflexivity|]. split; vm_compute; reflexivity.
Qed.

Lemma diamond_example :
  exists evs s, run diamond (mkConfig 2 false) evs = Some s /\
    terminal diamond (mkConfig 2 false) s /\
    st s 0 = Ok /\ st s 1 = Ok /\ st s 2 = Ok /\ st s 3 = Ok.
Proof.
  exists [Start 0; Pick 0; FinishOk 0; Start 1; Start 2; Pick 1; Pick 2; FinishOk 1; FinishOk 2;
          Start 3; Pick 3; FinishOk 3; WalkReturn].
  eexists. split; [vm_compute; reflexivity|].
  unfold terminal. repeat split; vm_compute; reflexivity.
Qed.

(* node 3 waits for ALL its dependencies: 1 is done, 2 still runs, 3 stays parked *)
Lemma diamond_all_not_any_example :
  exists evs s, run diamond (mkConfig 2 false) evs = Some s /\
    st s 1 = Ok /\ st s 2 = Running /\ st s 3 = Parked /\
    step diamond (mkConfig 2 false) s (Start 3) = None.
Proof.
  exists [Start 0; Pick 0; FinishOk 0; Start 1; Start 2; Pick 1; Pick 2; FinishOk 1].
  eexists. split; [vm_compute; reflexivity|].
  repeat split; vm_compute; reflexivity.
Qed.

(* ------------------------------------------------------------------ C04: enabledness *)

(* events performed by the scheduler itself (or by a running task returning, which is the
   environment's obligation); excludes the external CtxCancel and the error/cancellation paths *)
Definition system_event (e : event) : bool :=
  match e with
  | Start _ | CancelRecv _ | Pick _ | FinishOk _ | WalkReturn => true
  | _ => false
  end.

Ltac in_list := simpl; repeat (first [left; reflexivity | right]).

Lemma in_all_events_node N n e : n < N -> In e (node_events n) -> In e (all_events N).
Proof.
  intros Hn He. unfold all_events. apply in_or_app. left. apply in_flat_map.
  exists n. split; [apply in_seq; lia|exact He].
Qed.

Lemma en_Start g c s n : n < size g -> st s n = Ready -> In (Start n) (enabled g c s).
Proof.
  intros Hn Hst. unfold enabled. apply filter_In. split.
  - apply in_all_events_node with n; [exact Hn|in_list].
  - unfold enabledb, step. apply Nat.ltb_lt in Hn. rewrite Hn, Hst. reflexivity.
Qed.

Lemma en_CancelRecv g c s n : n < size g -> (st s n = Parked \/ st s n = Ready) -> cp s n = true ->
  In (CancelRecv n) (enabled g c s).
Proof.
  intros Hn Hst Hcp. unfold enabled. apply filter_In. split.
  - apply in_all_events_node with n; [exact Hn|in_list].
  - unfold enabledb, step. apply Nat.ltb_lt in Hn. rewrite Hn, Hcp.
    destruct Hst as [Hst|Hst]; rewrite Hst; reflexivity.
Qed.

Lemma en_Pick g c s n : n < size g -> st s n = Queued -> running g s + dead s < W c ->
  In (Pick n) (enabled g c s).
Proof.
  intros Hn Hst HL. unfold enabled. apply filter_In. split.
  - apply in_all_events_node with n; [exact Hn|in_list].
  - unfold enabledb, step. apply Nat.ltb_lt in Hn. apply Nat.ltb_lt in HL.
    rewrite Hn, Hst, HL. reflexivity.
Qed.

Lemma en_FinishOk g c s n : n < size g -> st s n = Running -> In (FinishOk n) (enabled g c s).
Proof.
  intros Hn Hst. unfold enabled. apply filter_In. split.
  - apply in_all_events_node with n; [exact Hn|in_list].
  - unfold enabledb, step. apply Nat.ltb_lt in Hn. rewrite Hn, Hst. reflexivity.
Qed.

Lemma en_WalkReturn g c s : ret s = false -> (all_final g s = true \/ inner_cancelled s = true) ->
  In WalkReturn (enabled g c s).
Proof.
  intros Hr Hor. unfold enabled. apply filter_In. split.
  - unfold all_events. apply in_or_app. right. in_list.
  - unfold enabledb, step. rewrite Hr. apply orb_true_iff in Hor. rewrite Hor. reflexivity.
Qed.

Lemma forallb_false_ex A (p : A -> bool) l : forallb p l = false -> exists x, In x l /\ p x = false.
Proof.
  induction l as [|a l IH]; simpl; intro H; [discriminate H|].
  apply andb_false_iff in H. destruct H as [H|H].
  - exists a. auto.
  - destruct (IH H) as [x [Hx Hp]]. exists x. auto.
Qed.

Lemma queued_progress g c s n : n < size g -> st s n = Queued ->
  running g s + dead s <= W c -> dead s < W c ->
  exists e, In e (enabled g c s) /\ system_event e = true.
Proof.
  intros Hn Hst HB HD.
  destruct (Nat.lt_ge_cases (running g s + dead s) (W c)) as [L|L].
  - exists (Pick n). split; [apply en_Pick; assumption|reflexivity].
  - destruct (running_pos g s) as [m [Hm HR]]; [lia|].
    exists (FinishOk m). split; [apply en_FinishOk; assumption|reflexivity].
Qed.

Lemma progress_open g c s : topo g -> Inv g c s ->
  running g s + dead s <= W c -> W c >= 1 ->
  ret s = false -> inner_cancelled s = false ->
  forall n, n < size g -> is_final (st s n) = false ->
  exists e, In e (enabled g c s) /\ system_event e = true.
Proof.
  intros HT HI HB HW Hr Hic. apply inner_cancelled_false in Hic. destruct Hic as [EF EC].
  induction n as [n IH] using lt_wf_ind. intros Hn Hnf.
  destruct (st s n) eqn:E; try discriminate Hnf.
  - (* Parked *)
    destruct (I_eager _ _ _ HI EF n E) as [d [Hd Hno]].
    assert (Hdn : d < n) by (apply HT; exact Hd).
    assert (Hcp : cp s n = true -> exists e, In e (enabled g c s) /\ system_event e = true).
    { intro Hcp. exists (CancelRecv n). split; [apply en_CancelRecv; auto|reflexivity]. }
    destruct (st s d) eqn:Ed; try (apply (IH d Hdn); [lia|rewrite Ed; reflexivity]).
    + contradiction Hno. reflexivity.
    + apply Hcp. apply (I_fail _ _ _ HI d n Ed). apply reach_step. exact Hd.
    + pose proof (I_skip _ _ _ HI d Ed) as Hcd.
      destruct (I_cp _ _ _ HI d Hcd) as [[a [Ha Hr']]|[H|H]]; try congruence.
      apply Hcp. apply (I_fail _ _ _ HI a n Ha). eapply reach_trans; eassumption.
    + destruct (I_abort _ _ _ HI d Ed) as [H|H]; congruence.
  - exists (Start n). split; [apply en_Start; assumption|reflexivity].
  - apply (queued_progress g c s n Hn E HB).
    destruct (dead s) eqn:ED; [lia|].
    assert (HC : closed s = true) by (apply (I_dead _ _ _ HI); lia).
    unfold closed in HC. rewrite EC, Hr in HC. discriminate HC.
  - exists (FinishOk n). split; [apply en_FinishOk; assumption|reflexivity].
Qed.

Lemma no_deadlock : forall g c s, topo g -> wf_graph g -> W c >= 1 ->
  reachable g c s -> ~ terminal g c s ->
  exists e, In e (enabled g c s) /\ system_event e = true.
Proof.
  intros g c s HT _ HW Hreach Hnt.
  pose proof (reachable_inv g c s HT Hreach) as HI.
  assert (HB : running g s + dead s <= W c).
  { destruct Hreach as [evs HR]. eapply worker_bound. exact HR. }
  destruct (ret s) eqn:Hr.
  - (* Walk has returned *)
    unfold terminal, terminalb in Hnt. rewrite Hr in Hnt. simpl in Hnt.
    destruct (forallb (settledb c s) (seq 0 (size g))) eqn:EA; [contradiction Hnt; reflexivity|].
    apply forallb_false_ex in EA. destruct EA as [n [Hn Hs]]. apply in_seq in Hn.
    assert (Hn' : n < size g) by lia.
    unfold settledb in Hs. apply orb_false_iff in Hs. destruct Hs as [Hnf Hq].
    destruct (I_ret _ _ _ HI Hr) as [H|[_ Hcp]].
    { rewrite (H n Hn') in Hnf. discriminate Hnf. }
    destruct (st s n) eqn:E; try discriminate Hnf.
    + exists (CancelRecv n). split; [apply en_CancelRecv; auto|reflexivity].
    + exists (Start n). split; [apply en_Start; assumption|reflexivity].
    + apply (queued_progress g c s n Hn' E HB).
      unfold closed in Hq. rewrite Hr in Hq. rewrite orb_true_r in Hq. simpl in Hq.
      apply Nat.eqb_neq in Hq. lia.
    + exists (FinishOk n). split; [apply en_FinishOk; assumption|reflexivity].
  - destruct (inner_cancelled s) eqn:EI.
    { exists WalkReturn. split; [apply en_WalkReturn; auto|reflexivity]. }
    destruct (all_final g s) eqn:EA.
    { exists WalkReturn. split; [apply en_WalkReturn; auto|reflexivity]. }
    unfold all_final in EA. apply forallb_false_ex in EA. destruct EA as [n [Hn Hnf]].
    apply in_seq in Hn.
    apply (progress_open g c s HT HI HB HW Hr EI n); [lia|exact Hnf].
Qed.

(* ------------------------------------------------------------------ C04: the measure *)

Lemma sum_le (f h : nat -> nat) l : (forall n, In n l -> f n <= h n) ->
  fold_right (fun n acc => f n + acc) 0 l <= fold_right (fun n acc => h n + acc) 0 l.
Proof.
  induction l as [|a l IH]; simpl; intro H; [lia|].
  assert (Ha : f a <= h a) by (apply H; left; reflexivity).
  assert (Hl : forall n, In n l -> f n <= h n) by (intros n Hn; apply H; right; exact Hn).
  specialize (IH Hl). lia.
Qed.

Lemma sum_lt (f h : nat -> nat) l x : (forall n, In n l -> f n <= h n) -> In x l -> f x < h x ->
  fold_right (fun n acc => f n + acc) 0 l < fold_right (fun n acc => h n + acc) 0 l.
Proof.
  induction l as [|a l IH]; simpl; intros H Hx Hlt; [destruct Hx|].
  assert (Ha : f a <= h a) by (apply H; left; reflexivity).
  assert (Hl : forall n, In n l -> f n <= h n) by (intros n Hn; apply H; right; exact Hn).
  destruct Hx as [Hx|Hx].
  - subst a. pose proof (sum_le f h l Hl). lia.
  - specialize (IH Hl Hx Hlt). lia.
Qed.

Lemma sum_bound (f : nat -> nat) k l : (forall n, f n <= k) ->
  fold_right (fun n acc => f n + acc) 0 l <= k * length l.
Proof.
  intro H. induction l as [|a l IH]; simpl; [lia|]. specialize (H a). lia.
Qed.

Lemma legal_phi b x y : legal b x y -> phi y < phi x.
Proof. destruct x, y; simpl; intro H; try lia; contradiction. Qed.

Lemma node_mu_mono g c s e s' : step g c s e = Some s' -> forall m, node_mu s' m <= node_mu s m.
Proof.
  intros HS m. unfold node_mu.
  destruct (step_flags _ _ _ _ _ HS) as [_ [_ [_ [HC _]]]]. specialize (HC m).
  assert (H1 : phi (st s' m) <= phi (st s m)).
  { destruct (step_status_cases _ _ _ _ _ HS m) as [E|L].
    - rewrite E. lia.
    - apply legal_phi in L. lia. }
  destruct (cmd s m); [rewrite HC by reflexivity; lia|]. destruct (cmd s' m); lia.
Qed.

Lemma glob_mu_mono g c s e s' : step g c s e = Some s' -> glob_mu c s' <= glob_mu c s.
Proof.
  intros HS. unfold glob_mu.
  destruct (step_flags _ _ _ _ _ HS) as [_ [H1 [H2 [_ H3]]]].
  assert (A : (if ctxc s' then 0 else 1) <= (if ctxc s then 0 else 1)).
  { destruct (ctxc s); [rewrite H1 by reflexivity; lia|]. destruct (ctxc s'); lia. }
  assert (B : (if ret s' then 0 else 1) <= (if ret s then 0 else 1)).
  { destruct (ret s); [rewrite H2 by reflexivity; lia|]. destruct (ret s'); lia. }
  lia.
Qed.

Lemma step_strict g c s e s' : step g c s e = Some s' ->
  (exists n, n < size g /\ node_mu s' n < node_mu s n) \/ glob_mu c s' < glob_mu c s.
Proof.
  intros HS. destruct e as [n|n|n|n|n|n|n|n| | |].
  - apply step_Start in HS. destruct HS as [Hn [Hst E]]. subst s'. left. exists n.
    split; [exact Hn|]. unfold node_mu. proj. rewrite upd_same, Hst. simpl. lia.
  - apply step_CancelRecv in HS. destruct HS as [Hn [Hst [_ E]]]. subst s'. left. exists n.
    split; [exact Hn|]. unfold node_mu. proj. rewrite upd_same.
    destruct Hst as [Hst|Hst]; rewrite Hst; simpl; lia.
  - apply step_Pick in HS. destruct HS as [Hn [Hst [_ E]]]. subst s'. left. exists n.
    split; [exact Hn|]. unfold node_mu. proj. rewrite upd_same, Hst. simpl. lia.
  - apply step_CmdStart in HS. destruct HS as [Hn [_ [Hc [_ E]]]]. subst s'. left. exists n.
    split; [exact Hn|]. unfold node_mu. proj. rewrite upd_same, Hc. lia.
  - apply step_Reject in HS. destruct HS as [Hn [Hst [_ E]]]. subst s'. left. exists n.
    split; [exact Hn|]. unfold node_mu.
    destruct (complete_fail_spec g c s n) as [E1 [E2 _]]. rewrite E1, E2, upd_same, Hst. simpl. lia.
  - apply step_FinishOk in HS. destruct HS as [Hn [Hst E]]. subst s'. left. exists n.
    split; [exact Hn|]. unfold node_mu. rewrite complete_ok_n, Hst.
    change (cmd (complete_ok g s n)) with (cmd s). simpl. lia.
  - apply step_FinishFail in HS. destruct HS as [Hn [Hst E]]. subst s'. left. exists n.
    split; [exact Hn|]. unfold node_mu.
    destruct (complete_fail_spec g c s n) as [E1 [E2 _]]. rewrite E1, E2, upd_same, Hst. simpl. lia.
  - apply step_FinishCancelled in HS. destruct HS as [Hn [Hst [_ E]]]. subst s'. left. exists n.
    split; [exact Hn|]. unfold node_mu. proj. rewrite upd_same, Hst. simpl. lia.
  - apply step_CtxCancel in HS. destruct HS as [Hc E]. subst s'. right.
    unfold glob_mu. proj. rewrite Hc. lia.
  - apply step_WorkerExit in HS. destruct HS as [_ [HL E]]. subst s'. right.
    unfold glob_mu. proj. lia.
  - apply step_WalkReturn in HS. destruct HS as [Hr [_ E]]. subst s'. right.
    unfold glob_mu. proj. rewrite Hr. lia.
Qed.

Lemma measure : forall g c s e s', step g c s e = Some s' -> mu g c s' < mu g c s.
Proof.
  intros g c s e s' HS. unfold mu.
  pose proof (node_mu_mono _ _ _ _ _ HS) as HN.
  pose proof (glob_mu_mono _ _ _ _ _ HS) as HG.
  destruct (step_strict _ _ _ _ _ HS) as [[n [Hn Hlt]]|Hlt].
  - assert (L : fold_right (fun n acc => node_mu s' n + acc) 0 (seq 0 (size g)) <
                fold_right (fun n acc => node_mu s n + acc) 0 (seq 0 (size g))).
    { apply sum_lt with n; [intros m _; apply HN|apply in_seq; lia|exact Hlt]. }
    lia.
  - assert (L : fold_right (fun n acc => node_mu s' n + acc) 0 (seq 0 (size g)) <=
                fold_right (fun n acc => node_mu s n + acc) 0 (seq 0 (size g))).
    { apply sum_le. intros m _. apply HN. }
    lia.
Qed.

Lemma run_from_length g c evs : forall s s', run_from g c s evs = Some s' ->
  length evs + mu g c s' <= mu g c s.
Proof.
  induction evs as [|e r IH]; intros s s' HR; simpl in HR |- *.
  - inversion HR. lia.
  - destruct (step g c s e) as [s1|] eqn:E; [|discriminate HR].
    apply measure in E. specialize (IH s1 s' HR). lia.
Qed.

Lemma mu_init g c : mu g c (init g) <= 5 * size g + W c + 2.
Proof.
  unfold mu.
  assert (A : fold_right (fun n acc => node_mu (init g) n + acc) 0 (seq 0 (size g)) <= 5 * size g).
  { pose proof (sum_bound (node_mu (init g)) 5 (seq 0 (size g))) as H.
    rewrite seq_length in H. apply H. intro n. unfold node_mu, init. cbn [st cmd].
    destruct (deps g n); simpl; lia. }
  assert (B : glob_mu c (init g) = W c + 2).
  { unfold glob_mu, init. cbn [ctxc dead ret]. lia. }
  lia.
Qed.

Lemma bounded : forall g c evs s, run g c evs = Some s -> length evs <= 5 * size g + W c + 2.
Proof.
  intros g c evs s HR. apply run_from_length in HR. pose proof (mu_init g c). lia.
Qed.

(* ------------------------------------------------------------------ C04: terminal states *)

Lemma terminal_spec g c s : terminal g c s <->
  ret s = true /\ forall n, n < size g -> settledb c s n = true.
Proof.
  unfold terminal, terminalb. rewrite andb_true_iff, forallb_forall. split.
  - intros [H1 H2]. split; [exact H1|]. intros n Hn. apply H2. apply in_seq. lia.
  - intros [H1 H2]. split; [exact H1|]. intros n Hn. apply in_seq in Hn. apply H2. lia.
Qed.

Lemma settled_cases c s n : settledb c s n = true ->
  st s n = Ok \/ st s n = Failed \/ st s n = Skipped \/ st s n = Aborted \/
  (st s n = Queued /\ closed s = true /\ dead s = W c).
Proof.
  unfold settledb. intro H. apply orb_true_iff in H. destruct H as [H|H].
  - destruct (st s n); simpl in H; try discriminate H; auto.
  - apply andb_true_iff in H. destruct H as [H H3]. apply andb_true_iff in H. destruct H as [H1 H2].
    apply status_eqb_eq in H1. apply Nat.eqb_eq in H3. right. right. right. right. auto.
Qed.

Lemma all_resolved : forall g c s, topo g -> wf_graph g -> W c >= 1 ->
  reachable g c s -> terminal g c s ->
  forall n, n < size g ->
  (st s n = Ok \/ st s n = Failed \/ st s n = Skipped \/ st s n = Aborted \/
   (st s n = Queued /\ closed s = true /\ dead s = W c)) /\
  (st s n = Aborted \/ st s n = Queued -> fft s = true \/ ctxc s = true) /\
  (st s n = Skipped ->
   (exists a, st s a = Failed /\ reach g a n) \/ fft s = true \/ ctxc s = true).
Proof.
  intros g c s HT _ _ Hreach Hterm n Hn.
  pose proof (reachable_inv g c s HT Hreach) as HI.
  apply terminal_spec in Hterm. destruct Hterm as [Hr Hall].
  split; [apply settled_cases; apply Hall; exact Hn|]. split.
  - intros [H|H].
    + eapply I_abort; eassumption.
    + destruct (I_ret _ _ _ HI Hr) as [F|[F _]]; [|exact F].
      specialize (F n Hn). rewrite H in F. discriminate F.
  - intro H. apply (I_cp _ _ _ HI). apply (I_skip _ _ _ HI). exact H.
Qed.

Lemma no_cancel_all_done : forall g c s, topo g -> wf_graph g -> W c >= 1 ->
  reachable g c s -> terminal g c s -> fft s = false -> ctxc s = false ->
  forall n, n < size g ->
  st s n = Ok \/ st s n = Failed \/
  (st s n = Skipped /\ exists a, st s a = Failed /\ reach g a n).
Proof.
  intros g c s HT HW1 HW Hreach Hterm EF EC n Hn.
  destruct (all_resolved g c s HT HW1 HW Hreach Hterm n Hn) as [H1 [H2 H3]].
  destruct H1 as [H|[H|[H|[H|[H _]]]]]; auto.
  - right. right. split; [exact H|]. destruct (H3 H) as [A|[A|A]]; [exact A|congruence|congruence].
  - destruct H2 as [A|A]; [auto|congruence|congruence].
  - destruct H2 as [A|A]; [auto|congruence|congruence].
Qed.

(* ------------------------------------------------------------------ C04: the map handed to the caller *)

(* Walk hands out a snapshot: no event after the return changes the map the caller holds.  (Before
   "fix: Walk returns a copy of the completions ..." the caller held w.completions itself and every
   late FinishOk / FinishFail / Reject wrote it while the caller read it without the mutex.) *)
Lemma step_snap g c s e s' : step g c s e = Some s' ->
  (ret s' = ret s /\ snap s' = snap s) \/
  (e = WalkReturn /\ ret s = false /\ ret s' = true /\ st s' = st s /\
   snap s' = fun m => entry_of (st s m)).
Proof.
  intros HS. destruct e as [n|n|n|n|n|n|n|n| | |].
  - apply step_Start in HS. destruct HS as [_ [_ E]]. subst s'. left. split; reflexivity.
  - apply step_CancelRecv in HS. destruct HS as [_ [_ [_ E]]]. subst s'. left. split; reflexivity.
  - apply step_Pick in HS. destruct HS as [_ [_ [_ E]]]. subst s'. left. split; reflexivity.
  - apply step_CmdStart in HS. destruct HS as [_ [_ [_ [_ E]]]]. subst s'. left. split; reflexivity.
  - apply step_Reject in HS. destruct HS as [_ [_ [_ E]]]. subst s'. left.
    destruct (complete_fail_spec g c s n) as [_ [_ [_ [_ [E5 [E6 _]]]]]]. split; assumption.
  - apply step_FinishOk in HS. destruct HS as [_ [_ E]]. subst s'. left. split; reflexivity.
  - apply step_FinishFail in HS. destruct HS as [_ [_ E]]. subst s'. left.
    destruct (complete_fail_spec g c s n) as [_ [_ [_ [_ [E5 [E6 _]]]]]]. split; assumption.
  - apply step_FinishCancelled in HS. destruct HS as [_ [_ [_ E]]]. subst s'. left. split; reflexivity.
  - apply step_CtxCancel in HS. destruct HS as [_ E]. subst s'. left. split; reflexivity.
  - apply step_WorkerExit in HS. destruct HS as [_ [_ E]]. subst s'. left. split; reflexivity.
  - apply step_WalkReturn in HS. destruct HS as [Hr [_ E]]. subst s'. right. repeat split. exact Hr.
Qed.

Lemma no_race : forall g c s e s', step g c s e = Some s' -> ret s = true ->
  forall n, snap s' n = snap s n.
Proof.
  intros g c s e s' HS Hr n. destruct (step_snap _ _ _ _ _ HS) as [[_ E]|[_ [F _]]].
  - rewrite E. reflexivity.
  - rewrite F in Hr. discriminate Hr.
Qed.

Lemma run_from_ret g c evs : forall s s', run_from g c s evs = Some s' -> ret s = true -> ret s' = true.
Proof.
  induction evs as [|e r IH]; intros s s' HR Hr; simpl in HR.
  - inversion HR. subst. exact Hr.
  - destruct (step g c s e) as [s1|] eqn:E; [|discriminate HR].
    apply (IH s1 s' HR). destruct (step_flags _ _ _ _ _ E) as [_ [_ [A _]]]. apply A. exact Hr.
Qed.

(* ... whatever happens after the return, for as long as it takes *)
Lemma no_race_run : forall g c evs s s', run_from g c s evs = Some s' -> ret s = true ->
  forall n, snap s' n = snap s n.
Proof.
  intros g c. induction evs as [|e r IH]; intros s s' HR Hr n; simpl in HR.
  - inversion HR. reflexivity.
  - destruct (step g c s e) as [s1|] eqn:E; [|discriminate HR].
    rewrite (IH s1 s' HR); [apply (no_race g c s e s1 E Hr)|].
    destruct (step_flags _ _ _ _ _ E) as [_ [_ [A _]]]. apply A. exact Hr.
Qed.

(* what Walk returns is exactly what was recorded when it returned *)
Lemma snapshot_exact : forall g c s s', step g c s WalkReturn = Some s' ->
  forall n, snap s' n = own s n /\ own s' n = own s n.
Proof.
  intros g c s s' HS n. apply step_WalkReturn in HS. destruct HS as [_ [_ E]]. subst s'.
  split; reflexivity.
Qed.

(* the snapshot against the walker's own map, as an invariant *)
Record SnapInv (g : graph) (s : state) : Prop := {
  S_before : ret s = false -> forall n, snap s n = Absent;
  S_sound  : forall n, snap s n <> Absent -> snap s n = entry_of (st s n);
  S_full   : ret s = true -> fft s = false -> ctxc s = false ->
             forall n, n < size g -> snap s n = entry_of (st s n) /\ is_final (st s n) = true
}.

Lemma legal_not_final b x y : legal b x y -> is_final x = false.
Proof. destruct x, y; simpl; intro H; try reflexivity; contradiction. Qed.

Lemma entry_of_final x : entry_of x <> Absent -> is_final x = true.
Proof. destruct x; simpl; intro H; try reflexivity; contradiction H; reflexivity. Qed.

Lemma step_final_stable g c s e s' m : step g c s e = Some s' ->
  is_final (st s m) = true -> st s' m = st s m.
Proof.
  intros HS HF. destruct (step_status_cases _ _ _ _ _ HS m) as [E|L]; [exact E|].
  apply legal_not_final in L. rewrite L in HF. discriminate HF.
Qed.

Lemma snapinv_init g : SnapInv g (init g).
Proof.
  constructor; unfold init; cbn [st ret snap fft ctxc].
  - intros _ n. reflexivity.
  - intros n H. contradiction H. reflexivity.
  - intro H. discriminate H.
Qed.

Lemma snapinv_step g c s e s' : SnapInv g s -> step g c s e = Some s' -> SnapInv g s'.
Proof.
  intros [Sb Ss Sf] HS.
  destruct (step_flags _ _ _ _ _ HS) as [Ff [Fc _]].
  destruct (step_snap _ _ _ _ _ HS) as [[Er Es]|[He [Hr [Hr' [Est Es]]]]].
  - constructor; rewrite ?Er, ?Es.
    + exact Sb.
    + intros n Hn. rewrite (Ss n Hn) in Hn |- *.
      rewrite (step_final_stable _ _ _ _ _ n HS (entry_of_final _ Hn)). reflexivity.
    + intros Hret EF EC n Hn.
      assert (EF0 : fft s = false) by (destruct (fft s); [rewrite Ff in EF by reflexivity; discriminate EF|reflexivity]).
      assert (EC0 : ctxc s = false) by (destruct (ctxc s); [rewrite Fc in EC by reflexivity; discriminate EC|reflexivity]).
      destruct (Sf Hret EF0 EC0 n Hn) as [A B].
      rewrite (step_final_stable _ _ _ _ _ n HS B). split; assumption.
  - constructor; rewrite ?Hr', ?Es, ?Est.
    + intro H. discriminate H.
    + intros n _. reflexivity.
    + intros _ EF EC n Hn. split; [reflexivity|].
      assert (EF0 : fft s = false) by (destruct (fft s); [rewrite Ff in EF by reflexivity; discriminate EF|reflexivity]).
      assert (EC0 : ctxc s = false) by (destruct (ctxc s); [rewrite Fc in EC by reflexivity; discriminate EC|reflexivity]).
      subst e. apply step_WalkReturn in HS. destruct HS as [_ [[HA|HA] _]].
      * apply (proj1 (all_final_spec g s) HA). exact Hn.
      * apply inner_cancelled_true in HA. destruct HA; congruence.
Qed.

Lemma run_from_snapinv g c evs : forall s s', SnapInv g s ->
  run_from g c s evs = Some s' -> SnapInv g s'.
Proof.
  induction evs as [|e r IH]; intros s s' HS HR; simpl in HR.
  - inversion HR. subst. exact HS.
  - destruct (step g c s e) as [s1|] eqn:E; [|discriminate HR].
    apply (IH s1 s'); [eapply snapinv_step; eassumption|exact HR].
Qed.

Lemma reachable_snapinv g c s : reachable g c s -> SnapInv g s.
Proof.
  intros [evs H]. eapply run_from_snapinv; [apply snapinv_init|exact H].
Qed.

(* until Walk returns the caller has nothing *)
Lemma snapshot_before_return : forall g c s, reachable g c s -> ret s = false ->
  forall n, snap s n = Absent.
Proof. intros g c s HR. apply (S_before _ _ (reachable_snapinv g c s HR)). Qed.

(* every entry the caller sees is, and stays, the entry of the walker's own map: the failure summary,
   the success count and the exit status computed from the snapshot are never contradicted later *)
Lemma entry_of_inv x : (entry_of x = Success -> x = Ok) /\ (entry_of x = Failure -> x = Failed).
Proof. destruct x; simpl; split; intro H; try discriminate H; reflexivity. Qed.

Lemma snapshot_sound : forall g c s n, reachable g c s ->
  (snap s n = Success -> st s n = Ok) /\ (snap s n = Failure -> st s n = Failed).
Proof.
  intros g c s n HR. pose proof (S_sound _ _ (reachable_snapinv g c s HR) n) as H.
  split; intro E; apply entry_of_inv; rewrite <- E; symmetry; apply H; rewrite E; discriminate.
Qed.

(* without fail-fast trigger and without interrupt the snapshot is the whole, final map: what
   cmds/build.go sees on these walks is what it saw before the fix *)
Lemma snapshot_complete : forall g c s, reachable g c s ->
  ret s = true -> fft s = false -> ctxc s = false ->
  forall n, n < size g -> snap s n = own s n /\ is_final (st s n) = true.
Proof. intros g c s HR. apply (S_full _ _ (reachable_snapinv g c s HR)). Qed.

(* a walk that ended by fail-fast shows its caller a failure: failFastTriggered is set after the failed
   completion is recorded (same critical section of onComplete), the snapshot is taken later *)
Definition FftInv (g : graph) (s : state) : Prop :=
  fft s = true -> exists a, a < size g /\ st s a = Failed.

Lemma fftinv_step g c s e s' : FftInv g s -> step g c s e = Some s' -> FftInv g s'.
Proof.
  intros HI HS EF'. destruct (fft s) eqn:EF.
  - destruct (HI EF) as [a [Ha HF]]. exists a. split; [exact Ha|].
    rewrite (step_final_stable _ _ _ _ _ a HS); [exact HF|rewrite HF; reflexivity].
  - clear HI. destruct e as [n|n|n|n|n|n|n|n| | |].
    + apply step_Start in HS. destruct HS as [_ [_ E]]. subst s'. proj. congruence.
    + apply step_CancelRecv in HS. destruct HS as [_ [_ [_ E]]]. subst s'. proj. congruence.
    + apply step_Pick in HS. destruct HS as [_ [_ [_ E]]]. subst s'. proj. congruence.
    + apply step_CmdStart in HS. destruct HS as [_ [_ [_ [_ E]]]]. subst s'. proj. congruence.
    + apply step_Reject in HS. destruct HS as [Hn [_ [_ E]]]. subst s'. exists n. split; [exact Hn|].
      destruct (complete_fail_spec g c s n) as [E1 _]. rewrite E1. apply upd_same.
    + apply step_FinishOk in HS. destruct HS as [_ [_ E]]. subst s'. proj. congruence.
    + apply step_FinishFail in HS. destruct HS as [Hn [_ E]]. subst s'. exists n. split; [exact Hn|].
      destruct (complete_fail_spec g c s n) as [E1 _]. rewrite E1. apply upd_same.
    + apply step_FinishCancelled in HS. destruct HS as [_ [_ [_ E]]]. subst s'. proj. congruence.
    + apply step_CtxCancel in HS. destruct HS as [_ E]. subst s'. proj. congruence.
    + apply step_WorkerExit in HS. destruct HS as [_ [_ E]]. subst s'. proj. congruence.
    + apply step_WalkReturn in HS. destruct HS as [_ [_ E]]. subst s'. proj. congruence.
Qed.

Lemma run_from_fftinv g c evs : forall s s', FftInv g s -> run_from g c s evs = Some s' -> FftInv g s'.
Proof.
  induction evs as [|e r IH]; intros s s' HS HR; simpl in HR.
  - inversion HR. subst. exact HS.
  - destruct (step g c s e) as [s1|] eqn:E; [|discriminate HR].
    apply (IH s1 s'); [eapply fftinv_step; eassumption|exact HR].
Qed.

Lemma snapshot_failfast_has_failure : forall g c s s', reachable g c s ->
  step g c s WalkReturn = Some s' -> fft s = true -> exists a, a < size g /\ snap s' a = Failure.
Proof.
  intros g c s s' [evs HR] HS EF.
  assert (HI : FftInv g s).
  { eapply run_from_fftinv; [|exact HR]. intro H. discriminate H. }
  destruct (HI EF) as [a [Ha HF]]. exists a. split; [exact Ha|].
  destruct (snapshot_exact g c s s' HS a) as [E _]. rewrite E. unfold own. rewrite HF. reflexivity.
Qed.

(* the situation the fix is about: fail-fast, two independent nodes, one fails, Walk returns, the other one
   completes afterwards -- its completion reaches the walker's own map and not the caller's *)
Lemma late_completion_example :
  exists g c evs s, run g c evs = Some s /\ ret s = true /\
    own s 0 = Failure /\ snap s 0 = Failure /\ own s 1 = Success /\ snap s 1 = Absent.
Proof.
  exists (antichain 2), (mkConfig 2 true),
    [Start 0; Start 1; Pick 0; Pick 1; FinishFail 0; WalkReturn; FinishOk 1].
  eexists. split; [vm_compute; reflexivity|]. repeat split; vm_compute; reflexivity.
Qed.

(* ------------------------------------------------------------------ C05 / C18 *)

Lemma run_from_app g c l1 : forall l2 s,
  run_from g c s (l1 ++ l2) =
  match run_from g c s l1 with Some s1 => run_from g c s1 l2 | None => None end.
Proof.
  induction l1 as [|e r IH]; intros l2 s; simpl; [reflexivity|].
  destruct (step g c s e) as [s1|]; [apply IH|reflexivity].
Qed.

Lemma run_from_flags g c evs : forall s s', run_from g c s evs = Some s' ->
  (fft s = true -> fft s' = true) /\ (ctxc s = true -> ctxc s' = true).
Proof.
  induction evs as [|e r IH]; intros s s' HR; simpl in HR.
  - inversion HR. subst. auto.
  - destruct (step g c s e) as [s1|] eqn:E; [|discriminate HR].
    destruct (step_flags _ _ _ _ _ E) as [A [B _]]. destruct (IH s1 s' HR) as [A' B']. auto.
Qed.

Lemma independent_still_built : forall g c s n, topo g -> wf_graph g -> W c >= 1 ->
  ff c = false -> reachable g c s -> ctxc s = false -> terminal g c s -> n < size g ->
  (forall a, reach g a n -> st s a <> Failed) -> st s n = Ok \/ st s n = Failed.
Proof.
  intros g c s n HT HWF HW Hff Hreach EC Hterm Hn Hno.
  assert (EF : fft s = false).
  { destruct (fft s) eqn:E; [|reflexivity].
    destruct (I_fft _ _ _ (reachable_inv g c s HT Hreach) E) as [A _]. congruence. }
  destruct (no_cancel_all_done g c s HT HWF HW Hreach Hterm EF EC n Hn) as [H|[H|[_ [a [Ha Hr]]]]];
    auto.
  contradiction (Hno a Hr Ha).
Qed.

Definition started (x : status) : Prop :=
  x = Queued \/ x = Running \/ x = Ok \/ x = Failed \/ x = Aborted.

Lemma legal_started b x y : legal b x y -> started x -> started y.
Proof.
  unfold started. destruct x, y; simpl; intros H S; try contradiction; auto;
    repeat (destruct S as [S|S]; try discriminate S).
Qed.

Lemma run_from_started g c n evs : forall s s', run_from g c s evs = Some s' ->
  started (st s n) -> started (st s' n).
Proof.
  induction evs as [|e r IH]; intros s s' HR HS; simpl in HR.
  - inversion HR. subst. exact HS.
  - destruct (step g c s e) as [s1|] eqn:E; [|discriminate HR].
    apply (IH s1 s' HR). destruct (step_status_cases _ _ _ _ _ E n) as [Q|L].
    + rewrite Q. exact HS.
    + eapply legal_started; eassumption.
Qed.

Lemma start_in_started g c n evs : forall s s', run_from g c s evs = Some s' ->
  In (Start n) evs -> started (st s' n).
Proof.
  induction evs as [|e r IH]; intros s s' HR HIn; simpl in HR; [destruct HIn|].
  destruct (step g c s e) as [s1|] eqn:E; [|discriminate HR].
  destruct HIn as [HIn|HIn].
  - subst e. apply (run_from_started g c n r s1 s' HR).
    apply step_Start in E. destruct E as [_ [_ E]]. subst s1. proj. rewrite upd_same.
    unfold started. auto.
  - apply (IH s1 s' HR HIn).
Qed.

Lemma dependants_not_run : forall g c evs s a n, topo g -> wf_graph g ->
  run g c evs = Some s -> st s a = Failed -> reach g a n -> ~ In (Start n) evs.
Proof.
  intros g c evs s a n HT _ HR HF Hre HIn.
  pose proof (start_in_started g c n evs (init g) s HR HIn) as HS.
  assert (HA : active (st s n)).
  { unfold started in HS. unfold active. tauto. }
  pose proof (inv_deps_reach g c s (run_inv g c evs s HT HR) a n Hre HA) as HO. congruence.
Qed.

Lemma no_cmd_after_cancel g c n evs : forall s s', run_from g c s evs = Some s' ->
  inner_cancelled s = true -> ~ In (CmdStart n) evs.
Proof.
  induction evs as [|e r IH]; intros s s' HR HC HIn; simpl in HR; [destruct HIn|].
  destruct (step g c s e) as [s1|] eqn:E; [|discriminate HR].
  destruct HIn as [HIn|HIn].
  - subst e. apply step_CmdStart in E. destruct E as [_ [_ [_ [E _]]]]. congruence.
  - apply (IH s1 s' HR); [|exact HIn].
    destruct (step_flags _ _ _ _ _ E) as [A [B _]].
    apply inner_cancelled_true in HC. apply inner_cancelled_true. tauto.
Qed.

Lemma fail_sets_fft g c s a : ff c = true -> fft (complete_fail g c s a) = true.
Proof.
  intro H. destruct (complete_fail_spec g c s a) as [_ [_ [_ [_ [_ [_ Hc]]]]]].
  destruct Hc as [[_ [F _]]|[[_ [_ [F _]]]|[_ [F _]]]]; congruence.
Qed.

Lemma fail_event_sets_fft g c s e a s' : ff c = true -> (e = FinishFail a \/ e = Reject a) ->
  step g c s e = Some s' -> fft s' = true.
Proof.
  intros Hff [He|He] HS; subst e.
  - apply step_FinishFail in HS. destruct HS as [_ [_ E]]. subst s'. apply fail_sets_fft. exact Hff.
  - apply step_Reject in HS. destruct HS as [_ [_ [_ E]]]. subst s'. apply fail_sets_fft. exact Hff.
Qed.

Lemma failfast_no_new_command : forall g c pre e a post s n, ff c = true ->
  (e = FinishFail a \/ e = Reject a) ->
  run g c (pre ++ e :: post) = Some s -> ~ In (CmdStart n) post.
Proof.
  intros g c pre e a post s n Hff He HR. unfold run in HR. rewrite run_from_app in HR.
  destruct (run_from g c (init g) pre) as [s0|]; [|discriminate HR]. simpl in HR.
  destruct (step g c s0 e) as [s1|] eqn:E; [|discriminate HR].
  apply (no_cmd_after_cancel g c n post s1 s HR).
  apply inner_cancelled_true. left. eapply fail_event_sets_fft; eassumption.
Qed.

Lemma parked_no_start g c n evs : forall s s', fft s = true -> run_from g c s evs = Some s' ->
  (st s n = Parked \/ st s n = Skipped) -> ~ In (Start n) evs.
Proof.
  induction evs as [|e r IH]; intros s s' EF HR HP HIn; simpl in HR; [destruct HIn|].
  destruct (step g c s e) as [s1|] eqn:E; [|discriminate HR].
  destruct HIn as [HIn|HIn].
  - subst e. apply step_Start in E. destruct E as [_ [E _]]. destruct HP; congruence.
  - apply (IH s1 s'); [| exact HR | | exact HIn].
    + destruct (step_flags _ _ _ _ _ E) as [A _]. apply A. exact EF.
    + destruct (step_status_cases _ _ _ _ _ E n) as [Q|L]; [rewrite Q; exact HP|].
      rewrite EF in L. destruct HP as [HP|HP]; rewrite HP in L;
        destruct (st s1 n); simpl in L; try contradiction; try discriminate L; auto.
Qed.

Lemma failfast_parked_never_start : forall g c pre e a post s1 s n, topo g -> wf_graph g ->
  ff c = true -> (e = FinishFail a \/ e = Reject a) ->
  run g c (pre ++ [e]) = Some s1 -> run_from g c s1 post = Some s -> st s1 n = Parked ->
  ~ In (Start n) post.
Proof.
  intros g c pre e a post s1 s n _ _ Hff He HR1 HR2 HP.
  unfold run in HR1. rewrite run_from_app in HR1.
  destruct (run_from g c (init g) pre) as [s0|]; [|discriminate HR1]. simpl in HR1.
  destruct (step g c s0 e) as [s1'|] eqn:E; [|discriminate HR1]. inversion HR1. subst s1'.
  apply (parked_no_start g c n post s1 s); [|exact HR2|left; exact HP].
  eapply fail_event_sets_fft; eassumption.
Qed.

Lemma c05_example :
  exists evs s, run diamond (mkConfig 2 false) evs = Some s /\
    terminal diamond (mkConfig 2 false) s /\
    st s 0 = Ok /\ st s 1 = Failed /\ st s 2 = Ok /\ st s 3 = Skipped.
Proof.
  exists [Start 0; Pick 0; FinishOk 0; Start 1; Start 2; Pick 1; Pick 2; FinishFail 1; FinishOk 2;
          CancelRecv 3; WalkReturn].
  eexists. split; [vm_compute; reflexivity|].
  unfold terminal. repeat split; vm_compute; reflexivity.
Qed.

Lemma no_start_after_cancel : forall g c pre post s n,
  run g c (pre ++ CtxCancel :: post) = Some s -> ~ In (CmdStart n) post.
Proof.
  intros g c pre post s n HR. unfold run in HR. rewrite run_from_app in HR.
  destruct (run_from g c (init g) pre) as [s0|]; [|discriminate HR]. cbn [run_from] in HR.
  destruct (step g c s0 CtxCancel) as [s1|] eqn:E; [|discriminate HR].
  apply (no_cmd_after_cancel g c n post s1 s HR).
  apply step_CtxCancel in E. destruct E as [_ E]. subst s1. apply inner_cancelled_true. right. reflexivity.
Qed.

Lemma walk_returns_after_cancel : forall g c s, reachable g c s -> ctxc s = true -> ret s = false ->
  In WalkReturn (enabled g c s).
Proof.
  intros g c s _ HC Hr. apply en_WalkReturn; [exact Hr|]. right. apply inner_cancelled_true. auto.
Qed.

Lemma cancelled_parked_skipped : forall g c s, topo g -> wf_graph g -> W c >= 1 ->
  reachable g c s -> terminal g c s -> ctxc s = true ->
  forall n, n < size g -> st s n <> Parked /\ st s n <> Ready /\ st s n <> Running.
Proof.
  intros g c s _ _ _ _ Hterm _ n Hn. apply terminal_spec in Hterm. destruct Hterm as [_ Hall].
  destruct (settled_cases c s n (Hall n Hn)) as [H|[H|[H|[H|[H _]]]]]; rewrite H;
    repeat split; discriminate.
Qed.
