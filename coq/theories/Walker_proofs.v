(* Walker_proofs.v -- all lemmas about the scheduler model of Walker.v (C03, C04, C05, C18). *)
From Grog Require Import Graph Walker.

Arguments upd : simpl never.
Arguments release : simpl never.
Arguments desc : simpl never.
Arguments count_run : simpl never.
Arguments running : simpl never.
Arguments all_final : simpl never.

(* ------------------------------------------------------------------ basics *)

Lemma status_eqb_eq a b : status_eqb a b = true <-> a = b.
Proof. destruct a, b; simpl; split; intro H; try reflexivity; discriminate H. Qed.

Lemma status_eqb_refl a : status_eqb a a = true.
Proof. apply status_eqb_eq. reflexivity. Qed.

Lemma upd_same A (f : nat -> A) n x : upd f n x n = x.
Proof. unfold upd. rewrite Nat.eqb_refl. reflexivity. Qed.

Lemma upd_other A (f : nat -> A) n x m : m <> n -> upd f n x m = f m.
Proof. intro H. unfold upd. destruct (Nat.eqb_spec m n) as [E|E]; [contradiction|reflexivity]. Qed.

Lemma event_eqb_eq a b : event_eqb a b = true <-> a = b.
Proof.
  destruct a, b; simpl; split; intro H; try reflexivity; try discriminate H;
    try (apply Nat.eqb_eq in H; subst; reflexivity);
    try (inversion H; subst; apply Nat.eqb_refl).
Qed.

Lemma mem_nat_In x l : mem_nat x l = true <-> In x l.
Proof.
  unfold mem_nat. rewrite existsb_exists. split.
  - intros [y [Hy E]]. apply Nat.eqb_eq in E. subst. exact Hy.
  - intro H. exists x. split; [exact H|apply Nat.eqb_refl].
Qed.

Ltac proj := cbn [st cp cmd fft ctxc dead ret race set_st complete_ok] in *.

Ltac boolp :=
  repeat match goal with
  | H : _ && _ = true |- _ => apply andb_true_iff in H; destruct H
  | H : Nat.ltb _ _ = true |- _ => apply Nat.ltb_lt in H
  | H : status_eqb _ _ = true |- _ => apply status_eqb_eq in H
  | H : negb _ = true |- _ => apply negb_true_iff in H
  end.

Ltac grd H E :=
  match type of H with
  | (if ?b then _ else _) = _ => destruct b eqn:E; [|discriminate H]
  end.

(* ------------------------------------------------------------------ step, event by event *)

Lemma step_Start g c s n s' : step g c s (Start n) = Some s' ->
  n < size g /\ st s n = Ready /\ s' = set_st s (upd (st s) n Queued).
Proof.
  unfold step. intro H. grd H E. boolp. inversion H. auto.
Qed.

Lemma step_CancelRecv g c s n s' : step g c s (CancelRecv n) = Some s' ->
  n < size g /\ (st s n = Parked \/ st s n = Ready) /\ cp s n = true /\
  s' = set_st s (upd (st s) n Skipped).
Proof.
  unfold step. intro H. grd H E. boolp. inversion H.
  repeat split; auto.
  match goal with H0 : _ || _ = true |- _ => apply orb_true_iff in H0; destruct H0 as [H0|H0];
    apply status_eqb_eq in H0; auto end.
Qed.

Lemma step_Pick g c s n s' : step g c s (Pick n) = Some s' ->
  n < size g /\ st s n = Queued /\ running g s + dead s < W c /\
  s' = set_st s (upd (st s) n Running).
Proof.
  unfold step. intro H. grd H E. boolp. inversion H. auto.
Qed.

Lemma step_CmdStart g c s n s' : step g c s (CmdStart n) = Some s' ->
  n < size g /\ st s n = Running /\ cmd s n = false /\ inner_cancelled s = false /\
  s' = mkState (st s) (cp s) (upd (cmd s) n true) (fft s) (ctxc s) (dead s) (ret s) (race s).
Proof.
  unfold step. intro H. grd H E. boolp. inversion H. auto.
Qed.

Lemma step_Reject g c s n s' : step g c s (Reject n) = Some s' ->
  n < size g /\ st s n = Queued /\ closed s = true /\ s' = complete_fail g c s n.
Proof.
  unfold step. intro H. grd H E. boolp. inversion H. auto.
Qed.

Lemma step_FinishOk g c s n s' : step g c s (FinishOk n) = Some s' ->
  n < size g /\ st s n = Running /\ s' = complete_ok g s n.
Proof.
  unfold step. intro H. grd H E. boolp. inversion H. auto.
Qed.

Lemma step_FinishFail g c s n s' : step g c s (FinishFail n) = Some s' ->
  n < size g /\ st s n = Running /\ s' = complete_fail g c s n.
Proof.
  unfold step. intro H. grd H E. boolp. inversion H. auto.
Qed.

Lemma step_FinishCancelled g c s n s' : step g c s (FinishCancelled n) = Some s' ->
  n < size g /\ st s n = Running /\ inner_cancelled s = true /\
  s' = set_st s (upd (st s) n Aborted).
Proof.
  unfold step. intro H. grd H E. boolp. inversion H. auto.
Qed.

Lemma step_CtxCancel g c s s' : step g c s CtxCancel = Some s' ->
  ctxc s = false /\
  s' = mkState (st s) (cp s) (cmd s) (fft s) true (dead s) (ret s) (race s).
Proof.
  unfold step. intro H. grd H E. boolp. inversion H. auto.
Qed.

Lemma step_WorkerExit g c s s' : step g c s WorkerExit = Some s' ->
  closed s = true /\ running g s + dead s < W c /\
  s' = mkState (st s) (cp s) (cmd s) (fft s) (ctxc s) (S (dead s)) (ret s) (race s).
Proof.
  unfold step. intro H. grd H E. boolp. inversion H. auto.
Qed.

Lemma step_WalkReturn g c s s' : step g c s WalkReturn = Some s' ->
  ret s = false /\ (all_final g s = true \/ inner_cancelled s = true) /\
  s' = mkState (st s) (if inner_cancelled s then fun _ => true else cp s)
               (cmd s) (fft s) (ctxc s) (dead s) true (race s).
Proof.
  unfold step. intro H. grd H E. boolp. inversion H.
  repeat split; auto. apply orb_true_iff. assumption.
Qed.
