(* Build_liftmin_proofs.v -- the build-level "forces execution / postcondition" theorems of C05 / C13 / C14
   for BOTH load_outputs modes (Build_lift_proofs.v proves them under [cfg_mode cfg = LAll]).

   In mode minimal the task of a target may, inside LoadDependencyOutputs, re-execute (transitive,
   alias-resolved) DEPENDENCIES before it executes the target itself.  [dep_frame] says what such a
   run of dependency commands can change: it starts commands of dependencies that already have a key,
   touches the external conditions of exactly those labels, stores results under exactly those keys,
   and leaves taints, statuses, keys and the stop flag alone.  [task_outcome2] is the case analysis
   of one task in any mode, [node_frame2] what one step of the walk preserves, and the theorems at
   the end are the mode-independent versions of the theorems of Build_lift_proofs.v. *)
From Coq Require Import List Ascii Bool Arith Lia.
From Grog Require Import Str Label HashKey Build Build_proofs Build_single_proofs Build_ideal
     Build_c01_proofs Build_c02_proofs Build_c15_proofs Build_lift_proofs.
Import ListNotations.

Section LiftMin.
Variable H : str -> str.

Notation execute := (execute H).
Notation process_target := (process_target H).
Notation process_node := (process_node H).
Notation load_dep_outputs := (load_dep_outputs H).
Notation build := (build H).
Notation build_prefix := (build_prefix H).
Notation status_of := Build_single_proofs.status_of.

(* ================================================================== small frames: keys, worlds *)
Lemma label_eq_dec (a b : label) : {a = b} + {a <> b}.
Proof.
  destruct (label_eqb a b) eqn:E; [left; apply label_eqb_eq; exact E | right].
  intro Hab. apply label_eqb_eq in Hab. congruence.
Qed.

Lemma load_outputs_key i t r b ok b' :
  load_outputs H i t r b = (ok, b') -> forall j, rt_key (get_rt b' j) = rt_key (get_rt b j).
Proof.
  unfold load_outputs. intros E j.
  destruct (rt_loaded (get_rt b i)); [inversion E; reflexivity|].
  destruct (negb (outputs_match t r)); [inversion E; reflexivity|].
  destruct (load_all H (b_cache b) t (r_outs r) (w_ws (b_world b))) as [ok' ws'].
  destruct ok'; inversion E; subst ok b'; clear E; [|reflexivity].
  rewrite (get_rt_set_rt_field rt_key); reflexivity.
Qed.

Lemma exec_done_key cfg i t key tn b w' ds j :
  rt_key (get_rt (exec_done H cfg i t key tn b w' ds) j) = rt_key (get_rt b j).
Proof.
  unfold exec_done. rewrite untaint_get_rt. unfold oc_state. cbv zeta.
  rewrite (get_rt_set_rt_field rt_key); [|reflexivity].
  rewrite get_rt_set_cache, get_rt_set_world. rewrite exec_b0_get_rt. reflexivity.
Qed.

Lemma execute_key cfg s i t key tn b ok b' :
  execute cfg s i t key tn b = (ok, b') -> forall j, rt_key (get_rt b' j) = rt_key (get_rt b j).
Proof.
  intros E j. rewrite execute_eq in E.
  destruct (exec_ran s t b) as [w'|].
  - destruct (check_ok w' t).
    + destruct (present_digests H t (td_outs t) (w_ws w')) as [ds|]; inversion E; subst ok b'.
      * apply exec_done_key.
      * rewrite get_rt_set_world. rewrite exec_b0_get_rt. reflexivity.
    + inversion E; subst ok b'. rewrite get_rt_set_world. rewrite exec_b0_get_rt. reflexivity.
  - inversion E; subst ok b'. rewrite get_rt_set_world. rewrite exec_b0_get_rt. reflexivity.
Qed.

(* a target without a command: executing it leaves the world alone *)
Lemma execute_world_null cfg s i t key tn b ok b' :
  null (td_cmd t) = true -> execute cfg s i t key tn b = (ok, b') -> b_world b' = b_world b.
Proof.
  intros Hn E. rewrite execute_eq in E. unfold exec_ran in E. rewrite Hn in E.
  destruct (check_ok (b_world b) t).
  - destruct (present_digests H t (td_outs t) (w_ws (b_world b))) as [ds|]; inversion E; subst ok b'.
    + unfold exec_done. rewrite untaint_world, oc_state_world. reflexivity.
    + reflexivity.
  - inversion E; subst ok b'. reflexivity.
Qed.

(* executing never forgets a blob *)
Lemma execute_cas_mono cfg s i t key tn b ok b' dg x :
  execute cfg s i t key tn b = (ok, b') ->
  alookup dg (c_cas (b_cache b)) = Some x -> alookup dg (c_cas (b_cache b')) = Some x.
Proof.
  intros E Hx. rewrite execute_eq in E.
  assert (Hf : forall w'', alookup dg (c_cas (b_cache (set_world (exec_b0 t b) w''))) = Some x).
  { intro w''. rewrite b_cache_set_world, exec_b0_cache. exact Hx. }
  destruct (exec_ran s t b) as [w'|]; [|inversion E; subst; apply Hf].
  destruct (check_ok w' t); [|inversion E; subst; apply Hf].
  destruct (present_digests H t (td_outs t) (w_ws w')) as [ds|]; inversion E; subst ok b'; [|apply Hf].
  unfold exec_done. rewrite untaint_cas, oc_state_cas. apply oc_pair_cas_mono. exact Hx.
Qed.

(* ================================================================== runs of dependency commands *)
(* (d, dt) is a transitive, alias-resolved dependency reachable from the dependency list ds *)
Inductive rdep (s : sources) : list nat -> nat -> tdef -> Prop :=
| rdep_here : forall ds d0 d dt, In d0 ds -> resolve s d0 = Some (d, dt) -> rdep s ds d dt
| rdep_deep : forall ds d0 d dt e et, In d0 ds -> resolve s d0 = Some (d, dt) ->
              rdep s (td_deps dt) e et -> rdep s ds e et.

Lemma rdep_target s ds d dt : rdep s ds d dt -> node_at s d = Some (NTarget dt).
Proof. induction 1 as [ds d0 d dt _ Hr|]; [eapply resolve_target; exact Hr | assumption]. Qed.

Lemma rdep_incl s ds ds' d dt : (forall x, In x ds -> In x ds') -> rdep s ds d dt -> rdep s ds' d dt.
Proof.
  intros Hi Hr. destruct Hr as [ds d0 d dt Hin Hres|ds d0 d dt e et Hin Hres Hdeep].
  - eapply rdep_here; eauto.
  - eapply rdep_deep; eauto.
Qed.

(* what a run of commands of the dependencies in R, starting the commands [extra], changes *)
Record dep_frame (s : sources) (R : nat -> tdef -> Prop) (extra : list label) (b b' : bstate) : Prop := {
  df_len   : rt_len b' = rt_len b;
  df_sts   : sts b' = sts b;
  df_stop  : b_stop b' = b_stop b;
  df_key   : forall j, rt_key (get_rt b' j) = rt_key (get_rt b j);
  df_taint : c_taint (b_cache b') = c_taint (b_cache b);
  df_exec  : b_exec b' = b_exec b ++ extra;
  df_who   : forall l, In l extra ->
             exists d dt, R d dt /\ td_label dt = l /\ rt_key (get_rt b d) <> None;
  df_ext   : forall l, ~ In l extra -> label_in l (w_ext (b_world b')) = label_in l (w_ext (b_world b));
  df_res   : forall k, rlookup k (c_results (b_cache b')) = rlookup k (c_results (b_cache b)) \/
             exists d dt, R d dt /\ rt_key (get_rt b' d) = Some k /\
                          (exists r, rlookup k (c_results (b_cache b')) = Some r) /\
                          (null (td_cmd dt) = false -> In (td_label dt) extra);
  df_cas   : forall dg x, alookup dg (c_cas (b_cache b)) = Some x -> alookup dg (c_cas (b_cache b')) = Some x
}.

Lemma dep_frame_refl s R b : dep_frame s R [] b b.
Proof.
  constructor; auto.
  - rewrite app_nil_r. reflexivity.
  - intros l [].
Qed.

Lemma dep_frame_mono s (R R' : nat -> tdef -> Prop) extra b b' :
  (forall d dt, R d dt -> R' d dt) -> dep_frame s R extra b b' -> dep_frame s R' extra b b'.
Proof.
  intros Hi [A1 A2 A3 A4 A5 A6 A7 A8 A9 A10]. constructor; auto.
  - intros l Hl. destruct (A7 l Hl) as (d & dt & Hr & Hlab & Hk). exists d, dt. auto.
  - intro k. destruct (A9 k) as [E|(d & dt & Hr & Hk & Hs & Hx)]; [left; exact E | right].
    exists d, dt. auto.
Qed.

Lemma dep_frame_trans s R e1 e2 b0 b1 b2 :
  dep_frame s R e1 b0 b1 -> dep_frame s R e2 b1 b2 -> dep_frame s R (e1 ++ e2) b0 b2.
Proof.
  intros [A1 A2 A3 A4 A5 A6 A7 A8 A9 A10] [B1 B2 B3 B4 B5 B6 B7 B8 B9 B10]. constructor.
  - congruence.
  - congruence.
  - congruence.
  - intro j. rewrite B4. apply A4.
  - congruence.
  - rewrite B6, A6, app_assoc. reflexivity.
  - intros l Hl. apply in_app_or in Hl as [Hl|Hl]; [apply A7; exact Hl|].
    destruct (B7 l Hl) as (d & dt & Hr & Hlab & Hk). exists d, dt. rewrite A4 in Hk. auto.
  - intros l Hl. rewrite B8, A8; [reflexivity | |]; intro Hin; apply Hl, in_or_app; auto.
  - intro k. destruct (B9 k) as [E2|(d & dt & Hr & Hk & Hs & Hx)].
    + destruct (A9 k) as [E1|(d & dt & Hr & Hk & Hs & Hx)]; [left; congruence | right].
      exists d, dt. split; [exact Hr|]. split; [rewrite B4; exact Hk|]. split; [rewrite E2; exact Hs|].
      intro Hn. apply in_or_app. left. apply Hx, Hn.
    + right. exists d, dt. split; [exact Hr|]. split; [exact Hk|]. split; [exact Hs|].
      intro Hn. apply in_or_app. right. apply Hx, Hn.
  - auto.
Qed.

(* Registry.LoadOutputs runs nothing and stores nothing *)
Lemma load_outputs_dep_frame s R i t r b ok b' :
  load_outputs H i t r b = (ok, b') -> dep_frame s R [] b b'.
Proof.
  intro E. pose proof (load_outputs_key _ _ _ _ _ _ E) as Hk.
  apply (Build_single_proofs.load_outputs_frame H) in E as (Fc & Fx & Fs & Ft & Fl & Fe).
  constructor; auto.
  - rewrite Fc. reflexivity.
  - rewrite app_nil_r. exact Fx.
  - intros l [].
  - intros l _. rewrite Fe. reflexivity.
  - intro k. left. rewrite Fc. reflexivity.
  - intros dg x Hx. rewrite Fc. exact Hx.
Qed.

(* the commands a (re-)execution of dependency dt starts *)
Definition cmd_of (t : tdef) : list label := if null (td_cmd t) then [] else [td_label t].

Lemma exec_start_cmd_of t b : b_exec (exec_start t b) = b_exec b ++ cmd_of t.
Proof.
  unfold exec_start, cmd_of. destruct (null (td_cmd t)); [rewrite app_nil_r; reflexivity | reflexivity].
Qed.

Lemma cmd_of_in t l : In l (cmd_of t) -> null (td_cmd t) = false /\ l = td_label t.
Proof.
  unfold cmd_of. destruct (null (td_cmd t)); intros Hl; [destruct Hl|].
  destruct Hl as [<-|[]]. auto.
Qed.

Lemma cmd_of_notin t l : ~ In l (cmd_of t) -> null (td_cmd t) = true \/ l <> td_label t.
Proof.
  unfold cmd_of. destruct (null (td_cmd t)); intro Hl; [left; reflexivity | right].
  intro E. apply Hl. left. auto.
Qed.

(* the (re-)execution of a dependency that has a key, as LoadDependencyOutputs does it (never "tainted") *)
Lemma execute_dep_frame cfg s (R : nat -> tdef -> Prop) d dt dkey b ok b' :
  R d dt -> rt_key (get_rt b d) = Some dkey ->
  execute cfg s d dt dkey false b = (ok, b') -> dep_frame s R (cmd_of dt) b b'.
Proof.
  intros Hr Hkey E.
  pose proof (execute_key _ _ _ _ _ _ _ _ _ E) as Hk.
  pose proof (fun dg x => execute_cas_mono _ _ _ _ _ _ _ _ _ dg x E) as Hcas.
  assert (Hwho : forall l, In l (cmd_of dt) ->
            exists d0 dt0, R d0 dt0 /\ td_label dt0 = l /\ rt_key (get_rt b d0) <> None).
  { intros l Hl. apply cmd_of_in in Hl as [_ ->]. exists d, dt. split; [exact Hr|]. split; [reflexivity|].
    rewrite Hkey. discriminate. }
  destruct ok.
  - pose proof E as Enull. apply (Build_single_proofs.execute_ok H) in E. destruct E as [K1 K2 K3 K4 K5 K6 K7 K8 K9 K10 K11].
    constructor; auto.
    + rewrite K8. apply exec_start_cmd_of.
    + intros l Hl. apply cmd_of_notin in Hl as [Hn|Hne].
      * rewrite (execute_world_null _ _ _ _ _ _ _ _ _ Hn Enull). reflexivity.
      * destruct (null (td_cmd dt)); [rewrite K1; reflexivity|].
        apply (run_command_ext s dt _ _ K1). exact Hne.
    + intro k. destruct (str_eq_dec k dkey) as [->|Hne]; [right | left; apply K5; exact Hne].
      exists d, dt. split; [exact Hr|]. split; [rewrite Hk; exact Hkey|]. split; [exact K4|].
      intro Hn. unfold cmd_of. rewrite Hn. left. reflexivity.
  - pose proof E as Enull. apply (Build_single_proofs.execute_fail H) in E as (F1 & F2 & F3 & F4 & F5 & F6).
    constructor; auto.
    + rewrite F1. reflexivity.
    + rewrite F3. apply exec_start_cmd_of.
    + intros l Hl. apply cmd_of_notin in Hl as [Hn|Hne].
      * rewrite (execute_world_null _ _ _ _ _ _ _ _ _ Hn Enull). reflexivity.
      * apply F6. exact Hne.
    + intro k. left. rewrite F1. reflexivity.
Qed.

(* ================================================================== LoadDependencyOutputs *)
Lemma ldo_dep_frame cfg s : forall f ds b ok b',
  load_dep_outputs f cfg s ds b = (ok, b') -> exists extra, dep_frame s (rdep s ds) extra b b'.
Proof.
  induction f as [|f IH]; intros ds b ok b' E; cbn [Build.load_dep_outputs] in E.
  { inversion E; subst. exists []. apply dep_frame_refl. }
  destruct ds as [|d0 ds']; [inversion E; subst; exists []; apply dep_frame_refl|].
  assert (Htl : forall d dt, rdep s ds' d dt -> rdep s (d0 :: ds') d dt).
  { intros d dt. apply rdep_incl. intros x Hx. right. exact Hx. }
  destruct (resolve s d0) as [[d dt]|] eqn:Eres.
  2:{ apply IH in E as [extra Hf]. exists extra. eapply dep_frame_mono; [exact Htl | exact Hf]. }
  assert (Hhere : rdep s (d0 :: ds') d dt) by (eapply rdep_here; [left; reflexivity | exact Eres]).
  assert (Hdeep : forall e et, rdep s (td_deps dt) e et -> rdep s (d0 :: ds') e et).
  { intros e et He. eapply rdep_deep; [left; reflexivity | exact Eres | exact He]. }
  destruct (rt_key (get_rt b d)) as [dkey|] eqn:Ekey; [|inversion E; subst; exists []; apply dep_frame_refl].
  destruct (rlookup dkey (c_results (b_cache b))) as [r|].
  2:{ exists (cmd_of dt). eapply execute_dep_frame; eauto. }
  destruct (load_outputs H d dt r b) as [ok1 b1] eqn:El.
  pose proof (load_outputs_dep_frame s (rdep s (d0 :: ds')) _ _ _ _ _ _ El) as F1.
  destruct (negb ok1 || (td_nocache dt && negb (rt_loaded (get_rt b1 d)))).
  - destruct (load_dep_outputs f cfg s (td_deps dt) b1) as [ok2 b2] eqn:E2.
    apply IH in E2 as [e2 F2]. apply (dep_frame_mono _ _ _ _ _ _ Hdeep) in F2.
    pose proof (dep_frame_trans _ _ _ _ _ _ _ F1 F2) as F12. cbn [app] in F12.
    destruct ok2; cbn [negb] in E; [|inversion E; subst; exists e2; exact F12].
    destruct (Build.execute H cfg s d dt dkey false b2) as [ok3 b3] eqn:E3.
    assert (Hk2 : rt_key (get_rt b2 d) = Some dkey) by (rewrite (df_key _ _ _ _ _ F12); exact Ekey).
    pose proof (execute_dep_frame cfg s _ d dt dkey b2 ok3 b3 Hhere Hk2 E3) as F3.
    pose proof (dep_frame_trans _ _ _ _ _ _ _ F12 F3) as F123.
    destruct ok3; [|inversion E; subst; eexists; exact F123].
    apply IH in E as [e4 F4]. apply (dep_frame_mono _ _ _ _ _ _ Htl) in F4.
    eexists. eapply dep_frame_trans; [exact F123 | exact F4].
  - apply IH in E as [e4 F4]. apply (dep_frame_mono _ _ _ _ _ _ Htl) in F4.
    eexists. eapply dep_frame_trans; [exact F1 | exact F4].
Qed.

(* ================================================================== the task of one target, any mode *)
Notation key_of := (Build_single_proofs.key_of H).
Notation pt_b0 := Build_c02_proofs.pt_b0.
Notation pt_tainted := Build_c02_proofs.pt_tainted.
Notation hit_cond := Build_c02_proofs.hit_cond.

Inductive task_outcome2 (cfg : config) (s : sources) (i : nat) (t : tdef) (b b' : bstate) : Prop :=
| T2_nohash :                        (* a dependency has no output hash: nothing happens *)
    dep_hashes s b (td_deps t) = None ->
    b' = mark b i TFailed -> task_outcome2 cfg s i t b b'
| T2_hit : forall dh res b1,          (* served from the cache: nothing runs, nothing is stored *)
    dep_hashes s b (td_deps t) = Some dh ->
    rlookup (key_of s t dh) (c_results (b_cache b)) = Some res ->
    hit_cond cfg t b = true ->
    dep_frame s (rdep s (td_deps t)) [] (pt_b0 i (key_of s t dh) b) b1 ->
    b_cache b1 = b_cache b -> w_ext (b_world b1) = w_ext (b_world b) ->
    b' = mark b1 i THit -> task_outcome2 cfg s i t b b'
| T2_deps_fail : forall dh extra b2,  (* mode minimal: loading the dependency outputs failed *)
    dep_hashes s b (td_deps t) = Some dh ->
    dep_frame s (rdep s (td_deps t)) extra (pt_b0 i (key_of s t dh) b) b2 ->
    b' = mark b2 i TFailed -> task_outcome2 cfg s i t b b'
| T2_exec_ok : forall dh extra b1 b3, (* (dependencies re-run,) then executed successfully *)
    dep_hashes s b (td_deps t) = Some dh ->
    dep_frame s (rdep s (td_deps t)) extra (pt_b0 i (key_of s t dh) b) b1 ->
    exec_ok s t (key_of s t dh) (pt_tainted t b) b1 b3 ->
    (forall j, rt_key (get_rt b3 j) = rt_key (get_rt b1 j)) ->
    (forall dg x, alookup dg (c_cas (b_cache b1)) = Some x -> alookup dg (c_cas (b_cache b3)) = Some x) ->
    b' = mark b3 i TExecuted -> task_outcome2 cfg s i t b b'
| T2_exec_fail : forall dh extra b1 b3, (* (dependencies re-run,) then executed and failed *)
    dep_hashes s b (td_deps t) = Some dh ->
    dep_frame s (rdep s (td_deps t)) extra (pt_b0 i (key_of s t dh) b) b1 ->
    b_cache b3 = b_cache b1 -> sts b3 = sts b1 -> b_exec b3 = b_exec b1 ++ cmd_of t ->
    rt_len b3 = rt_len b1 -> ext_frame t (b_world b1) (b_world b3) ->
    (forall j, rt_key (get_rt b3 j) = rt_key (get_rt b1 j)) ->
    b' = mark b3 i TFailed -> task_outcome2 cfg s i t b b'.

Lemma exec_tail_outcome cfg s i t b dh extra b1 :
  dep_hashes s b (td_deps t) = Some dh ->
  dep_frame s (rdep s (td_deps t)) extra (pt_b0 i (key_of s t dh) b) b1 ->
  task_outcome2 cfg s i t b (exec_tail H cfg s i t (key_of s t dh) (pt_tainted t b) b1).
Proof.
  intros Hd Hf. unfold exec_tail.
  destruct (Build.execute H cfg s i t (key_of s t dh) (pt_tainted t b) b1) as [ok b3] eqn:E.
  pose proof (execute_key _ _ _ _ _ _ _ _ _ E) as Hk.
  pose proof (fun dg x => execute_cas_mono _ _ _ _ _ _ _ _ _ dg x E) as Hcas.
  destruct ok.
  - apply (Build_single_proofs.execute_ok H) in E. eapply T2_exec_ok; eauto.
  - apply (Build_single_proofs.execute_fail H) in E as (F1 & F2 & F3 & F4 & F5 & F6).
    eapply T2_exec_fail; eauto. rewrite F3. apply exec_start_cmd_of.
Qed.

Lemma pt_b0_dep_frame_to s R extra i key b b1 b2 e2 :
  dep_frame s R extra (pt_b0 i key b) b1 -> dep_frame s R e2 b1 b2 ->
  dep_frame s R (extra ++ e2) (pt_b0 i key b) b2.
Proof. apply dep_frame_trans. Qed.

Lemma set_ohash_dep_frame s R b i oh : dep_frame s R [] b (set_ohash b i oh).
Proof.
  constructor; auto.
  - unfold set_ohash. apply rt_len_set_rt.
  - apply sts_set_ohash.
  - intro j. unfold set_ohash. apply (get_rt_set_rt_field rt_key). reflexivity.
  - rewrite app_nil_r. reflexivity.
  - intros l [].
Qed.

Lemma process_target_any cfg s i t b : task_outcome2 cfg s i t b (process_target cfg s i t b).
Proof.
  destruct (cfg_mode cfg) eqn:Hm.
  - rewrite (pt_LAll H cfg s i t b Hm).
    destruct (dep_hashes s b (td_deps t)) as [dh|] eqn:Hd; [|apply T2_nohash; auto].
    cbv zeta. change (pt_key H s t dh) with (key_of s t dh).
    set (key := key_of s t dh).
    pose proof (dep_frame_refl s (rdep s (td_deps t)) (pt_b0 i key b)) as F0.
    destruct (rlookup key (c_results (b_cache b))) as [res|] eqn:Er; [|eapply exec_tail_outcome; eauto].
    destruct (hit_cond cfg t b) eqn:Ehc; [|eapply exec_tail_outcome; eauto].
    destruct (load_outputs H i t res (pt_b0 i key b)) as [hit b1] eqn:El.
    pose proof (load_outputs_dep_frame s (rdep s (td_deps t)) _ _ _ _ _ _ El) as F1.
    destruct hit; [|eapply exec_tail_outcome; eauto].
    apply (Build_single_proofs.load_outputs_frame H) in El as (Fc & _ & _ & _ & _ & Fe).
    eapply T2_hit with (dh := dh) (res := res) (b1 := b1); eauto.
  - rewrite (pt_LMin H cfg s i t b Hm).
    destruct (dep_hashes s b (td_deps t)) as [dh|] eqn:Hd; [|apply T2_nohash; auto].
    cbv zeta. change (pt_key H s t dh) with (key_of s t dh).
    set (key := key_of s t dh). unfold hit_res.
    assert (Hmiss : task_outcome2 cfg s i t b
              (let '(okd, b2) := load_dep_outputs (S (length (s_nodes s))) cfg s (td_deps t) (pt_b0 i key b) in
               if okd then exec_tail H cfg s i t key (pt_tainted t b) b2 else mark b2 i TFailed)).
    { destruct (load_dep_outputs (S (length (s_nodes s))) cfg s (td_deps t) (pt_b0 i key b)) as [okd b2] eqn:E2.
      apply ldo_dep_frame in E2 as [extra F2].
      destruct okd; [eapply exec_tail_outcome; eauto | eapply T2_deps_fail; eauto]. }
    destruct (rlookup key (c_results (b_cache b))) as [res|] eqn:Er; [|exact Hmiss].
    destruct (hit_cond cfg t b) eqn:Ehc; [|exact Hmiss].
    eapply T2_hit with (dh := dh) (res := res) (b1 := set_ohash (pt_b0 i key b) i (r_outhash res)); eauto.
    + apply set_ohash_dep_frame.
    + reflexivity.
    + reflexivity.
Qed.

End LiftMin.
