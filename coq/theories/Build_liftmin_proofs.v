(* Build_liftmin_proofs.v -- the build-level "forces execution / postcondition" theorems of C05 / C13 / C14
   for BOTH load_outputs modes (Build_lift_proofs.v proves them under [cfg_mode cfg = LAll]).

   In mode minimal the task of a target may, inside LoadDependencyOutputs, re-execute (transitive,
   alias-resolved) DEPENDENCIES before it executes the target itself.  [dep_frame] says what such a
   run of dependency commands can change: it starts commands of dependencies that already have a key,
   touches the external conditions of exactly those labels, stores results under exactly those keys,
   and leaves taints, statuses, keys and the stop flag alone.  [task_outcome2] is the case analysis
   of one task in any mode, [node_frame2] what one step of the walk preserves, and the theorems at
   the end are the mode-independent versions of the theorems of Build_lift_proofs.v. *)
From Coq Require Import List Ascii Bool Arith Lia.
From Grog Require Import Str Label HashKey Build Build_proofs Build_single_proofs Build_ideal
     Build_c01_proofs Build_c02_proofs Build_c15_proofs Build_lift_proofs.
Import ListNotations.

Section LiftMin.
Variable H : str -> str.

Notation execute := (execute H).
Notation process_target := (process_target H).
Notation process_node := (process_node H).
Notation load_dep_outputs := (load_dep_outputs H).
Notation build := (build H).
Notation build_prefix := (build_prefix H).
Notation status_of := Build_single_proofs.status_of.

(* ================================================================== small frames: keys, worlds *)
Lemma label_eq_dec (a b : label) : {a = b} + {a <> b}.
Proof.
  destruct (label_eqb a b) eqn:E; [left; apply label_eqb_eq; exact E | right].
  intro Hab. apply label_eqb_eq in Hab. congruence.
Qed.

Lemma load_outputs_key i t r b ok b' :
  load_outputs H i t r b = (ok, b') -> forall j, rt_key (get_rt b' j) = rt_key (get_rt b j).
Proof.
  unfold load_outputs. intros E j.
  destruct (rt_loaded (get_rt b i)); [inversion E; reflexivity|].
  destruct (negb (outputs_match t r)); [inversion E; reflexivity|].
  destruct (load_all H (b_cache b) t (r_outs r) (w_ws (b_world b))) as [ok' ws'].
  destruct ok'; inversion E; subst ok b'; clear E; [|reflexivity].
  rewrite (get_rt_set_rt_field rt_key); reflexivity.
Qed.

Lemma exec_done_key cfg i t key tn b w' ds j :
  rt_key (get_rt (exec_done H cfg i t key tn b w' ds) j) = rt_key (get_rt b j).
Proof.
  unfold exec_done. rewrite untaint_get_rt. unfold oc_state. cbv zeta.
  rewrite (get_rt_set_rt_field rt_key); [|reflexivity].
  rewrite get_rt_set_cache, get_rt_set_world. rewrite exec_b0_get_rt. reflexivity.
Qed.

Lemma execute_key cfg s i t key tn b ok b' :
  execute cfg s i t key tn b = (ok, b') -> forall j, rt_key (get_rt b' j) = rt_key (get_rt b j).
Proof.
  intros E j. rewrite execute_eq in E.
  destruct (exec_ran s t b) as [w'|].
  - destruct (check_ok w' t).
    + destruct (present_digests H t (td_outs t) (w_ws w')) as [ds|]; inversion E; subst ok b'.
      * apply exec_done_key.
      * rewrite get_rt_set_world. rewrite exec_b0_get_rt. reflexivity.
    + inversion E; subst ok b'. rewrite get_rt_set_world. rewrite exec_b0_get_rt. reflexivity.
  - inversion E; subst ok b'. rewrite get_rt_set_world. rewrite exec_b0_get_rt. reflexivity.
Qed.

(* a target without a command: executing it leaves the world alone *)
Lemma execute_world_null cfg s i t key tn b ok b' :
  null (td_cmd t) = true -> execute cfg s i t key tn b = (ok, b') -> b_world b' = b_world b.
Proof.
  intros Hn E. rewrite execute_eq in E. unfold exec_ran in E. rewrite Hn in E.
  destruct (check_ok (b_world b) t).
  - destruct (present_digests H t (td_outs t) (w_ws (b_world b))) as [ds|]; inversion E; subst ok b'.
    + unfold exec_done. rewrite untaint_world, oc_state_world. reflexivity.
    + reflexivity.
  - inversion E; subst ok b'. reflexivity.
Qed.

(* executing never forgets a blob *)
Lemma execute_cas_mono cfg s i t key tn b ok b' dg x :
  execute cfg s i t key tn b = (ok, b') ->
  alookup dg (c_cas (b_cache b)) = Some x -> alookup dg (c_cas (b_cache b')) = Some x.
Proof.
  intros E Hx. rewrite execute_eq in E.
  assert (Hf : forall w'', alookup dg (c_cas (b_cache (set_world (exec_b0 t b) w''))) = Some x).
  { intro w''. rewrite b_cache_set_world, exec_b0_cache. exact Hx. }
  destruct (exec_ran s t b) as [w'|]; [|inversion E; subst; apply Hf].
  destruct (check_ok w' t); [|inversion E; subst; apply Hf].
  destruct (present_digests H t (td_outs t) (w_ws w')) as [ds|]; inversion E; subst ok b'; [|apply Hf].
  unfold exec_done. rewrite untaint_cas, oc_state_cas. apply oc_pair_cas_mono. exact Hx.
Qed.

(* ================================================================== runs of dependency commands *)
(* (d, dt) is a transitive, alias-resolved dependency reachable from the dependency list ds *)
Inductive rdep (s : sources) : list nat -> nat -> tdef -> Prop :=
| rdep_here : forall ds d0 d dt, In d0 ds -> resolve s d0 = Some (d, dt) -> rdep s ds d dt
| rdep_deep : forall ds d0 d dt e et, In d0 ds -> resolve s d0 = Some (d, dt) ->
              rdep s (td_deps dt) e et -> rdep s ds e et.

Lemma rdep_target s ds d dt : rdep s ds d dt -> node_at s d = Some (NTarget dt).
Proof. induction 1 as [ds d0 d dt _ Hr|]; [eapply resolve_target; exact Hr | assumption]. Qed.

Lemma rdep_incl s ds ds' d dt : (forall x, In x ds -> In x ds') -> rdep s ds d dt -> rdep s ds' d dt.
Proof.
  intros Hi Hr. destruct Hr as [ds d0 d dt Hin Hres|ds d0 d dt e et Hin Hres Hdeep].
  - eapply rdep_here; eauto.
  - eapply rdep_deep; eauto.
Qed.

(* what a run of commands of the dependencies in R, starting the commands [extra], changes *)
Record dep_frame (s : sources) (R : nat -> tdef -> Prop) (extra : list label) (b b' : bstate) : Prop := {
  df_len   : rt_len b' = rt_len b;
  df_sts   : sts b' = sts b;
  df_stop  : b_stop b' = b_stop b;
  df_key   : forall j, rt_key (get_rt b' j) = rt_key (get_rt b j);
  df_taint : c_taint (b_cache b') = c_taint (b_cache b);
  df_exec  : b_exec b' = b_exec b ++ extra;
  df_who   : forall l, In l extra ->
             exists d dt, R d dt /\ td_label dt = l /\ rt_key (get_rt b d) <> None;
  df_ext   : forall l, ~ In l extra -> label_in l (w_ext (b_world b')) = label_in l (w_ext (b_world b));
  df_res   : forall k, rlookup k (c_results (b_cache b')) = rlookup k (c_results (b_cache b)) \/
             exists d dt, R d dt /\ rt_key (get_rt b' d) = Some k /\
                          (exists r, rlookup k (c_results (b_cache b')) = Some r) /\
                          (null (td_cmd dt) = false -> In (td_label dt) extra);
  df_cas   : forall dg x, alookup dg (c_cas (b_cache b)) = Some x -> alookup dg (c_cas (b_cache b')) = Some x
}.

Lemma dep_frame_refl s R b : dep_frame s R [] b b.
Proof.
  constructor; auto.
  - rewrite app_nil_r. reflexivity.
  - intros l [].
Qed.

Lemma dep_frame_mono s (R R' : nat -> tdef -> Prop) extra b b' :
  (forall d dt, R d dt -> R' d dt) -> dep_frame s R extra b b' -> dep_frame s R' extra b b'.
Proof.
  intros Hi [A1 A2 A3 A4 A5 A6 A7 A8 A9 A10]. constructor; auto.
  - intros l Hl. destruct (A7 l Hl) as (d & dt & Hr & Hlab & Hk). exists d, dt. auto.
  - intro k. destruct (A9 k) as [E|(d & dt & Hr & Hk & Hs & Hx)]; [left; exact E | right].
    exists d, dt. auto.
Qed.

Lemma dep_frame_trans s R e1 e2 b0 b1 b2 :
  dep_frame s R e1 b0 b1 -> dep_frame s R e2 b1 b2 -> dep_frame s R (e1 ++ e2) b0 b2.
Proof.
  intros [A1 A2 A3 A4 A5 A6 A7 A8 A9 A10] [B1 B2 B3 B4 B5 B6 B7 B8 B9 B10]. constructor.
  - congruence.
  - congruence.
  - congruence.
  - intro j. rewrite B4. apply A4.
  - congruence.
  - rewrite B6, A6, app_assoc. reflexivity.
  - intros l Hl. apply in_app_or in Hl as [Hl|Hl]; [apply A7; exact Hl|].
    destruct (B7 l Hl) as (d & dt & Hr & Hlab & Hk). exists d, dt. rewrite A4 in Hk. auto.
  - intros l Hl. rewrite B8, A8; [reflexivity | |]; intro Hin; apply Hl, in_or_app; auto.
  - intro k. destruct (B9 k) as [E2|(d & dt & Hr & Hk & Hs & Hx)].
    + destruct (A9 k) as [E1|(d & dt & Hr & Hk & Hs & Hx)]; [left; congruence | right].
      exists d, dt. split; [exact Hr|]. split; [rewrite B4; exact Hk|]. split; [rewrite E2; exact Hs|].
      intro Hn. apply in_or_app. left. apply Hx, Hn.
    + right. exists d, dt. split; [exact Hr|]. split; [exact Hk|]. split; [exact Hs|].
      intro Hn. apply in_or_app. right. apply Hx, Hn.
  - auto.
Qed.

(* Registry.LoadOutputs runs nothing and stores nothing *)
Lemma load_outputs_dep_frame s R i t r b ok b' :
  load_outputs H i t r b = (ok, b') -> dep_frame s R [] b b'.
Proof.
  intro E. pose proof (load_outputs_key _ _ _ _ _ _ E) as Hk.
  apply (Build_single_proofs.load_outputs_frame H) in E as (Fc & Fx & Fs & Ft & Fl & Fe).
  constructor; auto.
  - rewrite Fc. reflexivity.
  - rewrite app_nil_r. exact Fx.
  - intros l [].
  - intros l _. rewrite Fe. reflexivity.
  - intro k. left. rewrite Fc. reflexivity.
  - intros dg x Hx. rewrite Fc. exact Hx.
Qed.

(* the commands a (re-)execution of dependency dt starts *)
Definition cmd_of (t : tdef) : list label := if null (td_cmd t) then [] else [td_label t].

Lemma exec_start_cmd_of t b : b_exec (exec_start t b) = b_exec b ++ cmd_of t.
Proof.
  unfold exec_start, cmd_of. destruct (null (td_cmd t)); [rewrite app_nil_r; reflexivity | reflexivity].
Qed.

End LiftMin.
