(* Build_liftmin_proofs.v -- the build-level "forces execution / postcondition" theorems of C05 / C13 / C14
   for BOTH load_outputs modes (Build_lift_proofs.v proves them under [cfg_mode cfg = LAll]).

   In mode minimal the task of a target may, inside LoadDependencyOutputs, re-execute (transitive,
   alias-resolved) DEPENDENCIES before it executes the target itself.  [dep_frame] says what such a
   run of dependency commands can change: it starts commands of dependencies that already have a key,
   touches the external conditions of exactly those labels, stores results under exactly those keys,
   and leaves taints, statuses, keys and the stop flag alone.  [task_outcome2] is the case analysis
   of one task in any mode, [node_frame2] what one step of the walk preserves, and the theorems at
   the end are the mode-independent versions of the theorems of Build_lift_proofs.v. *)
From Coq Require Import List Ascii Bool Arith Lia.
From Grog Require Import Str Label HashKey Build Build_proofs Build_single_proofs Build_ideal
     Build_c01_proofs Build_c02_proofs Build_c15_proofs Build_lift_proofs.
Import ListNotations.

Section LiftMin.
Variable H : str -> str.

Notation execute := (execute H).
Notation process_target := (process_target H).
Notation process_node := (process_node H).
Notation load_dep_outputs := (load_dep_outputs H).
Notation build := (build H).
Notation build_prefix := (build_prefix H).
Notation status_of := Build_single_proofs.status_of.

(* ================================================================== small frames: keys, worlds *)
Lemma label_eq_dec (a b : label) : {a = b} + {a <> b}.
Proof.
  destruct (label_eqb a b) eqn:E; [left; apply label_eqb_eq; exact E | right].
  intro Hab. apply label_eqb_eq in Hab. congruence.
Qed.

Lemma load_outputs_key i t r b ok b' :
  load_outputs H i t r b = (ok, b') -> forall j, rt_key (get_rt b' j) = rt_key (get_rt b j).
Proof.
  unfold load_outputs. intros E j.
  destruct (rt_loaded (get_rt b i)); [inversion E; reflexivity|].
  destruct (negb (outputs_match t r)); [inversion E; reflexivity|].
  destruct (load_all H (b_cache b) t (r_outs r) (w_ws (b_world b))) as [ok' ws'].
  destruct ok'; inversion E; subst ok b'; clear E; [|reflexivity].
  rewrite (get_rt_set_rt_field rt_key); reflexivity.
Qed.

Lemma exec_done_key cfg i t key tn b w' ds j :
  rt_key (get_rt (exec_done H cfg i t key tn b w' ds) j) = rt_key (get_rt b j).
Proof.
  unfold exec_done. rewrite untaint_get_rt. unfold oc_state. cbv zeta.
  rewrite (get_rt_set_rt_field rt_key); [|reflexivity].
  rewrite get_rt_set_cache, get_rt_set_world. rewrite exec_b0_get_rt. reflexivity.
Qed.

Lemma execute_key cfg s i t key tn b ok b' :
  execute cfg s i t key tn b = (ok, b') -> forall j, rt_key (get_rt b' j) = rt_key (get_rt b j).
Proof.
  intros E j. rewrite execute_eq in E.
  destruct (exec_ran s t b) as [w'|].
  - destruct (check_ok w' t).
    + destruct (present_digests H t (td_outs t) (w_ws w')) as [ds|]; inversion E; subst ok b'.
      * apply exec_done_key.
      * rewrite get_rt_set_world. rewrite exec_b0_get_rt. reflexivity.
    + inversion E; subst ok b'. rewrite get_rt_set_world. rewrite exec_b0_get_rt. reflexivity.
  - inversion E; subst ok b'. rewrite get_rt_set_world. rewrite exec_b0_get_rt. reflexivity.
Qed.

(* a target without a command: executing it leaves the world alone *)
Lemma execute_world_null cfg s i t key tn b ok b' :
  null (td_cmd t) = true -> execute cfg s i t key tn b = (ok, b') -> b_world b' = b_world b.
Proof.
  intros Hn E. rewrite execute_eq in E. unfold exec_ran in E. rewrite Hn in E.
  destruct (check_ok (b_world b) t).
  - destruct (present_digests H t (td_outs t) (w_ws (b_world b))) as [ds|]; inversion E; subst ok b'.
    + unfold exec_done. rewrite untaint_world, oc_state_world. reflexivity.
    + reflexivity.
  - inversion E; subst ok b'. reflexivity.
Qed.

(* executing never forgets a blob *)
Lemma execute_cas_mono cfg s i t key tn b ok b' dg x :
  execute cfg s i t key tn b = (ok, b') ->
  alookup dg (c_cas (b_cache b)) = Some x -> alookup dg (c_cas (b_cache b')) = Some x.
Proof.
  intros E Hx. rewrite execute_eq in E.
  assert (Hf : forall w'', alookup dg (c_cas (b_cache (set_world (exec_b0 t b) w''))) = Some x).
  { intro w''. rewrite b_cache_set_world, exec_b0_cache. exact Hx. }
  destruct (exec_ran s t b) as [w'|]; [|inversion E; subst; apply Hf].
  destruct (check_ok w' t); [|inversion E; subst; apply Hf].
  destruct (present_digests H t (td_outs t) (w_ws w')) as [ds|]; inversion E; subst ok b'; [|apply Hf].
  unfold exec_done. rewrite untaint_cas, oc_state_cas. apply oc_pair_cas_mono. exact Hx.
Qed.

(* ================================================================== runs of dependency commands *)
(* (d, dt) is a transitive, alias-resolved dependency reachable from the dependency list ds *)
Inductive rdep (s : sources) : list nat -> nat -> tdef -> Prop :=
| rdep_here : forall ds d0 d dt, In d0 ds -> resolve s d0 = Some (d, dt) -> rdep s ds d dt
| rdep_deep : forall ds d0 d dt e et, In d0 ds -> resolve s d0 = Some (d, dt) ->
              rdep s (td_deps dt) e et -> rdep s ds e et.

Lemma rdep_target s ds d dt : rdep s ds d dt -> node_at s d = Some (NTarget dt).
Proof. induction 1 as [ds d0 d dt _ Hr|]; [eapply resolve_target; exact Hr | assumption]. Qed.

Lemma rdep_incl s ds ds' d dt : (forall x, In x ds -> In x ds') -> rdep s ds d dt -> rdep s ds' d dt.
Proof.
  intros Hi Hr. destruct Hr as [ds d0 d dt Hin Hres|ds d0 d dt e et Hin Hres Hdeep].
  - eapply rdep_here; eauto.
  - eapply rdep_deep; eauto.
Qed.

(* what a run of commands of the dependencies in R, starting the commands [extra], changes *)
Record dep_frame (s : sources) (R : nat -> tdef -> Prop) (extra : list label) (b b' : bstate) : Prop := {
  df_len   : rt_len b' = rt_len b;
  df_sts   : sts b' = sts b;
  df_stop  : b_stop b' = b_stop b;
  df_key   : forall j, rt_key (get_rt b' j) = rt_key (get_rt b j);
  df_taint : c_taint (b_cache b') = c_taint (b_cache b);
  df_exec  : b_exec b' = b_exec b ++ extra;
  df_who   : forall l, In l extra ->
             exists d dt, R d dt /\ td_label dt = l /\ rt_key (get_rt b d) <> None;
  df_ext   : forall l, ~ In l extra -> label_in l (w_ext (b_world b')) = label_in l (w_ext (b_world b));
  df_res   : forall k, rlookup k (c_results (b_cache b')) = rlookup k (c_results (b_cache b)) \/
             exists d dt, R d dt /\ rt_key (get_rt b' d) = Some k /\
                          (exists r, rlookup k (c_results (b_cache b')) = Some r) /\
                          (null (td_cmd dt) = false -> In (td_label dt) extra);
  df_cas   : forall dg x, alookup dg (c_cas (b_cache b)) = Some x -> alookup dg (c_cas (b_cache b')) = Some x
}.

Lemma dep_frame_refl s R b : dep_frame s R [] b b.
Proof.
  constructor; auto.
  - rewrite app_nil_r. reflexivity.
  - intros l [].
Qed.

Lemma dep_frame_mono s (R R' : nat -> tdef -> Prop) extra b b' :
  (forall d dt, R d dt -> R' d dt) -> dep_frame s R extra b b' -> dep_frame s R' extra b b'.
Proof.
  intros Hi [A1 A2 A3 A4 A5 A6 A7 A8 A9 A10]. constructor; auto.
  - intros l Hl. destruct (A7 l Hl) as (d & dt & Hr & Hlab & Hk). exists d, dt. auto.
  - intro k. destruct (A9 k) as [E|(d & dt & Hr & Hk & Hs & Hx)]; [left; exact E | right].
    exists d, dt. auto.
Qed.

Lemma dep_frame_trans s R e1 e2 b0 b1 b2 :
  dep_frame s R e1 b0 b1 -> dep_frame s R e2 b1 b2 -> dep_frame s R (e1 ++ e2) b0 b2.
Proof.
  intros [A1 A2 A3 A4 A5 A6 A7 A8 A9 A10] [B1 B2 B3 B4 B5 B6 B7 B8 B9 B10]. constructor.
  - congruence.
  - congruence.
  - congruence.
  - intro j. rewrite B4. apply A4.
  - congruence.
  - rewrite B6, A6, app_assoc. reflexivity.
  - intros l Hl. apply in_app_or in Hl as [Hl|Hl]; [apply A7; exact Hl|].
    destruct (B7 l Hl) as (d & dt & Hr & Hlab & Hk). exists d, dt. rewrite A4 in Hk. auto.
  - intros l Hl. rewrite B8, A8; [reflexivity | |]; intro Hin; apply Hl, in_or_app; auto.
  - intro k. destruct (B9 k) as [E2|(d & dt & Hr & Hk & Hs & Hx)].
    + destruct (A9 k) as [E1|(d & dt & Hr & Hk & Hs & Hx)]; [left; congruence | right].
      exists d, dt. split; [exact Hr|]. split; [rewrite B4; exact Hk|]. split; [rewrite E2; exact Hs|].
      intro Hn. apply in_or_app. left. apply Hx, Hn.
    + right. exists d, dt. split; [exact Hr|]. split; [exact Hk|]. split; [exact Hs|].
      intro Hn. apply in_or_app. right. apply Hx, Hn.
  - auto.
Qed.

(* Registry.LoadOutputs runs nothing and stores nothing *)
Lemma load_outputs_dep_frame s R i t r b ok b' :
  load_outputs H i t r b = (ok, b') -> dep_frame s R [] b b'.
Proof.
  intro E. pose proof (load_outputs_key _ _ _ _ _ _ E) as Hk.
  apply (Build_single_proofs.load_outputs_frame H) in E as (Fc & Fx & Fs & Ft & Fl & Fe).
  constructor; auto.
  - rewrite Fc. reflexivity.
  - rewrite app_nil_r. exact Fx.
  - intros l [].
  - intros l _. rewrite Fe. reflexivity.
  - intro k. left. rewrite Fc. reflexivity.
  - intros dg x Hx. rewrite Fc. exact Hx.
Qed.

(* the commands a (re-)execution of dependency dt starts *)
Definition cmd_of (t : tdef) : list label := if null (td_cmd t) then [] else [td_label t].

Lemma exec_start_cmd_of t b : b_exec (exec_start t b) = b_exec b ++ cmd_of t.
Proof.
  unfold exec_start, cmd_of. destruct (null (td_cmd t)); [rewrite app_nil_r; reflexivity | reflexivity].
Qed.

Lemma cmd_of_in t l : In l (cmd_of t) -> null (td_cmd t) = false /\ l = td_label t.
Proof.
  unfold cmd_of. destruct (null (td_cmd t)); intros Hl; [destruct Hl|].
  destruct Hl as [<-|[]]. auto.
Qed.

Lemma cmd_of_notin t l : ~ In l (cmd_of t) -> null (td_cmd t) = true \/ l <> td_label t.
Proof.
  unfold cmd_of. destruct (null (td_cmd t)); intro Hl; [left; reflexivity | right].
  intro E. apply Hl. left. auto.
Qed.

(* the (re-)execution of a dependency that has a key, as LoadDependencyOutputs does it (never "tainted") *)
Lemma execute_dep_frame cfg s (R : nat -> tdef -> Prop) d dt dkey b ok b' :
  R d dt -> rt_key (get_rt b d) = Some dkey ->
  execute cfg s d dt dkey false b = (ok, b') -> dep_frame s R (cmd_of dt) b b'.
Proof.
  intros Hr Hkey E.
  pose proof (execute_key _ _ _ _ _ _ _ _ _ E) as Hk.
  pose proof (fun dg x => execute_cas_mono _ _ _ _ _ _ _ _ _ dg x E) as Hcas.
  assert (Hwho : forall l, In l (cmd_of dt) ->
            exists d0 dt0, R d0 dt0 /\ td_label dt0 = l /\ rt_key (get_rt b d0) <> None).
  { intros l Hl. apply cmd_of_in in Hl as [_ ->]. exists d, dt. split; [exact Hr|]. split; [reflexivity|].
    rewrite Hkey. discriminate. }
  destruct ok.
  - pose proof E as Enull. apply (Build_single_proofs.execute_ok H) in E. destruct E as [K1 K2 K3 K4 K5 K6 K7 K8 K9 K10 K11].
    constructor; auto.
    + rewrite K8. apply exec_start_cmd_of.
    + intros l Hl. apply cmd_of_notin in Hl as [Hn|Hne].
      * rewrite (execute_world_null _ _ _ _ _ _ _ _ _ Hn Enull). reflexivity.
      * destruct (null (td_cmd dt)); [rewrite K1; reflexivity|].
        apply (run_command_ext s dt _ _ K1). exact Hne.
    + intro k. destruct (str_eq_dec k dkey) as [->|Hne]; [|left; apply K5; exact Hne].
      destruct (cfg_cache cfg); [right | left; rewrite (proj1 K4); reflexivity].
      exists d, dt. split; [exact Hr|]. split; [rewrite Hk; exact Hkey|]. split; [exact K4|].
      intro Hn. unfold cmd_of. rewrite Hn. left. reflexivity.
  - pose proof E as Enull. apply (Build_single_proofs.execute_fail H) in E as (F1 & F2 & F3 & F4 & F5 & F6).
    constructor; auto.
    + rewrite F1. reflexivity.
    + rewrite F3. apply exec_start_cmd_of.
    + intros l Hl. apply cmd_of_notin in Hl as [Hn|Hne].
      * rewrite (execute_world_null _ _ _ _ _ _ _ _ _ Hn Enull). reflexivity.
      * apply F6. exact Hne.
    + intro k. left. rewrite F1. reflexivity.
Qed.

(* ================================================================== LoadDependencyOutputs *)
Lemma ldo_dep_frame cfg s : forall f ds b ok b',
  load_dep_outputs f cfg s ds b = (ok, b') -> exists extra, dep_frame s (rdep s ds) extra b b'.
Proof.
  induction f as [|f IH]; intros ds b ok b' E; cbn [Build.load_dep_outputs] in E.
  { inversion E; subst. exists []. apply dep_frame_refl. }
  destruct ds as [|d0 ds']; [inversion E; subst; exists []; apply dep_frame_refl|].
  assert (Htl : forall d dt, rdep s ds' d dt -> rdep s (d0 :: ds') d dt).
  { intros d dt. apply rdep_incl. intros x Hx. right. exact Hx. }
  destruct (resolve s d0) as [[d dt]|] eqn:Eres.
  2:{ apply IH in E as [extra Hf]. exists extra. eapply dep_frame_mono; [exact Htl | exact Hf]. }
  assert (Hhere : rdep s (d0 :: ds') d dt) by (eapply rdep_here; [left; reflexivity | exact Eres]).
  assert (Hdeep : forall e et, rdep s (td_deps dt) e et -> rdep s (d0 :: ds') e et).
  { intros e et He. eapply rdep_deep; [left; reflexivity | exact Eres | exact He]. }
  destruct (rt_loaded (get_rt b d)).
  { apply IH in E as [extra Hf]. exists extra. eapply dep_frame_mono; [exact Htl | exact Hf]. }
  destruct (rt_key (get_rt b d)) as [dkey|] eqn:Ekey; [|inversion E; subst; exists []; apply dep_frame_refl].
  destruct (rlookup dkey (c_results (b_cache b))) as [r|].
  2:{ exists (cmd_of dt). eapply execute_dep_frame; eauto. }
  destruct (load_outputs H d dt r b) as [ok1 b1] eqn:El.
  pose proof (load_outputs_dep_frame s (rdep s (d0 :: ds')) _ _ _ _ _ _ El) as F1.
  destruct (negb ok1 || (td_nocache dt && negb (rt_loaded (get_rt b1 d)))).
  - destruct (load_dep_outputs f cfg s (td_deps dt) b1) as [ok2 b2] eqn:E2.
    apply IH in E2 as [e2 F2]. apply (dep_frame_mono _ _ _ _ _ _ Hdeep) in F2.
    pose proof (dep_frame_trans _ _ _ _ _ _ _ F1 F2) as F12. cbn [app] in F12.
    destruct ok2; cbn [negb] in E; [|inversion E; subst; exists e2; exact F12].
    destruct (Build.execute H cfg s d dt dkey false b2) as [ok3 b3] eqn:E3.
    assert (Hk2 : rt_key (get_rt b2 d) = Some dkey) by (rewrite (df_key _ _ _ _ _ F12); exact Ekey).
    pose proof (execute_dep_frame cfg s _ d dt dkey b2 ok3 b3 Hhere Hk2 E3) as F3.
    pose proof (dep_frame_trans _ _ _ _ _ _ _ F12 F3) as F123.
    destruct ok3; [|inversion E; subst; eexists; exact F123].
    apply IH in E as [e4 F4]. apply (dep_frame_mono _ _ _ _ _ _ Htl) in F4.
    eexists. eapply dep_frame_trans; [exact F123 | exact F4].
  - apply IH in E as [e4 F4]. apply (dep_frame_mono _ _ _ _ _ _ Htl) in F4.
    eexists. eapply dep_frame_trans; [exact F1 | exact F4].
Qed.

(* ================================================================== the task of one target, any mode *)
Notation key_of := (Build_single_proofs.key_of H).
Notation pt_b0 := Build_c02_proofs.pt_b0.
Notation pt_tainted := Build_c02_proofs.pt_tainted.
Notation hit_cond := Build_c02_proofs.hit_cond.

Inductive task_outcome2 (cfg : config) (s : sources) (i : nat) (t : tdef) (b b' : bstate) : Prop :=
| T2_nohash :                        (* a dependency has no output hash: nothing happens *)
    dep_hashes s b (td_deps t) = None ->
    b' = mark b i TFailed -> task_outcome2 cfg s i t b b'
| T2_hit : forall dh res b1,          (* served from the cache: nothing runs, nothing is stored *)
    dep_hashes s b (td_deps t) = Some dh ->
    rlookup (key_of s t dh) (c_results (b_cache b)) = Some res ->
    hit_cond cfg t b = true ->
    dep_frame s (rdep s (td_deps t)) [] (pt_b0 i (key_of s t dh) b) b1 ->
    b_cache b1 = b_cache b -> w_ext (b_world b1) = w_ext (b_world b) ->
    b' = mark b1 i THit -> task_outcome2 cfg s i t b b'
| T2_deps_fail : forall dh extra b2,  (* mode minimal: loading the dependency outputs failed *)
    dep_hashes s b (td_deps t) = Some dh ->
    dep_frame s (rdep s (td_deps t)) extra (pt_b0 i (key_of s t dh) b) b2 ->
    b' = mark b2 i TFailed -> task_outcome2 cfg s i t b b'
| T2_exec_ok : forall dh extra b1 b3, (* (dependencies re-run,) then executed successfully *)
    dep_hashes s b (td_deps t) = Some dh ->
    dep_frame s (rdep s (td_deps t)) extra (pt_b0 i (key_of s t dh) b) b1 ->
    exec_ok cfg s t (key_of s t dh) (pt_tainted t b) b1 b3 ->
    (forall j, rt_key (get_rt b3 j) = rt_key (get_rt b1 j)) ->
    (forall dg x, alookup dg (c_cas (b_cache b1)) = Some x -> alookup dg (c_cas (b_cache b3)) = Some x) ->
    b' = mark b3 i TExecuted -> task_outcome2 cfg s i t b b'
| T2_exec_fail : forall dh extra b1 b3, (* (dependencies re-run,) then executed and failed *)
    dep_hashes s b (td_deps t) = Some dh ->
    dep_frame s (rdep s (td_deps t)) extra (pt_b0 i (key_of s t dh) b) b1 ->
    b_cache b3 = b_cache b1 -> sts b3 = sts b1 -> b_exec b3 = b_exec b1 ++ cmd_of t ->
    rt_len b3 = rt_len b1 -> ext_frame t (b_world b1) (b_world b3) ->
    (forall j, rt_key (get_rt b3 j) = rt_key (get_rt b1 j)) ->
    b' = mark b3 i TFailed -> task_outcome2 cfg s i t b b'.

Lemma exec_tail_outcome cfg s i t b dh extra b1 :
  dep_hashes s b (td_deps t) = Some dh ->
  dep_frame s (rdep s (td_deps t)) extra (pt_b0 i (key_of s t dh) b) b1 ->
  task_outcome2 cfg s i t b (exec_tail H cfg s i t (key_of s t dh) (pt_tainted t b) b1).
Proof.
  intros Hd Hf. unfold exec_tail.
  destruct (Build.execute H cfg s i t (key_of s t dh) (pt_tainted t b) b1) as [ok b3] eqn:E.
  pose proof (execute_key _ _ _ _ _ _ _ _ _ E) as Hk.
  pose proof (fun dg x => execute_cas_mono _ _ _ _ _ _ _ _ _ dg x E) as Hcas.
  destruct ok.
  - apply (Build_single_proofs.execute_ok H) in E. eapply T2_exec_ok; eauto.
  - apply (Build_single_proofs.execute_fail H) in E as (F1 & F2 & F3 & F4 & F5 & F6).
    eapply T2_exec_fail; eauto. rewrite F3. apply exec_start_cmd_of.
Qed.

Lemma set_ohash_dep_frame s R b i oh : dep_frame s R [] b (set_ohash b i oh).
Proof.
  constructor; auto.
  - unfold set_ohash. apply rt_len_set_rt.
  - apply sts_set_ohash.
  - intro j. unfold set_ohash. apply (get_rt_set_rt_field rt_key). reflexivity.
  - rewrite app_nil_r. reflexivity.
  - intros l [].
Qed.

Lemma process_target_any cfg s i t b : task_outcome2 cfg s i t b (process_target cfg s i t b).
Proof.
  destruct (cfg_mode cfg) eqn:Hm.
  - rewrite (pt_LAll H cfg s i t b Hm).
    destruct (dep_hashes s b (td_deps t)) as [dh|] eqn:Hd; [|apply T2_nohash; auto].
    cbv zeta. change (pt_key H s t dh) with (key_of s t dh).
    set (key := key_of s t dh).
    pose proof (dep_frame_refl s (rdep s (td_deps t)) (pt_b0 i key b)) as F0.
    destruct (rlookup key (c_results (b_cache b))) as [res|] eqn:Er; [|eapply exec_tail_outcome; eauto].
    destruct (hit_cond cfg t b) eqn:Ehc; [|eapply exec_tail_outcome; eauto].
    destruct (load_outputs H i t res (pt_b0 i key b)) as [hit b1] eqn:El.
    pose proof (load_outputs_dep_frame s (rdep s (td_deps t)) _ _ _ _ _ _ El) as F1.
    destruct hit; [|eapply exec_tail_outcome; eauto].
    apply (Build_single_proofs.load_outputs_frame H) in El as (Fc & _ & _ & _ & _ & Fe).
    eapply T2_hit with (dh := dh) (res := res) (b1 := b1); eauto.
  - rewrite (pt_LMin H cfg s i t b Hm).
    destruct (dep_hashes s b (td_deps t)) as [dh|] eqn:Hd; [|apply T2_nohash; auto].
    cbv zeta. change (pt_key H s t dh) with (key_of s t dh).
    set (key := key_of s t dh). unfold hit_res.
    assert (Hmiss : task_outcome2 cfg s i t b
              (let '(okd, b2) := load_dep_outputs (S (length (s_nodes s))) cfg s (td_deps t) (pt_b0 i key b) in
               if okd then exec_tail H cfg s i t key (pt_tainted t b) b2 else mark b2 i TFailed)).
    { destruct (load_dep_outputs (S (length (s_nodes s))) cfg s (td_deps t) (pt_b0 i key b)) as [okd b2] eqn:E2.
      apply ldo_dep_frame in E2 as [extra F2].
      destruct okd; [eapply exec_tail_outcome; eauto | eapply T2_deps_fail; eauto]. }
    destruct (rlookup key (c_results (b_cache b))) as [res|] eqn:Er; [|exact Hmiss].
    destruct (hit_cond cfg t b) eqn:Ehc; [|exact Hmiss].
    eapply T2_hit with (dh := dh) (res := res) (b1 := set_ohash (pt_b0 i key b) i (r_outhash res)); eauto;
      try apply set_ohash_dep_frame; reflexivity.
Qed.

(* ================================================================== what one node's step preserves, any mode *)
(* [node_frame] of Build_lift_proofs.v with "nobody but the target itself" generalised to "nobody but the
   target itself or a command of a target that already has a key (a dependency that is re-run)" *)
Definition label_idle (s : sources) (j : nat) (b : bstate) (l : label) : Prop :=
  forall d dt, node_at s d = Some (NTarget dt) -> td_label dt = l -> d <> j /\ rt_key (get_rt b d) = None.

Record node_frame2 (s : sources) (j : nat) (b b' : bstate) : Prop := {
  n2_len   : rt_len b' = rt_len b;
  n2_sts   : forall i, i <> j -> status_of b' i = status_of b i;
  n2_key   : forall i, i <> j -> rt_key (get_rt b' i) = rt_key (get_rt b i);
  n2_exec  : exists extra, b_exec b' = b_exec b ++ extra;
  n2_taint : forall l, label_in l (c_taint (b_cache b')) = true -> label_in l (c_taint (b_cache b)) = true;
  n2_taint_other : forall l, (forall t, node_at s j = Some (NTarget t) -> td_label t <> l) ->
                   label_in l (c_taint (b_cache b')) = label_in l (c_taint (b_cache b));
  n2_ext   : forall l, label_idle s j b l ->
             label_in l (w_ext (b_world b')) = label_in l (w_ext (b_world b))
}.

Lemma node_frame2_refl s j b : node_frame2 s j b b.
Proof. constructor; auto. exists []. rewrite app_nil_r. reflexivity. Qed.

Lemma node_frame2_trans s j b0 b1 b2 :
  node_frame2 s j b0 b1 -> node_frame2 s j b1 b2 -> node_frame2 s j b0 b2.
Proof.
  intros [A1 A2 A3 [e1 A4] A5 A6 A7] [B1 B2 B3 [e2 B4] B5 B6 B7]. constructor.
  - congruence.
  - intros i Hi. rewrite B2, A2; auto.
  - intros i Hi. rewrite B3, A3; auto.
  - exists (e1 ++ e2). rewrite B4, A4, app_assoc. reflexivity.
  - auto.
  - intros l Hl. rewrite B6, A6; auto.
  - intros l Hl. rewrite B7, A7; auto.
    intros d dt Hn Hlab. destruct (Hl d dt Hn Hlab) as [Hdj Hk]. split; [exact Hdj|].
    rewrite A3; auto.
Qed.

Lemma node_frame2_mark s j b st : node_frame2 s j b (mark b j st).
Proof.
  constructor; autorewrite with bst; auto.
  - intros i Hi. unfold Build_single_proofs.status_of. rewrite sts_mark. apply status_list_set_other. auto.
  - intros i _. apply rt_key_mark.
  - exists []. rewrite app_nil_r. reflexivity.
Qed.

Lemma node_frame2_pt_b0 s j key b : node_frame2 s j b (pt_b0 j key b).
Proof.
  constructor; auto.
  - apply pt_b0_len.
  - intros i _. unfold Build_single_proofs.status_of. rewrite sts_pt_b0. reflexivity.
  - intros i Hi. rewrite pt_b0_other; auto.
  - exists []. rewrite app_nil_r. reflexivity.
Qed.

Lemma node_frame2_stopped s j b b' : node_frame2 s j b b' -> node_frame2 s j b (stopped b').
Proof. intros [A1 A2 A3 A4 A5 A6 A7]. constructor; auto. Qed.

Lemma node_frame2_dep s (R : nat -> tdef -> Prop) extra j b b' :
  (forall d dt, R d dt -> node_at s d = Some (NTarget dt)) ->
  dep_frame s R extra b b' -> node_frame2 s j b b'.
Proof.
  intros HR [A1 A2 A3 A4 A5 A6 A7 A8 A9 A10]. constructor; auto.
  - intros i _. unfold Build_single_proofs.status_of. rewrite A2. reflexivity.
  - eauto.
  - intros l Hl. rewrite A5 in Hl. exact Hl.
  - intros l _. rewrite A5. reflexivity.
  - intros l Hl. apply A8. intro Hin. destruct (A7 l Hin) as (d & dt & Hr & Hlab & Hk).
    destruct (Hl d dt (HR d dt Hr) Hlab) as [_ Hnone]. congruence.
Qed.

(* the target's own execution *)
Lemma node_frame2_exec_ok cfg s j t key tn b1 b3 :
  node_at s j = Some (NTarget t) -> tn = label_in (td_label t) (c_taint (b_cache b1)) ->
  exec_ok cfg s t key tn b1 b3 -> (forall i, rt_key (get_rt b3 i) = rt_key (get_rt b1 i)) ->
  node_frame2 s j b1 b3.
Proof.
  intros Hn Htn [K1 K2 K3 K4 K5 K6 K7 K8 K9 K10 K11] Hk.
  constructor; auto.
  - intros i _. unfold Build_single_proofs.status_of. rewrite K9. reflexivity.
  - rewrite K8, exec_start_cmd_of. eauto.
  - intros l Hl. rewrite K7 in Hl. destruct tn; [eapply label_in_remove_mono; exact Hl | exact Hl].
  - intros l Hl. rewrite K7. destruct tn; [|reflexivity]. apply label_in_remove_other. exact (Hl t Hn).
  - intros l Hl. assert (Hne : l <> td_label t).
    { intro E. destruct (Hl j t Hn (eq_sym E)) as [Hjj _]. congruence. }
    destruct (null (td_cmd t)); [rewrite K1; reflexivity|].
    apply (run_command_ext s t _ _ K1). exact Hne.
Qed.

Lemma node_frame2_exec_fail s j t b1 b3 :
  node_at s j = Some (NTarget t) ->
  b_cache b3 = b_cache b1 -> sts b3 = sts b1 -> b_exec b3 = b_exec b1 ++ cmd_of t ->
  rt_len b3 = rt_len b1 -> ext_frame t (b_world b1) (b_world b3) ->
  (forall i, rt_key (get_rt b3 i) = rt_key (get_rt b1 i)) ->
  node_frame2 s j b1 b3.
Proof.
  intros Hn Hc Hs Hx Hl He Hk. constructor; auto.
  - intros i _. unfold Build_single_proofs.status_of. rewrite Hs. reflexivity.
  - eauto.
  - intros l Hin. rewrite Hc in Hin. exact Hin.
  - intros l _. rewrite Hc. reflexivity.
  - intros l Hidle. apply He. intro E. destruct (Hidle j t Hn (eq_sym E)) as [Hjj _]. congruence.
Qed.

Lemma node_frame2_pre s j t key extra b b1 :
  dep_frame s (rdep s (td_deps t)) extra (pt_b0 j key b) b1 -> node_frame2 s j b b1.
Proof.
  intro F. eapply node_frame2_trans; [apply node_frame2_pt_b0|].
  eapply node_frame2_dep; [|exact F]. intros d dt. apply rdep_target.
Qed.

Lemma node_frame2_task cfg s j t b :
  node_at s j = Some (NTarget t) -> node_frame2 s j b (process_target cfg s j t b).
Proof.
  intro Hn.
  destruct (process_target_any cfg s j t b)
    as [Hd ->|dh res b1 Hd Hr Hc F Hca He ->|dh extra b2 Hd F ->
       |dh extra b1 b3 Hd F Hok Hk Hcas ->|dh extra b1 b3 Hd F C S X L E K ->].
  - apply node_frame2_mark.
  - eapply node_frame2_trans; [eapply node_frame2_pre; exact F | apply node_frame2_mark].
  - eapply node_frame2_trans; [eapply node_frame2_pre; exact F | apply node_frame2_mark].
  - eapply node_frame2_trans; [eapply node_frame2_pre; exact F|].
    eapply node_frame2_trans; [|apply node_frame2_mark].
    eapply node_frame2_exec_ok; [exact Hn | | exact Hok | exact Hk].
    rewrite (df_taint _ _ _ _ _ F). reflexivity.
  - eapply node_frame2_trans; [eapply node_frame2_pre; exact F|].
    eapply node_frame2_trans; [|apply node_frame2_mark].
    eapply node_frame2_exec_fail; eauto.
Qed.

Lemma node_frame2_step cfg s sel b j : node_frame2 s j b (process_node cfg s sel b j).
Proof.
  destruct (process_node_cases H cfg s sel b j) as [E | [(st & E & _) | (t & Hn & _ & _ & _ & [E | [E _]])]];
    rewrite E.
  - apply node_frame2_refl.
  - apply node_frame2_mark.
  - apply node_frame2_task; auto.
  - apply node_frame2_stopped. apply node_frame2_task; auto.
Qed.

(* ================================================================== reading the outcome off the final state *)
Lemma cmd_of_cases t : cmd_of t = [] \/ cmd_of t = [td_label t].
Proof. unfold cmd_of. destruct (null (td_cmd t)); auto. Qed.

(* the facts that hold when the task ends as failed: the commands [extra] of (transitive) dependencies that
   have a key were (re-)run, then possibly the target's own command; results were stored only under
   keys of such dependencies; no taint was consumed; no blob and no result was lost *)
Record failed_facts2 (s : sources) (t : tdef) (b b' : bstate) : Prop := {
  f2_taint : c_taint (b_cache b') = c_taint (b_cache b);
  f2_cas   : forall dg x, alookup dg (c_cas (b_cache b)) = Some x -> alookup dg (c_cas (b_cache b')) = Some x;
  f2_run   : exists extra own,
      b_exec b' = b_exec b ++ extra ++ own /\ (own = [] \/ own = [td_label t]) /\
      (forall l, In l extra ->
         exists d dt, rdep s (td_deps t) d dt /\ td_label dt = l /\ rt_key (get_rt b' d) <> None) /\
      (forall l, ~ In l extra -> l <> td_label t ->
         label_in l (w_ext (b_world b')) = label_in l (w_ext (b_world b))) /\
      (forall k, rlookup k (c_results (b_cache b')) = rlookup k (c_results (b_cache b)) \/
                 exists d dt, rdep s (td_deps t) d dt /\ rt_key (get_rt b' d) = Some k /\
                   (exists r, rlookup k (c_results (b_cache b')) = Some r) /\
                   (null (td_cmd dt) = false -> In (td_label dt) extra))
}.

Lemma failed_facts2_of s i t key extra own b b1 b3 :
  dep_frame s (rdep s (td_deps t)) extra (pt_b0 i key b) b1 ->
  b_cache b3 = b_cache b1 -> b_exec b3 = b_exec b1 ++ own -> (own = [] \/ own = [td_label t]) ->
  ext_frame t (b_world b1) (b_world b3) ->
  (forall j, rt_key (get_rt b3 j) = rt_key (get_rt b1 j)) ->
  failed_facts2 s t b (mark b3 i TFailed).
Proof.
  intros [A1 A2 A3 A4 A5 A6 A7 A8 A9 A10] Hc Hx Hown He Hk.
  assert (Hkey : forall d, rt_key (get_rt (mark b3 i TFailed) d) = rt_key (get_rt b1 d))
    by (intro d; rewrite rt_key_mark; apply Hk).
  constructor; autorewrite with bst.
  - rewrite Hc, A5. reflexivity.
  - intros dg x Hin. rewrite Hc. apply A10. exact Hin.
  - exists extra, own. split; [rewrite Hx, A6, app_assoc; reflexivity|]. split; [exact Hown|].
    split; [|split].
    + intros l Hl. destruct (A7 l Hl) as (d & dt & Hr & Hlab & Hkd). exists d, dt.
      split; [exact Hr|]. split; [exact Hlab|]. rewrite Hkey, A4. exact Hkd.
    + intros l Hl Hne. rewrite (He l Hne). rewrite (A8 l Hl). reflexivity.
    + intro k. rewrite Hc. destruct (A9 k) as [E|(d & dt & Hr & Hkd & Hs & Hin)]; [left; exact E | right].
      exists d, dt. split; [exact Hr|]. split; [rewrite Hkey; exact Hkd|]. auto.
Qed.

Lemma failed_facts2_nothing s t b i : failed_facts2 s t b (mark b i TFailed).
Proof.
  constructor; autorewrite with bst; auto.
  exists [], []. split; [rewrite !app_nil_r; reflexivity|]. split; [left; reflexivity|].
  split; [intros l []|]. split; [reflexivity|]. intro k. left. reflexivity.
Qed.

Lemma status_mark_same b i st : i < rt_len b -> status_of (mark b i st) i = st.
Proof.
  intro Hi. unfold Build_single_proofs.status_of. rewrite sts_mark. apply status_list_set.
  rewrite sts_length. exact Hi.
Qed.

Inductive step_outcome (cfg : config) (s : sources) (i : nat) (t : tdef) (b b' : bstate) : Prop :=
| SO_failed : status_of b' i = TFailed -> failed_facts2 s t b b' -> step_outcome cfg s i t b b'
| SO_hit : status_of b' i = THit -> hit_facts H cfg s t b b' -> step_outcome cfg s i t b b'
| SO_executed : forall dh extra b1 b3,
    status_of b' i = TExecuted ->
    dep_hashes s b (td_deps t) = Some dh ->
    dep_frame s (rdep s (td_deps t)) extra (pt_b0 i (key_of s t dh) b) b1 ->
    exec_ok cfg s t (key_of s t dh) (label_in (td_label t) (c_taint (b_cache b))) b1 b3 ->
    (forall j, rt_key (get_rt b3 j) = rt_key (get_rt b1 j)) ->
    (forall dg x, alookup dg (c_cas (b_cache b1)) = Some x -> alookup dg (c_cas (b_cache b3)) = Some x) ->
    b' = mark b3 i TExecuted -> step_outcome cfg s i t b b'.

Lemma task_cases2 cfg s i t b b' :
  task_outcome2 cfg s i t b b' -> i < rt_len b -> step_outcome cfg s i t b b'.
Proof.
  intros Ho Hi.
  destruct Ho as [Hd ->|dh res b1 Hd Hr Hc F Hca He ->|dh extra b2 Hd F ->
                 |dh extra b1 b3 Hd F Hok Hk Hcas ->|dh extra b1 b3 Hd F C S X L E K ->].
  - apply SO_failed; [apply status_mark_same; exact Hi | apply failed_facts2_nothing].
  - assert (Hlen : i < rt_len b1) by (rewrite (df_len _ _ _ _ _ F), pt_b0_len; exact Hi).
    apply SO_hit; [apply status_mark_same; exact Hlen|].
    apply hit_cond_true in Hc as (H1 & H2 & H3 & H4).
    constructor; autorewrite with bst; eauto.
    rewrite (df_exec _ _ _ _ _ F), app_nil_r. reflexivity.
  - assert (Hlen : i < rt_len b2) by (rewrite (df_len _ _ _ _ _ F), pt_b0_len; exact Hi).
    apply SO_failed; [apply status_mark_same; exact Hlen|].
    eapply failed_facts2_of with (own := []); eauto.
    + rewrite app_nil_r. reflexivity.
    + apply ext_frame_refl.
  - assert (Hlen : i < rt_len b3).
    { rewrite (eo_len _ _ _ _ _ _ _ Hok), (df_len _ _ _ _ _ F), pt_b0_len. exact Hi. }
    eapply SO_executed; eauto. apply status_mark_same; exact Hlen.
  - assert (Hlen : i < rt_len b3) by (rewrite L, (df_len _ _ _ _ _ F), pt_b0_len; exact Hi).
    apply SO_failed; [apply status_mark_same; exact Hlen|].
    eapply failed_facts2_of with (own := cmd_of t); eauto. apply cmd_of_cases.
Qed.

(* ================================================================== prefixes of the walk, any mode *)
Section Walk2.
Variables (cfg : config) (s : sources) (roots : list nat) (w : world) (c : cache).
Let n := length (s_nodes s).
Let P k := build_prefix cfg s roots w c k.

Lemma prefix2_frame k : node_frame2 s k (P k) (P (S k)).
Proof. unfold P at 2. rewrite build_prefix_S. fold (P k). apply node_frame2_step. Qed.

Lemma prefix2_len k : rt_len (P k) = n.
Proof.
  induction k as [|k IH].
  - unfold P, Build_ideal.build_prefix, build_init, rt_len. simpl. apply repeat_length.
  - rewrite (n2_len _ _ _ _ (prefix2_frame k)). exact IH.
Qed.

(* a node's status is TNone and it has no key until its step; its status does not change afterwards *)
Lemma prefix2_status_before k i : k <= i -> status_of (P k) i = TNone.
Proof.
  induction k as [|k IH]; intros Hi.
  - unfold P, Build_ideal.build_prefix, build_init, Build_single_proofs.status_of, sts. simpl.
    apply nth_map_repeat_rt0.
  - rewrite (n2_sts _ _ _ _ (prefix2_frame k)) by lia. apply IH; lia.
Qed.

Lemma prefix2_fresh k i : k <= i -> rt_key (get_rt (P k) i) = None.
Proof.
  induction k as [|k IH]; intros Hi.
  - unfold P, Build_ideal.build_prefix, build_init, get_rt. cbn [seq fold_left b_rt].
    rewrite nth_repeat. reflexivity.
  - rewrite (n2_key _ _ _ _ (prefix2_frame k)) by lia. apply IH; lia.
Qed.

Lemma prefix2_status_after i m : i < m -> status_of (P m) i = status_of (P (S i)) i.
Proof.
  intros Him. induction m as [|m IH]; [lia|].
  destruct (Nat.eq_dec m i) as [->|Hne]; [reflexivity|].
  rewrite (n2_sts _ _ _ _ (prefix2_frame m)) by lia. apply IH; lia.
Qed.

Lemma final_status2 i : i < n -> nth i (br_status (build cfg s roots w c)) TNone = status_of (P (S i)) i.
Proof.
  intro Hi. rewrite build_is_prefix. cbn [br_status]. fold n. fold (P n).
  change (nth i (sts (P n)) TNone) with (status_of (P n) i).
  destruct (Nat.eq_dec (S i) n) as [<-|Hne]; [reflexivity|].
  apply prefix2_status_after; lia.
Qed.

(* commands started are never forgotten; taints are only consumed, never added *)
Lemma prefix2_exec_mono k m : k <= m -> exists extra, b_exec (P m) = b_exec (P k) ++ extra.
Proof.
  intros Hkm. induction m as [|m IH].
  - assert (k = 0) by lia. subst. exists []. rewrite app_nil_r. reflexivity.
  - destruct (Nat.eq_dec k (S m)) as [->|Hne]; [exists []; rewrite app_nil_r; reflexivity|].
    destruct IH as [e1 E1]; [lia|].
    destruct (n2_exec _ _ _ _ (prefix2_frame m)) as [e2 E2].
    exists (e1 ++ e2). rewrite E2, E1, app_assoc. reflexivity.
Qed.

Lemma prefix2_taint_mono k m l : k <= m ->
  label_in l (c_taint (b_cache (P m))) = true -> label_in l (c_taint (b_cache (P k))) = true.
Proof.
  intros Hkm. induction m as [|m IH]; intro Hl.
  - assert (k = 0) by lia. subst. exact Hl.
  - destruct (Nat.eq_dec k (S m)) as [->|Hne]; [exact Hl|].
    apply IH; [lia|]. apply (n2_taint _ _ _ _ (prefix2_frame m)). exact Hl.
Qed.

(* labels are unique: before the step of target i nobody touches its taint or its external condition
   (a dependency that is re-run by an earlier step has a key, so it is not i) *)
Lemma prefix2_taint_own i t k : unique_label s i t -> k <= i ->
  label_in (td_label t) (c_taint (b_cache (P k))) = label_in (td_label t) (c_taint c).
Proof.
  intros Hu Hk. induction k as [|k IH]; [reflexivity|].
  rewrite (n2_taint_other _ _ _ _ (prefix2_frame k)).
  - apply IH. lia.
  - intros t' Hn E. specialize (Hu k t' Hn E). lia.
Qed.

Lemma prefix2_ext_own i t k : unique_label s i t -> k <= i ->
  label_in (td_label t) (w_ext (b_world (P k))) = label_in (td_label t) (w_ext w).
Proof.
  intros Hu Hk. induction k as [|k IH]; [reflexivity|].
  rewrite (n2_ext _ _ _ _ (prefix2_frame k)).
  - apply IH. lia.
  - intros d dt Hn E. specialize (Hu d dt Hn E). subst d. split; [lia|]. apply prefix2_fresh. lia.
Qed.

(* ================================================================== the step of a target node *)
Inductive target_step2 (i : nat) (t : tdef) (b b' : bstate) : Prop :=
| TS2_untouched : b' = b -> target_step2 i t b b'                    (* not selected *)
| TS2_skipped   : status_of b' i = TSkipped -> b_cache b' = b_cache b -> b_exec b' = b_exec b ->
                  b_world b' = b_world b -> target_step2 i t b b'     (* a dependency did not succeed / stop *)
| TS2_task      : step_outcome cfg s i t b b' \/
                  (exists b'', b' = stopped b'' /\ status_of b'' i = TFailed /\ failed_facts2 s t b b'') ->
                  target_step2 i t b b'.

Lemma target_step2_at i t : i < n -> node_at s i = Some (NTarget t) -> target_step2 i t (P i) (P (S i)).
Proof.
  intros Hi Hn. unfold P at 2. rewrite build_prefix_S. fold (P i).
  assert (Hlen : i < rt_len (P i)) by (rewrite prefix2_len; exact Hi).
  destruct (process_node_cases H cfg s (selection s roots) (P i) i)
    as [E | [(st & E & Hst) | (t' & Hn' & _ & _ & _ & Hpt)]].
  - apply TS2_untouched. exact E.
  - destruct Hst as [->|[-> (l & a & Ha)]]; [|rewrite Hn in Ha; discriminate].
    apply TS2_skipped; rewrite E; autorewrite with bst; auto. apply status_mark_same. exact Hlen.
  - rewrite Hn in Hn'. inversion Hn'; subst t'. clear Hn'.
    pose proof (task_cases2 cfg s i t (P i) _ (process_target_any cfg s i t (P i)) Hlen) as Hc.
    apply TS2_task. destruct Hpt as [E | [E Hff]]; rewrite E; [left; exact Hc | right].
    eexists. split; [reflexivity|]. rewrite <- status_of_get_rt in Hff. split; [exact Hff|].
    destruct Hc as [_ Hf|Hs _|dh extra b1 b3 Hs _ _ _ _ _ _]; [exact Hf | congruence | congruence].
Qed.

(* the three ways the step of a target that is reported Failed / Hit / Executed can have gone *)
Lemma failed_step i t : i < n -> node_at s i = Some (NTarget t) ->
  nth i (br_status (build cfg s roots w c)) TNone = TFailed -> failed_facts2 s t (P i) (P (S i)).
Proof.
  intros Hi Hn Hst. rewrite final_status2 in Hst by exact Hi.
  destruct (target_step2_at i t Hi Hn) as [E|Hs _ _ _|[Hc|(b'' & E & Hs & Hf)]].
  - rewrite E in Hst. rewrite prefix2_status_before in Hst; [discriminate | lia].
  - congruence.
  - destruct Hc as [_ Hf|Hs _|dh extra b1 b3 Hs _ _ _ _ _ _]; [exact Hf | congruence | congruence].
  - rewrite E. destruct Hf as [F1 F2 F3]. constructor; [exact F1 | exact F2 | exact F3].
Qed.

Lemma ok_step i t st : i < n -> node_at s i = Some (NTarget t) -> st = THit \/ st = TExecuted ->
  nth i (br_status (build cfg s roots w c)) TNone = st ->
  step_outcome cfg s i t (P i) (P (S i)).
Proof.
  intros Hi Hn Hok Hst. rewrite final_status2 in Hst by exact Hi.
  destruct (target_step2_at i t Hi Hn) as [E|Hs _ _ _|[Hc|(b'' & E & Hs & Hf)]].
  - rewrite E in Hst. rewrite prefix2_status_before in Hst; [destruct Hok; congruence | lia].
  - destruct Hok; congruence.
  - exact Hc.
  - rewrite E in Hst. change (status_of (stopped b'') i) with (status_of b'' i) in Hst.
    destruct Hok; congruence.
Qed.

(* ---------------------------------------------------------------- C13 / C14: what forces execution *)
Theorem hit_needs_any_mode i t :
  i < n -> node_at s i = Some (NTarget t) ->
  nth i (br_status (build cfg s roots w c)) TNone = THit ->
  hit_facts H cfg s t (P i) (P (S i)).
Proof.
  intros Hi Hn Hst. pose proof Hst as Hst'. rewrite final_status2 in Hst' by exact Hi.
  destruct (ok_step i t THit Hi Hn (or_introl eq_refl) Hst) as [Hs _|_ Hh|dh extra b1 b3 Hs _ _ _ _ _ _];
    [congruence | exact Hh | congruence].
Qed.

Theorem taint_forces_any_mode i t :
  i < n -> node_at s i = Some (NTarget t) -> unique_label s i t ->
  label_in (td_label t) (c_taint c) = true ->
  nth i (br_status (build cfg s roots w c)) TNone <> THit.
Proof.
  intros Hi Hn Hu Ht Hst. pose proof (hf_taint _ _ _ _ _ _ (hit_needs_any_mode i t Hi Hn Hst)) as Hf.
  rewrite (prefix2_taint_own i t i Hu (le_n _)) in Hf. congruence.
Qed.

Theorem nocache_never_restored_any_mode i t :
  i < n -> node_at s i = Some (NTarget t) -> td_nocache t = true ->
  nth i (br_status (build cfg s roots w c)) TNone <> THit.
Proof.
  intros Hi Hn Hc Hst. pose proof (hf_nocache _ _ _ _ _ _ (hit_needs_any_mode i t Hi Hn Hst)). congruence.
Qed.

Theorem cache_off_all_execute_any_mode i t :
  i < n -> node_at s i = Some (NTarget t) -> cfg_cache cfg = false ->
  nth i (br_status (build cfg s roots w c)) TNone <> THit.
Proof.
  intros Hi Hn Hc Hst. pose proof (hf_cache _ _ _ _ _ _ (hit_needs_any_mode i t Hi Hn Hst)). congruence.
Qed.

Theorem failing_check_forces_any_mode i t :
  i < n -> node_at s i = Some (NTarget t) -> unique_label s i t ->
  td_check t = true -> label_in (td_label t) (w_ext w) = false ->
  nth i (br_status (build cfg s roots w c)) TNone <> THit.
Proof.
  intros Hi Hn Hu Hck Hext Hst. pose proof (hf_check _ _ _ _ _ _ (hit_needs_any_mode i t Hi Hn Hst)) as Hc.
  unfold check_ok in Hc. rewrite Hck in Hc. cbn [negb orb] in Hc.
  rewrite (prefix2_ext_own i t i Hu (le_n _)) in Hc. congruence.
Qed.

(* a hit writes nothing and runs nothing *)
Theorem hit_is_silent_any_mode i t :
  i < n -> node_at s i = Some (NTarget t) ->
  nth i (br_status (build cfg s roots w c)) TNone = THit ->
  b_cache (P (S i)) = b_cache (P i) /\ b_exec (P (S i)) = b_exec (P i).
Proof.
  intros Hi Hn Hst. destruct (hit_needs_any_mode i t Hi Hn Hst) as [_ _ _ _ _ Hc Hx _]. auto.
Qed.

(* ---------------------------------------------------------------- the step of an Executed target, unpacked *)
Lemma executed_step i t :
  i < n -> node_at s i = Some (NTarget t) ->
  nth i (br_status (build cfg s roots w c)) TNone = TExecuted ->
  exists dh extra b1 b3,
    dep_hashes s (P i) (td_deps t) = Some dh /\
    dep_frame s (rdep s (td_deps t)) extra (pt_b0 i (key_of s t dh) (P i)) b1 /\
    exec_ok cfg s t (key_of s t dh) (label_in (td_label t) (c_taint (b_cache (P i)))) b1 b3 /\
    (forall j, rt_key (get_rt b3 j) = rt_key (get_rt b1 j)) /\
    (forall dg x, alookup dg (c_cas (b_cache b1)) = Some x -> alookup dg (c_cas (b_cache b3)) = Some x) /\
    P (S i) = mark b3 i TExecuted.
Proof.
  intros Hi Hn Hst. pose proof Hst as Hst'. rewrite final_status2 in Hst' by exact Hi.
  destruct (ok_step i t TExecuted Hi Hn (or_intror eq_refl) Hst)
    as [Hs _|Hs _|dh extra b1 b3 Hs Hd F Hok Hk Hcas Hb']; [congruence | congruence |].
  exists dh, extra, b1, b3. auto 10.
Qed.

(* the taint is consumed by the successful execution (and never comes back during the build) *)
Theorem taint_consumed_any_mode i t :
  i < n -> node_at s i = Some (NTarget t) ->
  nth i (br_status (build cfg s roots w c)) TNone = TExecuted ->
  label_in (td_label t) (c_taint (br_cache (build cfg s roots w c))) = false.
Proof.
  intros Hi Hn Hst.
  destruct (executed_step i t Hi Hn Hst) as (dh & extra & b1 & b3 & Hd & F & Hok & _ & _ & Hb').
  assert (Hafter : label_in (td_label t) (c_taint (b_cache (P (S i)))) = false).
  { rewrite Hb'. autorewrite with bst. rewrite (eo_taints _ _ _ _ _ _ _ Hok), (df_taint _ _ _ _ _ F).
    change (c_taint (b_cache (pt_b0 i (key_of s t dh) (P i)))) with (c_taint (b_cache (P i))).
    destruct (label_in (td_label t) (c_taint (b_cache (P i)))) eqn:Et; [apply label_in_remove | exact Et]. }
  rewrite build_is_prefix. cbn [br_cache]. fold n. fold (P n).
  destruct (label_in (td_label t) (c_taint (b_cache (P n)))) eqn:Ef; [|reflexivity].
  apply (prefix2_taint_mono (S i) n _ ltac:(lia)) in Ef. congruence.
Qed.

(* ---------------------------------------------------------------- C14: success implies the postconditions *)
(* [extra] = the commands of dependencies (re-)run by this step before the target's own command; the
   command of the target started in a world w0 that differs from the world before the step only in what
   those commands did (in mode all: extra = []) *)
Theorem executed_post_any_mode i t :
  i < n -> node_at s i = Some (NTarget t) ->
  nth i (br_status (build cfg s roots w c)) TNone = TExecuted ->
  check_ok (b_world (P (S i))) t = true /\
  (forall o, In o (td_outs t) -> exists x, ws_get (out_path t o) (w_ws (b_world (P (S i)))) = PFile x) /\
  (null (td_cmd t) = false ->
     exists w0 extra,
       b_exec (P (S i)) = b_exec (P i) ++ extra ++ [td_label t] /\
       (forall l, ~ In l extra -> label_in l (w_ext w0) = label_in l (w_ext (b_world (P i)))) /\
       run_command s t w0 = Some (b_world (P (S i)))) /\
  (cfg_cache cfg = true ->
   exists dh res, dep_hashes s (P i) (td_deps t) = Some dh /\
                  rlookup (key_of s t dh) (c_results (b_cache (P (S i)))) = Some res).
Proof.
  intros Hi Hn Hst.
  destruct (executed_step i t Hi Hn Hst) as (dh & extra & b1 & b3 & Hd & F & Hok & _ & _ & Hb').
  destruct Hok as [K1 K2 K3 K4 K5 K6 K7 K8 K9 K10 K11].
  rewrite Hb'. autorewrite with bst. split; [exact K2|]. split; [exact K3|]. split.
  - intro Hc. rewrite Hc in K1. exists (b_world b1), extra. split; [|split; [|exact K1]].
    + rewrite K8, exec_start_cmd_of, (df_exec _ _ _ _ _ F). unfold cmd_of. rewrite Hc.
      rewrite <- app_assoc. reflexivity.
    + intros l Hl. exact (df_ext _ _ _ _ _ F l Hl).
  - intro Hon. rewrite Hon in K4. destruct K4 as [res Hr]. exists dh, res. split; [exact Hd | exact Hr].
Qed.

(* the command of an executed target was started in this build *)
Theorem executed_ran_any_mode i t :
  i < n -> node_at s i = Some (NTarget t) -> null (td_cmd t) = false ->
  nth i (br_status (build cfg s roots w c)) TNone = TExecuted ->
  In (td_label t) (br_exec (build cfg s roots w c)).
Proof.
  intros Hi Hn Hc Hst.
  destruct (executed_post_any_mode i t Hi Hn Hst) as (_ & _ & Hrun & _).
  destruct (Hrun Hc) as (w0 & extra & Hx & _).
  destruct (prefix2_exec_mono (S i) n ltac:(lia)) as [more Hm].
  rewrite build_is_prefix. cbn [br_exec]. fold n. fold (P n). rewrite Hm, Hx.
  apply in_or_app. left. apply in_or_app. right. apply in_or_app. right. left. reflexivity.
Qed.

(* ---------------------------------------------------------------- C05: a failed target leaves no cache entry of its own *)
(* full strength: exactly what the step of a target that ends Failed may have changed in the cache *)
Theorem failed_not_cached_any_mode i t :
  i < n -> node_at s i = Some (NTarget t) ->
  nth i (br_status (build cfg s roots w c)) TNone = TFailed ->
  failed_facts2 s t (P i) (P (S i)).
Proof. apply failed_step. Qed.

(* every result the step of a failed target stored or replaced is the result of a (transitive) dependency
   that was re-run by LoadDependencyOutputs, under that dependency's key *)
Theorem failed_stores_only_deps i t :
  i < n -> node_at s i = Some (NTarget t) ->
  nth i (br_status (build cfg s roots w c)) TNone = TFailed ->
  forall k, rlookup k (c_results (b_cache (P (S i)))) <> rlookup k (c_results (b_cache (P i))) ->
  exists d dt, rdep s (td_deps t) d dt /\ rt_key (get_rt (P (S i)) d) = Some k /\
               exists r, rlookup k (c_results (b_cache (P (S i)))) = Some r.
Proof.
  intros Hi Hn Hst k Hne.
  destruct (failed_step i t Hi Hn Hst) as [_ _ (extra & own & _ & _ & _ & _ & Hres)].
  destruct (Hres k) as [E|(d & dt & Hr & Hk & Hs & _)]; [contradiction|]. eauto.
Qed.

(* no result is stored under the failed target's own key, provided that key is not also the key of one of
   its dependencies (keys are digests: for a non-injective digest they may coincide) *)
Theorem failed_own_key_kept i t dh :
  i < n -> node_at s i = Some (NTarget t) ->
  nth i (br_status (build cfg s roots w c)) TNone = TFailed ->
  dep_hashes s (P i) (td_deps t) = Some dh ->
  (forall d dt, rdep s (td_deps t) d dt -> rt_key (get_rt (P (S i)) d) <> Some (key_of s t dh)) ->
  rlookup (key_of s t dh) (c_results (b_cache (P (S i)))) = rlookup (key_of s t dh) (c_results (b_cache (P i))).
Proof.
  intros Hi Hn Hst Hd Hg.
  destruct (failed_step i t Hi Hn Hst) as [_ _ (extra & own & _ & _ & _ & _ & Hres)].
  destruct (Hres (key_of s t dh)) as [E|(d & dt & Hr & Hk & _)]; [exact E|].
  exfalso. exact (Hg d dt Hr Hk).
Qed.

(* ... and neither does a skipped one *)
Theorem skipped_not_cached_not_run_any_mode i t :
  i < n -> node_at s i = Some (NTarget t) ->
  nth i (br_status (build cfg s roots w c)) TNone = TSkipped ->
  b_cache (P (S i)) = b_cache (P i) /\ b_exec (P (S i)) = b_exec (P i).
Proof.
  intros Hi Hn Hst. rewrite final_status2 in Hst by exact Hi.
  destruct (target_step2_at i t Hi Hn) as [E|_ Hc Hx _|[Hc|(b'' & E & Hs & Hf)]].
  - rewrite E. auto.
  - auto.
  - destruct Hc as [Hs _|Hs _|dh extra b1 b3 Hs _ _ _ _ _ _]; congruence.
  - rewrite E in Hst. change (status_of (stopped b'') i) with (status_of b'' i) in Hst. congruence.
Qed.

(* ---------------------------------------------------------------- C14: cached only if successful, any mode *)
(* the step of a target node changes the stored result under a key k only if k is the target's own key and
   the target ends Executed, or k is the key of a (transitive) dependency that was re-run successfully *)
Theorem step_stores_any_mode i t :
  i < n -> node_at s i = Some (NTarget t) ->
  forall k,
    rlookup k (c_results (b_cache (P (S i)))) = rlookup k (c_results (b_cache (P i))) \/
    (nth i (br_status (build cfg s roots w c)) TNone = TExecuted /\
     exists dh, dep_hashes s (P i) (td_deps t) = Some dh /\ k = key_of s t dh) \/
    (exists d dt, rdep s (td_deps t) d dt /\ rt_key (get_rt (P (S i)) d) = Some k /\
                  exists r, rlookup k (c_results (b_cache (P (S i)))) = Some r).
Proof.
  intros Hi Hn k. rewrite final_status2 by exact Hi.
  assert (Hfail : forall b', failed_facts2 s t (P i) b' ->
            rlookup k (c_results (b_cache b')) = rlookup k (c_results (b_cache (P i))) \/
            (exists d dt, rdep s (td_deps t) d dt /\ rt_key (get_rt b' d) = Some k /\
                          exists r, rlookup k (c_results (b_cache b')) = Some r)).
  { intros b' [_ _ (extra & own & _ & _ & _ & _ & Hres)].
    destruct (Hres k) as [E|(d & dt & Hr & Hk & Hs & _)]; [left; exact E | right; eauto]. }
  destruct (target_step2_at i t Hi Hn) as [E|_ Hc _ _|[Hc|(b'' & E & Hs & Hf)]].
  - left. rewrite E. reflexivity.
  - left. rewrite Hc. reflexivity.
  - destruct Hc as [_ Hf|_ Hh|dh extra b1 b3 Hs Hd F Hok Hk Hcas Hb'].
    + destruct (Hfail _ Hf) as [E|E]; auto.
    + left. rewrite (hf_same _ _ _ _ _ _ Hh). reflexivity.
    + destruct (str_eq_dec k (key_of s t dh)) as [->|Hne]; [right; left; eauto|].
      rewrite Hb'. autorewrite with bst. rewrite (eo_others _ _ _ _ _ _ _ Hok k Hne).
      destruct (df_res _ _ _ _ _ F k) as [E|(d & dt & Hr & Hkd & Hsd & _)]; [left; exact E | right; right].
      exists d, dt. split; [exact Hr|]. split; [rewrite rt_key_mark, Hk; exact Hkd | exact Hsd].
  - rewrite E. destruct (Hfail _ Hf) as [E'|E']; auto.
Qed.

End Walk2.
End LiftMin.

(* [failed_not_cached_any_mode] with the record unpacked (the statement quoted in properties/LIFTMIN.v) *)
Theorem failed_not_cached_any_mode_full (H : str -> str) cfg s roots w c i t :
  i < length (s_nodes s) -> node_at s i = Some (NTarget t) ->
  nth i (br_status (build H cfg s roots w c)) TNone = TFailed ->
  let b := build_prefix H cfg s roots w c i in
  let b' := build_prefix H cfg s roots w c (S i) in
  c_taint (b_cache b') = c_taint (b_cache b) /\
  (forall dg x, alookup dg (c_cas (b_cache b)) = Some x -> alookup dg (c_cas (b_cache b')) = Some x) /\
  exists extra own,
    b_exec b' = b_exec b ++ extra ++ own /\ (own = [] \/ own = [td_label t]) /\
    (forall l, In l extra ->
       exists d dt, rdep s (td_deps t) d dt /\ td_label dt = l /\ rt_key (get_rt b' d) <> None) /\
    (forall l, ~ In l extra -> l <> td_label t ->
       label_in l (w_ext (b_world b')) = label_in l (w_ext (b_world b))) /\
    (forall k, rlookup k (c_results (b_cache b')) = rlookup k (c_results (b_cache b)) \/
               exists d dt, rdep s (td_deps t) d dt /\ rt_key (get_rt b' d) = Some k /\
                 (exists r, rlookup k (c_results (b_cache b')) = Some r) /\
                 (null (td_cmd dt) = false -> In (td_label dt) extra)).
Proof.
  intros Hi Hn Hst. cbv zeta.
  destruct (failed_not_cached_any_mode H cfg s roots w c i t Hi Hn Hst) as [F1 F2 F3]. auto.
Qed.

(* ================================================================== non-vacuity, mode minimal (digest = identity) *)
(* the snapshots of Build_examples.v: a (output check) <- b, plus the no-cache target n *)
From Coq Require Import String.
From Grog Require Import Build_examples.
Local Open Scope string_scope.

Definition x_min : config := mkCfg LMinimal true false.
Definition x_min_off : config := mkCfg LMinimal false false.

Definition m1 := build xH x_min (x_s BNormal "ca") [0; 1; 2] w0 empty_cache.
Example exm_first : br_status m1 = [TExecuted; TExecuted; TExecuted] /\ br_ok m1 = true.
Proof. vm_compute. auto. Qed.

Definition m2 := build xH x_min (x_s BNormal "ca") [0; 1; 2] (br_world m1) (br_cache m1).
Example exm_second : br_status m2 = [THit; THit; TExecuted] /\ br_exec m2 = [L "n"] /\ br_ok m2 = true.
Proof. vm_compute. auto. Qed.

Definition cm_tainted : cache := mkCache (c_results (br_cache m1)) (c_cas (br_cache m1)) [L "a"].
Definition m3 := build xH x_min (x_s BNormal "ca") [0; 1; 2] (br_world m1) cm_tainted.
Example exm_taint : br_status m3 = [TExecuted; THit; TExecuted] /\ c_taint (br_cache m3) = [].
Proof. vm_compute. auto. Qed.

Definition m4 := build xH x_min_off (x_s BNormal "ca") [0; 1; 2] (br_world m1) (br_cache m1).
Example exm_cache_off : br_status m4 = [TExecuted; TExecuted; TExecuted].
Proof. vm_compute. auto. Qed.

Definition wm_destroyed : world := mkWorld (w_ws (br_world m1)) [].
Definition m5 := build xH x_min (x_s BNormal "ca") [0; 1; 2] wm_destroyed (br_cache m1).
Example exm_check_forces : br_status m5 = [TExecuted; THit; TExecuted] /\ w_ext (br_world m5) = [L "a"].
Proof. vm_compute. auto. Qed.

Definition fail_min (beh : behaviour) := build xH x_min (x_s beh "ca2") [0; 1; 2] (br_world m1) (br_cache m1).
Example exm_failures :
  Forall (fun beh => br_status (fail_min beh) = [TFailed; TSkipped; TExecuted] /\
                     br_ok (fail_min beh) = false /\
                     map fst (c_results (br_cache (fail_min beh))) = map fst (c_results (br_cache m2)))
         [BFail; BFailAfter; BSkipOutput 0; BBreakCheck].
Proof. repeat constructor; vm_compute; auto. Qed.

(* a step that re-runs a dependency: the workspace is empty and the stored results name blobs that are not in
   the CAS (a cache fault), so in mode minimal a is served from the cache (nothing is loaded) and the task
   of the tainted b has to re-run a before it runs b: a is reported Hit although its command ran *)
Definition stale (c : cache) : cache :=
  mkCache (map (fun e => (fst e, mkRes (r_outhash (snd e)) (map (fun od => (fst od, lit "x")) (r_outs (snd e)))))
               (c_results c)) [] (c_taint c).
Definition w_ext_only : world := mkWorld [] [L "a"].
Definition cm_taintb : cache := mkCache (c_results (stale (br_cache m1))) [] [L "b"].
Definition m7 := build xH x_min (x_s BNormal "ca") [0; 1; 2] w_ext_only cm_taintb.
Example exm_dep_rerun :
  br_status m7 = [THit; TExecuted; TExecuted] /\ br_exec m7 = [L "a"; L "b"; L "n"] /\
  br_ok m7 = true /\ c_taint (br_cache m7) = [].
Proof. vm_compute. auto. Qed.

(* a FAILED step that re-runs a dependency: b's command now exits 3 (new command text, so a new key); its task
   re-runs a (storing a's result under a's key again: the stored record changes), then b fails: nothing is
   stored under b's key, and a's key is not b's key *)
Definition x_bf : tdef :=
  mkTD (L "b") (lit "cb2") (lit "v") [] [mkOut OFile (lit "ob")] [0] [] false false BFail false.
Definition x_sf : sources := mkSrc [NTarget (x_a BNormal "ca"); NTarget x_bf; NTarget x_n] [].
Definition c_stale : cache := stale (br_cache m1).
Definition m6 := build xH x_min x_sf [0; 1; 2] w_ext_only c_stale.
Definition m6_pre (k : nat) : bstate := build_prefix xH x_min x_sf [0; 1; 2] w_ext_only c_stale k.
Definition key_a6 : str := match rt_key (get_rt (m6_pre 2) 0) with Some k => k | None => [] end.
Definition key_b6 : str := match rt_key (get_rt (m6_pre 2) 1) with Some k => k | None => [] end.

Example exm_failed_dep_rerun :
  br_status m6 = [THit; TFailed; TExecuted] /\ br_exec m6 = [L "a"; L "b"; L "n"] /\ br_ok m6 = false /\
  rlookup key_a6 (c_results (b_cache (m6_pre 2))) <> rlookup key_a6 (c_results (b_cache (m6_pre 1))) /\
  key_b6 <> [] /\ rlookup key_b6 (c_results (br_cache m6)) = None.
Proof.
  split; [vm_compute; reflexivity|]. split; [vm_compute; reflexivity|]. split; [vm_compute; reflexivity|].
  split; [intro E; vm_compute in E; discriminate E|].
  split; [intro E; vm_compute in E; discriminate E | vm_compute; reflexivity].
Qed.

Lemma rdep_x_sf_b d dt : rdep x_sf (td_deps x_bf) d dt -> d = 0.
Proof.
  intro Hr. inversion Hr as [ds d0 d' dt' Hin Hres|ds d0 d' dt' e et Hin Hres Hdeep]; subst.
  - destruct Hin as [<-|[]]. vm_compute in Hres. inversion Hres. reflexivity.
  - destruct Hin as [<-|[]]. vm_compute in Hres. inversion Hres; subst.
    inversion Hdeep as [ds d0 d'' dt'' Hin' _|ds d0 d'' dt'' e' et' Hin' _ _]; destruct Hin'.
Qed.

(* the guard of [failed_own_key_kept] holds in this build *)
Example exm_failed_guard :
  exists dh, dep_hashes x_sf (m6_pre 1) (td_deps x_bf) = Some dh /\
    forall d dt, rdep x_sf (td_deps x_bf) d dt ->
      rt_key (get_rt (m6_pre 2) d) <> Some (Build_single_proofs.key_of xH x_sf x_bf dh).
Proof.
  eexists. split; [vm_compute; reflexivity|].
  intros d dt Hr. apply rdep_x_sf_b in Hr. subst d. intro E. vm_compute in E. discriminate E.
Qed.

(* without the guard the statement is false for a non-injective digest: with a constant digest every key is
   "k"; the tainted b re-runs a (whose stored record names a missing blob), a's new result replaces the
   record under "k", then b fails -- the record under b's own key changed *)
Definition kH (_ : str) : str := lit "k".
Definition c_k : cache := mkCache [(lit "k", mkRes (lit "h") [(lit "file::oa", lit "x")])] [] [L "b"].

Theorem failed_own_key_unguarded_refuted :
  exists (H : str -> str) cfg s roots w c i t dh,
    i < List.length (s_nodes s) /\ node_at s i = Some (NTarget t) /\
    nth i (br_status (build H cfg s roots w c)) TNone = TFailed /\
    dep_hashes s (build_prefix H cfg s roots w c i) (td_deps t) = Some dh /\
    rlookup (Build_single_proofs.key_of H s t dh) (c_results (b_cache (build_prefix H cfg s roots w c (S i)))) <>
    rlookup (Build_single_proofs.key_of H s t dh) (c_results (b_cache (build_prefix H cfg s roots w c i))).
Proof.
  exists kH, x_min, x_sf, [0; 1], w_ext_only, c_k, 1, x_bf. eexists.
  split; [vm_compute; auto|]. split; [reflexivity|]. split; [vm_compute; reflexivity|].
  split; [vm_compute; reflexivity|]. intro E. vm_compute in E. discriminate E.
Qed.

(* all the non-vacuity facts of mode minimal in one statement *)
Theorem liftmin_nonvacuous :
  (br_status m1 = [TExecuted; TExecuted; TExecuted] /\ br_ok m1 = true) /\
  (br_status m2 = [THit; THit; TExecuted] /\ br_exec m2 = [L "n"] /\ br_ok m2 = true) /\
  (br_status m3 = [TExecuted; THit; TExecuted] /\ c_taint (br_cache m3) = []) /\
  br_status m4 = [TExecuted; TExecuted; TExecuted] /\
  (br_status m5 = [TExecuted; THit; TExecuted] /\ w_ext (br_world m5) = [L "a"]) /\
  Forall (fun beh => br_status (fail_min beh) = [TFailed; TSkipped; TExecuted] /\
                     br_ok (fail_min beh) = false /\
                     map fst (c_results (br_cache (fail_min beh))) = map fst (c_results (br_cache m2)))
         [BFail; BFailAfter; BSkipOutput 0; BBreakCheck] /\
  (br_status m7 = [THit; TExecuted; TExecuted] /\ br_exec m7 = [L "a"; L "b"; L "n"] /\
   br_ok m7 = true /\ c_taint (br_cache m7) = []).
Proof.
  exact (conj exm_first (conj exm_second (conj exm_taint (conj exm_cache_off (conj exm_check_forces
         (conj exm_failures exm_dep_rerun)))))).
Qed.
