(* Analysis_proofs.v -- validate (the executable mirror of grog's graph analysis) against the
   declarative defect_free: one iff per defect class, the guarded equivalence, and the witnesses
   refuting the unguarded one.  Uses Cycle_proofs (three-colour DFS = exists n, reach n n;
   faithful proof, no bound), Ancestors_proofs (ancestor sets = reach; alias resolution) and
   Path_proofs (clean / join / prefix tests on strings vs walks over path elements). *)
From Grog Require Import Str Label Path Analysis Analysis_base Path_proofs Cycle_proofs Ancestors_proofs.

(* ------------------------------------------------------------------ small tools *)
Lemma existsb_false {A} (f : A -> bool) l : existsb f l = false <-> forall x, In x l -> f x = false.
Proof.
  split.
  - intros H x Hx. destruct (f x) eqn:E; [|reflexivity].
    assert (existsb f l = true) by (apply existsb_exists; exists x; auto). congruence.
  - intro H. destruct (existsb f l) eqn:E; [|reflexivity].
    apply existsb_exists in E as [x [Hx Hf]]. rewrite (H x Hx) in Hf. discriminate.
Qed.

Lemma flag_nil b c : flag b c = [] <-> b = false.
Proof. destruct b; simpl; split; intro H; try reflexivity; discriminate. Qed.

Lemma app_nil_iff {A} (a b : list A) : a ++ b = [] <-> a = [] /\ b = [].
Proof. split; [apply app_eq_nil | intros [-> ->]; reflexivity]. Qed.

Lemma has_suffix_spec suf s : has_suffix suf s = true <-> exists pre, s = pre ++ suf.
Proof.
  unfold has_suffix. rewrite has_prefix_spec. split.
  - intros [r Hr]. exists (rev r). rewrite <- (rev_involutive s), Hr, rev_app_distr, rev_involutive. reflexivity.
  - intros [pre ->]. exists (rev pre). apply rev_app_distr.
Qed.

Lemma is_test_spec t : is_test t = true <-> test_name (t_label t).
Proof. apply has_suffix_spec. Qed.

Lemma is_testonly_spec t : is_testonly t = true <-> testonly_tag t.
Proof. apply str_in_spec. Qed.

(* ------------------------------------------------------------------ duplicate labels *)
Theorem dup_iff g : has_dup (labels g) = false <-> no_dup_labels g.
Proof. apply has_dup_false. Qed.

(* ------------------------------------------------------------------ missing dependencies *)
Theorem missing_iff g : has_missing g = false <-> no_dangling g.
Proof.
  unfold has_missing, no_dangling. rewrite existsb_false. split.
  - intros H nd d Hnd Hd. specialize (H nd Hnd). rewrite existsb_false in H. specialize (H d Hd).
    apply negb_false_iff in H. apply label_in_spec. exact H.
  - intros H nd Hnd. apply existsb_false. intros d Hd. apply negb_false_iff, label_in_spec.
    eapply H; eassumption.
Qed.

(* ------------------------------------------------------------------ self loops and cycles *)
Lemma self_is_cycle g : has_self g = true -> exists n, reach g n n.
Proof.
  unfold has_self. intro H. apply existsb_exists in H as [nd [Hnd H]].
  apply existsb_exists in H as [d [Hd E]]. apply label_eqb_eq in E. subst d.
  exists (node_label nd). apply reach_step. exists nd; auto.
Qed.

(* the edge phase finds no self loop and the DFS finishes without a back edge
   <->  no node reaches itself (aliases are nodes; self reference is the one-edge cycle) *)
Theorem cycle_iff g :
  (has_self g = false /\ exists black, find_cycle g = DfsDone black) <-> acyclic g.
Proof.
  split.
  - intros [_ H]. apply find_cycle_acyclic. exact H.
  - intro H. split.
    + destruct (has_self g) eqn:E; [|reflexivity]. exfalso. apply H. apply self_is_cycle. exact E.
    + apply find_cycle_acyclic. exact H.
Qed.

(* ------------------------------------------------------------------ inputs *)
Lemma bad_input_false i : bad_input i = false <-> is_abs i = false /\ resolve i <> None.
Proof.
  unfold bad_input. rewrite orb_false_iff. split; intros [Ha Hb]; split; try exact Ha.
  - intro Hn. apply (tries_to_escape_resolve i Ha) in Hn. congruence.
  - destruct (tries_to_escape i) eqn:E; [|reflexivity].
    apply (tries_to_escape_resolve i Ha) in E. contradiction.
Qed.

Theorem inputs_iff g : has_bad_input g = false <-> inputs_ok g.
Proof.
  unfold has_bad_input, inputs_ok. rewrite existsb_false. split.
  - intros H t i Ht Hi. apply in_targets_of in Ht. specialize (H t Ht). rewrite existsb_false in H.
    apply bad_input_false. apply H. exact Hi.
  - intros H t Ht. apply in_targets_of in Ht. apply existsb_false. intros i Hi.
    apply bad_input_false. eapply H; eassumption.
Qed.

(* ------------------------------------------------------------------ outputs: workspace boundary *)
Lemma bad_path_false rootc t o : Forall plain_comp rootc ->
  (bad_path rootc (lpkg (t_label t)) (o_id o) = false <-> output_ok rootc t o).
Proof.
  intro Hr. unfold bad_path, output_ok, is_prefix. rewrite orb_false_iff, negb_false_iff.
  rewrite (is_within_workspace_spec rootc _ _ Hr). reflexivity.
Qed.


Lemma in_path_outputs t i :
  In i (path_outputs t) <-> exists o, In o (all_outputs t) /\ o_type o <> ODocker /\ o_id o = i.
Proof.
  unfold path_outputs. rewrite in_map_iff. split.
  - intros [o [E H]]. apply filter_In in H as [H1 H2]. exists o. repeat split; auto.
    unfold is_path in H2. intro Hk. rewrite Hk in H2. discriminate.
  - intros [o [H1 [H2 E]]]. exists o. split; [exact E|]. apply filter_In. split; [exact H1|].
    unfold is_path. destruct (o_type o); try reflexivity. contradiction.
Qed.

(* every path output, file or directory, is tested *)
Theorem outputs_iff rootc g : Forall plain_comp rootc ->
  (has_bad_output rootc g = false <-> outputs_ok rootc g).
Proof.
  intro Hr. unfold has_bad_output, outputs_ok. rewrite existsb_false. split.
  - intros H t o Ht Ho Hk. apply in_targets_of in Ht. specialize (H t Ht). rewrite existsb_false in H.
    apply (bad_path_false rootc t o Hr). apply H. apply in_path_outputs. exists o; auto.
  - intros H t Ht. apply in_targets_of in Ht. apply existsb_false. intros i Hi.
    apply in_path_outputs in Hi as [o [H1 [H2 <-]]]. apply (bad_path_false rootc t o Hr). eapply H; eassumption.
Qed.

(* inputs and outputs together *)
Theorem paths_iff rootc g : Forall plain_comp rootc ->
  (has_bad_input g = false /\ has_bad_output rootc g = false <-> inputs_ok g /\ outputs_ok rootc g).
Proof. intro Hr. rewrite inputs_iff, (outputs_iff rootc g Hr). tauto. Qed.

(* ------------------------------------------------------------------ tests have commands *)
Theorem test_nocmd_iff g : has_test_nocmd g = false <-> tests_have_commands g.
Proof.
  unfold has_test_nocmd, tests_have_commands. rewrite existsb_false. split.
  - intros H t Ht Hn. apply in_targets_of in Ht. specialize (H t Ht). apply is_test_spec in Hn.
    rewrite Hn in H. exact H.
  - intros H t Ht. apply in_targets_of in Ht. destruct (is_test t) eqn:E; [|reflexivity].
    simpl. apply H; [exact Ht | apply is_test_spec; exact E].
Qed.

(* ------------------------------------------------------------------ test / testonly dependency rules *)
Lemma dep_rule_bool dt t :
  (is_test dt && negb (is_test t)) || (is_testonly dt && negb (is_testonly t) && negb (is_test t)) = false
  <-> (test_name (t_label dt) -> test_name (t_label t)) /\
      (testonly_tag dt -> test_name (t_label t) \/ testonly_tag t).
Proof.
  rewrite <- !is_test_spec, <- !is_testonly_spec.
  destruct (is_test dt), (is_test t), (is_testonly dt), (is_testonly t); simpl; split; intro H;
    try reflexivity; try discriminate; try (split; intro; auto; fail);
    try (destruct H as [H1 H2]; try (specialize (H1 eq_refl); discriminate);
         try (destruct (H2 eq_refl); discriminate)).
Qed.

Theorem deprules_iff g : NoDup (labels g) -> acyclic g ->
  (has_bad_dep g = false <-> deprules_ok g).
Proof.
  intros Hnd Hac. unfold has_bad_dep, deprules_ok. rewrite existsb_false. split.
  - intros H t d dt Ht Hd Hres. apply in_targets_of in Ht. specialize (H t Ht). rewrite existsb_false in H.
    specialize (H d Hd). unfold bad_dep in H.
    apply (resolve_dep_spec g d dt Hnd Hac) in Hres. rewrite Hres in H. apply dep_rule_bool. exact H.
  - intros H t Ht. apply in_targets_of in Ht. apply existsb_false. intros d Hd. unfold bad_dep.
    destruct (resolve_dep (S (length g)) g d) as [dt|] eqn:E; [|reflexivity].
    apply (resolve_dep_spec g d dt Hnd Hac) in E. apply dep_rule_bool. eapply H; eassumption.
Qed.

(* ------------------------------------------------------------------ output conflicts *)
Lemma in_pairs_lr {A} (l : list A) a b : In (a, b) (pairs l) -> In a l /\ In b l.
Proof.
  induction l as [|x l IH]; simpl; [intros []|]. intro H. apply in_app_or in H as [H|H].
  - apply in_map_iff in H as [y [E Hy]]. inversion E; subst. auto.
  - destruct (IH H); auto.
Qed.

Lemma pairs_app_in {A} (u v : list A) a b :
  In (a, b) (pairs (u ++ v)) <-> In (a, b) (pairs u) \/ (In a u /\ In b v) \/ In (a, b) (pairs v).
Proof.
  induction u as [|x u IH]; simpl.
  - split; [intro H; right; right; exact H | intros [[]|[[[] _]|H]]; exact H].
  - split.
    + intro H. apply in_app_or in H as [H|H].
      * apply in_map_iff in H as [y [E Hy]]. inversion E; subst. apply in_app_or in Hy as [Hy|Hy].
        -- left. apply in_or_app. left. apply in_map. exact Hy.
        -- right. left. split; [left; reflexivity | exact Hy].
      * apply IH in H as [H|[[H1 H2]|H]].
        -- left. apply in_or_app. right. exact H.
        -- right. left. split; [right; exact H1 | exact H2].
        -- right. right. exact H.
    + intros [H|[[[E|H1] H2]|H]].
      * apply in_app_or in H as [H|H].
        -- apply in_map_iff in H as [y [E Hy]]. inversion E; subst.
           apply in_or_app. left. apply in_map. apply in_or_app. left. exact Hy.
        -- apply in_or_app. right. apply IH. left. exact H.
      * subst. apply in_or_app. left. apply in_map. apply in_or_app. right. exact H2.
      * apply in_or_app. right. apply IH. right. left. split; assumption.
      * apply in_or_app. right. apply IH. right. right. exact H.
Qed.

Lemma pairs_either {A} (l : list A) a b :
  In a l -> In b l -> a <> b -> In (a, b) (pairs l) \/ In (b, a) (pairs l).
Proof.
  induction l as [|x l IH]; simpl; [intros []|]. intros [->|Ha] [->|Hb] Hne.
  - contradiction.
  - left. apply in_or_app. left. apply in_map. exact Hb.
  - right. apply in_or_app. left. apply in_map. exact Ha.
  - destruct (IH Ha Hb Hne); [left | right]; apply in_or_app; right; assumption.
Qed.

Lemma pairs_map {A B} (f : A -> B) (l : list A) p :
  In p (pairs (map f l)) <-> exists q, In q (pairs l) /\ p = (f (fst q), f (snd q)).
Proof.
  induction l as [|x l IH]; simpl.
  - split; [intros [] | intros [q [[] _]]].
  - rewrite in_app_iff, IH, map_map, in_map_iff. split.
    + intros [[y [E Hy]]|[q [Hq E]]].
      * exists (x, y). split; [apply in_or_app; left; apply in_map; exact Hy | subst; reflexivity].
      * exists q. split; [apply in_or_app; right; exact Hq | exact E].
    + intros [q [Hq E]]. apply in_app_or in Hq as [Hq|Hq].
      * apply in_map_iff in Hq as [y [E2 Hy]]. subst q. simpl in E. left. exists y. auto.
      * right. exists q. auto.
Qed.

Definition recs_of_node (rootc : list str) (n : node) : list orec :=
  match n with NTarget t => map (rec_of rootc t) (all_outputs t) | NAlias _ _ => [] end.

Lemma records_eq rootc g : records rootc g = flat_map (recs_of_node rootc) g.
Proof. reflexivity. Qed.

Lemma in_records rootc g r :
  In r (records rootc g) <-> exists t o, In (NTarget t) g /\ In o (all_outputs t) /\ r = rec_of rootc t o.
Proof.
  unfold records. rewrite in_flat_map. split.
  - intros [nd [Hnd H]]. destruct nd as [t|l a]; [|destruct H].
    apply in_map_iff in H as [o [E Ho]]. exists t, o. auto.
  - intros [t [o [Ht [Ho ->]]]]. exists (NTarget t). split; [exact Ht | apply in_map; exact Ho].
Qed.

(* a pair of records of the pair loops comes from two outputs of one target, or from two
   targets at different positions of the node list *)
Lemma pairs_records rootc g r1 r2 : NoDup (labels g) -> In (r1, r2) (pairs (records rootc g)) ->
  (exists t o1 o2, In (NTarget t) g /\ In (o1, o2) (pairs (all_outputs t)) /\
                   r1 = rec_of rootc t o1 /\ r2 = rec_of rootc t o2) \/
  (exists t1 t2 o1 o2, In (NTarget t1) g /\ In (NTarget t2) g /\ t_label t1 <> t_label t2 /\
                       In o1 (all_outputs t1) /\ In o2 (all_outputs t2) /\
                       r1 = rec_of rootc t1 o1 /\ r2 = rec_of rootc t2 o2).
Proof.
  induction g as [|nd g IH]; intros Hnd H; [destruct H|].
  change (records rootc (nd :: g)) with (recs_of_node rootc nd ++ records rootc g) in H.
  inversion Hnd as [|? ? Hx Hr]; subst.
  apply pairs_app_in in H as [H|[[H1 H2]|H]].
  - left. destruct nd as [t|l a]; [|destruct H]. simpl in H.
    apply pairs_map in H as [[o1 o2] [Hq E]]. simpl in E. inversion E; subst.
    exists t, o1, o2. repeat split; auto. left; reflexivity.
  - right. destruct nd as [t1|l a]; [|destruct H1]. simpl in H1.
    apply in_map_iff in H1 as [o1 [E1 Ho1]]. apply in_records in H2 as [t2 [o2 [Ht2 [Ho2 E2]]]].
    exists t1, t2, o1, o2. repeat split; auto.
    + left; reflexivity.
    + right; exact Ht2.
    + intro E. apply Hx. simpl. rewrite E. apply (in_map node_label g (NTarget t2)). exact Ht2.
  - destruct (IH Hr H) as [[t [o1 [o2 [Ht R]]]]|[t1 [t2 [o1 [o2 [Ht1 [Ht2 R]]]]]]].
    + left. exists t, o1, o2. split; [right; exact Ht | exact R].
    + right. exists t1, t2, o1, o2. split; [right; exact Ht1|]. split; [right; exact Ht2 | exact R].
Qed.

(* what the pair loops decide, exactly (no guard beyond a well-formed node map): *)
Theorem conflict_exact rootc g : NoDup (labels g) -> no_dangling g ->
  (has_conflict rootc g = true <->
   exists r1 r2, In (r1, r2) (pairs (records rootc g)) /\
                 ~ ordered_spec g (r_owner r1) (r_owner r2) /\ keys_clash r1 r2 = true).
Proof.
  intros Hnd Hdg. unfold has_conflict. rewrite existsb_exists. split.
  - intros [[r1 r2] [Hin H]]. simpl in H. unfold conflict_pair in H.
    apply andb_true_iff in H as [H1 H2]. apply negb_true_iff in H1.
    exists r1, r2. repeat split; auto. intro Ho. apply (ordered_iff g _ _ Hnd Hdg) in Ho. congruence.
  - intros [r1 [r2 [Hin [Ho Hk]]]]. exists (r1, r2). split; [exact Hin|]. simpl. unfold conflict_pair.
    rewrite Hk, andb_true_r. apply negb_true_iff.
    destruct (ordered g (r_owner r1) (r_owner r2)) eqn:E; [|reflexivity].
    apply (ordered_iff g _ _ Hnd Hdg) in E. contradiction.
Qed.

(* string tests of the code vs places, for outputs inside the workspace (what the boundary test
   of CheckTargetConstraints establishes), however they are spelled; the root itself, written
   ".", is covered *)

Lemma is_prefix_app rootc a b : is_prefix (rootc ++ a) (rootc ++ b) <-> is_prefix a b.
Proof.
  unfold is_prefix. split; intros [r H]; exists r.
  - rewrite <- app_assoc in H. apply app_inv_head in H. exact H.
  - rewrite H. apply app_assoc.
Qed.

(* the key of an output inside the workspace is its location below the root *)
Lemma canon_facts rootc t o :
  Forall plain_comp rootc -> output_ok rootc t o ->
  exists r, Forall plain_comp r /\
            clean_output_path rootc (lpkg (t_label t)) (o_id o) = render_rel r /\
            location rootc (lpkg (t_label t)) (o_id o) = rootc ++ r.
Proof.
  intros Hr [_ [r Hl]]. exists r. split.
  - pose proof (location_plain_comps rootc (lpkg (t_label t)) (o_id o) Hr) as Hp.
    rewrite Hl in Hp. apply Forall_app in Hp. exact (proj2 Hp).
  - split; [apply clean_output_path_within; exact Hl | exact Hl].
Qed.

Lemma clash_iff_overlap rootc t1 o1 t2 o2 :
  Forall plain_comp rootc ->
  (o_type o1 <> ODocker -> output_ok rootc t1 o1) ->
  (o_type o2 <> ODocker -> output_ok rootc t2 o2) ->
  (keys_clash (rec_of rootc t1 o1) (rec_of rootc t2 o2) = true <->
   overlap (place_of rootc t1 o1) (place_of rootc t2 o2)).
Proof.
  intros Hr H1 H2. unfold keys_clash, place_of, rec_of. simpl.
  destruct (o_type o1) eqn:E1, (o_type o2) eqn:E2; simpl;
    try (split; [discriminate | intros []]); try apply str_eqb_eq;
    (assert (Hok1 : output_ok rootc t1 o1) by (apply H1; discriminate));
    (assert (Hok2 : output_ok rootc t2 o2) by (apply H2; discriminate));
    destruct (canon_facts rootc t1 o1 Hr Hok1) as [r1 [Hf1 [Hc1 Hl1]]];
    destruct (canon_facts rootc t2 o2 Hr Hok2) as [r2 [Hf2 [Hc2 Hl2]]];
    rewrite Hc1, Hc2, Hl1, Hl2.
  - (* file, file *) rewrite str_eqb_eq. split.
    + intro H. apply render_rel_inj in H; auto. congruence.
    + intro H. apply app_inv_head in H. congruence.
  - (* file, dir *) rewrite is_prefix_app. apply path_within_rel; auto.
  - (* dir, file *) rewrite is_prefix_app. apply path_within_rel; auto.
  - (* dir, dir *) unfold paths_overlap. rewrite orb_true_iff, !is_prefix_app.
    rewrite (path_within_rel r1 r2), (path_within_rel r2 r1); auto. unfold is_prefix. tauto.
Qed.

Lemma overlap_sym p q : overlap p q -> overlap q p.
Proof.
  destruct p, q; simpl; auto; tauto.
Qed.

Lemma ordered_spec_sym g a b : ordered_spec g a b -> ordered_spec g b a.
Proof. unfold ordered_spec. tauto. Qed.

Lemma rec_of_owner rootc t o : r_owner (rec_of rootc t o) = t_label t.
Proof. reflexivity. Qed.

(* the conflict clause, first half, UNGUARDED beyond outputs inside the workspace: when the pair
   loops find nothing, no two distinct unordered targets have overlapping outputs *)
Theorem no_conflict_sound rootc g :
  NoDup (labels g) -> no_dangling g -> Forall plain_comp rootc -> outputs_ok rootc g ->
  has_conflict rootc g = false -> no_conflict rootc g.
Proof.
  intros Hnd Hdg Hr Hout Hc t1 t2 o1 o2 Ht1 Ht2 Hne Ho1 Ho2 Hov.
  assert (Hin1 : In (rec_of rootc t1 o1) (records rootc g)) by (apply in_records; exists t1, o1; auto).
  assert (Hin2 : In (rec_of rootc t2 o2) (records rootc g)) by (apply in_records; exists t2, o2; auto).
  assert (Hrne : rec_of rootc t1 o1 <> rec_of rootc t2 o2).
  { intro E. apply Hne. apply (f_equal r_owner) in E. exact E. }
  unfold has_conflict in Hc. rewrite existsb_false in Hc.
  destruct (pairs_either _ _ _ Hin1 Hin2 Hrne) as [Hp|Hp]; specialize (Hc _ Hp); simpl in Hc;
    unfold conflict_pair in Hc; apply andb_false_iff in Hc as [Hc|Hc].
  - apply negb_false_iff in Hc. apply (ordered_iff g _ _ Hnd Hdg) in Hc. exact Hc.
  - exfalso. apply (clash_iff_overlap rootc t1 o1 t2 o2 Hr (Hout _ _ Ht1 Ho1) (Hout _ _ Ht2 Ho2)) in Hov.
    congruence.
  - apply negb_false_iff in Hc. apply (ordered_iff g _ _ Hnd Hdg) in Hc.
    apply ordered_spec_sym. exact Hc.
  - exfalso. apply overlap_sym in Hov.
    apply (clash_iff_overlap rootc t2 o2 t1 o1 Hr (Hout _ _ Ht2 Ho2) (Hout _ _ Ht1 Ho1)) in Hov.
    congruence.
Qed.

(* second half, under G3 (no target overlaps itself): what the pair loops find is a conflict
   between two distinct unordered targets *)
Theorem no_conflict_complete rootc g :
  NoDup (labels g) -> no_dangling g -> Forall plain_comp rootc -> outputs_ok rootc g ->
  no_self_overlap rootc g ->
  no_conflict rootc g -> has_conflict rootc g = false.
Proof.
  intros Hnd Hdg Hr Hout Hself Hspec.
  destruct (has_conflict rootc g) eqn:E; [|reflexivity]. exfalso.
  apply (conflict_exact rootc g Hnd Hdg) in E as [r1 [r2 [Hin [Hno Hk]]]].
  destruct (pairs_records rootc g r1 r2 Hnd Hin) as
    [[t [o1 [o2 [Ht [Hp [-> ->]]]]]]|[t1 [t2 [o1 [o2 [Ht1 [Ht2 [Hne [Ho1 [Ho2 [-> ->]]]]]]]]]]].
  - destruct (in_pairs_lr _ _ _ Hp) as [Ho1 Ho2].
    apply (clash_iff_overlap rootc t o1 t o2 Hr (Hout _ _ Ht Ho1) (Hout _ _ Ht Ho2)) in Hk.
    exact (Hself t o1 o2 Ht Hp Hk).
  - apply (clash_iff_overlap rootc t1 o1 t2 o2 Hr (Hout _ _ Ht1 Ho1) (Hout _ _ Ht2 Ho2)) in Hk.
    apply Hno. rewrite !rec_of_owner. eapply Hspec; eassumption.
Qed.

(* guarded equivalence for the conflict clause: every path output inside the workspace (the
   boundary test of CheckTargetConstraints; no condition on how it is spelled) and G3 *)
Theorem conflict_iff_partial rootc g :
  NoDup (labels g) -> no_dangling g -> Forall plain_comp rootc ->
  outputs_ok rootc g -> no_self_overlap rootc g ->
  (has_conflict rootc g = false <-> no_conflict rootc g).
Proof.
  intros Hnd Hdg Hr Hout Hself. split.
  - apply no_conflict_sound; assumption.
  - apply no_conflict_complete; assumption.
Qed.

(* ------------------------------------------------------------------ assembling the verdict *)
Lemma validate_accept rootc g : validate rootc g = Accept <-> classes rootc g = [].
Proof. unfold validate. destruct (classes rootc g); split; intro H; try reflexivity; discriminate. Qed.

Lemma graph_classes_nil rootc g :
  graph_classes rootc g = [] <->
  has_missing g = false /\ has_self g = false /\ (exists b, find_cycle g = DfsDone b) /\ has_conflict rootc g = false.
Proof.
  unfold graph_classes, edge_classes.
  destruct (has_missing g), (has_self g); simpl;
    try (split; [discriminate | intros [H1 [H2 _]]; discriminate]).
  destruct (find_cycle g) as [| |b] eqn:E.
  - split; [discriminate | intros [_ [_ [[b Hb] _]]]; discriminate].
  - split; [discriminate | intros [_ [_ [[b Hb] _]]]; discriminate].
  - rewrite flag_nil. split; [intro H; repeat split; auto; exists b; reflexivity | intros [_ [_ [_ H]]]; exact H].
Qed.

Lemma constraint_classes_nil rootc g :
  constraint_classes rootc g = [] <->
  has_bad_input g = false /\ has_bad_output rootc g = false /\ has_test_nocmd g = false /\ has_bad_dep g = false.
Proof. unfold constraint_classes. rewrite !app_nil_iff, !flag_nil. tauto. Qed.

Lemma classes_nil rootc g :
  classes rootc g = [] <->
  has_dup (labels g) = false /\ graph_classes rootc g = [] /\ constraint_classes rootc g = [].
Proof.
  unfold classes. destruct (has_dup (labels g)).
  - split; [discriminate | intros [H _]; discriminate].
  - rewrite app_nil_iff. tauto.
Qed.

(* the graph part on its own, unguarded: BuildGraph's first three stages *)
Theorem structure_iff g :
  (has_dup (labels g) = false /\ has_missing g = false /\ has_self g = false /\
   exists b, find_cycle g = DfsDone b)
  <-> (no_dup_labels g /\ no_dangling g /\ acyclic g).
Proof.
  rewrite dup_iff, missing_iff. pose proof (cycle_iff g) as C. tauto.
Qed.

(* C11, first half, UNGUARDED: what grog accepts is free of every listed defect.  (No condition
   on how outputs are spelled: conflicts are decided on the workspace-relative form of the place
   an output denotes; outputs outside the workspace are rejected by the boundary test.) *)
Theorem accept_sound rootc g :
  clean_root rootc -> validate rootc g = Accept -> defect_free rootc g.
Proof.
  intros [_ Hr].
  rewrite validate_accept, classes_nil, graph_classes_nil, constraint_classes_nil.
  unfold defect_free.
  intros [Hd [[Hm [Hs [Hc Hx]]] [Hi [Ho [Ht Hb]]]]].
  apply dup_iff in Hd. apply missing_iff in Hm.
  assert (Hac : acyclic g) by (apply cycle_iff; auto).
  assert (Hout : outputs_ok rootc g) by (apply (outputs_iff rootc g Hr); exact Ho).
  split; [exact Hd|]. split; [exact Hm|]. split; [exact Hac|].
  split; [apply (no_conflict_sound rootc g Hd Hm Hr Hout); exact Hx|].
  split; [apply inputs_iff; exact Hi|]. split; [exact Hout|].
  split; [apply test_nocmd_iff; exact Ht | apply (deprules_iff g Hd Hac); exact Hb].
Qed.

(* second half, under (G3) no target declares two overlapping outputs of its own *)
Theorem defect_free_accepted rootc g :
  clean_root rootc -> no_self_overlap rootc g ->
  defect_free rootc g -> validate rootc g = Accept.
Proof.
  intros [_ Hr] G3.
  rewrite validate_accept, classes_nil, graph_classes_nil, constraint_classes_nil.
  unfold defect_free.
  intros [Hd [Hm [Hac [Hx [Hi [Hout [Ht Hb]]]]]]].
  apply cycle_iff in Hac as Hcyc. destruct Hcyc as [Hs Hc].
  split; [apply dup_iff; exact Hd|]. split.
  - split; [apply missing_iff; exact Hm|]. split; [exact Hs|]. split; [exact Hc|].
    apply (no_conflict_complete rootc g Hd Hm Hr Hout G3). exact Hx.
  - split; [apply inputs_iff; exact Hi|].
    split; [apply (outputs_iff rootc g Hr); exact Hout|].
    split; [apply test_nocmd_iff; exact Ht | apply (deprules_iff g Hd Hac); exact Hb].
Qed.

(* C11, guarded: what grog accepts is exactly what is free of the listed defects, provided
   (G3) no target declares two overlapping outputs of its own.
   The root is a clean absolute path.  (The former guard G1 -- directory outputs inside the
   workspace -- is gone: the code checks them; the former guard G2 -- no output spelling climbs
   above the root -- is gone: conflicts are decided on the form the boundary test judges; with
   it went the side condition that package paths are relative.) *)
Theorem sound_complete_partial rootc g :
  clean_root rootc -> no_self_overlap rootc g ->
  (validate rootc g = Accept <-> defect_free rootc g).
Proof.
  intros Hr G3. split.
  - apply accept_sound; exact Hr.
  - apply defect_free_accepted; assumption.
Qed.

(* ------------------------------------------------------------------ refutations of the unguarded statement *)
Definition plain_compb (c : str) : bool :=
  negb (null c) && negb (mem_ch ch_slash c) && negb (str_eqb c dot) && negb (str_eqb c dotdot).

Lemma plain_compb_true c : plain_compb c = true -> plain_comp c.
Proof.
  unfold plain_compb, plain_comp. rewrite !andb_true_iff, !negb_true_iff. intros [[[H1 H2] H3] H4].
  repeat split.
  - intro E; subst; discriminate.
  - apply mem_ch_false; exact H2.
  - apply str_eqb_neq; exact H3.
  - apply str_eqb_neq; exact H4.
Qed.

Lemma no_deps_no_reach g : (forall nd, In nd g -> node_deps nd = []) -> forall a b, ~ reach g a b.
Proof.
  intros H a b Hr. destruct Hr as [a n [nd [Hin [_ Hd]]] | a m n _ [nd [Hin [_ Hd]]]];
    rewrite (H nd Hin) in Hd; destruct Hd.
Qed.

Lemma single_target_defect_free rootc t :
  t_deps t = [] -> t_inputs t = [] ->
  (forall o, In o (all_outputs t) -> o_type o <> ODocker -> output_ok rootc t o) ->
  (test_name (t_label t) -> t_nocmd t = false) ->
  defect_free rootc [NTarget t].
Proof.
  intros Hd Hi Ho Hn. unfold defect_free.
  split. { constructor; [intros [] | constructor]. }
  split. { intros nd d [<-|[]] Hin. simpl in Hin. rewrite Hd in Hin. destruct Hin. }
  split. { intros [n Hr]. revert Hr. apply no_deps_no_reach. intros nd [<-|[]]. exact Hd. }
  split. { intros t1 t2 o1 o2 [E1|[]] [E2|[]] Hne. inversion E1; inversion E2; subst.
           exfalso; apply Hne; reflexivity. }
  split. { intros t' i [E|[]] Hin. inversion E; subst. rewrite Hi in Hin. destruct Hin. }
  split. { intros t' o [E|[]] Hin Hk. inversion E; subst. apply Ho; assumption. }
  split. { intros t' [E|[]] Ht. inversion E; subst. apply Hn; exact Ht. }
  intros t' d dt [E|[]] Hin. inversion E; subst. rewrite Hd in Hin. destruct Hin.
Qed.

Module Witness.
Import Coq.Strings.String.

Definition root : list str := [lit "w"%string; lit "ws"%string].
Definition L (p n : string) : label := mkLabel (lit p) (lit n).
Definition tgt (n : string) (outs : list output) (bin : string) : target :=
  mkTarget (L "p1" n) [] [] outs (lit bin) [] false.

Lemma root_clean : clean_root root.
Proof. split; [discriminate | repeat constructor; apply plain_compb_true; reflexivity]. Qed.

(* former F1 (repaired): a directory output outside the workspace *)
Definition g_dir_escape : nodes := [NTarget (tgt "a" [mkOut ODir (lit "../../outside")] "")].
(* F2: one target, directory output + bin output inside it: no listed defect, rejected *)
Definition g_same_target : nodes := [NTarget (tgt "a" [mkOut ODir (lit "dist")] "dist/app")].
(* former F3 (repaired): two unordered targets write the file p1/a; one spells it by leaving and
   re-entering the workspace *)
Definition g_reentrant : nodes :=
  [NTarget (tgt "a" [mkOut OFile (lit "a")] ""); NTarget (tgt "b" [mkOut OFile (lit "../../ws/p1/a")] "")].
(* former F4 (repaired): a directory output that is the workspace root next to an unordered writer inside it *)
Definition g_root_dir : nodes :=
  [NTarget (tgt "a" [mkOut OFile (lit "a")] ""); NTarget (tgt "b" [mkOut ODir (lit "..")] "")].

Lemma no_deps_1 t : forall nd, In nd [NTarget t] -> t_deps t = [] -> node_deps nd = [].
Proof. intros nd [<-|[]] H; exact H. Qed.

(* the former witness of F1 is rejected for its output path, and rightly so *)
Example dir_escape_rejected :
  validate root g_dir_escape = Reject [OutputPath] /\ ~ outputs_ok root g_dir_escape.
Proof.
  split; [vm_compute; reflexivity|]. intro H.
  specialize (H (tgt "a" [mkOut ODir (lit "../../outside")] "") (mkOut ODir (lit "../../outside"))
                (or_introl eq_refl) (or_introl eq_refl)).
  destruct H as [_ [r Hr]]; [discriminate|]. vm_compute in Hr. discriminate Hr.
Qed.

Lemma g_same_target_defect_free : defect_free root g_same_target.
Proof.
  apply single_target_defect_free; try reflexivity.
  intros o [<-|[<-|[]]] _.
    + split; [reflexivity|]. exists [lit "p1"; lit "dist"]. vm_compute. reflexivity.
    + split; [reflexivity|]. exists [lit "p1"; lit "dist"; lit "app"]. vm_compute. reflexivity.
Qed.

Theorem same_target_refuted :
  exists rootc g, clean_root rootc /\ defect_free rootc g /\ validate rootc g = Reject [Conflict].
Proof.
  exists root, g_same_target. split; [exact root_clean|].
  split; [exact g_same_target_defect_free | vm_compute; reflexivity].
Qed.

Lemma two_no_reach ta tb : t_deps ta = [] -> t_deps tb = [] ->
  forall a b, ~ reach [NTarget ta; NTarget tb] a b.
Proof.
  intros Ha Hb. apply no_deps_no_reach. intros nd [<-|[<-|[]]]; assumption.
Qed.

Definition only_files (g : nodes) : Prop :=
  forall t o, In (NTarget t) g -> In o (all_outputs t) -> o_type o = OFile.

Lemma g_reentrant_conflict : ~ no_conflict root g_reentrant.
Proof.
  intro H.
  specialize (H (tgt "a" [mkOut OFile (lit "a")] "") (tgt "b" [mkOut OFile (lit "../../ws/p1/a")] "")
                (mkOut OFile (lit "a")) (mkOut OFile (lit "../../ws/p1/a"))
                (or_introl eq_refl) (or_intror (or_introl eq_refl))).
  assert (Hne : t_label (tgt "a" [mkOut OFile (lit "a")] "") <> t_label (tgt "b" [mkOut OFile (lit "../../ws/p1/a")] ""))
    by (intro E; vm_compute in E; discriminate E).
  specialize (H Hne (or_introl eq_refl) (or_introl eq_refl)).
  destruct H as [Hr|Hr].
  - vm_compute. reflexivity.
  - revert Hr. apply two_no_reach; reflexivity.
  - revert Hr. apply two_no_reach; reflexivity.
Qed.

(* the former witness of F3 -- file outputs only, every one inside the workspace, no target
   overlapping itself, one spelling climbing above the root (so the former guard G2 excluded it)
   -- has a conflict and is rejected for it *)
Example reentrant_rejected :
  clean_root root /\ no_self_overlap root g_reentrant /\ ~ plain_outputs g_reentrant /\
  outputs_ok root g_reentrant /\ only_files g_reentrant /\ ~ no_conflict root g_reentrant /\
  validate root g_reentrant = Reject [Conflict].
Proof.
  split; [exact root_clean|].
  split. { intros t o1 o2 [E|[E|[]]] Hp; inversion E; subst; vm_compute in Hp; destruct Hp. }
  split.
  { intro H.
    apply (H (tgt "b" [mkOut OFile (lit "../../ws/p1/a")] "") (mkOut OFile (lit "../../ws/p1/a"))
             (or_intror (or_introl eq_refl)) (or_introl eq_refl)); [discriminate|].
    vm_compute. reflexivity. }
  split.
  { intros t o [E|[E|[]]] Ho _; inversion E; subst; destruct Ho as [<-|[]]; (split; [reflexivity|]);
      exists [lit "p1"; lit "a"]; vm_compute; reflexivity. }
  split.
  { intros t o [E|[E|[]]] Ho; inversion E; subst; destruct Ho as [<-|[]]; reflexivity. }
  split; [exact g_reentrant_conflict | vm_compute; reflexivity].
Qed.

Lemma g_root_dir_conflict : ~ no_conflict root g_root_dir.
Proof.
  intro H.
  specialize (H (tgt "a" [mkOut OFile (lit "a")] "") (tgt "b" [mkOut ODir (lit "..")] "")
                (mkOut OFile (lit "a")) (mkOut ODir (lit ".."))
                (or_introl eq_refl) (or_intror (or_introl eq_refl))).
  assert (Hne : t_label (tgt "a" [mkOut OFile (lit "a")] "") <> t_label (tgt "b" [mkOut ODir (lit "..")] ""))
    by (intro E; vm_compute in E; discriminate E).
  specialize (H Hne (or_introl eq_refl) (or_introl eq_refl)).
  destruct H as [Hr|Hr].
  - exists [lit "p1"; lit "a"]. vm_compute. reflexivity.
  - revert Hr. apply two_no_reach; reflexivity.
  - revert Hr. apply two_no_reach; reflexivity.
Qed.

(* the former witness of F4 meets every guard of [sound_complete_partial] (the guards do not
   exclude a directory output that is the workspace root), has a conflict, and is rejected for it *)
Example root_dir_rejected :
  clean_root root /\ rel_pkgs g_root_dir /\ plain_outputs g_root_dir /\ no_self_overlap root g_root_dir /\
  outputs_ok root g_root_dir /\ ~ no_conflict root g_root_dir /\
  validate root g_root_dir = Reject [Conflict].
Proof.
  split; [exact root_clean|].
  split. { intros t [E|[E|[]]]; inversion E; subst; reflexivity. }
  split. { intros t o [E|[E|[]]] Ho _; inversion E; subst; destruct Ho as [<-|[]]; vm_compute; discriminate. }
  split. { intros t o1 o2 [E|[E|[]]] Hp; inversion E; subst; vm_compute in Hp; destruct Hp. }
  split.
  { intros t o [E|[E|[]]] Ho _; inversion E; subst; destruct Ho as [<-|[]]; (split; [reflexivity|]).
    - exists [lit "p1"; lit "a"]; vm_compute; reflexivity.
    - exists []; vm_compute; reflexivity. }
  split; [exact g_root_dir_conflict | vm_compute; reflexivity].
Qed.

(* the guard of [sound_complete_partial] is met by an accepted graph with directory and file
   outputs side by side (dist / dist2), the file spelled by leaving and re-entering the workspace *)
Definition g_ok : nodes :=
  [NTarget (tgt "a" [mkOut ODir (lit "dist")] "");
   NTarget (tgt "b" [mkOut OFile (lit "../../ws/p1/dist2/app")] "x")].

Example sound_complete_partial_nonvacuous :
  clean_root root /\ no_self_overlap root g_ok /\ ~ plain_outputs g_ok /\
  validate root g_ok = Accept /\ defect_free root g_ok.
Proof.
  assert (H2 : ~ plain_outputs g_ok).
  { intro H.
    apply (H (tgt "b" [mkOut OFile (lit "../../ws/p1/dist2/app")] "x") (mkOut OFile (lit "../../ws/p1/dist2/app"))
             (or_intror (or_introl eq_refl)) (or_introl eq_refl)); [discriminate|].
    vm_compute. reflexivity. }
  assert (H3 : no_self_overlap root g_ok).
  { intros t o1 o2 [E|[E|[]]] Hp; inversion E; subst; vm_compute in Hp.
    - destruct Hp.
    - destruct Hp as [Hp|[]]. inversion Hp; subst. vm_compute. intro Hx. discriminate Hx. }
  assert (H4 : validate root g_ok = Accept) by (vm_compute; reflexivity).
  split; [exact root_clean|]. split; [exact H3|]. split; [exact H2|].
  split; [exact H4|]. apply (accept_sound root g_ok root_clean). exact H4.
Qed.

(* the unguarded equivalence still fails, in ONE direction (F2): a graph free of every listed
   defect is rejected.  The other direction is [accept_sound]. *)
Theorem sound_complete_refuted :
  exists rootc g, clean_root rootc /\ rel_pkgs g /\ defect_free rootc g /\ validate rootc g <> Accept.
Proof.
  exists root, g_same_target. split; [exact root_clean|]. split.
  - intros t [E|[]]. inversion E; subst. reflexivity.
  - split; [exact g_same_target_defect_free | vm_compute; discriminate].
Qed.
End Witness.
