(* Tree.v -- model of grog's output handlers (internal/output/handlers): directory outputs as a
   Merkle tree in the CAS (dir_output_handler.go) and file outputs (file_output_handler.go).
   Definitions only.  The digest function [H] and the deterministic protobuf serialisations
   [ser_dir] / [ser_tree] are Section variables; every theorem that needs them injective states
   so as a hypothesis (Tree_proofs.v).  Concrete injective encoders for execution (extraction,
   vm_compute witnesses) are at the end of the file. *)
From Grog Require Import Str.

(* ------------------------------------------------------------------ file-system trees *)
(* what sits at (or below) an output path.  [exec] = mode & 0111 <> 0: the only mode information
   the property names and the only one the code records. *)
Inductive node :=
| File (content : str) (exec : bool)
| Dir (entries : list (str * node))
| Link (target : str).

(* ------------------------------------------------------------------ proto messages
   internal/proto/schema/{digest,directory}.proto *)
Record digest := mkDigest { d_hash : str; d_size : nat }.
Record file_node := mkFileNode { fn_name : str; fn_digest : digest; fn_exec : bool }.
Record dir_node := mkDirNode { dn_name : str; dn_digest : digest }.
Record link_node := mkLinkNode { ln_name : str; ln_target : str }.
Record dir_msg := mkDirMsg { dm_files : list file_node; dm_dirs : list dir_node; dm_links : list link_node }.
Record tree_msg := mkTreeMsg { tm_root : dir_msg; tm_children : list dir_msg }.
(* internal/proto/schema/target_result.proto: FileOutput (the path is fixed by the target definition) *)
Record file_msg := mkFileMsg { fm_digest : digest; fm_exec : bool }.

(* ------------------------------------------------------------------ generic helpers *)
Section SortBy.
  Variable A : Type.
  Variable key : A -> str.
  (* sort.Slice(entries, Name <) / sort.Strings(digests); keys are distinct wherever it is used *)
  Fixpoint insert_by (x : A) (l : list A) : list A :=
    match l with
    | [] => [x]
    | y :: l' => if str_leb (key x) (key y) then x :: l else y :: insert_by x l'
    end.
  Definition sort_by (l : list A) : list A := fold_right insert_by [] l.
End SortBy.
Arguments insert_by {A} key x l.
Arguments sort_by {A} key l.

(* unicode/utf8.ValidString: protobuf-go refuses to Marshal a proto3 [string] field that is not
   valid UTF-8, so a name or link target that is not valid UTF-8 makes Write fail *)
Definition bt (c : ascii) (lo hi : nat) : bool :=
  Nat.leb lo (byte_of c) && Nat.leb (byte_of c) hi.
Definition cont (c : ascii) : bool := bt c 128 191.
Fixpoint utf8_valid (s : str) : bool :=
  match s with
  | [] => true
  | a :: r =>
      if bt a 0 127 then utf8_valid r
      else match r with
      | b :: r2 =>
          if bt a 194 223 then cont b && utf8_valid r2
          else match r2 with
          | c :: r3 =>
              if bt a 224 224 then bt b 160 191 && cont c && utf8_valid r3
              else if bt a 225 236 || bt a 238 239 then cont b && cont c && utf8_valid r3
              else if bt a 237 237 then bt b 128 159 && cont c && utf8_valid r3
              else match r3 with
              | d :: r4 =>
                  if bt a 240 240 then bt b 144 191 && cont c && cont d && utf8_valid r4
                  else if bt a 241 243 then cont b && cont c && cont d && utf8_valid r4
                  else if bt a 244 244 then bt b 128 143 && cont c && cont d && utf8_valid r4
                  else false
              | [] => false
              end
          | [] => false
          end
      | [] => false
      end
  end.

(* all entry names and link targets below a node are valid UTF-8 *)
Fixpoint names_ok (n : node) : bool :=
  match n with
  | File _ _ => true
  | Link t => utf8_valid t
  | Dir es =>
      (fix go (es : list (str * node)) : bool :=
         match es with
         | [] => true
         | (k, e) :: r => utf8_valid k && names_ok e && go r
         end) es
  end.

(* a directory as the OS can hold it: entry names distinct, non-empty, without '/'.
   (NoDup is what the round-trip proof needs; the other two only say "this is a directory".) *)
Definition name_ok (k : str) : Prop := k <> [] /\ ~ In ch_slash k.
Fixpoint wf_tree (n : node) : Prop :=
  match n with
  | File _ _ => True
  | Link _ => True
  | Dir es =>
      NoDup (map fst es) /\
      (fix go (es : list (str * node)) : Prop :=
         match es with
         | [] => True
         | (k, e) :: r => name_ok k /\ wf_tree e /\ go r
         end) es
  end.

Fixpoint nodupb (l : list str) : bool :=
  match l with [] => true | x :: r => negb (str_in x r) && nodupb r end.
Definition name_okb (k : str) : bool := negb (null k) && negb (mem_ch ch_slash k).
Fixpoint wf_treeb (n : node) : bool :=
  match n with
  | File _ _ => true
  | Link _ => true
  | Dir es =>
      nodupb (map fst es) &&
      (fix go (es : list (str * node)) : bool :=
         match es with
         | [] => true
         | (k, e) :: r => name_okb k && wf_treeb e && go r
         end) es
  end.

(* nesting depth of directories: a directory without sub-directories has depth 1 *)
Fixpoint depth (n : node) : nat :=
  match n with
  | Dir es =>
      S ((fix go (es : list (str * node)) : nat :=
            match es with
            | [] => 0
            | (_, e) :: r => Nat.max (depth e) (go r)
            end) es)
  | _ => 0
  end.

(* the canonical listing of a node: entries in name order at every level (what a recursive,
   sorted listing of the path shows) *)
Fixpoint normalise (n : node) : node :=
  match n with
  | Dir es =>
      Dir (sort_by fst
             ((fix go (es : list (str * node)) : list (str * node) :=
                 match es with
                 | [] => []
                 | (k, e) :: r => (k, normalise e) :: go r
                 end) es))
  | _ => n
  end.

(* every directory strictly below n, each registered after its own descendants
   (writeDirectoryRecursive adds a sub-directory to childrenMap when its recursion returns) *)
Fixpoint subdirs (n : node) : list node :=
  match n with
  | Dir es =>
      (fix go (es : list (str * node)) : list node :=
         match es with
         | [] => []
         | (_, e) :: r =>
             match e with
             | Dir _ => subdirs e ++ [e]
             | _ => []
             end ++ go r
         end) es
  | _ => []
  end.

(* contents of all regular files at or below n (the upload list) *)
Fixpoint files_of (n : node) : list str :=
  match n with
  | File c _ => [c]
  | Link _ => []
  | Dir es =>
      (fix go (es : list (str * node)) : list str :=
         match es with
         | [] => []
         | (_, e) :: r => files_of e ++ go r
         end) es
  end.

(* ------------------------------------------------------------------ the CAS
   caching/cas.go over backends/fs.go: digest -> bytes (file contents and marshalled Trees alike) *)
Definition cas := list (str * str).

Fixpoint cas_get (st : cas) (d : str) : option str :=
  match st with
  | [] => None
  | (k, b) :: r => if str_eqb k d then Some b else cas_get r d
  end.
(* Cas.Write: skipped when the digest already exists *)
Definition cas_put (d : str) (b : str) (st : cas) : cas :=
  match cas_get st d with Some _ => st | None => (d, b) :: st end.
(* fault: a cache entry is lost *)
Definition cas_del (d : str) (st : cas) : cas :=
  filter (fun e => negb (str_eqb (fst e) d)) st.

Inductive result (A : Type) :=
| Done (a : A)      (* Load returned nil; [a] is what now sits at the path *)
| Error             (* Load returned an error (the build falls back to executing the target) *)
| Stuck.            (* Load never returns *)
Arguments Done {A} a.
Arguments Error {A}.
Arguments Stuck {A}.

(* what sits at the output path before a restore (the states C06 names) *)
Inductive dest_state :=
| DAbsent                              (* nothing at the path, parent directory present *)
| DParentAbsent                        (* parent directories missing as well *)
| DFile (content : str) (exec : bool)  (* a regular file (for a directory output: "a file where the directory should be") *)
| DDir (entries : list (str * node)).  (* a directory: the same tree, modified/truncated content, stale extra entries *)

Definition wf_dest (d : dest_state) : Prop :=
  match d with DDir es => wf_tree (Dir es) | _ => True end.

(* ------------------------------------------------------------------ the error channel of Load as
   a transition system (dir_output_handler.go: errChan := make(chan error, 1), and in every download
   goroutine  select { case errChan <- err: default: }  before its deferred waitGroup.Done()).
   State: sends still to be attempted by failing downloaders, buffered errors, capacity. *)
Record chan_state := mkChan { ch_pending : nat; ch_buffered : nat; ch_cap : nat }.
(* the only step before Wait returns: a pending sender puts its error into a free buffer slot, or,
   the buffer being full, takes the default branch and drops it.  Either way it is through. *)
Definition chan_step (s : chan_state) : option chan_state :=
  match ch_pending s with
  | 0 => None
  | S p => if Nat.ltb (ch_buffered s) (ch_cap s) then Some (mkChan p (S (ch_buffered s)) (ch_cap s))
           else Some (mkChan p (ch_buffered s) (ch_cap s))
  end.
(* Wait returns only when no download goroutine is left, i.e. no sender is pending *)
Definition chan_released (s : chan_state) : bool := Nat.eqb (ch_pending s) 0.
Fixpoint chan_run (fuel : nat) (s : chan_state) : chan_state :=
  match fuel with
  | 0 => s
  | S f => match chan_step s with Some s' => chan_run f s' | None => s end
  end.
(* make(chan error, 1) *)
Definition err_chan_cap : nat := 1.

Section Model.
  Variable H : str -> str.               (* hashing.HashBytes / Hasher.SumString: xxh3 or sha256, hex *)
  Variable ser_dir : dir_msg -> str.     (* proto.MarshalOptions{Deterministic}.Marshal of a gen.Directory *)
  Variable ser_tree : tree_msg -> str.   (* ... Marshal of a gen.Tree *)
  Variable deser_tree : str -> option tree_msg.   (* proto.Unmarshal into a gen.Tree *)

  Definition dig (b : str) : digest := mkDigest (H b) (length b).
  Definition child_key (d : dir_msg) : str := H (ser_dir d).

  (* ---------------- write: dir_output_handler.go:225-311 (writeDirectoryRecursive)
     The code sorts the entries by name and then appends each to one of three lists; the model
     splits first and sorts each list by name, which yields the same three lists. *)
  Fixpoint dir_msg_of (n : node) : dir_msg :=
    match n with
    | Dir es =>
        let fs := (fix go (es : list (str * node)) : list file_node :=
                     match es with
                     | [] => []
                     | (k, e) :: r =>
                         match e with
                         | File c x => [mkFileNode k (dig c) x]     (* is_executable = mode&0111 != 0 *)
                         | _ => []
                         end ++ go r
                     end) es in
        let ds := (fix go (es : list (str * node)) : list dir_node :=
                     match es with
                     | [] => []
                     | (k, e) :: r =>
                         match e with
                         | Dir _ => [mkDirNode k (dig (ser_dir (dir_msg_of e)))]   (* computeDirectoryDigest *)
                         | _ => []
                         end ++ go r
                     end) es in
        let ls := (fix go (es : list (str * node)) : list link_node :=
                     match es with
                     | [] => []
                     | (k, e) :: r =>
                         match e with
                         | Link t => [mkLinkNode k t]
                         | _ => []
                         end ++ go r
                     end) es in
        mkDirMsg (sort_by fn_name fs) (sort_by dn_name ds) (sort_by ln_name ls)
    | _ => mkDirMsg [] [] []
    end.

  (* childrenMap: keyed by digest, first registration wins *)
  Fixpoint dedup_keys (seen : list str) (l : list (str * dir_msg)) : list (str * dir_msg) :=
    match l with
    | [] => []
    | (k, v) :: r => if str_in k seen then dedup_keys seen r else (k, v) :: dedup_keys (k :: seen) r
    end.

  Definition children_of (t : node) : list dir_msg :=
    map snd (sort_by fst (dedup_keys [] (map (fun d => (child_key d, d)) (map dir_msg_of (subdirs t))))).

  (* tree = {root, children sorted by digest} *)
  Definition tree_msg_of (t : node) : tree_msg := mkTreeMsg (dir_msg_of t) (children_of t).
  Definition tree_digest (t : node) : str := H (ser_tree (tree_msg_of t)).

  Definition cas_put_files (cs : list str) (st : cas) : cas :=
    fold_right (fun c s => cas_put (H c) c s) st cs.

  (* Write: None = error (path is not a directory: ReadDir fails; a name or link target is not
     valid UTF-8: Marshal fails).  Returns the new store and the tree digest recorded in the
     DirectoryOutput message. *)
  Definition write_tree (t : node) (st : cas) : option (cas * str) :=
    match t with
    | Dir _ =>
        if names_ok t then
          let m := tree_msg_of t in
          Some (cas_put (H (ser_tree m)) (ser_tree m) (cas_put_files (files_of t) st), H (ser_tree m))
        else None
    | _ => None
    end.

  (* ---------------- load: dir_output_handler.go:348-529 *)
  (* childrenMap[digest] = child for each tree.Children entry in order: the last one wins *)
  Fixpoint cm_lookup (cm : list (str * dir_msg)) (k : str) : option dir_msg :=
    match cm with
    | [] => None
    | (k', v) :: r =>
        match cm_lookup r k with
        | Some v' => Some v'
        | None => if str_eqb k' k then Some v else None
        end
    end.

  (* downloadFile for every file node of one directory: the files that arrive ... *)
  Fixpoint loaded_files (st : cas) (l : list file_node) : list (str * node) :=
    match l with
    | [] => []
    | f :: r =>
        match cas_get st (d_hash (fn_digest f)) with
        | Some b => (fn_name f, File b (fn_exec f)) :: loaded_files st r   (* Create, Copy, Chmod 0644|0755 *)
        | None => loaded_files st r
        end
    end.
  (* ... and the number of download goroutines that have an error to send *)
  Fixpoint failed_files (st : cas) (l : list file_node) : nat :=
    match l with
    | [] => 0
    | f :: r =>
        match cas_get st (d_hash (fn_digest f)) with
        | Some _ => failed_files st r
        | None => S (failed_files st r)
        end
    end.

  (* the loop over dir.Directories: MkdirAll, child looked up in the map (absent => error), recursion *)
  Fixpoint load_dirs (rec : dir_msg -> option (list (str * node) * nat)) (cm : list (str * dir_msg))
           (l : list dir_node) : option (list (str * node) * nat) :=
    match l with
    | [] => Some ([], 0)
    | dn :: r =>
        match cm_lookup cm (d_hash (dn_digest dn)) with
        | None => None
        | Some child =>
            match rec child with
            | None => None
            | Some (es, k) =>
                match load_dirs rec cm r with
                | None => None
                | Some (rest, k') => Some ((dn_name dn, Dir es) :: rest, k + k')
                end
            end
        end
    end.

  (* loadDirectoryRecursive.  None = it returned an error itself (child digest not in the map;
     fuel exhausted = path deeper than the OS accepts, MkdirAll fails).  Some (entries, k):
     the entries created and the number k of download goroutines, over the whole recursion,
     that send one error each into errChan. *)
  Fixpoint load_dir (fuel : nat) (cm : list (str * dir_msg)) (st : cas) (d : dir_msg)
    : option (list (str * node) * nat) :=
    match fuel with
    | 0 => None
    | S fuel' =>
        match load_dirs (load_dir fuel' cm st) cm (dm_dirs d) with
        | None => None
        | Some (ds, k) =>
            Some (sort_by fst (loaded_files st (dm_files d) ++ ds ++
                               map (fun l => (ln_name l, Link (ln_target l))) (dm_links d)),
                  failed_files st (dm_files d) + k)
        end
    end.

  (* Load after the tree blob has been read: RemoveAll, MkdirAll, recursion, then
       waitGroup.Wait(); close(errChan); first error wins.
     Every failing download goroutine attempts one NON-BLOCKING send into errChan (capacity 1) before
     its deferred waitGroup.Done(); nobody receives until Wait has returned.  The outcome is read off
     the channel system above, run from k pending senders and an empty buffer: Wait returns iff no
     sender is left pending (Stuck otherwise -- proved impossible in Tree_proofs.v), and then the
     call returns the buffered error if there is one.  An error returned by the recursion itself
     is returned at once, without waiting. *)
  Definition load_tree_msg (maxdepth : nat) (m : tree_msg) (st : cas) : result node :=
    let cm := map (fun c => (child_key c, c)) (tm_children m) in
    match load_dir maxdepth cm st (tm_root m) with
    | None => Error
    | Some (es, failed) =>
        let s := chan_run failed (mkChan failed 0 err_chan_cap) in
        if chan_released s then
          if Nat.eqb (ch_buffered s) 0 then Done (Dir es) else Error
        else Stuck
    end.

  Definition fetch_tree (maxdepth : nat) (ref : str) (st : cas) : result node :=
    match cas_get st ref with
    | Some b =>
        match deser_tree b with
        | Some m => load_tree_msg maxdepth m st
        | None => Error        (* "failed to unmarshal tree" *)
        end
    | None => Error            (* "failed to read tree from cache" *)
    end.

  (* Load: skip when the local directory already hashes to the stored tree digest
     (getDirectoryHash error, e.g. not a directory or an unmarshalable name, counts as "differs") *)
  Definition load_tree (maxdepth : nat) (ref : str) (st : cas) (dest : dest_state) : result node :=
    match dest with
    | DDir es =>
        if names_ok (Dir es) && str_eqb (tree_digest (Dir es)) ref
        then Done (normalise (Dir es))
        else fetch_tree maxdepth ref st
    | _ => fetch_tree maxdepth ref st   (* RemoveAll + MkdirAll(dirPath) create whatever is missing *)
    end.

  (* number of failing downloads (each attempts one send into errChan) *)
  Definition load_failures (maxdepth : nat) (m : tree_msg) (st : cas) : option nat :=
    match load_dir maxdepth (map (fun c => (child_key c, c)) (tm_children m)) st (tm_root m) with
    | None => None
    | Some (_, k) => Some k
    end.

  (* every file blob the tree message refers to is in the store *)
  Definition blobs_present (m : tree_msg) (st : cas) : Prop :=
    forall d, In d (tm_root m :: tm_children m) ->
    forall f, In f (dm_files d) -> cas_get st (d_hash (fn_digest f)) <> None.

  (* ---------------- file outputs: file_output_handler.go *)
  (* Write: digest = HashFile, CAS write, FileOutput{path, digest, is_executable = mode&0111 != 0}. *)
  Definition file_write (content : str) (exec : bool) (st : cas) : cas * file_msg :=
    (cas_put (H content) content st, mkFileMsg (dig content) exec).

  (* Load: if the file at the path hashes to the digest the content stays and only the exec bit is
     brought to the recorded one (Stat; Chmod 0644|0755 when it differs); else CAS read,
     MkdirAll(parent) (since bb649a3), a directory sitting at the path is removed with everything in
     it (Lstat + RemoveAll, since the repair of C06-F3; only after the blob was found, so a failed
     restore leaves the path as it was), os.Create(path) (existing file => truncated), copy,
     Chmod 0644|0755 from is_executable. *)
  Definition file_load (m : file_msg) (st : cas) (dest : dest_state) : result node :=
    match dest with
    | DFile c _ =>
        if str_eqb (H c) (d_hash (fm_digest m)) then Done (File c (fm_exec m))
        else match cas_get st (d_hash (fm_digest m)) with
             | Some b => Done (File b (fm_exec m))
             | None => Error
             end
    | DAbsent | DParentAbsent | DDir _ =>
        match cas_get st (d_hash (fm_digest m)) with
        | Some b => Done (File b (fm_exec m))
        | None => Error
        end
    end.

  (* the exec bit found at the path before a restore (what a restore ended with before
     FileOutput.is_executable was recorded; kept for the driver's report) *)
  Definition file_restore_exec (dest : dest_state) : bool :=
    match dest with DFile _ x => x | _ => false end.
  (* the path already holds the recorded content (the only case in which Load does not read the store) *)
  Definition file_in_place (m : file_msg) (dest : dest_state) : bool :=
    match dest with DFile c _ => str_eqb (H c) (d_hash (fm_digest m)) | _ => false end.
End Model.

(* ------------------------------------------------------------------ concrete injective encoders
   (stand-ins for the hash and for protobuf, used for execution only: the harness compares
   structure -- listings and outcome classes -- never digests) *)
Definition c1 : ascii := "1"%char.
Definition c0 : ascii := "0"%char.
Definition enc_nat (n : nat) : str := repeat c1 n ++ [c0].
Definition enc_str (s : str) : str := enc_nat (length s) ++ s.
Definition enc_bool (b : bool) : str := [if b then c1 else c0].
Definition enc_list {A} (f : A -> str) (l : list A) : str := enc_nat (length l) ++ concat (map f l).
Definition enc_digest (d : digest) : str := enc_str (d_hash d) ++ enc_nat (d_size d).
Definition enc_file_node (f : file_node) : str := enc_str (fn_name f) ++ enc_digest (fn_digest f) ++ enc_bool (fn_exec f).
Definition enc_dir_node (d : dir_node) : str := enc_str (dn_name d) ++ enc_digest (dn_digest d).
Definition enc_link_node (l : link_node) : str := enc_str (ln_name l) ++ enc_str (ln_target l).
Definition enc_dir (d : dir_msg) : str :=
  enc_list enc_file_node (dm_files d) ++ enc_list enc_dir_node (dm_dirs d) ++ enc_list enc_link_node (dm_links d).
Definition enc_tree (m : tree_msg) : str := enc_dir (tm_root m) ++ enc_list enc_dir (tm_children m).
Definition Hid (s : str) : str := s.

(* decoders: dec_x (enc_x v ++ rest) = Some (v, rest) *)
Fixpoint dec_nat (s : str) : option (nat * str) :=
  match s with
  | [] => None
  | a :: r =>
      if Ascii.eqb a c0 then Some (0, r)
      else if Ascii.eqb a c1 then
        match dec_nat r with Some (n, r') => Some (S n, r') | None => None end
      else None
  end.
Definition dec_str (s : str) : option (str * str) :=
  match dec_nat s with
  | Some (n, r) => if Nat.leb n (length r) then Some (firstn n r, skipn n r) else None
  | None => None
  end.
Definition dec_bool (s : str) : option (bool * str) :=
  match s with
  | [] => None
  | a :: r => if Ascii.eqb a c1 then Some (true, r) else if Ascii.eqb a c0 then Some (false, r) else None
  end.
Fixpoint dec_n {A} (dec : str -> option (A * str)) (n : nat) (s : str) : option (list A * str) :=
  match n with
  | 0 => Some ([], s)
  | S n' =>
      match dec s with
      | Some (x, r) => match dec_n dec n' r with Some (l, r') => Some (x :: l, r') | None => None end
      | None => None
      end
  end.
Definition dec_list {A} (dec : str -> option (A * str)) (s : str) : option (list A * str) :=
  match dec_nat s with Some (n, r) => dec_n dec n r | None => None end.
Definition dec_digest (s : str) : option (digest * str) :=
  match dec_str s with
  | Some (h, r) => match dec_nat r with Some (n, r') => Some (mkDigest h n, r') | None => None end
  | None => None
  end.
Definition dec_file_node (s : str) : option (file_node * str) :=
  match dec_str s with
  | Some (k, r) =>
      match dec_digest r with
      | Some (d, r') => match dec_bool r' with Some (x, r'') => Some (mkFileNode k d x, r'') | None => None end
      | None => None
      end
  | None => None
  end.
Definition dec_dir_node (s : str) : option (dir_node * str) :=
  match dec_str s with
  | Some (k, r) => match dec_digest r with Some (d, r') => Some (mkDirNode k d, r') | None => None end
  | None => None
  end.
Definition dec_link_node (s : str) : option (link_node * str) :=
  match dec_str s with
  | Some (k, r) => match dec_str r with Some (t, r') => Some (mkLinkNode k t, r') | None => None end
  | None => None
  end.
Definition dec_dir (s : str) : option (dir_msg * str) :=
  match dec_list dec_file_node s with
  | Some (fs, r) =>
      match dec_list dec_dir_node r with
      | Some (ds, r') => match dec_list dec_link_node r' with Some (ls, r'') => Some (mkDirMsg fs ds ls, r'') | None => None end
      | None => None
      end
  | None => None
  end.
Definition dec_tree (s : str) : option tree_msg :=
  match dec_dir s with
  | Some (root, r) =>
      match dec_list dec_dir r with
      | Some (cs, []) => Some (mkTreeMsg root cs)
      | _ => None
      end
  | None => None
  end.

(* PATH_MAX / 2: no directory tree reachable through an absolute path nests deeper *)
Definition max_depth : nat := 2048.

Definition x_write_tree := write_tree Hid enc_dir enc_tree.
Definition x_load_tree := load_tree Hid enc_dir enc_tree dec_tree max_depth.
Definition x_fetch_tree := fetch_tree Hid enc_dir dec_tree max_depth.
Definition x_file_write := file_write Hid.
Definition x_file_load := file_load Hid.
Definition x_tree_msg_of := tree_msg_of Hid enc_dir.
Definition x_load_failures := load_failures Hid enc_dir max_depth.
Definition x_file_key (c : str) : str := Hid c.
